(* C16, request side after a REFUSED CONNECT: REQ_CONNECT_WAIT_RESPONSE sees a status outside 200..299 and hands over to
   REQ_FINALIZE; the CONNECT transaction (whose response is complete already) is completed and finalised there
   (TRANSACTION_COMPLETE hook, htp_tx_destroy when tx_auto_destroy is set), and the request side is between two requests:
   from here on the pipeline of PTunSegPipeRun.v runs, shifted by the one slot of the CONNECT transaction (Section Resume).
   The same after an ACCEPTED CONNECT (2xx) when REQ_CONNECT_PROBE_DATA finds that the client's first line starts with a method
   htp_convert_method_to_number knows: no tunnel, the CONNECT transaction is completed, normal parsing resumes (Section ResumeP). *)
Require Import Htp.Model.Base Htp.Model.MBstr Htp.Model.MConnTypes Htp.Model.MTxCommon Htp.Model.MReqLine Htp.Model.MReqUri Htp.Model.MTxReq.
Require Import Htp.Model.MReq Htp.Model.MRes Htp.Model.MConnp.
Require Import Htp.Spec.SWire Htp.Proof.PWire Htp.Proof.PWireHdr Htp.Proof.PWireBlock Htp.Proof.PWireConn Htp.Proof.PWireExch.
Require Import Htp.Proof.PWireRun Htp.Proof.PWirePres Htp.Proof.PWireGlue Htp.Proof.PSeg Htp.Proof.PSegLine Htp.Proof.PSegHdr Htp.Proof.PSegGen Htp.Proof.PSegRun.
Require Import Htp.Proof.PSegFold Htp.Proof.PSegPipe Htp.Proof.PReq Htp.Proof.PConnp.
Require Import Htp.Proof.PTunBase Htp.Proof.PTunSeg Htp.Proof.PTunSegLine Htp.Proof.PTunSegHdr Htp.Proof.PTunSegFold Htp.Proof.PTunSegRun Htp.Proof.PTunSegPipe Htp.Proof.PTunSegMid Htp.Proof.PTunReq.
Require Import Htp.Proof.PTunProbe Htp.Proof.PTunSegPipeRun.

(* the slot of a transaction that is complete in both directions, after htp_tx_finalize *)
Definition tn_done_slot (g : cfg) (t : tx) : option tx :=
  if g_tx_auto_destroy g then None else Some (t <| t_request_progress := c_HTP_REQUEST_COMPLETE |>).

Section ResumeOne.
Variable cb : cb_oracle.
Variable g : cfg.
Hypothesis Hcb : wr_all_ok cb.
Context {w : tg_world}.
Notation tg_cin := (tg_cinw w).
Notation tg_mid := (tg_midw w).
Hypothesis Hotx : c_out_tx (ax_rs (gw_aux w)) = None.

(* ---- REQ_CONNECT_WAIT_RESPONSE: the answer is there and its status is not 2xx ---- *)
Lemma tn_pass_wait_refused c d rd p prev t : tg_cin c d rd p None REQ_CONNECT_WAIT_RESPONSE prev None t ->
  (c_HTP_RESPONSE_LINE < t_response_progress t)%Z ->
  ((200 <=? t_response_status_number t)%Z && (t_response_status_number t <=? 299)%Z) = false ->
  exists c', rq_iter cb g false c = inr c' /\ tg_cin c' d rd p None REQ_FINALIZE (Some REQ_FINALIZE) None t.
Proof.
  intros H Hp H1. pose proof (tg_cin_slot _ _ _ _ _ _ _ _ _ H) as Hsl.
  apply (tg_iter_ok cb g c (c <| c_in_state := REQ_FINALIZE |>) d rd p None _ prev None t); [|eapply tg_cin_state; exact H|discriminate].
  rewrite (gi_state _ _ _ _ _ _ _ _ _ H). cbn [rq_state_fn]. unfold REQ_CONNECT_WAIT_RESPONSE_fn, rq_tx, in_txi, tx_get.
  rewrite (gi_tx _ _ _ _ _ _ _ _ _ H), Hsl. apply Z.leb_gt in Hp. rewrite Hp, H1. reflexivity.
Qed.

(* ---- htp_tx_state_request_complete on a transaction whose response is complete already: htp_tx_finalize runs ---- *)
Lemma tn_request_complete_done c d rd p st prev t : tg_cin c d rd p None st prev None t ->
  t_request_transfer_coding t = c_HTP_CODING_NO_BODY -> t_request_progress t = c_HTP_REQUEST_HEADERS ->
  t_response_progress t = c_HTP_RESPONSE_COMPLETE -> t_is_protocol_0_9 t = false ->
  exists c', rq_request_complete cb g c = (ST_OK, c') /\
    tg_idl c' d rd p (gw_done w ++ [tn_done_slot g t]) (gw_aux w) prev /\
    c_events c' = mkev H_TRANSACTION_COMPLETE (length (gw_done w)) None false (Some (t <| t_request_progress := c_HTP_REQUEST_COMPLETE |>)) ::
                  mkev H_REQUEST_COMPLETE (length (gw_done w)) None false None :: c_events c.     (* the log is kept newest first *)
Proof.
  intros H Htc Hprog Hresp H09. pose proof (tg_cin_slot _ _ _ _ _ _ _ _ _ H) as Hsl. pose proof H as [A1 A2 A3 A4 A5 A6 A7 A8 A9 A10 A11 A12 A13 A14 A15 A16 A17].
  unfold rq_request_complete, rq_with_tx. rewrite A13.
  unfold tx_state_request_complete. rewrite Hsl, Hprog.
  change ((c_HTP_REQUEST_HEADERS =? c_HTP_REQUEST_COMPLETE)%Z) with false. cbn [negb].
  unfold tx_state_request_complete_partial, tx_get. rewrite Hsl.
  unfold tx_req_has_body. rewrite Htc.
  change ((c_HTP_CODING_NO_BODY =? c_HTP_CODING_IDENTITY)%Z) with false. change ((c_HTP_CODING_NO_BODY =? c_HTP_CODING_CHUNKED)%Z) with false. cbn [orb].
  rewrite (tg_tx_upd_at c d rd _ _ _ _ _ t _ H).
  rewrite (wr_run_hook cb Hcb). unfold req_receiver_finalize_clear.
  set (t' := t <| t_request_progress := c_HTP_REQUEST_COMPLETE |>).
  match goal with |- context [wr_hook_ev H_REQUEST_COMPLETE ?i None false ?x] => set (c2 := wr_hook_ev H_REQUEST_COMPLETE i None false x) end.
  change (k_receiver_hook (c_in c2)) with (k_receiver_hook (c_in c)). rewrite A11.
  assert (X2 : c_txs c2 = gw_done w ++ [Some t']) by reflexivity. assert (Y2 : c_txs_shifted c2 = 0%nat) by exact A15.
  rewrite (sg_slot_at c2 _ _ X2 Y2). change (t_is_protocol_0_9 t') with (t_is_protocol_0_9 t). rewrite H09.
  unfold tx_finalize.
  set (c3 := c2 <| c_in_state := REQ_IDLE |>).
  assert (X3 : c_txs c3 = gw_done w ++ [Some t']) by reflexivity.
  assert (Y3 : c_txs_shifted c3 = 0%nat) by exact A15.
  rewrite (sg_slot_at _ _ _ X3 Y3).
  assert (Ec : tx_is_complete t' = true).
  { unfold tx_is_complete. change (t_response_progress t') with (t_response_progress t). rewrite Hresp. reflexivity. }
  rewrite Ec. cbn [negb]. unfold run_hook_ex. rewrite Hcb.
  set (c4 := emit (bump_hook c3 H_TRANSACTION_COMPLETE) (mkev H_TRANSACTION_COMPLETE (length (gw_done w)) None false (Some t'))).
  assert (X4 : c_txs c4 = gw_done w ++ [Some t']) by reflexivity.
  assert (Y4 : c_txs_shifted c4 = 0%nat) by exact A15.
  rewrite (sg_slot_at _ _ _ X4 Y4).
  destruct A17 as (A17 & A18 & A19).
  assert (Ot : c_out_tx c = None) by (rewrite <- Hotx, <- A18; reflexivity).
  set (c5 := if g_tx_auto_destroy g then tx_destroy c4 (length (gw_done w)) else c4).
  assert (H5 : c_txs c5 = gw_done w ++ [tn_done_slot g t] /\ c_in_status c5 = c_in_status c /\ c_in_state c5 = REQ_IDLE /\
               c_in_state_previous c5 = c_in_state_previous c /\ c_in c5 = c_in c /\ c_txs_shifted c5 = 0%nat /\ c_conn_flags c5 = c_conn_flags c /\
               c_out_next_tx_index c5 = c_out_next_tx_index c /\ tn_rs c5 = tn_rs c /\ c_in_content_length c5 = c_in_content_length c /\
               c_events c5 = c_events c4).
  { unfold c5, tn_done_slot. destruct (g_tx_auto_destroy g).
    - unfold tx_destroy. rewrite (sg_slot_at _ _ _ X4 Y4), Ec. unfold tx_destroy_incomplete.
      rewrite Y4. assert (E0 : (length (gw_done w) <? 0)%nat = false) by reflexivity. rewrite E0, Nat.sub_0_r.
      match goal with |- context [c_in_tx ?x] => change (c_in_tx x) with (c_in_tx c) end. rewrite A13, Nat.eqb_refl.
      match goal with |- context [c_out_tx ?x] => change (c_out_tx x) with (c_out_tx c) end. rewrite Ot.
      cbn [c_txs set]. rewrite X4, wr_upd_app_exact.
      split; [reflexivity|]. repeat (split; [reflexivity|]). split; [exact A15|]. repeat (split; [reflexivity|]). reflexivity.
    - split; [exact X4|]. repeat (split; [reflexivity|]). split; [exact A15|]. repeat (split; [reflexivity|]). reflexivity. }
  destruct H5 as (T5 & S5 & St5 & P5 & I5 & Sh5 & F5 & N5 & R5 & L5 & E5). clearbody c5.
  eexists. split; [reflexivity|]. split.
  - constructor; cbn [c_in_status c_in_state c_in_state_previous c_in c_in_tx c_txs c_txs_shifted c_conn_flags c_out_next_tx_index c_in_content_length set];
      rewrite ?S5, ?St5, ?P5, ?I5, ?Sh5, ?F5, ?N5, ?L5; try assumption; try reflexivity.
    split; [exact A17|]. split; [|exact A19]. rewrite <- A18, <- R5. reflexivity.
  - cbn [c_events set]. rewrite E5. unfold c4, c3, c2. cbn [emit bump_hook wr_hook_ev c_events set tg_settx]. cbn. reflexivity.
Qed.

(* ---- REQ_FINALIZE of that transaction: the next line starts with a known method ---- *)
Lemma tn_fin_probe_done c d rd p t u1 u2 m' rest' : tg_cin c d rd p None REQ_FINALIZE (Some REQ_FINALIZE) None t -> k_consume (c_in c) = rd ->
  skipn rd d = u1 ++ LF :: u2 -> sg_no_lf u1 = true -> p ++ u1 = m' ++ SP :: rest' -> wr_token m' = true ->
  (htp_convert_method_to_number m' =? c_HTP_M_UNKNOWN)%Z = false -> (length (p ++ u1) <= g_field_limit_hard g)%nat ->
  t_request_transfer_coding t = c_HTP_CODING_NO_BODY -> t_request_progress t = c_HTP_REQUEST_HEADERS ->
  t_response_progress t = c_HTP_RESPONSE_COMPLETE -> t_is_protocol_0_9 t = false ->
  exists c6, rq_iter cb g false c = inr c6 /\
    tg_idl c6 d (rd + length u1) (p ++ u1) (gw_done w ++ [tn_done_slot g t]) (gw_aux w) (Some REQ_IDLE).
Proof.
  intros H Hc Hu Hnl Hp Wm Hk Hlim Htc Hprog Hresp H09.
  assert (Es : c_in_state c = REQ_FINALIZE) by apply (gi_state _ _ _ _ _ _ _ _ _ H).
  assert (Hlt' : (rd < length d)%nat).
  { destruct (Nat.lt_ge_cases rd (length d)) as [L|L]; [exact L|]. rewrite skipn_all2 in Hu by lia. destruct u1; discriminate. }
  assert (Ln : (length u1 <= length d - rd)%nat).
  { assert (L : length (skipn rd d) = length (u1 ++ LF :: u2)) by (rewrite Hu; reflexivity). rewrite skipn_length, app_length in L. cbn [length] in L. lia. }
  destruct (tg_peek_copy_lf d None _ _ _ t u2 u1 _ rd p (length d - rd) (tg_cin_next _ _ _ _ _ _ _ _ _ (nth_error d rd) H) Hu Hnl Ln) as (c1 & E1 & H1).
  destruct (tg_consolidate g c1 d _ _ None _ _ _ t H1) as (c2 & E2 & H2); [cbn [sg_olist length]; lia|].
  destruct (wr_token_split m' Wm) as (m0 & mr & Em & _).
  destruct (sg_probe_method m' rest' Wm) as [Pm Ps].
  assert (Hbd : tg_cin (c2 <| c_in_body_data_left := (-1)%Z |>) d (rd + length u1) (p ++ u1) None REQ_FINALIZE (Some REQ_FINALIZE) None t) by (apply tg_cin_bdl; exact H2).
  destruct (tn_request_complete_done _ d _ _ _ _ t Hbd Htc Hprog Hresp H09) as (c3 & E3 & H3 & _).
  apply (tg_iter_idle cb g c c3 d _ _ _ _ (Some REQ_FINALIZE)); [|exact H3].
  rewrite Es. cbn [rq_state_fn]. unfold REQ_FINALIZE_fn. rewrite (tg_fin_scan c d rd p t H Hc Hlt'), E1, E2.
  rewrite Hp.
  assert (Hm : forall (A B : st * connp), match m' ++ SP :: rest' with [] => A | _ :: _ => B end = B) by (intros; rewrite Em; reflexivity).
  rewrite Hm, Pm, Ps, Hk.
  assert (L0 : (0 <? length m')%nat = true) by (rewrite Em; reflexivity). rewrite L0. cbn [andb negb]. exact E3.
Qed.
(* ---- REQ_CONNECT_PROBE_DATA: the client's first line after a 2xx answer starts with a known method: no tunnel, the CONNECT
        transaction is complete and the bytes looked at remain for REQ_LINE ---- *)
Lemma tn_probe_resume c d rd p t u1 u2 m' rest' : tg_cin c d rd p None REQ_CONNECT_PROBE_DATA (Some REQ_CONNECT_PROBE_DATA) None t ->
  skipn rd d = u1 ++ LF :: u2 -> tn_nostop u1 = true -> p ++ u1 = m' ++ SP :: rest' -> wr_token m' = true ->
  (htp_convert_method_to_number m' =? c_HTP_M_UNKNOWN)%Z = false -> (length (p ++ u1) <= g_field_limit_hard g)%nat ->
  t_request_transfer_coding t = c_HTP_CODING_NO_BODY -> t_request_progress t = c_HTP_REQUEST_HEADERS ->
  t_response_progress t = c_HTP_RESPONSE_COMPLETE -> t_is_protocol_0_9 t = false ->
  exists c6, rq_iter cb g false c = inr c6 /\
    tg_idl c6 d (rd + length u1) (p ++ u1) (gw_done w ++ [tn_done_slot g t]) (gw_aux w) (Some REQ_IDLE).
Proof.
  intros H Hu Hnl Hp Wm Hk Hlim Htc Hprog Hresp H09.
  assert (Es : c_in_state c = REQ_CONNECT_PROBE_DATA) by apply (gi_state _ _ _ _ _ _ _ _ _ H).
  assert (Ln : (length u1 <= length d - rd)%nat).
  { assert (L : length (skipn rd d) = length (u1 ++ LF :: u2)) by (rewrite Hu; reflexivity). rewrite skipn_length, app_length in L. cbn [length] in L. lia. }
  destruct (tn_peek_copy_stop d None _ _ _ t LF u2 eq_refl u1 c rd p (length d - rd) H Hu Hnl Ln) as (c1 & E1 & H1).
  destruct (tg_consolidate g c1 d _ _ None _ _ _ t H1) as (c2 & E2 & H2); [cbn [sg_olist length]; lia|].
  destruct (sg_probe_method m' rest' Wm) as [Pm Ps].
  destruct (tn_request_complete_done _ d _ _ _ _ t H2 Htc Hprog Hresp H09) as (c3 & E3 & H3 & _).
  apply (tg_iter_idle cb g c c3 d _ _ _ _ (Some REQ_CONNECT_PROBE_DATA)); [|exact H3].
  rewrite Es. cbn [rq_state_fn]. unfold REQ_CONNECT_PROBE_DATA_fn.
  rewrite (gi_len _ _ _ _ _ _ _ _ _ H), (gi_read _ _ _ _ _ _ _ _ _ H). change (fun b => (b =? LF)%N || (b =? 0)%N) with tn_stopb. rewrite E1, E2.
  rewrite Hp, Pm, Ps, Hk. cbn [negb]. exact E3.
Qed.
End ResumeOne.

(* ================= the requests after the refused CONNECT, any chunking ================= *)
Section Resume.
Variable cb : cb_oracle.
Variable g : cfg.
Hypothesis Hcb : wr_all_ok cb.
Hypothesis Hspace : g_allow_space_uri g = false.
Variable all : list wr_request.
Variable r1 : wr_request.
Variable rs1 : list wr_request.
Hypothesis Eall0 : all = r1 :: rs1.
Hypothesis Hok : Forall (fun r => sg_req_ok g r = true) all.
Variable T : tx.                                           (* the CONNECT transaction, its response complete *)
Variable a3 : tg_aux.
Hypothesis Hmax : (g_max_tx g = 0 \/ 1 + length all < g_max_tx g)%nat.
Hypothesis Hst : tn_stable (c_out (ax_rs a3)).
Hypothesis Hotx : c_out_tx (ax_rs a3) = None.
Hypothesis HTtc : t_request_transfer_coding T = c_HTP_CODING_NO_BODY.
Hypothesis HTpg : t_request_progress T = c_HTP_REQUEST_HEADERS.
Hypothesis HTrp : t_response_progress T = c_HTP_RESPONSE_COMPLETE.
Hypothesis HT09 : t_is_protocol_0_9 T = false.
Hypothesis HTsn : ((200 <=? t_response_status_number T)%Z && (t_response_status_number T <=? 299)%Z) = false.
Notation w3 := (mk_tg_world [] a3).
Notation pre0 := [tn_done_slot g T].

Inductive tf_betw (c : connp) (rw : bytes) : Prop :=
| FB_wait : tn_waitw w3 c T -> rw = sg_pwires all -> tf_betw c rw
| FB_fin p q : tg_midw w3 c p None REQ_FINALIZE None T -> p ++ q = sg_line0 r1 ++ [CR; LF] -> q <> [] -> rw = q ++ sg_bwt r1 rs1 -> tf_betw c rw
| FB_pipe rsd rs : all = rsd ++ rs -> tg_pbetween g pre0 a3 rsd rs c rw -> tf_betw c rw.

Lemma tf_max : (g_max_tx g = 0 \/ length pre0 + length all < g_max_tx g)%nat.
Proof. exact Hmax. Qed.

(* ---- REQ_FINALIZE of the CONNECT transaction at the beginning of a chunk ---- *)
Lemma tf_run_fin c d p q (rw' : bytes) fuel :
  tg_cinw w3 c d 0 p None REQ_FINALIZE (Some REQ_FINALIZE) None T -> k_consume (c_in c) = 0%nat -> (0 < length d)%nat ->
  p ++ q = sg_line0 r1 ++ [CR; LF] -> q <> [] -> d ++ rw' = q ++ sg_bwt r1 rs1 -> (16 * length d + 9 <= fuel)%nat ->
  exists cF rc, rq_loop cb g fuel false c = (cF, rc) /\ tf_betw cF rw'.
Proof.
  intros H Hc Hlt Hpq Hq Hw Hf.
  assert (Ok1 : sg_req_ok g r1 = true) by (rewrite Eall0 in Hok; exact (Forall_inv Hok)).
  destruct (sg_req_ok_parts g r1 Ok1) as (Wr' & Hk' & Wl' & _ & _ & _ & Hl0' & _).
  destruct (wr_reqline_bytes _ _ _ Wl') as (Hnolf & _). fold (sg_line0 r1) in Hnolf.
  assert (Eb : sg_line0 r1 ++ [CR; LF] = (sg_line0 r1 ++ [CR]) ++ [LF]) by (rewrite <- app_assoc; reflexivity).
  assert (Es0 : skipn 0 d = d) by reflexivity.
  destruct (sg_app_cases d rw' q _ Hw) as [Clt Cge].
  destruct (Nat.lt_ge_cases (length d) (length q)) as [Llt|Lge].
  - (* no LF in the chunk *)
    destruct (Clt Llt) as (q2 & Eq & Hq2 & Erw).
    assert (Nu : sg_no_lf (skipn 0 d) = true).
    { rewrite Es0. rewrite Eq, Eb, app_assoc in Hpq. destruct (sg_app_last _ _ _ _ Hpq Hq2) as (q3 & _ & E3). unfold sg_no_lf. rewrite <- E3, <- app_assoc, !forallb_app in Hnolf.
      apply andb_prop in Hnolf. destruct Hnolf as [_ Nb]. apply andb_prop in Nb. apply Nb. }
    assert (Lim : (length (p ++ skipn 0 d) <= g_field_limit_hard g)%nat).
    { rewrite Es0. assert (L : length (p ++ q) = (length (sg_line0 r1) + 2)%nat) by (rewrite Hpq, app_length; reflexivity). rewrite app_length in L. rewrite app_length. lia. }
    destruct (tg_fin_buffer cb g Hcb c d 0 p _ H Hc Hlt Nu Lim) as (cF & EF & HF).
    destruct fuel as [|f]; [lia|].
    eexists _, _. split; [rewrite (sg_rq_loop_inl cb g _ _ _ EF); reflexivity|].
    rewrite Es0 in HF. apply (FB_fin _ _ (p ++ d) q2 HF); [rewrite <- app_assoc, <- Eq; exact Hpq|exact Hq2|exact Erw].
  - (* the LF of the next request line is in the chunk *)
    destruct (Cge Lge) as (d2 & Ed & Eaft).
    rewrite Eb in Hpq. destruct (sg_app_last _ _ _ _ Hpq Hq) as (q1 & Eq1 & Ep1).
    assert (Nq1 : sg_no_lf q1 = true) by (unfold sg_no_lf in *; rewrite <- Ep1, forallb_app in Hnolf; apply andb_prop in Hnolf; apply Hnolf).
    assert (Ed' : skipn 0 d = q1 ++ LF :: d2) by (rewrite Es0, Ed, Eq1, <- app_assoc; reflexivity).
    destruct (sg_line0_shape r1) as (rest' & Esh). rewrite <- Ep1 in Esh.
    assert (Wm' : wr_token (wq_method r1) = true).
    { unfold wr_wf_request_line in Wl'. apply andb_prop in Wl'. destruct Wl' as [Wl' _]. apply andb_prop in Wl'. apply Wl'. }
    assert (Lim : (length (p ++ q1) <= g_field_limit_hard g)%nat) by (rewrite Ep1, app_length; cbn [length]; lia).
    destruct (tn_fin_probe_done cb g Hcb (w := w3) Hotx c d 0 p T q1 d2 _ rest' H Hc Ed' Nq1 Esh Wm' Hk' Lim HTtc HTpg HTrp HT09) as (c6 & E6 & H6).
    destruct fuel as [|f]; [lia|].
    cbn [gw_done gw_aux app] in H6.
    assert (Lq : (0 + length q1 < length d)%nat).
    { assert (L : length d = length (q1 ++ LF :: d2)) by (rewrite <- Ed'; reflexivity). rewrite app_length in L. cbn [length] in L. lia. }
    assert (R0 : tg_rep pre0 pre0 []) by (exists []; split; [reflexivity|constructor]).
    destruct (tg_Pidle_all cb g Hcb Hspace all Hok pre0 a3 tf_max rs1 r1 [] pre0 c6 d (0 + length q1)%nat (p ++ q1) [LF] rw' f (Some REQ_IDLE) Eall0 R0 H6 Lq) as (cF & rc & E & rsd' & rs' & Ea' & B').
    + rewrite Ep1. symmetry. exact Eb.
    + discriminate.
    + rewrite <- sg_skipn_add, Ed', skipn_app, Nat.sub_diag, skipn_all. cbn [app skipn]. rewrite <- Eaft. reflexivity.
    + lia.
    + exists cF, rc. split; [rewrite (sg_rq_loop_inr cb g _ _ _ E6); exact E|]. apply (FB_pipe _ _ rsd' rs' Ea' B').
Qed.

(* ---- one call of htp_connp_req_data ---- *)
Lemma tf_step c (rw x rw' : bytes) : tf_betw c rw -> x <> [] -> rw = x ++ rw' ->
  exists c' rc, connp_req_data cb g (Some x) (length x) c = (c', rc) /\ tf_betw c' rw'.
Proof.
  intros B Hne Ex.
  assert (Lx : (0 < length x)%nat) by (destruct x; [contradiction|cbn; lia]).
  assert (Fu : (16 * length x + 10 <= rq_fuel (length x))%nat) by (unfold rq_fuel; lia).
  destruct B as [Hw Erw|p q Hm Hpq Hq Erw|rsd rs Ea B].
  - destruct (tn_enter_wait cb g (w := w3) c T x Hw Hne) as (c1 & E1 & H1 & _). unfold bytes in E1 |- *. rewrite E1.
    assert (Hln : (c_HTP_RESPONSE_LINE < t_response_progress T)%Z) by (rewrite HTrp; reflexivity).
    destruct (tn_pass_wait_refused cb g (w := w3) c1 x 0 [] _ T H1 Hln HTsn) as (c2 & E2 & H2).
    assert (Hc2 : k_consume (c_in c2) = 0%nat) by (pose proof (gi_cons _ _ _ _ _ _ _ _ _ H2); lia).
    rewrite Erw, Eall0, sg_pwires_cons, app_assoc in Ex.
    destruct (tf_run_fin c2 x [] (sg_line0 r1 ++ [CR; LF]) rw' (rq_fuel (length x) - 1) H2 Hc2 Lx eq_refl) as (cF & rc & E & BF).
    + intro E. apply app_eq_nil in E. destruct E as [_ E]. discriminate.
    + symmetry. exact Ex.
    + lia.
    + exists cF, rc. split; [|exact BF]. replace (rq_fuel (length x)) with (S (rq_fuel (length x) - 1)) by lia.
      rewrite (sg_rq_loop_inr cb g _ _ _ E2). exact E.
  - destruct (tg_enter cb g c p None _ _ _ x Hm Hne) as (c1 & E1 & H1). unfold bytes in E1 |- *. rewrite E1.
    assert (Hc1 : k_consume (c_in c1) = 0%nat) by (pose proof (gi_cons _ _ _ _ _ _ _ _ _ H1); lia).
    apply (tf_run_fin c1 x p q rw' _ H1 Hc1 Lx Hpq Hq); [rewrite <- Ex; exact Erw|lia].
  - destruct (tg_pstep cb g Hcb Hspace all Hok pre0 a3 tf_max rsd rs c rw x rw' Ea B Hne Ex) as (c' & rc & E & rsd' & rs' & Ea' & B').
    exists c', rc. split; [exact E|]. apply (FB_pipe _ _ rsd' rs' Ea' B').
Qed.

Lemma tf_betw_finish c rw : tf_betw c rw -> tf_betw (tn_fin c) rw.
Proof.
  intros [Hw Erw|p q Hm Hpq Hq Erw|rsd rs Ea B].
  - apply FB_wait; [apply tn_waitw_finish; [exact Hw|exact Hst]|exact Erw].
  - apply (FB_fin _ _ p q); [apply tg_midw_finish; [exact Hm|exact Hst]|exact Hpq|exact Hq|exact Erw].
  - apply (FB_pipe _ _ rsd rs Ea). apply tg_pbetween_finish; [exact Hst|exact B].
Qed.
Lemma tf_betw_live c rw : tf_betw c rw -> tg_live (c_in_status c).
Proof.
  intros [Hw Erw|p q Hm Hpq Hq Erw|rsd rs Ea B].
  - destruct (ww_status _ _ _ Hw) as [E|E]; rewrite E; [right|left; right]; reflexivity.
  - exact (gm_status _ _ _ _ _ _ Hm).
  - exact (proj1 (tg_pbetween_live _ _ _ _ _ _ _ B)).
Qed.

(* ---- every chunk ---- *)
Lemma tf_chunks : forall (chunks : list bytes) c rw, tf_betw c rw -> Forall (fun x => x <> []) chunks -> concat chunks = rw ->
  let cF := fst (cp_run cb g c (map OpReqData chunks)) in
  tg_rep pre0 (c_txs cF) all /\ tg_imid cF (c_txs cF) (tg_pflags pre0 a3 (length (c_txs cF))) /\
  Forall tn_rquiet (snd (cp_run cb g c (map OpReqData chunks))).
Proof.
  induction chunks as [|x rest IH]; intros c rw B Hall Hc; cbv zeta.
  - cbn [concat] in Hc. subst rw. destruct B as [Hw Erw|p q Hm Hpq Hq Erw|rsd rs Ea B].
    + exfalso. rewrite Eall0, sg_pwires_cons in Erw. symmetry in Erw. apply app_eq_nil in Erw. destruct Erw as [_ E]. discriminate.
    + exfalso. destruct q; [contradiction|discriminate].
    + apply (tg_pchunks cb g Hcb Hspace all Hok pre0 a3 tf_max Hst [] c rsd rs [] Ea B); [constructor|reflexivity].
  - cbn [concat] in Hc. cbn [map]. rewrite tn_run_cons. cbn [fst snd]. rewrite tn_step_req.
    destruct (tf_step c rw x (concat rest) B (Forall_inv Hall) (eq_sym Hc)) as (c' & rc & E & B').
    unfold bytes in E |- *. rewrite E. cbn [fst snd].
    destruct (IH _ (concat rest) (tf_betw_finish _ _ B') (Forall_inv_tail Hall) eq_refl) as (A1 & A2 & A3).
    split; [exact A1|]. split; [exact A2|]. constructor; [|exact A3].
    unfold tn_rquiet, tn_res, finish_call. cbn [snd r_in_status]. apply tn_live_quiet. exact (tf_betw_live _ _ B').
Qed.
End Resume.

(* a request line of the grammar has neither LF nor NUL before its LF *)
Lemma tn_reqline_nostop m u p : wr_wf_request_line m u p = true -> tn_nostop (wr_ser_request_line m u p ++ [CR]) = true.
Proof.
  intros W. destruct (wr_reqline_bytes m u p W) as (Hnolf & _).
  assert (Z : forallb (fun b => negb (b =? 0)%N) (wr_ser_request_line m u p ++ [CR]) = true).
  { unfold wr_wf_request_line in W. apply andb_prop in W. destruct W as [W Wp]. apply andb_prop in W. destruct W as [Wm Wu].
    destruct (wr_token_split m Wm) as (m0 & mr & _ & Tm). unfold wr_uri_ok in Wu. apply andb_prop in Wu. destruct Wu as [_ Wu].
    unfold wr_ser_request_line. rewrite !forallb_app. cbn [forallb andb].
    assert (Zm : forallb (fun b => negb (b =? 0)%N) m = true).
    { eapply wr_forallb_impl; [|exact Tm]. intros b Hb. destruct (wr_token_facts b Hb) as (_ & _ & Z0 & _). rewrite Z0. reflexivity. }
    assert (Zu : forallb (fun b => negb (b =? 0)%N) u = true).
    { eapply wr_forallb_impl; [|exact Wu]. intros b Hb. destruct (wr_uri_byte_facts b Hb) as (_ & _ & Z0 & _). rewrite Z0. reflexivity. }
    rewrite Zm, Zu. destruct (wr_protocol_cases p Wp) as [E|E]; rewrite E; reflexivity. }
  unfold tn_nostop. apply forallb_forall. intros b Hb. rewrite forallb_forall in Hnolf, Z. specialize (Hnolf b Hb). specialize (Z b Hb).
  apply negb_true_iff in Hnolf, Z. unfold tn_stopb. rewrite Hnolf, Z. reflexivity.
Qed.

(* ================= the requests after an ACCEPTED CONNECT whose payload is plain HTTP, any chunking ================= *)
Section ResumeP.
Variable cb : cb_oracle.
Variable g : cfg.
Hypothesis Hcb : wr_all_ok cb.
Hypothesis Hspace : g_allow_space_uri g = false.
Variable all : list wr_request.
Variable r1 : wr_request.
Variable rs1 : list wr_request.
Hypothesis Eall0 : all = r1 :: rs1.
Hypothesis Hok : Forall (fun r => sg_req_ok g r = true) all.
Variable T : tx.                                           (* the CONNECT transaction, its response complete *)
Variable a3 : tg_aux.
Hypothesis Hmax : (g_max_tx g = 0 \/ 1 + length all < g_max_tx g)%nat.
Hypothesis Hst : tn_stable (c_out (ax_rs a3)).
Hypothesis Hotx : c_out_tx (ax_rs a3) = None.
Hypothesis HTtc : t_request_transfer_coding T = c_HTP_CODING_NO_BODY.
Hypothesis HTpg : t_request_progress T = c_HTP_REQUEST_HEADERS.
Hypothesis HTrp : t_response_progress T = c_HTP_RESPONSE_COMPLETE.
Hypothesis HT09 : t_is_protocol_0_9 T = false.
Hypothesis H2a : (200 <=? t_response_status_number T)%Z = true.
Hypothesis H2b : (t_response_status_number T <=? 299)%Z = true.
Notation w3 := (mk_tg_world [] a3).
Notation pre0 := [tn_done_slot g T].

Inductive th_betw (c : connp) (rw : bytes) : Prop :=
| HB_wait : tn_waitw w3 c T -> rw = sg_pwires all -> th_betw c rw
| HB_probe p q : tg_midw w3 c p None REQ_CONNECT_PROBE_DATA None T -> p ++ q = sg_line0 r1 ++ [CR; LF] -> q <> [] -> rw = q ++ sg_bwt r1 rs1 -> th_betw c rw
| HB_pipe rsd rs : all = rsd ++ rs -> tg_pbetween g pre0 a3 rsd rs c rw -> th_betw c rw.

Lemma th_max : (g_max_tx g = 0 \/ length pre0 + length all < g_max_tx g)%nat.
Proof. exact Hmax. Qed.

(* ---- REQ_CONNECT_PROBE_DATA at the beginning of a chunk ---- *)
Lemma th_run_fin c d p q (rw' : bytes) fuel :
  tg_cinw w3 c d 0 p None REQ_CONNECT_PROBE_DATA (Some REQ_CONNECT_PROBE_DATA) None T -> k_consume (c_in c) = 0%nat -> (0 < length d)%nat ->
  p ++ q = sg_line0 r1 ++ [CR; LF] -> q <> [] -> d ++ rw' = q ++ sg_bwt r1 rs1 -> (16 * length d + 9 <= fuel)%nat ->
  exists cF rc, rq_loop cb g fuel false c = (cF, rc) /\ th_betw cF rw'.
Proof.
  intros H Hc Hlt Hpq Hq Hw Hf.
  assert (Ok1 : sg_req_ok g r1 = true) by (rewrite Eall0 in Hok; exact (Forall_inv Hok)).
  destruct (sg_req_ok_parts g r1 Ok1) as (Wr' & Hk' & Wl' & _ & _ & _ & Hl0' & _).
  pose proof (tn_reqline_nostop _ _ _ Wl') as Hnolf. fold (sg_line0 r1) in Hnolf.
  assert (Eb : sg_line0 r1 ++ [CR; LF] = (sg_line0 r1 ++ [CR]) ++ [LF]) by (rewrite <- app_assoc; reflexivity).
  assert (Es0 : skipn 0 d = d) by reflexivity.
  destruct (sg_app_cases d rw' q _ Hw) as [Clt Cge].
  destruct (Nat.lt_ge_cases (length d) (length q)) as [Llt|Lge].
  - (* no LF in the chunk *)
    destruct (Clt Llt) as (q2 & Eq & Hq2 & Erw).
    assert (Nu : tn_nostop (skipn 0 d) = true).
    { rewrite Es0. rewrite Eq, Eb, app_assoc in Hpq. destruct (sg_app_last _ _ _ _ Hpq Hq2) as (q3 & _ & E3). unfold tn_nostop in Hnolf |- *. rewrite <- E3, <- app_assoc, !forallb_app in Hnolf.
      apply andb_prop in Hnolf. destruct Hnolf as [_ Nb]. apply andb_prop in Nb. apply Nb. }
    assert (Lim : (length (p ++ skipn 0 d) <= g_field_limit_hard g)%nat).
    { rewrite Es0. assert (L : length (p ++ q) = (length (sg_line0 r1) + 2)%nat) by (rewrite Hpq, app_length; reflexivity). rewrite app_length in L. rewrite app_length. lia. }
    destruct (tn_probe_buffer cb g Hcb (w := w3) c d 0 p T H Nu Lim) as (cF & EF & HF).
    destruct fuel as [|f]; [lia|].
    eexists _, _. split; [rewrite (sg_rq_loop_inl cb g _ _ _ EF); reflexivity|].
    rewrite Es0 in HF. apply (HB_probe _ _ (p ++ d) q2 HF); [rewrite <- app_assoc, <- Eq; exact Hpq|exact Hq2|exact Erw].
  - (* the LF of the next request line is in the chunk *)
    destruct (Cge Lge) as (d2 & Ed & Eaft).
    rewrite Eb in Hpq. destruct (sg_app_last _ _ _ _ Hpq Hq) as (q1 & Eq1 & Ep1).
    assert (Nq1 : tn_nostop q1 = true) by (unfold tn_nostop in *; rewrite <- Ep1, forallb_app in Hnolf; apply andb_prop in Hnolf; apply Hnolf).
    assert (Ed' : skipn 0 d = q1 ++ LF :: d2) by (rewrite Es0, Ed, Eq1, <- app_assoc; reflexivity).
    destruct (sg_line0_shape r1) as (rest' & Esh). rewrite <- Ep1 in Esh.
    assert (Wm' : wr_token (wq_method r1) = true).
    { unfold wr_wf_request_line in Wl'. apply andb_prop in Wl'. destruct Wl' as [Wl' _]. apply andb_prop in Wl'. apply Wl'. }
    assert (Lim : (length (p ++ q1) <= g_field_limit_hard g)%nat) by (rewrite Ep1, app_length; cbn [length]; lia).
    destruct (tn_probe_resume cb g Hcb (w := w3) Hotx c d 0 p T q1 d2 _ rest' H Ed' Nq1 Esh Wm' Hk' Lim HTtc HTpg HTrp HT09) as (c6 & E6 & H6).
    destruct fuel as [|f]; [lia|].
    cbn [gw_done gw_aux app] in H6.
    assert (Lq : (0 + length q1 < length d)%nat).
    { assert (L : length d = length (q1 ++ LF :: d2)) by (rewrite <- Ed'; reflexivity). rewrite app_length in L. cbn [length] in L. lia. }
    assert (R0 : tg_rep pre0 pre0 []) by (exists []; split; [reflexivity|constructor]).
    destruct (tg_Pidle_all cb g Hcb Hspace all Hok pre0 a3 th_max rs1 r1 [] pre0 c6 d (0 + length q1)%nat (p ++ q1) [LF] rw' f (Some REQ_IDLE) Eall0 R0 H6 Lq) as (cF & rc & E & rsd' & rs' & Ea' & B').
    + rewrite Ep1. symmetry. exact Eb.
    + discriminate.
    + rewrite <- sg_skipn_add, Ed', skipn_app, Nat.sub_diag, skipn_all. cbn [app skipn]. rewrite <- Eaft. reflexivity.
    + lia.
    + exists cF, rc. split; [rewrite (sg_rq_loop_inr cb g _ _ _ E6); exact E|]. apply (HB_pipe _ _ rsd' rs' Ea' B').
Qed.

(* ---- one call of htp_connp_req_data ---- *)
Lemma th_step c (rw x rw' : bytes) : th_betw c rw -> x <> [] -> rw = x ++ rw' ->
  exists c' rc, connp_req_data cb g (Some x) (length x) c = (c', rc) /\ th_betw c' rw'.
Proof.
  intros B Hne Ex.
  assert (Lx : (0 < length x)%nat) by (destruct x; [contradiction|cbn; lia]).
  assert (Fu : (16 * length x + 10 <= rq_fuel (length x))%nat) by (unfold rq_fuel; lia).
  destruct B as [Hw Erw|p q Hm Hpq Hq Erw|rsd rs Ea B].
  - destruct (tn_enter_wait cb g (w := w3) c T x Hw Hne) as (c1 & E1 & H1 & _). unfold bytes in E1 |- *. rewrite E1.
    assert (Hln : (c_HTP_RESPONSE_LINE < t_response_progress T)%Z) by (rewrite HTrp; reflexivity).
    destruct (tn_pass_wait cb g (w := w3) c1 x 0 [] _ T H1 Hln H2a H2b) as (c2 & E2 & H2).
    assert (Hc2 : k_consume (c_in c2) = 0%nat) by (pose proof (gi_cons _ _ _ _ _ _ _ _ _ H2); lia).
    rewrite Erw, Eall0, sg_pwires_cons, app_assoc in Ex.
    destruct (th_run_fin c2 x [] (sg_line0 r1 ++ [CR; LF]) rw' (rq_fuel (length x) - 1) H2 Hc2 Lx eq_refl) as (cF & rc & E & BF).
    + intro E. apply app_eq_nil in E. destruct E as [_ E]. discriminate.
    + symmetry. exact Ex.
    + lia.
    + exists cF, rc. split; [|exact BF]. replace (rq_fuel (length x)) with (S (rq_fuel (length x) - 1)) by lia.
      rewrite (sg_rq_loop_inr cb g _ _ _ E2). exact E.
  - destruct (tg_enter cb g c p None _ _ _ x Hm Hne) as (c1 & E1 & H1). unfold bytes in E1 |- *. rewrite E1.
    assert (Hc1 : k_consume (c_in c1) = 0%nat) by (pose proof (gi_cons _ _ _ _ _ _ _ _ _ H1); lia).
    apply (th_run_fin c1 x p q rw' _ H1 Hc1 Lx Hpq Hq); [rewrite <- Ex; exact Erw|lia].
  - destruct (tg_pstep cb g Hcb Hspace all Hok pre0 a3 th_max rsd rs c rw x rw' Ea B Hne Ex) as (c' & rc & E & rsd' & rs' & Ea' & B').
    exists c', rc. split; [exact E|]. apply (HB_pipe _ _ rsd' rs' Ea' B').
Qed.

Lemma th_betw_finish c rw : th_betw c rw -> th_betw (tn_fin c) rw.
Proof.
  intros [Hw Erw|p q Hm Hpq Hq Erw|rsd rs Ea B].
  - apply HB_wait; [apply tn_waitw_finish; [exact Hw|exact Hst]|exact Erw].
  - apply (HB_probe _ _ p q); [apply tg_midw_finish; [exact Hm|exact Hst]|exact Hpq|exact Hq|exact Erw].
  - apply (HB_pipe _ _ rsd rs Ea). apply tg_pbetween_finish; [exact Hst|exact B].
Qed.
Lemma th_betw_live c rw : th_betw c rw -> tg_live (c_in_status c).
Proof.
  intros [Hw Erw|p q Hm Hpq Hq Erw|rsd rs Ea B].
  - destruct (ww_status _ _ _ Hw) as [E|E]; rewrite E; [right|left; right]; reflexivity.
  - exact (gm_status _ _ _ _ _ _ Hm).
  - exact (proj1 (tg_pbetween_live _ _ _ _ _ _ _ B)).
Qed.

(* ---- every chunk ---- *)
Lemma th_chunks : forall (chunks : list bytes) c rw, th_betw c rw -> Forall (fun x => x <> []) chunks -> concat chunks = rw ->
  let cF := fst (cp_run cb g c (map OpReqData chunks)) in
  tg_rep pre0 (c_txs cF) all /\ tg_imid cF (c_txs cF) (tg_pflags pre0 a3 (length (c_txs cF))) /\
  Forall tn_rquiet (snd (cp_run cb g c (map OpReqData chunks))).
Proof.
  induction chunks as [|x rest IH]; intros c rw B Hall Hc; cbv zeta.
  - cbn [concat] in Hc. subst rw. destruct B as [Hw Erw|p q Hm Hpq Hq Erw|rsd rs Ea B].
    + exfalso. rewrite Eall0, sg_pwires_cons in Erw. symmetry in Erw. apply app_eq_nil in Erw. destruct Erw as [_ E]. discriminate.
    + exfalso. destruct q; [contradiction|discriminate].
    + apply (tg_pchunks cb g Hcb Hspace all Hok pre0 a3 th_max Hst [] c rsd rs [] Ea B); [constructor|reflexivity].
  - cbn [concat] in Hc. cbn [map]. rewrite tn_run_cons. cbn [fst snd]. rewrite tn_step_req.
    destruct (th_step c rw x (concat rest) B (Forall_inv Hall) (eq_sym Hc)) as (c' & rc & E & B').
    unfold bytes in E |- *. rewrite E. cbn [fst snd].
    destruct (IH _ (concat rest) (th_betw_finish _ _ B') (Forall_inv_tail Hall) eq_refl) as (A1 & A2 & A3).
    split; [exact A1|]. split; [exact A2|]. constructor; [|exact A3].
    unfold tn_rquiet, tn_res, finish_call. cbn [snd r_in_status]. apply tn_live_quiet. exact (th_betw_live _ _ B').
Qed.
End ResumeP.
