(* C02: concrete sentences of the grammar (non-vacuity) and the witnesses of the refuted full statements. *)
Require Import Htp.Model.Base Htp.Model.MBstr Htp.Model.MConnTypes Htp.Model.MTxCommon Htp.Model.MReqLine Htp.Model.MResLine.
Require Import Htp.Model.MReq Htp.Model.MRes Htp.Model.MConnp Htp.Spec.SWire.

Definition wr_ex_GET : bytes := [71;69;84]%N.          Definition wr_ex_PURGE : bytes := [80;85;82;71;69]%N.
Definition wr_ex_u1 : bytes := [47;49]%N.              Definition wr_ex_u2 : bytes := [47;50]%N.
Definition wr_ex_Host : bytes := [72;111;115;116]%N.   Definition wr_ex_a : bytes := [97]%N.
Definition wr_ex_XFoo : bytes := [88;45;70;111;111]%N. Definition wr_ex_xfoo : bytes := [120;45;102;111;111]%N.
Definition wr_ex_XFOO : bytes := [88;45;70;79;79]%N.
Definition wr_ex_ab : bytes := [97;32;98]%N.           Definition wr_ex_c : bytes := [99]%N.
Definition wr_ex_404 : bytes := [52;48;52]%N.          Definition wr_ex_reason : bytes := [79;75;32;103;111]%N.   (* "OK go" *)
Definition wr_ex_CL : bytes := [67;111;110;116;101;110;116;45;76;101;110;103;116;104]%N.
Definition wr_ex_12 : bytes := [49;50]%N.              Definition wr_ex_13 : bytes := [49;51]%N.
Definition wr_ex_host : bytes := [69;120;97;109;112;108;101;46;67;79;77]%N.   (* "Example.COM" *)
Definition wr_ex_8080 : bytes := [56;48;56;48]%N.

(* the configuration of the S-connp suite (personality 1 = generic), every callback answers HTP_OK *)
Definition wr_cfg1 : cfg := cp_make_cfg 1 (Z.to_nat 18000) 512 false false 0.
Definition wr_cb_ok : cb_oracle := script_lookup [].

(* ---- the statement "two well-formed requests in one chunk are two transactions", and its refutation ---- *)
Definition wr_host_field (h : bytes) : wr_field := mk_wr_field wr_ex_Host [SP] h [].
Definition wr_two_requests_full : Prop :=
  forall m1 u1 p1 fs1 m2 u2 p2 fs2,
    wr_wf_request_line m1 u1 p1 = true -> wr_block_ok fs1 = true -> wr_wf_request_line m2 u2 p2 = true -> wr_block_ok fs2 = true ->
    length (c_txs (fst (cp_run wr_cb_ok wr_cfg1 connp_new
                          [OpOpen; OpReqData (wr_ser_request m1 u1 p1 fs1 ++ wr_ser_request m2 u2 p2 fs2); OpClose]))) = 2%nat.
(* GET /1 HTTP/1.1 | Host: a || PURGE /2 HTTP/1.1 | Host: a : the second request is swallowed as body of the first *)
Lemma wr_two_requests_refuted :
  exists m1 u1 p1 fs1 m2 u2 p2 fs2,
    wr_wf_request_line m1 u1 p1 = true /\ wr_block_ok fs1 = true /\ wr_wf_request_line m2 u2 p2 = true /\ wr_block_ok fs2 = true /\
    htp_convert_method_to_number m2 = c_HTP_M_UNKNOWN /\
    length (c_txs (fst (cp_run wr_cb_ok wr_cfg1 connp_new
                          [OpOpen; OpReqData (wr_ser_request m1 u1 p1 fs1 ++ wr_ser_request m2 u2 p2 fs2); OpClose]))) = 1%nat.
Proof.
  exists wr_ex_GET, wr_ex_u1, wr_http11, [wr_host_field wr_ex_a], wr_ex_PURGE, wr_ex_u2, wr_http11, [wr_host_field wr_ex_a].
  vm_compute. repeat split; reflexivity.
Qed.
(* delivered in two chunks the same bytes are two transactions: the loss depends on the segmentation (C03) *)
Lemma wr_two_requests_split_ok :
  length (c_txs (fst (cp_run wr_cb_ok wr_cfg1 connp_new
    [OpOpen; OpReqData (wr_ser_request wr_ex_GET wr_ex_u1 wr_http11 [wr_host_field wr_ex_a]);
     OpReqData (wr_ser_request wr_ex_PURGE wr_ex_u2 wr_http11 [wr_host_field wr_ex_a]); OpClose]))) = 2%nat.
Proof. vm_compute. reflexivity. Qed.

(* ---- response side: a continuation line that contains ':' is split off as a header of its own under HTTP/1.1 ---- *)
Definition wr_ex_request : bytes := wr_ser_request wr_ex_GET wr_ex_u1 wr_http11 [wr_host_field wr_ex_a].
(* HTTP/1.1 200 OK | X-F: a |  b:c | Content-Length: 0 | *)
Definition wr_ex_response_fold : bytes :=
  [72;84;84;80;47;49;46;49;32;50;48;48;32;79;75;13;10;88;45;70;58;32;97;13;10;32;98;58;99;13;10;67;111;110;116;101;110;116;45;76;101;110;103;116;104;58;32;48;13;10;13;10]%N.
Definition wr_ex_XF : bytes := [88;45;70]%N.
Definition wr_ex_abc : bytes := [97;32;98;58;99]%N.                                (* "a b:c" *)
Definition wr_response_headers_of (ops : list cp_op) : option (list header) :=
  match c_txs (fst (cp_run wr_cb_ok wr_cfg1 connp_new ops)) with
  | Some t :: _ => Some (t_response_headers t)
  | _ => None
  end.
Lemma wr_res_fold_colon_refuted :
  wr_wf_header wr_ex_XF wr_ex_abc = true /\
  concat [[SP; 97]; [SP; 98; 58; 99]]%N = [SP] ++ wr_ex_abc /\                      (* the two pieces of the folded field *)
  wr_response_headers_of [OpOpen; OpReqData wr_ex_request; OpResData wr_ex_response_fold; OpClose]
    = Some [mkhdr wr_ex_XF [97]%N 0; mkhdr [98]%N [99]%N 0; mkhdr wr_ex_CL [48]%N 0] /\
  wr_table [(wr_ex_XF, wr_ex_abc); (wr_ex_CL, [48]%N)] = [mkhdr wr_ex_XF wr_ex_abc 0; mkhdr wr_ex_CL [48]%N 0].
Proof. vm_compute. repeat split; reflexivity. Qed.

(* ---- the repetition cap is needed: the 67th field of one name is dropped ---- *)
Definition wr_ex_many (k : nat) : list wr_field := repeat (mk_wr_field [88]%N [SP] [118]%N []) k.
Lemma wr_cap_refuted :
  forallb wr_field_ok (wr_ex_many 67) = true /\ wr_cap_ok (map wr_field_nv (wr_ex_many 67)) = false /\
  t_request_headers (fold_left (fun t l => htp_process_request_header_generic l t) (map wr_field_line (wr_ex_many 67)) (tx_new 0 0))
    <> wr_table (map wr_field_nv (wr_ex_many 67)) /\
  t_request_headers (fold_left (fun t l => htp_process_request_header_generic l t) (map wr_field_line (wr_ex_many 67)) (tx_new 0 0))
    = wr_table (map wr_field_nv (wr_ex_many 66)).
Proof. split; [vm_compute; reflexivity|]. split; [vm_compute; reflexivity|]. split; [vm_compute; discriminate|vm_compute; reflexivity]. Qed.

(* ---- a whitespace-only continuation line ends the header block under the IIS 5.1 personality only ---- *)
Lemma wr_ws_line_iis51 :
  htp_is_line_terminator c_HTP_SERVER_IIS_5_1 [SP; CR; LF] false = true /\ htp_is_line_terminator (g_personality wr_cfg1) [SP; CR; LF] false = false.
Proof. vm_compute. split; reflexivity. Qed.

(* ---- non-vacuity: sentences of the grammar ---- *)
Lemma wr_ex_premises :
  wr_wf_request_line wr_ex_GET wr_ex_u1 wr_http11 = true /\ wr_wf_request_line wr_ex_PURGE wr_ex_u2 wr_http10 = true /\
  wr_wf_request_line_09 wr_ex_GET wr_ex_u1 = true /\
  wr_wf_status_line wr_http11 wr_ex_404 wr_ex_reason = true /\
  wr_wf_header wr_ex_XFoo wr_ex_ab = true /\ wr_wf_header wr_ex_XFoo [] = true /\ wr_lws [SP; HT] = true /\ wr_eol [CR; LF] = true /\
  wr_block_ok [mk_wr_field wr_ex_XFoo [SP] wr_ex_a []; mk_wr_field wr_ex_CL [] wr_ex_12 [SP]; mk_wr_field wr_ex_xfoo [HT] wr_ex_c [];
               mk_wr_field wr_ex_CL [SP] wr_ex_13 []; mk_wr_field wr_ex_XFOO [] wr_ex_ab [HT; SP]] = true /\
  wr_host_ok wr_ex_host = true.
Proof. vm_compute. repeat split; reflexivity. Qed.
Lemma wr_ex_results :
  rq_parse_request_line true false false (wr_ser_request_line wr_ex_GET wr_ex_u1 wr_http11)
    = mk_rq_line wr_ex_GET c_HTP_M_GET (Some wr_ex_u1) (Some wr_http11) (Some c_HTP_PROTOCOL_1_1) false false /\
  rs_parse_response_line (wr_ser_status_line wr_http11 wr_ex_404 wr_ex_reason)
    = mk_rs_line (Some wr_http11) c_HTP_PROTOCOL_1_1 (Some wr_ex_404) 404 (Some wr_ex_reason) /\
  htp_parse_request_header_generic (wr_ser_header wr_ex_XFoo [SP; SP] wr_ex_ab [SP; HT] ++ [CR; LF]) = (mkhdr wr_ex_XFoo wr_ex_ab 0, 0%N) /\
  wr_table [(wr_ex_XFoo, wr_ex_a); (wr_ex_CL, wr_ex_12); (wr_ex_xfoo, wr_ex_c); (wr_ex_CL, wr_ex_13); (wr_ex_XFOO, wr_ex_ab)]
    = [mkhdr wr_ex_XFoo [97;44;32;99;44;32;97;32;98]%N c_HTP_FIELD_REPEATED; mkhdr wr_ex_CL wr_ex_12 c_HTP_FIELD_REPEATED] /\
  wr_first_spelling [(wr_ex_XFoo, wr_ex_a); (wr_ex_xfoo, wr_ex_c)] wr_ex_XFOO = Some wr_ex_XFoo.
Proof. vm_compute. repeat split; reflexivity. Qed.
