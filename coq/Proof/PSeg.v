(* C03, request direction: segmentation invariance on the wire grammar -- base layer.
   The invariant between two passes of the for(;;) of htp_connp_req_data (sg_cin: status OPEN or DATA, a buffer and a
   pending header are allowed, the bytes of the current line seen so far are  in_buf ++ chunk[consume .. read) ), the
   state between two calls (sg_mid), and what the primitives do to them: peek / copy of one byte, htp_connp_req_buffer,
   htp_connp_req_consolidate_data, the HTP_DATA_BUFFER exit, htp_req_handle_state_change.  Also: the transaction as a
   function of the complete lines (the sg_tx functions), and the flag HTP_MULTI_PACKET_HEAD commutes with everything that follows it. *)
Require Import Htp.Model.Base Htp.Model.MBstr Htp.Model.MConnTypes Htp.Model.MTxCommon Htp.Model.MReqLine Htp.Model.MReqUri Htp.Model.MTxReq.
Require Import Htp.Model.MReq Htp.Model.MRes Htp.Model.MConnp.
Require Import Htp.Spec.SWire Htp.Proof.PWire Htp.Proof.PWireHdr Htp.Proof.PWireBlock Htp.Proof.PWireConn Htp.Proof.PWireExch.
Require Import Htp.Proof.PWireRun Htp.Proof.PWirePres Htp.Proof.PWireGlue.

(* what a caller sees of a transaction without the multi-packet-head indicator (= Properties_C03.c03_mask) *)
Definition sg_mask (t : tx) : tx := t <| t_flags := N.ldiff (t_flags t) c_HTP_MULTI_PACKET_HEAD |>.
Definition sg_olist (o : option bytes) : bytes := match o with Some b => b | None => [] end.
Definition sg_live (s : Z) : Prop := s = c_HTP_STREAM_OPEN \/ s = c_HTP_STREAM_DATA.

Lemma sg_live_closed s : sg_live s -> (s =? c_HTP_STREAM_CLOSED)%Z = false. Proof. intros [H|H]; rewrite H; reflexivity. Qed.
Lemma sg_live_tunnel s : sg_live s -> (s =? c_HTP_STREAM_TUNNEL)%Z = false. Proof. intros [H|H]; rewrite H; reflexivity. Qed.
Lemma sg_live_stop s : sg_live s -> (s =? c_HTP_STREAM_STOP)%Z = false. Proof. intros [H|H]; rewrite H; reflexivity. Qed.
Lemma sg_live_error s : sg_live s -> (s =? c_HTP_STREAM_ERROR)%Z = false. Proof. intros [H|H]; rewrite H; reflexivity. Qed.

(* ---- lists ---- *)
Lemma sg_firstn_S_nth {A} : forall (l : list A) n x, nth_error l n = Some x -> firstn (S n) l = firstn n l ++ [x].
Proof.
  induction l as [|a l IH]; intros n x H; [destruct n; discriminate|].
  destruct n as [|n]; [cbn in H; inversion H; reflexivity|].
  cbn [nth_error] in H. change (firstn (S (S n)) (a :: l)) with (a :: firstn (S n) l). rewrite (IH n x H). reflexivity.
Qed.
Lemma sg_nth_error_skipn {A} : forall a (l : list A) n, nth_error (skipn a l) n = nth_error l (a + n).
Proof.
  induction a as [|a IH]; intros l n; [reflexivity|]. destruct l as [|x l]; [destruct n; reflexivity|]. cbn [skipn Nat.add nth_error]. apply IH.
Qed.
Lemma sg_slice_S (d : bytes) cs rd b : (cs <= rd)%nat -> nth_error d rd = Some b ->
  firstn (S rd - cs) (skipn cs d) = firstn (rd - cs) (skipn cs d) ++ [b].
Proof.
  intros Hle Hn. replace (S rd - cs)%nat with (S (rd - cs)) by lia. apply sg_firstn_S_nth.
  rewrite sg_nth_error_skipn. replace (cs + (rd - cs))%nat with rd by lia. exact Hn.
Qed.
Lemma sg_slice_length (d : bytes) cs rd : (cs <= rd)%nat -> (rd <= length d)%nat -> length (firstn (rd - cs) (skipn cs d)) = (rd - cs)%nat.
Proof. intros H1 H2. rewrite firstn_length, skipn_length. lia. Qed.
Lemma sg_skipn_cons (d : bytes) rd b u : skipn rd d = b :: u -> nth_error d rd = Some b /\ skipn (S rd) d = u /\ (rd < length d)%nat.
Proof.
  intros H. assert (L : (rd < length d)%nat).
  { destruct (Nat.lt_ge_cases rd (length d)) as [L|L]; [exact L|]. rewrite skipn_all2 in H by lia. discriminate. }
  split; [|split; [|exact L]].
  - rewrite <- (Nat.add_0_r rd), <- sg_nth_error_skipn, H. reflexivity.
  - revert d H L. induction rd as [|rd IH]; intros d H L; [cbn in H; rewrite H; reflexivity|].
    destruct d as [|x d]; [cbn in L; lia|]. cbn [skipn] in H. change (skipn (S (S rd)) (x :: d)) with (skipn (S rd) d). apply IH; [exact H|cbn in L; lia].
Qed.
Lemma sg_skipn_nil (d : bytes) rd : skipn rd d = [] -> (length d <= rd)%nat.
Proof. intros H. assert (L : length (skipn rd d) = 0%nat) by (rewrite H; reflexivity). rewrite skipn_length in L. lia. Qed.

(* ---- the flag HTP_MULTI_PACKET_HEAD ---- *)
Lemma sg_ldiff_lor f b : N.ldiff (N.lor f b) b = N.ldiff f b.
Proof. apply N.bits_inj. intros n. rewrite !N.ldiff_spec, N.lor_spec. destruct (N.testbit f n), (N.testbit b n); reflexivity. Qed.
Lemma sg_mask_set_flag t : sg_mask (tx_set_flag c_HTP_MULTI_PACKET_HEAD t) = sg_mask t.
Proof. unfold sg_mask, tx_set_flag, flag_set. cbn [t_flags set]. cbn. rewrite sg_ldiff_lor. reflexivity. Qed.

(* ---- the invariants ---- *)
(* the part of the connection that does not change while one request is parsed: the transactions before the current one
   (request side complete, no response offered so far) and the connection flags *)
Record sg_world := mk_sg_world { w_done : list (option tx); w_flags : N }.
Definition sg_w0 : sg_world := mk_sg_world [] 0%N.
Definition sg_settx (w : sg_world) (t : tx) (c : connp) : connp := c <| c_txs := w_done w ++ [Some t] |>.

(* between two passes of the loop, transaction number |w_done w| being parsed: p = the bytes of the current line seen so far *)
Record sg_cinw (w : sg_world) (c : connp) (d : bytes) (rd : nat) (p : bytes) (hdr : option bytes) (st : req_state) (prev : option req_state)
              (rh : option nat) (t : tx) : Prop := mk_sg_cin {
  ci_status : sg_live (c_in_status c);
  ci_state : c_in_state c = st;
  ci_prev : c_in_state_previous c = prev;
  ci_data : k_data (c_in c) = Some d;
  ci_len : k_len (c_in c) = length d;
  ci_read : k_read (c_in c) = rd;
  ci_rd : (rd <= length d)%nat;
  ci_cons : (k_consume (c_in c) <= rd)%nat;
  ci_seen : sg_olist (k_buf (c_in c)) ++ firstn (rd - k_consume (c_in c)) (skipn (k_consume (c_in c)) d) = p;
  ci_hdr : k_header (c_in c) = hdr;
  ci_rh : k_receiver_hook (c_in c) = rh;
  ci_rcv : (k_receiver (c_in c) <= rd)%nat;
  ci_tx : c_in_tx c = Some (length (w_done w));
  ci_txs : c_txs c = w_done w ++ [Some t];
  ci_shift : c_txs_shifted c = 0%nat;
  ci_flags : c_conn_flags c = w_flags w;
  ci_onext : c_out_next_tx_index c = 0%nat }.

(* between two calls of htp_connp_req_data *)
Record sg_midw (w : sg_world) (c : connp) (p : bytes) (hdr : option bytes) (st : req_state) (rh : option nat) (t : tx) : Prop := mk_sg_mid {
  mi_status : sg_live (c_in_status c);
  mi_state : c_in_state c = st;
  mi_prev : c_in_state_previous c = Some st;
  mi_buf : sg_olist (k_buf (c_in c)) = p;
  mi_hdr : k_header (c_in c) = hdr;
  mi_rh : k_receiver_hook (c_in c) = rh;
  mi_tx : c_in_tx c = Some (length (w_done w));
  mi_txs : c_txs c = w_done w ++ [Some t];
  mi_shift : c_txs_shifted c = 0%nat;
  mi_flags : c_conn_flags c = w_flags w;
  mi_onext : c_out_next_tx_index c = 0%nat }.
Arguments ci_status {w}. Arguments ci_state {w}. Arguments ci_prev {w}. Arguments ci_data {w}. Arguments ci_len {w}. Arguments ci_read {w}.
Arguments ci_rd {w}. Arguments ci_cons {w}. Arguments ci_seen {w}. Arguments ci_hdr {w}. Arguments ci_rh {w}. Arguments ci_rcv {w}.
Arguments ci_tx {w}. Arguments ci_txs {w}. Arguments ci_shift {w}. Arguments ci_flags {w}. Arguments ci_onext {w}.
Arguments mi_status {w}. Arguments mi_state {w}. Arguments mi_prev {w}. Arguments mi_buf {w}. Arguments mi_hdr {w}. Arguments mi_rh {w}.
Arguments mi_tx {w}. Arguments mi_txs {w}. Arguments mi_shift {w}. Arguments mi_flags {w}. Arguments mi_onext {w}.

Lemma sg_nth_app_len {A} (l : list A) x : nth_error (l ++ [x]) (length l) = Some x.
Proof. rewrite nth_error_app2 by lia. rewrite Nat.sub_diag. reflexivity. Qed.
Lemma sg_slot_at c done t : c_txs c = done ++ [Some t] -> c_txs_shifted c = 0%nat -> tx_slot c (length done) = Some t.
Proof.
  intros H1 H2. unfold tx_slot. rewrite H2, H1. assert (E0 : (length done <? 0)%nat = false) by reflexivity. rewrite E0.
  rewrite Nat.sub_0_r, sg_nth_app_len. reflexivity.
Qed.
Lemma sg_tx_put_at c done t t' : c_txs c = done ++ [Some t] -> c_txs_shifted c = 0%nat ->
  tx_put c (length done) t' = c <| c_txs := done ++ [Some t'] |>.
Proof.
  intros H1 H2. unfold tx_put. rewrite H2, H1. assert (E0 : (length done <? 0)%nat = false) by reflexivity. rewrite E0, Nat.sub_0_r.
  assert (L : (length done <? length (done ++ [Some t]))%nat = true) by (apply Nat.ltb_lt; rewrite app_length; cbn; lia). rewrite L.
  rewrite wr_upd_app_exact. reflexivity.
Qed.

Section World.
Context {w : sg_world}.
Notation sg_cin := (sg_cinw w).
Notation sg_mid := (sg_midw w).

Lemma sg_cin_slot c d rd p hdr st prev rh t : sg_cin c d rd p hdr st prev rh t -> tx_slot c (length (w_done w)) = Some t.
Proof. intros H. apply (sg_slot_at c _ t (ci_txs _ _ _ _ _ _ _ _ _ H) (ci_shift _ _ _ _ _ _ _ _ _ H)). Qed.

(* a parser that differs only outside the fields of the invariant *)
Lemma sg_cin_ext c c' d rd p hdr st prev rh t : sg_cin c d rd p hdr st prev rh t ->
  c_in_status c' = c_in_status c -> c_in_state c' = c_in_state c -> c_in_state_previous c' = c_in_state_previous c ->
  c_in c' = c_in c -> c_in_tx c' = c_in_tx c -> c_txs c' = c_txs c -> c_txs_shifted c' = c_txs_shifted c ->
  c_conn_flags c' = c_conn_flags c -> c_out_next_tx_index c' = c_out_next_tx_index c ->
  sg_cin c' d rd p hdr st prev rh t.
Proof. intros [A1 A2 A3 A4 A5 A6 A7 A8 A9 A10 A11 A12 A13 A14 A15 A16 A17] E1 E2 E3 E4 E5 E6 E7 E8 E9. constructor; rewrite ?E1, ?E2, ?E3, ?E4, ?E5, ?E6, ?E7, ?E8, ?E9; assumption. Qed.
Lemma sg_cin_txs c d rd p hdr st prev rh t t' : sg_cin c d rd p hdr st prev rh t -> sg_cin (sg_settx w t' c) d rd p hdr st prev rh t'.
Proof. intros [A1 A2 A3 A4 A5 A6 A7 A8 A9 A10 A11 A12 A13 A14 A15 A16 A17]. constructor; try assumption; reflexivity. Qed.
Lemma sg_cin_state c d rd p hdr st prev rh t st' : sg_cin c d rd p hdr st prev rh t -> sg_cin (c <| c_in_state := st' |>) d rd p hdr st' prev rh t.
Proof. intros [A1 A2 A3 A4 A5 A6 A7 A8 A9 A10 A11 A12 A13 A14 A15 A16 A17]. constructor; try assumption; reflexivity. Qed.
Lemma sg_cin_prev c d rd p hdr st prev rh t pv : sg_cin c d rd p hdr st prev rh t -> sg_cin (c <| c_in_state_previous := pv |>) d rd p hdr st pv rh t.
Proof. intros [A1 A2 A3 A4 A5 A6 A7 A8 A9 A10 A11 A12 A13 A14 A15 A16 A17]. constructor; try assumption; reflexivity. Qed.
Lemma sg_cin_header c d rd p hdr st prev rh t h : sg_cin c d rd p hdr st prev rh t ->
  sg_cin (rq_set_in (fun k => k <| k_header := h |>) c) d rd p h st prev rh t.
Proof. intros [A1 A2 A3 A4 A5 A6 A7 A8 A9 A10 A11 A12 A13 A14 A15 A16 A17]. constructor; try assumption; reflexivity. Qed.
Lemma sg_cin_next c d rd p hdr st prev rh t nb : sg_cin c d rd p hdr st prev rh t ->
  sg_cin (rq_set_in (fun k => k <| k_next_byte := nb |>) c) d rd p hdr st prev rh t.
Proof. intros [A1 A2 A3 A4 A5 A6 A7 A8 A9 A10 A11 A12 A13 A14 A15 A16 A17]. constructor; try assumption; reflexivity. Qed.
(* htp_connp_req_clear_buffer *)
Lemma sg_cin_clear c d rd p hdr st prev rh t : sg_cin c d rd p hdr st prev rh t -> sg_cin (req_clear_buffer c) d rd [] hdr st prev rh t.
Proof.
  intros [A1 A2 A3 A4 A5 A6 A7 A8 A9 A10 A11 A12 A13 A14 A15 A16 A17]. constructor; try assumption; try reflexivity.
  - cbn [req_clear_buffer rq_set_in c_in set k_consume k_read]. cbn. rewrite A6. lia.
  - cbn [req_clear_buffer rq_set_in c_in set k_consume k_read k_buf sg_olist]. cbn. rewrite A6, Nat.sub_diag. reflexivity.
Qed.
(* a callback that answered HTP_OK *)
Lemma sg_cin_hook c d rd p hdr st prev rh t h i data last : sg_cin c d rd p hdr st prev rh t -> sg_cin (wr_hook_ev h i data last c) d rd p hdr st prev rh t.
Proof. intros H. apply (sg_cin_ext c); try reflexivity. exact H. Qed.

(* one byte copied (IN_COPY_BYTE) *)
Lemma sg_cin_adv c d rd p hdr st prev rh t b : sg_cin c d rd p hdr st prev rh t -> nth_error d rd = Some b ->
  sg_cin (rq_set_in (wr_kadv b) c) d (S rd) (p ++ [b]) hdr st prev rh t.
Proof.
  intros [A1 A2 A3 A4 A5 A6 A7 A8 A9 A10 A11 A12 A13 A14 A15 A16 A17] Hn.
  assert (L : (rd < length d)%nat) by (apply nth_error_Some; rewrite Hn; discriminate).
  constructor; try assumption; try reflexivity.
  - cbn. rewrite A6. reflexivity.
  - change (k_consume (c_in (rq_set_in (wr_kadv b) c))) with (k_consume (c_in c)). lia.
  - change (k_consume (c_in (rq_set_in (wr_kadv b) c))) with (k_consume (c_in c)). change (k_buf (c_in (rq_set_in (wr_kadv b) c))) with (k_buf (c_in c)).
    rewrite (sg_slice_S d _ rd b A8 Hn), app_assoc, A9. reflexivity.
  - change (k_receiver (c_in (rq_set_in (wr_kadv b) c))) with (k_receiver (c_in c)). lia.
Qed.

End World.

Lemma sg_peek c d : k_data (c_in c) = Some d -> k_len (c_in c) = length d ->
  rq_peek_next c = rq_set_in (fun k => k <| k_next_byte := nth_error d (k_read (c_in c)) |>) c.
Proof.
  intros Hd Hl. unfold rq_peek_next, rq_at_end, rq_read_byte. rewrite Hd, Hl.
  destruct (length d <=? k_read (c_in c))%nat eqn:E.
  - apply Nat.leb_le in E. assert (N : nth_error d (k_read (c_in c)) = None) by (apply nth_error_None; exact E). rewrite N. reflexivity.
  - apply Nat.leb_gt in E. destruct (nth_error d (k_read (c_in c))) as [b|] eqn:N; [reflexivity|]. apply nth_error_None in N. lia.
Qed.

Section Prim.
Variable cb : cb_oracle.
Variable g : cfg.
Hypothesis Hcb : wr_all_ok cb.
Context {w : sg_world}.
Notation sg_cin := (sg_cinw w).
Notation sg_mid := (sg_midw w).

(* transaction updates through connp->in_tx *)
Lemma sg_tx_upd c d rd p hdr st prev rh t f : sg_cin c d rd p hdr st prev rh t -> rq_tx_upd f c = sg_settx w (f t) c.
Proof.
  intros H. rewrite (wr_rq_tx_upd_ok c _ t f (ci_tx _ _ _ _ _ _ _ _ _ H) (sg_cin_slot _ _ _ _ _ _ _ _ _ H)).
  apply (sg_tx_put_at c _ t _ (ci_txs _ _ _ _ _ _ _ _ _ H) (ci_shift _ _ _ _ _ _ _ _ _ H)).
Qed.
Lemma sg_tx_put c d rd p hdr st prev rh t t' : sg_cin c d rd p hdr st prev rh t -> tx_put c (length (w_done w)) t' = sg_settx w t' c.
Proof. intros H. apply (sg_tx_put_at c _ t _ (ci_txs _ _ _ _ _ _ _ _ _ H) (ci_shift _ _ _ _ _ _ _ _ _ H)). Qed.
Lemma sg_tx_upd_at c d rd p hdr st prev rh t f : sg_cin c d rd p hdr st prev rh t -> tx_upd c (length (w_done w)) f = sg_settx w (f t) c.
Proof. intros H. rewrite (wr_tx_upd_ok c _ t f (sg_cin_slot _ _ _ _ _ _ _ _ _ H)). apply (sg_tx_put c d rd p hdr st prev rh t _ H). Qed.

(* htp_connp_req_buffer: what is in the chunk between consume and read goes to in_buf; the seen bytes are now all there *)
Lemma sg_req_buffer c d rd p hdr st prev rh t : sg_cin c d rd p hdr st prev rh t ->
  (length p + length (sg_olist hdr) <= g_field_limit_hard g)%nat ->
  exists c', req_buffer g c = (ST_OK, c') /\ sg_cin c' d rd p hdr st prev rh t /\ sg_olist (k_buf (c_in c')) = p /\ k_consume (c_in c') = rd.
Proof.
  intros H Hlim. pose proof H as [A1 A2 A3 A4 A5 A6 A7 A8 A9 A10 A11 A12 A13 A14 A15 A16 A17].
  unfold req_buffer. rewrite A4, A6.
  assert (E1 : (rd <? k_consume (c_in c))%nat = false) by (apply Nat.ltb_ge; lia). rewrite E1.
  destruct (rd - k_consume (c_in c) =? 0)%nat eqn:E2.
  - apply Nat.eqb_eq in E2. exists c. split; [reflexivity|]. split; [exact H|]. rewrite E2 in A9. cbn [firstn] in A9. rewrite app_nil_r in A9.
    split; [exact A9|lia].
  - apply Nat.eqb_neq in E2. rewrite A13. unfold rq_buf_size, rq_header_len. rewrite A10.
    pose proof (sg_slice_length d _ rd A8 A7) as SL.
    assert (Lp : length p = (length (sg_olist (k_buf (c_in c))) + (rd - k_consume (c_in c)))%nat) by (rewrite <- A9, app_length, SL; reflexivity).
    assert (E3 : (g_field_limit_hard g <? match k_buf (c_in c) with Some b => length b | None => 0 end + (rd - k_consume (c_in c)) +
                                           match hdr with Some h => length h | None => 0 end)%nat = false).
    { apply Nat.ltb_ge. unfold sg_olist in *. destruct (k_buf (c_in c)), hdr; cbn [length] in *; lia. }
    rewrite E3. unfold rq_slice. rewrite A4, ?A6.
    assert (E4 : (rd <=? length d)%nat = true) by (apply Nat.leb_le; exact A7). rewrite E4.
    eexists. split; [reflexivity|].
    assert (B : match k_buf (c_in c) with Some b => b | None => [] end ++ firstn (rd - k_consume (c_in c)) (skipn (k_consume (c_in c)) d) = p) by exact A9.
    split; [|split].
    + constructor; try assumption; try reflexivity.
      * cbn. rewrite A6. lia.
      * cbn [rq_set_in c_in set k_consume k_read k_buf sg_olist]. cbn. rewrite A6, Nat.sub_diag. cbn [firstn]. rewrite app_nil_r. exact B.
    + cbn. exact B.
    + cbn. exact A6.
Qed.

(* htp_connp_req_consolidate_data hands over exactly the seen bytes *)
Lemma sg_consolidate c d rd p hdr st prev rh t : sg_cin c d rd p hdr st prev rh t ->
  (length p + length (sg_olist hdr) <= g_field_limit_hard g)%nat ->
  exists c', req_consolidate_data g c = (ST_OK, c', p) /\ sg_cin c' d rd p hdr st prev rh t.
Proof.
  intros H Hlim. pose proof H as [A1 A2 A3 A4 A5 A6 A7 A8 A9 A10 A11 A12 A13 A14 A15 A16 A17].
  unfold req_consolidate_data. destruct (k_buf (c_in c)) as [b|] eqn:Eb.
  - destruct (sg_req_buffer c d rd p hdr st prev rh t H Hlim) as (c' & E & H' & B & _). rewrite E.
    exists c'. split; [|exact H']. unfold sg_olist in B. destruct (k_buf (c_in c')) as [b'|]; rewrite B; reflexivity.
  - unfold rq_slice. rewrite A4, A6. assert (E4 : (rd <=? length d)%nat = true) by (apply Nat.leb_le; exact A7). rewrite E4.
    exists c. split; [|exact H]. cbn [sg_olist app] in A9. rewrite A9. reflexivity.
Qed.

(* htp_connp_req_receiver_send_data: the raw bytes go to the receiver hook, which answers HTP_OK *)
Lemma sg_send_data c d rd p hdr st prev rh t last : sg_cin c d rd p hdr st prev rh t ->
  exists c', req_receiver_send_data cb last c = (ST_OK, c') /\ sg_cin c' d rd p hdr st prev rh t.
Proof.
  intros H. pose proof H as [A1 A2 A3 A4 A5 A6 A7 A8 A9 A10 A11 A12 A13 A14 A15 A16 A17].
  unfold req_receiver_send_data. rewrite A11. destruct rh as [h|]; [|exists c; split; [reflexivity|exact H]].
  unfold run_data_hook. rewrite (wr_run_hook_ex cb Hcb). cbv iota.
  eexists. split; [reflexivity|].
  match goal with |- sg_cin (?x <| c_in := _ |>) _ _ _ _ _ _ _ _ => set (c1 := x) end.
  assert (H1 : sg_cin c1 d rd p hdr st prev (Some h) t).
  { unfold c1. destruct (_ <? _)%nat; apply sg_cin_hook; [|exact H]. apply (sg_cin_ext c); try reflexivity. exact H. }
  clearbody c1. destruct H1 as [B1 B2 B3 B4 B5 B6 B7 B8 B9 B10 B11 B12 B13 B14 B15 B16 B17].
  constructor; try assumption; try reflexivity. cbn. rewrite B6. lia.
Qed.

(* the HTP_DATA_BUFFER exit of the loop *)
Lemma sg_exit_buffer c d p hdr st rh t : sg_cin c d (length d) p hdr st (Some st) rh t ->
  (length p + length (sg_olist hdr) <= g_field_limit_hard g)%nat ->
  exists c', rq_exit cb g ST_DATA_BUFFER c = (c', c_HTP_STREAM_DATA) /\ sg_mid c' p hdr st rh t.
Proof.
  intros H Hlim. unfold rq_exit.
  destruct (sg_send_data c d _ p hdr st _ rh t false H) as (c1 & E1 & H1). rewrite E1.
  destruct (sg_req_buffer c1 d _ p hdr st _ rh t H1 Hlim) as (c2 & E2 & H2 & B2 & _). rewrite E2.
  eexists. split; [reflexivity|].
  destruct H2 as [A1 A2 A3 A4 A5 A6 A7 A8 A9 A10 A11 A12 A13 A14 A15 A16 A17].
  constructor; try assumption; try reflexivity. right. reflexivity.
Qed.

(* htp_req_handle_state_change *)
Lemma sg_state_change c d rd p hdr st prev rh t : sg_cin c d rd p hdr st prev rh t -> st <> REQ_HEADERS ->
  req_handle_state_change cb c = (ST_OK, c <| c_in_state_previous := Some st |>) \/
  (req_handle_state_change cb c = (ST_OK, c) /\ prev = Some st).
Proof.
  intros [A1 A2 A3 A4 A5 A6 A7 A8 A9 A10 A11 A12 A13 A14 A15 A16 A17] Hne.
  unfold req_handle_state_change. rewrite A3, A2.
  destruct (match prev with Some s => req_state_eqb s st | None => false end) eqn:E.
  - right. split; [reflexivity|]. destruct prev as [s|]; [|discriminate]. destruct s, st; try discriminate; reflexivity.
  - left. assert (E2 : req_state_eqb st REQ_HEADERS = false) by (destruct st; try reflexivity; contradiction). rewrite E2, A2. reflexivity.
Qed.

(* a pass whose state function returned HTP_OK in a state other than REQ_HEADERS goes round again *)
Lemma sg_iter_ok c c1 d rd p hdr st prev rh t :
  rq_state_fn cb g (c_in_state c) c = (ST_OK, c1) -> sg_cin c1 d rd p hdr st prev rh t -> st <> REQ_HEADERS ->
  exists c', rq_iter cb g false c = inr c' /\ sg_cin c' d rd p hdr st (Some st) rh t.
Proof.
  intros E H Hne. unfold rq_iter. rewrite E. rewrite (sg_live_tunnel _ (ci_status _ _ _ _ _ _ _ _ _ H)).
  destruct (sg_state_change c1 d rd p hdr st prev rh t H Hne) as [E2|[E2 Ep]]; rewrite E2.
  - eexists. split; [reflexivity|]. eapply sg_cin_prev. exact H.
  - eexists. split; [reflexivity|]. rewrite <- Ep. exact H.
Qed.

Lemma sg_rq_loop_inr f c c' : rq_iter cb g false c = inr c' -> rq_loop cb g (S f) false c = rq_loop cb g f false c'.
Proof. intros H. cbn [rq_loop]. rewrite H. reflexivity. Qed.
Lemma sg_rq_loop_inl f c r : rq_iter cb g false c = inl r -> rq_loop cb g (S f) false c = r.
Proof. intros H. cbn [rq_loop]. rewrite H. reflexivity. Qed.

(* entering htp_connp_req_data with a non-empty chunk *)
Lemma sg_enter c p hdr st rh t x : sg_mid c p hdr st rh t -> x <> [] ->
  exists c1, connp_req_data cb g (Some x) (length x) c = rq_loop cb g (rq_fuel (length x)) false c1 /\
             sg_cin c1 x 0 p hdr st (Some st) rh t.
Proof.
  intros [A1 A2 A3 A4 A5 A6 A7 A8 A9 A10 A11] Hne. unfold connp_req_data.
  rewrite (sg_live_stop _ A1), (sg_live_error _ A1), A7.
  assert (L0 : (length x =? 0)%nat = false) by (destruct x; [contradiction|reflexivity]). rewrite L0. cbn [andb].
  match goal with |- context [(c_in_status ?y =? c_HTP_STREAM_TUNNEL)%Z] => change (c_in_status y) with (c_in_status c) end.
  rewrite (sg_live_tunnel _ A1).
  eexists. split; [reflexivity|].
  match goal with |- sg_cin (if ?b then _ else _) _ _ _ _ _ _ _ _ => destruct b end.
  all: constructor; try assumption; try reflexivity; cbn; try lia.
  all: rewrite app_nil_r; exact A4.
Qed.
End Prim.

(* ---- HTP_MULTI_PACKET_HEAD commutes with what htp_tx_process_request_headers does afterwards ---- *)
(* two transactions that agree on every field except possibly the flags, and on the flags *)
Lemma sg_tx_ext (a b : tx) : a <| t_flags := 0%N |> = b <| t_flags := 0%N |> -> t_flags a = t_flags b -> a = b.
Proof. destruct a, b. cbn. intros H1 H2. inversion H1. subst. reflexivity. Qed.
Ltac sg_lor := unfold flag_set; apply N.bits_inj; intros ?n; rewrite ?N.lor_spec;
  repeat match goal with |- context [N.testbit ?x ?n] => destruct (N.testbit x n) end; reflexivity.
Ltac sg_flag_fin := apply sg_tx_ext; [timeout 10 reflexivity|cbn; first [timeout 10 reflexivity | sg_lor]].
Ltac sg_ifs := repeat (cbn; match goal with |- context [if ?c then _ else _] =>
  lazymatch c with context [if _ then _ else _] => fail | _ => destruct c end end).

Lemma sg_te_cl_flag b t : rq_te_cl (tx_set_flag b t) = tx_set_flag b (rq_te_cl t).
Proof.
  unfold rq_te_cl. change (t_request_headers (tx_set_flag b t)) with (t_request_headers t).
  destruct (rq_hdr_get_c (t_request_headers t) rq_str_transfer_encoding) as [te|]; destruct (rq_hdr_get_c (t_request_headers t) rq_str_content_length_lc) as [cl|].
  - destruct (negb (htp_header_has_token (h_value te) rq_str_chunked)); [sg_flag_fin|].
    change (t_request_protocol_number (tx_set_flag b t)) with (t_request_protocol_number t).
    destruct (t_request_protocol_number t <? c_HTP_PROTOCOL_1_1)%Z; sg_flag_fin.
  - destruct (negb (htp_header_has_token (h_value te) rq_str_chunked)); [sg_flag_fin|].
    change (t_request_protocol_number (tx_set_flag b t)) with (t_request_protocol_number t).
    destruct (t_request_protocol_number t <? c_HTP_PROTOCOL_1_1)%Z; sg_flag_fin.
  - destruct (flag_has (h_flags cl) c_HTP_FIELD_FOLDED); destruct (flag_has (h_flags cl) c_HTP_FIELD_REPEATED);
      cbn [t_request_content_length set]; destruct (parse_content_length (h_value cl) <? 0)%Z eqn:E; sg_flag_fin.
  - sg_flag_fin.
Qed.
Lemma sg_content_type_flag b t : rq_content_type (tx_set_flag b t) = tx_set_flag b (rq_content_type t).
Proof.
  unfold rq_content_type. change (t_request_headers (tx_set_flag b t)) with (t_request_headers t).
  destruct (rq_hdr_get_c (t_request_headers t) rq_str_content_type); sg_flag_fin.
Qed.
Lemma sg_host_flag b nu t : rq_host nu (tx_set_flag b t) = tx_set_flag b (rq_host nu t).
Proof.
  unfold rq_host. destruct (u_host nu) as [uh|].
  - change (t_request_headers (tx_set_flag b t <| t_request_hostname := Some uh |> <| t_request_port_number := u_port_number nu |>)) with (t_request_headers t).
    change (t_request_headers (t <| t_request_hostname := Some uh |> <| t_request_port_number := u_port_number nu |>)) with (t_request_headers t).
    destruct (rq_hdr_get_c (t_request_headers t) rq_str_host) as [h|].
    + destruct (htp_parse_header_hostport (h_value h)) as [[hostname port] invalid].
      destruct invalid; destruct hostname as [hn|]; cbn [t_request_hostname t_request_port_number t_request_protocol_number set tx_set_flag].
      all: cbn [t_request_hostname t_request_port_number t_request_protocol_number set tx_set_flag]; sg_ifs; sg_flag_fin.
    + sg_ifs; sg_flag_fin.
  - change (t_request_headers (tx_set_flag b t <| t_request_port_number := u_port_number nu |>)) with (t_request_headers t).
    change (t_request_headers (t <| t_request_port_number := u_port_number nu |>)) with (t_request_headers t).
    destruct (rq_hdr_get_c (t_request_headers t) rq_str_host) as [h|].
    + destruct (htp_parse_header_hostport (h_value h)) as [[hostname port] invalid].
      destruct invalid; destruct hostname as [hn|].
      all: cbn; destruct (t_request_hostname t); sg_ifs; sg_flag_fin.
    + sg_ifs; sg_flag_fin.
Qed.

(* ---- the transaction as a function of the complete lines ---- *)
(* the end of the header block: htp_tx_process_request_headers on the transaction *)
Definition sg_hdr_end (t : tx) : tx :=
  let t := rq_te_cl t in
  let t := match t_parsed_uri t with Some nu => rq_host nu t | None => t end in
  rq_content_type t.
Lemma sg_parsed_uri_te_cl t : t_parsed_uri (rq_te_cl t) = t_parsed_uri t.
Proof.
  unfold rq_te_cl, tx_set_flag.
  destruct (rq_hdr_get_c (t_request_headers t) rq_str_transfer_encoding) as [te|]; destruct (rq_hdr_get_c (t_request_headers t) rq_str_content_length_lc) as [cl|].
  - destruct (negb (htp_header_has_token (h_value te) rq_str_chunked)); [reflexivity|]. destruct (t_request_protocol_number t <? c_HTP_PROTOCOL_1_1)%Z; reflexivity.
  - destruct (negb (htp_header_has_token (h_value te) rq_str_chunked)); [reflexivity|]. destruct (t_request_protocol_number t <? c_HTP_PROTOCOL_1_1)%Z; reflexivity.
  - destruct (flag_has (h_flags cl) c_HTP_FIELD_FOLDED); destruct (flag_has (h_flags cl) c_HTP_FIELD_REPEATED);
      cbn [t_request_content_length set]; destruct (parse_content_length (h_value cl) <? 0)%Z; reflexivity.
  - reflexivity.
Qed.
Lemma sg_hdr_end_flag b t : sg_hdr_end (tx_set_flag b t) = tx_set_flag b (sg_hdr_end t).
Proof.
  unfold sg_hdr_end. cbv zeta. rewrite sg_te_cl_flag. change (t_parsed_uri (tx_set_flag b (rq_te_cl t))) with (t_parsed_uri (rq_te_cl t)).
  destruct (t_parsed_uri (rq_te_cl t)) as [nu|]; [rewrite sg_host_flag|]; apply sg_content_type_flag.
Qed.
Lemma sg_mask_progress t v : sg_mask (t <| t_request_progress := v |>) = (sg_mask t) <| t_request_progress := v |>.
Proof. reflexivity. Qed.
Lemma sg_mask_hdr_end_flag t : sg_mask (sg_hdr_end (tx_set_flag c_HTP_MULTI_PACKET_HEAD t)) = sg_mask (sg_hdr_end t).
Proof. rewrite sg_hdr_end_flag. apply sg_mask_set_flag. Qed.
