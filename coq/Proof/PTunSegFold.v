(* C16: PSegFold.v, Section Fold (REQ_HEADERS over a flat list of wire lines) over the generalised world of PTunSeg.v. *)
Require Import Htp.Model.Base Htp.Model.MBstr Htp.Model.MConnTypes Htp.Model.MTxCommon Htp.Model.MReqLine Htp.Model.MReqUri Htp.Model.MTxReq.
Require Import Htp.Model.MReq Htp.Model.MRes Htp.Model.MConnp.
Require Import Htp.Spec.SWire Htp.Proof.PWire Htp.Proof.PWireHdr Htp.Proof.PWireBlock Htp.Proof.PWireConn Htp.Proof.PWireExch.
Require Import Htp.Proof.PWireRun Htp.Proof.PWirePres Htp.Proof.PWireGlue Htp.Proof.PSeg Htp.Proof.PSegLine Htp.Proof.PSegHdr Htp.Proof.PSegGen Htp.Proof.PSegRun.
Require Import Htp.Proof.PSegFold Htp.Proof.PSegPipe Htp.Proof.PTunBase Htp.Proof.PTunSeg Htp.Proof.PTunSegLine Htp.Proof.PTunSegHdr.

Section Fold.
Variable cb : cb_oracle.
Variable g : cfg.
Hypothesis Hcb : wr_all_ok cb.
Context {w : tg_world}.
Notation tg_cin := (tg_cinw w).

(* ---- a complete first line of a field ---- *)
Lemma tg_header_line_start c d rd hdr prev rh t l : sg_start_ok l = true ->
  tg_cin c d rd (l ++ [CR; LF]) hdr REQ_HEADERS prev rh t ->
  (length l + 2 + length (sg_olist hdr) <= g_field_limit_hard g)%nat ->
  exists c', rq_header_line cb g c = (None, c') /\
    match nth_error d rd with
    | Some b => if htp_is_folding_char b then tg_cin c' d rd [] (Some l) REQ_HEADERS prev rh (sg_flush hdr t)
                else tg_cin c' d rd [] None REQ_HEADERS prev rh (htp_process_request_header_generic l (sg_flush hdr t))
    | None => tg_cin c' d rd [] (Some l) REQ_HEADERS prev rh (sg_flush hdr t)
    end.
Proof.
  intros Wl H Hlim. unfold sg_start_ok in Wl. apply andb_prop in Wl. destruct Wl as [Wt Wv].
  destruct l as [|n0 [|y l']] eqn:El; try discriminate. rewrite <- El in *.
  assert (Esh : l = n0 :: y :: l') by exact El. clear El.
  unfold rq_header_line.
  destruct (tg_consolidate g c d rd _ hdr _ _ _ t H) as (c1 & E1 & H1); [rewrite app_length; cbn [length]; lia|]. rewrite E1.
  destruct (wr_token_facts n0 Wt) as (_ & Sp0 & _).
  rewrite Esh. cbn [app]. rewrite (wr_line_not_terminator _ n0 y l' Sp0).
  change (n0 :: y :: l' ++ [CR; LF]) with ((n0 :: y :: l') ++ [CR; LF]). rewrite <- Esh.
  assert (Pl : wr_last_plain l) by (apply wr_plain_last; [rewrite Esh; discriminate|exact Wv]).
  rewrite (wr_chomp_line l [CR; LF] eq_refl Pl).
  assert (Fo : htp_is_line_folded l = 0%Z). { rewrite Esh. cbn [htp_is_line_folded]. rewrite (wr_token_not_folding n0 Wt). reflexivity. }
  rewrite Fo. cbn [Z.eqb].
  assert (HF : exists cF, rq_flush_header c1 = cF /\ tg_cin cF d rd (l ++ [CR; LF]) None REQ_HEADERS prev rh (sg_flush hdr t)).
  { unfold rq_flush_header. rewrite (gi_hdr _ _ _ _ _ _ _ _ _ H1). destruct hdr as [h|].
    - eexists. split; [reflexivity|]. unfold rq_process_header. rewrite (tg_tx_upd c1 d rd _ _ _ _ _ t _ H1).
      eapply tg_cin_header. eapply tg_cin_txs. exact H1.
    - exists c1. split; [reflexivity|exact H1]. }
  destruct HF as (cF & EF & HF). rewrite EF.
  rewrite (sg_peek cF d (gi_data _ _ _ _ _ _ _ _ _ HF) (gi_len _ _ _ _ _ _ _ _ _ HF)), (gi_read _ _ _ _ _ _ _ _ _ HF).
  set (cP := rq_set_in (fun k => k <| k_next_byte := nth_error d rd |>) cF).
  assert (HP : tg_cin cP d rd (l ++ [CR; LF]) None REQ_HEADERS prev rh (sg_flush hdr t)) by (apply tg_cin_next; exact HF).
  change (k_next_byte (c_in cP)) with (nth_error d rd).
  destruct (nth_error d rd) as [b|].
  - destruct (htp_is_folding_char b); cbn [negb].
    + eexists. split; [reflexivity|]. eapply tg_cin_clear. eapply tg_cin_header. exact HP.
    + unfold rq_process_header. rewrite (tg_tx_upd cP d rd _ _ _ _ _ _ _ HP).
      eexists. split; [reflexivity|]. eapply tg_cin_clear. eapply tg_cin_txs. exact HP.
  - eexists. split; [reflexivity|]. eapply tg_cin_clear. eapply tg_cin_header. exact HP.
Qed.

(* ---- a complete continuation line: appended to the pending header ---- *)
Lemma tg_header_line_cont c d rd h prev rh t l : sg_cont_line_ok l = true ->
  tg_cin c d rd (l ++ [CR; LF]) (Some h) REQ_HEADERS prev rh t ->
  (length l + 2 + length h <= g_field_limit_hard g)%nat -> (Z.of_nat (length h) < c_HTP_MAX_HEADER_FOLDED)%Z ->
  exists c', rq_header_line cb g c = (None, c') /\ tg_cin c' d rd [] (Some (h ++ l)) REQ_HEADERS prev rh t.
Proof.
  intros Wl H Hlim Hmax. unfold sg_cont_line_ok in Wl. apply andb_prop in Wl. destruct Wl as [Wl Wv]. apply andb_prop in Wl. destruct Wl as [Wc Wt].
  unfold rq_header_line.
  destruct (tg_consolidate g c d rd _ (Some h) _ _ _ t H) as (c1 & E1 & H1); [rewrite app_length; cbn [length sg_olist]; lia|]. rewrite E1.
  rewrite (wr_cont_not_terminator _ l [CR; LF] Wc Wt eq_refl).
  assert (Hp : wr_last_plain l) by (apply wr_plain_last; [destruct l; discriminate|exact Wv]).
  rewrite (wr_chomp_line l [CR; LF] eq_refl Hp), (wr_cont_folded l Wc). cbn [Z.eqb]. rewrite (gi_hdr _ _ _ _ _ _ _ _ _ H1).
  assert (Hlt : (Z.of_nat (length h) <? c_HTP_MAX_HEADER_FOLDED)%Z = true) by (apply Z.ltb_lt; exact Hmax). rewrite Hlt.
  eexists. split; [reflexivity|]. eapply tg_cin_clear. eapply tg_cin_header. exact H1.
Qed.

Notation sg_fhlog := (Htp.Proof.PSegFold.sg_fhlog g).
(* ---- REQ_HEADERS over the rest of the chunk ---- *)
Lemma tg_fhdrs_loop d rw' Tend tailw : forall rem c rd p q hdr t pend tl n,
  tg_cin c d rd p hdr REQ_HEADERS (Some REQ_HEADERS) (Some H_REQUEST_HEADER_DATA) t ->
  sg_rel hdr t pend tl rem -> forallb sg_fl_ok rem = true -> (sg_needs_pending rem = true -> pend <> None) ->
  sg_lrun rem (pend, tl) = Tend ->
  p ++ q = sg_fnext rem -> q <> [] -> skipn rd d ++ rw' = q ++ sg_fafter tailw rem ->
  sg_ffit (g_field_limit_hard g) (length (sg_olist pend)) rem = true ->
  (length d - rd <= n)%nat ->
  (exists c' p' hdr' t', REQ_HEADERS_loop cb g n c = (ST_DATA_BUFFER, c') /\
     tg_cin c' d (length d) p' hdr' REQ_HEADERS (Some REQ_HEADERS) (Some H_REQUEST_HEADER_DATA) t' /\
     sg_fhlog Tend tailw hdr' t' p' rw' /\ rw' <> []) \/
  (exists c' rd1, REQ_HEADERS_loop cb g n c = rq_with_tx (tx_state_request_headers cb) c' /\
     tg_cin c' d rd1 [] None REQ_HEADERS (Some REQ_HEADERS) (Some H_REQUEST_HEADER_DATA) Tend /\ skipn rd1 d ++ rw' = tailw).
Proof.
  induction rem as [|[b l] r IH]; intros c rd p q hdr t pend tl n H Hrel Ok Hnp Hrun Hpq Hq Hw Hfit Hn.
  all: pose proof (gi_rd _ _ _ _ _ _ _ _ _ H) as Hrd.
  all: assert (Lu : length (skipn rd d) = (length d - rd)%nat) by apply skipn_length.
  all: destruct (sg_fnext_body _ Ok) as (body & Eb & Nb).
  all: destruct (sg_app_cases (skipn rd d) rw' q _ Hw) as [Clt Cge].
  all: pose proof (sg_rel_len _ _ _ _ _ Hrel) as Lh.
  all: destruct (Nat.lt_ge_cases (length (skipn rd d)) (length q)) as [Llt|Lge].
  (* the chunk ends inside the empty line *)
  - destruct (Clt Llt) as (q2 & Eq & Hq2 & Erw).
    assert (Nu : sg_no_lf (skipn rd d) = true).
    { rewrite Eq, Eb, app_assoc in Hpq. destruct (sg_app_last _ _ _ _ Hpq Hq2) as (q3 & _ & E3). rewrite <- E3, <- app_assoc, !sg_no_lf_app in Nb.
      apply andb_prop in Nb. destruct Nb as [_ Nb]. apply andb_prop in Nb. apply Nb. }
    destruct (tg_hdr_scan_nolf cb g d hdr _ _ t (skipn rd d) c rd p n H eq_refl Nu ltac:(lia)) as (c' & E & H').
    left. exists c', (p ++ skipn rd d), hdr, t. split; [exact E|]. split; [exact H'|]. split.
    + exists pend, tl, [], q2. split; [exact Hrel|]. split; [exact Ok|]. split; [exact Hnp|]. split; [exact Hrun|].
      split; [rewrite <- app_assoc, <- Eq; exact Hpq|]. split; [exact Hq2|]. split; [exact Erw|exact Hfit].
    + rewrite Erw. destruct q2; [contradiction|discriminate].
  (* the empty line is complete in this chunk *)
  - destruct (Cge Lge) as (u2 & Eu & Eaft). cbn [sg_fafter] in Eaft.
    rewrite Eb in Hpq. destruct (sg_app_last _ _ _ _ Hpq Hq) as (q1 & Eq1 & Ep1).
    assert (Nq1 : sg_no_lf q1 = true) by (rewrite <- Ep1, sg_no_lf_app in Nb; apply andb_prop in Nb; apply Nb).
    assert (Eskip : skipn rd d = q1 ++ LF :: u2) by (rewrite Eu, Eq1, <- app_assoc; reflexivity).
    assert (Ln : n = (length q1 + S (n - length q1 - 1))%nat) by (rewrite Eu, Eq1, !app_length in Lu; cbn [length] in Lu; lia).
    rewrite Ln.
    destruct (tg_hdr_scan_lf cb g d hdr _ _ t u2 q1 c rd p (n - length q1 - 1)%nat H Eskip Nq1) as (c1 & E1 & H1 & Hr1). rewrite E1.
    assert (Es : p ++ q1 ++ [LF] = [CR; LF]) by (rewrite app_assoc, Ep1; symmetry; exact Eb). rewrite Es in H1.
    pose proof (sg_ffit_next _ _ _ Hfit) as Hl. cbn [sg_fnext length] in Hl.
    destruct (tg_header_line_term cb g c1 d _ hdr _ _ t H1 ltac:(lia)) as (c2 & E2 & H2). rewrite E2.
    right. exists c2, (rd + length q1 + 1)%nat. split; [reflexivity|]. split; [|rewrite Hr1; symmetry; exact Eaft].
    rewrite (sg_rel_flush _ _ _ _ _ Hrel) in H2. unfold sg_lrun in Hrun. cbn [fold_left] in Hrun. unfold sg_lend in Hrun. cbn [fst snd] in Hrun. rewrite Hrun in H2. exact H2.
  (* the chunk ends inside the current line *)
  - destruct (Clt Llt) as (q2 & Eq & Hq2 & Erw).
    assert (Nu : sg_no_lf (skipn rd d) = true).
    { rewrite Eq, Eb, app_assoc in Hpq. destruct (sg_app_last _ _ _ _ Hpq Hq2) as (q3 & _ & E3). rewrite <- E3, <- app_assoc, !sg_no_lf_app in Nb.
      apply andb_prop in Nb. destruct Nb as [_ Nb]. apply andb_prop in Nb. apply Nb. }
    destruct (tg_hdr_scan_nolf cb g d hdr _ _ t (skipn rd d) c rd p n H eq_refl Nu ltac:(lia)) as (c' & E & H').
    left. exists c', (p ++ skipn rd d), hdr, t. split; [exact E|]. split; [exact H'|]. split.
    + exists pend, tl, ((b, l) :: r), q2. split; [exact Hrel|]. split; [exact Ok|]. split; [exact Hnp|]. split; [exact Hrun|].
      split; [rewrite <- app_assoc, <- Eq; exact Hpq|]. split; [exact Hq2|]. split; [exact Erw|exact Hfit].
    + rewrite Erw. destruct q2; [contradiction|discriminate].
  (* the current line is complete in this chunk *)
  - destruct (Cge Lge) as (u2 & Eu & Eaft).
    cbn [forallb] in Ok. apply andb_prop in Ok. destruct Ok as [Okl Ok'].
    rewrite Eb in Hpq. destruct (sg_app_last _ _ _ _ Hpq Hq) as (q1 & Eq1 & Ep1).
    assert (Nq1 : sg_no_lf q1 = true) by (rewrite <- Ep1, sg_no_lf_app in Nb; apply andb_prop in Nb; apply Nb).
    assert (Eskip : skipn rd d = q1 ++ LF :: u2) by (rewrite Eu, Eq1, <- app_assoc; reflexivity).
    assert (Ln : n = (length q1 + S (n - length q1 - 1))%nat) by (rewrite Eu, Eq1, !app_length in Lu; cbn [length] in Lu; lia).
    rewrite Ln.
    destruct (tg_hdr_scan_lf cb g d hdr _ _ t u2 q1 c rd p (n - length q1 - 1) H Eskip Nq1) as (c1 & E1 & H1 & Hr1). rewrite E1.
    assert (Es : p ++ q1 ++ [LF] = l ++ [CR; LF]) by (rewrite app_assoc, Ep1; symmetry; exact Eb). rewrite Es in H1.
    cbn [sg_fafter] in Eaft. rewrite sg_fwire_split in Eaft.
    assert (Hw2 : skipn (rd + length q1 + 1) d ++ rw' = sg_fnext r ++ sg_fafter tailw r) by (rewrite Hr1; symmetry; exact Eaft).
    assert (Ln2 : (length d - (rd + length q1 + 1) <= n - length q1 - 1)%nat) by (rewrite Eu, Eq1, !app_length in Lu; cbn [length] in Lu; lia).
    rewrite sg_lrun_cons in Hrun.
    destruct b.
    + (* a first line *)
      unfold sg_fl_ok in Okl. cbn [fst snd] in Okl.
      cbn [sg_ffit] in Hfit. apply andb_prop in Hfit. destruct Hfit as [Hf1 Hf2]. apply Nat.leb_le in Hf1.
      destruct (tg_header_line_start c1 d _ hdr _ _ t l Okl H1 ltac:(lia)) as (c2 & E2 & H2). rewrite E2.
      assert (Hnp' : sg_needs_pending r = true -> Some l <> None) by (intros _; discriminate).
      unfold sg_lstep in Hrun. cbn [fst snd] in Hrun.
      assert (Hcase : exists hdr' t', tg_cin c2 d (rd + length q1 + 1) [] hdr' REQ_HEADERS (Some REQ_HEADERS) (Some H_REQUEST_HEADER_DATA) t' /\
                                     sg_rel hdr' t' (Some l) (sg_flush pend tl) r).
      { rewrite (sg_rel_flush _ _ _ _ _ Hrel) in H2. destruct u2 as [|b0 u2'].
        - pose proof (sg_skipn_nil _ _ Hr1) as L. assert (N : nth_error d (rd + length q1 + 1) = None) by (apply nth_error_None; exact L). rewrite N in H2.
          eexists _, _. split; [exact H2|]. left. split; reflexivity.
        - destruct (sg_skipn_cons _ _ _ _ Hr1) as (N & _ & _). rewrite N in H2.
          destruct (sg_fnext_head r Ok') as (b1 & r1 & E0 & F0). rewrite E0 in Eaft. cbn [app] in Eaft. inversion Eaft. subst b1.
          destruct (htp_is_folding_char b0).
          + eexists _, _. split; [exact H2|]. left. split; reflexivity.
          + eexists _, _. split; [exact H2|]. right. split; [reflexivity|]. split; [reflexivity|symmetry; exact F0]. }
      destruct Hcase as (hdr' & t' & H2' & Hrel').
      destruct (IH c2 _ [] (sg_fnext r) hdr' t' (Some l) (sg_flush pend tl) (n - length q1 - 1)%nat H2' Hrel' Ok' Hnp' Hrun eq_refl (sg_fnext_ne r) Hw2 Hf2 Ln2) as [HA|HB].
      * left. exact HA.
      * right. exact HB.
    + (* a continuation line *)
      unfold sg_fl_ok in Okl. cbn [fst snd] in Okl.
      destruct pend as [h|]; [|exfalso; apply (Hnp eq_refl); reflexivity].
      destruct Hrel as [[Eh Et]|[_ [_ Hx]]]; [|discriminate]. subst hdr t.
      cbn [sg_ffit sg_olist] in Hfit. apply andb_prop in Hfit. destruct Hfit as [Hf1 Hf2]. apply andb_prop in Hf1. destruct Hf1 as [Hf1 Hf3].
      apply Nat.leb_le in Hf1. apply Z.ltb_lt in Hf3.
      destruct (tg_header_line_cont c1 d _ h _ _ tl l Okl H1 ltac:(lia) Hf3) as (c2 & E2 & H2). rewrite E2.
      unfold sg_lstep in Hrun. cbn [fst snd sg_olist] in Hrun.
      assert (Hnp' : sg_needs_pending r = true -> Some (h ++ l) <> None) by (intros _; discriminate).
      assert (Hrel' : sg_rel (Some (h ++ l)) tl (Some (h ++ l)) tl r) by (left; split; reflexivity).
      assert (Hf2' : sg_ffit (g_field_limit_hard g) (length (sg_olist (Some (h ++ l)))) r = true) by (cbn [sg_olist]; rewrite app_length; exact Hf2).
      destruct (IH c2 _ [] (sg_fnext r) _ tl _ tl (n - length q1 - 1)%nat H2 Hrel' Ok' Hnp' Hrun eq_refl (sg_fnext_ne r) Hw2 Hf2' Ln2) as [HA|HB].
      * left. exact HA.
      * right. exact HB.
Qed.

End Fold.
