(* C03, request direction, chunked request bodies: corollaries (header fields one line each; no trailer fields; the encoder's
   format of SBody), the vm_compute harness the statements were tested with before they were proved, and the block of
   theorems for re-export. *)
Require Import Htp.Model.Base Htp.Model.MBstr Htp.Model.MConnTypes Htp.Model.MTxCommon Htp.Model.MReqLine Htp.Model.MReqUri Htp.Model.MTxReq.
Require Import Htp.Model.MReq Htp.Model.MRes Htp.Model.MConnp Htp.Model.MUri Htp.Model.MPath Htp.Model.MUrlenc.
Require Import Htp.Spec.SWire Htp.Spec.SBody Htp.Proof.PWire Htp.Proof.PWireHdr Htp.Proof.PWireBlock Htp.Proof.PWireConn Htp.Proof.PWireExch.
Require Import Htp.Proof.PWireRun Htp.Proof.PWirePres Htp.Proof.PWireGlue Htp.Proof.PSeg Htp.Proof.PSegLine Htp.Proof.PSegHdr Htp.Proof.PSegGen Htp.Proof.PSegRun.
Require Import Htp.Proof.PSegFold Htp.Proof.PSegPipe Htp.Proof.PBody Htp.Proof.PBodyReq Htp.Proof.PSegBody.
Require Import Htp.Proof.PSegChunked Htp.Proof.PSegChunkedGen Htp.Proof.PSegChunkedRun.

(* ================= header fields one line each (the wire of PWireExch.wr_request_wire) ================= *)
Lemma sg_whole_cuts_ok r : sg_cuts_ok r (sg_cuts_whole r) = true.
Proof. unfold sg_cuts_ok, sg_cuts_whole. rewrite map_length, Nat.eqb_refl. apply sg_whole_ok. Qed.
Lemma sg_whole_fits g r : sg_fold_fits g r (sg_cuts_whole r) = sg_fits g r.
Proof. unfold sg_fold_fits, sg_fits, sg_cuts_whole. rewrite sg_ffit_whole. reflexivity. Qed.

Theorem sg_request_chunked_chunking_unfolded : forall cb g r (ks : list bd_chunk) (last : bytes) (tr : list wr_field) (chunks : list bytes),
  wr_all_ok cb -> g_allow_space_uri g = false -> sg_chunked_ok g r = true -> sg_fits g r = true -> sg_cbody_ok g ks last tr = true ->
  Forall (fun x => x <> []) chunks -> concat chunks = wr_request_wire r ++ sg_cbody_wire ks last tr ->
  sg_obs cb g (OpOpen :: map OpReqData chunks) = sg_obs cb g [OpOpen; OpReqData (wr_request_wire r ++ sg_cbody_wire ks last tr)] /\
  exists t, c_txs (fst (cp_run cb g connp_new (OpOpen :: map OpReqData chunks))) = [Some t] /\ sg_mask t = sg_mask (sg_tchunked g r ks last tr).
Proof.
  intros cb g r ks last tr chunks Hcb Hsp Wr Hf Hb Hall Hc. rewrite <- sg_fold_wire_whole in *. rewrite <- sg_whole_fits in Hf.
  split.
  - apply (sg_request_chunked_chunking_obs cb g r _ ks last tr chunks Hcb Hsp Wr (sg_whole_cuts_ok r) Hf Hb Hall Hc).
  - apply (sg_request_chunked_chunking cb g r _ ks last tr chunks Hcb Hsp Wr (sg_whole_cuts_ok r) Hf Hb Hall Hc).
Qed.

(* ================= Stage 2 as a statement of its own: no trailer fields ================= *)
Theorem sg_request_chunked_chunking_no_trailer : forall cb g r (ks : list bd_chunk) (last : bytes) (chunks : list bytes),
  wr_all_ok cb -> g_allow_space_uri g = false -> sg_chunked_ok g r = true -> sg_fits g r = true ->
  forallb (bd_chunk_ok bd_rq_line_value) ks = true -> bd_last_ok bd_rq_line_value last = true -> bd_lines_fit (g_field_limit_hard g) ks last = true ->
  Forall (fun x => x <> []) chunks -> concat chunks = wr_request_wire r ++ bd_chunks_wire ks ++ last ++ [CR; LF] ->
  sg_obs cb g (OpOpen :: map OpReqData chunks) = sg_obs cb g [OpOpen; OpReqData (wr_request_wire r ++ bd_chunks_wire ks ++ last ++ [CR; LF])] /\
  exists t, c_txs (fst (cp_run cb g connp_new (OpOpen :: map OpReqData chunks))) = [Some t] /\ sg_mask t = sg_mask (sg_tchunked g r ks last []).
Proof.
  intros cb g r ks last chunks Hcb Hsp Wr Hf Hks Hlast Hfit Hall Hc.
  apply (sg_request_chunked_chunking_unfolded cb g r ks last [] chunks Hcb Hsp Wr Hf); [|exact Hall|exact Hc].
  unfold sg_cbody_ok. rewrite Hks, Hlast, Hfit. cbn [forallb sg_fit andb Nat.add]. apply Nat.leb_le.
  (* the empty line fits: the last-chunk line has at least two bytes *)
  unfold bd_last_ok in Hlast. apply andb_prop in Hlast. destruct Hlast as [L1 L2]. apply Z.eqb_eq in L2.
  unfold bd_lines_fit in Hfit. apply andb_prop in Hfit. destruct Hfit as [_ F]. apply Nat.leb_le in F.
  destruct (sg_is_line_split _ L1) as (b & E & _). destruct b as [|b0 b']; [|rewrite E, app_length in F; cbn [length] in F; lia].
  (* "LF" alone is not a last-chunk line: the empty string has no chunk length *)
  rewrite E in L2. vm_compute in L2. discriminate.
Qed.

(* ================= the encoder of SBody (DESIGN Appendix A, C06): size in lower-case hex, optional extension, CR LF ================= *)
Definition sg_enc_chunk (ce : bytes * bytes) : bd_chunk := mk_bd_chunk (bd_hexlen (fst ce) ++ snd ce ++ bd_CRLF) (fst ce) bd_CRLF.
Lemma sg_enc_body_wire cs tr : bd_enc_body cs (wr_block_wire tr) = sg_cbody_wire (map sg_enc_chunk cs) bd_last_line tr.
Proof.
  unfold bd_enc_body, sg_cbody_wire. f_equal. unfold bd_enc_chunks, bd_chunks_wire. rewrite map_map. f_equal. apply map_ext.
  intros [c e]. unfold bd_enc_chunk, sg_enc_chunk, bd_chunk_wire. cbn [fst snd bc_line bc_data bc_end]. rewrite <- !app_assoc. reflexivity.
Qed.
Theorem sg_request_chunked_chunking_encoder : forall cb g r (cs : list (bytes * bytes)) (tr : list wr_field) (chunks : list bytes),
  wr_all_ok cb -> g_allow_space_uri g = false -> sg_chunked_ok g r = true -> sg_fits g r = true ->
  sg_cbody_ok g (map sg_enc_chunk cs) bd_last_line tr = true ->
  Forall (fun x => x <> []) chunks -> concat chunks = wr_request_wire r ++ bd_enc_body cs (wr_block_wire tr) ->
  sg_obs cb g (OpOpen :: map OpReqData chunks) = sg_obs cb g [OpOpen; OpReqData (wr_request_wire r ++ bd_enc_body cs (wr_block_wire tr))].
Proof.
  intros cb g r cs tr chunks Hcb Hsp Wr Hf Hb Hall Hc. rewrite sg_enc_body_wire in *.
  apply (sg_request_chunked_chunking_unfolded cb g r _ bd_last_line tr chunks Hcb Hsp Wr Hf Hb Hall Hc).
Qed.

(* ================= the absolute values: request_entity_len = the data length, request_message_len = the coded length ================= *)
(* nothing before the body touches the two length fields *)
Definition sg_lk (a b : tx) : Prop :=
  t_request_entity_len a = t_request_entity_len b /\ t_request_message_len a = t_request_message_len b.
Lemma sg_lk_refl a : sg_lk a a. Proof. split; reflexivity. Qed.
Lemma sg_lk_trans a b c : sg_lk a b -> sg_lk b c -> sg_lk a c.
Proof. unfold sg_lk. intros [H1 H2] [H3 H4]. split; congruence. Qed.
Ltac sg_lk_now := unfold sg_lk; cbn; split; reflexivity.
Lemma sg_lk_urldecode g s t : sg_lk (snd (rq_urldecode_uri g s t)) t.
Proof. unfold rq_urldecode_uri. destruct (ud_urldecode_from _ _ _ _) as [[o fl] st]. sg_lk_now. Qed.
Lemma sg_lk_urldecode_opt g s t : sg_lk (snd (rq_urldecode_uri_opt g s t)) t.
Proof.
  unfold rq_urldecode_uri_opt. destruct s as [s|]; [|apply sg_lk_refl].
  pose proof (sg_lk_urldecode g s t) as H. destruct (rq_urldecode_uri g s t) as [o t']. exact H.
Qed.
Lemma sg_lk_normalize_path g p t : sg_lk (snd (rq_normalize_path g p t)) t.
Proof.
  unfold rq_normalize_path. destruct (pth_decode_path_st _ _ _) as [p1 st1].
  destruct (if d_bestfit (g_dec_url_path g) then _ else _) as [p2 st2]. sg_lk_now.
Qed.
Lemma sg_lk_set_flags t f : sg_lk (t <| t_flags ::= f |>) t. Proof. sg_lk_now. Qed.
Lemma sg_lk_normalize_parsed_uri g raw t : sg_lk (snd (htp_normalize_parsed_uri g raw t)) t.
Proof.
  unfold htp_normalize_parsed_uri.
  pose proof (sg_lk_urldecode_opt g (u_user raw) t) as H1. destruct (rq_urldecode_uri_opt g (u_user raw) t) as [user t1]. cbn [snd] in H1.
  pose proof (sg_lk_urldecode_opt g (u_pass raw) t1) as H2. destruct (rq_urldecode_uri_opt g (u_pass raw) t1) as [pass t2]. cbn [snd] in H2.
  pose proof (sg_lk_urldecode_opt g (u_host raw) t2) as H3. destruct (rq_urldecode_uri_opt g (u_host raw) t2) as [host t3]. cbn [snd] in H3.
  destruct (uri_norm_port_opt (u_port raw)) as [pn inv].
  set (t4 := if inv then t3 <| t_flags ::= (fun f => flag_set f c_HTP_HOSTU_INVALID) |> else t3).
  assert (H4 : sg_lk t4 t3) by (unfold t4; destruct inv; [apply sg_lk_set_flags|apply sg_lk_refl]).
  assert (H5 : sg_lk (snd (match u_path raw with
                           | None => (None, t4)
                           | Some p => let '(o, t) := rq_normalize_path g p t4 in (Some o, t)
                           end)) t4).
  { destruct (u_path raw) as [p|]; [|apply sg_lk_refl]. pose proof (sg_lk_normalize_path g p t4) as H. destruct (rq_normalize_path g p t4). exact H. }
  destruct (match u_path raw with None => (None, t4) | Some p => let '(o, t) := rq_normalize_path g p t4 in (Some o, t) end) as [path t5]. cbn [snd] in H5.
  pose proof (sg_lk_urldecode_opt g (u_frag raw) t5) as H6. destruct (rq_urldecode_uri_opt g (u_frag raw) t5) as [frag t6]. cbn [snd] in H6 |- *.
  eapply sg_lk_trans; [exact H6|]. eapply sg_lk_trans; [exact H5|]. eapply sg_lk_trans; [exact H4|].
  eapply sg_lk_trans; [exact H3|]. eapply sg_lk_trans; [exact H2|]. exact H1.
Qed.
Lemma sg_lk_uri_pipeline g is_connect u t : exists t', rq_uri_pipeline_opt g is_connect (Some u) t = Some t' /\ sg_lk t' t.
Proof.
  unfold rq_uri_pipeline_opt.
  assert (Hr : exists raw t0, (if is_connect then rq_parse_uri_hostport (t_parsed_uri_raw t) (Some u) t
                               else Some (rq_parse_uri_into (t_parsed_uri_raw t) (Some u), t)) = Some (raw, t0) /\ sg_lk t0 t).
  { destruct is_connect.
    - unfold rq_parse_uri_hostport. destruct (parse_hostport u) as [[[hn port] pn] invalid].
      eexists _, _. split; [reflexivity|]. destruct (match hn with Some h => invalid || negb (htp_validate_hostname h) | None => invalid end).
      + apply sg_lk_set_flags.
      + apply sg_lk_refl.
    - eexists _, _. split; [reflexivity|]. apply sg_lk_refl. }
  destruct Hr as (raw & t0 & Er & K0). rewrite Er.
  set (t1 := t0 <| t_parsed_uri_raw := raw |>).
  assert (K1 : sg_lk t1 t0) by (unfold t1; sg_lk_now).
  assert (Hn : exists nu t2, (match t_parsed_uri t1 with Some nu => (nu, t1) | None => htp_normalize_parsed_uri g raw t1 end) = (nu, t2) /\ sg_lk t2 t1).
  { destruct (t_parsed_uri t1) as [nu|].
    - eexists _, _. split; [reflexivity|apply sg_lk_refl].
    - pose proof (sg_lk_normalize_parsed_uri g raw t1) as H. destruct (htp_normalize_parsed_uri g raw t1) as [nu t2]. eexists _, _. split; [reflexivity|exact H]. }
  destruct Hn as (nu & t2 & En & K2). rewrite En.
  set (t3 := t2 <| t_parsed_uri := Some nu |>).
  assert (K3 : sg_lk t3 t2) by (unfold t3; sg_lk_now).
  eexists. split; [reflexivity|].
  assert (Kall : sg_lk t3 t).
  { eapply sg_lk_trans; [exact K3|]. eapply sg_lk_trans; [exact K2|]. eapply sg_lk_trans; [exact K1|exact K0]. }
  destruct (u_host nu) as [h|]; [|exact Kall].
  destruct (htp_validate_hostname h); [exact Kall|]. eapply sg_lk_trans; [apply sg_lk_set_flags|exact Kall].
Qed.
Lemma sg_lk_tx_line g t m u p : g_allow_space_uri g = false -> wr_wf_request_line m u p = true ->
  sg_lk (sg_tx_line g t (wr_ser_request_line m u p)) t.
Proof.
  intros Hsp W. unfold sg_tx_line. set (line := wr_ser_request_line m u p).
  set (t2 := htp_parse_request_line g (t <| t_request_line := Some line |>)).
  assert (E2 : t2 = (t <| t_request_line := Some line |>) <| t_request_method := Some m |> <| t_request_method_number := htp_convert_method_to_number m |>
                 <| t_request_uri := Some u |> <| t_request_protocol := Some p |> <| t_request_protocol_number := wr_protocol_number p |>).
  { unfold t2. apply (wr_reqline_tx g _ m u p Hsp W). reflexivity. }
  assert (U2 : t_request_uri t2 = Some u) by (rewrite E2; reflexivity).
  assert (K2 : sg_lk t2 t) by (rewrite E2; sg_lk_now).
  destruct (sg_lk_uri_pipeline g (t_request_method_number t2 =? c_HTP_M_CONNECT)%Z u t2) as (t3 & E3 & K3).
  rewrite U2, E3. eapply sg_lk_trans; [exact K3|exact K2].
Qed.
Lemma sg_lk_process line t : sg_lk (htp_process_request_header_generic line t) t.
Proof.
  unfold htp_process_request_header_generic. destruct (htp_parse_request_header_generic line) as [h txfl].
  cbn [t_request_headers set]. destruct (rq_hdr_find (t_request_headers t) (h_name h)) as [i|]; [|sg_lk_now].
  destruct (flag_has _ _ && _); [sg_lk_now|].
  destruct (flag_has (h_flags (nth i (t_request_headers t) h)) c_HTP_FIELD_REPEATED); sg_lk_now.
Qed.
Lemma sg_lk_block : forall fs t, sg_lk (wr_block_tx fs t) t.
Proof.
  induction fs as [|f fs IH]; intros t; [apply sg_lk_refl|].
  unfold wr_block_tx. cbn [map fold_left]. fold (wr_block_tx fs (htp_process_request_header_generic (wr_field_line f) t)).
  eapply sg_lk_trans; [apply IH|apply sg_lk_process].
Qed.
Lemma sg_lk_hdr_end t : sg_lk (sg_hdr_end t) t.
Proof.
  unfold sg_hdr_end. cbv zeta.
  assert (K1 : sg_lk (rq_te_cl t) t).
  { unfold rq_te_cl, tx_set_flag.
    destruct (rq_hdr_get_c (t_request_headers t) rq_str_transfer_encoding) as [te|]; destruct (rq_hdr_get_c (t_request_headers t) rq_str_content_length_lc) as [cl|].
    - destruct (negb (htp_header_has_token (h_value te) rq_str_chunked)); [sg_lk_now|]. destruct (t_request_protocol_number t <? c_HTP_PROTOCOL_1_1)%Z; sg_lk_now.
    - destruct (negb (htp_header_has_token (h_value te) rq_str_chunked)); [sg_lk_now|]. destruct (t_request_protocol_number t <? c_HTP_PROTOCOL_1_1)%Z; sg_lk_now.
    - destruct (flag_has (h_flags cl) c_HTP_FIELD_FOLDED); destruct (flag_has (h_flags cl) c_HTP_FIELD_REPEATED);
        destruct (parse_content_length (h_value cl) <? 0)%Z; sg_lk_now.
    - sg_lk_now. }
  set (t1 := rq_te_cl t) in *.
  assert (K2 : sg_lk (match t_parsed_uri t1 with Some nu => rq_host nu t1 | None => t1 end) t1).
  { destruct (t_parsed_uri t1) as [nu|]; [|apply sg_lk_refl]. unfold rq_host, tx_set_flag. wr_split_ifs; sg_lk_now. }
  set (t2 := match t_parsed_uri t1 with Some nu => rq_host nu t1 | None => t1 end) in *.
  assert (K3 : sg_lk (rq_content_type t2) t2) by (unfold rq_content_type; destruct (rq_hdr_get_c _ _); sg_lk_now).
  eapply sg_lk_trans; [exact K3|]. eapply sg_lk_trans; [exact K2|exact K1].
Qed.

(* what the reference transaction of the theorems says about the body *)
Theorem sg_tchunked_lens : forall g r (ks : list bd_chunk) (last : bytes) (tr : list wr_field),
  g_allow_space_uri g = false -> wr_wf_request_line (wq_method r) (wq_uri r) (wq_protocol r) = true ->
  t_request_entity_len (sg_tchunked g r ks last tr) = Z.of_nat (length (bd_chunks_data ks)) /\
  t_request_message_len (sg_tchunked g r ks last tr) = Z.of_nat (length (bd_chunks_wire ks) + length last) /\
  t_request_progress (sg_tchunked g r ks last tr) = c_HTP_REQUEST_COMPLETE.
Proof.
  intros g [m u p fs] ks last tr Hsp W. cbn [wq_method wq_uri wq_protocol wq_fields] in W. unfold sg_tchunked. cbn [wq_method wq_uri wq_protocol wq_fields].
  set (t0 := sg_hdr_end (wr_block_tx fs (sg_th0 g 0 m u p))).
  assert (K0 : sg_lk t0 (sg_t1 0)).
  { unfold t0. eapply sg_lk_trans; [apply sg_lk_hdr_end|]. eapply sg_lk_trans; [apply sg_lk_block|]. unfold sg_th0.
    eapply sg_lk_trans; [|apply (sg_lk_tx_line g (sg_t1 0) m u p Hsp W)]. generalize (sg_tx_line g (sg_t1 0) (wr_ser_request_line m u p)). intros X. sg_lk_now. }
  destruct K0 as [K0e K0m]. change (t_request_entity_len (sg_t1 0)) with 0%Z in K0e. change (t_request_message_len (sg_t1 0)) with 0%Z in K0m.
  clearbody t0.
  set (E := Z.of_nat (length (bd_chunks_data ks))) in *. set (M := Z.of_nat (length (bd_chunks_wire ks) + length last)) in *.
  destruct (sg_lk_block tr (sg_cbody E M c_HTP_REQUEST_TRAILER t0)) as [Kbe Kbm].
  set (tt := wr_block_tx tr (sg_cbody E M c_HTP_REQUEST_TRAILER t0)) in *. clearbody tt.
  split; [|split; [|reflexivity]].
  - change (t_request_entity_len (sg_tcomplete tt)) with (Z.of_nat 0 + t_request_entity_len tt)%Z. rewrite Kbe.
    change (t_request_entity_len (sg_cbody E M c_HTP_REQUEST_TRAILER t0)) with (E + t_request_entity_len t0)%Z. rewrite K0e. lia.
  - change (t_request_message_len (sg_tcomplete tt)) with (t_request_message_len tt). rewrite Kbm.
    change (t_request_message_len (sg_cbody E M c_HTP_REQUEST_TRAILER t0)) with (M + t_request_message_len t0)%Z. rewrite K0m. lia.
Qed.

(* every folding and chunking: the body was counted exactly once *)
Theorem sg_request_chunked_counted : forall cb g r (cuts : list (list bytes)) (ks : list bd_chunk) (last : bytes) (tr : list wr_field)
    (tcuts : list (list bytes)) (chunks : list bytes),
  wr_all_ok cb -> g_allow_space_uri g = false -> sg_chunked_ok g r = true -> sg_cuts_ok r cuts = true -> sg_fold_fits g r cuts = true ->
  sg_cfbody_ok g ks last tr tcuts = true ->
  Forall (fun x => x <> []) chunks -> concat chunks = sg_fold_wire r cuts ++ sg_cfbody_wire ks last tr tcuts ->
  exists t, c_txs (fst (cp_run cb g connp_new (OpOpen :: map OpReqData chunks))) = [Some t] /\
    t_request_entity_len t = Z.of_nat (length (bd_chunks_data ks)) /\
    t_request_message_len t = Z.of_nat (length (bd_chunks_wire ks) + length last) /\ t_request_progress t = c_HTP_REQUEST_COMPLETE.
Proof.
  intros cb g r cuts ks last tr tcuts chunks Hcb Hsp Wr C1 F1 B1 A1 E1.
  destruct (sg_request_chunked_fold_trailer_chunking cb g r cuts ks last tr tcuts chunks Hcb Hsp Wr C1 F1 B1 A1 E1) as (t & T & M).
  exists t. split; [exact T|].
  assert (Wl : wr_wf_request_line (wq_method r) (wq_uri r) (wq_protocol r) = true).
  { unfold sg_chunked_ok in Wr. cbv zeta in Wr. apply andb_prop in Wr. destruct Wr as [Wr _]. apply andb_prop in Wr. destruct Wr as [Wr _]. apply andb_prop in Wr. apply Wr. }
  destruct (sg_tchunked_lens g r ks last tr Hsp Wl) as (L1 & L2 & L3).
  revert M L1 L2 L3. generalize (sg_tchunked g r ks last tr). intros X M L1 L2 L3.
  change (t_request_entity_len t) with (t_request_entity_len (sg_mask t)). change (t_request_message_len t) with (t_request_message_len (sg_mask t)).
  change (t_request_progress t) with (t_request_progress (sg_mask t)). rewrite M. exact (conj L1 (conj L2 L3)).
Qed.

(* ================= non-vacuity and the vm_compute harness ================= *)
Require Coq.Strings.String.
Import Coq.Strings.String.StringSyntax.
Local Open Scope string_scope.
(* POST /1 HTTP/1.1 | Host: a | Transfer-Encoding: chunked | | 3;x=y | abc | 00C | 0 CRLF CRLF GET / CRLF | 0 | [X-T: 1 | Host: b |] | *)
Definition sg_ex_creq : wr_request :=
  mk_wr_request (bd_str "POST") (bd_str "/1") wr_http11
    [mk_wr_field (bd_str "Host") [SP] (bd_str "a") []; mk_wr_field (bd_str "Transfer-Encoding") [SP] (bd_str "chunked") []].
Definition sg_ex_cks : list bd_chunk :=
  [mk_bd_chunk (bd_lines ["3;x=y"]) (bd_str "abc") bd_CRLF;
   mk_bd_chunk (bd_lines ["00C"]) (bd_lines ["0"; ""; "GET /"]) bd_CRLF].
Definition sg_ex_ctr : list wr_field := [mk_wr_field (bd_str "X-T") [SP] (bd_str "1") [SP]; mk_wr_field (bd_str "Host") [] (bd_str "b") []].
Definition sg_ex_cwire (tr : list wr_field) : bytes := wr_request_wire sg_ex_creq ++ sg_cbody_wire sg_ex_cks bd_last_line tr.
Definition sg_ex_clens (l : list (option tx)) :=
  map (option_map (fun t => (t_request_progress t, t_request_entity_len t, t_request_message_len t, length (t_request_headers t)))) l.

Example sg_ex_chunked_premises :
  sg_chunked_ok (sg_ex_cfg 18000) sg_ex_creq = true /\ sg_fits (sg_ex_cfg 18000) sg_ex_creq = true /\
  sg_cbody_ok (sg_ex_cfg 18000) sg_ex_cks bd_last_line [] = true /\ sg_cbody_ok (sg_ex_cfg 18000) sg_ex_cks bd_last_line sg_ex_ctr = true /\
  length (sg_ex_cwire []) = 93%nat /\ length (sg_ex_cwire sg_ex_ctr) = 110%nat.
Proof. split; [vm_compute; reflexivity|]. split; [vm_compute; reflexivity|]. split; [vm_compute; reflexivity|]. split; [vm_compute; reflexivity|]. split; vm_compute; reflexivity. Qed.
(* Stage 2 (no trailer fields): every single cut and the byte-by-byte delivery report what the single chunk reports: the
   transaction of the theorem, 15 data bytes, 34 bytes of coded body counted *)
Example sg_ex_chunked_cuts :
  map (sg_run (sg_ex_cfg 18000)) (sg_cuts1 (sg_ex_cwire [])) = repeat (sg_run (sg_ex_cfg 18000) [sg_ex_cwire []]) 92 /\
  sg_run (sg_ex_cfg 18000) (sg_bytewise (sg_ex_cwire [])) = sg_run (sg_ex_cfg 18000) [sg_ex_cwire []] /\
  sg_ex_clens (sg_run (sg_ex_cfg 18000) [sg_ex_cwire []]) = [Some (c_HTP_REQUEST_COMPLETE, 15%Z, 34%Z, 2%nat)] /\
  sg_run (sg_ex_cfg 18000) [sg_ex_cwire []] = [Some (sg_mask (sg_tchunked (sg_ex_cfg 18000) sg_ex_creq sg_ex_cks bd_last_line []))].
Proof. split; [vm_compute; reflexivity|]. split; [vm_compute; reflexivity|]. split; vm_compute; reflexivity. Qed.
(* Stage 3 (trailer fields; the second one repeats a header field and is merged into it) *)
Example sg_ex_chunked_trailer_cuts :
  map (sg_run (sg_ex_cfg 18000)) (sg_cuts1 (sg_ex_cwire sg_ex_ctr)) = repeat (sg_run (sg_ex_cfg 18000) [sg_ex_cwire sg_ex_ctr]) 109 /\
  sg_run (sg_ex_cfg 18000) (sg_bytewise (sg_ex_cwire sg_ex_ctr)) = sg_run (sg_ex_cfg 18000) [sg_ex_cwire sg_ex_ctr] /\
  sg_ex_clens (sg_run (sg_ex_cfg 18000) [sg_ex_cwire sg_ex_ctr]) = [Some (c_HTP_REQUEST_COMPLETE, 15%Z, 34%Z, 3%nat)] /\
  sg_run (sg_ex_cfg 18000) [sg_ex_cwire sg_ex_ctr] = [Some (sg_mask (sg_tchunked (sg_ex_cfg 18000) sg_ex_creq sg_ex_cks bd_last_line sg_ex_ctr))].
Proof. split; [vm_compute; reflexivity|]. split; [vm_compute; reflexivity|]. split; vm_compute; reflexivity. Qed.
(* trailer fields folded: X-T: 1 | SP b | Host: c | HT x y  (the same fields as  X-T: 1 b  and  Host: c\tx y  on one line each) *)
Definition sg_ex_ctr2 : list wr_field := [mk_wr_field (bd_str "X-T") [SP] (bd_str "1 b") []; mk_wr_field (bd_str "Host") [SP] (bd_str "c" ++ [HT] ++ bd_str "x y") []].
Definition sg_ex_ctcuts2 : list (list bytes) := [[SP :: bd_str "1"; SP :: bd_str "b"]; [SP :: bd_str "c"; HT :: bd_str "x y"]].
Definition sg_ex_cfwire : bytes := wr_request_wire sg_ex_creq ++ sg_cfbody_wire sg_ex_cks bd_last_line sg_ex_ctr2 sg_ex_ctcuts2.
Example sg_ex_chunked_folded_trailer :
  sg_cfbody_ok (sg_ex_cfg 18000) sg_ex_cks bd_last_line sg_ex_ctr2 sg_ex_ctcuts2 = true /\
  sg_cfbody_wire sg_ex_cks bd_last_line sg_ex_ctr2 sg_ex_ctcuts2 =
    bd_chunks_wire sg_ex_cks ++ bd_last_line ++ bd_lines ["X-T: 1"; " b"; "Host: c"] ++ [HT] ++ bd_lines ["x y"; ""] /\
  map (sg_run (sg_ex_cfg 18000)) (sg_cuts1 sg_ex_cfwire) = repeat (sg_run (sg_ex_cfg 18000) [sg_ex_cfwire]) 119 /\
  sg_run (sg_ex_cfg 18000) (sg_bytewise sg_ex_cfwire) = sg_run (sg_ex_cfg 18000) [sg_ex_cfwire] /\
  sg_run (sg_ex_cfg 18000) [sg_ex_cfwire] = sg_run (sg_ex_cfg 18000) [wr_request_wire sg_ex_creq ++ sg_cbody_wire sg_ex_cks bd_last_line sg_ex_ctr2] /\
  sg_run (sg_ex_cfg 18000) [sg_ex_cfwire] = [Some (sg_mask (sg_tchunked (sg_ex_cfg 18000) sg_ex_creq sg_ex_cks bd_last_line sg_ex_ctr2))].
Proof. split; [vm_compute; reflexivity|]. split; [vm_compute; reflexivity|]. split; [vm_compute; reflexivity|]. split; [vm_compute; reflexivity|]. split; vm_compute; reflexivity. Qed.
(* a short request, every double cut: POST /1 HTTP/1.1 | Transfer-Encoding: chunked | | 2;a | ab | 1 LF | c LF | 0 | T: v | *)
Definition sg_ex_creq1 : wr_request :=
  mk_wr_request (bd_str "POST") (bd_str "/1") wr_http11 [mk_wr_field (bd_str "Transfer-Encoding") [SP] (bd_str "chunked") []].
Definition sg_ex_cks1 : list bd_chunk := [mk_bd_chunk (bd_lines ["2;a"]) (bd_str "ab") bd_CRLF; mk_bd_chunk (bd_str "1" ++ [LF]) (bd_str "c") [LF]].
Definition sg_ex_cwire1 : bytes := wr_request_wire sg_ex_creq1 ++ sg_cbody_wire sg_ex_cks1 bd_last_line [mk_wr_field (bd_str "T") [SP] (bd_str "v") []].
Example sg_ex_chunked_double_cuts :
  sg_chunked_ok (sg_ex_cfg 18000) sg_ex_creq1 = true /\
  sg_cbody_ok (sg_ex_cfg 18000) sg_ex_cks1 bd_last_line [mk_wr_field (bd_str "T") [SP] (bd_str "v") []] = true /\ length sg_ex_cwire1 = 72%nat /\
  map (sg_run (sg_ex_cfg 18000)) (sg_cuts2 sg_ex_cwire1) = repeat (sg_run (sg_ex_cfg 18000) [sg_ex_cwire1]) 2485.
Proof. split; [vm_compute; reflexivity|]. split; [vm_compute; reflexivity|]. split; vm_compute; reflexivity. Qed.
(* no chunk at all: 0 CRLF CRLF *)
Example sg_ex_chunked_empty :
  sg_cbody_ok (sg_ex_cfg 18000) [] bd_last_line [] = true /\
  let w := wr_request_wire sg_ex_creq1 ++ sg_cbody_wire [] bd_last_line [] in
  map (sg_run (sg_ex_cfg 18000)) (sg_cuts1 w) = repeat (sg_run (sg_ex_cfg 18000) [w]) 52 /\
  sg_run (sg_ex_cfg 18000) [w] = [Some (sg_mask (sg_tchunked (sg_ex_cfg 18000) sg_ex_creq1 [] bd_last_line []))].
Proof. split; [vm_compute; reflexivity|]. split; vm_compute; reflexivity. Qed.
(* the encoder's chunks satisfy the premises (26 = 0x1a data bytes, an extension) *)
Example sg_ex_chunked_encoder :
  let cs := [(bd_str "abcdefghijklmnopqrstuvwxyz", bd_str ";n=v"); (bd_str "z", [])] in
  sg_cbody_ok (sg_ex_cfg 18000) (map sg_enc_chunk cs) bd_last_line [] = true /\
  bd_enc_body cs [] = bd_lines ["1a;n=v"; "abcdefghijklmnopqrstuvwxyz"; "1"; "z"; "0"; ""].
Proof. split; vm_compute; reflexivity. Qed.
(* the limit premise on the size lines is needed and is exact: with field_limit_hard = 30 a size line of 30 bytes (with its
   CR LF) is assembled from any two pieces; one of 31 bytes is accepted when it arrives in one piece (nothing is buffered)
   and refused (HTP_STREAM_ERROR, the request stays in its body) when it is cut *)
Definition sg_ex_cline (n : nat) : bytes := bd_str "3;" ++ repeat 120%N n ++ bd_CRLF.
Definition sg_ex_cwire_lim (n : nat) : bytes := wr_request_wire sg_ex_creq1 ++ sg_cbody_wire [mk_bd_chunk (sg_ex_cline n) (bd_str "abc") bd_CRLF] bd_last_line [].
Example sg_ex_chunked_limit :
  sg_fits (sg_ex_cfg 30) sg_ex_creq1 = true /\
  sg_cbody_ok (sg_ex_cfg 30) [mk_bd_chunk (sg_ex_cline 26) (bd_str "abc") bd_CRLF] bd_last_line [] = true /\
  sg_cbody_ok (sg_ex_cfg 30) [mk_bd_chunk (sg_ex_cline 27) (bd_str "abc") bd_CRLF] bd_last_line [] = false /\
  map (sg_run (sg_ex_cfg 30)) (sg_cuts1 (sg_ex_cwire_lim 26)) = repeat (sg_run (sg_ex_cfg 30) [sg_ex_cwire_lim 26]) 87 /\
  sg_ex_clens (sg_run (sg_ex_cfg 30) [sg_ex_cwire_lim 27]) = [Some (c_HTP_REQUEST_COMPLETE, 3%Z, 39%Z, 1%nat)] /\
  sg_ex_clens (sg_run (sg_ex_cfg 30) [firstn 50 (sg_ex_cwire_lim 27); skipn 50 (sg_ex_cwire_lim 27)]) = [Some (c_HTP_REQUEST_BODY, 0%Z, 0%Z, 1%nat)].
Proof. split; [vm_compute; reflexivity|]. split; [vm_compute; reflexivity|]. split; [vm_compute; reflexivity|]. split; [vm_compute; reflexivity|]. split; vm_compute; reflexivity. Qed.
(* ... and so is the pairwise premise on the trailer lines (PSegHdr.sg_fit, as for header lines): two trailer lines of 20 bytes
   (with CR LF) under field_limit_hard = 30 are accepted in one piece; when the first one is pending in in_header (the chunk
   ended right after it) and the second one has to be buffered, htp_connp_req_buffer refuses (18 + 4 + ... > 30) *)
Definition sg_ex_ctrf : wr_field := mk_wr_field (bd_str "A") [SP] (bd_str "123456789012345") [].
Definition sg_ex_cwire_tr : bytes := wr_request_wire sg_ex_creq1 ++ sg_cbody_wire [] bd_last_line [sg_ex_ctrf; sg_ex_ctrf].
Example sg_ex_chunked_trailer_limit :
  sg_cbody_ok (sg_ex_cfg 30) [] bd_last_line [sg_ex_ctrf; sg_ex_ctrf] = false /\ sg_cbody_ok (sg_ex_cfg 38) [] bd_last_line [sg_ex_ctrf; sg_ex_ctrf] = true /\
  sg_ex_clens (sg_run (sg_ex_cfg 30) [sg_ex_cwire_tr]) = [Some (c_HTP_REQUEST_COMPLETE, 0%Z, 3%Z, 2%nat)] /\
  sg_ex_clens (sg_run (sg_ex_cfg 30) [firstn 71 sg_ex_cwire_tr; firstn 4 (skipn 71 sg_ex_cwire_tr); skipn 75 sg_ex_cwire_tr]) = [Some (c_HTP_REQUEST_TRAILER, 0%Z, 3%Z, 1%nat)] /\
  sg_ex_clens (sg_run (sg_ex_cfg 38) [firstn 71 sg_ex_cwire_tr; firstn 4 (skipn 71 sg_ex_cwire_tr); skipn 75 sg_ex_cwire_tr]) = [Some (c_HTP_REQUEST_COMPLETE, 0%Z, 3%Z, 2%nat)].
Proof. split; [vm_compute; reflexivity|]. split; [vm_compute; reflexivity|]. split; [vm_compute; reflexivity|]. split; vm_compute; reflexivity. Qed.

(* ================= THEOREMS FOR RE-EXPORT (Properties_C03.v): chunked request bodies (Stages 2 and 3) =================
   sg_request_chunked_fold_trailer_chunking      the most general form: header fields folded as `cuts`, trailer fields folded as `tcuts`, any chunking:
                                                 exists t, txs = [Some t] /\ sg_mask t = sg_mask (sg_tchunked g r ks last tr)
   sg_request_chunked_fold_trailer_chunking_obs  two foldings (of header and trailer fields) and two segmentations: sg_obs equal
     premises: wr_all_ok cb, g_allow_space_uri g = false, sg_chunked_ok g r = true, sg_cuts_ok r cuts = true, sg_fold_fits g r cuts = true,
               sg_cfbody_ok g ks last tr tcuts = true, Forall (fun x => x <> []) chunks,
               concat chunks = sg_fold_wire r cuts ++ sg_cfbody_wire ks last tr tcuts
   sg_request_chunked_chunking            trailer fields one line each (sg_cbody_ok g ks last tr, wire sg_fold_wire r cuts ++ sg_cbody_wire ks last tr)
   sg_request_chunked_chunking_obs        sg_obs (chunked run) = sg_obs (single-chunk run)                                     (sg_obs / sg_mask = c03_obs / c03_mask)
   sg_request_chunked_fold_chunking_obs   two foldings of the header fields / two segmentations: sg_obs equal
   sg_request_chunked_chunking_unfolded   header fields one line each too (wire wr_request_wire r ++ sg_cbody_wire ks last tr, premise sg_fits g r): both forms
   sg_request_chunked_chunking_no_trailer Stage 2 alone (tr = []; wire ... ++ bd_chunks_wire ks ++ last ++ [CR; LF]; premises bd_chunk_ok / bd_last_ok / bd_lines_fit)
   sg_request_chunked_chunking_encoder    the body in the encoder's format SBody.bd_enc_body cs (wr_block_wire tr)
   sg_tchunked_lens / sg_request_chunked_counted   the reported request_entity_len is |bd_chunks_data ks|, request_message_len is |bd_chunks_wire ks| + |last|
                                          (the trailer block and the final empty line are not counted by the code), progress COMPLETE -- in every chunking *)
Print Assumptions sg_request_chunked_fold_trailer_chunking.
Print Assumptions sg_request_chunked_fold_trailer_chunking_obs.
Print Assumptions sg_request_chunked_chunking.
Print Assumptions sg_request_chunked_chunking_obs.
Print Assumptions sg_request_chunked_fold_chunking_obs.
Print Assumptions sg_request_chunked_chunking_unfolded.
Print Assumptions sg_request_chunked_chunking_no_trailer.
Print Assumptions sg_request_chunked_chunking_encoder.
Print Assumptions sg_tchunked_lens.
Print Assumptions sg_request_chunked_counted.
