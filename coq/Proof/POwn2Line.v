(* Proofs about the ownership model, second part (C18): htp_parse_response_line_generic and
   htp_parse_request_line_generic_ex (Model/MOwn2.v). *)
Require Import Htp.Model.Base Htp.Model.MOwn Htp.Model.MOwnCases Htp.Model.MOwn2 Htp.Proof.POwn Htp.Proof.POwn2 Htp.Proof.POwn2Uri Htp.Proof.POwn2Dec.

Ltac tx_proj3 := cbn [otx_self otx_conn otx_connp otx_req_strs otx_uri_raw otx_uri otx_auth_user otx_auth_pass otx_req_hdrs otx_req_hvals
                      otx_pvals otx_params otx_cookies otx_cvals otx_hook_req otx_hook_res otx_res_strs otx_res_hdrs otx_res_hvals otx_rep].

Lemma fp_tx_set_req_strs tx l j :
  cnt j (fp_tx (otx_set_req_strs tx l)) + cnt j (olist (otx_req_strs tx)) = cnt j (fp_tx tx) + cnt j (olist l).
Proof. unfold fp_tx, otx_set_req_strs. tx_proj3. cnt_norm. lia. Qed.
Lemma fp_tx_set_res_strs tx l j :
  cnt j (fp_tx (otx_set_res_strs tx l)) + cnt j (olist (otx_res_strs tx)) = cnt j (fp_tx tx) + cnt j (olist l).
Proof. unfold fp_tx, otx_set_res_strs. tx_proj3. cnt_norm. lia. Qed.
Lemma wf_tx_set_req_strs tx l : wf_tx tx -> wf_tx (otx_set_req_strs tx l).
Proof. intros W. exact W. Qed.
Lemma wf_tx_set_res_strs tx l : wf_tx tx -> wf_tx (otx_set_res_strs tx l).
Proof. intros W. exact W. Qed.
Lemma tx_res_strs_in_fp tx j : cnt j (olist (otx_res_strs tx)) <= cnt j (fp_tx tx).
Proof. unfold fp_tx. cnt_norm. lia. Qed.

Lemma set_nth_none_same (l : list ow_oid) i j : nth i l None = None -> cnt j (olist (ow_set_nth l i None)) = cnt j (olist l).
Proof.
  revert i. induction l as [|x r IH]; intros [|i] E; cbn [ow_set_nth nth] in *; auto.
  - subst x. reflexivity.
  - rewrite !cnt_olist_cons. rewrite IH; auto.
Qed.

(* a string field of the transaction that is set is a live cell *)
Lemma str_live (l : list ow_oid) i a G F s :
  nth i l None = Some a -> (forall j, cnt j (olist l) <= cnt j G) -> ow_own (G ++ F) s -> 1 <= cnt a (oos_live s).
Proof.
  intros E Hl [_ O]. rewrite O. pose proof (cnto_nth_le l i a) as A. rewrite E in A. specialize (Hl a). cnt_norm. lia.
Qed.

(* ------------------------------------------------------------------ one field *)
Record tx_same (tx tx' : ow_tx) : Prop := mk_tx_same {
  txs_conn : otx_conn tx' = otx_conn tx; txs_connp : otx_connp tx' = otx_connp tx; txs_self : otx_self tx' = otx_self tx }.
Lemma tx_same_refl tx : tx_same tx tx.
Proof. split; reflexivity. Qed.
Lemma tx_same_trans (a b c : ow_tx) : tx_same a b -> tx_same b c -> tx_same a c.
Proof. intros [A1 A2 A3] [B1 B2 B3]. split; congruence. Qed.

Lemma wp_dup_into_res tx i F (Q : bool * ow_tx -> ow_state -> Prop) s :
  wf_tx tx -> i < length (otx_res_strs tx) -> nth i (otx_res_strs tx) None = None -> ow_own (fp_tx tx ++ F) s ->
  (forall (ok : bool) tx' s', wf_tx tx' -> tx_same tx tx' -> length (otx_res_strs tx') = length (otx_res_strs tx) ->
                     (forall k, k <> i -> nth k (otx_res_strs tx') None = nth k (otx_res_strs tx) None) ->
                     (if ok then nth i (otx_res_strs tx') None <> None else nth i (otx_res_strs tx') None = None) ->
                     otx_req_strs tx' = otx_req_strs tx ->
                     ow_own (fp_tx tx' ++ F) s' -> Q (ok, tx') s') ->
  ow_wp (ow_dup_into_res tx i) Q s.
Proof.
  intros W Hi En [Hok Hown] HQ. unfold ow_dup_into_res.
  assert (Hfp : forall b j, cnt j (fp_tx (otx_set_res_strs tx (ow_set_nth (otx_res_strs tx) i b))) = cnt j (fp_tx tx) + cnto j b).
  { intros b j. pose proof (fp_tx_set_res_strs tx (ow_set_nth (otx_res_strs tx) i b) j) as A.
    pose proof (cnt_set_nth (otx_res_strs tx) i b j Hi) as B. rewrite En in B. cbn [cnto] in B. lia. }
  wp_go; cbn [negb ow_isnull].
  - apply HQ; [exact W | split; reflexivity | | | | reflexivity |].
    + unfold otx_set_res_strs. tx_proj3. apply length_set_nth.
    + intros k Hk. unfold otx_set_res_strs. tx_proj3. apply nth_set_nth_other. auto.
    + unfold otx_set_res_strs. tx_proj3. apply nth_set_nth_same. auto.
    + split; auto. intros j. rewrite cnt_app, Hfp. cnt_at j.
  - apply HQ; [exact W | split; reflexivity | | | | reflexivity |].
    + unfold otx_set_res_strs. tx_proj3. apply length_set_nth.
    + intros k Hk. unfold otx_set_res_strs. tx_proj3. apply nth_set_nth_other. auto.
    + unfold otx_set_res_strs. tx_proj3. rewrite nth_set_nth_same by auto. discriminate.
    + split; auto. intros j. rewrite cnt_app, Hfp. cnt_at j.
Qed.

Lemma wp_dup_into_req tx i F (Q : bool * ow_tx -> ow_state -> Prop) s :
  wf_tx tx -> i < length (otx_req_strs tx) -> nth i (otx_req_strs tx) None = None -> ow_own (fp_tx tx ++ F) s ->
  (forall (ok : bool) tx' s', wf_tx tx' -> tx_same tx tx' -> length (otx_req_strs tx') = length (otx_req_strs tx) ->
                     (forall k, k <> i -> nth k (otx_req_strs tx') None = nth k (otx_req_strs tx) None) ->
                     (if ok then nth i (otx_req_strs tx') None <> None else nth i (otx_req_strs tx') None = None) ->
                     ow_own (fp_tx tx' ++ F) s' -> Q (ok, tx') s') ->
  ow_wp (ow_dup_into_req tx i) Q s.
Proof.
  intros W Hi En [Hok Hown] HQ. unfold ow_dup_into_req.
  assert (Hfp : forall b j, cnt j (fp_tx (otx_set_req_strs tx (ow_set_nth (otx_req_strs tx) i b))) = cnt j (fp_tx tx) + cnto j b).
  { intros b j. pose proof (fp_tx_set_req_strs tx (ow_set_nth (otx_req_strs tx) i b) j) as A.
    pose proof (cnt_set_nth (otx_req_strs tx) i b j Hi) as B. rewrite En in B. cbn [cnto] in B. lia. }
  wp_go; cbn [negb ow_isnull].
  - apply HQ; [exact W | split; reflexivity | | | |].
    + unfold otx_set_req_strs. tx_proj3. apply length_set_nth.
    + intros k Hk. unfold otx_set_req_strs. tx_proj3. apply nth_set_nth_other. auto.
    + unfold otx_set_req_strs. tx_proj3. apply nth_set_nth_same. auto.
    + split; auto. intros j. rewrite cnt_app, Hfp. cnt_at j.
  - apply HQ; [exact W | split; reflexivity | | | |].
    + unfold otx_set_req_strs. tx_proj3. apply length_set_nth.
    + intros k Hk. unfold otx_set_req_strs. tx_proj3. apply nth_set_nth_other. auto.
    + unfold otx_set_req_strs. tx_proj3. rewrite nth_set_nth_same by auto. discriminate.
    + split; auto. intros j. rewrite cnt_app, Hfp. cnt_at j.
Qed.

Lemma use_str (l : list ow_oid) i G F (Q : unit -> ow_state -> Prop) s :
  nth i l None <> None -> (forall j, cnt j (olist l) <= cnt j G) -> ow_own (G ++ F) s -> Q tt s -> ow_wp (ow_use (nth i l None)) Q s.
Proof.
  intros Hn Hl O HQ. destruct (nth i l None) as [a|] eqn:E; [|congruence].
  apply wp_use; auto. exists a. split; auto. eapply str_live; eauto.
Qed.

(* ------------------------------------------------------------------ htp_parse_response_line_generic *)
Definition res_line_ready (tx : ow_tx) : Prop :=
  length (otx_res_strs tx) = 5 /\ nth c_otx_response_line (otx_res_strs tx) None <> None /\
  nth c_otx_response_protocol (otx_res_strs tx) None = None /\ nth c_otx_response_status (otx_res_strs tx) None = None /\
  nth c_otx_response_message (otx_res_strs tx) None = None.

Lemma wp_parse_response_line parts connp tx F (Q : bool * ow_tx -> ow_state -> Prop) s :
  wf_tx tx -> res_line_ready tx -> in_frame connp F -> ow_own (fp_tx tx ++ F) s ->
  (forall ok tx' s', wf_tx tx' -> tx_same tx tx' -> otx_req_strs tx' = otx_req_strs tx -> ow_own (fp_tx tx' ++ F) s' -> Q (ok, tx') s') ->
  ow_wp (ow_parse_response_line parts connp tx) Q s.
Proof.
  intros W [Hlen [H0 [H1 [H2 H3]]]] Hcp O HQ. unfold ow_parse_response_line.
  unfold c_otx_response_line, c_otx_response_protocol, c_otx_response_status, c_otx_response_message in *.
  pose proof W as [T1 _]. destruct (otx_self tx) as [ta|] eqn:Eta; [|congruence].
  apply wp_bind. apply wp_use. { eapply in_frame_live; eauto. }
  apply wp_bind. apply wp_use.
  { exists ta. split; auto. destruct O as [_ O]. rewrite O. pose proof (tx_self_in_fp tx ta) as A. rewrite Eta in A. cnt_norm. lia. }
  apply wp_bind. apply use_str with (G := fp_tx tx) (F := F); auto. { apply tx_res_strs_in_fp. }
  set (l0 := ow_set_nth (ow_set_nth (ow_set_nth (otx_res_strs tx) 1 None) 2 None) 3 None).
  set (tx0 := otx_set_res_strs tx l0).
  assert (El0 : forall k, nth k l0 None = nth k (otx_res_strs tx) None).
  { intros k. unfold l0.
    destruct (Nat.eq_dec k 3) as [->|N3]. { rewrite nth_set_nth_same by (rewrite !length_set_nth; lia). auto. }
    rewrite nth_set_nth_other by auto.
    destruct (Nat.eq_dec k 2) as [->|N2]. { rewrite nth_set_nth_same by (rewrite !length_set_nth; lia). auto. }
    rewrite nth_set_nth_other by auto.
    destruct (Nat.eq_dec k 1) as [->|N1]. { rewrite nth_set_nth_same by lia. auto. }
    rewrite nth_set_nth_other by auto. reflexivity. }
  assert (Ll0 : length l0 = 5). { unfold l0. rewrite !length_set_nth. exact Hlen. }
  assert (O0 : ow_own (fp_tx tx0 ++ F) s).
  { eapply own_perm; [|exact O]. intros j. unfold tx0. pose proof (fp_tx_set_res_strs tx l0 j) as A.
    assert (B : cnt j (olist l0) = cnt j (olist (otx_res_strs tx))).
    { unfold l0. rewrite set_nth_none_same.
      2:{ rewrite nth_set_nth_other by lia. rewrite nth_set_nth_other by lia. exact H3. }
      rewrite set_nth_none_same. 2:{ rewrite nth_set_nth_other by lia. exact H2. }
      apply set_nth_none_same. exact H1. }
    cnt_norm. lia. }
  assert (W0 : wf_tx tx0) by exact W.
  assert (S0 : tx_same tx tx0) by (split; reflexivity).
  assert (R0 : otx_req_strs tx0 = otx_req_strs tx) by reflexivity.
  assert (G0 : forall k, nth k (otx_res_strs tx0) None = nth k (otx_res_strs tx) None) by exact El0.
  assert (Len0 : length (otx_res_strs tx0) = 5) by exact Ll0.
  clearbody tx0. clear l0 El0 Ll0.
  destruct (parts =? 0). { apply wp_ret. apply HQ; auto. }
  apply wp_bind. apply wp_dup_into_res with (F := F); auto; try lia. { rewrite G0. exact H1. }
  intros ok1 tx1 s1 W1 S1 Len1 G1 V1 R1 O1. cbn [fst snd]. destruct ok1; cbn [negb].
  2:{ apply wp_ret. apply HQ; auto. { eapply tx_same_trans; eauto. } congruence. }
  apply wp_bind. apply use_str with (G := fp_tx tx1) (F := F); auto. { apply tx_res_strs_in_fp. }
  destruct (parts =? 1). { apply wp_ret. apply HQ; auto. { eapply tx_same_trans; eauto. } congruence. }
  apply wp_bind. apply wp_dup_into_res with (F := F); auto; try lia. { rewrite G1 by lia. rewrite G0. exact H2. }
  intros ok2 tx2 s2 W2 S2 Len2 G2 V2 R2 O2. cbn [fst snd]. destruct ok2; cbn [negb].
  2:{ apply wp_ret. apply HQ; auto. { eapply tx_same_trans; [|exact S2]. eapply tx_same_trans; eauto. } congruence. }
  apply wp_bind. apply use_str with (G := fp_tx tx2) (F := F); auto. { apply tx_res_strs_in_fp. }
  destruct (parts =? 2). { apply wp_ret. apply HQ; auto. { eapply tx_same_trans; [|exact S2]. eapply tx_same_trans; eauto. } congruence. }
  apply wp_bind. apply wp_dup_into_res with (F := F); auto; try lia. { rewrite G2 by lia. rewrite G1 by lia. rewrite G0. exact H3. }
  intros ok3 tx3 s3 W3 S3 Len3 G3 V3 R3 O3. cbn [fst snd]. apply wp_ret. apply HQ; auto.
  { eapply tx_same_trans; [|exact S3]. eapply tx_same_trans; [|exact S2]. eapply tx_same_trans; eauto. } congruence.
Qed.

(* ------------------------------------------------------------------ htp_parse_request_line_generic_ex *)
Definition req_line_ready (tx : ow_tx) : Prop :=
  length (otx_req_strs tx) = 6 /\ nth c_otx_request_line (otx_req_strs tx) None <> None /\
  nth c_otx_request_method (otx_req_strs tx) None = None /\ nth c_otx_request_uri (otx_req_strs tx) None = None /\
  nth c_otx_request_protocol (otx_req_strs tx) None = None.

Lemma wp_log_if b on connp cp c F (Q : ow_conn -> ow_state -> Prop) s :
  wf_conn cp c -> ow_own (fp_conn c ++ F) s -> connp <> None -> (forall j, cnto j connp <= cnt j F) ->
  (forall c' s', wf_conn cp c' -> conn_same c c' -> ow_own (fp_conn c' ++ F) s' -> Q c' s') ->
  ow_wp (ow_log_if b on connp c) Q s.
Proof.
  intros W O Hn Hle HQ. unfold ow_log_if. destruct b.
  - apply wp_log_msg' with (cp := cp) (F := F); auto.
  - apply wp_ret. apply HQ; auto. apply conn_same_refl.
Qed.

Lemma wp_parse_request_line on sh connp cp c tx F (Q : bool * ow_conn * ow_tx -> ow_state -> Prop) s :
  wf_conn cp c -> wf_tx tx -> req_line_ready tx -> ow_own (fp_conn c ++ fp_tx tx ++ F) s -> connp <> None -> (forall j, cnto j connp <= cnt j F) ->
  (forall ok c' tx' s', wf_conn cp c' -> conn_same c c' -> wf_tx tx' -> tx_same tx tx' ->
                        ow_own (fp_conn c' ++ fp_tx tx' ++ F) s' -> Q (ok, c', tx') s') ->
  ow_wp (ow_parse_request_line on sh connp c tx) Q s.
Proof.
  intros Wc W [Hlen [H0 [H1 [H2 H3]]]] O Hn Hle HQ. unfold ow_parse_request_line.
  unfold c_otx_request_line, c_otx_request_method, c_otx_request_uri, c_otx_request_protocol in *.
  pose proof W as [T1 _]. destruct (otx_self tx) as [ta|] eqn:Eta; [|congruence].
  apply wp_bind. apply wp_use. { apply own_live_in with (G := fp_conn c ++ fp_tx tx) (F := F); auto. eapply own_perm; [|exact O]. intros j. cnt_norm. lia. }
  apply wp_bind. apply wp_use.
  { exists ta. split; auto. destruct O as [_ O]. rewrite O. pose proof (tx_self_in_fp tx ta) as A. rewrite Eta in A. cnt_norm. lia. }
  assert (Hperm : forall c0 tx0 s0, ow_own (fp_conn c0 ++ fp_tx tx0 ++ F) s0 -> ow_own (fp_tx tx0 ++ fp_conn c0 ++ F) s0).
  { intros c0 tx0 s0 O0. eapply own_perm; [|exact O0]. intros j. cnt_norm. lia. }
  assert (Hperm' : forall c0 tx0 s0, ow_own (fp_tx tx0 ++ fp_conn c0 ++ F) s0 -> ow_own (fp_conn c0 ++ fp_tx tx0 ++ F) s0).
  { intros c0 tx0 s0 O0. eapply own_perm; [|exact O0]. intros j. cnt_norm. lia. }
  apply wp_bind. apply use_str with (G := fp_tx tx) (F := fp_conn c ++ F); auto. { apply tx_req_strs_in_fp. }
  (* a log message while the transaction is tx0 *)
  assert (Hlog : forall b c0 tx0 s0 (Q' : ow_conn -> ow_state -> Prop), wf_conn cp c0 -> ow_own (fp_conn c0 ++ fp_tx tx0 ++ F) s0 ->
            (forall c1 s1, wf_conn cp c1 -> conn_same c0 c1 -> ow_own (fp_conn c1 ++ fp_tx tx0 ++ F) s1 -> Q' c1 s1) ->
            ow_wp (ow_log_if b on connp c0) Q' s0).
  { intros b c0 tx0 s0 Q' W0 O0 HQ'. apply wp_log_if with (cp := cp) (F := fp_tx tx0 ++ F); auto.
    intros j. specialize (Hle j). cnt_norm. lia. }
  apply wp_bind. apply (Hlog _ c tx); auto. intros c1 s1 Wc1 S1 O1.
  apply wp_bind. apply wp_dup_into_req with (F := fp_conn c1 ++ F); auto; try lia.
  intros ok1 tx1 s2 W1 X1 Len1 G1 V1 O2. cbn [fst snd]. destruct ok1; cbn [negb].
  2:{ apply wp_ret. apply HQ; auto. }
  apply wp_bind. apply use_str with (G := fp_tx tx1) (F := fp_conn c1 ++ F); auto. { apply tx_req_strs_in_fp. }
  apply wp_bind. apply (Hlog _ c1 tx1); auto. intros c2 s3 Wc2 S2 O3.
  assert (S12 : conn_same c c2) by (eapply conn_same_trans; eauto).
  destruct (orl_method_only sh).
  { apply wp_bind. apply (Hlog _ c2 tx1); auto. intros c3 s4 Wc3 S3 O4. apply wp_ret. apply HQ; auto. eapply conn_same_trans; eauto. }
  apply wp_bind. apply (Hlog _ c2 tx1); auto. intros c3 s4 Wc3 S3 O4.
  assert (S13 : conn_same c c3) by (eapply conn_same_trans; eauto).
  apply wp_bind. apply wp_dup_into_req with (F := fp_conn c3 ++ F); auto; try lia. { rewrite G1 by lia. exact H2. }
  intros ok2 tx2 s5 W2 X2 Len2 G2 V2 O5. cbn [fst snd].
  assert (X12 : tx_same tx tx2) by (eapply tx_same_trans; eauto).
  destruct ok2; cbn [negb].
  2:{ apply wp_ret. apply HQ; auto. }
  destruct (orl_no_protocol sh).
  { apply wp_bind. apply (Hlog _ c3 tx2); auto. intros c4 s6 Wc4 S4 O6. apply wp_ret. apply HQ; auto. eapply conn_same_trans; eauto. }
  apply wp_bind. apply wp_dup_into_req with (F := fp_conn c3 ++ F); auto; try lia. { rewrite G2 by lia. rewrite G1 by lia. exact H3. }
  intros ok3 tx3 s6 W3 X3 Len3 G3 V3 O6. cbn [fst snd].
  assert (X13 : tx_same tx tx3) by (eapply tx_same_trans; eauto).
  destruct ok3; cbn [negb].
  2:{ apply wp_ret. apply HQ; auto. }
  apply wp_bind. apply use_str with (G := fp_tx tx3) (F := fp_conn c3 ++ F); auto. { apply tx_req_strs_in_fp. }
  apply wp_bind. apply (Hlog _ c3 tx3); auto. intros c4 s7 Wc4 S4 O7. apply wp_ret. apply HQ; auto. eapply conn_same_trans; eauto.
Qed.

(* ------------------------------------------------------------------ theorems *)
Theorem ow_safe_parse_response_line parts p c tx F s :
  ow_world p c -> wf_tx tx -> res_line_ready tx -> ow_own (fp_connp p ++ fp_tx tx ++ F) s ->
  ow_nofault (ow_parse_response_line parts (ocp_self p) tx) s.
Proof.
  intros Wd Wt Hr O. destruct (world_split _ _ Wd) as [a [R [Ea [Wc [Ha [E1 [E2 Hwf]]]]]]].
  eapply wp_nofault. apply wp_parse_response_line with (F := fp_connp p ++ F) (Q := fun _ _ => True); auto.
  - rewrite Ea. split; [discriminate|]. intros j. specialize (Ha j). specialize (E1 j). cnt_norm. lia.
  - eapply own_perm; [|exact O]. intros j. cnt_norm. lia.
Qed.

Theorem ow_then_destroy_clean_parse_response_line parts p c tx F s :
  ow_world p c -> wf_tx tx -> res_line_ready tx -> otx_conn tx = ocn_self c -> otx_connp tx = ocp_self p -> ocn_txl c <> None ->
  ow_own (fp_connp p ++ fp_tx tx ++ F) s ->
  ow_clean_to F (r <- ow_parse_response_line parts (ocp_self p) tx ;; ow_connp_destroy_all (Some (ow_put_tx p c (snd r)))) s.
Proof.
  intros Wd Wt Hr Ec Ep Hl O. destruct (world_split _ _ Wd) as [a [R [Ea [Wc [Ha [E1 [E2 Hwf]]]]]]].
  apply wp_bind. apply wp_parse_response_line with (F := fp_connp p ++ F); auto.
  - rewrite Ea. split; [discriminate|]. intros j. specialize (Ha j). specialize (E1 j). cnt_norm. lia.
  - eapply own_perm; [|exact O]. intros j. cnt_norm. lia.
  - intros ok tx' s1 Wt' [Ec' Ep' _] _ O2. cbn [snd]. unfold ow_put_tx. apply wp_connp_destroy_all with (F := F).
    + apply Hwf. apply wf_conn_put; auto; congruence.
    + eapply own_perm; [|exact O2]. intros j. rewrite (cnt_app j (fp_connp _)), E2, fp_conn_put. specialize (E1 j). cnt_norm. lia.
    + auto.
Qed.

Theorem ow_safe_parse_request_line on sh p c tx F s :
  ow_world p c -> wf_tx tx -> req_line_ready tx -> ow_own (fp_connp p ++ fp_tx tx ++ F) s ->
  ow_nofault (ow_parse_request_line on sh (ocp_self p) c tx) s.
Proof.
  intros Wd Wt Hr O. destruct (world_split _ _ Wd) as [a [R [Ea [Wc [Ha [E1 [E2 Hwf]]]]]]].
  eapply wp_nofault. rewrite Ea. apply wp_parse_request_line with (cp := Some a) (F := R ++ F) (Q := fun _ _ => True); auto.
  - eapply own_perm; [|exact O]. intros j. specialize (E1 j). cnt_norm. lia.
  - discriminate.
  - intros j. specialize (Ha j). cnt_norm. lia.
Qed.

Theorem ow_then_destroy_clean_parse_request_line on sh p c tx F s :
  ow_world p c -> wf_tx tx -> req_line_ready tx -> otx_conn tx = ocn_self c -> otx_connp tx = ocp_self p -> ocn_txl c <> None ->
  ow_own (fp_connp p ++ fp_tx tx ++ F) s ->
  ow_clean_to F (r <- ow_parse_request_line on sh (ocp_self p) c tx ;;
                 ow_connp_destroy_all (Some (ow_put_tx p (snd (fst r)) (snd r)))) s.
Proof.
  intros Wd Wt Hr Ec Ep Hl O. destruct (world_split _ _ Wd) as [a [R [Ea [Wc [Ha [E1 [E2 Hwf]]]]]]].
  apply wp_bind. rewrite Ea. apply wp_parse_request_line with (cp := Some a) (F := R ++ F); auto.
  - eapply own_perm; [|exact O]. intros j. specialize (E1 j). cnt_norm. lia.
  - discriminate.
  - intros j. specialize (Ha j). cnt_norm. lia.
  - intros ok c' tx' s1 Wc' [Et [Etl Es]] Wt' [Ec' Ep' _] O2. cbn [fst snd]. unfold ow_put_tx.
    assert (Hl' : ocn_txl c' <> None) by congruence.
    apply wp_connp_destroy_all with (F := F).
    + apply Hwf. apply wf_conn_put; auto; congruence.
    + eapply own_perm; [|exact O2]. intros j. rewrite (cnt_app j (fp_connp _)), E2, fp_conn_put. cnt_norm. lia.
    + auto.
Qed.
