(* C10 -- configured limits bound what the parser keeps: the response direction (MTxRes, MRes) preserves the
   invariant of PLimits.v. *)
Require Import Htp.Model.MConnTypes Htp.Model.MTxCommon Htp.Model.MBstr Htp.Model.MResLine Htp.Model.MTxRes Htp.Model.MRes
               Htp.Model.MConnp Htp.Proof.PLimits.

(* ---- the same automation as PLimits.kp_go, but head-driven and without zeta-expansion: a let-bound intermediate state is
   proved to satisfy the property once and then abstracted, so that long `let c := if .. in` chains stay linear ---- *)
Ltac kp_red :=
  cbv beta iota;
  repeat match goal with
         | |- context [snd (?a, ?b)] => change (snd (a, b)) with b
         | |- context [fst (?a, ?b)] => change (fst (a, b)) with a
         end.
Ltac kp_case2 P x k :=
  let T := type of x in
  let T' := eval cbv beta in T in
  lazymatch T' with
  | prod (prod _ connp) _ =>
    let H := fresh "Hk" in assert (H : kp P (snd (fst x))) by k;
    let E := fresh "E" in destruct x as [[? ?] ?] eqn:E; cbn [fst snd] in H
  | prod connp _ =>
    let H := fresh "Hk" in assert (H : kp P (fst x)) by k;
    let E := fresh "E" in destruct x as [? ?] eqn:E; cbn [fst snd] in H
  | prod _ connp =>
    let H := fresh "Hk" in assert (H : kp P (snd x)) by k;
    let E := fresh "E" in destruct x as [? ?] eqn:E; cbn [fst snd] in H
  | option connp =>
    let H := fresh "Hk" in assert (H : okp P x) by kp_solve;
    let E := fresh "E" in destruct x eqn:E; cbn [okp] in H
  | _ => destruct x
  end.
Ltac kp_abstract P X k :=
  let T := type of X in
  let v := fresh "v" in
  set (v := X);
  lazymatch T with
  | connp => let Hv := fresh "Hv" in assert (Hv : kp P v) by (subst v; k); clearbody v
  | _ => clearbody v
  end.
Ltac kp_zeta_head :=
  lazymatch goal with
  | |- kp ?P (snd (let x := ?v in @?b x)) => let g' := eval cbv beta in (kp P (snd (b v))) in change g'
  | |- kp ?P (fst (let x := ?v in @?b x)) => let g' := eval cbv beta in (kp P (fst (b v))) in change g'
  | |- kp ?P (let x := ?v in @?b x) => let g' := eval cbv beta in (kp P (b v)) in change g'
  end.
Ltac kp_go2 :=
  kp_red;
  lazymatch goal with
  | |- kp ?P (snd (let x := ?X in @?b x)) => kp_abstract P X kp_go2; kp_zeta_head; kp_go2
  | |- kp ?P (fst (let x := ?X in @?b x)) => kp_abstract P X kp_go2; kp_zeta_head; kp_go2
  | |- kp ?P (let x := ?X in @?b x) => kp_abstract P X kp_go2; kp_zeta_head; kp_go2
  | |- kp ?P (snd (match ?x with _ => _ end)) => first [kp_case2 P x kp_go2; kp_go2 | idtac]
  | |- kp ?P (fst (match ?x with _ => _ end)) => first [kp_case2 P x kp_go2; kp_go2 | idtac]
  | |- kp ?P (snd (fst (match ?x with _ => _ end))) => first [kp_case2 P x kp_go2; kp_go2 | idtac]
  | |- kp ?P (match ?x with _ => _ end) => first [kp_case2 P x kp_go2; kp_go2 | idtac]
  | |- _ => first [ kp_solve | kp_peel; kp_go2 | idtac ]
  end.

#[export] Hint Extern 1 (kp ?P (rs_set_out ?f ?c0)) => change (kp P c0) : kp.
#[export] Hint Extern 1 (kp ?P (rs_fault ?c0)) => change (kp P c0) : kp.
#[export] Hint Extern 1 (kp ?P (rs_set_state ?s ?c0)) => change (kp P c0) : kp.
#[export] Hint Extern 1 (kp ?P (rs_set_out_status ?s ?c0)) => change (kp P c0) : kp.

(* ---- MTxRes: receiver, body data and the response-side transaction states leave the key alone ---- *)
Section TxRes.
Variable cb : cb_oracle.
Variable g : cfg.
Variable P : lkey_t -> Prop.

Lemma res_receiver_send_data_kp l c : kp P c -> kp P (snd (res_receiver_send_data cb l c)).
Proof. intros H. unfold res_receiver_send_data. kp_go. Qed.
Hint Resolve res_receiver_send_data_kp : kp.
Lemma res_receiver_finalize_clear_kp c : kp P c -> kp P (snd (res_receiver_finalize_clear cb c)).
Proof. intros H. unfold res_receiver_finalize_clear. kp_go. Qed.
Hint Resolve res_receiver_finalize_clear_kp : kp.
Lemma res_receiver_set_kp h c : kp P c -> kp P (snd (res_receiver_set cb h c)).
Proof. intros H. unfold res_receiver_set. kp_go. Qed.
Lemma res_run_hook_body_data_kp i d n c : kp P c -> kp P (snd (res_run_hook_body_data cb i d n c)).
Proof. intros H. unfold res_run_hook_body_data. kp_go. Qed.
Hint Resolve res_run_hook_body_data_kp : kp.
Lemma tx_res_process_body_data_ex_kp i d n c : kp P c -> kp P (snd (tx_res_process_body_data_ex cb i d n c)).
Proof. intros H. unfold tx_res_process_body_data_ex. kp_go. Qed.
Hint Resolve tx_res_process_body_data_ex_kp : kp.
Lemma tx_state_response_start_kp i c : kp P c -> kp P (snd (tx_state_response_start cb i c)).
Proof. intros H. unfold tx_state_response_start. kp_go. Qed.
Lemma tx_state_response_line_kp i c : kp P c -> kp P (snd (tx_state_response_line cb i c)).
Proof. intros H. unfold tx_state_response_line. kp_go. Qed.
Lemma tx_state_response_headers_kp i c : kp P c -> kp P (snd (tx_state_response_headers cb i c)).
Proof. intros H. unfold tx_state_response_headers. kp_go. Qed.
Lemma tx_state_response_complete_ex_kp i h c : kp P c -> kp P (snd (tx_state_response_complete_ex cb g i h c)).
Proof. intros H. unfold tx_state_response_complete_ex. kp_go. Qed.
End TxRes.
#[export] Hint Resolve res_receiver_send_data_kp res_receiver_finalize_clear_kp res_receiver_set_kp res_run_hook_body_data_kp
  tx_res_process_body_data_ex_kp tx_state_response_start_kp tx_state_response_line_kp tx_state_response_headers_kp
  tx_state_response_complete_ex_kp : kp.

(* ---- MRes, the functions that leave the key alone ---- *)
Section ResFrame.
Variable cb : cb_oracle.
Variable g : cfg.
Variable P : lkey_t -> Prop.

Lemma rs_otx_kp f c : kp P c -> kp P (rs_otx f c).
Proof. intros H. unfold rs_otx. kp_go. Qed.
Hint Resolve rs_otx_kp : kp.
Lemma rs_load_next_kp c : kp P c -> kp P (rs_load_next c).
Proof. intros H. unfold rs_load_next. kp_go. Qed.
Hint Resolve rs_load_next_kp : kp.
Lemma rs_peek_next_kp c : kp P c -> kp P (rs_peek_next c).
Proof. intros H. unfold rs_peek_next. kp_go. Qed.
Hint Resolve rs_peek_next_kp : kp.
Lemma rs_copy_byte_kp c : kp P c -> okp P (rs_copy_byte c).
Proof. intros H. unfold rs_copy_byte. destruct (rs_has_byte c); [|exact I]. cbn [okp]. kp_go. Qed.
Lemma rs_next_byte_kp c : kp P c -> okp P (rs_next_byte c).
Proof. intros H. unfold rs_next_byte. destruct (rs_has_byte c); [|exact I]. cbn [okp]. kp_go. Qed.
Hint Resolve rs_copy_byte_kp rs_next_byte_kp : kp.
(* `match rs_copy_byte c with Some c => c | None => rs_fault c end` *)
Lemma rs_copy_byte_or_fault_kp c : kp P c -> kp P (match rs_copy_byte c with Some c1 => c1 | None => rs_fault c end).
Proof. intros H. pose proof (rs_copy_byte_kp c H) as H1. destruct (rs_copy_byte c); [exact H1|exact H]. Qed.
Hint Resolve rs_copy_byte_or_fault_kp : kp.
Lemma rs_body_slice_kp c n : kp P c -> kp P (snd (rs_body_slice c n)).
Proof. intros H. unfold rs_body_slice. kp_go. Qed.
Hint Resolve rs_body_slice_kp : kp.
Lemma rs_advance_kp n c : kp P c -> kp P (rs_advance n c).
Proof. intros H. exact H. Qed.
Hint Resolve rs_advance_kp : kp.
Lemma rs_process_body_kp d n c : kp P c -> kp P (snd (rs_process_body cb d n c)).
Proof. intros H. unfold rs_process_body. kp_go. Qed.
Hint Resolve rs_process_body_kp : kp.
Lemma rs_chunked_data_end_loop_kp fuel : forall c, kp P c -> kp P (snd (rs_chunked_data_end_loop fuel c)).
Proof. induction fuel as [|f IH]; intros c H; cbn [rs_chunked_data_end_loop]; kp_go. Qed.
Lemma rs_RES_BODY_CHUNKED_DATA_END_kp c : kp P c -> kp P (snd (rs_RES_BODY_CHUNKED_DATA_END c)).
Proof. apply rs_chunked_data_end_loop_kp. Qed.
Lemma rs_RES_BODY_CHUNKED_DATA_kp c : kp P c -> kp P (snd (rs_RES_BODY_CHUNKED_DATA cb c)).
Proof. intros H. unfold rs_RES_BODY_CHUNKED_DATA. kp_go. Qed.
Lemma rs_RES_BODY_IDENTITY_CL_KNOWN_kp c : kp P c -> kp P (snd (rs_RES_BODY_IDENTITY_CL_KNOWN cb c)).
Proof. intros H. unfold rs_RES_BODY_IDENTITY_CL_KNOWN. kp_go. Qed.
Lemma rs_RES_BODY_IDENTITY_STREAM_CLOSE_kp c : kp P c -> kp P (snd (rs_RES_BODY_IDENTITY_STREAM_CLOSE cb c)).
Proof. intros H. unfold rs_RES_BODY_IDENTITY_STREAM_CLOSE. kp_go. Qed.
Lemma rs_unblock_request_kp s c : kp P c -> kp P (rs_unblock_request s c).
Proof. intros H. unfold rs_unblock_request. kp_go. Qed.
Hint Resolve rs_unblock_request_kp : kp.
Lemma rs_response_headers_kp c : kp P c -> kp P (snd (rs_response_headers cb c)).
Proof. intros H. unfold rs_response_headers. kp_go. Qed.
Hint Resolve rs_response_headers_kp : kp.
Lemma rs_process_header_kp l c : kp P c -> kp P (rs_process_header l c).
Proof. apply rs_otx_kp. Qed.
Lemma rs_flag_invalid_folding_kp c : kp P c -> kp P (rs_flag_invalid_folding c).
Proof. apply rs_otx_kp. Qed.
Hint Resolve rs_process_header_kp rs_flag_invalid_folding_kp : kp.
Lemma rs_trailer_end_kp c : kp P c -> kp P (snd (rs_trailer_end cb c)).
Proof. intros H. unfold rs_trailer_end. kp_go. Qed.
Lemma rs_response_complete_kp c : kp P c -> kp P (snd (rs_response_complete cb g c)).
Proof. intros H. unfold rs_response_complete. kp_go. Qed.
Lemma rs_finalize_scan_kp fuel : forall c, kp P c -> kp P (snd (rs_finalize_scan fuel c)).
Proof. induction fuel as [|f IH]; intros c H; cbn [rs_finalize_scan]; kp_go. Qed.
Lemma rs_handle_state_change_kp c : kp P c -> kp P (snd (rs_handle_state_change cb c)).
Proof. intros H. unfold rs_handle_state_change. kp_go. Qed.
End ResFrame.
#[export] Hint Resolve rs_otx_kp rs_load_next_kp rs_peek_next_kp rs_copy_byte_kp rs_next_byte_kp rs_copy_byte_or_fault_kp
  rs_body_slice_kp rs_advance_kp rs_process_body_kp rs_RES_BODY_CHUNKED_DATA_END_kp rs_RES_BODY_CHUNKED_DATA_kp
  rs_RES_BODY_IDENTITY_CL_KNOWN_kp rs_RES_BODY_IDENTITY_STREAM_CLOSE_kp rs_unblock_request_kp rs_response_headers_kp
  rs_process_header_kp rs_flag_invalid_folding_kp rs_trailer_end_kp rs_response_complete_kp rs_finalize_scan_kp
  rs_handle_state_change_kp : kp.

Section ResFrame2.
Variable cb : cb_oracle.
Variable g : cfg.
Variable P : lkey_t -> Prop.
Lemma rs_RES_BODY_DETERMINE_kp c : kp P c -> kp P (snd (rs_RES_BODY_DETERMINE cb c)).
Proof. intros H. cbv beta delta [rs_RES_BODY_DETERMINE]. kp_go2. Qed.
End ResFrame2.
#[export] Hint Resolve rs_RES_BODY_DETERMINE_kp : kp.

(* ---- the functions that change out_buf / out_header / the transaction list ---- *)
Definition key_it (k : lkey_t) : lside * nat := (fst (fst k), snd k).
Lemma lim_clear_out g c c' : lim_inv g c -> key_it (lkey c') = key_it (lkey c) -> k_buf (c_out c') = None -> lim_inv g c'.
Proof.
  unfold kp, lkey, key_it. cbn. intros H E N. inversion E as [[E1 E2 E3]]. rewrite N, E1, E2, E3.
  eapply lim_key_out; [|exact H]. apply side_ok_none.
Qed.

Section ResLim.
Variable cb : cb_oracle.
Variable g : cfg.

(* htp_connp_res_buffer *)
Lemma rs_res_buffer_lim c : lim_inv g c -> lim_inv g (snd (rs_res_buffer g c)).
Proof.
  intros H. unfold rs_res_buffer. cbv zeta.
  destruct (k_data (c_out c)) as [d|]; [|exact H].
  set (c1 := if k_read (c_out c) <? k_consume (c_out c) then rs_fault c else c).
  assert (K1 : c_in c1 = c_in c /\ c_out c1 = c_out c /\ c_txs c1 = c_txs c)
    by (subst c1; destruct (k_read (c_out c) <? k_consume (c_out c)); repeat split; reflexivity).
  destruct K1 as (I1 & O1 & T1).
  set (c2 := match c_out_tx c1 with None => rs_fault c1 | Some _ => c1 end).
  assert (K2 : c_in c2 = c_in c /\ c_out c2 = c_out c /\ c_txs c2 = c_txs c)
    by (subst c2; destruct (c_out_tx c1); cbn; repeat split; assumption).
  destruct K2 as (I2 & O2 & T2).
  match goal with |- context [if ?b then (ST_ERROR, c2) else _] => destruct b eqn:El end; cbn [snd].
  { unfold kp, lkey. rewrite I2, O2, T2. exact H. }
  apply Nat.ltb_ge in El.
  unfold kp, lkey, rs_set_out. cbn. rewrite I2, O2, T2.
  eapply lim_key_out; [|exact H].
  unfold side_ok. cbn.
  destruct (k_buf (c_out c)); destruct (k_header (c_out c)); cbn in *; rewrite ?app_length; lia.
Qed.
Hint Resolve rs_res_buffer_lim : kp.

Lemma rs_consolidate_lim c : lim_inv g c -> lim_inv g (snd (rs_consolidate g c)).
Proof. intros H. cbv beta delta [rs_consolidate]. kp_go2. Qed.
Hint Resolve rs_consolidate_lim : kp.

Lemma rs_clear_buffer_lim c : lim_inv g c -> lim_inv g (rs_clear_buffer c).
Proof. intros H. apply (lim_clear_out g c); [exact H|reflexivity|reflexivity]. Qed.
Hint Resolve rs_clear_buffer_lim : kp.

Lemma rs_flush_header_lim c : lim_inv g c -> lim_inv g (rs_flush_header c).
Proof.
  intros H. unfold rs_flush_header. destruct (k_header (c_out c)) as [h|] eqn:E; [|exact H].
  assert (K : lkey (rs_process_header h c) = lkey c).
  { apply (rs_process_header_kp (fun k => k = lkey c)). reflexivity. }
  unfold kp, lkey, rs_set_out in *. cbn. injection K as K1 K2 K3 K4 K5. rewrite K1, K2, K3, K5.
  eapply lim_key_out; [|exact H]. eapply side_ok_drop_header. destruct H as (_ & H & _). exact H.
Qed.
Hint Resolve rs_flush_header_lim : kp.

Lemma rs_flush_header_it c0 c :
  kp (fun k => key_it k = key_it (lkey c0)) c -> kp (fun k => key_it k = key_it (lkey c0)) (rs_flush_header c).
Proof. intros H. unfold rs_flush_header. kp_go. Qed.
Lemma rs_set_header_it c0 h c :
  kp (fun k => key_it k = key_it (lkey c0)) c -> kp (fun k => key_it k = key_it (lkey c0)) (rs_set_header h c).
Proof. intros H. exact H. Qed.
Hint Resolve rs_flush_header_it rs_set_header_it : kp.

(* one consolidated header line: the pending header may grow here (folding), but the buffer is released right after *)
Lemma rs_headers_line_lim d c : lim_inv g c ->
  lim_inv g (snd (rs_headers_line cb g d c)) /\
  match fst (rs_headers_line cb g d c) with Some r => lim_inv g (snd r) | None => True end.
Proof.
  intros H. cbv beta delta [rs_headers_line].
  match goal with |- context [let next_no_lf := ?X in _] => generalize X; intros nn; cbv zeta end.
  set (c0 := if rs_has_byte c then match rs_cur_byte c (k_read (c_out c)) with Some _ => c | None => rs_fault c end else c).
  assert (H0 : lim_inv g c0) by (subst c0; kp_go).
  clearbody c0.
  destruct (rs_is_line_terminator (g_personality g) d nn).
  - destruct (_ =? _)%Z; cbn [fst snd]; split; kp_solve.
  - cbn [fst snd]. split; [|exact I].
    apply (lim_clear_out g c0); [exact H0| |reflexivity].
    match goal with |- key_it (lkey (rs_clear_buffer ?X)) = _ =>
      change (kp (fun k => key_it k = key_it (lkey c0)) (rs_clear_buffer X)) end.
    assert (Hb : kp (fun k => key_it k = key_it (lkey c0)) c0) by reflexivity.
    unfold rs_clear_buffer. kp_go2.
Qed.

(* the continuation shape in which rs_headers_line is used by the loop *)
Lemma rs_headers_line_cont_lim d c (K : connp -> st * connp) :
  (forall c', lim_inv g c' -> lim_inv g (snd (K c'))) -> lim_inv g c ->
  lim_inv g (snd (match rs_headers_line cb g d c with (Some r, _) => r | (None, c') => K c' end)).
Proof.
  intros HK H. pose proof (rs_headers_line_lim d c H) as [H1 H2].
  destruct (rs_headers_line cb g d c) as [[r|] c2]; cbn [fst snd] in *; [exact H2|apply HK; exact H1].
Qed.

(* htp_connp_RES_HEADERS *)
Lemma rs_headers_loop_lim fuel : forall lf c, lim_inv g c -> lim_inv g (snd (rs_headers_loop cb g fuel lf c)).
Proof.
  induction fuel as [|f IH]; intros lf c H; cbn [rs_headers_loop]; [kp_go|].
  destruct (rs_closed c); [kp_solve|].
  pose proof (rs_copy_byte_kp (lim_key g) c H) as H1. destruct (rs_copy_byte c) as [c1|]; cbn [okp] in H1; [|exact H].
  destruct (negb (rs_nb_is c1 LF) && negb (rs_nb_is c1 CR))%bool; [apply IH; exact H1|].
  match goal with |- context [let '(_, _) := ?X in _] =>
    assert (H2 : lim_inv g (snd X)) by kp_go2; destruct X as [scan c2] end.
  cbn [snd] in H2.
  destruct scan as [|[|scan]]; [exact H2|apply IH; exact H2|].
  pose proof (rs_consolidate_lim c2 H2) as H3. destruct (rs_consolidate g c2) as [[data|] c3]; cbn [snd] in H3; [|exact H3].
  match goal with |- context [if ?b then _ else _] => destruct b end; [apply IH; exact H3|].
  apply rs_headers_line_cont_lim; [intros c' Hc'; apply IH; exact Hc'|exact H3].
Qed.
Lemma rs_RES_HEADERS_lim c : lim_inv g c -> lim_inv g (snd (rs_RES_HEADERS cb g c)).
Proof. apply rs_headers_loop_lim. Qed.

(* htp_connp_RES_BODY_CHUNKED_LENGTH: on an invalid length the line is un-read and the buffer is deliberately kept *)
Lemma rs_chunked_length_loop_lim fuel : forall c, lim_inv g c -> lim_inv g (snd (rs_chunked_length_loop g fuel c)).
Proof.
  induction fuel as [|f IH]; intros c H; cbn [rs_chunked_length_loop]; [kp_go|].
  pose proof (rs_copy_byte_kp (lim_key g) c H) as H1. destruct (rs_copy_byte c) as [c1|]; cbn [okp] in H1; [|exact H].
  match goal with |- context [if ?b then _ else rs_chunked_length_loop g f c1] => destruct b end; [|apply IH; exact H1].
  pose proof (rs_consolidate_lim c1 H1) as H3. destruct (rs_consolidate g c1) as [[data|] c3]; cbn [snd] in H3; [|exact H3].
  cbv zeta.
  match goal with |- context [if ?b then rs_chunked_length_loop g f ?X else _] => destruct b; [apply IH; kp_go2|] end.
  kp_go2.
Qed.
Lemma rs_RES_BODY_CHUNKED_LENGTH_lim c : lim_inv g c -> lim_inv g (snd (rs_RES_BODY_CHUNKED_LENGTH g c)).
Proof. apply rs_chunked_length_loop_lim. Qed.

(* htp_connp_RES_LINE *)
Lemma rs_line_complete_lim c : lim_inv g c -> lim_inv g (snd (rs_line_complete cb g c)).
Proof. intros H. cbv beta delta [rs_line_complete]. kp_go2. Qed.
Hint Resolve rs_line_complete_lim : kp.
Lemma rs_line_loop_lim fuel : forall c, lim_inv g c -> lim_inv g (snd (rs_line_loop cb g fuel c)).
Proof.
  induction fuel as [|f IH]; intros c H; cbn [rs_line_loop]; [kp_go|].
  match goal with |- context [match ?X with Some _ => _ | None => (ST_DATA_BUFFER, c) end] =>
    assert (H1 : okp (lim_key g) X) by (destruct (negb (rs_closed c)); [kp_solve|exact H]); destruct X as [c1|] end;
    cbn [okp] in H1; [|exact H].
  match goal with |- context [let '(_, _) := ?X in _] =>
    assert (H2 : lim_inv g (snd X)) by kp_go2; destruct X as [act c2] end.
  cbn [snd] in H2.
  destruct act as [|[|act]]; [exact H2|apply IH; exact H2|].
  destruct (rs_nb_is c2 LF || rs_closed c2)%bool; [kp_solve|apply IH; exact H2].
Qed.
Lemma rs_RES_LINE_lim c : lim_inv g c -> lim_inv g (snd (rs_RES_LINE cb g c)).
Proof. apply rs_line_loop_lim. Qed.

(* htp_connp_RES_FINALIZE: un-reading a probed line truncates out_buf to what it held before *)
Lemma rs_fix_consume_key c :
  lkey (rs_set_out (fun k => if k_read k <? k_consume k then k <| k_consume := k_read k |> else k) c) = lkey c.
Proof. unfold lkey, rs_set_out. cbn -[Nat.ltb]. destruct (k_read (c_out c) <? k_consume (c_out c)); reflexivity. Qed.
Lemma rs_truncate_buf_lim n c : lim_inv g c ->
  lim_inv g (rs_set_out (fun k => match k_buf k with Some b => k <| k_buf := Some (firstn n b) |> | None => k end) c).
Proof.
  intros H. unfold kp, lkey, rs_set_out in *. cbn.
  destruct (k_buf (c_out c)) as [b|] eqn:E; cbn; rewrite ?E; [|exact H].
  eapply lim_key_out; [|exact H]. destruct H as (_ & H & _). unfold side_ok in *. cbn in *.
  rewrite firstn_length. lia.
Qed.
Lemma rs_finalize_tail_lim c : lim_inv g c -> lim_inv g (snd (rs_finalize_tail cb g c)).
Proof.
  intros H. unfold rs_finalize_tail. cbv zeta.
  pose proof (rs_consolidate_lim c H) as H3. destruct (rs_consolidate g c) as [[data|] c3]; cbn [snd] in H3; [|exact H3].
  destruct (length (rs_dbytes data) =? 0); [kp_solve|].
  destruct (rs_treat_response_line_as_body data); [kp_go|].
  apply rs_response_complete_kp. apply rs_truncate_buf_lim.
  eapply kp_eq; [apply rs_fix_consume_key|]. kp_solve.
Qed.
Hint Resolve rs_finalize_tail_lim : kp.
Lemma rs_RES_FINALIZE_lim c : lim_inv g c -> lim_inv g (snd (rs_RES_FINALIZE cb g c)).
Proof. intros H. cbv beta delta [rs_RES_FINALIZE]. kp_go2. Qed.

(* htp_connp_RES_IDLE: may create a transaction (a response without a request) *)
Lemma rs_RES_IDLE_lim c : lim_inv g c -> lim_inv g (snd (rs_RES_IDLE cb g c)).
Proof. intros H. cbv beta delta [rs_RES_IDLE]. kp_go2. Qed.

Lemma rs_state_fn_lim s c : lim_inv g c -> lim_inv g (snd (rs_state_fn cb g s c)).
Proof.
  intros H. destruct s; cbn [rs_state_fn];
    auto using rs_RES_IDLE_lim, rs_RES_LINE_lim, rs_RES_HEADERS_lim, rs_RES_BODY_CHUNKED_LENGTH_lim, rs_RES_FINALIZE_lim with kp.
Qed.
Hint Resolve rs_state_fn_lim : kp.

(* ---- htp_connp_res_data ---- *)
Lemma rs_res_exit_lim rc c : lim_inv g c -> lim_inv g (fst (rs_res_exit cb g rc c)).
Proof. intros H. unfold rs_res_exit. kp_go. Qed.
Hint Resolve rs_res_exit_lim : kp.

Lemma rs_res_loop_lim fuel gap : forall c, lim_inv g c -> lim_inv g (fst (rs_res_loop cb g fuel gap c)).
Proof.
  induction fuel as [|f IH]; intros c H; cbn [rs_res_loop]; [kp_go|].
  match goal with |- context [if ?b then (c, c_HTP_STREAM_CLOSED) else _] => destruct b end; [exact H|].
  match goal with |- context [let '(_, _) := ?X in _] =>
    assert (H1 : lim_inv g (snd X)) by (destruct (_ && _)%bool; kp_solve); destruct X as [rc c1] end.
  cbn [snd] in H1.
  destruct rc; try (apply rs_res_exit_lim; exact H1).
  destruct (c_out_status c1 =? c_HTP_STREAM_TUNNEL)%Z; [exact H1|].
  pose proof (rs_handle_state_change_kp cb (lim_key g) c1 H1) as H2.
  destruct (rs_handle_state_change cb c1) as [rc2 c2]. cbn [snd] in H2.
  destruct rc2; try (apply rs_res_exit_lim; exact H2). apply IH. exact H2.
Qed.

Theorem connp_res_data_lim data len c : lim_inv g c -> lim_inv g (fst (connp_res_data cb g data len c)).
Proof.
  intros H. unfold connp_res_data.
  destruct (c_out_status c =? c_HTP_STREAM_STOP)%Z; [exact H|].
  destruct (c_out_status c =? c_HTP_STREAM_ERROR)%Z; [exact H|].
  destruct (match c_out_tx c with None => negb (res_state_eqb (c_out_state c) RES_IDLE) | Some _ => false end); [kp_go|].
  destruct ((len =? 0) && negb (rs_closed c))%bool; [exact H|].
  cbv zeta.
  match goal with |- context [if ?b then (?x, c_HTP_STREAM_TUNNEL) else _] =>
    assert (H1 : lim_inv g x) by kp_go; destruct b; [exact H1|] end.
  apply rs_res_loop_lim. exact H1.
Qed.
End ResLim.
#[export] Hint Resolve rs_res_buffer_lim rs_consolidate_lim rs_clear_buffer_lim rs_flush_header_lim rs_line_complete_lim
  rs_finalize_tail_lim rs_state_fn_lim rs_res_exit_lim connp_res_data_lim : kp.

Print Assumptions connp_res_data_lim.
