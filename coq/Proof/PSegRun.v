(* C03, request direction: every chunking of a grammar request (header fields one line each, no body). *)
Require Import Htp.Model.Base Htp.Model.MBstr Htp.Model.MConnTypes Htp.Model.MTxCommon Htp.Model.MReqLine Htp.Model.MReqUri Htp.Model.MTxReq.
Require Import Htp.Model.MReq Htp.Model.MRes Htp.Model.MConnp.
Require Import Htp.Spec.SWire Htp.Proof.PWire Htp.Proof.PWireHdr Htp.Proof.PWireBlock Htp.Proof.PWireConn Htp.Proof.PWireExch.
Require Import Htp.Proof.PWireRun Htp.Proof.PWirePres Htp.Proof.PWireGlue Htp.Proof.PSeg Htp.Proof.PSegLine Htp.Proof.PSegHdr Htp.Proof.PSegGen.

(* the limit premise as one bool: the request line fits, and every header line (and the empty line) fits together with the
   header line before it *)
Definition sg_fits (g : cfg) (r : wr_request) : bool :=
  (length (wr_ser_request_line (wq_method r) (wq_uri r) (wq_protocol r)) + 2 <=? g_field_limit_hard g)%nat &&
  sg_fit (g_field_limit_hard g) 0 (wq_fields r).

Section RunTx.
Variable g : cfg.
Hypothesis Hspace : g_allow_space_uri g = false.
Variable k : nat.                                    (* the number of the transaction on its connection *)
Variables m u pr : bytes.
Variable fs : list wr_field.
Hypothesis Wl : wr_wf_request_line m u pr = true.
Hypothesis Wb : wr_block_ok fs = true.
Hypothesis Wnf : existsb (fun f => wr_same (wf_name f) wr_str_content_length || wr_same (wf_name f) wr_str_transfer_encoding) fs = false.

Let sg_th0 := sg_th0 g k m u pr.
(* the transaction when the request has been seen up to its empty line, and at the end of the request *)
Definition sg_tpre (fl : bool) : tx :=
  sg_hdr_end (if fl then tx_set_flag c_HTP_MULTI_PACKET_HEAD (wr_block_tx fs sg_th0) else wr_block_tx fs sg_th0).
Definition sg_tfin (fl : bool) : tx :=
  (sg_hdr_end (if fl then tx_set_flag c_HTP_MULTI_PACKET_HEAD (wr_block_tx fs sg_th0) else wr_block_tx fs sg_th0))
    <| t_request_progress := c_HTP_REQUEST_COMPLETE |>.

Lemma sg_okf : forallb wr_field_ok fs = true.
Proof. unfold wr_block_ok in Wb. apply andb_prop in Wb. apply Wb. Qed.

Lemma sg_th0_facts :
  wr_line_fields sg_th0 m u pr /\ t_request_headers sg_th0 = [] /\ t_req_header_repetitions sg_th0 = 0%nat /\
  t_request_progress sg_th0 = c_HTP_REQUEST_HEADERS /\ t_response_progress sg_th0 = c_HTP_RESPONSE_NOT_STARTED /\
  (exists nu, t_parsed_uri sg_th0 = Some nu).
Proof.
  destruct (sg_tx_line_facts g Hspace (sg_t1 k) m u pr Wl eq_refl) as (_ & F & H1 & H2 & _ & H4 & H5). cbv zeta in *.
  unfold sg_th0, PSegGen.sg_th0. revert F H1 H2 H4 H5. generalize (sg_tx_line g (sg_t1 k) (wr_ser_request_line m u pr)). intros X F H1 H2 H4 H5.
  split; [exact F|]. split; [exact H1|]. split; [exact H2|]. split; [reflexivity|]. split; [exact H4|exact H5].
Qed.

(* what is known about the transaction at the end of the header block *)
Lemma sg_tb_facts : let tb := wr_block_tx fs sg_th0 in
  t_request_method_number tb = htp_convert_method_to_number m /\ t_is_protocol_0_9 tb = false /\
  t_request_progress tb = c_HTP_REQUEST_HEADERS /\ t_response_progress tb = c_HTP_RESPONSE_NOT_STARTED /\
  (exists nu, t_parsed_uri tb = Some nu) /\
  rq_hdr_get_c (t_request_headers tb) rq_str_transfer_encoding = None /\ rq_hdr_get_c (t_request_headers tb) rq_str_content_length_lc = None.
Proof.
  intros tb. destruct sg_th0_facts as (F & H1 & H2 & H3 & H4 & (nu & H5)).
  pose proof (wr_keep_h_block fs sg_th0) as K. fold tb in K. unfold wr_keep_h in K. destruct K as (K1 & K2 & K3 & K4 & K5 & K6 & K7 & K8 & K9 & K10).
  unfold wr_line_fields in F. destruct F as (F1 & F2 & F3 & F4 & F5 & F6).
  assert (HtF : t_request_headers tb = wr_table (map wr_field_nv fs)) by (apply wr_block_tx_table; [exact Wb|exact H1|exact H2]).
  destruct (wr_no_framing_fields fs sg_okf Wnf) as [N1 N2]. rewrite <- HtF in N1, N2.
  split; [rewrite K2; exact F2|]. split; [rewrite K6; exact F6|]. split; [rewrite K7; exact H3|]. split; [rewrite K8; exact H4|].
  split; [exists nu; rewrite K10; exact H5|]. split; assumption.
Qed.

(* ... and when REQ_FINALIZE is reached *)
Lemma sg_tpre_facts fl : wr_eqb m wr_str_connect = false ->
  (t_request_method_number (sg_tpre fl) =? c_HTP_M_CONNECT)%Z = false /\ t_request_transfer_coding (sg_tpre fl) = c_HTP_CODING_NO_BODY /\
  t_request_progress (sg_tpre fl) = c_HTP_REQUEST_HEADERS /\ (t_response_progress (sg_tpre fl) =? c_HTP_RESPONSE_COMPLETE)%Z = false /\
  t_is_protocol_0_9 (sg_tpre fl) = false.
Proof.
  intros Wc. destruct sg_tb_facts as (M & Z9 & Pg & Rp & _ & N1 & N2). cbv zeta in *. unfold sg_tpre.
  set (tb := wr_block_tx fs sg_th0) in *.
  set (t5 := if fl then tx_set_flag c_HTP_MULTI_PACKET_HEAD tb else tb) in *.
  assert (K5 : wr_keep t5 tb) by (unfold t5; destruct fl; [unfold tx_set_flag; wr_keep_now|apply wr_keep_refl]).
  assert (Hh5 : t_request_headers t5 = t_request_headers tb) by (unfold t5; destruct fl; reflexivity).
  destruct (sg_hdr_end_facts t5) as [K6 TC]. rewrite Hh5 in TC. specialize (TC N1 N2).
  set (t6 := sg_hdr_end t5) in *.
  assert (K : wr_keep t6 tb) by (eapply wr_keep_trans; [exact K6|exact K5]).
  unfold wr_keep in K. destruct K as (K1 & K2 & K3 & K4 & K5' & K6' & K7 & K8 & K9 & K10 & K11).
  split; [rewrite K2, M; apply wr_not_connect; exact Wc|]. split; [exact TC|]. split; [rewrite K9; exact Pg|].
  split; [rewrite K10, Rp; reflexivity|rewrite K6'; exact Z9].
Qed.
End RunTx.

Section Run.
Variable cb : cb_oracle.
Variable g : cfg.
Hypothesis Hcb : wr_all_ok cb.
Hypothesis Hspace : g_allow_space_uri g = false.
Variables m u pr : bytes.
Variable fs : list wr_field.
Hypothesis Wl : wr_wf_request_line m u pr = true.
Hypothesis Wb : wr_block_ok fs = true.
Hypothesis Wnf : existsb (fun f => wr_same (wf_name f) wr_str_content_length || wr_same (wf_name f) wr_str_transfer_encoding) fs = false.
Hypothesis Wc : wr_eqb m wr_str_connect = false.
Context {w : sg_world}.
Notation sg_cin := (sg_cinw w).
Let k := length (w_done w).

(* ---- after the empty line: htp_tx_state_request_headers, REQ_CONNECT_CHECK, REQ_BODY_DETERMINE lead to REQ_FINALIZE ---- *)
Lemma sg_tail_fin c c1 d rd1 : c_in_state c = REQ_HEADERS ->
  rq_state_fn cb g REQ_HEADERS c = rq_with_tx (tx_state_request_headers cb) c1 ->
  sg_cin c1 d rd1 [] None REQ_HEADERS (Some REQ_HEADERS) (Some H_REQUEST_HEADER_DATA) (wr_block_tx fs (sg_th0 g k m u pr)) ->
  exists c5 fl, (forall f, rq_loop cb g (3 + f) false c = rq_loop cb g f false c5) /\
    sg_cin c5 d rd1 [] None REQ_FINALIZE (Some REQ_FINALIZE) None (sg_tpre g k m u pr fs fl).
Proof.
  intros Es Ef H1. destruct (sg_tb_facts g Hspace k m u pr fs Wl Wb Wnf) as (_ & _ & Pg & _ & (nu & Pu) & _ & _). cbv zeta in *.
  set (tb := wr_block_tx fs (sg_th0 g k m u pr)) in *.
  unfold rq_with_tx in Ef. rewrite (ci_tx _ _ _ _ _ _ _ _ _ H1) in Ef.
  destruct (sg_state_request_headers cb Hcb c1 d _ _ tb nu H1 Pg Pu) as (c2 & fl & E2 & H2). rewrite E2 in Ef.
  fold (sg_tpre g k m u pr fs fl) in H2.
  destruct (sg_tpre_facts g Hspace k m u pr fs Wl Wb Wnf fl Wc) as (M6 & TC & _).
  rewrite <- Es in Ef.
  destruct (sg_iter_ok cb g c c2 d _ _ _ _ _ _ _ Ef H2) as (c3 & E3 & H3); [discriminate|].
  destruct (sg_pass_connect_check cb g c3 d _ _ _ _ _ H3 M6) as (c4 & E4 & H4).
  destruct (sg_pass_body_determine cb g c4 d _ _ _ _ _ H4 TC) as (c5 & E5 & H5).
  exists c5, fl. split; [|exact H5]. intros f. change (3 + f)%nat with (S (S (S f))).
  rewrite (sg_rq_loop_inr cb g _ _ _ E3), (sg_rq_loop_inr cb g _ _ _ E4), (sg_rq_loop_inr cb g _ _ _ E5). reflexivity.
Qed.

(* ... and, when the chunk ends there, REQ_FINALIZE completes the request and REQ_IDLE returns HTP_STREAM_DATA *)
Lemma sg_tail c c1 d f : c_in_state c = REQ_HEADERS ->
  rq_state_fn cb g REQ_HEADERS c = rq_with_tx (tx_state_request_headers cb) c1 ->
  sg_cin c1 d (length d) [] None REQ_HEADERS (Some REQ_HEADERS) (Some H_REQUEST_HEADER_DATA) (wr_block_tx fs (sg_th0 g k m u pr)) ->
  exists cF rc fl, rq_loop cb g (5 + f) false c = (cF, rc) /\ c_txs cF = w_done w ++ [Some (sg_tfin g k m u pr fs fl)].
Proof.
  intros Es Ef H1. destruct (sg_tail_fin c c1 d _ Es Ef H1) as (c5 & fl & St & H5).
  destruct (sg_tpre_facts g Hspace k m u pr fs Wl Wb Wnf fl Wc) as (_ & TC & Pg6 & Rp6 & Z6).
  change (5 + f)%nat with (3 + (2 + f))%nat. rewrite St. change (2 + f)%nat with (S (S f)).
  destruct (sg_pass_finalize cb g Hcb c5 d _ _ H5 TC Pg6 Rp6 Z6) as (c6 & E6 & H6). rewrite (sg_rq_loop_inr cb g _ _ _ E6).
  rewrite (sg_rq_loop_inl cb g _ _ _ (sg_pass_idle_end cb g c6 d _ _ _ _ H6)).
  eexists _, _, fl. split; [reflexivity|]. change (c_txs (c6 <| c_in_status := c_HTP_STREAM_DATA |>)) with (c_txs c6). apply (il_txs _ _ _ _ _ _ _ H6).
Qed.
End Run.

Section Run0.
Variable cb : cb_oracle.
Variable g : cfg.
Hypothesis Hcb : wr_all_ok cb.
Hypothesis Hspace : g_allow_space_uri g = false.
Variables m u pr : bytes.
Variable fs : list wr_field.
Hypothesis Wl : wr_wf_request_line m u pr = true.
Hypothesis Wb : wr_block_ok fs = true.
Hypothesis Wnf : existsb (fun f => wr_same (wf_name f) wr_str_content_length || wr_same (wf_name f) wr_str_transfer_encoding) fs = false.
Hypothesis Wc : wr_eqb m wr_str_connect = false.
Notation sg_cin := (sg_cinw sg_w0).
Let line0 := wr_ser_request_line m u pr.
Let sg_th0 := sg_th0 g 0 m u pr.
Definition sg_fin (txs : list (option tx)) : Prop := exists fl, txs = [Some (sg_tfin g 0 m u pr fs fl)].

(* ---- a call that starts (or continues) in REQ_HEADERS ---- *)
Lemma sg_call_hdrs c d rd p hdr t rw' f :
  sg_cin c d rd p hdr REQ_HEADERS (Some REQ_HEADERS) (Some H_REQUEST_HEADER_DATA) t ->
  sg_hlog g sg_th0 fs hdr t p (skipn rd d ++ rw') ->
  exists cF rc, rq_loop cb g (6 + f) false c = (cF, rc) /\ sg_post m u pr (wr_block_wire fs ++ [CR; LF]) (sg_hlog g sg_th0 fs) sg_fin (fun _ _ => False) cF rw'.
Proof.
  intros H (fs_done & fs_rem & q & Efs & Hfl & Hpq & Hq & Hw & Hfit).
  assert (Ok : forallb wr_field_ok fs_rem = true).
  { pose proof (sg_okf fs Wb) as O. rewrite Efs, forallb_app in O. apply andb_prop in O. apply O. }
  assert (Es : c_in_state c = REQ_HEADERS) by apply (ci_state _ _ _ _ _ _ _ _ _ H).
  assert (Ef : rq_state_fn cb g REQ_HEADERS c = REQ_HEADERS_loop cb g (length d - rd) c).
  { cbn [rq_state_fn]. unfold REQ_HEADERS_fn. rewrite (ci_len _ _ _ _ _ _ _ _ _ H), (ci_read _ _ _ _ _ _ _ _ _ H). reflexivity. }
  destruct (sg_hdrs_loop cb g d sg_th0 rw' fs_rem fs_done c rd p q hdr t (length d - rd) H Ok Hfl Hpq Hq Hw Hfit (le_n _)) as [HA|HB].
  - destruct HA as (c' & p' & hdr' & t' & EA & HA1 & HA2 & HA3). rewrite <- Efs in HA2.
    assert (Lim : (length p' + length (sg_olist hdr') <= g_field_limit_hard g)%nat).
    { destruct HA2 as (fd & fr & q' & _ & _ & Epq & _ & _ & Fit). pose proof (sg_fit_next _ _ _ Fit) as L. rewrite <- Epq, app_length in L. lia. }
    destruct (sg_exit_buffer cb g Hcb c' d p' hdr' _ _ t' HA1 Lim) as (cF & EF & HF).
    exists cF, c_HTP_STREAM_DATA. split.
    + change (6 + f)%nat with (S (5 + f)). apply sg_rq_loop_inl. unfold rq_iter. rewrite Es, Ef, EA, EF. reflexivity.
    + left. split; [exact HA3|]. right. left. exists p', hdr', t'. split; [exact HF|exact HA2].
  - destruct HB as (c' & EB & HB1 & HB2). rewrite <- Efs in HB1. rewrite <- Ef in EB.
    destruct (sg_tail cb g Hcb Hspace m u pr fs Wl Wb Wnf Wc c c' d (1 + f) Es EB HB1) as (cF & rc & fl & E & T).
    exists cF, rc. split; [exact E|]. right. split; [exact HB2|]. exists fl. exact T.
Qed.

(* ---- every chunking of the request, from htp_connp_open on ---- *)
Lemma sg_run_all_chunks (chunks : list bytes) :
  (length (wr_ser_request_line m u pr) + 2 <= g_field_limit_hard g)%nat -> sg_fit (g_field_limit_hard g) 0 fs = true ->
  Forall (fun x => x <> []) chunks -> concat chunks = line0 ++ [CR; LF] ++ wr_block_wire fs ++ [CR; LF] ->
  exists fl, c_txs (fst (cp_run cb g connp_new (OpOpen :: map OpReqData chunks))) = [Some (sg_tfin g 0 m u pr fs fl)].
Proof.
  intros Hlim0 Hfit0 Hall Hc.
  apply (sg_all_chunks cb g Hcb Hspace m u pr Wl Hlim0 (wr_block_wire fs ++ [CR; LF]) (sg_hlog g sg_th0 fs) sg_fin (fun _ _ => False));
    [|intros c rw []|intros c rw x rw' []|exact sg_call_hdrs|exact Hall|exact Hc].
  exists [], fs, (sg_next fs). split; [reflexivity|]. split; [reflexivity|]. split; [reflexivity|]. split; [apply sg_next_ne|].
  split; [apply sg_wire_split|exact Hfit0].
Qed.
End Run0.

(* ================= the theorems on the wire grammar ================= *)
(* the transaction a grammar request has to produce (as the single-chunk run produces it) *)
Definition sg_tref (g : cfg) (r : wr_request) : tx := sg_tfin g 0 (wq_method r) (wq_uri r) (wq_protocol r) (wq_fields r) false.

Lemma sg_mask_tfin g k m u pr fs fl : sg_mask (sg_tfin g k m u pr fs fl) = sg_mask (sg_tfin g k m u pr fs false).
Proof. unfold sg_tfin, sg_tpre. destruct fl; [|reflexivity]. rewrite !sg_mask_progress, sg_mask_hdr_end_flag. reflexivity. Qed.

(* C03, request direction, on the wire grammar: whatever the TCP segmentation of a well-formed request without body,
   the reported transaction is the same up to HTP_MULTI_PACKET_HEAD *)
Theorem sg_request_chunking : forall cb g r (chunks : list bytes),
  wr_all_ok cb -> g_allow_space_uri g = false -> wr_request_ok r = true -> sg_fits g r = true ->
  Forall (fun x => x <> []) chunks -> concat chunks = wr_request_wire r ->
  exists t, c_txs (fst (cp_run cb g connp_new (OpOpen :: map OpReqData chunks))) = [Some t] /\ sg_mask t = sg_mask (sg_tref g r).
Proof.
  intros cb g [m u p fs] chunks Hcb Hsp Wr Hf Hall Hc.
  unfold wr_request_ok in Wr. cbn [wq_method wq_uri wq_protocol wq_fields] in Wr.
  apply andb_prop in Wr. destruct Wr as [Wr Wc]. apply andb_prop in Wr. destruct Wr as [Wr Wnf]. apply andb_prop in Wr. destruct Wr as [Wl Wb].
  apply negb_true_iff in Wnf. apply negb_true_iff in Wc.
  unfold sg_fits in Hf. cbn [wq_method wq_uri wq_protocol wq_fields] in Hf. apply andb_prop in Hf. destruct Hf as [Hl0 Hfit]. apply Nat.leb_le in Hl0.
  destruct (sg_run_all_chunks cb g Hcb Hsp m u p fs Wl Wb Wnf Wc chunks Hl0 Hfit Hall Hc) as (fl & T).
  exists (sg_tfin g 0 m u p fs fl). split; [exact T|]. unfold sg_tref. cbn [wq_method wq_uri wq_protocol wq_fields]. apply sg_mask_tfin.
Qed.

(* the same as an equation between two runs (the statement of Properties_C03: c03_obs) *)
Definition sg_obs (cb : cb_oracle) (g : cfg) (ops : list cp_op) : list (option tx) :=
  map (option_map sg_mask) (c_txs (fst (cp_run cb g connp_new ops))).
Theorem sg_request_chunking_obs : forall cb g r (chunks : list bytes),
  wr_all_ok cb -> g_allow_space_uri g = false -> wr_request_ok r = true -> sg_fits g r = true ->
  Forall (fun x => x <> []) chunks -> concat chunks = wr_request_wire r ->
  sg_obs cb g (OpOpen :: map OpReqData chunks) = sg_obs cb g [OpOpen; OpReqData (wr_request_wire r)].
Proof.
  intros cb g r chunks Hcb Hsp Wr Hf Hall Hc.
  destruct (sg_request_chunking cb g r chunks Hcb Hsp Wr Hf Hall Hc) as (t & T & M).
  assert (Hne : wr_request_wire r <> []).
  { destruct chunks as [|x rest]; [|intro E; rewrite E in Hc; apply app_eq_nil in Hc; destruct Hc as [Hc _]; inversion Hall; contradiction].
    (* no chunk at all: the wire would be empty, but it ends in CR LF *)
    cbn [concat] in Hc. intro E. unfold wr_request_wire, wr_ser_request in E. apply app_eq_nil in E. destruct E as [_ E]. apply app_eq_nil in E. destruct E as [E _]. discriminate. }
  destruct (sg_request_chunking cb g r [wr_request_wire r] Hcb Hsp Wr Hf) as (t1 & T1 & M1).
  { constructor; [exact Hne|constructor]. }
  { cbn [concat]. apply app_nil_r. }
  unfold sg_obs. cbn [map] in T1. rewrite T, T1. cbn [map option_map]. rewrite M, M1. reflexivity.
Qed.

(* reported = sent for every chunking (with PWireGlue.wr_exchange_fidelity_partial) *)
Lemma sg_single_inj {A} (a b : A) : [Some a] = [Some b] -> a = b.
Proof. intros H. inversion H. reflexivity. Qed.
Lemma sg_reported_mask t r : wr_reported t r -> wr_reported (sg_mask t) r.
Proof. intros H. exact H. Qed.
Theorem sg_request_chunking_reported : forall cb g r (chunks : list bytes),
  wr_all_ok cb -> g_allow_space_uri g = false -> wr_request_ok r = true -> sg_fits g r = true ->
  Forall (fun x => x <> []) chunks -> concat chunks = wr_request_wire r ->
  exists t, c_txs (fst (cp_run cb g connp_new (OpOpen :: map OpReqData chunks))) = [Some t] /\ wr_reported (sg_mask t) r.
Proof.
  intros cb g r chunks Hcb Hsp Wr Hf Hall Hc.
  pose proof (sg_request_chunking_obs cb g r chunks Hcb Hsp Wr Hf Hall Hc) as E.
  destruct (sg_request_chunking cb g r chunks Hcb Hsp Wr Hf Hall Hc) as (t & T & _).
  destruct (wr_exchange_fidelity_partial cb g r Hcb Hsp Wr) as (t1 & T1 & R1).
  exists t. split; [exact T|]. unfold sg_obs in E. rewrite T, T1 in E. cbn [map option_map] in E. apply sg_single_inj in E.
  rewrite E. apply sg_reported_mask. exact R1.
Qed.

(* ================= non-vacuity and the vm_compute harness ================= *)
Definition sg_ex_ok : cb_oracle := fun _ _ => CB_OK.
Definition sg_ex_cfg (lim : nat) : cfg := cp_make_cfg 1 lim 512 false false 0.
(* all chunkings with one cut / with two cuts / byte by byte *)
Definition sg_cuts1 (w : bytes) : list (list bytes) := map (fun k => [firstn k w; skipn k w]) (seq 1 (length w - 1)).
Definition sg_cuts2 (w : bytes) : list (list bytes) :=
  flat_map (fun k => map (fun j => [firstn k w; firstn j (skipn k w); skipn j (skipn k w)]) (seq 1 (length w - k - 1))) (seq 1 (length w - 2)).
Definition sg_bytewise (w : bytes) : list bytes := map (fun b => [b]) w.
Definition sg_run (g : cfg) (chunks : list bytes) : list (option tx) := sg_obs sg_ex_ok g (OpOpen :: map OpReqData chunks).

(* GET /1 HTTP/1.1 | Host: a | X-Foo: a b | x-foo:\tc  (PWireGlue.wr_ex_req): the premises hold ... *)
Example sg_ex_premises : wr_request_ok wr_ex_req = true /\ sg_fits (sg_ex_cfg 18000) wr_ex_req = true /\ wr_all_ok sg_ex_ok /\
  g_allow_space_uri (sg_ex_cfg 18000) = false.
Proof. split; [vm_compute; reflexivity|]. split; [vm_compute; reflexivity|]. split; [intros h n; reflexivity|reflexivity]. Qed.
(* ... and the statement was checked by evaluation on every single cut, every double cut and the byte-by-byte delivery
   before it was proved *)
Example sg_ex_single_cuts :
  map (sg_run (sg_ex_cfg 18000)) (sg_cuts1 (wr_request_wire wr_ex_req)) = repeat (sg_run (sg_ex_cfg 18000) [wr_request_wire wr_ex_req]) 50.
Proof. vm_compute. reflexivity. Qed.
Example sg_ex_double_cuts :
  map (sg_run (sg_ex_cfg 18000)) (sg_cuts2 (wr_request_wire wr_ex_req)) = repeat (sg_run (sg_ex_cfg 18000) [wr_request_wire wr_ex_req]) 1225.
Proof. vm_compute. reflexivity. Qed.
Example sg_ex_bytewise :
  sg_run (sg_ex_cfg 18000) (sg_bytewise (wr_request_wire wr_ex_req)) = sg_run (sg_ex_cfg 18000) [wr_request_wire wr_ex_req] /\
  map (option_map t_request_progress) (sg_run (sg_ex_cfg 18000) [wr_request_wire wr_ex_req]) = [Some c_HTP_REQUEST_COMPLETE].
Proof. split; vm_compute; reflexivity. Qed.
(* a request without header fields *)
Definition sg_ex_req0 : wr_request := mk_wr_request [71;69;84]%N [47;49]%N wr_http10 [].
Example sg_ex_nofields :
  wr_request_ok sg_ex_req0 = true /\ sg_fits (sg_ex_cfg 18000) sg_ex_req0 = true /\
  map (sg_run (sg_ex_cfg 18000)) (sg_cuts1 (wr_request_wire sg_ex_req0)) = repeat (sg_run (sg_ex_cfg 18000) [wr_request_wire sg_ex_req0]) 18.
Proof. split; [vm_compute; reflexivity|]. split; vm_compute; reflexivity. Qed.
(* the flag that is masked does depend on the segmentation *)
Example sg_ex_multi_packet_head :
  map (option_map (fun t => flag_has (t_flags t) c_HTP_MULTI_PACKET_HEAD))
      (c_txs (fst (cp_run sg_ex_ok (sg_ex_cfg 18000) connp_new [OpOpen; OpReqData (wr_request_wire wr_ex_req)]))) = [Some false] /\
  map (option_map (fun t => flag_has (t_flags t) c_HTP_MULTI_PACKET_HEAD))
      (c_txs (fst (cp_run sg_ex_ok (sg_ex_cfg 18000) connp_new
                     [OpOpen; OpReqData (firstn 20 (wr_request_wire wr_ex_req)); OpReqData (skipn 20 (wr_request_wire wr_ex_req))]))) = [Some true].
Proof. split; vm_compute; reflexivity. Qed.

(* the limit premise cannot be weakened to "every line fits field_limit_hard": with the limit 20 every line of the example
   (at most 17 bytes with its CR LF) fits, but a chunk that ends right after "X-Foo: a b \r\n" leaves that line (11 bytes)
   pending in in_header, and the next line "x-foo:\tc\r\n" (10 bytes), when it has to be buffered, is refused
   (htp_connp_req_buffer adds the length of in_header): the parse stops with HTP_STREAM_ERROR in that chunking only *)
Definition sg_all_lines_fit (g : cfg) (r : wr_request) : bool :=
  (length (wr_ser_request_line (wq_method r) (wq_uri r) (wq_protocol r)) + 2 <=? g_field_limit_hard g)%nat &&
  forallb (fun f => (length (wr_field_line f) + 2 <=? g_field_limit_hard g)%nat) (wq_fields r).
Example sg_limit_premise_needed :
  sg_all_lines_fit (sg_ex_cfg 20) wr_ex_req = true /\ sg_fits (sg_ex_cfg 20) wr_ex_req = false /\ sg_fits (sg_ex_cfg 21) wr_ex_req = true /\
  let w := wr_request_wire wr_ex_req in
  map (option_map t_request_progress) (sg_run (sg_ex_cfg 20) [w]) = [Some c_HTP_REQUEST_COMPLETE] /\
  map (option_map t_request_progress) (sg_run (sg_ex_cfg 20) [firstn 39 w; firstn 1 (skipn 39 w); skipn 40 w]) = [Some c_HTP_REQUEST_HEADERS].
Proof. split; [vm_compute; reflexivity|]. split; [vm_compute; reflexivity|]. split; vm_compute; [reflexivity|]. split; reflexivity. Qed.

(* ================= THEOREMS FOR RE-EXPORT (Properties_C03.v) =================
   sg_request_chunking           exists t, txs = [Some t] /\ sg_mask t = sg_mask (sg_tref g r)       (every chunking)
   sg_request_chunking_obs       sg_obs (chunked run) = sg_obs (single-chunk run)                    (sg_obs / sg_mask = c03_obs / c03_mask)
   sg_request_chunking_reported  exists t, txs = [Some t] /\ wr_reported (sg_mask t) r
   premises: wr_all_ok cb, g_allow_space_uri g = false, wr_request_ok r = true, sg_fits g r = true,
             Forall (fun x => x <> []) chunks, concat chunks = wr_request_wire r *)
Print Assumptions sg_request_chunking.
Print Assumptions sg_request_chunking_obs.
Print Assumptions sg_request_chunking_reported.
