(* C03, request direction: one call of htp_connp_req_data on a piece of a grammar request, and every chunking of the request. *)
Require Import Htp.Model.Base Htp.Model.MBstr Htp.Model.MConnTypes Htp.Model.MTxCommon Htp.Model.MReqLine Htp.Model.MReqUri Htp.Model.MTxReq.
Require Import Htp.Model.MReq Htp.Model.MRes Htp.Model.MConnp.
Require Import Htp.Spec.SWire Htp.Proof.PWire Htp.Proof.PWireHdr Htp.Proof.PWireBlock Htp.Proof.PWireConn Htp.Proof.PWireExch.
Require Import Htp.Proof.PWireRun Htp.Proof.PWirePres Htp.Proof.PWireGlue Htp.Proof.PSeg Htp.Proof.PSegLine Htp.Proof.PSegHdr.

(* the limit premise as one bool: the request line fits, and every header line (and the empty line) fits together with the
   header line before it *)
Definition sg_fits (g : cfg) (r : wr_request) : bool :=
  (length (wr_ser_request_line (wq_method r) (wq_uri r) (wq_protocol r)) + 2 <=? g_field_limit_hard g)%nat &&
  sg_fit (g_field_limit_hard g) 0 (wq_fields r).

Section Run.
Variable cb : cb_oracle.
Variable g : cfg.
Hypothesis Hcb : wr_all_ok cb.
Hypothesis Hspace : g_allow_space_uri g = false.
Variables m u pr : bytes.
Variable fs : list wr_field.
Hypothesis Wl : wr_wf_request_line m u pr = true.
Hypothesis Wb : wr_block_ok fs = true.
Hypothesis Wnf : existsb (fun f => wr_same (wf_name f) wr_str_content_length || wr_same (wf_name f) wr_str_transfer_encoding) fs = false.
Hypothesis Wc : wr_eqb m wr_str_connect = false.
Hypothesis Hlim0 : (length (wr_ser_request_line m u pr) + 2 <= g_field_limit_hard g)%nat.
Hypothesis Hfit0 : sg_fit (g_field_limit_hard g) 0 fs = true.

Let line0 := wr_ser_request_line m u pr.
(* the transaction when the header block starts, at its end, and when the request is complete *)
Definition sg_th0 : tx := (sg_tx_line g wr_t1 line0) <| t_request_progress := c_HTP_REQUEST_HEADERS |>.
Definition sg_tfin (fl : bool) : tx :=
  (sg_hdr_end (if fl then tx_set_flag c_HTP_MULTI_PACKET_HEAD (wr_block_tx fs sg_th0) else wr_block_tx fs sg_th0))
    <| t_request_progress := c_HTP_REQUEST_COMPLETE |>.

Lemma sg_okf : forallb wr_field_ok fs = true.
Proof. unfold wr_block_ok in Wb. apply andb_prop in Wb. apply Wb. Qed.

Lemma sg_th0_facts :
  wr_line_fields sg_th0 m u pr /\ t_request_headers sg_th0 = [] /\ t_req_header_repetitions sg_th0 = 0%nat /\
  t_request_progress sg_th0 = c_HTP_REQUEST_HEADERS /\ t_response_progress sg_th0 = c_HTP_RESPONSE_NOT_STARTED /\
  (exists nu, t_parsed_uri sg_th0 = Some nu).
Proof.
  destruct (sg_tx_line_facts g Hspace wr_t1 m u pr Wl eq_refl) as (_ & F & H1 & H2 & _ & H4 & H5). cbv zeta in *. fold line0 in F, H1, H2, H4, H5.
  unfold sg_th0. revert F H1 H2 H4 H5. generalize (sg_tx_line g wr_t1 line0). intros X F H1 H2 H4 H5.
  split; [exact F|]. split; [exact H1|]. split; [exact H2|]. split; [reflexivity|]. split; [exact H4|exact H5].
Qed.

(* what is known about the transaction at the end of the header block *)
Lemma sg_tb_facts : let tb := wr_block_tx fs sg_th0 in
  t_request_method_number tb = htp_convert_method_to_number m /\ t_is_protocol_0_9 tb = false /\
  t_request_progress tb = c_HTP_REQUEST_HEADERS /\ t_response_progress tb = c_HTP_RESPONSE_NOT_STARTED /\
  (exists nu, t_parsed_uri tb = Some nu) /\
  rq_hdr_get_c (t_request_headers tb) rq_str_transfer_encoding = None /\ rq_hdr_get_c (t_request_headers tb) rq_str_content_length_lc = None.
Proof.
  intros tb. destruct sg_th0_facts as (F & H1 & H2 & H3 & H4 & (nu & H5)).
  pose proof (wr_keep_h_block fs sg_th0) as K. fold tb in K. unfold wr_keep_h in K. destruct K as (K1 & K2 & K3 & K4 & K5 & K6 & K7 & K8 & K9 & K10).
  unfold wr_line_fields in F. destruct F as (F1 & F2 & F3 & F4 & F5 & F6).
  assert (HtF : t_request_headers tb = wr_table (map wr_field_nv fs)) by (apply wr_block_tx_table; [exact Wb|exact H1|exact H2]).
  destruct (wr_no_framing_fields fs sg_okf Wnf) as [N1 N2]. rewrite <- HtF in N1, N2.
  split; [rewrite K2; exact F2|]. split; [rewrite K6; exact F6|]. split; [rewrite K7; exact H3|]. split; [rewrite K8; exact H4|].
  split; [exists nu; rewrite K10; exact H5|]. split; assumption.
Qed.

(* ---- after the empty line: htp_tx_state_request_headers, REQ_CONNECT_CHECK, REQ_BODY_DETERMINE, REQ_FINALIZE, REQ_IDLE ---- *)
Lemma sg_tail c c1 d f : c_in_state c = REQ_HEADERS ->
  rq_state_fn cb g REQ_HEADERS c = rq_with_tx (tx_state_request_headers cb) c1 ->
  sg_cin c1 d (length d) [] None REQ_HEADERS (Some REQ_HEADERS) (Some H_REQUEST_HEADER_DATA) (wr_block_tx fs sg_th0) ->
  exists cF rc fl, rq_loop cb g (5 + f) false c = (cF, rc) /\ c_txs cF = [Some (sg_tfin fl)].
Proof.
  intros Es Ef H1. destruct sg_tb_facts as (M & Z9 & Pg & Rp & (nu & Pu) & N1 & N2). cbv zeta in *.
  set (tb := wr_block_tx fs sg_th0) in *.
  unfold rq_with_tx in Ef. rewrite (ci_tx _ _ _ _ _ _ _ _ _ H1) in Ef.
  destruct (sg_state_request_headers cb Hcb c1 d _ _ tb nu H1 Pg Pu) as (c2 & fl & E2 & H2). rewrite E2 in Ef.
  set (t5 := if fl then tx_set_flag c_HTP_MULTI_PACKET_HEAD tb else tb) in *.
  assert (K5 : wr_keep t5 tb) by (unfold t5; destruct fl; [unfold tx_set_flag; wr_keep_now|apply wr_keep_refl]).
  assert (Hh5 : t_request_headers t5 = t_request_headers tb) by (unfold t5; destruct fl; reflexivity).
  destruct (sg_hdr_end_facts t5) as [K6 TC]. rewrite Hh5 in TC. specialize (TC N1 N2).
  set (t6 := sg_hdr_end t5) in *.
  assert (K : wr_keep t6 tb) by (eapply wr_keep_trans; [exact K6|exact K5]).
  unfold wr_keep in K. destruct K as (K1 & K2 & K3 & K4 & K5' & K6' & K7 & K8 & K9 & K10 & K11).
  rewrite <- Es in Ef.
  destruct (sg_iter_ok cb g c c2 d _ _ _ _ _ _ _ Ef H2) as (c3 & E3 & H3); [discriminate|].
  change (5 + f)%nat with (S (S (S (S (S f))))). rewrite (sg_rq_loop_inr cb g _ _ _ E3).
  assert (M6 : (t_request_method_number t6 =? c_HTP_M_CONNECT)%Z = false) by (rewrite K2, M; apply wr_not_connect; exact Wc).
  destruct (sg_pass_connect_check cb g c3 d _ _ _ _ t6 H3 M6) as (c4 & E4 & H4). rewrite (sg_rq_loop_inr cb g _ _ _ E4).
  destruct (sg_pass_body_determine cb g c4 d _ _ _ _ t6 H4 TC) as (c5 & E5 & H5). rewrite (sg_rq_loop_inr cb g _ _ _ E5).
  assert (Pg6 : t_request_progress t6 = c_HTP_REQUEST_HEADERS) by (rewrite K9; exact Pg).
  assert (Rp6 : (t_response_progress t6 =? c_HTP_RESPONSE_COMPLETE)%Z = false) by (rewrite K10, Rp; reflexivity).
  assert (Z6 : t_is_protocol_0_9 t6 = false) by (rewrite K6'; exact Z9).
  destruct (sg_pass_finalize cb g Hcb c5 d _ _ t6 H5 TC Pg6 Rp6 Z6) as (c6 & E6 & Dn & St6 & Ln6 & Rd6 & Rh6). rewrite (sg_rq_loop_inr cb g _ _ _ E6).
  rewrite (sg_rq_loop_inl cb g _ _ _ (sg_pass_idle_end cb g c6 _ (length d) Dn St6 Ln6 Rd6 Rh6)).
  eexists _, _, fl. split; [reflexivity|]. change (c_txs (c6 <| c_in_status := c_HTP_STREAM_DATA |>)) with (c_txs c6). apply (dn_txs _ _ Dn).
Qed.

(* ---- the state between two calls, and what one call has to establish ---- *)
Definition sg_between (c : connp) (rw : bytes) : Prop :=
  (exists p q, sg_mid c p None REQ_LINE None wr_t1 /\ p ++ q = line0 ++ [CR; LF] /\ q <> [] /\ rw = q ++ wr_block_wire fs ++ [CR; LF]) \/
  (exists p hdr t, sg_mid c p hdr REQ_HEADERS (Some H_REQUEST_HEADER_DATA) t /\ sg_hlog g sg_th0 fs hdr t p rw).
Definition sg_post (cF : connp) (rw' : bytes) : Prop :=
  (rw' <> [] /\ sg_between cF rw') \/ (rw' = [] /\ exists fl, c_txs cF = [Some (sg_tfin fl)]).

(* ---- a call that starts (or continues) in REQ_HEADERS ---- *)
Lemma sg_call_hdrs c d rd p hdr t rw' f :
  sg_cin c d rd p hdr REQ_HEADERS (Some REQ_HEADERS) (Some H_REQUEST_HEADER_DATA) t ->
  sg_hlog g sg_th0 fs hdr t p (skipn rd d ++ rw') ->
  exists cF rc, rq_loop cb g (6 + f) false c = (cF, rc) /\ sg_post cF rw'.
Proof.
  intros H (fs_done & fs_rem & q & Efs & Hfl & Hpq & Hq & Hw & Hfit).
  assert (Ok : forallb wr_field_ok fs_rem = true).
  { pose proof sg_okf as O. rewrite Efs, forallb_app in O. apply andb_prop in O. apply O. }
  assert (Es : c_in_state c = REQ_HEADERS) by apply (ci_state _ _ _ _ _ _ _ _ _ H).
  assert (Ef : rq_state_fn cb g REQ_HEADERS c = REQ_HEADERS_loop cb g (length d - rd) c).
  { cbn [rq_state_fn]. unfold REQ_HEADERS_fn. rewrite (ci_len _ _ _ _ _ _ _ _ _ H), (ci_read _ _ _ _ _ _ _ _ _ H). reflexivity. }
  destruct (sg_hdrs_loop cb g d sg_th0 rw' fs_rem fs_done c rd p q hdr t (length d - rd) H Ok Hfl Hpq Hq Hw Hfit (le_n _)) as [HA|HB].
  - destruct HA as (c' & p' & hdr' & t' & EA & HA1 & HA2 & HA3). rewrite <- Efs in HA2.
    assert (Lim : (length p' + length (sg_olist hdr') <= g_field_limit_hard g)%nat).
    { destruct HA2 as (fd & fr & q' & _ & _ & Epq & _ & _ & Fit). pose proof (sg_fit_next _ _ _ Fit) as L. rewrite <- Epq, app_length in L. lia. }
    destruct (sg_exit_buffer cb g Hcb c' d p' hdr' _ _ t' HA1 Lim) as (cF & EF & HF).
    exists cF, c_HTP_STREAM_DATA. split.
    + change (6 + f)%nat with (S (5 + f)). apply sg_rq_loop_inl. unfold rq_iter. rewrite Es, Ef, EA, EF. reflexivity.
    + left. split; [exact HA3|]. right. exists p', hdr', t'. split; [exact HF|exact HA2].
  - destruct HB as (c' & EB & HB1 & HB2). rewrite <- Efs in HB1. rewrite <- Ef in EB.
    destruct (sg_tail c c' d (1 + f) Es EB HB1) as (cF & rc & fl & E & T).
    exists cF, rc. split; [exact E|]. right. split; [exact HB2|]. exists fl. exact T.
Qed.

(* ---- a call that starts (or continues) in REQ_LINE ---- *)
Lemma sg_call_line c d p q rw' f :
  sg_cin c d 0 p None REQ_LINE (Some REQ_LINE) None wr_t1 ->
  p ++ q = line0 ++ [CR; LF] -> q <> [] -> d ++ rw' = q ++ wr_block_wire fs ++ [CR; LF] ->
  exists cF rc, rq_loop cb g (8 + f) false c = (cF, rc) /\ sg_post cF rw'.
Proof.
  intros H Hpq Hq Hw.
  destruct (wr_reqline_bytes m u pr Wl) as (Hnolf & _). fold line0 in Hnolf.
  assert (Eb : line0 ++ [CR; LF] = (line0 ++ [CR]) ++ [LF]) by (rewrite <- app_assoc; reflexivity).
  destruct (sg_app_cases d rw' q _ Hw) as [Clt Cge].
  assert (Es : c_in_state c = REQ_LINE) by apply (ci_state _ _ _ _ _ _ _ _ _ H).
  destruct (Nat.lt_ge_cases (length d) (length q)) as [Llt|Lge].
  - (* the chunk ends inside the request line *)
    destruct (Clt Llt) as (q2 & Eq & Hq2 & Erw).
    assert (Nu : sg_no_lf d = true).
    { rewrite Eq, Eb, app_assoc in Hpq. destruct (sg_app_last _ _ _ _ Hpq Hq2) as (q3 & _ & E3). unfold sg_no_lf. rewrite <- E3, <- app_assoc, !forallb_app in Hnolf.
      apply andb_prop in Hnolf. destruct Hnolf as [_ Nb]. apply andb_prop in Nb. apply Nb. }
    destruct (sg_line_scan_nolf cb g d None _ _ wr_t1 d c 0 p (length d) H eq_refl Nu (le_n _)) as (c' & E & H').
    assert (Lim : (length (p ++ d) + length (sg_olist None) <= g_field_limit_hard g)%nat).
    { assert (L : length (p ++ q) = (length line0 + 2)%nat) by (rewrite Hpq, app_length; reflexivity). rewrite app_length in L. rewrite app_length.
      cbn [sg_olist length]. unfold line0 in L. lia. }
    destruct (sg_exit_buffer cb g Hcb c' d _ None _ _ wr_t1 H' Lim) as (cF & EF & HF).
    exists cF, c_HTP_STREAM_DATA. split.
    + change (8 + f)%nat with (S (7 + f)). apply sg_rq_loop_inl. unfold rq_iter. rewrite Es. cbn [rq_state_fn]. unfold REQ_LINE_fn.
      rewrite (ci_len _ _ _ _ _ _ _ _ _ H), (ci_read _ _ _ _ _ _ _ _ _ H), Nat.sub_0_r, E, EF. reflexivity.
    + left. split; [rewrite Erw; destruct q2; [contradiction|discriminate]|]. left. exists (p ++ d), q2.
      split; [exact HF|]. split; [rewrite <- app_assoc, <- Eq; exact Hpq|]. split; [exact Hq2|exact Erw].
  - (* the request line is complete in this chunk *)
    destruct (Cge Lge) as (d2 & Ed & Eaft).
    rewrite Eb in Hpq. destruct (sg_app_last _ _ _ _ Hpq Hq) as (q1 & Eq1 & Ep1).
    assert (Nq1 : sg_no_lf q1 = true) by (unfold sg_no_lf in *; rewrite <- Ep1, forallb_app in Hnolf; apply andb_prop in Hnolf; apply Hnolf).
    assert (Ed' : d = q1 ++ LF :: d2) by (rewrite Ed, Eq1, <- app_assoc; reflexivity).
    assert (Ep : p ++ q1 ++ [LF] = wr_ser_request_line m u pr ++ [CR; LF]) by (rewrite app_assoc, Ep1; symmetry; exact Eb).
    destruct (sg_pass_line cb g Hcb Hspace c d p q1 d2 wr_t1 m u pr Wl eq_refl H Ed' Nq1 Ep Hlim0) as (c2 & E2 & H2 & Hr2).
    change (8 + f)%nat with (S (S (6 + f))). rewrite (sg_rq_loop_inr cb g _ _ _ E2).
    destruct sg_th0_facts as (F & Hh0 & Hr0 & Hp0 & _).
    assert (Z9 : t_is_protocol_0_9 (sg_tx_line g wr_t1 (wr_ser_request_line m u pr)) = false).
    { destruct (sg_tx_line_facts g Hspace wr_t1 m u pr Wl eq_refl) as (_ & F' & _). cbv zeta in F'. unfold wr_line_fields in F'. decompose [and] F'. assumption. }
    destruct (sg_pass_protocol cb g c2 d _ _ H2 Z9) as (c3 & E3 & H3). rewrite (sg_rq_loop_inr cb g _ _ _ E3).
    fold line0 in H3. fold sg_th0 in H3.
    apply (sg_call_hdrs c3 d _ [] None sg_th0 rw' f H3).
    exists [], fs, (sg_next fs). split; [reflexivity|]. split; [reflexivity|]. split; [reflexivity|]. split; [apply sg_next_ne|].
    split; [rewrite Hr2, <- sg_wire_split; symmetry; exact Eaft|exact Hfit0].
Qed.

(* ---- one call of htp_connp_req_data ---- *)
Lemma sg_fuel_8 (x : bytes) : exists f, rq_fuel (length x) = (8 + f)%nat.
Proof. exists (16 * length x + 8)%nat. unfold rq_fuel. lia. Qed.

Lemma sg_step c (rw x rw' : bytes) : sg_between c rw -> x <> [] -> rw = x ++ rw' ->
  exists c' rc, connp_req_data cb g (Some x) (length x) c = (c', rc) /\ sg_post c' rw'.
Proof.
  intros [(p & q & Hm & Hpq & Hq & Erw)|(p & hdr & t & Hm & Hl)] Hne Ex.
  - destruct (sg_enter cb g c p None _ _ wr_t1 x Hm Hne) as (c1 & E1 & H1). unfold bytes in *. rewrite E1.
    destruct (sg_fuel_8 x) as (f & Ef). rewrite Ef.
    apply (sg_call_line c1 x p q rw' f H1 Hpq Hq). rewrite <- Ex. exact Erw.
  - destruct (sg_enter cb g c p hdr _ _ t x Hm Hne) as (c1 & E1 & H1). unfold bytes in *. rewrite E1.
    destruct (sg_fuel_8 x) as (f & Ef). rewrite Ef. change (8 + f)%nat with (6 + (2 + f))%nat.
    apply (sg_call_hdrs c1 x 0 p hdr t rw' _ H1). cbn [skipn]. rewrite <- Ex. exact Hl.
Qed.

(* the first call: the parser as htp_connp_open leaves it *)
Lemma sg_first c0 (x rw' : bytes) :
  c_in_status c0 = c_HTP_STREAM_OPEN -> c_out_status c0 = c_HTP_STREAM_OPEN -> c_in_state c0 = REQ_IDLE -> c_in_state_previous c0 = None ->
  c_in_tx c0 = None -> c_txs c0 = [] -> c_txs_shifted c0 = 0%nat ->
  k_buf (c_in c0) = None -> k_header (c_in c0) = None -> k_receiver_hook (c_in c0) = None ->
  x <> [] -> x ++ rw' = line0 ++ [CR; LF] ++ wr_block_wire fs ++ [CR; LF] ->
  exists c' rc, connp_req_data cb g (Some x) (length x) c0 = (c', rc) /\ sg_post c' rw'.
Proof.
  intros Hst Host Hs Hp Ht Htxs Hshift Hb Hh Hrh Hne Ex.
  assert (Hlen0 : (length x =? 0)%nat = false) by (destruct x; [contradiction|reflexivity]).
  unfold connp_req_data. rewrite Hst.
  change ((c_HTP_STREAM_OPEN =? c_HTP_STREAM_STOP)%Z) with false. change ((c_HTP_STREAM_OPEN =? c_HTP_STREAM_ERROR)%Z) with false. cbv iota.
  rewrite Ht, Hs. cbn [req_state_eqb negb]. rewrite Hlen0. cbn [andb].
  match goal with |- context [rq_loop cb g _ _ ?y] => set (c1 := y) end.
  assert (St1 : (c_in_status (rq_set_in (fun k => k <| k_data := Some x |> <| k_len := length x |> <| k_read := 0%nat |> <| k_consume := 0%nat |> <| k_receiver := 0%nat |>) c0
                   <| c_in_chunk_count ::= S |> <| c_in_data_counter ::= Z.add (Z.of_nat (length x)) |>) =? c_HTP_STREAM_TUNNEL)%Z = false).
  { change (c_in_status _) with (c_in_status c0). rewrite Hst. reflexivity. }
  rewrite St1 in *. clear St1.
  assert (Idle1 : wr_idle c1 x).
  { unfold c1. match goal with |- context [(c_out_status ?y =? _)%Z] => change (c_out_status y) with (c_out_status c0) end. rewrite Host. change ((c_HTP_STREAM_OPEN =? c_HTP_STREAM_DATA_OTHER)%Z) with false. cbv iota.
    constructor; try assumption; reflexivity. }
  clearbody c1.
  destruct (sg_pass_idle cb g Hcb c1 x Idle1 Hne) as (c2 & E2 & H2).
  destruct (sg_fuel_8 x) as (f & Ef). rewrite Ef. change (8 + f)%nat with (S (8 + (f - 1))) || replace (8 + f)%nat with (S (8 + (f - 1))).
  2: { unfold rq_fuel in Ef. lia. }
  rewrite (sg_rq_loop_inr cb g _ _ _ E2).
  apply (sg_call_line c2 x [] (line0 ++ [CR; LF]) rw' _ H2 eq_refl).
  - intro E. apply app_eq_nil in E. destruct E as [_ E]. discriminate.
  - rewrite Ex, <- !app_assoc. reflexivity.
Qed.

(* ---- finish_call between two calls ---- *)
Lemma sg_mid_finish c p hdr st rh t : sg_mid c p hdr st rh t -> sg_mid (forget_chunks c <| c_events := [] |>) p hdr st rh t.
Proof.
  intros [A1 A2 A3 A4 A5 A6 A7 A8 A9].
  assert (F : k_buf (forget_one (c_in c)) = k_buf (c_in c) /\ k_header (forget_one (c_in c)) = k_header (c_in c) /\
              k_receiver_hook (forget_one (c_in c)) = k_receiver_hook (c_in c)) by (unfold forget_one; destruct (k_data (c_in c)); repeat split).
  destruct F as (F1 & F2 & F3).
  constructor; try assumption; cbn [forget_chunks c_in set]; cbn; rewrite ?F1, ?F2, ?F3; assumption.
Qed.
Lemma sg_between_finish c rw : sg_between c rw -> sg_between (forget_chunks c <| c_events := [] |>) rw.
Proof.
  intros [(p & q & Hm & R)|(p & hdr & t & Hm & R)].
  - left. exists p, q. split; [apply sg_mid_finish; exact Hm|exact R].
  - right. exists p, hdr, t. split; [apply sg_mid_finish; exact Hm|exact R].
Qed.

Lemma sg_cp_run_cons c (x : bytes) ops :
  fst (cp_run cb g c (OpReqData x :: ops)) = fst (cp_run cb g (forget_chunks (fst (connp_req_data cb g (Some x) (length x) c)) <| c_events := [] |>) ops).
Proof.
  cbn [cp_run cp_step]. destruct (connp_req_data cb g (Some x) (length x) c) as [c1 rc]. cbn [fst]. unfold finish_call.
  destruct (cp_run cb g (forget_chunks c1 <| c_events := [] |>) ops) as [c2 xs]. reflexivity.
Qed.

Lemma sg_concat_nil (l : list bytes) : Forall (fun x => x <> []) l -> concat l = [] -> l = [].
Proof. destruct l as [|x l]; [reflexivity|]. intros F E. cbn [concat] in E. apply app_eq_nil in E. destruct E as [E _]. inversion F. contradiction. Qed.

(* ---- every later chunk ---- *)
Lemma sg_chunks : forall (chunks : list bytes) c rw, sg_between c rw -> rw <> [] -> Forall (fun x => x <> []) chunks -> concat chunks = rw ->
  exists fl, c_txs (fst (cp_run cb g c (map OpReqData chunks))) = [Some (sg_tfin fl)].
Proof.
  induction chunks as [|x rest IH]; intros c rw Hb Hne Hall Hc.
  - cbn [concat] in Hc. congruence.
  - cbn [concat] in Hc. cbn [map]. rewrite sg_cp_run_cons.
    destruct (sg_step c rw x (concat rest) Hb (Forall_inv Hall) (eq_sym Hc)) as (c' & rc & E & [[Hn Hb']|[Hn (fl & T)]]); unfold bytes in *; rewrite E; cbn [fst].
    + apply (IH _ (concat rest) (sg_between_finish _ _ Hb') Hn (Forall_inv_tail Hall) eq_refl).
    + rewrite (sg_concat_nil rest (Forall_inv_tail Hall) Hn). exists fl. cbn [map cp_run fst]. exact T.
Qed.

(* ---- every chunking of the request, from htp_connp_open on ---- *)
Lemma sg_all_chunks (chunks : list bytes) : Forall (fun x => x <> []) chunks -> concat chunks = line0 ++ [CR; LF] ++ wr_block_wire fs ++ [CR; LF] ->
  exists fl, c_txs (fst (cp_run cb g connp_new (OpOpen :: map OpReqData chunks))) = [Some (sg_tfin fl)].
Proof.
  intros Hall Hc.
  set (c0 := forget_chunks (connp_open connp_new) <| c_events := [] |>).
  assert (E0 : fst (cp_run cb g connp_new (OpOpen :: map OpReqData chunks)) = fst (cp_run cb g c0 (map OpReqData chunks))).
  { cbn [cp_run cp_step]. unfold finish_call. fold c0. destruct (cp_run cb g c0 (map OpReqData chunks)). reflexivity. }
  rewrite E0. destruct chunks as [|x rest].
  - cbn [concat] in Hc. symmetry in Hc. apply app_eq_nil in Hc. destruct Hc as [_ Hc]. discriminate.
  - cbn [concat] in Hc. cbn [map]. rewrite sg_cp_run_cons.
    destruct (sg_first c0 x (concat rest) eq_refl eq_refl eq_refl eq_refl eq_refl eq_refl eq_refl eq_refl eq_refl eq_refl (Forall_inv Hall) Hc)
      as (c' & rc & E & [[Hn Hb']|[Hn (fl & T)]]); unfold bytes in *; rewrite E; cbn [fst].
    + apply (sg_chunks rest _ (concat rest) (sg_between_finish _ _ Hb') Hn (Forall_inv_tail Hall) eq_refl).
    + rewrite (sg_concat_nil rest (Forall_inv_tail Hall) Hn). exists fl. cbn [map cp_run fst]. exact T.
Qed.
End Run.

(* ================= the theorems on the wire grammar ================= *)
(* the transaction a grammar request has to produce (as the single-chunk run produces it) *)
Definition sg_tref (g : cfg) (r : wr_request) : tx := sg_tfin g (wq_method r) (wq_uri r) (wq_protocol r) (wq_fields r) false.

Lemma sg_mask_tfin g m u pr fs fl : sg_mask (sg_tfin g m u pr fs fl) = sg_mask (sg_tfin g m u pr fs false).
Proof. unfold sg_tfin. destruct fl; [|reflexivity]. rewrite !sg_mask_progress, sg_mask_hdr_end_flag. reflexivity. Qed.

(* C03, request direction, on the wire grammar: whatever the TCP segmentation of a well-formed request without body,
   the reported transaction is the same up to HTP_MULTI_PACKET_HEAD *)
Theorem sg_request_chunking : forall cb g r (chunks : list bytes),
  wr_all_ok cb -> g_allow_space_uri g = false -> wr_request_ok r = true -> sg_fits g r = true ->
  Forall (fun x => x <> []) chunks -> concat chunks = wr_request_wire r ->
  exists t, c_txs (fst (cp_run cb g connp_new (OpOpen :: map OpReqData chunks))) = [Some t] /\ sg_mask t = sg_mask (sg_tref g r).
Proof.
  intros cb g [m u p fs] chunks Hcb Hsp Wr Hf Hall Hc.
  unfold wr_request_ok in Wr. cbn [wq_method wq_uri wq_protocol wq_fields] in Wr.
  apply andb_prop in Wr. destruct Wr as [Wr Wc]. apply andb_prop in Wr. destruct Wr as [Wr Wnf]. apply andb_prop in Wr. destruct Wr as [Wl Wb].
  apply negb_true_iff in Wnf. apply negb_true_iff in Wc.
  unfold sg_fits in Hf. cbn [wq_method wq_uri wq_protocol wq_fields] in Hf. apply andb_prop in Hf. destruct Hf as [Hl0 Hfit]. apply Nat.leb_le in Hl0.
  destruct (sg_all_chunks cb g Hcb Hsp m u p fs Wl Wb Wnf Wc Hl0 Hfit chunks Hall Hc) as (fl & T).
  exists (sg_tfin g m u p fs fl). split; [exact T|]. unfold sg_tref. cbn [wq_method wq_uri wq_protocol wq_fields]. apply sg_mask_tfin.
Qed.

(* the same as an equation between two runs (the statement of Properties_C03: c03_obs) *)
Definition sg_obs (cb : cb_oracle) (g : cfg) (ops : list cp_op) : list (option tx) :=
  map (option_map sg_mask) (c_txs (fst (cp_run cb g connp_new ops))).
Theorem sg_request_chunking_obs : forall cb g r (chunks : list bytes),
  wr_all_ok cb -> g_allow_space_uri g = false -> wr_request_ok r = true -> sg_fits g r = true ->
  Forall (fun x => x <> []) chunks -> concat chunks = wr_request_wire r ->
  sg_obs cb g (OpOpen :: map OpReqData chunks) = sg_obs cb g [OpOpen; OpReqData (wr_request_wire r)].
Proof.
  intros cb g r chunks Hcb Hsp Wr Hf Hall Hc.
  destruct (sg_request_chunking cb g r chunks Hcb Hsp Wr Hf Hall Hc) as (t & T & M).
  assert (Hne : wr_request_wire r <> []).
  { destruct chunks as [|x rest]; [|intro E; rewrite E in Hc; apply app_eq_nil in Hc; destruct Hc as [Hc _]; inversion Hall; contradiction].
    (* no chunk at all: the wire would be empty, but it ends in CR LF *)
    cbn [concat] in Hc. intro E. unfold wr_request_wire, wr_ser_request in E. apply app_eq_nil in E. destruct E as [_ E]. apply app_eq_nil in E. destruct E as [E _]. discriminate. }
  destruct (sg_request_chunking cb g r [wr_request_wire r] Hcb Hsp Wr Hf) as (t1 & T1 & M1).
  { constructor; [exact Hne|constructor]. }
  { cbn [concat]. apply app_nil_r. }
  unfold sg_obs. cbn [map] in T1. rewrite T, T1. cbn [map option_map]. rewrite M, M1. reflexivity.
Qed.

(* reported = sent for every chunking (with PWireGlue.wr_exchange_fidelity_partial) *)
Lemma sg_single_inj {A} (a b : A) : [Some a] = [Some b] -> a = b.
Proof. intros H. inversion H. reflexivity. Qed.
Lemma sg_reported_mask t r : wr_reported t r -> wr_reported (sg_mask t) r.
Proof. intros H. exact H. Qed.
Theorem sg_request_chunking_reported : forall cb g r (chunks : list bytes),
  wr_all_ok cb -> g_allow_space_uri g = false -> wr_request_ok r = true -> sg_fits g r = true ->
  Forall (fun x => x <> []) chunks -> concat chunks = wr_request_wire r ->
  exists t, c_txs (fst (cp_run cb g connp_new (OpOpen :: map OpReqData chunks))) = [Some t] /\ wr_reported (sg_mask t) r.
Proof.
  intros cb g r chunks Hcb Hsp Wr Hf Hall Hc.
  pose proof (sg_request_chunking_obs cb g r chunks Hcb Hsp Wr Hf Hall Hc) as E.
  destruct (sg_request_chunking cb g r chunks Hcb Hsp Wr Hf Hall Hc) as (t & T & _).
  destruct (wr_exchange_fidelity_partial cb g r Hcb Hsp Wr) as (t1 & T1 & R1).
  exists t. split; [exact T|]. unfold sg_obs in E. rewrite T, T1 in E. cbn [map option_map] in E. apply sg_single_inj in E.
  rewrite E. apply sg_reported_mask. exact R1.
Qed.

(* ================= non-vacuity and the vm_compute harness ================= *)
Definition sg_ex_ok : cb_oracle := fun _ _ => CB_OK.
Definition sg_ex_cfg (lim : nat) : cfg := cp_make_cfg 1 lim 512 false false 0.
(* all chunkings with one cut / with two cuts / byte by byte *)
Definition sg_cuts1 (w : bytes) : list (list bytes) := map (fun k => [firstn k w; skipn k w]) (seq 1 (length w - 1)).
Definition sg_cuts2 (w : bytes) : list (list bytes) :=
  flat_map (fun k => map (fun j => [firstn k w; firstn j (skipn k w); skipn j (skipn k w)]) (seq 1 (length w - k - 1))) (seq 1 (length w - 2)).
Definition sg_bytewise (w : bytes) : list bytes := map (fun b => [b]) w.
Definition sg_run (g : cfg) (chunks : list bytes) : list (option tx) := sg_obs sg_ex_ok g (OpOpen :: map OpReqData chunks).

(* GET /1 HTTP/1.1 | Host: a | X-Foo: a b | x-foo:\tc  (PWireGlue.wr_ex_req): the premises hold ... *)
Example sg_ex_premises : wr_request_ok wr_ex_req = true /\ sg_fits (sg_ex_cfg 18000) wr_ex_req = true /\ wr_all_ok sg_ex_ok /\
  g_allow_space_uri (sg_ex_cfg 18000) = false.
Proof. split; [vm_compute; reflexivity|]. split; [vm_compute; reflexivity|]. split; [intros h n; reflexivity|reflexivity]. Qed.
(* ... and the statement was checked by evaluation on every single cut, every double cut and the byte-by-byte delivery
   before it was proved *)
Example sg_ex_single_cuts :
  map (sg_run (sg_ex_cfg 18000)) (sg_cuts1 (wr_request_wire wr_ex_req)) = repeat (sg_run (sg_ex_cfg 18000) [wr_request_wire wr_ex_req]) 50.
Proof. vm_compute. reflexivity. Qed.
Example sg_ex_double_cuts :
  map (sg_run (sg_ex_cfg 18000)) (sg_cuts2 (wr_request_wire wr_ex_req)) = repeat (sg_run (sg_ex_cfg 18000) [wr_request_wire wr_ex_req]) 1225.
Proof. vm_compute. reflexivity. Qed.
Example sg_ex_bytewise :
  sg_run (sg_ex_cfg 18000) (sg_bytewise (wr_request_wire wr_ex_req)) = sg_run (sg_ex_cfg 18000) [wr_request_wire wr_ex_req] /\
  map (option_map t_request_progress) (sg_run (sg_ex_cfg 18000) [wr_request_wire wr_ex_req]) = [Some c_HTP_REQUEST_COMPLETE].
Proof. split; vm_compute; reflexivity. Qed.
(* a request without header fields *)
Definition sg_ex_req0 : wr_request := mk_wr_request [71;69;84]%N [47;49]%N wr_http10 [].
Example sg_ex_nofields :
  wr_request_ok sg_ex_req0 = true /\ sg_fits (sg_ex_cfg 18000) sg_ex_req0 = true /\
  map (sg_run (sg_ex_cfg 18000)) (sg_cuts1 (wr_request_wire sg_ex_req0)) = repeat (sg_run (sg_ex_cfg 18000) [wr_request_wire sg_ex_req0]) 18.
Proof. split; [vm_compute; reflexivity|]. split; vm_compute; reflexivity. Qed.
(* the flag that is masked does depend on the segmentation *)
Example sg_ex_multi_packet_head :
  map (option_map (fun t => flag_has (t_flags t) c_HTP_MULTI_PACKET_HEAD))
      (c_txs (fst (cp_run sg_ex_ok (sg_ex_cfg 18000) connp_new [OpOpen; OpReqData (wr_request_wire wr_ex_req)]))) = [Some false] /\
  map (option_map (fun t => flag_has (t_flags t) c_HTP_MULTI_PACKET_HEAD))
      (c_txs (fst (cp_run sg_ex_ok (sg_ex_cfg 18000) connp_new
                     [OpOpen; OpReqData (firstn 20 (wr_request_wire wr_ex_req)); OpReqData (skipn 20 (wr_request_wire wr_ex_req))]))) = [Some true].
Proof. split; vm_compute; reflexivity. Qed.

(* the limit premise cannot be weakened to "every line fits field_limit_hard": with the limit 20 every line of the example
   (at most 17 bytes with its CR LF) fits, but a chunk that ends right after "X-Foo: a b \r\n" leaves that line (11 bytes)
   pending in in_header, and the next line "x-foo:\tc\r\n" (10 bytes), when it has to be buffered, is refused
   (htp_connp_req_buffer adds the length of in_header): the parse stops with HTP_STREAM_ERROR in that chunking only *)
Definition sg_all_lines_fit (g : cfg) (r : wr_request) : bool :=
  (length (wr_ser_request_line (wq_method r) (wq_uri r) (wq_protocol r)) + 2 <=? g_field_limit_hard g)%nat &&
  forallb (fun f => (length (wr_field_line f) + 2 <=? g_field_limit_hard g)%nat) (wq_fields r).
Example sg_limit_premise_needed :
  sg_all_lines_fit (sg_ex_cfg 20) wr_ex_req = true /\ sg_fits (sg_ex_cfg 20) wr_ex_req = false /\ sg_fits (sg_ex_cfg 21) wr_ex_req = true /\
  let w := wr_request_wire wr_ex_req in
  map (option_map t_request_progress) (sg_run (sg_ex_cfg 20) [w]) = [Some c_HTP_REQUEST_COMPLETE] /\
  map (option_map t_request_progress) (sg_run (sg_ex_cfg 20) [firstn 39 w; firstn 1 (skipn 39 w); skipn 40 w]) = [Some c_HTP_REQUEST_HEADERS].
Proof. split; [vm_compute; reflexivity|]. split; [vm_compute; reflexivity|]. split; vm_compute; [reflexivity|]. split; reflexivity. Qed.

(* ================= THEOREMS FOR RE-EXPORT (Properties_C03.v) =================
   sg_request_chunking           exists t, txs = [Some t] /\ sg_mask t = sg_mask (sg_tref g r)       (every chunking)
   sg_request_chunking_obs       sg_obs (chunked run) = sg_obs (single-chunk run)                    (sg_obs / sg_mask = c03_obs / c03_mask)
   sg_request_chunking_reported  exists t, txs = [Some t] /\ wr_reported (sg_mask t) r
   premises: wr_all_ok cb, g_allow_space_uri g = false, wr_request_ok r = true, sg_fits g r = true,
             Forall (fun x => x <> []) chunks, concat chunks = wr_request_wire r *)
Print Assumptions sg_request_chunking.
Print Assumptions sg_request_chunking_obs.
Print Assumptions sg_request_chunking_reported.
