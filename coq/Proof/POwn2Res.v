(* Proofs about the ownership model, second part (C18): the response twins -- htp_parse/process_response_header_generic
   and htp_connp_res_buffer (Model/MOwn2.v), in the calculus of Proof/POwn.v. *)
Require Import Htp.Model.Base Htp.Model.MOwn Htp.Model.MOwnCases Htp.Model.MOwn2 Htp.Proof.POwn Htp.Proof.POwn2.

(* ------------------------------------------------------------------ response headers *)
Lemma wp_parse_response_header on n connp cp c hs F (Q : bool * ow_conn * ow_hdr -> ow_state -> Prop) s :
  wf_conn cp c -> ow_own (fp_conn c ++ hs :: F) s -> connp <> None -> (forall j, cnto j connp <= cnt j F) ->
  (forall c' h' s', wf_conn cp c' -> ocn_txs c' = ocn_txs c -> ocn_txl c' = ocn_txl c -> ocn_self c' = ocn_self c ->
                    ow_own (fp_conn c' ++ hs :: F) s' -> Q (false, c', h') s') ->
  (forall c' a v s', wf_conn cp c' -> ocn_txs c' = ocn_txs c -> ocn_txl c' = ocn_txl c -> ocn_self c' = ocn_self c ->
                    ow_own (fp_conn c' ++ a :: v :: hs :: F) s' -> Q (true, c', ow_mk_hdr (Some hs) (Some a) (Some v)) s') ->
  ow_wp (ow_parse_response_header on n connp c (ow_mk_hdr (Some hs) None None)) Q s.
Proof.
  intros W O Hn Hle HF HT. unfold ow_parse_response_header.
  apply wp_bind. apply wp_log_n with (cp := cp) (F := hs :: F); auto.
  { intros j. specialize (Hle j). cnt_norm. lia. }
  intros c1 s1 W1 E1 E2 E3 [Ok1 L1]. cbn [ohd_self].
  wp_go.
  - apply HF; auto. split; auto. intros j. cnt_at j.
  - apply HF; auto. split; auto. intros j. cnt_at j.
  - apply HF; auto. split; auto. intros j. cnt_at j.
  - apply HT; auto. split; auto. intros j. cnt_at j.
Qed.

Ltac tx_proj2 := cbn [otx_self otx_conn otx_connp otx_req_strs otx_uri_raw otx_uri otx_auth_user otx_auth_pass otx_req_hdrs otx_req_hvals
                      otx_pvals otx_params otx_cookies otx_cvals otx_hook_req otx_hook_res otx_res_strs otx_res_hdrs otx_res_hvals otx_rep].

Lemma fp_tx_set_res_hdrs tx rh hv j :
  cnt j (fp_tx (otx_set_res_hdrs tx rh hv)) + cnt j (fp_tblo (otx_res_hdrs tx)) + cnt j (flat_map fp_hdr (otx_res_hvals tx))
  = cnt j (fp_tx tx) + cnt j (fp_tblo rh) + cnt j (flat_map fp_hdr hv).
Proof. unfold fp_tx, otx_set_res_hdrs. tx_proj2. cnt_norm. lia. Qed.

(* a transaction whose response headers all have a value (what the parser stores) *)
Definition wf_tx_res (tx : ow_tx) : Prop := wf_tx tx /\ Forall (fun h => ohd_value h <> None) (otx_res_hvals tx).

Lemma wf_tx_set_res_hdrs tx rh hv :
  wf_tx tx -> wf_tblo rh -> Forall wf_hdr hv -> (rh = None -> hv = []) -> wf_tx (otx_set_res_hdrs tx rh hv).
Proof.
  intros [W1 [W2 [W3 [W4 [W5 [W6 [W7 [W8 [W9 [W10 [W11 [W12 [W13 [W14 [W15 W16]]]]]]]]]]]]]]] A B C.
  unfold wf_tx, otx_set_res_hdrs. cbn. repeat split; auto.
Qed.

Lemma wp_process_response_header on sh connp cp c tx rep F (Q : bool * ow_conn * ow_tx * nat -> ow_state -> Prop) s :
  wf_conn cp c -> wf_tx_res tx -> ow_own (fp_conn c ++ fp_tx tx ++ F) s -> connp <> None -> (forall j, cnto j connp <= cnt j F) ->
  (forall ok c' tx' rep' s', wf_conn cp c' -> wf_tx_res tx' -> ocn_txs c' = ocn_txs c -> ocn_txl c' = ocn_txl c -> ocn_self c' = ocn_self c ->
                        otx_conn tx' = otx_conn tx -> otx_connp tx' = otx_connp tx ->
                        ow_own (fp_conn c' ++ fp_tx tx' ++ F) s' -> Q (ok, c', tx', rep') s') ->
  ow_wp (ow_process_response_header on sh connp c tx rep) Q s.
Proof.
  intros W [Wt Wv] O Hn Hle HQ. unfold ow_process_response_header.
  assert (Wtr : wf_tx_res tx) by (split; auto).
  destruct O as [Hok Hown].
  apply wp_bind. apply wp_malloc; auto.
  { intros s1 Ok1 L1 _ _ _ _. apply wp_ret. apply HQ; auto. split; auto. intros j. rewrite L1; auto. }
  intros s1 Ok1 L1 _ _ _ _. set (hs := oos_next s) in *.
  assert (Hle' : forall j, cnto j connp <= cnt j (fp_tx tx ++ F)). { intros j. specialize (Hle j). cnt_norm. lia. }
  apply wp_bind. apply wp_parse_response_header with (cp := cp) (F := fp_tx tx ++ F); auto.
  { split; auto. intros j. rewrite L1, Hown. cnt_norm. lia. }
  { intros c1 h' s2 W1 E1 E2 E3 [Ok2 L2]. cbn [negb]. wp_go. apply HQ; auto. split; auto. intros j. cnt_at j. }
  intros c1 nm vl s2 W1 E1 E2 E3 O2. cbn [negb ohd_self ohd_name ohd_value].
  pose proof Wt as [T1 _]. destruct (otx_self tx) as [ta|] eqn:Eta; [|congruence].
  assert (Hta : forall j, ind ta j <= cnt j (fp_tx tx)). { intros j. unfold fp_tx. rewrite Eta. cnt_norm. lia. }
  apply wp_bind. apply wp_use. { apply own_live_in with (G := fp_conn c1 ++ nm :: vl :: hs :: fp_tx tx) (F := F); auto. eapply own_perm; [|exact O2]. intros j. cnt_norm. lia. }
  apply wp_bind. apply wp_use. { exists ta. split; auto. destruct O2 as [_ O2]. rewrite O2. specialize (Hta ta). cnt_norm. lia. }
  (* releasing the new header struct *)
  assert (Hfree : forall c' tx' ok rep' s', wf_conn cp c' -> wf_tx_res tx' -> ocn_txs c' = ocn_txs c -> ocn_txl c' = ocn_txl c -> ocn_self c' = ocn_self c ->
            otx_conn tx' = otx_conn tx -> otx_connp tx' = otx_connp tx ->
            ow_own (fp_conn c' ++ nm :: vl :: hs :: fp_tx tx' ++ F) s' ->
            ow_wp ((ow_free (Some nm) ;;; ow_free (Some vl) ;;; ow_free (Some hs)) ;;; ow_ret (ok, c', tx', rep')) Q s').
  { intros c' tx' ok rep' s' Wc' Wt' A A2 B C D [Ok' L']. wp_go. apply HQ; auto. split; auto. intros j. cnt_at j. }
  destruct (match ohs_existing sh with
            | Some i => match nth_error (otx_res_hvals tx) i with Some he => Some (i, he) | None => None end
            | None => None end) as [[i he]|] eqn:Eex.
  - assert (Enth : nth_error (otx_res_hvals tx) i = Some he).
    { destruct (ohs_existing sh) as [i0|]; [|discriminate]. destruct (nth_error (otx_res_hvals tx) i0) eqn:En; [|discriminate].
      injection Eex as <- <-. auto. }
    pose proof Wt as [_ [_ [_ [_ [_ [_ [_ [_ [_ [_ [_ [_ [T4 [T5 [T6 _]]]]]]]]]]]]]]].
    destruct (hv_set_value_spec _ _ _ None Enth T5) as [_ [_ [Whe Hhe]]].
    unfold wf_hdr in Whe. destruct (ohd_self he) as [hes|] eqn:Ehes; [|congruence].
    assert (Hhe' : forall j, cnt j (fp_hdr he) <= cnt j (fp_tx tx)). { intros j. specialize (Hhe j). unfold fp_tx. cnt_norm. lia. }
    apply wp_bind. apply wp_use.
    { exists hes. split; auto. destruct O2 as [_ O2]. rewrite O2. specialize (Hhe' hes). unfold fp_hdr in Hhe'. rewrite Ehes in Hhe'. cnt_norm. lia. }
    apply wp_bind.
    assert (Hlog : forall (b : bool) c0 s0 (Q' : ow_conn -> ow_state -> Prop),
       wf_conn cp c0 -> ocn_txs c0 = ocn_txs c -> ocn_txl c0 = ocn_txl c -> ocn_self c0 = ocn_self c ->
       ow_own (fp_conn c0 ++ nm :: vl :: hs :: fp_tx tx ++ F) s0 ->
       (forall c' s', wf_conn cp c' -> ocn_txs c' = ocn_txs c -> ocn_txl c' = ocn_txl c -> ocn_self c' = ocn_self c ->
                      ow_own (fp_conn c' ++ nm :: vl :: hs :: fp_tx tx ++ F) s' -> Q' c' s') ->
       ow_wp (if b then ow_log_msg on connp c0 else ow_ret c0) Q' s0).
    { intros b c0 s0 Q' Wc0 A0 A20 B0 O0 HQ'. destruct b.
      - apply wp_log_msg with (cp := cp) (F := nm :: vl :: hs :: fp_tx tx ++ F); auto.
        + intros j. specialize (Hle j). cnt_norm. lia.
        + intros c' s' Wc' A B C O'. apply HQ'; auto; congruence.
      - apply wp_ret. apply HQ'; auto. }
    apply Hlog; [exact W1 | exact E1 | exact E2 | exact E3 | exact O2 |]. intros c2 s3 W2 E4 E42 E5 O3.
    destruct (ohs_ex_repeated sh && negb (rep <? c_ow_MAX_HEADERS_REPETITIONS)).
    { apply Hfree; auto. }
    assert (Hval : ohd_value he <> None).
    { rewrite Forall_forall in Wv. apply (Wv he). eapply nth_error_In; eauto. }
    destruct (ohd_value he) as [hv|] eqn:Ehv; [|congruence].
    destruct (ohs_is_cl sh).
    + destruct O3 as [Ok3 L3].
      apply wp_bind. apply wp_use.
      { exists hv. split; auto. rewrite L3. specialize (Hhe' hv). unfold fp_hdr in Hhe'. rewrite Ehv in Hhe'. cnt_norm. lia. }
      apply wp_bind. apply wp_use. { exists vl. split; auto. rewrite L3. cnt_norm. lia. }
      apply wp_bind. apply Hlog; [exact W2 | exact E4 | exact E42 | exact E5 | split; auto |]. intros c3 s4 W3 E6 E62 E7 O4.
      apply Hfree; auto.
    + destruct O3 as [Ok3 L3].
      assert (Hhv : 1 <= cnt hv (oos_live s3)).
      { rewrite L3. specialize (Hhe' hv). unfold fp_hdr in Hhe'. rewrite Ehv in Hhe'. cnt_norm. lia. }
      apply wp_bind. apply wp_bstr_expand; auto. { exists hv. split; auto. }
      * intros s4 Ok4 L4. apply Hfree; auto. split; auto. intros j. rewrite L4, L3. reflexivity.
      * intros n s4 Ok4 L4 Hn4.
        destruct (hv_set_value_spec _ _ _ (Some n) Enth T5) as [A1 [A2 _]].
        apply wp_bind. apply wp_use. { exists n. split; auto. }
        apply wp_bind. apply wp_use. { exists vl. split; auto. specialize (L4 vl). specialize (L3 vl).
          pose proof (ok_nodup _ Ok3 vl) as N. rewrite L3 in N. specialize (Hhe' vl). unfold fp_hdr in Hhe'. rewrite Ehv in Hhe'. cnt_norm. lia. }
        apply Hfree; auto.
        -- split.
           ++ apply wf_tx_set_res_hdrs; auto.
              intros E. rewrite (T6 E) in Enth. destruct i; discriminate.
           ++ unfold otx_set_res_hdrs. tx_proj2. apply hv_set_value_vals; auto. discriminate.
        -- split; auto. intros j.
           pose proof (fp_tx_set_res_hdrs tx (otx_res_hdrs tx) (ow_hv_set_value (otx_res_hvals tx) i (Some n)) j) as FT.
           specialize (A2 j). rewrite Ehv in A2. specialize (L4 j). specialize (L3 j). cnt_norm. lia.
  - destruct (otx_res_hdrs tx) as [t|] eqn:Et.
    2:{ apply Hfree; auto. }
    pose proof Wt as [_ [_ [_ [_ [_ [_ [_ [_ [_ [_ [_ [_ [T4 [T5 [T6 _]]]]]]]]]]]]]]].
    rewrite Et in T4. destruct T4 as [Wtb Ptb].
    set (txr := otx_set_res_hdrs tx None (otx_res_hvals tx)).
    assert (Hr : forall j, cnt j (fp_tx txr) + cnt j (fp_tbl t) = cnt j (fp_tx tx)).
    { intros j. pose proof (fp_tx_set_res_hdrs tx None (otx_res_hvals tx) j) as FT. rewrite Et in FT.
      cbn [fp_tblo] in FT. fold txr in FT. cnt_norm. lia. }
    apply wp_bind. apply wp_table_add with (F := fp_conn c1 ++ nm :: vl :: hs :: fp_tx txr ++ F); auto.
    { eapply own_perm; [|exact O2]. intros j. specialize (Hr j). cnt_norm. lia. }
    { right. exists nm. split; auto. destruct O2 as [_ O2]. rewrite O2. cnt_norm. lia. }
    intros ok t' s3 Wt' Pt' O3 Est Hok1 Hok0. cbn [fst snd]. destruct ok.
    + apply wp_ret. apply HQ; auto.
      * split.
        -- apply wf_tx_set_res_hdrs; auto.
           ++ split; auto.
           ++ apply Forall_app. split; auto. constructor; [|constructor]. unfold wf_hdr. cbn. discriminate.
           ++ discriminate.
        -- unfold otx_set_res_hdrs. tx_proj2. apply Forall_app. split; auto. constructor; [|constructor]. cbn. discriminate.
      * eapply own_perm; [|exact O3]. intros j.
        pose proof (fp_tx_set_res_hdrs tx (Some t') (otx_res_hvals tx ++ [ow_mk_hdr (Some hs) (Some nm) (Some vl)]) j) as FT.
        rewrite Et in FT. cbn [fp_tblo] in FT. specialize (Hr j). cnt_norm. rewrite cnt_fp_hdr_mk in FT. cnt_norm. lia.
    + apply Hfree; auto.
      * split.
        -- apply wf_tx_set_res_hdrs; auto. split; auto. discriminate.
        -- unfold otx_set_res_hdrs. tx_proj2. auto.
      * eapply own_perm; [|exact O3]. intros j.
        pose proof (fp_tx_set_res_hdrs tx (Some t') (otx_res_hvals tx) j) as FT.
        rewrite Et in FT. cbn [fp_tblo] in FT. specialize (Hr j). cnt_norm. lia.
Qed.

(* ------------------------------------------------------------------ response buffering *)
Ltac cp_proj := cbn [ocp_self ocp_conn ocp_in_buf ocp_out_buf ocp_in_hdr ocp_out_hdr ocp_put_file].

Lemma fp_connp_set_out_buf p b j : cnt j (fp_connp (ocp_set_out_buf p b)) + cnto j (ocp_out_buf p) = cnt j (fp_connp p) + cnto j b.
Proof. unfold fp_connp, ocp_set_out_buf. cp_proj. cnt_norm. lia. Qed.
Lemma wf_connp_set_out_buf p b : wf_connp p -> wf_connp (ocp_set_out_buf p b).
Proof. intros W. exact W. Qed.

Lemma wp_res_buffer on sh out_tx p F (Q : bool * ow_connp -> ow_state -> Prop) s :
  wf_connp p -> ocp_conn p <> None -> ow_own (fp_connp p ++ F) s -> live_in out_tx s ->
  (forall ok p' s', wf_connp p' -> ocp_conn p' <> None -> ow_own (fp_connp p' ++ F) s' -> Q (ok, p') s') ->
  ow_wp (ow_res_buffer on sh out_tx p) Q s.
Proof.
  intros W Hc O Hin HQ. unfold ow_res_buffer. pose proof W as [W1 [W2 W3]].
  destruct (ocp_self p) as [a|] eqn:Ea; [|congruence].
  assert (Ha : forall j, ind a j <= cnt j (fp_connp p)). { intros j. unfold fp_connp. rewrite Ea. cnt_norm. lia. }
  apply wp_bind. apply wp_use. { exists a. split; auto. destruct O as [_ O]. rewrite O. specialize (Ha a). cnt_norm. lia. }
  destruct (orb_has_data sh); cbn [negb]; [|apply wp_ret; apply HQ; auto].
  apply wp_bind.
  assert (H1 : ow_wp (if ow_isnull (ocp_out_hdr p) then ow_ret tt else ow_use (ocp_out_hdr p)) (fun _ s' => s' = s) s).
  { destruct (ocp_out_hdr p) as [ih|] eqn:Eih; cbn [ow_isnull]; [|apply wp_ret; auto]. apply wp_use; auto. exists ih. split; auto.
    destruct O as [_ O]. rewrite O. unfold fp_connp. rewrite Eih. cnt_norm. lia. }
  eapply wp_mono; [exact H1|]. clear H1. intros _ s' ->.
  apply wp_bind. apply wp_use; auto.
  destruct (orb_over sh).
  - destruct (ocp_conn p) as [c|] eqn:Ec; [|congruence].
    set (R := olist [ocp_in_buf p; ocp_out_buf p; ocp_in_hdr p; ocp_out_hdr p] ++ fp_fileo (ocp_put_file p)).
    apply wp_bind. apply wp_log_msg with (cp := Some a) (F := a :: R ++ F); auto.
    + eapply own_perm; [|exact O]. intros j. unfold fp_connp, R. rewrite Ea, Ec. cbn [fp_conno]. cnt_norm. lia.
    + intros j. cnt_norm. lia.
    + intros c' s' Wc' A B C O'. apply wp_ret. apply HQ.
      * split; [cbn; rewrite Ea; discriminate|]. split; cbn; auto. rewrite Ea. auto.
      * cbn. discriminate.
      * eapply own_perm; [|exact O']. intros j. pose proof (fp_connp_set_conn p (Some c') j) as FC. rewrite Ec in FC.
        cbn [fp_conno] in FC. unfold fp_connp in FC at 2. rewrite Ea, Ec in FC. cbn [fp_conno] in FC. unfold R. cnt_norm. lia.
  - destruct O as [Hok Hown]. destruct (ocp_out_buf p) as [ib|] eqn:Eib; cbn [ow_isnull].
    + assert (Hib : 1 <= cnt ib (oos_live s)). { rewrite Hown. unfold fp_connp. rewrite Eib. cnt_norm. lia. }
      wp_go; try assumption.
      * apply HQ; auto. split; auto. intros j; cnt_at j.
      * apply HQ; auto. split; auto. intros j. pose proof (fp_connp_set_out_buf p (Some (oos_next s)) j) as FB. rewrite Eib in FB. cnt_at j.
    + wp_go.
      * apply HQ; auto. split; auto. intros j; cnt_at j.
      * apply HQ; auto. split; auto. intros j. pose proof (fp_connp_set_out_buf p (Some (oos_next s)) j) as FB. rewrite Eib in FB. cnt_at j.
Qed.

Lemma wp_res_consolidate on sh out_tx p F (Q : bool * ow_connp -> ow_state -> Prop) s :
  wf_connp p -> ocp_conn p <> None -> ow_own (fp_connp p ++ F) s -> live_in out_tx s ->
  (forall ok p' s', wf_connp p' -> ocp_conn p' <> None -> ow_own (fp_connp p' ++ F) s' -> Q (ok, p') s') ->
  ow_wp (ow_res_consolidate on sh out_tx p) Q s.
Proof.
  intros W Hc O Hin HQ. unfold ow_res_consolidate. pose proof W as [W1 _].
  destruct (ocp_self p) as [a|] eqn:Ea; [|congruence].
  apply wp_bind. apply wp_use.
  { exists a. split; auto. destruct O as [_ O]. rewrite O. unfold fp_connp. rewrite Ea. cnt_norm. lia. }
  destruct (ocp_out_buf p) eqn:Eb; cbn [ow_isnull].
  - apply wp_res_buffer with (F := F); auto.
  - apply wp_ret. apply HQ; auto.
Qed.

Lemma wp_res_clear_buffer p F (Q : ow_connp -> ow_state -> Prop) s :
  wf_connp p -> ow_own (fp_connp p ++ F) s ->
  (forall p' s', wf_connp p' -> ocp_conn p' = ocp_conn p -> ocp_out_buf p' = None -> ow_own (fp_connp p' ++ F) s' -> Q p' s') ->
  ow_wp (ow_res_clear_buffer p) Q s.
Proof.
  intros W [Hok Hown] HQ. unfold ow_res_clear_buffer. pose proof W as [W1 _].
  destruct (ocp_self p) as [a|] eqn:Ea; [|congruence].
  assert (La : 1 <= cnt a (oos_live s)). { rewrite Hown. unfold fp_connp. rewrite Ea. cnt_norm. lia. }
  destruct (ocp_out_buf p) as [b|] eqn:Eb; cbn [ow_isnull].
  - assert (Lb : 1 <= cnt b (oos_live s)). { rewrite Hown. unfold fp_connp. rewrite Eb. cnt_norm. lia. }
    wp_go. apply HQ; auto. split; auto. intros j.
    pose proof (fp_connp_set_out_buf p None j) as FB. rewrite Eb in FB. cnt_at j.
  - wp_go. apply HQ; auto. split; auto.
Qed.

(* ------------------------------------------------------------------ theorems *)
Theorem ow_then_destroy_clean_process_response_header on sh p c tx rep F s :
  ow_world p c -> wf_tx_res tx -> otx_conn tx = ocn_self c -> otx_connp tx = ocp_self p -> ocn_txl c <> None ->
  ow_own (fp_connp p ++ fp_tx tx ++ F) s ->
  ow_clean_to F (r <- ow_process_response_header on sh (ocp_self p) c tx rep ;;
                 ow_connp_destroy_all (Some (ow_put_tx p (snd (fst (fst r))) (snd (fst r))))) s.
Proof.
  intros Wd Wt Ec Ep Hl O. destruct (world_split _ _ Wd) as [a [R [Ea [Wc [Ha [E1 [E2 Hwf]]]]]]].
  apply wp_bind. rewrite Ea. apply wp_process_response_header with (cp := Some a) (F := R ++ F); auto.
  - eapply own_perm; [|exact O]. intros j. specialize (E1 j). cnt_norm. lia.
  - discriminate.
  - intros j. specialize (Ha j). cnt_norm. lia.
  - intros ok c' tx' rep' s1 Wc' [Wt' _] Et Etl Es Ec' Ep' O2. cbn [fst snd]. unfold ow_put_tx.
    assert (Hl' : ocn_txl c' <> None) by congruence.
    apply wp_connp_destroy_all with (F := F).
    + apply Hwf. apply wf_conn_put; auto; congruence.
    + eapply own_perm; [|exact O2]. intros j. rewrite (cnt_app j (fp_connp _)), E2, fp_conn_put. cnt_norm. lia.
    + auto.
Qed.

Theorem ow_safe_process_response_header on sh p c tx rep F s :
  ow_world p c -> wf_tx_res tx -> ow_own (fp_connp p ++ fp_tx tx ++ F) s ->
  ow_nofault (ow_process_response_header on sh (ocp_self p) c tx rep) s.
Proof.
  intros Wd Wt O. destruct (world_split _ _ Wd) as [a [R [Ea [Wc [Ha [E1 [E2 Hwf]]]]]]].
  eapply wp_nofault. rewrite Ea. apply wp_process_response_header with (cp := Some a) (F := R ++ F) (Q := fun _ _ => True); auto.
  - eapply own_perm; [|exact O]. intros j. specialize (E1 j). cnt_norm. lia.
  - discriminate.
  - intros j. specialize (Ha j). cnt_norm. lia.
Qed.

(* the shape is kept: a transaction that went through the function can go through it again *)
Theorem ow_process_response_header_keeps_shape on sh p c tx rep F s :
  ow_world p c -> wf_tx_res tx -> ow_own (fp_connp p ++ fp_tx tx ++ F) s ->
  ow_wp (ow_process_response_header on sh (ocp_self p) c tx rep)
        (fun r s' => let '(ok, c', tx', rep') := r in
                     ow_world (ocp_set_conn p (Some c')) c' /\ wf_tx_res tx' /\ otx_conn tx' = otx_conn tx /\ otx_connp tx' = otx_connp tx /\
                     ocn_txl c' = ocn_txl c /\ ocn_self c' = ocn_self c /\
                     ow_own (fp_connp (ocp_set_conn p (Some c')) ++ fp_tx tx' ++ F) s') s.
Proof.
  intros Wd Wt O. destruct (world_split _ _ Wd) as [a [R [Ea [Wc [Ha [E1 [E2 Hwf]]]]]]].
  rewrite Ea. apply wp_process_response_header with (cp := Some a) (F := R ++ F); auto.
  - eapply own_perm; [|exact O]. intros j. specialize (E1 j). cnt_norm. lia.
  - discriminate.
  - intros j. specialize (Ha j). cnt_norm. lia.
  - intros ok c' tx' rep' s1 Wc' Wt' Et Etl Es Ec' Ep' O2.
    split. { split; [apply Hwf; auto | reflexivity]. }
    split; [exact Wt'|]. split; [exact Ec'|]. split; [exact Ep'|]. split; [exact Etl|]. split; [exact Es|].
    eapply own_perm; [|exact O2]. intros j. rewrite (cnt_app j (fp_connp _)), E2. cnt_norm. lia.
Qed.

Theorem ow_safe_res_buffer on sh out_tx p F s :
  wf_connp p -> ocp_conn p <> None -> ow_own (fp_connp p ++ F) s -> live_in out_tx s ->
  ow_nofault (ow_res_buffer on sh out_tx p) s.
Proof. intros. eapply wp_nofault. apply wp_res_buffer with (F := F) (Q := fun _ _ => True); auto. Qed.

Theorem ow_then_destroy_clean_res_buffer on sh out_tx p F s :
  wf_connp p -> ocp_conn p <> None -> ow_own (fp_connp p ++ F) s -> live_in out_tx s ->
  ow_clean_to F (r <- ow_res_buffer on sh out_tx p ;; ow_connp_destroy_all (Some (snd r))) s.
Proof.
  intros W Hc O Hin. apply wp_bind. apply wp_res_buffer with (F := F); auto.
  intros ok p' s1 W' _ O1. cbn [snd]. apply wp_connp_destroy_all with (F := F); auto.
Qed.

Theorem ow_then_destroy_clean_res_consolidate on sh out_tx p F s :
  wf_connp p -> ocp_conn p <> None -> ow_own (fp_connp p ++ F) s -> live_in out_tx s ->
  ow_clean_to F (r <- ow_res_consolidate on sh out_tx p ;; ow_connp_destroy_all (Some (snd r))) s.
Proof.
  intros W Hc O Hin. apply wp_bind. apply wp_res_consolidate with (F := F); auto.
  intros ok p' s1 W' _ O1. cbn [snd]. apply wp_connp_destroy_all with (F := F); auto.
Qed.

(* buffer, then clear: the parser is back to an empty buffer; then destroy *)
Theorem ow_then_destroy_clean_res_buffer_clear on sh out_tx p F s :
  wf_connp p -> ocp_conn p <> None -> ow_own (fp_connp p ++ F) s -> live_in out_tx s ->
  ow_clean_to F (r <- ow_res_buffer on sh out_tx p ;; p1 <- ow_res_clear_buffer (snd r) ;; ow_connp_destroy_all (Some p1)) s.
Proof.
  intros W Hc O Hin. apply wp_bind. apply wp_res_buffer with (F := F); auto.
  intros ok p' s1 W' _ O1. cbn [snd]. apply wp_bind. apply wp_res_clear_buffer with (F := F); auto.
  intros p2 s2 W2 _ _ O2. apply wp_connp_destroy_all with (F := F); auto.
Qed.
