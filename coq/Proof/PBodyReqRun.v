(* C06, part C (request side): the REAL loop body rq_iter of htp_connp_req_data iterated over the TCP chunks
   (bd_rq_reach), and what one segment of a body does under every chunking: identity body / chunk data. *)
Require Import Htp.Model.MConnTypes Htp.Model.MBstr Htp.Model.MTxCommon Htp.Model.MReqLine Htp.Model.MTxReq Htp.Model.MReq.
Require Import Htp.Spec.SBody Htp.Proof.PBody Htp.Proof.PBodyReq.
Local Open Scope Z_scope.

Section Req.
Variable cb : cb_oracle.
Variable g : cfg.
Hypothesis cb_ok : forall n, cb H_REQUEST_BODY_DATA n = CB_OK.

(* ================= iterating the real loop body over the TCP chunks ================= *)
(* the part of htp_connp_req_data before the for(;;): a fresh chunk d *)
Definition bd_req_begin (d : bytes) (c : connp) : connp :=
  let c := rq_set_in (fun k => k <| k_data := Some d |> <| k_len := length d |> <| k_read := O |> <| k_consume := O |>
                                 <| k_receiver := O |>) c in
  let c := c <| c_in_chunk_count ::= S |> <| c_in_data_counter ::= Z.add (Z.of_nat (length d)) |> in
  if c_out_status c =? c_HTP_STREAM_DATA_OTHER then c <| c_out_status := c_HTP_STREAM_DATA |> else c.

(* configurations (parser, TCP chunks still to come): a pass of the loop body that goes round again, or a return with
   HTP_STREAM_DATA followed by the next call of htp_connp_req_data *)
Inductive bd_rq_reach : connp -> list bytes -> connp -> list bytes -> Prop :=
| bd_rr_refl c rem : bd_rq_reach c rem c rem
| bd_rr_iter c c1 rem c' rem' :
    rq_iter cb g false c = inr c1 -> bd_rq_reach c1 rem c' rem' -> bd_rq_reach c rem c' rem'
| bd_rr_next c c1 d rem c' rem' :
    rq_iter cb g false c = inl (c1, c_HTP_STREAM_DATA) -> bd_rq_reach (bd_req_begin d c1) rem c' rem' ->
    bd_rq_reach c (d :: rem) c' rem'.

Lemma bd_rq_reach_trans a ra b rb c rc : bd_rq_reach a ra b rb -> bd_rq_reach b rb c rc -> bd_rq_reach a ra c rc.
Proof. intros H1 H2. induction H1; [exact H2|eapply bd_rr_iter; eauto|eapply bd_rr_next; eauto]. Qed.

(* htp_req_handle_state_change when the new state is not REQ_HEADERS *)
Definition bd_hsc (c : connp) : connp :=
  if match c_in_state_previous c with Some s => req_state_eqb s (c_in_state c) | None => false end then c
  else c <| c_in_state_previous := Some (c_in_state c) |>.
Lemma bd_hsc_spec c : req_state_eqb (c_in_state c) REQ_HEADERS = false -> req_handle_state_change cb c = (ST_OK, bd_hsc c).
Proof.
  intros H. unfold req_handle_state_change, bd_hsc. rewrite H.
  destruct (c_in_state_previous c) as [s|]; [destruct (req_state_eqb s (c_in_state c))|]; reflexivity.
Qed.

Definition bd_body_state (s : req_state) : bool :=
  match s with REQ_BODY_IDENTITY | REQ_BODY_CHUNKED_LENGTH | REQ_BODY_CHUNKED_DATA | REQ_BODY_CHUNKED_DATA_END => true | _ => false end.

Lemma bd_rq_iter_ok c c' :
  rq_state_fn cb g (c_in_state c) c = (ST_OK, c') -> (c_in_status c' =? c_HTP_STREAM_TUNNEL) = false ->
  req_state_eqb (c_in_state c') REQ_HEADERS = false ->
  rq_iter cb g false c = inr (bd_hsc c').
Proof. intros H1 H2 H3. unfold rq_iter. rewrite H1, H2, (bd_hsc_spec _ H3). reflexivity. Qed.
Lemma bd_rq_iter_data c c' :
  rq_state_fn cb g (c_in_state c) c = (ST_DATA, c') -> k_receiver_hook (c_in c') = None ->
  rq_iter cb g false c = inl (c' <| c_in_status := c_HTP_STREAM_DATA |>, c_HTP_STREAM_DATA).
Proof. intros H1 H2. unfold rq_iter. rewrite H1. unfold rq_exit, req_receiver_send_data. rewrite H2. reflexivity. Qed.


(* invariants under the bookkeeping steps *)
Lemma bd_inv_hsc i c : bd_rq_inv i c -> bd_rq_inv i (bd_hsc c).
Proof.
  intros [A B C D E F]. unfold bd_hsc.
  destruct (c_in_state_previous c) as [s|]; [destruct (req_state_eqb s (c_in_state c))|]; constructor; assumption.
Qed.
Lemma bd_inv_status i c : bd_rq_inv i c -> bd_rq_inv i (c <| c_in_status := c_HTP_STREAM_DATA |>).
Proof. intros [A B C D E F]. constructor; try assumption. reflexivity. Qed.
Lemma bd_inv_begin i d c : bd_rq_inv i c -> bd_rq_inv i (bd_req_begin d c).
Proof.
  intros [A (t & B1 & B2) C D E F]. unfold bd_req_begin. cbv zeta.
  match goal with |- context [if ?b then _ else _] => destruct b end;
    (constructor; try assumption; [exists t; split; [erewrite bd_slot_ext; [exact B1|reflexivity|reflexivity]|exact B2]|
     exists d; cbn; repeat split; lia]).
Qed.
Lemma bd_begin_rest d c : bd_rq_rest (bd_req_begin d c) = d.
Proof. unfold bd_req_begin. cbv zeta. match goal with |- context [if ?b then _ else _] => destruct b end; reflexivity. Qed.
Lemma bd_begin_clean d c : k_buf (c_in c) = None -> bd_rq_clean (bd_req_begin d c).
Proof. intros H. unfold bd_req_begin. cbv zeta. match goal with |- context [if ?b then _ else _] => destruct b end; split; cbn; auto. Qed.
Lemma bd_begin_misc d c :
  c_events (bd_req_begin d c) = c_events c /\ c_in_state (bd_req_begin d c) = c_in_state c /\
  c_in_body_data_left (bd_req_begin d c) = c_in_body_data_left c /\ c_in_chunked_length (bd_req_begin d c) = c_in_chunked_length c /\
  k_buf (c_in (bd_req_begin d c)) = k_buf (c_in c) /\ (forall i, tx_slot (bd_req_begin d c) i = tx_slot c i).
Proof.
  unfold bd_req_begin. cbv zeta. match goal with |- context [if ?b then _ else _] => destruct b end;
    repeat split; intros; apply bd_slot_ext; reflexivity.
Qed.

Lemma bd_delivered_app h a b : bd_delivered h (a ++ b) = bd_delivered h b ++ bd_delivered h a.
Proof. unfold bd_delivered, bd_evs. rewrite filter_app, rev_app_distr, map_app, concat_app. reflexivity. Qed.
Lemma bd_evs_app h a b : bd_evs h (a ++ b) = bd_evs h a ++ bd_evs h b.
Proof. apply filter_app. Qed.

Lemma bd_app_prefix {B} (a b x y : list B) : a ++ x = b ++ y -> (length a <= length b)%nat -> exists b', b = a ++ b' /\ x = b' ++ y.
Proof.
  revert b. induction a as [|h a IH]; intros b H L; [exists b; split; [reflexivity|exact H]|].
  destruct b as [|h' b]; [cbn in L; lia|]. cbn in H. inversion H; subst h'. destruct (IH b H2) as (b' & E1 & E2); [cbn in L; lia|].
  exists b'. split; [cbn; rewrite E1; reflexivity|exact E2].
Qed.

(* what one segment of the body does: reaches c' / rem', delivering `payload` and adding dmsg to request_message_len *)
Record bd_rq_seg (i : nat) (c : connp) (rem : list bytes) (c' : connp) (rem' : list bytes) (payload : bytes) (dmsg : Z) : Prop := mk_bd_rq_seg {
  sg_reach : bd_rq_reach c rem c' rem';
  sg_inv : bd_rq_inv i c';
  sg_clean : bd_rq_clean c';
  sg_rem : Forall (fun d => d <> []) rem';
  sg_events : exists evs, c_events c' = evs ++ c_events c /\ bd_delivered H_REQUEST_BODY_DATA evs = payload /\
                          bd_evs H_REQUEST_BODY_DATA evs = evs;
  sg_lens : forall t, tx_slot c i = Some t ->
            exists t', tx_slot c' i = Some t' /\
                       t_request_entity_len t' = t_request_entity_len t + Z.of_nat (length payload) /\
                       t_request_message_len t' = t_request_message_len t + dmsg
}.

Lemma bd_rq_seg_trans i c0 r0 c1 r1 c2 r2 p1 m1 p2 m2 :
  bd_rq_inv i c0 ->
  bd_rq_seg i c0 r0 c1 r1 p1 m1 -> bd_rq_seg i c1 r1 c2 r2 p2 m2 -> bd_rq_seg i c0 r0 c2 r2 (p1 ++ p2) (m1 + m2).
Proof.
  intros I0 [A1 B1 C1 D1 (e1 & E1 & F1 & G1) H1] [A2 B2 C2 D2 (e2 & E2 & F2 & G2) H2].
  constructor; auto.
  - eapply bd_rq_reach_trans; eauto.
  - exists (e2 ++ e1). split; [rewrite E2, E1; apply app_assoc|]. split; [rewrite bd_delivered_app, F1, F2; reflexivity|].
    rewrite bd_evs_app, G1, G2. reflexivity.
  - intros t Ht. destruct (H1 _ Ht) as (t1 & T1 & X1 & Y1). destruct (H2 _ T1) as (t2 & T2 & X2 & Y2).
    exists t2. split; [exact T2|]. rewrite X2, X1, Y2, Y1, app_length, Nat2Z.inj_add. split; lia.
Qed.


Lemma bd_eqv_hsc c : bd_rq_eqv c (bd_hsc c).
Proof. unfold bd_hsc. destruct (c_in_state_previous c) as [s|]; [destruct (req_state_eqb s (c_in_state c))|]; repeat split. Qed.
Lemma bd_hsc_misc c : c_in_state (bd_hsc c) = c_in_state c /\ c_in_body_data_left (bd_hsc c) = c_in_body_data_left c /\
  c_in_chunked_length (bd_hsc c) = c_in_chunked_length c.
Proof. unfold bd_hsc. destruct (c_in_state_previous c) as [s|]; [destruct (req_state_eqb s (c_in_state c))|]; repeat split. Qed.
Lemma bd_tx_lens_set t n :
  t_request_entity_len (t <| t_request_entity_len ::= Z.add n |> <| t_request_message_len ::= Z.add n |>) = n + t_request_entity_len t /\
  t_request_message_len (t <| t_request_entity_len ::= Z.add n |> <| t_request_message_len ::= Z.add n |>) = n + t_request_message_len t.
Proof. split; reflexivity. Qed.
Lemma bd_eqv_sym a b : bd_rq_eqv a b -> bd_rq_eqv b a.
Proof. unfold bd_rq_eqv. intuition congruence. Qed.


(* ================= identity body: REQ_BODY_IDENTITY fed any chunking of body ++ rest ================= *)
Lemma bd_rq_identity_finish i c body rest rem1 rest1 :
  bd_rq_inv i c -> bd_rq_clean c -> c_in_state c = REQ_BODY_IDENTITY ->
  c_in_body_data_left c = Z.of_nat (length body) -> body <> [] ->
  bd_rq_rest c = body ++ rest1 -> Forall (fun d => d <> []) rem1 -> rest1 ++ concat rem1 = rest ->
  exists c' rem', bd_rq_seg i c rem1 c' rem' body (Z.of_nat (length body)) /\ c_in_state c' = REQ_FINALIZE /\ c_in_body_data_left c' = 0 /\
                  bd_rq_rest c' ++ concat rem' = rest /\ c_in_chunked_length c' = c_in_chunked_length c.
Proof.
  intros Inv Cl Hs Hleft Hne Hsplit Hrem1 Hw1.
  assert (Hpos : 0 < c_in_body_data_left c) by (rewrite Hleft; destruct body; [congruence|cbn; lia]).
  destruct (bq_live _ _ Inv) as (t & Hl & Hh).
  destruct (bd_rq_identity_step_abs cb cb_ok i t c Inv Hl Hpos) as (_ & Hstep1). rewrite Hleft, Nat2Z.id in Hstep1.
  assert (Hdd : firstn (length body) (bd_rq_rest c) = body) by (rewrite Hsplit, firstn_app, Nat.sub_diag, firstn_all; cbn; apply app_nil_r).
  rewrite Hdd in Hstep1.
  assert (Hfn : rq_state_fn cb g (c_in_state c) c = REQ_BODY_IDENTITY_fn cb c) by (rewrite Hs; reflexivity).
  destruct (Hstep1 Hne) as (c1 & Hstep & Stp & Lf & Stt & Oth).
  rewrite Z.sub_diag in *. cbn [Z.eqb] in *.
  destruct Stp as [Inv1 R1 Cl1 Ev1 Sl1].
  destruct (bd_hsc_misc c1) as (M1 & M2 & M3).
  exists (bd_hsc c1), rem1. split; [|split; [|split; [|split]]].
  - constructor.
    + eapply bd_rr_iter; [|apply bd_rr_refl]. apply bd_rq_iter_ok; [rewrite Hfn; exact Hstep|apply (bq_status _ _ Inv1)|rewrite Stt; reflexivity].
    + eapply bd_eqv_inv; [apply bd_eqv_hsc|exact Inv1].
    + eapply bd_eqv_clean; [apply bd_eqv_hsc|exact (Cl1 Cl)].
    + exact Hrem1.
    + exists [mkev H_REQUEST_BODY_DATA i (Some body) false None]. rewrite (bd_eqv_events _ _ (bd_eqv_hsc c1)), Ev1.
      split; [reflexivity|split; [cbn; apply app_nil_r|reflexivity]].
    + intros t0 Ht0. rewrite Hl in Ht0. inversion Ht0; subst t0. eexists. split; [rewrite (bd_eqv_slot _ _ i (bd_eqv_hsc c1)); exact Sl1|].
      destruct (bd_tx_lens_set t (Z.of_nat (length body))) as (Q1 & Q2). rewrite Q1, Q2. split; lia.
  - rewrite M1. exact Stt.
  - rewrite M2. exact Lf.
  - rewrite (bd_eqv_rest _ _ (bd_eqv_hsc c1)), (R1 _ Hsplit). exact Hw1.
  - rewrite M3. exact Oth.
Qed.

Lemma bd_rq_identity_seg i : forall rem c body rest,
  bd_rq_inv i c -> bd_rq_clean c -> c_in_state c = REQ_BODY_IDENTITY ->
  c_in_body_data_left c = Z.of_nat (length body) -> body <> [] ->
  Forall (fun d => d <> []) rem ->
  bd_rq_rest c ++ concat rem = body ++ rest ->
  exists c' rem',
    bd_rq_seg i c rem c' rem' body (Z.of_nat (length body)) /\
    c_in_state c' = REQ_FINALIZE /\ c_in_body_data_left c' = 0 /\
    bd_rq_rest c' ++ concat rem' = rest /\
    c_in_chunked_length c' = c_in_chunked_length c.
Proof.
  induction rem as [|d' rem IH]; intros c body rest Inv Cl Hs Hleft Hne Hrem Hw.
  - (* last TCP chunk: the body must end inside it *)
    cbn [concat] in Hw. rewrite app_nil_r in Hw.
    apply (bd_rq_identity_finish i c body rest [] rest); auto. apply app_nil_r.
  - assert (Hpos : 0 < c_in_body_data_left c) by (rewrite Hleft; destruct body; [congruence|cbn; lia]).
    destruct (bq_live _ _ Inv) as (t & Hl & Hh).
    destruct (bd_rq_identity_step_abs cb cb_ok i t c Inv Hl Hpos) as (Hstep0 & Hstep1); rewrite Hleft, Nat2Z.id in Hstep0, Hstep1.
    set (dd := firstn (length body) (bd_rq_rest c)) in *.
    assert (Hfn : rq_state_fn cb g (c_in_state c) c = REQ_BODY_IDENTITY_fn cb c) by (rewrite Hs; reflexivity).
    inversion Hrem as [|? ? Hd' Hrem']; subst.
    destruct (Nat.le_gt_cases (length body) (length (bd_rq_rest c))) as [Hle|Hgt].
    + (* the body ends inside the current chunk *)
      assert (Hdd : dd = body).
      { subst dd. assert (firstn (length body) (bd_rq_rest c ++ concat (d' :: rem)) = firstn (length body) (body ++ rest)) by (rewrite Hw; reflexivity).
        rewrite firstn_app in H. replace (length body - length (bd_rq_rest c))%nat with 0%nat in H by lia. cbn [firstn] in H. rewrite app_nil_r in H.
        rewrite H, firstn_app, Nat.sub_diag, firstn_all. cbn. apply app_nil_r. }
      assert (Hsplit : bd_rq_rest c = body ++ skipn (length body) (bd_rq_rest c)).
      { rewrite <- Hdd at 1. subst dd. symmetry. apply firstn_skipn. }
      apply (bd_rq_identity_finish i c body rest (d' :: rem) _ Inv Cl Hs Hleft Hne Hsplit Hrem).
      rewrite Hsplit in Hw at 1. rewrite <- app_assoc in Hw. apply app_inv_head in Hw. exact Hw.
    + (* the whole rest of the chunk belongs to the body; more follows in the next call *)
      assert (Hdd : dd = bd_rq_rest c) by (subst dd; apply firstn_all2; lia).
      destruct (bd_app_prefix (bd_rq_rest c) body (concat (d' :: rem)) rest Hw) as (body' & Hb & Hw'); [lia|].
      assert (Hb'ne : body' <> []) by (intros ->; rewrite app_nil_r in Hb; rewrite Hb in Hgt; lia).
      destruct (bd_rq_rest c) as [|r0 rr] eqn:Er.
      * (* nothing left in this chunk *)
        specialize (Hstep0 Hdd). clear Hstep1.
        set (c1 := bd_req_begin d' (c <| c_in_status := c_HTP_STREAM_DATA |>)).
        destruct (bd_begin_misc d' (c <| c_in_status := c_HTP_STREAM_DATA |>)) as (Ev & St & L1 & L2 & Bf & Sl).
        destruct (IH c1 body rest) as (c' & rem' & Seg & S' & F' & W' & O'); auto.
        { apply bd_inv_begin. apply bd_inv_status. exact Inv. }
        { apply bd_begin_clean. apply Cl. }
        { unfold c1. rewrite St. exact Hs. }
        { unfold c1. rewrite L1. exact Hleft. }
        { unfold c1. rewrite bd_begin_rest. exact Hw. }
        exists c', rem'. split; [|split; [exact S'|split; [exact F'|split; [exact W'|]]]].
        { destruct Seg as [A B C D (evs & E1 & E2 & E3) H]. constructor; auto.
          - eapply bd_rr_next; [|exact A]. apply bd_rq_iter_data; [rewrite Hfn; exact Hstep0|apply (bq_rcv _ _ Inv)].
          - exists evs. split; [rewrite E1; unfold c1; rewrite Ev; reflexivity|split; assumption].
          - intros t0 Ht0. apply H. unfold c1. rewrite Sl. erewrite bd_slot_ext; [exact Ht0|reflexivity|reflexivity]. }
        { rewrite O'. unfold c1. rewrite L2. reflexivity. }
      * (* deliver the rest of the chunk, then the next call *)
        clear Hstep0. destruct Hstep1 as (cd & Hstep & Stp & Lf & Stt & Oth); [rewrite Hdd; discriminate|].
        rewrite Hdd in *. set (rc := r0 :: rr) in *.
        assert (Hlt : Z.of_nat (length body) - Z.of_nat (length rc) =? 0 = false) by (apply Z.eqb_neq; lia).
        rewrite Hlt in Hstep, Stt.
        destruct Stp as [Invd Rd Cld Evd Sld].
        set (c1 := bd_req_begin d' (cd <| c_in_status := c_HTP_STREAM_DATA |>)).
        destruct (bd_begin_misc d' (cd <| c_in_status := c_HTP_STREAM_DATA |>)) as (Ev & St & L1 & L2 & Bf & Sl).
        destruct (IH c1 body' rest) as (c' & rem' & Seg & S' & F' & W' & O'); auto.
        { apply bd_inv_begin. apply bd_inv_status. exact Invd. }
        { apply bd_begin_clean. apply (Cld Cl). }
        { unfold c1. rewrite St. cbn. rewrite Stt. exact Hs. }
        { unfold c1. rewrite L1. cbn. rewrite Lf. rewrite Hb at 1. rewrite app_length. lia. }
        { unfold c1. rewrite bd_begin_rest. exact Hw'. }
        exists c', rem'. split; [|split; [exact S'|split; [exact F'|split; [exact W'|]]]].
        { destruct Seg as [A B C D (evs & E1 & E2 & E3) H].
          assert (Hsl : tx_slot c1 i = Some (t <| t_request_entity_len ::= Z.add (Z.of_nat (length rc)) |>
                                               <| t_request_message_len ::= Z.add (Z.of_nat (length rc)) |>)).
          { unfold c1. rewrite Sl. erewrite bd_slot_ext; [exact Sld|reflexivity|reflexivity]. }
          constructor; auto.
          - eapply bd_rr_next; [|exact A]. apply bd_rq_iter_data; [rewrite Hfn; exact Hstep|apply (bq_rcv _ _ Invd)].
          - exists (evs ++ [mkev H_REQUEST_BODY_DATA i (Some rc) false None]).
            split; [rewrite E1; unfold c1; rewrite Ev; cbn; rewrite Evd, <- app_assoc; reflexivity|].
            split; [rewrite bd_delivered_app, E2; cbn; rewrite app_nil_r; symmetry; exact Hb|].
            rewrite bd_evs_app, E3. reflexivity.
          - intros t0 Ht0. rewrite Hl in Ht0. inversion Ht0; subst t0.
            destruct (H _ Hsl) as (t' & T1 & T2 & T3). exists t'. split; [exact T1|]. rewrite T2, T3.
            destruct (bd_tx_lens_set t (Z.of_nat (length rc))) as (Q1 & Q2). rewrite Q1, Q2.
            assert (HL : length body = (length rc + length body')%nat) by (rewrite Hb at 1; apply app_length).
            rewrite HL, Nat2Z.inj_add. split; lia. }
        { rewrite O'. unfold c1. rewrite L2. cbn. rewrite Oth. reflexivity. }
Qed.

(* ================= chunk data: REQ_BODY_CHUNKED_DATA fed any chunking of body ++ rest ================= *)
Lemma bd_rq_chunkdata_finish i c body rest rem1 rest1 :
  bd_rq_inv i c -> bd_rq_clean c -> c_in_state c = REQ_BODY_CHUNKED_DATA ->
  c_in_chunked_length c = Z.of_nat (length body) -> body <> [] ->
  bd_rq_rest c = body ++ rest1 -> Forall (fun d => d <> []) rem1 -> rest1 ++ concat rem1 = rest ->
  exists c' rem', bd_rq_seg i c rem1 c' rem' body (Z.of_nat (length body)) /\ c_in_state c' = REQ_BODY_CHUNKED_DATA_END /\ c_in_chunked_length c' = 0 /\
                  bd_rq_rest c' ++ concat rem' = rest /\ c_in_body_data_left c' = c_in_body_data_left c.
Proof.
  intros Inv Cl Hs Hleft Hne Hsplit Hrem1 Hw1.
  assert (Hpos : 0 < c_in_chunked_length c) by (rewrite Hleft; destruct body; [congruence|cbn; lia]).
  destruct (bq_live _ _ Inv) as (t & Hl & Hh).
  destruct (bd_rq_chunked_data_step_abs cb cb_ok i t c Inv Hl Hpos) as (_ & Hstep1). rewrite Hleft, Nat2Z.id in Hstep1.
  assert (Hdd : firstn (length body) (bd_rq_rest c) = body) by (rewrite Hsplit, firstn_app, Nat.sub_diag, firstn_all; cbn; apply app_nil_r).
  rewrite Hdd in Hstep1.
  assert (Hfn : rq_state_fn cb g (c_in_state c) c = REQ_BODY_CHUNKED_DATA_fn cb c) by (rewrite Hs; reflexivity).
  destruct (Hstep1 Hne) as (c1 & Hstep & Stp & Lf & Stt & Oth).
  rewrite Z.sub_diag in *. cbn [Z.eqb] in *.
  destruct Stp as [Inv1 R1 Cl1 Ev1 Sl1].
  destruct (bd_hsc_misc c1) as (M1 & M2 & M3).
  exists (bd_hsc c1), rem1. split; [|split; [|split; [|split]]].
  - constructor.
    + eapply bd_rr_iter; [|apply bd_rr_refl]. apply bd_rq_iter_ok; [rewrite Hfn; exact Hstep|apply (bq_status _ _ Inv1)|rewrite Stt; reflexivity].
    + eapply bd_eqv_inv; [apply bd_eqv_hsc|exact Inv1].
    + eapply bd_eqv_clean; [apply bd_eqv_hsc|exact (Cl1 Cl)].
    + exact Hrem1.
    + exists [mkev H_REQUEST_BODY_DATA i (Some body) false None]. rewrite (bd_eqv_events _ _ (bd_eqv_hsc c1)), Ev1.
      split; [reflexivity|split; [cbn; apply app_nil_r|reflexivity]].
    + intros t0 Ht0. rewrite Hl in Ht0. inversion Ht0; subst t0. eexists. split; [rewrite (bd_eqv_slot _ _ i (bd_eqv_hsc c1)); exact Sl1|].
      destruct (bd_tx_lens_set t (Z.of_nat (length body))) as (Q1 & Q2). rewrite Q1, Q2. split; lia.
  - rewrite M1. exact Stt.
  - rewrite M3. exact Lf.
  - rewrite (bd_eqv_rest _ _ (bd_eqv_hsc c1)), (R1 _ Hsplit). exact Hw1.
  - rewrite M2. exact Oth.
Qed.

Lemma bd_rq_chunkdata_seg i : forall rem c body rest,
  bd_rq_inv i c -> bd_rq_clean c -> c_in_state c = REQ_BODY_CHUNKED_DATA ->
  c_in_chunked_length c = Z.of_nat (length body) -> body <> [] ->
  Forall (fun d => d <> []) rem ->
  bd_rq_rest c ++ concat rem = body ++ rest ->
  exists c' rem',
    bd_rq_seg i c rem c' rem' body (Z.of_nat (length body)) /\
    c_in_state c' = REQ_BODY_CHUNKED_DATA_END /\ c_in_chunked_length c' = 0 /\
    bd_rq_rest c' ++ concat rem' = rest /\
    c_in_body_data_left c' = c_in_body_data_left c.
Proof.
  induction rem as [|d' rem IH]; intros c body rest Inv Cl Hs Hleft Hne Hrem Hw.
  - (* last TCP chunk: the body must end inside it *)
    cbn [concat] in Hw. rewrite app_nil_r in Hw.
    apply (bd_rq_chunkdata_finish i c body rest [] rest); auto. apply app_nil_r.
  - assert (Hpos : 0 < c_in_chunked_length c) by (rewrite Hleft; destruct body; [congruence|cbn; lia]).
    destruct (bq_live _ _ Inv) as (t & Hl & Hh).
    destruct (bd_rq_chunked_data_step_abs cb cb_ok i t c Inv Hl Hpos) as (Hstep0 & Hstep1); rewrite Hleft, Nat2Z.id in Hstep0, Hstep1.
    set (dd := firstn (length body) (bd_rq_rest c)) in *.
    assert (Hfn : rq_state_fn cb g (c_in_state c) c = REQ_BODY_CHUNKED_DATA_fn cb c) by (rewrite Hs; reflexivity).
    inversion Hrem as [|? ? Hd' Hrem']; subst.
    destruct (Nat.le_gt_cases (length body) (length (bd_rq_rest c))) as [Hle|Hgt].
    + (* the body ends inside the current chunk *)
      assert (Hdd : dd = body).
      { subst dd. assert (firstn (length body) (bd_rq_rest c ++ concat (d' :: rem)) = firstn (length body) (body ++ rest)) by (rewrite Hw; reflexivity).
        rewrite firstn_app in H. replace (length body - length (bd_rq_rest c))%nat with 0%nat in H by lia. cbn [firstn] in H. rewrite app_nil_r in H.
        rewrite H, firstn_app, Nat.sub_diag, firstn_all. cbn. apply app_nil_r. }
      assert (Hsplit : bd_rq_rest c = body ++ skipn (length body) (bd_rq_rest c)).
      { rewrite <- Hdd at 1. subst dd. symmetry. apply firstn_skipn. }
      apply (bd_rq_chunkdata_finish i c body rest (d' :: rem) _ Inv Cl Hs Hleft Hne Hsplit Hrem).
      rewrite Hsplit in Hw at 1. rewrite <- app_assoc in Hw. apply app_inv_head in Hw. exact Hw.
    + (* the whole rest of the chunk belongs to the body; more follows in the next call *)
      assert (Hdd : dd = bd_rq_rest c) by (subst dd; apply firstn_all2; lia).
      destruct (bd_app_prefix (bd_rq_rest c) body (concat (d' :: rem)) rest Hw) as (body' & Hb & Hw'); [lia|].
      assert (Hb'ne : body' <> []) by (intros ->; rewrite app_nil_r in Hb; rewrite Hb in Hgt; lia).
      destruct (bd_rq_rest c) as [|r0 rr] eqn:Er.
      * (* nothing left in this chunk *)
        specialize (Hstep0 Hdd). clear Hstep1.
        set (c1 := bd_req_begin d' (c <| c_in_status := c_HTP_STREAM_DATA |>)).
        destruct (bd_begin_misc d' (c <| c_in_status := c_HTP_STREAM_DATA |>)) as (Ev & St & L1 & L2 & Bf & Sl).
        destruct (IH c1 body rest) as (c' & rem' & Seg & S' & F' & W' & O'); auto.
        { apply bd_inv_begin. apply bd_inv_status. exact Inv. }
        { apply bd_begin_clean. apply Cl. }
        { unfold c1. rewrite St. exact Hs. }
        { unfold c1. rewrite L2. exact Hleft. }
        { unfold c1. rewrite bd_begin_rest. exact Hw. }
        exists c', rem'. split; [|split; [exact S'|split; [exact F'|split; [exact W'|]]]].
        { destruct Seg as [A B C D (evs & E1 & E2 & E3) H]. constructor; auto.
          - eapply bd_rr_next; [|exact A]. apply bd_rq_iter_data; [rewrite Hfn; exact Hstep0|apply (bq_rcv _ _ Inv)].
          - exists evs. split; [rewrite E1; unfold c1; rewrite Ev; reflexivity|split; assumption].
          - intros t0 Ht0. apply H. unfold c1. rewrite Sl. erewrite bd_slot_ext; [exact Ht0|reflexivity|reflexivity]. }
        { rewrite O'. unfold c1. rewrite L1. reflexivity. }
      * (* deliver the rest of the chunk, then the next call *)
        clear Hstep0. destruct Hstep1 as (cd & Hstep & Stp & Lf & Stt & Oth); [rewrite Hdd; discriminate|].
        rewrite Hdd in *. set (rc := r0 :: rr) in *.
        assert (Hlt : Z.of_nat (length body) - Z.of_nat (length rc) =? 0 = false) by (apply Z.eqb_neq; lia).
        rewrite Hlt in Hstep, Stt.
        destruct Stp as [Invd Rd Cld Evd Sld].
        set (c1 := bd_req_begin d' (cd <| c_in_status := c_HTP_STREAM_DATA |>)).
        destruct (bd_begin_misc d' (cd <| c_in_status := c_HTP_STREAM_DATA |>)) as (Ev & St & L1 & L2 & Bf & Sl).
        destruct (IH c1 body' rest) as (c' & rem' & Seg & S' & F' & W' & O'); auto.
        { apply bd_inv_begin. apply bd_inv_status. exact Invd. }
        { apply bd_begin_clean. apply (Cld Cl). }
        { unfold c1. rewrite St. cbn. rewrite Stt. exact Hs. }
        { unfold c1. rewrite L2. cbn. rewrite Lf. rewrite Hb at 1. rewrite app_length. lia. }
        { unfold c1. rewrite bd_begin_rest. exact Hw'. }
        exists c', rem'. split; [|split; [exact S'|split; [exact F'|split; [exact W'|]]]].
        { destruct Seg as [A B C D (evs & E1 & E2 & E3) H].
          assert (Hsl : tx_slot c1 i = Some (t <| t_request_entity_len ::= Z.add (Z.of_nat (length rc)) |>
                                               <| t_request_message_len ::= Z.add (Z.of_nat (length rc)) |>)).
          { unfold c1. rewrite Sl. erewrite bd_slot_ext; [exact Sld|reflexivity|reflexivity]. }
          constructor; auto.
          - eapply bd_rr_next; [|exact A]. apply bd_rq_iter_data; [rewrite Hfn; exact Hstep|apply (bq_rcv _ _ Invd)].
          - exists (evs ++ [mkev H_REQUEST_BODY_DATA i (Some rc) false None]).
            split; [rewrite E1; unfold c1; rewrite Ev; cbn; rewrite Evd, <- app_assoc; reflexivity|].
            split; [rewrite bd_delivered_app, E2; cbn; rewrite app_nil_r; symmetry; exact Hb|].
            rewrite bd_evs_app, E3. reflexivity.
          - intros t0 Ht0. rewrite Hl in Ht0. inversion Ht0; subst t0.
            destruct (H _ Hsl) as (t' & T1 & T2 & T3). exists t'. split; [exact T1|]. rewrite T2, T3.
            destruct (bd_tx_lens_set t (Z.of_nat (length rc))) as (Q1 & Q2). rewrite Q1, Q2.
            assert (HL : length body = (length rc + length body')%nat) by (rewrite Hb at 1; apply app_length).
            rewrite HL, Nat2Z.inj_add. split; lia. }
        { rewrite O'. unfold c1. rewrite L1. cbn. rewrite Oth. reflexivity. }
Qed.
End Req.
