(* C14 (d): exactness on the encoder image, for the array-level parser (Model/MMultipart.v), whole and chunked.
   Route: Proof/PMultipartExactRef.v proves it for the byte-at-a-time reference semantics (mp_aref_exact); the chunking
   theorem of Proof/PMultipartRef.v (fold_sim / mp_chunking_reference) transports it to every chunked delivery.
   Of the premises of the chunking theorem only mp_no_cr_hazardb (known finding K1) stays: mp_bnd_okb is part of
   mp_wfb, mp_body_okb (K3, K4) and mp_tail_okb (K2) are proved here for encoder images. *)
Require Import Htp.Model.Base Htp.Model.MBstr Htp.Model.MMultipart Htp.Spec.SMultipart.
Require Import Htp.Proof.PMultipartHd Htp.Proof.PMultipartSafe Htp.Proof.PMultipart Htp.Proof.PMultipartRef.
Require Import Htp.Proof.PMultipartExactHd Htp.Proof.PMultipartExactRef.

(* ------------------------------------------------------------------ premises of the chunking theorem, discharged *)
Lemma mp_encode_body_ok b parts : mp_wfb b parts = true -> mp_body_okb b 0 (mp_encode b parts) = true.
Proof. intros H. exact (proj1 (mp_aref_exact b parts H)). Qed.

Lemma mp_wfb_bnd_ok b parts : mp_wfb b parts = true -> mp_bnd_okb b = true.
Proof. unfold mp_wfb. intros H. apply andb_true_iff in H. tauto. Qed.

Lemma mp_encode_tail_ok b parts chunks :
  mp_wfb b parts = true -> concat chunks = mp_encode b parts -> mp_no_cr_hazardb b 0 chunks = true ->
  mp_tail_okb (fold_left mp_parse chunks (mp_init_flags b 0)) = true.
Proof.
  intros H Hc Hcr. pose proof H as H0. unfold mp_wfb in H0. apply andb_true_iff in H0. destruct H0 as [Hb Hok].
  destruct (mpx_ref_run b Hb parts Hok) as (plF & E & _ & _).
  assert (HokA : ma_ok (fold_left mp_astep (concat chunks) (mp_ainit b 0)) = true) by (rewrite Hc, E; reflexivity).
  destruct (fold_sim chunks (mp_init_flags b 0) (mp_ainit b 0) (init_inv' b 0) (init_R b 0 Hb) Hcr HokA) as [_ [_ HR]].
  rewrite Hc, E in HR. unfold mp_tail_okb.
  destruct HR as [crp reg H1 H2 _ _ _ _ _|held k d eol _ H2|H1 _ _ _ _ _].
  - rewrite H2. destruct (mpl_cur _); reflexivity.
  - discriminate H2.
  - cbn [ma_m] in H1. destruct (mps_state _); contradiction.
Qed.

Lemma mp_single_no_hazard b f body : mp_no_cr_hazardb b f [body] = true.
Proof. reflexivity. Qed.

(* ------------------------------------------------------------------ from observations to reports *)
Definition mpx_rep_of (o : mp_pobs) : mp_ptype * option bytes * option bytes * option bytes * bytes :=
  let '(t, n, f, c, _, v, d) := o in
  (t, n, f, c, match t with MpFile => d | _ => match v with Some x => x | None => [] end end).

Lemma mpx_report_obs l : map mp_report l = map mpx_rep_of (map mp_part_obs l).
Proof. rewrite map_map. apply map_ext. intros p. reflexivity. Qed.

(* ------------------------------------------------------------------ C14 in full for well-formed forms *)
(* every chunked delivery of the encoding of a well-formed form reports exactly the encoded parts *)
Theorem mp_exact_chunked : forall b parts chunks,
  mp_wfb b parts = true -> concat chunks = mp_encode b parts -> mp_no_cr_hazardb b 0 chunks = true ->
  map mp_report (mp_parts (mp_finalize (fold_left mp_parse chunks (mp_init b)))) = map mp_expect parts /\
  mps_fault (mp_finalize (fold_left mp_parse chunks (mp_init b))) = false.
Proof.
  intros b parts chunks H Hc Hcr.
  pose proof (mp_chunking_reference b 0 chunks (mp_wfb_bnd_ok b parts H)) as HR.
  rewrite Hc in HR. specialize (HR (mp_encode_body_ok b parts H) Hcr (mp_encode_tail_ok b parts chunks H Hc Hcr)).
  change (mp_init b) with (mp_init_flags b 0).
  unfold mp_obs, mp_aobs in HR. injection HR as Hparts _ Hfault.
  split; [|exact Hfault].
  rewrite mpx_report_obs, Hparts, <- mpx_report_obs. exact (proj2 (mp_aref_exact b parts H)).
Qed.

(* the whole body in one call: no premise beyond well-formedness *)
Theorem mp_exact_whole : forall b parts, mp_wfb b parts = true ->
  map mp_report (mp_parts (mp_finalize (mp_parse (mp_init b) (mp_encode b parts)))) = map mp_expect parts.
Proof.
  intros b parts H.
  exact (proj1 (mp_exact_chunked b parts [mp_encode b parts] H (app_nil_r _) (mp_single_no_hazard b 0 _))).
Qed.

(* ------------------------------------------------------------------ text parts become parameters *)
Definition mp_expect_params (parts : list mp_epart) : list (option bytes * bytes) :=
  flat_map (fun e => match e with MpeText n v => [(Some n, v)] | _ => [] end) parts.
Definition mp_params_norm (s : mp_state) : list (option bytes * bytes) :=
  map (fun nv => (fst nv, match snd nv with Some x => x | None => [] end)) (mp_params s).

Definition mpx_par_of (r : mp_ptype * option bytes * option bytes * option bytes * bytes) : list (option bytes * bytes) :=
  let '(t, n, _, _, d) := r in match t with MpText => [(n, d)] | _ => [] end.

Lemma mpx_params_reports s : mp_params_norm s = flat_map mpx_par_of (map mp_report (mp_parts s)).
Proof.
  unfold mp_params_norm, mp_params. induction (mp_parts s) as [|p l IH]; [reflexivity|].
  cbn [filter map flat_map]. unfold mp_report at 1, mpx_par_of at 1.
  destruct (mpp_type p); cbn [map app]; rewrite IH; reflexivity.
Qed.
Lemma mpx_params_expect parts : mp_expect_params parts = flat_map mpx_par_of (map mp_expect parts).
Proof. unfold mp_expect_params. induction parts as [|e l IH]; [reflexivity|]. cbn [map flat_map]. rewrite IH. destruct e; reflexivity. Qed.

Theorem mp_exact_params : forall b parts chunks,
  mp_wfb b parts = true -> concat chunks = mp_encode b parts -> mp_no_cr_hazardb b 0 chunks = true ->
  mp_params_norm (mp_finalize (fold_left mp_parse chunks (mp_init b))) = mp_expect_params parts.
Proof.
  intros b parts chunks H Hc Hcr. rewrite mpx_params_reports, mpx_params_expect.
  rewrite (proj1 (mp_exact_chunked b parts chunks H Hc Hcr)). reflexivity.
Qed.

(* non-vacuity: a name with a quote and a backslash, a value with an inner CR, file data that contains CR LF and the
   delimiter minus its last byte, a content type; delivered whole, cut in two, and byte by byte (premise holds) *)
Definition mpx_ex_b : bytes := [66; 120]%N.
Definition mpx_ex_parts : list mp_epart :=
  [MpeText [97; 34; 92; 98]%N [118; 13; 120]%N;
   MpeFile [102]%N [92]%N (Some [84; 47; 80]%N) [0; 255; 10; 45; 45; 13; 10; 45; 45; 66]%N;
   MpeText [] []].
Definition mpx_bytewise (body : bytes) : list bytes := map (fun c => [c]) body.
Example mp_exact_nonvacuous :
  mp_wfb mpx_ex_b mpx_ex_parts = true /\
  mp_no_cr_hazardb mpx_ex_b 0 (mpx_bytewise (mp_encode mpx_ex_b mpx_ex_parts)) = true /\
  mp_no_cr_hazardb mpx_ex_b 0 [firstn 100 (mp_encode mpx_ex_b mpx_ex_parts); skipn 100 (mp_encode mpx_ex_b mpx_ex_parts)] = true.
Proof. vm_compute. repeat split. Qed.

(* the remaining premise is necessary (known finding K1 inside the encoder image): file data "a CR" delivered byte by
   byte is reported as "a" *)
Definition mpx_k1_parts : list mp_epart := [MpeFile [102]%N [103]%N None [97; 13]%N].
Lemma mp_exact_chunked_needs_no_cr_hazard :
  mp_wfb mpx_ex_b mpx_k1_parts = true /\
  concat (mpx_bytewise (mp_encode mpx_ex_b mpx_k1_parts)) = mp_encode mpx_ex_b mpx_k1_parts /\
  mp_no_cr_hazardb mpx_ex_b 0 (mpx_bytewise (mp_encode mpx_ex_b mpx_k1_parts)) = false /\
  map mp_report (mp_parts (mp_finalize (fold_left mp_parse (mpx_bytewise (mp_encode mpx_ex_b mpx_k1_parts)) (mp_init mpx_ex_b)))) =
    [(MpFile, Some [102%N], Some [103%N], None, [97%N])] /\
  map mp_expect mpx_k1_parts = [(MpFile, Some [102%N], Some [103%N], None, [97%N; 13%N])].
Proof. vm_compute. repeat split. Qed.

(* ==================================================================== FINAL THEOREMS (re-export in Props/Properties_C14.v)
   mp_exact_whole   = C14_exact_full (Properties_C14.v), verbatim
   mp_exact_chunked = the same for every chunking without the K1 hazard, plus "no fault"
   mp_exact_params  = text parts become parameters with the same names and values
   mp_aref_exact (PMultipartExactRef.v), mp_encode_body_ok, mp_encode_tail_ok: the premises K3/K4, K2 hold on encoder images *)
Print Assumptions mp_aref_exact.
Print Assumptions mp_encode_body_ok.
Print Assumptions mp_encode_tail_ok.
Print Assumptions mp_exact_whole.
Print Assumptions mp_exact_chunked.
Print Assumptions mp_exact_params.
