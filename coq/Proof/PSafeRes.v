(* C01, model level, response side: htp_connp_res_data keeps the invariant of PSafe and does not set c_fault.
   Structure:
     1. OW: geometry of the response cursor (read / consume / receiver offsets, the RES_BODY_CHUNKED_LENGTH un-read);
     2. SE: the invariant of the loop (PSafe.TI, PReq.rq_inv, the request receiver clean: premise (b));
     3. the byte macros; 4. state changes and the transaction layer; 5. the ten states; 6. the loop and the entry point. *)
Require Import Htp.Model.MConnTypes Htp.Model.MTxCommon Htp.Model.MBstr Htp.Model.MResLine Htp.Model.MTxRes Htp.Model.MRes.
Require Import Htp.Model.MReq.
Require Import Htp.Proof.PReq Htp.Proof.PSafe.
Local Open Scope Z_scope.
Local Arguments Nat.ltb : simpl never.
Local Arguments Nat.leb : simpl never.
Local Arguments Nat.eqb : simpl never.
Local Arguments Nat.sub : simpl never.
Local Arguments Nat.add : simpl never.

(* ------------------------------------------------------------------------------------------------ *)
(* 1. the response cursor *)

(* the states in which the response receiver can be armed *)
Definition armed_state (s : res_state) : Prop :=
  s = RES_LINE \/ s = RES_HEADERS \/ s = RES_BODY_DETERMINE \/ s = RES_FINALIZE.

(* geometry of out_current_data / offsets. gap = the call is a gap (NULL chunk with a length) *)
Record OW (gap : bool) (c : connp) : Prop := mkOW {
  ow_rd : (k_read (c_out c) <= k_len (c_out c))%nat;
  ow_data : match k_data (c_out c) with
            | Some d => (k_len (c_out c) <= length d)%nat
            | None => gap = true \/ k_len (c_out c) = O
            end;
  (* the consume offset is behind the read offset, except after RES_BODY_CHUNKED_LENGTH un-read a line *)
  ow_cons : (c_out_state c = RES_BODY_IDENTITY_STREAM_CLOSE /\ k_len (c_out c) <> O) \/ (k_consume (c_out c) <= k_read (c_out c))%nat;
  ow_rcv : armed (c_out c) -> (k_receiver (c_out c) <= k_read (c_out c))%nat;
  ow_gap : gap = true -> k_len (c_out c) <> O /\ k_data (c_out c) = None /\ (armed (c_out c) -> k_read (c_out c) = O);
  ow_closed : c_out_status c = c_HTP_STREAM_CLOSED -> k_len (c_out c) = O
}.

(* the response receiver can be flushed *)
Definition sendok_out (c : connp) : Prop :=
  armed (c_out c) ->
  (c_out_tx c <> None /\ olive c (c_out_tx c)) /\
  (k_receiver (c_out c) <= k_read (c_out c))%nat /\
  match k_data (c_out c) with
  | Some d => (k_read (c_out c) <= length d)%nat
  | None => k_read (c_out c) = O
  end.

Lemma OW_sendok gap c : OW gap c -> TIout c -> sendok_out c.
Proof.
  intros [W1 W2 W3 W4 W5 W6] To U. destruct (ti_out_armed c To U) as [N _]. pose proof (W4 U) as R1.
  split; [split; [exact N|exact (ti_out_live c To)]|]. split; [exact R1|].
  destruct (k_data (c_out c)) as [d|] eqn:Ed; [lia|].
  destruct W2 as [G|L]; [exact (proj2 (proj2 (W5 G)) U)|lia].
Qed.

Section ResLayer.
Variable cb : cb_oracle.
Variable g : cfg.
Hypothesis cb_nodestroy : forall h n, cb h n <> CB_DESTROY_TX.

Lemma res_receiver_send_data_safe l c :
  c_fault c = false -> sendok_out c ->
  c_fault (snd (res_receiver_send_data cb l c)) = false /\ fr c (snd (res_receiver_send_data cb l c)).
Proof.
  intros F K. unfold res_receiver_send_data.
  destruct (k_receiver_hook (c_out c)) as [h|] eqn:Eh; [|split; [exact F|apply fr_refl]].
  assert (A : armed (c_out c)) by (unfold armed; congruence).
  destruct (K A) as ((Hn & L) & R1 & K3).
  replace (k_read (c_out c) <? k_receiver (c_out c))%nat with false by (symmetry; apply Nat.ltb_ge; exact R1).
  assert (Hv : (match cur_slice (c_out c) (k_receiver (c_out c)) (k_read (c_out c)) with Some s => length s | None => O end
                <? k_read (c_out c) - k_receiver (c_out c))%nat = false).
  { apply Nat.ltb_ge. unfold cur_slice. destruct (k_data (c_out c)) as [d|]; [rewrite firstn_length, skipn_length; lia|lia]. }
  rewrite Hv. cbv beta iota zeta.
  assert (Hd : match k_data (c_out c) with None => if (0 <? k_receiver (c_out c))%nat then c <| c_fault := true |> else c | Some _ => c end = c).
  { destruct (k_data (c_out c)); [reflexivity|]. replace (0 <? k_receiver (c_out c))%nat with false by (symmetry; apply Nat.ltb_ge; lia). reflexivity. }
  rewrite Hd. destruct (c_out_tx c) as [i|] eqn:Ei; [|exfalso; apply Hn; reflexivity]. cbn in L. cbv beta iota zeta. unfold out_txi. rewrite Ei.
  pose proof (run_data_hook_fr cb cb_nodestroy h i (cur_slice (c_out c) (k_receiver (c_out c)) (k_read (c_out c))) l c L) as R'.
  destruct (run_data_hook cb h i (cur_slice (c_out c) (k_receiver (c_out c)) (k_read (c_out c))) l c) as [rc c1]. cbn [snd] in R'.
  pose proof (frR_fault _ _ _ R') as Ff.
  destruct rc; cbn [snd]; try (split; [congruence|exact R']).
  split; [unfold rs_set_out; cbn; congruence|]. eapply fr_trans; [exact R'|].
  unfold frR, skel, ptrs, hook_in, hook_out, rc_le, cur_core, rs_set_out. cbn. repeat split; try apply hk_le_refl; try (left; reflexivity).
  - apply txs_rel_of_eq; [apply tx_le_pre|reflexivity|reflexivity].
  - right. reflexivity.
Qed.

Lemma res_receiver_finalize_clear_safe c :
  c_fault c = false -> sendok_out c ->
  let r := res_receiver_finalize_clear cb c in
  c_fault (snd r) = false /\ fr c (snd r) /\ hook_out (snd r) = None.
Proof.
  intros F K. cbv zeta. unfold res_receiver_finalize_clear.
  destruct (k_receiver_hook (c_out c)) eqn:Eh; [|split; [exact F|split; [apply fr_refl|exact Eh]]].
  destruct (res_receiver_send_data_safe true c F K) as [F1 R1].
  destruct (res_receiver_send_data cb true c) as [rc c1]. cbn [snd] in *.
  split; [exact F1|split; [|reflexivity]]. eapply fr_trans; [exact R1|].
  unfold frR, skel, ptrs, hook_in, hook_out, rc_le, cur_core, hk_le, rs_set_out. cbn. repeat split; try tauto.
  apply txs_rel_of_eq; [apply tx_le_pre|reflexivity|reflexivity].
Qed.
End ResLayer.

(* ------------------------------------------------------------------------------------------------ *)
(* 2. the invariant of htp_connp_res_data's loop *)

(* the request receiver has nothing unsent that lies in a chunk the caller may have released (premise (b));
   during a response call the request cursor is frozen, so this is kept for free *)
Definition in_clean (c : connp) : Prop := armed (c_in c) -> bytes_ok (c_in c).

Record SE (gap : bool) (c : connp) : Prop := mkSE {
  se_fault : c_fault c = false;
  se_ow : OW gap c;
  se_ti : TI c;
  se_rq : rq_inv c;
  se_in : in_clean c;
  se_otx : c_out_state c <> RES_IDLE -> c_out_tx c <> None;
  se_in_nc : c_in_status c <> c_HTP_STREAM_CLOSED          (* the request stream is only CLOSED inside htp_connp_close *)
}.

Lemma SE_sendok_in gap c : SE gap c -> sendok_in c.
Proof.
  intros [A1 A2 [Ti To] A4 A5 A6 A7] U. destruct (ti_in_armed c Ti U) as [N _].
  split; [split; [exact N|exact (ti_in_live c Ti)]|exact (A5 U)].
Qed.
Lemma SE_sendok_out gap c : SE gap c -> sendok_out c.
Proof. intros [A1 A2 [Ti To] A4 A5 A6 A7]. eapply OW_sendok; eassumption. Qed.

(* the part of the skeleton OW reads *)
Definition ogeo (c : connp) := (cur_core (c_out c), c_out_state c, c_out_status c).
Lemma skel_ogeo a b : skel a = skel b -> ogeo a = ogeo b.
Proof. unfold skel, ogeo. intros H. congruence. Qed.
Lemma OW_frame gap c c' :
  OW gap c -> ogeo c' = ogeo c -> hk_le (hook_out c) (hook_out c') -> rc_le (c_out c) (c_out c') -> OW gap c'.
Proof.
  intros [W1 W2 W3 W4 W5 W6] G Hh Hr. unfold ogeo, cur_core in G. injection G as G1 G2 G3 G4 G5 G6 G7 G8 G9.
  assert (Ua : armed (c_out c') -> armed (c_out c)) by (unfold armed, hook_out in *; destruct Hh as [Q|Q]; congruence).
  constructor; rewrite ?G1, ?G2, ?G3, ?G4, ?G8, ?G9; try assumption.
  - intros U. pose proof (W4 (Ua U)) as R1.
    destruct Hr as [Q|Q]; rewrite Q; [exact R1|rewrite G3; apply Nat.le_refl].
  - intros Gp. destruct (W5 Gp) as (Q1 & Q2 & Q3). split; [exact Q1|split; [exact Q2|intros U; exact (Q3 (Ua U))]].
Qed.

Lemma in_clean_frame c c' : in_clean c -> cur_core (c_in c') = cur_core (c_in c) -> hk_le (hook_in c) (hook_in c') -> rc_le (c_in c) (c_in c') -> in_clean c'.
Proof.
  intros K E Hh Hr U. assert (U0 : armed (c_in c)) by (unfold armed, hook_in in *; destruct Hh as [Q|Q]; congruence).
  eapply bytes_ok_le; [exact E|exact Hr|exact (K U0)].
Qed.

Lemma SE_fr gap c c' : SE gap c -> fr c c' -> SE gap c'.
Proof.
  intros [A1 A2 A3 A4 A5 A6 A7] R. pose proof R as (S & P & X & H1 & H2 & R1 & R2).
  constructor.
  - rewrite (frR_fault _ _ _ R). exact A1.
  - eapply OW_frame; [exact A2|apply skel_ogeo; exact S|exact H2|exact R2].
  - eapply TI_fr; eassumption.
  - pose proof (skel_core _ _ S) as C. apply rq_core_of_st in C. destruct C as [C Cs]. unfold rq_inv in *. rewrite Cs.
    unfold rq_core in C. injection C as C1 C2 C3 C4 C5 C6 C7 C8 C9 C10. rewrite C9, C10. exact A4.
  - eapply in_clean_frame; [exact A5|apply skel_cur_in; exact S|exact H1|exact R1].
  - rewrite (skel_out_state _ _ S), (frR_out_tx _ _ _ R). exact A6.
  - rewrite (skel_in_status _ _ S). exact A7.
Qed.

Lemma SE_out_live gap c i : SE gap c -> c_out_tx c = Some i -> live c i.
Proof. intros H E. pose proof (ti_out_live c (proj2 (se_ti _ _ H))) as L. rewrite E in L. exact L. Qed.

Section ResLayer2.
Variable cb : cb_oracle.
Variable g : cfg.
Hypothesis cb_nodestroy : forall h n, cb h n <> CB_DESTROY_TX.

(* htp_res_run_hook_body_data / htp_tx_res_process_body_data_ex on out_tx *)
Lemma res_run_hook_body_data_fr i d n c : c_out_tx c = Some i -> live c i ->
  c_fault (snd (res_run_hook_body_data cb i d n c)) = c_fault c /\ fr c (snd (res_run_hook_body_data cb i d n c)).
Proof.
  intros Ei L. unfold res_run_hook_body_data.
  assert (G : c_fault (snd (run_data_hook cb H_RESPONSE_BODY_DATA i d false
                  (run_tx_hooks (t_hook_response_body (tx_get c i)) H_TX_RESPONSE_BODY_DATA i d false c))) = c_fault c /\
              fr c (snd (run_data_hook cb H_RESPONSE_BODY_DATA i d false
                  (run_tx_hooks (t_hook_response_body (tx_get c i)) H_TX_RESPONSE_BODY_DATA i d false c)))).
  { pose proof (run_tx_hooks_fr (t_hook_response_body (tx_get c i)) H_TX_RESPONSE_BODY_DATA i d false c) as R1.
    pose proof (run_data_hook_fr cb cb_nodestroy H_RESPONSE_BODY_DATA i d false _ (frR_live _ _ _ i R1 L)) as R2.
    pose proof (fr_trans _ _ _ R1 R2) as R. split; [exact (frR_fault _ _ _ R)|exact R]. }
  rewrite Ei. destruct d as [d|]; [destruct n as [|n]|]; try exact G. split; [reflexivity|apply fr_refl].
Qed.
Lemma tx_res_process_body_data_ex_fr i d n c : c_out_tx c = Some i -> live c i ->
  c_fault (snd (tx_res_process_body_data_ex cb i d n c)) = c_fault c /\ fr c (snd (tx_res_process_body_data_ex cb i d n c)).
Proof.
  intros Ei L. unfold tx_res_process_body_data_ex.
  set (c1 := tx_upd c i _).
  assert (R1 : fr c c1) by (apply tx_upd_fr; [apply tx_le_pre|exact L|tx_le_tac]).
  destruct (_ =? c_HTP_COMPRESSION_NONE); [|cbn [snd]; split; [exact (frR_fault _ _ _ R1)|exact R1]].
  set (c2 := tx_upd c1 i _).
  assert (R2 : fr c1 c2) by (apply tx_upd_fr; [apply tx_le_pre|eapply frR_live; eassumption|tx_le_tac]).
  pose proof (fr_trans _ _ _ R1 R2) as R12.
  destruct (res_run_hook_body_data_fr i d n c2) as [F3 R3]; [rewrite (frR_out_tx _ _ _ R12); exact Ei|eapply frR_live; eassumption|].
  destruct (res_run_hook_body_data cb i d n c2) as [rc c3]. cbn [snd] in *.
  pose proof (fr_trans _ _ _ R12 R3) as R. destruct rc; cbn [snd]; (split; [exact (frR_fault _ _ _ R)|exact R]).
Qed.
Lemma rs_process_body_fr gap d n c rc c' : SE gap c -> rs_process_body cb d n c = (rc, c') -> SE gap c'.
Proof.
  intros H E. unfold rs_process_body in E. destruct (c_out_tx c) as [i|] eqn:Ei; [|injection E as <- <-; exact H].
  destruct (tx_res_process_body_data_ex_fr i d n c Ei (SE_out_live _ _ _ H Ei)) as [_ R]. rewrite E in R. cbn [snd] in R.
  eapply SE_fr; eassumption.
Qed.
End ResLayer2.

(* ------------------------------------------------------------------------------------------------ *)
(* 3. the byte macros of htp_response.c *)

(* what SE reads outside the geometry of the response cursor and the fault flag *)
Definition orest (c : connp) :=
  (c_out_status c, c_in_state c, c_out_state c, c_in c, k_receiver (c_out c), hook_out c, c_in_tx c, c_out_tx c,
   c_txs c, c_txs_shifted c, c_in_body_data_left c, c_in_chunked_length c, c_in_status c).
Definition onf (c c' : connp) : Prop := c_fault c' = c_fault c /\ orest c' = orest c.
Lemma onf_refl c : onf c c. Proof. split; reflexivity. Qed.
Lemma onf_trans a b c : onf a b -> onf b c -> onf a c.
Proof. intros [A1 A2] [B1 B2]. split; congruence. Qed.

Lemma SE_onf gap c c' : SE gap c -> onf c c' -> OW gap c' -> SE gap c'.
Proof.
  intros [A1 A2 [Ti To] A4 A5 A6 A7] [F Rr] W. unfold orest in Rr. injection Rr as R1 R2 R3 R4 R5 R6 R7 R8 R9 R10 R11 R12 R13.
  assert (Hi : hook_in c' = hook_in c) by (unfold hook_in; rewrite R4; reflexivity).
  constructor.
  - congruence.
  - exact W.
  - split.
    + eapply TIin_frame; [exact Ti|exact R2|exact R7|left; exact Hi|apply txs_rel_of_eq; [apply tx_lein_pre|exact R9|exact R10]].
    + eapply TIout_frame; [exact To|exact R3|exact R8|left; exact R6|apply txs_rel_of_eq; [apply tx_leout_pre|exact R9|exact R10]].
  - unfold rq_inv in *. rewrite R2, R11, R12. exact A4.
  - unfold in_clean in *. rewrite R4. exact A5.
  - rewrite R3, R8. exact A6.
  - rewrite R13. exact A7.
Qed.

(* moving the offsets forward inside the chunk *)
Lemma OW_move gap c c' :
  OW gap c ->
  k_data (c_out c') = k_data (c_out c) -> k_len (c_out c') = k_len (c_out c) -> c_out_state c' = c_out_state c ->
  c_out_status c' = c_out_status c -> hook_out c' = hook_out c -> k_receiver (c_out c') = k_receiver (c_out c) ->
  (k_read (c_out c) <= k_read (c_out c') <= k_len (c_out c))%nat ->
  ((k_consume (c_out c) <= k_read (c_out c))%nat -> (k_consume (c_out c') <= k_read (c_out c'))%nat) ->
  (gap = true -> armed (c_out c) -> k_read (c_out c') = k_read (c_out c)) ->
  OW gap c'.
Proof.
  intros [W1 W2 W3 W4 W5 W6] E1 E2 E3 E4 E5 E6 Hr Hc Hg.
  assert (Ua : armed (c_out c') <-> armed (c_out c)) by (unfold armed, hook_out in *; rewrite E5; tauto).
  constructor; rewrite ?E1, ?E2, ?E3, ?E4, ?E6; try assumption.
  - lia.
  - destruct W3 as [W3|W3]; [left; exact W3|right; exact (Hc W3)].
  - intros U. apply Ua in U. pose proof (W4 U) as R1. lia.
  - intros Gp. destruct (W5 Gp) as (Q1 & Q2 & Q3). split; [exact Q1|split; [exact Q2|intros U; apply Ua in U; rewrite (Hg Gp U); exact (Q3 U)]].
Qed.
(* nothing of the geometry changes *)
Lemma OW_same gap c c' :
  OW gap c -> k_data (c_out c') = k_data (c_out c) -> k_len (c_out c') = k_len (c_out c) -> k_read (c_out c') = k_read (c_out c) ->
  k_consume (c_out c') = k_consume (c_out c) -> c_out_state c' = c_out_state c ->
  c_out_status c' = c_out_status c -> hook_out c' = hook_out c -> k_receiver (c_out c') = k_receiver (c_out c) -> OW gap c'.
Proof.
  intros W E1 E2 E3 E4 E5 E6 E7 E8. apply (OW_move gap c c' W); try assumption; [rewrite E3; destruct W; lia|rewrite E3, E4; tauto|intros _ _; exact E3].
Qed.

Lemma orest_fields a b : orest a = orest b ->
  c_out_status a = c_out_status b /\ c_out_state a = c_out_state b /\ hook_out a = hook_out b /\ k_receiver (c_out a) = k_receiver (c_out b) /\ c_out_tx a = c_out_tx b.
Proof. unfold orest. intros H. injection H as R1 R2 R3 R4 R5 R6 R7 R8 R9 R10 R11 R12 R13. repeat split; assumption. Qed.

(* a step: the SE invariant is carried over together with what the caller may need about the state *)
Definition SEs (gap : bool) (c c' : connp) : Prop :=
  SE gap c' /\ c_out_state c' = c_out_state c /\ c_out_tx c' = c_out_tx c /\
  k_data (c_out c') = k_data (c_out c) /\ k_len (c_out c') = k_len (c_out c) /\ hk_le (hook_out c) (hook_out c') /\
  c_out_status c' = c_out_status c.
Ltac sfin := split; [reflexivity|split; [reflexivity|split; [reflexivity|split; [reflexivity|split; [apply hk_le_refl|reflexivity]]]]].
Lemma SEs_refl gap c : SE gap c -> SEs gap c c. Proof. intros H. split; [exact H|sfin]. Qed.
Lemma SEs_trans gap a b c : SEs gap a b -> SEs gap b c -> SEs gap a c.
Proof.
  intros (A1 & A2 & A3 & A4 & A5 & A6 & A7) (B1 & B2 & B3 & B4 & B5 & B6 & B7).
  split; [exact B1|split; [congruence|split; [congruence|split; [congruence|split; [congruence|split; [eapply hk_le_trans; eassumption|congruence]]]]]].
Qed.
Lemma SEs_of_fr gap c c' : SE gap c -> fr c c' -> SEs gap c c'.
Proof.
  intros H R. pose proof (skel_cur_out _ _ (proj1 R)) as Q. unfold cur_core in Q. injection Q as Q1 Q2 Q3 Q4 Q5 Q6 Q7.
  split; [eapply SE_fr; eassumption|]. split; [apply skel_out_state; exact (proj1 R)|]. split; [exact (frR_out_tx _ _ _ R)|].
  split; [exact Q1|split; [exact Q2|]]. split; [destruct R as (_ & _ & _ & _ & Hh & _); exact Hh|apply skel_out_status; exact (proj1 R)].
Qed.
Lemma fr_read c c' : fr c c' -> k_read (c_out c') = k_read (c_out c).
Proof. intros R. exact (cur_core_read _ _ (skel_cur_out _ _ (proj1 R))). Qed.

Section Macros.
Variable cb : cb_oracle.
Variable g : cfg.

Lemma has_byte_readable gap c : OW gap c -> gap = false -> rs_has_byte c = true ->
  exists d b, k_data (c_out c) = Some d /\ nth_error d (k_read (c_out c)) = Some b /\ (k_read (c_out c) < k_len (c_out c))%nat.
Proof.
  intros [W1 W2 W3 W4 W5 W6] G Hb. unfold rs_has_byte in Hb. apply Nat.ltb_lt in Hb.
  destruct (k_data (c_out c)) as [d|]; [|destruct W2 as [Q|Q]; [congruence|lia]].
  destruct (nth_error d (k_read (c_out c))) as [b|] eqn:En; [exists d, b; repeat split; assumption|].
  apply nth_error_None in En. lia.
Qed.

Definition opos (c : connp) := (k_data (c_out c), k_len (c_out c), k_read (c_out c), k_consume (c_out c)).

(* OUT_PEEK_NEXT *)
Lemma rs_peek_next_SE c : SE false c ->
  SEs false c (rs_peek_next c) /\ opos (rs_peek_next c) = opos c /\ (rs_nb (rs_peek_next c) = None -> rs_has_byte c = false).
Proof.
  intros H. pose proof (se_ow _ _ H) as W. unfold rs_peek_next. destruct (rs_has_byte c) eqn:Hb.
  - destruct (has_byte_readable false c W eq_refl Hb) as (d & b & Ed & En & Lt).
    unfold rs_load_next, rs_cur_byte. rewrite Ed. replace (k_read (c_out c) <? k_len (c_out c))%nat with true by (symmetry; apply Nat.ltb_lt; exact Lt).
    rewrite En. split; [|split; [reflexivity|unfold rs_nb, rs_set_out; cbn; discriminate]].
    split; [|sfin]. apply (SE_onf false c _ H); [split; reflexivity|]. apply (OW_same false c _ W); reflexivity.
  - split; [|split; [reflexivity|reflexivity]].
    split; [|sfin]. apply (SE_onf false c _ H); [split; reflexivity|]. apply (OW_same false c _ W); reflexivity.
Qed.
(* OUT_COPY_BYTE_OR_RETURN *)
Lemma rs_copy_byte_SE c c1 : SE false c -> rs_copy_byte c = Some c1 ->
  SEs false c c1 /\ k_data (c_out c1) = k_data (c_out c) /\ k_len (c_out c1) = k_len (c_out c) /\
  k_read (c_out c1) = S (k_read (c_out c)) /\ k_consume (c_out c1) = k_consume (c_out c) /\ (k_read (c_out c) < k_len (c_out c))%nat /\
  rs_nb c1 <> None.
Proof.
  intros H E. pose proof (se_ow _ _ H) as W. unfold rs_copy_byte in E. destruct (rs_has_byte c) eqn:Hb; [|discriminate].
  destruct (has_byte_readable false c W eq_refl Hb) as (d & b & Ed & En & Lt).
  unfold rs_load_next, rs_cur_byte in E. rewrite Ed in E. replace (k_read (c_out c) <? k_len (c_out c))%nat with true in E by (symmetry; apply Nat.ltb_lt; exact Lt).
  rewrite En in E. injection E as <-. unfold rs_set_out, rs_nb. cbn. split; [|repeat split; try exact Lt; discriminate].
  split; [|sfin].
  apply (SE_onf false c _ H); [split; reflexivity|]. apply (OW_move false c _ W); try reflexivity; cbn; try lia; try (intros Q; discriminate).
Qed.
(* OUT_NEXT_BYTE_OR_RETURN *)
Lemma rs_next_byte_SE c c1 : SE false c -> rs_next_byte c = Some c1 ->
  SEs false c c1 /\ k_data (c_out c1) = k_data (c_out c) /\ k_len (c_out c1) = k_len (c_out c) /\
  k_read (c_out c1) = S (k_read (c_out c)) /\ k_consume (c_out c1) = S (k_consume (c_out c)) /\ (k_read (c_out c) < k_len (c_out c))%nat.
Proof.
  intros H E. pose proof (se_ow _ _ H) as W. unfold rs_next_byte in E. destruct (rs_has_byte c) eqn:Hb; [|discriminate].
  destruct (has_byte_readable false c W eq_refl Hb) as (d & b & Ed & En & Lt).
  unfold rs_load_next, rs_cur_byte in E. rewrite Ed in E. replace (k_read (c_out c) <? k_len (c_out c))%nat with true in E by (symmetry; apply Nat.ltb_lt; exact Lt).
  rewrite En in E. injection E as <-. unfold rs_set_out. cbn. split; [|repeat split; exact Lt].
  split; [|sfin].
  apply (SE_onf false c _ H); [split; reflexivity|]. apply (OW_move false c _ W); try reflexivity; cbn; try lia; try (intros Q; discriminate).
Qed.
Lemma rs_copy_byte_none c : rs_copy_byte c = None -> rs_has_byte c = false.
Proof. unfold rs_copy_byte. destruct (rs_has_byte c); [discriminate|reflexivity]. Qed.

(* in every state but BSC-after-un-read the consume offset is behind the read offset *)
Lemma OW_cons gap c : OW gap c -> c_out_state c <> RES_BODY_IDENTITY_STREAM_CLOSE -> (k_consume (c_out c) <= k_read (c_out c))%nat.
Proof. intros W N. destruct (ow_cons _ _ W) as [[Q _]|Q]; [contradiction|exact Q]. Qed.

(* htp_connp_res_buffer *)
Lemma rs_res_buffer_SE c rc c1 : SE false c -> c_out_state c <> RES_BODY_IDENTITY_STREAM_CLOSE -> c_out_tx c <> None ->
  rs_res_buffer g c = (rc, c1) ->
  SEs false c c1 /\ k_data (c_out c1) = k_data (c_out c) /\ k_len (c_out c1) = k_len (c_out c) /\ k_read (c_out c1) = k_read (c_out c).
Proof.
  intros H Ns N E. pose proof (se_ow _ _ H) as W. pose proof (OW_cons _ _ W Ns) as Cs.
  unfold rs_res_buffer in E. destruct (k_data (c_out c)) as [d|] eqn:Ed.
  2: { injection E as <- <-. split; [apply SEs_refl; exact H|repeat split; exact Ed]. }
  replace (k_read (c_out c) <? k_consume (c_out c))%nat with false in E by (symmetry; apply Nat.ltb_ge; exact Cs).
  destruct (c_out_tx c) eqn:Eo; [|congruence].
  destruct (g_field_limit_hard g <? _)%nat; injection E as <- <-.
  - split; [apply SEs_refl; exact H|repeat split; exact Ed].
  - unfold rs_set_out. cbn. split; [|repeat split; exact Ed]. split; [|sfin].
    apply (SE_onf false c _ H); [split; reflexivity|].
    apply (OW_move false c _ W); try reflexivity; cbn; try exact Ed; try lia; try (destruct W; lia); try (intros Q; discriminate).
Qed.

(* htp_connp_res_consolidate_data *)
Lemma rs_consolidate_SE c r c1 : SE false c -> c_out_state c <> RES_BODY_IDENTITY_STREAM_CLOSE -> c_out_tx c <> None ->
  rs_consolidate g c = (r, c1) ->
  SEs false c c1 /\ k_data (c_out c1) = k_data (c_out c) /\ k_len (c_out c1) = k_len (c_out c) /\ k_read (c_out c1) = k_read (c_out c).
Proof.
  intros H Ns N E. pose proof (se_ow _ _ H) as W. pose proof (OW_cons _ _ W Ns) as Cs.
  unfold rs_consolidate in E. destruct (k_buf (c_out c)).
  - destruct (rs_res_buffer g c) as [rc c2] eqn:Eb. destruct (rs_res_buffer_SE c rc c2 H Ns N Eb) as (S2 & P2).
    destruct rc; injection E as <- <-; (split; [exact S2|exact P2]).
  - destruct (k_data (c_out c)) as [d|] eqn:Ed.
    + replace (k_read (c_out c) <? k_consume (c_out c))%nat with false in E by (symmetry; apply Nat.ltb_ge; exact Cs).
      injection E as <- <-. split; [apply SEs_refl; exact H|repeat split; exact Ed].
    + assert (Z0 : k_read (c_out c) = O /\ k_consume (c_out c) = O).
      { destruct W as [W1 W2 _ _ _ _]. rewrite Ed in W2. destruct W2 as [Q|Q]; [discriminate|lia]. }
      destruct Z0 as [Z1 Z2]. rewrite Z1, Z2 in E. cbn in E. injection E as <- <-. split; [apply SEs_refl; exact H|repeat split; exact Ed].
Qed.

(* a pure update of the response cursor that keeps data / len / receiver bookkeeping and moves the offsets forward *)
Lemma rs_set_out_SE gap f c :
  SE gap c ->
  k_data (f (c_out c)) = k_data (c_out c) -> k_len (f (c_out c)) = k_len (c_out c) ->
  k_receiver (f (c_out c)) = k_receiver (c_out c) -> k_receiver_hook (f (c_out c)) = k_receiver_hook (c_out c) ->
  (k_read (c_out c) <= k_read (f (c_out c)) <= k_len (c_out c))%nat ->
  ((k_consume (c_out c) <= k_read (c_out c))%nat -> (k_consume (f (c_out c)) <= k_read (f (c_out c)))%nat) ->
  (gap = true -> armed (c_out c) -> k_read (f (c_out c)) = k_read (c_out c)) ->
  SEs gap c (rs_set_out f c).
Proof.
  intros H E1 E2 E3 E4 Hr Hc Hg.
  split; [|split; [reflexivity|split; [reflexivity|split; [exact E1|split; [exact E2|split; [left; unfold hook_out, rs_set_out; cbn; exact E4|reflexivity]]]]]].
  apply (SE_onf gap c _ H).
  - split; [reflexivity|]. unfold orest, rs_set_out, hook_out. cbn. rewrite E3, E4. reflexivity.
  - apply (OW_move gap c _ (se_ow _ _ H)); unfold rs_set_out, hook_out; cbn; try assumption; reflexivity.
Qed.

(* htp_connp_res_clear_buffer *)
Lemma rs_clear_buffer_SE gap c : SE gap c -> SEs gap c (rs_clear_buffer c).
Proof.
  intros H. unfold rs_clear_buffer. apply rs_set_out_SE; try reflexivity; try exact H; cbn.
  all: try (pose proof (ow_rd _ _ (se_ow _ _ H)); lia); try tauto; try (intros; first [discriminate | lia | contradiction]).
Qed.
Lemma rs_set_header_SE gap h c : SE gap c -> SEs gap c (rs_set_header h c).
Proof.
  intros H. unfold rs_set_header. apply rs_set_out_SE; try reflexivity; try exact H; cbn.
  all: try (pose proof (ow_rd _ _ (se_ow _ _ H)); lia); try tauto; try (intros; first [discriminate | lia | contradiction]).
Qed.
Lemma rs_set_nb_SE gap v c : SE gap c -> SEs gap c (rs_set_out (fun k => k <| k_next_byte := v |>) c).
Proof.
  intros H. apply rs_set_out_SE; try reflexivity; try exact H; cbn.
  all: try (pose proof (ow_rd _ _ (se_ow _ _ H)); lia); try tauto; try (intros; first [discriminate | lia | contradiction]).
Qed.
Lemma rs_clear_header_SE gap c : SE gap c -> SEs gap c (rs_set_out (fun k => k <| k_header := None |>) c).
Proof.
  intros H. apply rs_set_out_SE; try reflexivity; try exact H; cbn.
  all: try (pose proof (ow_rd _ _ (se_ow _ _ H)); lia); try tauto; try (intros; first [discriminate | lia | contradiction]).
Qed.
(* out_current_consume_offset++ after a byte was copied *)
Lemma rs_consume_succ_SE c : SE false c -> (k_consume (c_out c) < k_read (c_out c))%nat ->
  SEs false c (rs_set_out (fun k => k <| k_consume ::= S |>) c).
Proof.
  intros H Lt. apply rs_set_out_SE; try reflexivity; try exact H; cbn.
  all: try (pose proof (ow_rd _ _ (se_ow _ _ H)); lia); try tauto; try (intros; first [discriminate | lia | contradiction]).
Qed.
(* consuming n body bytes *)
Lemma rs_advance_SE gap n c : SE gap c -> (n <= k_len (c_out c) - k_read (c_out c))%nat -> ~ armed (c_out c) -> SEs gap c (rs_advance n c).
Proof.
  intros H Hn Na. unfold rs_advance. apply rs_set_out_SE; try reflexivity; try exact H; cbn.
  all: try (pose proof (ow_rd _ _ (se_ow _ _ H)); lia); try tauto; try (intros; first [discriminate | lia | contradiction]).
Qed.
(* out_current_data + read_offset as body data *)
Lemma rs_body_slice_SE gap c n : SE gap c -> (k_data (c_out c) = None -> k_read (c_out c) = O) -> snd (rs_body_slice c n) = c.
Proof.
  intros H Dn. unfold rs_body_slice. destruct (k_data (c_out c)); [reflexivity|]. rewrite (Dn eq_refl). reflexivity.
Qed.

(* a write through out_tx that keeps progress and parsed_uri *)
Lemma rs_otx_SE gap f c : SE gap c -> c_out_tx c <> None -> (forall t, tx_le t (f t)) -> SEs gap c (rs_otx f c).
Proof.
  intros H N Hf. unfold rs_otx. destruct (c_out_tx c) as [i|] eqn:Ei; [|congruence].
  pose proof (tx_upd_fr tx_le c i f tx_le_pre (SE_out_live _ _ _ H Ei) Hf) as R.
  exact (SEs_of_fr gap c _ H R).
Qed.
Lemma rs_otx_read f c : c_out_tx c <> None -> k_read (c_out (rs_otx f c)) = k_read (c_out c) /\ k_consume (c_out (rs_otx f c)) = k_consume (c_out c).
Proof.
  intros N. unfold rs_otx. destruct (c_out_tx c) as [i|]; [|congruence]. unfold tx_upd. destruct (tx_slot c i); [|split; reflexivity].
  unfold tx_put. destruct (_ <? _)%nat; [split; reflexivity|]. destruct (_ <? _)%nat; split; reflexivity.
Qed.
End Macros.

(* ------------------------------------------------------------------------------------------------ *)
(* 4. state changes and the transaction layer of the response direction *)

(* connp->out_state = s, for s other than RES_IDLE *)
Lemma rs_set_state_SE gap s c :
  SE gap c -> s <> RES_IDLE -> c_out_tx c <> None ->
  ((k_consume (c_out c) <= k_read (c_out c))%nat \/ (s = RES_BODY_IDENTITY_STREAM_CLOSE /\ k_len (c_out c) <> O)) ->
  SE gap (rs_set_state s c).
Proof.
  intros [A1 [W1 W2 W3 W4 W5 W6] [Ti [B1 B2 B3]] A4 A5 A6 A7] Ns N Hc. unfold rs_set_state. constructor; try assumption.
  - apply (mkOW gap); try assumption. cbn. destruct Hc as [Q|Q]; [right; exact Q|left; exact Q].
  - split.
    + destruct Ti as [T1 T2 T3 T4]. constructor; assumption.
    + constructor; try assumption. intros Q. cbn in Q. contradiction.
  - intros _. exact N.
Qed.

Lemma SE_cons gap c : SE gap c -> c_out_state c <> RES_BODY_IDENTITY_STREAM_CLOSE -> (k_consume (c_out c) <= k_read (c_out c))%nat.
Proof. intros H. apply (OW_cons gap). exact (se_ow _ _ H). Qed.

(* the pure record updates of the response direction keep progress / parsed_uri *)
Lemma prog3_apply_response_line l t : prog3 (rs_apply_response_line l t) = prog3 t.
Proof. reflexivity. Qed.
Lemma prog3_process_response_header l t : prog3 (rs_process_response_header l t) = prog3 t.
Proof. unfold rs_process_response_header. brk; reflexivity. Qed.

Section ResTx.
Variable cb : cb_oracle.
Variable g : cfg.
Hypothesis cb_nodestroy : forall h n, cb h n <> CB_DESTROY_TX.

(* htp_tx_state_response_line on out_tx *)
Lemma response_line_SE gap i c : SE gap c -> c_out_tx c = Some i ->
  SEs gap c (snd (tx_state_response_line cb i c)).
Proof.
  intros H Ei. unfold tx_state_response_line. set (c1 := tx_upd c i _).
  assert (L : live c i) by (eapply SE_out_live; eassumption).
  assert (R1 : fr c c1).
  { apply tx_upd_fr; [apply tx_le_pre|exact L|]. intros t. apply tx_le_of_prog3. brk; reflexivity. }
  pose proof (run_hook_fr cb cb_nodestroy H_RESPONSE_LINE i c1 (frR_live _ _ _ i R1 L)) as R2.
  pose proof (fr_trans _ _ _ R1 R2) as R.
  exact (SEs_of_fr _ _ _ H R).
Qed.

(* htp_tx_state_response_headers on out_tx: the receiver is flushed and cleared when the result is OK *)
Lemma response_headers_SE gap i c : SE gap c -> c_out_tx c = Some i ->
  let r := tx_state_response_headers cb i c in
  SEs gap c (snd r) /\ (fst r = ST_OK -> hook_out (snd r) = None).
Proof.
  intros H Ei. cbv zeta. unfold tx_state_response_headers. set (c1 := tx_upd c i _).
  assert (L : live c i) by (eapply SE_out_live; eassumption).
  assert (R1 : fr c c1) by (apply tx_upd_fr; [apply tx_le_pre|exact L|tx_le_tac]).
  pose proof (SE_fr _ _ _ H R1) as H1.
  destruct (res_receiver_finalize_clear_safe cb cb_nodestroy c1 (se_fault _ _ H1) (SE_sendok_out _ _ H1)) as (F2 & R2 & Hh).
  destruct (res_receiver_finalize_clear cb c1) as [rc c2]. cbn [fst snd] in *.
  pose proof (fr_trans _ _ _ R1 R2) as R12.
  assert (Fin : forall c3, fr c c3 -> SEs gap c c3).
  { intros c3 R. exact (SEs_of_fr _ _ _ H R). }
  destruct rc; cbn [fst snd]; try (split; [apply Fin; exact R12|discriminate]).
  pose proof (run_hook_fr cb cb_nodestroy H_RESPONSE_HEADERS i c2 (frR_live _ _ _ i R12 L)) as R3.
  split; [apply Fin; exact (fr_trans _ _ _ R12 R3)|].
  intros _. destruct R3 as (_ & _ & _ & _ & [Q|Q] & _); unfold hook_out in *; congruence.
Qed.

Lemma fr_out_state R a b s : frR R a b -> frR R (a <| c_out_state := s |>) (b <| c_out_state := s |>).
Proof. intros (A1 & A2 & A3 & A4 & A5 & A6 & A7). unfold frR. repeat split; try assumption. unfold skel in *. cbn. injection A1; intros; congruence. Qed.
Lemma fr_out_left R a b v : frR R a b -> frR R (a <| c_out_body_data_left := v |>) (b <| c_out_body_data_left := v |>).
Proof. intros (A1 & A2 & A3 & A4 & A5 & A6 & A7). unfold frR. repeat split; try assumption. unfold skel in *. cbn. injection A1; intros; congruence. Qed.

(* htp_tx_state_response_start (called from RES_IDLE with out_tx already pointing at the transaction) *)
Lemma response_start_fr i c : live c i -> c_out_tx c = Some i ->
  let r := tx_state_response_start cb i c in
  c_fault (snd r) = c_fault c /\
  (fst r = ST_OK -> fr (c <| c_out_state := RES_LINE |>) (snd r) \/
                    fr (c <| c_out_state := RES_BODY_IDENTITY_STREAM_CLOSE |> <| c_out_body_data_left := -1 |>) (snd r)) /\
  (fst r <> ST_OK -> fr c (snd r)).
Proof.
  intros L Ei. cbv zeta. unfold tx_state_response_start.
  set (c0 := c <| c_out_tx := Some i |>).
  assert (E0 : c0 = c) by (subst c0; destruct c; cbn in Ei; subst; reflexivity).
  rewrite E0. clear c0 E0.
  pose proof (run_hook_fr cb cb_nodestroy H_RESPONSE_START i c L) as R1. unfold run_hook in *.
  destruct (run_hook_ex cb H_RESPONSE_START i None false None c) as [rc c1]. cbn [fst snd] in *.
  pose proof (frR_live _ _ _ i R1 L) as L1.
  destruct rc; cbn [fst snd]; try (split; [exact (frR_fault _ _ _ R1)|split; [discriminate|intros _; exact R1]]).
  destruct (t_is_protocol_0_9 (tx_get c1 i)); cbn [fst snd].
  - set (c2 := tx_upd c1 i _).
    assert (R2 : fr c1 c2) by (apply tx_upd_fr; [apply tx_le_pre|exact L1|tx_le_tac]).
    pose proof (fr_trans _ _ _ R1 R2) as R.
    split; [cbn; exact (frR_fault _ _ _ R)|split; [intros _; right|intros Q; congruence]].
    apply fr_out_left. apply fr_out_state. exact R.
  - set (c2 := c1 <| c_out_state := RES_LINE |>).
    assert (L2 : live c2 i) by exact L1.
    assert (R2 : fr c2 (tx_upd c2 i (fun t => t <| t_response_progress := c_HTP_RESPONSE_LINE |>))) by (apply tx_upd_fr; [apply tx_le_pre|exact L2|tx_le_tac]).
    split; [rewrite (frR_fault _ _ _ R2); exact (frR_fault _ _ _ R1)|split; [intros _; left|intros Q; congruence]].
    eapply fr_trans; [apply fr_out_state; exact R1|exact R2].
Qed.

(* result codes of the response callback layer *)
Lemma res_receiver_send_data_rc l c : rq_hookrc (fst (res_receiver_send_data cb l c)).
Proof.
  unfold res_receiver_send_data. destruct (k_receiver_hook (c_out c)); [|unfold rq_hookrc; cbn; tauto].
  match goal with |- context [run_data_hook cb ?h ?i ?d ?l0 ?c0] =>
    pose proof (run_hook_ex_rc cb h i d l0 None c0) as Q; unfold run_data_hook; destruct (run_hook_ex cb h i d l0 None c0) as [rc c1] end.
  cbn [fst] in Q. destruct rc; cbn [fst]; exact Q.
Qed.
Lemma res_receiver_finalize_clear_rc c : rq_hookrc (fst (res_receiver_finalize_clear cb c)).
Proof.
  unfold res_receiver_finalize_clear. destruct (k_receiver_hook (c_out c)); [|unfold rq_hookrc; cbn; tauto].
  pose proof (res_receiver_send_data_rc true c) as Q. destruct (res_receiver_send_data cb true c). exact Q.
Qed.
Lemma tx_finalize_rc i c : rq_hookrc (fst (tx_finalize cb g i c)).
Proof.
  unfold tx_finalize. destruct (tx_slot c i) as [t|]; [|unfold rq_hookrc; cbn; tauto].
  destruct (negb (tx_is_complete t)); [unfold rq_hookrc; cbn; tauto|].
  pose proof (run_hook_ex_rc cb H_TRANSACTION_COMPLETE i None false (Some t) c) as Q.
  destruct (run_hook_ex cb H_TRANSACTION_COMPLETE i None false (Some t) c) as [rc c1]. cbn [fst] in Q.
  destruct rc; cbn [fst]; try exact Q. destruct (tx_slot c1 i); unfold rq_hookrc; cbn; tauto.
Qed.

(* SE without "armed => response not complete": what holds between progress := COMPLETE and the receiver flush *)
Record SEw (gap : bool) (c : connp) : Prop := mkSEw {
  sw_fault : c_fault c = false;
  sw_ow : OW gap c;
  sw_tin : TIin c;
  sw_olive : olive c (c_out_tx c);
  sw_idle : c_out_state c = RES_IDLE -> c_out_tx c = None;
  sw_rq : rq_inv c;
  sw_in : in_clean c;
  sw_otx : c_out_state c <> RES_IDLE -> c_out_tx c <> None;
  sw_in_nc : c_in_status c <> c_HTP_STREAM_CLOSED
}.
Lemma SE_SEw gap c : SE gap c -> SEw gap c.
Proof. intros [A1 A2 [Ti [B1 B2 B3]] A4 A5 A6 A7]. constructor; assumption. Qed.
Lemma SEw_SE gap c : SEw gap c -> hook_out c = None -> SE gap c.
Proof.
  intros [A1 A2 A3 A4 A5 A6 A7 A8 A9] Hh. constructor; try assumption. split; [exact A3|]. constructor; try assumption.
  intros U. unfold armed, hook_out in *. congruence.
Qed.
Lemma SEw_fri gap c c' : SEw gap c -> fri c c' -> SEw gap c'.
Proof.
  intros [A1 A2 A3 A4 A5 A6 A7 A8 A9] R. pose proof R as (S & P & X & H1 & H2 & R1 & R2).
  constructor.
  - rewrite (frR_fault _ _ _ R). exact A1.
  - eapply OW_frame; [exact A2|apply skel_ogeo; exact S|exact H2|exact R2].
  - eapply TIin_fri; eassumption.
  - rewrite (frR_out_tx _ _ _ R). eapply txs_rel_olive; eassumption.
  - rewrite (skel_out_state _ _ S), (frR_out_tx _ _ _ R). exact A5.
  - pose proof (skel_core _ _ S) as C. apply rq_core_of_st in C. destruct C as [C Cs]. unfold rq_inv in *. rewrite Cs.
    unfold rq_core in C. injection C as C1 C2 C3 C4 C5 C6 C7 C8 C9 C10. rewrite C9, C10. exact A6.
  - eapply in_clean_frame; [exact A7|apply skel_cur_in; exact S|exact H1|exact R1].
  - rewrite (skel_out_state _ _ S), (frR_out_tx _ _ _ R). exact A8.
  - rewrite (skel_in_status _ _ S). exact A9.
Qed.
Lemma SEw_sendok_out gap c : SEw gap c -> c_out_tx c <> None -> sendok_out c.
Proof.
  intros [A1 [W1 W2 W3 W4 W5 W6] A3 A4 A5 A6 A7 A8 A9] N U. split; [split; assumption|]. split; [exact (W4 U)|].
  destruct (k_data (c_out c)) as [d|] eqn:Ed; [lia|]. destruct W2 as [G|L]; [exact (proj2 (proj2 (W5 G)) U)|lia].
Qed.

Lemma nost_out_status c c' : skel (nost c') = skel (nost c) -> c_out_status c' = c_out_status c.
Proof. intros H. apply skel_out_status in H. exact H. Qed.

(* htp_tx_state_response_complete_ex(out_tx, hybrid_mode = 0), called in RES_FINALIZE *)
Lemma response_complete_SE gap i c :
  SE gap c -> c_out_tx c = Some i -> c_out_state c = RES_FINALIZE ->
  let r := tx_state_response_complete_ex cb g i false c in
  c_fault (snd r) = false /\
  (fst r = ST_OK -> SE gap (snd r) /\ c_out_state (snd r) = RES_IDLE /\ k_read (c_out (snd r)) = k_read (c_out c)) /\
  (fst r = ST_DATA_OTHER -> SE gap (snd r) /\ c_out_state (snd r) = RES_IDLE /\ hook_out (snd r) = None /\ k_read (c_out (snd r)) = k_read (c_out c) /\ k_len (c_out (snd r)) = k_len (c_out c)).
Proof.
  intros H Ei Es. cbv zeta. unfold tx_state_response_complete_ex.
  assert (L : live c i) by (eapply SE_out_live; eassumption).
  (* first half: everything up to the receiver flush *)
  match goal with |- context [match ?X with (rc0, c0) => _ end] =>
    assert (P1 : exists rc c1, X = (rc, c1) /\ c_fault c1 = false /\ fri c c1 /\ (rc = ST_OK -> SE gap c1 /\ hook_out c1 = None) /\ rq_hookrc rc) end.
  { destruct (negb (t_response_progress (tx_get c i) =? c_HTP_RESPONSE_COMPLETE)) eqn:Ep.
    2: { exists ST_OK, c. split; [reflexivity|split; [exact (se_fault _ _ H)|split; [apply fri_refl|split; [|unfold rq_hookrc; tauto]]]]. intros _. split; [exact H|].
         apply negb_false_iff in Ep. apply Z.eqb_eq in Ep. destruct (k_receiver_hook (c_out c)) eqn:Eh; [|exact Eh]. exfalso.
         assert (U : armed (c_out c)) by (unfold armed; congruence). destruct (ti_out_armed c (proj2 (se_ti _ _ H)) U) as [_ Q].
         unfold txp in Q. rewrite Ei in Q. unfold tx_get in Ep. unfold live in L. destruct (tx_slot c i); [contradiction|congruence]. }
    cbv zeta. set (c0 := tx_upd c i _).
    assert (R0 : fri c c0) by (apply tx_upd_fr; [apply tx_lein_pre|exact L|intros t; unfold tx_lein; cbn; tauto]).
    pose proof (frR_live _ _ _ i R0 L) as L0. assert (E0 : c_out_tx c0 = Some i) by (rewrite (frR_out_tx _ _ _ R0); exact Ei).
    set (c1 := if negb _ then _ else c0).
    assert (R1 : fr c0 c1).
    { subst c1. destruct (negb (t_response_transfer_coding (tx_get c0 i) =? c_HTP_CODING_NO_BODY)); [|apply fr_refl]. exact (proj2 (tx_res_process_body_data_ex_fr cb cb_nodestroy i None 0 c0 E0 L0)). }
    pose proof (frR_live _ _ _ i R1 L0) as L1.
    pose proof (run_hook_fr cb cb_nodestroy H_RESPONSE_COMPLETE i c1 L1) as R2. pose proof (run_hook_ex_rc cb H_RESPONSE_COMPLETE i None false None c1) as Q2. unfold run_hook in *.
    destruct (run_hook_ex cb H_RESPONSE_COMPLETE i None false None c1) as [rc2 c2]. cbn [fst snd] in *.
    assert (R02 : fri c c2) by (eapply fri_trans; [exact R0|apply fr_fri; exact (fr_trans _ _ _ R1 R2)]).
    pose proof (SEw_fri _ _ _ (SE_SEw _ _ H) R02) as Hw2.
    destruct rc2; try (eexists _, c2; split; [reflexivity|split; [exact (sw_fault _ _ Hw2)|split; [exact R02|split; [discriminate|exact Q2]]]]).
    assert (N2 : c_out_tx c2 <> None) by (rewrite (frR_out_tx _ _ _ R02), Ei; discriminate).
    destruct (res_receiver_finalize_clear_safe cb cb_nodestroy c2 (sw_fault _ _ Hw2) (SEw_sendok_out _ _ Hw2 N2)) as (F3 & R3 & Hh).
    pose proof (res_receiver_finalize_clear_rc c2) as Q3.
    destruct (res_receiver_finalize_clear cb c2) as [rc3 c3]. cbn [fst snd] in *.
    exists rc3, c3. split; [reflexivity|split; [exact F3|split; [eapply fri_trans; [exact R02|apply fr_fri; exact R3]|split; [|exact Q3]]]].
    intros _. split; [|exact Hh]. apply SEw_SE; [|exact Hh]. eapply SEw_fri; [exact Hw2|apply fr_fri; exact R3]. }
  destruct P1 as (rc & c1 & Eq & F1 & R1 & Hok & Hrc). rewrite Eq. clear Eq.
  destruct rc; try (cbn [fst snd]; split; [exact F1|split; discriminate]); try (exfalso; destruct Hrc as [Q|[Q|Q]]; discriminate Q).
  destruct (Hok eq_refl) as [H1 Hh].
  pose proof (cur_core_read _ _ (skel_cur_out _ _ (proj1 R1))) as Rd1.
  assert (Ln1 : k_len (c_out c1) = k_len (c_out c)).
  { pose proof (skel_cur_out _ _ (proj1 R1)) as Q. unfold cur_core in Q. congruence. }
  assert (S1 : c_out_state c1 = RES_FINALIZE) by (rewrite (skel_out_state _ _ (proj1 R1)); exact Es).
  assert (W : forall ret c', (ret = ST_OK \/ ret = ST_DATA_OTHER) ->
            SE gap c' -> hook_out c' = None -> c_fault c' = false -> live c' i -> c_out_state c' = RES_FINALIZE ->
            k_read (c_out c') = k_read (c_out c) -> k_len (c_out c') = k_len (c_out c) ->
            let r := match tx_finalize cb g i c' with
                     | (ST_OK, c2) => (ret, c2 <| c_out_tx := None |> <| c_out_state := RES_IDLE |>)
                     | r => r end in
            c_fault (snd r) = false /\
            (fst r = ST_OK -> SE gap (snd r) /\ c_out_state (snd r) = RES_IDLE /\ k_read (c_out (snd r)) = k_read (c_out c)) /\
            (fst r = ST_DATA_OTHER -> SE gap (snd r) /\ c_out_state (snd r) = RES_IDLE /\ hook_out (snd r) = None /\ k_read (c_out (snd r)) = k_read (c_out c) /\ k_len (c_out (snd r)) = k_len (c_out c))).
  { clear H1 Hh F1 R1 Hok Rd1 Ln1 S1. intros ret c' Hret H1 Hh F1 L1 S1 Rd1 Ln1. cbv zeta.
    destruct (tx_finalize_safe cb g cb_nodestroy i c' F1 L1) as (F2 & Fx & Tin & Tout & Pi & Po & Si).
    pose proof (tx_finalize_rc i c') as Hrc2.
    destruct (tx_finalize cb g i c') as [rc2 c2]. cbn [fst snd] in *.
    destruct rc2; try (split; [exact F2|split; discriminate]); try (exfalso; destruct Hrc2 as [Q|[Q|Q]]; discriminate Q).
    destruct Fx as (Sk & Hi & Ho & Ri & Ro).
    pose proof H1 as [A1 A2 [Ti To] A4 A5 A6 A7].
    assert (Hh2 : hook_out c2 = None) by (destruct Ho as [Q|Q]; congruence).
    assert (Rd2 : k_read (c_out (c2 <| c_out_tx := None |> <| c_out_state := RES_IDLE |>)) = k_read (c_out c)).
    { cbn. pose proof (cur_core_read _ _ (nost_cur_out _ _ Sk)) as Q. congruence. }
    assert (Ln2 : k_len (c_out (c2 <| c_out_tx := None |> <| c_out_state := RES_IDLE |>)) = k_len (c_out c)).
    { cbn. pose proof (nost_cur_out _ _ Sk) as Q. unfold cur_core in Q. congruence. }
    assert (G : SE gap (c2 <| c_out_tx := None |> <| c_out_state := RES_IDLE |>)).
    { constructor.
      - exact F2.
      - assert (W2 : OW gap c2).
        { eapply OW_frame; [exact A2| |exact Ho|exact Ro]. unfold ogeo. rewrite (nost_cur_out _ _ Sk), (nost_out_state _ _ Sk), (nost_out_status _ _ Sk). reflexivity. }
        destruct W2 as [W1 W2 W3 W4 W5 W6]. apply (mkOW gap); try assumption.
        right. destruct W3 as [[Q _]|Q]; [|exact Q]. rewrite (nost_out_state _ _ Sk), S1 in Q. discriminate.
      - split.
        + destruct (Tin Ti) as [T1 T2 T3 T4]. constructor; assumption.
        + constructor; cbn; try exact I; try reflexivity. intros U. unfold armed, hook_out in *. cbn in U. congruence.
      - pose proof (nost_core _ _ Sk) as C. unfold rq_core in C. injection C as C1 C2 C3 C4 C5 C6 C7 C8 C9 C10.
        unfold rq_inv in *. cbn. rewrite Si, C9, C10. exact A4.
      - assert (K2 : in_clean c2) by (eapply in_clean_frame; [exact A5|exact (nost_cur_in _ _ Sk)|exact Hi|exact Ri]). exact K2.
      - intros Q. cbn in Q. contradiction.
      - cbn. apply skel_in_status in Sk. cbn in Sk. rewrite Sk. exact A7. }
    split; [exact F2|].
    destruct Hret as [-> | ->]; (split; [intros Q|intros Q]); try discriminate Q.
    + split; [exact G|split; [reflexivity|exact Rd2]].
    + split; [exact G|split; [reflexivity|split; [exact Hh2|split; [exact Rd2|exact Ln2]]]]. }
  pose proof (frR_live _ _ _ i R1 L) as L1.
  destruct (negb false && _).
  { apply W; try assumption. right; reflexivity. }
  destruct (negb false && c_out_data_other_at_tx_end c1).
  { assert (H1' : SE gap (c1 <| c_out_data_other_at_tx_end := false |>)).
    { destruct H1 as [A1 [W1 W2 W3 W4 W5 W6] [[T1 T2 T3 T4] [B1 B2 B3]] A4 A5 A6 A7]. constructor; try assumption; [constructor; assumption|split; constructor; assumption]. }
    apply W; try assumption. right; reflexivity. }
  apply W; try assumption. left; reflexivity.
Qed.
End ResTx.

(* ------------------------------------------------------------------------------------------------ *)
(* 5. the response states *)

(* at the head of the loop: an armed receiver only in these states, and in RES_FINALIZE only with nothing left to read *)
Definition ahead (c : connp) : Prop :=
  armed (c_out c) -> armed_state (c_out_state c) /\ (c_out_state c = RES_FINALIZE -> (k_len (c_out c) <= k_read (c_out c))%nat).
(* between two calls an armed response receiver means RES_LINE (after a 100 Continue) or RES_HEADERS *)
Definition eb (c : connp) : Prop := armed (c_out c) -> c_out_state c = RES_LINE \/ c_out_state c = RES_HEADERS.
Lemma eb_na c : ~ armed (c_out c) -> eb c. Proof. intros N U. contradiction. Qed.
Lemma eb_st c : c_out_state c = RES_LINE \/ c_out_state c = RES_HEADERS -> eb c. Proof. intros S _. exact S. Qed.
(* during a gap the body states (NULL + 0) and the arming of the receiver happen at offset 0, and an armed receiver
   means RES_LINE / RES_HEADERS (nothing of these states runs during a gap) *)
Definition ghead (gap : bool) (c : connp) : Prop :=
  gap = true ->
  ((c_out_state c = RES_BODY_IDENTITY_CL_KNOWN \/ c_out_state c = RES_BODY_IDENTITY_STREAM_CLOSE \/ c_out_state c = RES_HEADERS) ->
   k_read (c_out c) = O) /\ eb c.
Definition SI (gap : bool) (c : connp) : Prop := SE gap c /\ ahead c /\ ghead gap c.

Definition sokrc (rc : st) : Prop := rc = ST_OK \/ rc = ST_DATA \/ rc = ST_DATA_BUFFER \/ rc = ST_DATA_OTHER.
Definition dokrc (rc : st) : Prop := rc = ST_DATA \/ rc = ST_DATA_BUFFER \/ rc = ST_DATA_OTHER.
(* what a pass of a response state function establishes *)
Definition SPost (gap : bool) (rc : st) (c' : connp) : Prop :=
  c_fault c' = false /\ (sokrc rc -> SE gap c') /\ (rc = ST_OK -> ahead c' /\ ghead gap c') /\
  (rc = ST_DATA_BUFFER -> c_out_state c' <> RES_BODY_IDENTITY_STREAM_CLOSE /\ c_out_tx c' <> None) /\
  (dokrc rc -> eb c').

Lemma ahead_not_armed c : ~ armed (c_out c) -> ahead c.
Proof. intros N U. contradiction. Qed.
Lemma ghead_false c : ghead false c.
Proof. intros Q. discriminate. Qed.
(* the usual way to conclude outside gaps: SE and the state of the result are known *)
Lemma SPost_of_SE rc c' :
  SE false c' -> (rc = ST_OK -> ahead c') ->
  (rc = ST_DATA_BUFFER -> c_out_state c' <> RES_BODY_IDENTITY_STREAM_CLOSE /\ c_out_state c' <> RES_IDLE) ->
  (dokrc rc -> eb c') -> SPost false rc c'.
Proof.
  intros H Ha Hb He. split; [exact (se_fault _ _ H)|split; [intros _; exact H|split; [intros Q; split; [exact (Ha Q)|apply ghead_false]|split; [|exact He]]]].
  intros Q. destruct (Hb Q) as [N1 N2]. split; [exact N1|exact (se_otx _ _ H N2)].
Qed.
(* a result that stops the stream: nothing is claimed about the state (not even between calls) *)
Lemma SPost_bad gap rc c' : c_fault c' = false -> ~ sokrc rc -> SPost gap rc c'.
Proof. intros F N. unfold sokrc, dokrc in *. split; [exact F|split; [intros Q; contradiction|split; [intros Q; exfalso; apply N; tauto|split; intros Q; exfalso; apply N; tauto]]]. Qed.
Lemma hk_not_armed c c' : hk_le (hook_out c) (hook_out c') -> ~ armed (c_out c) -> ~ armed (c_out c').
Proof. intros [Q|Q] N U; unfold armed, hook_out in *; [apply N; congruence|congruence]. Qed.
Lemma SEs_not_armed gap c c' : SEs gap c c' -> ~ armed (c_out c) -> ~ armed (c_out c').
Proof. intros (_ & _ & _ & _ & _ & Hh & _) N. eapply hk_not_armed; eassumption. Qed.
Lemma SEs_status gap c c' : SEs gap c c' -> c_out_status c' = c_out_status c.
Proof. intros (_ & _ & _ & _ & _ & _ & S). exact S. Qed.
Lemma SEs_state gap c c' : SEs gap c c' -> c_out_state c' = c_out_state c.
Proof. intros (_ & S & _). exact S. Qed.
Lemma SEs_SE gap c c' : SEs gap c c' -> SE gap c'.
Proof. intros (H & _). exact H. Qed.
Lemma SEs_len gap c c' : SEs gap c c' -> k_len (c_out c') = k_len (c_out c).
Proof. intros (_ & _ & _ & _ & L & _). exact L. Qed.

Ltac notsok := let Q := fresh "Q" in intros [Q|[Q|[Q|Q]]]; discriminate Q.
(* the last side condition of SPost_of_SE / SPost_mk *)
Ltac ebt :=
  let QQ := fresh "QQ" in intros QQ;
  first [ destruct QQ as [QQ|[QQ|QQ]]; discriminate QQ
        | apply eb_na; first [assumption | eapply SEs_not_armed; eassumption]
        | apply eb_st; first [left; congruence | right; congruence] ].


Ltac not_armed_state := let Q := fresh "Q" in intros [Q|[Q|[Q|Q]]]; congruence.

Section ResStates.
Variable cb : cb_oracle.
Variable g : cfg.
Hypothesis cb_nodestroy : forall h n, cb h n <> CB_DESTROY_TX.

Lemma SE_otx_state gap c : SE gap c -> c_out_state c <> RES_IDLE -> c_out_tx c <> None.
Proof. intros H. exact (se_otx _ _ H). Qed.

(* connp->out_state = s on a parser whose receiver is not armed *)
Lemma set_state_plain gap s c :
  SE gap c -> ~ armed (c_out c) -> s <> RES_IDLE -> c_out_state c <> RES_IDLE ->
  ((k_consume (c_out c) <= k_read (c_out c))%nat \/ (s = RES_BODY_IDENTITY_STREAM_CLOSE /\ k_len (c_out c) <> O)) ->
  SE gap (rs_set_state s c) /\ ~ armed (c_out (rs_set_state s c)).
Proof.
  intros H Na Ns Ni Hc. split; [|exact Na]. apply rs_set_state_SE; try assumption. exact (se_otx _ _ H Ni).
Qed.

(* htp_connp_RES_BODY_CHUNKED_DATA_END *)
Lemma rs_chunked_data_end_loop_SE fuel : forall c rc c',
  SE false c -> c_out_state c = RES_BODY_CHUNKED_DATA_END -> ~ armed (c_out c) ->
  (k_len (c_out c) - k_read (c_out c) < fuel)%nat ->
  rs_chunked_data_end_loop fuel c = (rc, c') -> SPost false rc c'.
Proof.
  induction fuel as [|f IH]; intros c rc c' H Es Na Hf E; [lia|]. cbn [rs_chunked_data_end_loop] in E.
  destruct (rs_next_byte c) as [c1|] eqn:En.
  2: { injection E as <- <-. apply SPost_of_SE; [exact H|discriminate|discriminate|ebt]. }
  destruct (rs_next_byte_SE c c1 H En) as (Q1 & P1 & P2 & P3 & P4 & P5).
  pose proof (SEs_SE _ _ _ Q1) as H1. pose proof (SEs_state _ _ _ Q1) as S1. rewrite Es in S1.
  assert (N1 : c_out_tx c1 <> None) by (apply (se_otx _ _ H1); rewrite S1; discriminate).
  pose proof (rs_otx_SE false (fun t => t <| t_response_message_len ::= Z.succ |>) c1 H1 N1 ltac:(tx_le_tac)) as Q2.
  destruct (rs_otx_read (fun t => t <| t_response_message_len ::= Z.succ |>) c1 N1) as [Rd2 Cs2].
  set (c2 := rs_otx _ c1) in *.
  pose proof (SEs_SE _ _ _ Q2) as H2. pose proof (SEs_state _ _ _ Q2) as S2. rewrite S1 in S2.
  pose proof (SEs_not_armed _ _ _ Q2 (SEs_not_armed _ _ _ Q1 Na)) as Na2.
  destruct (rs_nb_is c2 LF).
  - injection E as <- <-.
    destruct (set_state_plain false RES_BODY_CHUNKED_LENGTH c2 H2 Na2) as [H3 Na3]; try discriminate; try (rewrite S2; discriminate).
    { left. apply (SE_cons _ _ H2). rewrite S2. discriminate. }
    apply SPost_of_SE; [exact H3|intros _; apply ahead_not_armed; exact Na3|discriminate|ebt].
  - apply (IH c2 rc c' H2 S2 Na2); [|exact E]. rewrite (SEs_len _ _ _ Q2), Rd2, P2, P3. lia.
Qed.
Lemma rs_RES_BODY_CHUNKED_DATA_END_SE c rc c' :
  SI false c -> c_out_state c = RES_BODY_CHUNKED_DATA_END -> rs_RES_BODY_CHUNKED_DATA_END c = (rc, c') -> SPost false rc c'.
Proof.
  intros (H & Ha & _) Es E. unfold rs_RES_BODY_CHUNKED_DATA_END, rs_bytes_fuel in E.
  refine (rs_chunked_data_end_loop_SE _ c rc c' H Es _ _ E); [|lia].
  intros U. destruct (Ha U) as [[Q|[Q|[Q|Q]]] _]; rewrite Es in Q; discriminate.
Qed.

Lemma rs_process_body_SEs gap d n c rc c' : SE gap c -> rs_process_body cb d n c = (rc, c') ->
  SEs gap c c' /\ k_read (c_out c') = k_read (c_out c) /\ k_consume (c_out c') = k_consume (c_out c).
Proof.
  intros H E. unfold rs_process_body in E. destruct (c_out_tx c) as [i|] eqn:Ei.
  - destruct (tx_res_process_body_data_ex_fr cb cb_nodestroy i d n c Ei (SE_out_live _ _ _ H Ei)) as [_ R]. rewrite E in R. cbn [snd] in R.
    split; [exact (SEs_of_fr _ _ _ H R)|]. pose proof (skel_cur_out _ _ (proj1 R)) as Q. unfold cur_core in Q. injection Q as Q1 Q2 Q3 Q4 Q5 Q6 Q7. split; assumption.
  - injection E as <- <-. split; [apply SEs_refl; exact H|split; reflexivity].
Qed.
Lemma btc_le c left : (rs_bytes_to_consume c left <= k_len (c_out c) - k_read (c_out c))%nat.
Proof. unfold rs_bytes_to_consume. destruct (left <? 0); [lia|]. destruct (left <=? _) eqn:E; [|lia]. apply Z.leb_le in E. lia. Qed.

(* a write to a counter of the response direction *)
Lemma SE_set_chunked gap v c : SE gap c -> SE gap (c <| c_out_chunked_length := v |>).
Proof. intros H. apply (SE_onf gap c _ H); [split; reflexivity|]. apply (OW_same gap c _ (se_ow _ _ H)); reflexivity. Qed.
Lemma SE_set_left gap v c : SE gap c -> SE gap (c <| c_out_body_data_left := v |>).
Proof. intros H. apply (SE_onf gap c _ H); [split; reflexivity|]. apply (OW_same gap c _ (se_ow _ _ H)); reflexivity. Qed.

Lemma SE_dnull gap c : SE gap c -> (gap = true -> k_read (c_out c) = O) -> k_data (c_out c) = None -> k_read (c_out c) = O.
Proof.
  intros H Hg Ed. destruct (se_ow _ _ H) as [W1 W2 _ _ _ _]. rewrite Ed in W2. destruct gap; [apply Hg; reflexivity|].
  destruct W2 as [Q|Q]; [discriminate|lia].
Qed.
Lemma SI_not_armed gap c : SI gap c -> ~ armed_state (c_out_state c) -> ~ armed (c_out c).
Proof. intros (_ & Ha & _) N U. exact (N (proj1 (Ha U))). Qed.

Lemma rs_body_slice_eq gap c n : SE gap c -> (k_data (c_out c) = None -> k_read (c_out c) = O) ->
  rs_body_slice c n = (fst (rs_body_slice c n), c).
Proof. intros H Dn. pose proof (rs_body_slice_SE gap c n H Dn) as Q. destruct (rs_body_slice c n). cbn in *. congruence. Qed.

(* consuming n body bytes after the callbacks returned OK *)
Lemma advance_after gap n c c1 :
  SEs gap c c1 -> k_read (c_out c1) = k_read (c_out c) -> k_consume (c_out c1) = k_consume (c_out c) ->
  ~ armed (c_out c) -> (n <= k_len (c_out c) - k_read (c_out c))%nat ->
  SEs gap c (rs_advance n c1) /\ ~ armed (c_out (rs_advance n c1)) /\ k_read (c_out (rs_advance n c1)) = (k_read (c_out c) + n)%nat /\
  ((k_consume (c_out c) <= k_read (c_out c))%nat -> (k_consume (c_out (rs_advance n c1)) <= k_read (c_out (rs_advance n c1)))%nat).
Proof.
  intros Q1 Rd1 Cs1 Na Hn. pose proof (SEs_not_armed _ _ _ Q1 Na) as Na1.
  assert (Hn1 : (n <= k_len (c_out c1) - k_read (c_out c1))%nat) by (rewrite (SEs_len _ _ _ Q1), Rd1; exact Hn).
  pose proof (rs_advance_SE gap n c1 (SEs_SE _ _ _ Q1) Hn1 Na1) as Q2.
  split; [eapply SEs_trans; eassumption|]. split; [eapply SEs_not_armed; eassumption|].
  unfold rs_advance, rs_set_out. cbn. split; [lia|intros Q; lia].
Qed.

(* htp_connp_RES_BODY_CHUNKED_DATA *)
Lemma rs_RES_BODY_CHUNKED_DATA_SE c rc c' :
  SI false c -> c_out_state c = RES_BODY_CHUNKED_DATA -> rs_RES_BODY_CHUNKED_DATA cb c = (rc, c') -> SPost false rc c'.
Proof.
  intros HI Es E. pose proof HI as (H & Ha & _).
  assert (Na : ~ armed (c_out c)) by (apply (SI_not_armed _ _ HI); rewrite Es; not_armed_state).
  unfold rs_RES_BODY_CHUNKED_DATA in E.
  destruct (_ =? 0)%nat; [injection E as <- <-; apply SPost_of_SE; [exact H|discriminate|discriminate|ebt]|].
  rewrite (rs_body_slice_eq false c _ H (SE_dnull _ _ H ltac:(discriminate))) in E.
  match type of E with context [rs_process_body cb ?d ?n c] => destruct (rs_process_body cb d n c) as [rc1 c1] eqn:Ep;
    destruct (rs_process_body_SEs false d n c rc1 c1 H Ep) as (Q1 & Rd1 & Cs1) end.
  assert (Bad : forall r, r <> ST_OK -> (rc, c') = (r, c1) -> SPost false rc c').
  { intros r Nr Q. injection Q as -> ->. apply SPost_of_SE; [exact (SEs_SE _ _ _ Q1)|intros Q; contradiction|idtac|ebt].
    intros _. rewrite (SEs_state _ _ _ Q1), Es. split; discriminate. }
  destruct rc1; try (refine (Bad _ _ (eq_sym E)); discriminate).
  destruct (advance_after false (rs_bytes_to_consume c (c_out_chunked_length c)) c c1 Q1 Rd1 Cs1 Na (btc_le c (c_out_chunked_length c))) as (Q2 & Na2 & Rd2 & Cs2).
  set (c2 := rs_advance _ c1) in *.
  pose proof (SE_set_chunked false (c_out_chunked_length c2 - Z.of_nat (rs_bytes_to_consume c (c_out_chunked_length c))) c2 (SEs_SE _ _ _ Q2)) as H3.
  set (c3 := c2 <| c_out_chunked_length := _ |>) in *.
  assert (S3 : c_out_state c3 = RES_BODY_CHUNKED_DATA) by (change (c_out_state c3) with (c_out_state c2); rewrite (SEs_state _ _ _ Q2); exact Es).
  assert (Na3 : ~ armed (c_out c3)) by exact Na2.
  destruct (c_out_chunked_length c3 =? 0); injection E as <- <-.
  - destruct (set_state_plain false RES_BODY_CHUNKED_DATA_END c3 H3 Na3) as [H4 Na4]; try discriminate; try (rewrite S3; discriminate).
    { left. apply (SE_cons _ _ H3). rewrite S3. discriminate. }
    apply SPost_of_SE; [exact H4|intros _; apply ahead_not_armed; exact Na4|discriminate|ebt].
  - apply SPost_of_SE; [exact H3|discriminate|discriminate|ebt].
Qed.

Lemma SPost_mk gap rc c' :
  SE gap c' -> (rc = ST_OK -> ahead c' /\ ghead gap c') ->
  (rc = ST_DATA_BUFFER -> c_out_state c' <> RES_BODY_IDENTITY_STREAM_CLOSE /\ c_out_state c' <> RES_IDLE) ->
  (dokrc rc -> eb c') -> SPost gap rc c'.
Proof.
  intros H Ha Hb He. split; [exact (se_fault _ _ H)|split; [intros _; exact H|split; [exact Ha|split; [|exact He]]]].
  intros Q. destruct (Hb Q) as [N1 N2]. split; [exact N1|exact (se_otx _ _ H N2)].
Qed.
Lemma ghead_state gap c : (c_out_state c <> RES_BODY_IDENTITY_CL_KNOWN /\ c_out_state c <> RES_BODY_IDENTITY_STREAM_CLOSE /\ c_out_state c <> RES_HEADERS) ->
  ~ armed (c_out c) -> ghead gap c.
Proof. intros (N1 & N2 & N3) Na _. split; [intros [Q|[Q|Q]]; contradiction|apply eb_na; exact Na]. Qed.

(* the result of the final htp_tx_res_process_body_data_ex(tx, NULL, 0) of a body with a known length *)
Lemma final_body_SE gap c rc c' :
  SE gap c -> ~ armed (c_out c) -> c_out_state c <> RES_IDLE -> c_out_state c <> RES_BODY_IDENTITY_STREAM_CLOSE ->
  rs_process_body cb None 0 (rs_set_state RES_FINALIZE c) = (rc, c') -> SPost gap rc c'.
Proof.
  intros H Na Ni Nb E.
  destruct (set_state_plain gap RES_FINALIZE c H Na) as [H1 Na1]; try discriminate; try assumption.
  { left. apply (SE_cons _ _ H). exact Nb. }
  destruct (rs_process_body_SEs gap None 0 _ rc c' H1 E) as (Q2 & _ & _).
  pose proof (SEs_state _ _ _ Q2) as S2. change (c_out_state (rs_set_state RES_FINALIZE c)) with RES_FINALIZE in S2.
  apply SPost_mk; [exact (SEs_SE _ _ _ Q2)|idtac|intros _; rewrite S2; split; discriminate|ebt].
  assert (Na2 : ~ armed (c_out c')) by (eapply SEs_not_armed; eassumption).
  intros _. split; [apply ahead_not_armed; exact Na2|apply ghead_state; [rewrite S2; repeat split; discriminate|exact Na2]].
Qed.

(* htp_connp_RES_BODY_IDENTITY_CL_KNOWN (also runs during gaps) *)
Lemma rs_RES_BODY_IDENTITY_CL_KNOWN_SE gap c rc c' :
  SI gap c -> c_out_state c = RES_BODY_IDENTITY_CL_KNOWN -> rs_RES_BODY_IDENTITY_CL_KNOWN cb c = (rc, c') -> SPost gap rc c'.
Proof.
  intros HI Es E. pose proof HI as (H & Ha & Hg).
  assert (Na : ~ armed (c_out c)) by (apply (SI_not_armed _ _ HI); rewrite Es; not_armed_state).
  assert (Dn : k_data (c_out c) = None -> k_read (c_out c) = O) by (apply (SE_dnull _ _ H); intros G; apply (proj1 (Hg G)); left; exact Es).
  unfold rs_RES_BODY_IDENTITY_CL_KNOWN in E.
  destruct (rs_closed c).
  { apply (final_body_SE gap c rc c' H Na); [rewrite Es; discriminate|rewrite Es; discriminate|exact E]. }
  destruct (_ =? 0)%nat.
  { injection E as <- <-. apply SPost_mk; [exact H|discriminate|discriminate|ebt]. }
  rewrite (rs_body_slice_eq gap c _ H Dn) in E.
  match type of E with context [rs_process_body cb ?d ?n c] => destruct (rs_process_body cb d n c) as [rc1 c1] eqn:Ep;
    destruct (rs_process_body_SEs gap d n c rc1 c1 H Ep) as (Q1 & Rd1 & Cs1) end.
  assert (Bad : forall r, r <> ST_OK -> (rc, c') = (r, c1) -> SPost gap rc c').
  { intros r Nr Q. injection Q as -> ->. apply SPost_mk; [exact (SEs_SE _ _ _ Q1)|intros Q; contradiction|idtac|ebt].
    intros _. rewrite (SEs_state _ _ _ Q1), Es. split; discriminate. }
  destruct rc1; try (refine (Bad _ _ (eq_sym E)); discriminate).
  destruct (advance_after gap (rs_bytes_to_consume c (c_out_body_data_left c)) c c1 Q1 Rd1 Cs1 Na (btc_le c (c_out_body_data_left c))) as (Q2 & Na2 & Rd2 & Cs2).
  set (c2 := rs_advance _ c1) in *.
  pose proof (SE_set_left gap (c_out_body_data_left c2 - Z.of_nat (rs_bytes_to_consume c (c_out_body_data_left c))) c2 (SEs_SE _ _ _ Q2)) as H3.
  set (c3 := c2 <| c_out_body_data_left := _ |>) in *.
  assert (S3 : c_out_state c3 = RES_BODY_IDENTITY_CL_KNOWN) by (change (c_out_state c3) with (c_out_state c2); rewrite (SEs_state _ _ _ Q2); exact Es).
  assert (Na3 : ~ armed (c_out c3)) by exact Na2.
  destruct (c_out_body_data_left c3 =? 0).
  - apply (final_body_SE gap c3 rc c' H3 Na3); [rewrite S3; discriminate|rewrite S3; discriminate|exact E].
  - injection E as <- <-. apply SPost_mk; [exact H3|discriminate|discriminate|ebt].
Qed.

Lemma rs_process_body_rc d n c : fst (rs_process_body cb d n c) = ST_OK \/ fst (rs_process_body cb d n c) = ST_ERROR.
Proof.
  unfold rs_process_body. destruct (c_out_tx c) as [i|]; [|right; reflexivity]. unfold tx_res_process_body_data_ex.
  destruct (_ =? c_HTP_COMPRESSION_NONE); [|right; reflexivity].
  match goal with |- context [res_run_hook_body_data cb ?a ?b ?e ?f] => destruct (res_run_hook_body_data cb a b e f) as [r x] end.
  destruct r; cbn; tauto.
Qed.

(* htp_connp_RES_BODY_IDENTITY_STREAM_CLOSE (also runs during gaps) *)
Lemma rs_RES_BODY_IDENTITY_STREAM_CLOSE_SE gap c rc c' :
  SI gap c -> c_out_state c = RES_BODY_IDENTITY_STREAM_CLOSE -> rs_RES_BODY_IDENTITY_STREAM_CLOSE cb c = (rc, c') -> SPost gap rc c'.
Proof.
  intros HI Es E. pose proof HI as (H & Ha & Hg).
  assert (Na : ~ armed (c_out c)) by (apply (SI_not_armed _ _ HI); rewrite Es; not_armed_state).
  assert (Dn : k_data (c_out c) = None -> k_read (c_out c) = O) by (apply (SE_dnull _ _ H); intros G; apply (proj1 (Hg G)); right; left; exact Es).
  unfold rs_RES_BODY_IDENTITY_STREAM_CLOSE in E.
  pose proof (ow_rd _ _ (se_ow _ _ H)) as W1.
  replace (k_len (c_out c) <? k_read (c_out c))%nat with false in E by (symmetry; apply Nat.ltb_ge; exact W1).
  (* the tail: closed -> FINALIZE, else DATA *)
  assert (Tail : forall cx, SEs gap c cx -> ~ armed (c_out cx) -> c_out_status cx = c_out_status c ->
            ((k_len (c_out c) = O -> (k_consume (c_out cx) <= k_read (c_out cx))%nat)) ->
            (if rs_closed cx then (ST_OK, rs_set_state RES_FINALIZE cx) else (ST_DATA, cx)) = (rc, c') -> SPost gap rc c').
  { intros cx Qx Nax Stx Hcx Ex. pose proof (SEs_SE _ _ _ Qx) as Hx. pose proof (SEs_state _ _ _ Qx) as Sx. rewrite Es in Sx.
    unfold rs_closed in Ex. destruct (c_out_status cx =? c_HTP_STREAM_CLOSED) eqn:Ec; injection Ex as <- <-.
    - apply Z.eqb_eq in Ec. pose proof (ow_closed _ _ (se_ow _ _ Hx) Ec) as L0. rewrite (SEs_len _ _ _ Qx) in L0.
      destruct (set_state_plain gap RES_FINALIZE cx Hx Nax) as [H1 Na1]; try discriminate; try (rewrite Sx; discriminate).
      { left. exact (Hcx L0). }
      apply SPost_mk; [exact H1|idtac|discriminate|ebt].
      intros _. split; [apply ahead_not_armed; exact Na1|apply ghead_state; [cbn; repeat split; discriminate|exact Na1]].
    - apply SPost_mk; [exact Hx|discriminate|discriminate|ebt]. }
  destruct (_ =? 0)%nat eqn:En.
  { apply (Tail c (SEs_refl _ _ H) Na eq_refl); [|exact E].
    intros L0. destruct (ow_cons _ _ (se_ow _ _ H)) as [[_ Q]|Q]; [contradiction|exact Q]. }
  rewrite (rs_body_slice_eq gap c _ H Dn) in E.
  match type of E with context [rs_process_body cb ?d ?n c] => destruct (rs_process_body cb d n c) as [rc1 c1] eqn:Ep;
    destruct (rs_process_body_SEs gap d n c rc1 c1 H Ep) as (Q1 & Rd1 & Cs1) end.
  pose proof (rs_process_body_rc (fst (rs_body_slice c (k_len (c_out c) - k_read (c_out c)))) (k_len (c_out c) - k_read (c_out c)) c) as Hrc.
  rewrite Ep in Hrc. cbn [fst] in Hrc.
  destruct Hrc as [-> | ->].
  2: { injection E as <- <-. apply SPost_mk; [exact (SEs_SE _ _ _ Q1)|discriminate|discriminate|ebt]. }
  destruct (advance_after gap (k_len (c_out c) - k_read (c_out c)) c c1 Q1 Rd1 Cs1 Na ltac:(lia)) as (Q2 & Na2 & Rd2 & Cs2).
  apply (Tail _ Q2 Na2); [|idtac|exact E].
  - exact (SEs_status _ _ _ Q2).
  - intros L0. apply Cs2. destruct (ow_cons _ _ (se_ow _ _ H)) as [[_ Q]|Q]; [contradiction|exact Q].
Qed.
End ResStates.

(* RES_BODY_CHUNKED_LENGTH on an invalid length: un-read the line, go on as a close-delimited body *)
Lemma unread_to_stream_close r c :
  SE false c -> ~ armed (c_out c) -> c_out_tx c <> None -> k_len (c_out c) <> O -> (r <= k_len (c_out c))%nat ->
  SE false (rs_set_state RES_BODY_IDENTITY_STREAM_CLOSE (rs_set_out (fun k => k <| k_read := r |>) c)).
Proof.
  intros [A1 [W1 W2 W3 W4 W5 W6] [[T1 T2 T3 T4] [B1 B2 B3]] A4 A5 A6 A7] Na N L0 Hr. unfold rs_set_state, rs_set_out.
  constructor; try assumption.
  - apply (mkOW false); cbn; try assumption; try (left; split; [reflexivity|exact L0]); try (intros U; contradiction); try (intros Q; discriminate).
  - split; constructor; try assumption. intros Q. cbn in Q. discriminate.
  - intros _. exact N.
Qed.

Section ResStates2.
Variable cb : cb_oracle.
Variable g : cfg.
Hypothesis cb_nodestroy : forall h n, cb h n <> CB_DESTROY_TX.

(* htp_connp_RES_BODY_CHUNKED_LENGTH *)
Lemma rs_chunked_length_loop_SE fuel : forall c rc c',
  SE false c -> c_out_state c = RES_BODY_CHUNKED_LENGTH -> ~ armed (c_out c) ->
  (k_len (c_out c) - k_read (c_out c) < fuel)%nat ->
  rs_chunked_length_loop g fuel c = (rc, c') -> SPost false rc c'.
Proof.
  induction fuel as [|f IH]; intros c rc c' H Es Na Hf E; [lia|]. cbn [rs_chunked_length_loop] in E.
  destruct (rs_copy_byte c) as [c1|] eqn:Ec.
  2: { injection E as <- <-. apply SPost_of_SE; [exact H|discriminate|intros _; rewrite Es; split; discriminate|ebt]. }
  destruct (rs_copy_byte_SE c c1 H Ec) as (Q1 & P1 & P2 & P3 & P4 & P5 & P6).
  pose proof (SEs_SE _ _ _ Q1) as H1. pose proof (SEs_state _ _ _ Q1) as S1. rewrite Es in S1.
  pose proof (SEs_not_armed _ _ _ Q1 Na) as Na1.
  destruct (_ || _).
  2: { apply (IH c1 rc c' H1 S1 Na1); [lia|exact E]. }
  assert (N1 : c_out_tx c1 <> None) by (apply (se_otx _ _ H1); rewrite S1; discriminate).
  destruct (rs_consolidate g c1) as [r c2] eqn:Eco.
  destruct (rs_consolidate_SE g c1 r c2 H1 ltac:(rewrite S1; discriminate) N1 Eco) as (Q2 & D2 & L2 & R2).
  pose proof (SEs_SE _ _ _ Q2) as H2. pose proof (SEs_state _ _ _ Q2) as S2. rewrite S1 in S2.
  pose proof (SEs_not_armed _ _ _ Q2 Na1) as Na2.
  destruct r as [data|].
  2: { injection E as <- <-. apply SPost_of_SE; [exact H2|discriminate|discriminate|ebt]. }
  assert (N2 : c_out_tx c2 <> None) by (apply (se_otx _ _ H2); rewrite S2; discriminate).
  match type of E with context [rs_otx ?f c2] =>
    pose proof (rs_otx_SE false f c2 H2 N2 ltac:(tx_le_tac)) as Q3; destruct (rs_otx_read f c2 N2) as [R3 C3]; set (c3 := rs_otx f c2) in * end.
  pose proof (SEs_SE _ _ _ Q3) as H3. pose proof (SEs_state _ _ _ Q3) as S3. rewrite S2 in S3.
  pose proof (SEs_not_armed _ _ _ Q3 Na2) as Na3.
  set (cl := fst (parse_chunked_length (rs_dbytes data))) in *.
  pose proof (SE_set_chunked false cl c3 H3) as H4. set (c4 := c3 <| c_out_chunked_length := cl |>) in *.
  assert (S4 : c_out_state c4 = RES_BODY_CHUNKED_LENGTH) by exact S3.
  assert (Na4 : ~ armed (c_out c4)) by exact Na3.
  assert (L4 : k_len (c_out c4) = k_len (c_out c) /\ k_read (c_out c4) = S (k_read (c_out c))).
  { change (k_len (c_out c4)) with (k_len (c_out c3)). change (k_read (c_out c4)) with (k_read (c_out c3)).
    rewrite (SEs_len _ _ _ Q3), R3, L2, R2, P2, P3. split; reflexivity. }
  destruct L4 as [L4 R4].
  assert (N4 : c_out_tx c4 <> None) by (apply (se_otx _ _ H4); rewrite S4; discriminate).
  destruct (cl =? -1004).
  { pose proof (rs_clear_buffer_SE false c4 H4) as Q5.
    apply (IH _ rc c' (SEs_SE _ _ _ Q5)); [rewrite (SEs_state _ _ _ Q5); exact S4|eapply SEs_not_armed; eassumption|idtac|exact E].
    rewrite (SEs_len _ _ _ Q5). change (k_read (c_out (rs_clear_buffer c4))) with (k_read (c_out c4)). lia. }
  destruct (cl <? 0).
  { injection E as <- <-.
    match goal with |- context [rs_set_out (fun k => k <| k_read := @?r k |>) c4] => set (r' := r (c_out c4)) end.
    assert (Hr : (r' <= k_len (c_out c4))%nat).
    { subst r'. cbn beta. destruct (_ <? _)%nat; lia. }
    pose proof (unread_to_stream_close r' c4 H4 Na4 N4 ltac:(lia) Hr) as H5.
    match goal with |- SPost _ _ (rs_otx ?f ?x) =>
      assert (Ex : x = rs_set_state RES_BODY_IDENTITY_STREAM_CLOSE (rs_set_out (fun k => k <| k_read := r' |>) c4)) by reflexivity;
      rewrite Ex; pose proof (rs_otx_SE false f _ H5 N4 ltac:(tx_le_tac)) as Q6 end.
    apply SPost_of_SE; [exact (SEs_SE _ _ _ Q6)|intros _; apply ahead_not_armed; eapply SEs_not_armed; [exact Q6|exact Na4]|discriminate|ebt]. }
  pose proof (rs_clear_buffer_SE false c4 H4) as Q5. set (c5 := rs_clear_buffer c4) in *.
  pose proof (SEs_SE _ _ _ Q5) as H5. pose proof (SEs_state _ _ _ Q5) as S5. rewrite S4 in S5.
  pose proof (SEs_not_armed _ _ _ Q5 Na4) as Na5.
  assert (C5 : (k_consume (c_out c5) <= k_read (c_out c5))%nat) by (apply (SE_cons _ _ H5); rewrite S5; discriminate).
  destruct (0 <? cl); injection E as <- <-.
  - destruct (set_state_plain false RES_BODY_CHUNKED_DATA c5 H5 Na5) as [H6 Na6]; try discriminate; try (rewrite S5; discriminate); [left; exact C5|].
    apply SPost_of_SE; [exact H6|intros _; apply ahead_not_armed; exact Na6|discriminate|ebt].
  - destruct (set_state_plain false RES_HEADERS c5 H5 Na5) as [H6 Na6]; try discriminate; try (rewrite S5; discriminate); [left; exact C5|].
    assert (N6 : c_out_tx (rs_set_state RES_HEADERS c5) <> None) by (apply (se_otx _ _ H6); discriminate).
    match goal with |- SPost _ _ (rs_otx ?f _) => pose proof (rs_otx_SE false f _ H6 N6 ltac:(tx_le_tac)) as Q7 end.
    apply SPost_of_SE; [exact (SEs_SE _ _ _ Q7)|intros _; apply ahead_not_armed; eapply SEs_not_armed; [exact Q7|exact Na6]|discriminate|ebt].
Qed.
Lemma rs_RES_BODY_CHUNKED_LENGTH_SE c rc c' :
  SI false c -> c_out_state c = RES_BODY_CHUNKED_LENGTH -> rs_RES_BODY_CHUNKED_LENGTH g c = (rc, c') -> SPost false rc c'.
Proof.
  intros HI Es E. pose proof HI as (H & Ha & _). unfold rs_RES_BODY_CHUNKED_LENGTH, rs_bytes_fuel in E.
  refine (rs_chunked_length_loop_SE _ c rc c' H Es _ _ E); [|lia].
  apply (SI_not_armed _ _ HI). rewrite Es. not_armed_state.
Qed.
End ResStates2.

(* a step together with what it does to the read offset *)
Definition SEr (gap : bool) (c c' : connp) : Prop := SEs gap c c' /\ k_read (c_out c') = k_read (c_out c).
Lemma SEr_refl gap c : SE gap c -> SEr gap c c. Proof. intros H. split; [apply SEs_refl; exact H|reflexivity]. Qed.
Lemma SEr_trans gap a b c : SEr gap a b -> SEr gap b c -> SEr gap a c.
Proof. intros [A1 A2] [B1 B2]. split; [eapply SEs_trans; eassumption|congruence]. Qed.
Lemma SEr_SE gap c c' : SEr gap c c' -> SE gap c'. Proof. intros [Q _]. exact (SEs_SE _ _ _ Q). Qed.
Lemma SEr_state gap c c' : SEr gap c c' -> c_out_state c' = c_out_state c. Proof. intros [Q _]. exact (SEs_state _ _ _ Q). Qed.
Lemma SEr_len gap c c' : SEr gap c c' -> k_len (c_out c') = k_len (c_out c). Proof. intros [Q _]. exact (SEs_len _ _ _ Q). Qed.
Lemma SEr_read gap c c' : SEr gap c c' -> k_read (c_out c') = k_read (c_out c). Proof. intros [_ Q]. exact Q. Qed.
Lemma SEr_status gap c c' : SEr gap c c' -> c_out_status c' = c_out_status c. Proof. intros [Q _]. exact (SEs_status _ _ _ Q). Qed.

Lemma otx_SEr gap f c : SE gap c -> c_out_state c <> RES_IDLE -> (forall t, tx_le t (f t)) -> SEr gap c (rs_otx f c).
Proof.
  intros H Ni Hf. pose proof (se_otx _ _ H Ni) as N. split; [apply rs_otx_SE; assumption|exact (proj1 (rs_otx_read f c N))].
Qed.
Lemma clear_buffer_SEr gap c : SE gap c -> SEr gap c (rs_clear_buffer c).
Proof. intros H. split; [apply rs_clear_buffer_SE; exact H|reflexivity]. Qed.
Lemma set_header_SEr gap h c : SE gap c -> SEr gap c (rs_set_header h c).
Proof. intros H. split; [apply rs_set_header_SE; exact H|reflexivity]. Qed.
Lemma set_nb_SEr gap v c : SE gap c -> SEr gap c (rs_set_out (fun k => k <| k_next_byte := v |>) c).
Proof. intros H. split; [apply rs_set_nb_SE; exact H|reflexivity]. Qed.
Lemma peek_SEr c : SE false c -> SEr false c (rs_peek_next c).
Proof.
  intros H. destruct (rs_peek_next_SE c H) as (Q & P & _). split; [exact Q|]. unfold opos in P. congruence.
Qed.
Lemma consolidate_SEr g c r c1 : SE false c -> c_out_state c <> RES_BODY_IDENTITY_STREAM_CLOSE -> c_out_state c <> RES_IDLE ->
  rs_consolidate g c = (r, c1) -> SEr false c c1.
Proof.
  intros H Nb Ni E. destruct (rs_consolidate_SE g c r c1 H Nb (se_otx _ _ H Ni) E) as (Q & _ & _ & Rd). split; assumption.
Qed.
Lemma process_body_SEr cb (Hcb : forall h n, cb h n <> CB_DESTROY_TX) gap d n c rc c' : SE gap c -> rs_process_body cb d n c = (rc, c') -> SEr gap c c'.
Proof. intros H E. destruct (rs_process_body_SEs cb Hcb gap d n c rc c' H E) as (Q & Rd & _). split; assumption. Qed.

(* connp->out_state = s while the receiver may be armed: the caller shows what the head of the loop needs *)
Lemma set_state_SEr gap s c : SE gap c -> s <> RES_IDLE -> c_out_state c <> RES_IDLE -> c_out_state c <> RES_BODY_IDENTITY_STREAM_CLOSE ->
  SE gap (rs_set_state s c) /\ k_read (c_out (rs_set_state s c)) = k_read (c_out c) /\ k_len (c_out (rs_set_state s c)) = k_len (c_out c) /\
  hook_out (rs_set_state s c) = hook_out c /\ c_out_status (rs_set_state s c) = c_out_status c.
Proof.
  intros H Ns Ni Nb. split; [|repeat split]. apply rs_set_state_SE; try assumption; [exact (se_otx _ _ H Ni)|left; apply (SE_cons _ _ H Nb)].
Qed.

(* the head condition for a result in RES_LINE / RES_HEADERS / RES_BODY_DETERMINE *)
Lemma ahead_state c : (c_out_state c = RES_LINE \/ c_out_state c = RES_HEADERS \/ c_out_state c = RES_BODY_DETERMINE) -> ahead c.
Proof.
  intros Hs _. split; [unfold armed_state; tauto|]. intros Q. destruct Hs as [Q1|[Q1|Q1]]; congruence.
Qed.
Lemma ahead_finalize c : c_out_state c = RES_FINALIZE -> (k_len (c_out c) <= k_read (c_out c))%nat -> ahead c.
Proof. intros Es L _. split; [right; right; right; exact Es|intros _; exact L]. Qed.

Section ResLine.
Variable cb : cb_oracle.
Variable g : cfg.
Hypothesis cb_nodestroy : forall h n, cb h n <> CB_DESTROY_TX.

Ltac line_same H := apply SPost_of_SE; [exact H|intros _; apply ahead_state; left; congruence|intros _; split; congruence|ebt].

(* the part of htp_connp_RES_LINE after a complete line *)
Lemma rs_line_complete_SE c rc c' :
  SE false c -> c_out_state c = RES_LINE -> rs_line_complete cb g c = (rc, c') -> SPost false rc c'.
Proof.
  intros H Es E. unfold rs_line_complete in E.
  destruct (rs_consolidate g c) as [r c1] eqn:Eco.
  pose proof (consolidate_SEr g c r c1 H ltac:(rewrite Es; discriminate) ltac:(rewrite Es; discriminate) Eco) as Q1.
  pose proof (SEr_SE _ _ _ Q1) as H1. pose proof (SEr_state _ _ _ Q1) as S1. rewrite Es in S1.
  destruct r as [data|]; [|injection E as <- <-; apply SPost_of_SE; [exact H1|discriminate|discriminate|ebt]].
  destruct (rs_is_line_ignorable (g_personality g) (rs_dbytes data)).
  { (* ignorable line *)
    set (c2 := if rs_closed c1 then rs_set_state RES_FINALIZE c1 else c1) in *.
    assert (P2 : SE false c2 /\ k_read (c_out c2) = k_read (c_out c1) /\ k_len (c_out c2) = k_len (c_out c1) /\
                 ((c_out_state c2 = RES_LINE) \/ (c_out_state c2 = RES_FINALIZE /\ k_len (c_out c2) = O))).
    { subst c2. unfold rs_closed. destruct (c_out_status c1 =? c_HTP_STREAM_CLOSED) eqn:Ec.
      - apply Z.eqb_eq in Ec. pose proof (ow_closed _ _ (se_ow _ _ H1) Ec) as L0.
        destruct (set_state_SEr false RES_FINALIZE c1 H1) as (X1 & X2 & X3 & _); try discriminate; try (rewrite S1; discriminate).
        split; [exact X1|split; [exact X2|split; [exact X3|right; split; [reflexivity|rewrite X3; exact L0]]]].
      - split; [exact H1|split; [reflexivity|split; [reflexivity|left; exact S1]]]. }
    destruct P2 as (H2 & R2 & L2 & St2).
    assert (Ni2 : c_out_state c2 <> RES_IDLE) by (destruct St2 as [Q|[Q _]]; rewrite Q; discriminate).
    match type of E with context [rs_otx ?f c2] => pose proof (otx_SEr false f c2 H2 Ni2 ltac:(tx_le_tac)) as Q3; set (c3 := rs_otx f c2) in * end.
    pose proof (clear_buffer_SEr false c3 (SEr_SE _ _ _ Q3)) as Q4. pose proof (SEr_trans _ _ _ _ Q3 Q4) as Q34.
    injection E as <- <-. pose proof (SEr_SE _ _ _ Q34) as H4.
    apply SPost_of_SE; [exact H4|idtac|discriminate|ebt].
    intros _. destruct St2 as [Q|[Q L0]].
    - apply ahead_state. left. rewrite (SEr_state _ _ _ Q34). exact Q.
    - apply ahead_finalize; [rewrite (SEr_state _ _ _ Q34); exact Q|rewrite (SEr_len _ _ _ Q34), L0; lia]. }
  match type of E with context [rs_otx ?f c1] => pose proof (otx_SEr false f c1 H1 ltac:(rewrite S1; discriminate) ltac:(tx_le_tac)) as Q2; set (c2 := rs_otx f c1) in * end.
  pose proof (SEr_SE _ _ _ Q2) as H2. pose proof (SEr_state _ _ _ Q2) as S2. rewrite S1 in S2.
  destruct (rs_chomp (rs_dbytes data)) as [dc chomp_result].
  destruct (rs_treat_response_line_as_body _).
  2: { (* a response line *)
    match type of E with context [rs_otx ?f c2] => pose proof (otx_SEr false f c2 H2 ltac:(rewrite S2; discriminate)) as Q3; set (c3 := rs_otx f c2) in * end.
    assert (Q3' : SEr false c2 c3) by (apply Q3; intros t; apply tx_le_of_prog3; reflexivity). clear Q3.
    pose proof (SEr_SE _ _ _ Q3') as H3. pose proof (SEr_state _ _ _ Q3') as S3. rewrite S2 in S3.
    assert (N3 : c_out_tx c3 <> None) by (apply (se_otx _ _ H3); rewrite S3; discriminate).
    unfold out_txi in E. destruct (c_out_tx c3) as [i|] eqn:Ei; [|congruence].
    pose proof (response_line_SE cb cb_nodestroy false i c3 H3 Ei) as Q4.
    destruct (tx_state_response_line cb i c3) as [rc4 c4]. cbn [snd] in Q4.
    pose proof (SEs_SE _ _ _ Q4) as H4. pose proof (SEs_state _ _ _ Q4) as S4. rewrite S3 in S4.
    destruct rc4; try (injection E as <- <-; line_same H4).
    pose proof (clear_buffer_SEr false c4 H4) as Q5. set (c5 := rs_clear_buffer c4) in *.
    pose proof (SEr_SE _ _ _ Q5) as H5. pose proof (SEr_state _ _ _ Q5) as S5. rewrite S4 in S5.
    destruct (set_state_SEr false RES_HEADERS c5 H5) as (H6 & _); try discriminate; try (rewrite S5; discriminate).
    match type of E with context [rs_otx ?f (rs_set_state RES_HEADERS c5)] => pose proof (otx_SEr false f _ H6 ltac:(discriminate) ltac:(tx_le_tac)) as Q7 end.
    injection E as <- <-. apply SPost_of_SE; [exact (SEr_SE _ _ _ Q7)|idtac|discriminate|ebt].
    intros _. apply ahead_state. right. left. rewrite (SEr_state _ _ _ Q7). reflexivity. }
  (* the line is taken as body data *)
  set (c3 := if (S (k_read (c_out c2)) <? k_len (c_out c2))%nat then match rs_cur_byte c2 (k_read (c_out c2)) with Some _ => c2 | None => rs_fault c2 end else c2) in *.
  assert (E3 : c3 = c2).
  { subst c3. destruct (S (k_read (c_out c2)) <? k_len (c_out c2))%nat eqn:El; [|reflexivity]. apply Nat.ltb_lt in El.
    assert (Hb : rs_has_byte c2 = true) by (unfold rs_has_byte; apply Nat.ltb_lt; lia).
    destruct (has_byte_readable false c2 (se_ow _ _ H2) eq_refl Hb) as (d & b & Ed & En & Lt).
    unfold rs_cur_byte. rewrite Ed. replace (k_read (c_out c2) <? k_len (c_out c2))%nat with true by (symmetry; apply Nat.ltb_lt; exact Lt). rewrite En. reflexivity. }
  rewrite E3 in E. clear c3 E3.
  destruct (_ && _).
  { match type of E with context [rs_otx ?f c2] => pose proof (otx_SEr false f c2 H2 ltac:(rewrite S2; discriminate) ltac:(tx_le_tac)) as Q3; set (c3 := rs_otx f c2) in * end.
    pose proof (clear_buffer_SEr false c3 (SEr_SE _ _ _ Q3)) as Q4. pose proof (SEr_trans _ _ _ _ Q3 Q4) as Q34.
    injection E as <- <-. pose proof (SEr_state _ _ _ Q34) as S4. rewrite S2 in S4. line_same (SEr_SE _ _ _ Q34). }
  match type of E with context [rs_otx ?f c2] => pose proof (otx_SEr false f c2 H2 ltac:(rewrite S2; discriminate) ltac:(tx_le_tac)) as Q3; set (c3 := rs_otx f c2) in * end.
  pose proof (SEr_SE _ _ _ Q3) as H3. pose proof (SEr_state _ _ _ Q3) as S3. rewrite S2 in S3.
  assert (Q4 : SEr false c3 (rs_set_out (fun k => k <| k_consume := k_read k |>) c3)).
  { split; [|reflexivity]. apply rs_set_out_SE; try reflexivity; try exact H3; cbn.
    all: try (pose proof (ow_rd _ _ (se_ow _ _ H3)); lia); try (intros; first [discriminate | lia]). }
  set (c4 := rs_set_out _ c3) in *.
  pose proof (SEr_SE _ _ _ Q4) as H4. pose proof (SEr_state _ _ _ Q4) as S4. rewrite S3 in S4.
  match type of E with context [rs_process_body cb ?d ?n c4] => destruct (rs_process_body cb d n c4) as [rc5 c5] eqn:Ep;
    pose proof (process_body_SEr cb cb_nodestroy false d n c4 rc5 c5 H4 Ep) as Q5 end.
  pose proof (clear_buffer_SEr false c5 (SEr_SE _ _ _ Q5)) as Q6. pose proof (SEr_trans _ _ _ _ Q5 Q6) as Q56.
  set (c6 := rs_clear_buffer c5) in *.
  pose proof (SEr_SE _ _ _ Q56) as H6. pose proof (SEr_state _ _ _ Q56) as S6. rewrite S4 in S6.
  destruct rc5; try (injection E as <- <-; line_same H6).
  destruct (k_len (c_out c6) <=? k_read (c_out c6))%nat eqn:El; [|injection E as <- <-; line_same H6].
  apply Nat.leb_le in El.
  match type of E with context [rs_otx ?f c6] => pose proof (otx_SEr false f c6 H6 ltac:(rewrite S6; discriminate) ltac:(tx_le_tac)) as Q7; set (c7 := rs_otx f c6) in * end.
  pose proof (SEr_SE _ _ _ Q7) as H7. pose proof (SEr_state _ _ _ Q7) as S7. rewrite S6 in S7.
  pose proof (SE_set_left false (-1) c7 H7) as H8.
  destruct (set_state_SEr false RES_FINALIZE (c7 <| c_out_body_data_left := -1 |>) H8) as (H9 & R9 & L9 & _); try discriminate; try (cbn; rewrite S7; discriminate).
  injection E as <- <-. apply SPost_of_SE; [exact H9|idtac|discriminate|ebt].
  intros _. apply ahead_finalize; [reflexivity|]. rewrite L9, R9. change (k_len (c_out (c7 <| c_out_body_data_left := -1 |>))) with (k_len (c_out c7)).
  change (k_read (c_out (c7 <| c_out_body_data_left := -1 |>))) with (k_read (c_out c7)). rewrite (SEr_len _ _ _ Q7), (SEr_read _ _ _ Q7). exact El.
Qed.

Lemma closed_no_byte c : SE false c -> rs_closed c = true -> rs_has_byte c = false.
Proof.
  intros H Ec. unfold rs_closed in Ec. apply Z.eqb_eq in Ec. pose proof (ow_closed _ _ (se_ow _ _ H) Ec) as L0.
  unfold rs_has_byte. apply Nat.ltb_ge. lia.
Qed.

(* htp_connp_RES_LINE *)
Lemma rs_line_loop_SE fuel : forall c rc c',
  SE false c -> c_out_state c = RES_LINE -> (k_len (c_out c) - k_read (c_out c) < fuel)%nat ->
  rs_line_loop cb g fuel c = (rc, c') -> SPost false rc c'.
Proof.
  induction fuel as [|f IH]; intros c rc c' H Es Hf E; [lia|]. cbn [rs_line_loop] in E.
  assert (St : (exists c1, (if negb (rs_closed c) then rs_copy_byte c else Some c) = Some c1 /\ SE false c1 /\ c_out_state c1 = RES_LINE /\
               k_len (c_out c1) = k_len (c_out c) /\ c_out_status c1 = c_out_status c /\
               ((rs_closed c = false /\ k_read (c_out c1) = S (k_read (c_out c)) /\ (k_read (c_out c) < k_len (c_out c))%nat) \/ (rs_closed c = true /\ c1 = c)))
          \/ (if negb (rs_closed c) then rs_copy_byte c else Some c) = None).
  { destruct (rs_closed c) eqn:Ec; cbn [negb].
    - left. exists c. split; [reflexivity|split; [exact H|split; [exact Es|split; [reflexivity|split; [reflexivity|right; split; reflexivity]]]]].
    - destruct (rs_copy_byte c) as [c1|] eqn:Eb; [left|right; reflexivity].
      destruct (rs_copy_byte_SE c c1 H Eb) as (Q1 & P1 & P2 & P3 & P4 & P5 & P6). exists c1.
      split; [reflexivity|split; [exact (SEs_SE _ _ _ Q1)|split; [rewrite (SEs_state _ _ _ Q1); exact Es|split; [exact P2|split; [exact (SEs_status _ _ _ Q1)|left; repeat split; assumption]]]]]. }
  destruct St as [(c1 & Eq & H1 & S1 & L1 & St1 & Pos)|Eq]; rewrite Eq in E.
  2: { injection E as <- <-. apply SPost_of_SE; [exact H|discriminate|intros _; rewrite Es; split; discriminate|ebt]. }
  assert (Cl1 : rs_closed c1 = rs_closed c) by (unfold rs_closed; rewrite St1; reflexivity).
  (* the CR look-ahead *)
  match type of E with context [match ?X with (act0, c0) => _ end] =>
    assert (Act : exists act c2, X = (act, c2) /\ SEr false c1 c2 /\ (act = 1%nat -> rs_has_byte c1 = true)) end.
  { destruct (rs_nb_is c1 CR); [|exists 2%nat, c1; split; [reflexivity|split; [apply SEr_refl; exact H1|discriminate]]].
    cbv zeta. pose proof (peek_SEr c1 H1) as Q2. destruct (rs_peek_next_SE c1 H1) as (_ & _ & Hn).
    destruct (rs_nb (rs_peek_next c1)) as [b|] eqn:Enb.
    - destruct (b =? LF)%N.
      + exists 1%nat, (rs_peek_next c1). split; [reflexivity|split; [exact Q2|]]. intros _. destruct (rs_has_byte c1) eqn:Hb; [reflexivity|].
        unfold rs_peek_next in Enb. rewrite Hb in Enb. unfold rs_nb, rs_set_out in Enb. cbn in Enb. discriminate Enb.
      + eexists 2%nat, _. split; [reflexivity|split; [|discriminate]]. eapply SEr_trans; [exact Q2|apply set_nb_SEr; exact (SEr_SE _ _ _ Q2)].
    - exists 0%nat, (rs_peek_next c1). split; [reflexivity|split; [exact Q2|discriminate]]. }
  destruct Act as (act & c2 & Ea & Q2 & Hact). rewrite Ea in E. clear Ea.
  pose proof (SEr_SE _ _ _ Q2) as H2. pose proof (SEr_state _ _ _ Q2) as S2. rewrite S1 in S2.
  destruct act as [|[|act]].
  - injection E as <- <-. apply SPost_of_SE; [exact H2|discriminate|intros _; rewrite S2; split; discriminate|ebt].
  - (* CR LF ahead: continue. On a closed stream there is no byte ahead *)
    destruct Pos as [(Ec & R1 & Lt)|(Ec & ->)].
    + apply (IH c2 rc c' H2 S2); [|exact E]. rewrite (SEr_len _ _ _ Q2), (SEr_read _ _ _ Q2), L1, R1. lia.
    + exfalso. rewrite (closed_no_byte c H Ec) in Hact. discriminate (Hact eq_refl).
  - assert (Cl2 : rs_closed c2 = rs_closed c) by (unfold rs_closed; rewrite (SEr_status _ _ _ Q2), St1; reflexivity).
    destruct (rs_nb_is c2 LF || rs_closed c2) eqn:Eor; [exact (rs_line_complete_SE c2 rc c' H2 S2 E)|].
    apply orb_false_iff in Eor. destruct Eor as [_ Ec2]. rewrite Cl2 in Ec2.
    destruct Pos as [(Ec & R1 & Lt)|(Ec & _)]; [|congruence].
    apply (IH c2 rc c' H2 S2); [|exact E]. rewrite (SEr_len _ _ _ Q2), (SEr_read _ _ _ Q2), L1, R1. lia.
Qed.
Lemma rs_RES_LINE_SE c rc c' : SI false c -> c_out_state c = RES_LINE -> rs_RES_LINE cb g c = (rc, c') -> SPost false rc c'.
Proof.
  intros (H & _) Es E. unfold rs_RES_LINE, rs_bytes_fuel in E. refine (rs_line_loop_SE _ c rc c' H Es _ E). lia.
Qed.
End ResLine.

(* a step that may move the read offset forward *)
Definition SEm (c c' : connp) : Prop := SEs false c c' /\ (k_read (c_out c) <= k_read (c_out c'))%nat.
Lemma SEm_refl c : SE false c -> SEm c c. Proof. intros H. split; [apply SEs_refl; exact H|lia]. Qed.
Lemma SEm_trans a b c : SEm a b -> SEm b c -> SEm a c.
Proof. intros [A1 A2] [B1 B2]. split; [eapply SEs_trans; eassumption|lia]. Qed.
Lemma SEr_SEm c c' : SEr false c c' -> SEm c c'. Proof. intros [Q R]. split; [exact Q|lia]. Qed.
Lemma SEm_SE c c' : SEm c c' -> SE false c'. Proof. intros [Q _]. exact (SEs_SE _ _ _ Q). Qed.
Lemma SEm_state c c' : SEm c c' -> c_out_state c' = c_out_state c. Proof. intros [Q _]. exact (SEs_state _ _ _ Q). Qed.
Lemma SEm_len c c' : SEm c c' -> k_len (c_out c') = k_len (c_out c). Proof. intros [Q _]. exact (SEs_len _ _ _ Q). Qed.
Lemma SEm_status c c' : SEm c c' -> c_out_status c' = c_out_status c. Proof. intros [Q _]. exact (SEs_status _ _ _ Q). Qed.
Lemma SEm_read c c' : SEm c c' -> (k_read (c_out c) <= k_read (c_out c'))%nat. Proof. intros [_ Q]. exact Q. Qed.

Lemma copy_SEm c c1 : SE false c -> rs_copy_byte c = Some c1 ->
  SEm c c1 /\ k_read (c_out c1) = S (k_read (c_out c)) /\ k_consume (c_out c1) = k_consume (c_out c) /\ (k_read (c_out c) < k_len (c_out c))%nat.
Proof. intros H E. destruct (rs_copy_byte_SE c c1 H E) as (Q & _ & _ & R & Cs & Lt & _). split; [split; [exact Q|lia]|split; [exact R|split; assumption]]. Qed.

(* OUT_COPY_BYTE_OR_RETURN after OUT_PEEK_NEXT saw a byte *)
Lemma copy_after_peek c : SE false c -> rs_has_byte c = true ->
  let c1 := match rs_copy_byte c with Some x => x | None => rs_fault c end in
  SEm c c1 /\ k_read (c_out c1) = S (k_read (c_out c)) /\ k_consume (c_out c1) = k_consume (c_out c).
Proof.
  intros H Hb. cbv zeta. destruct (rs_copy_byte c) as [c1|] eqn:E; [destruct (copy_SEm c c1 H E) as (A & B & C & _); split; [exact A|split; assumption]|].
  apply rs_copy_byte_none in E. congruence.
Qed.
Lemma peek_some_has_byte c b : rs_nb (rs_peek_next c) = Some b -> rs_has_byte c = true.
Proof.
  intros E. destruct (rs_has_byte c) eqn:Hb; [reflexivity|]. unfold rs_peek_next in E. rewrite Hb in E. unfold rs_nb, rs_set_out in E. cbn in E. discriminate.
Qed.
Lemma nb_is_has_byte c b : rs_nb_is (rs_peek_next c) b = true -> rs_has_byte c = true.
Proof. unfold rs_nb_is. destruct (rs_nb (rs_peek_next c)) as [x|] eqn:E; [intros _; exact (peek_some_has_byte c x E)|discriminate]. Qed.
Lemma consume_succ_SEm c : SE false c -> (k_consume (c_out c) < k_read (c_out c))%nat ->
  SEr false c (rs_set_out (fun k => k <| k_consume ::= S |>) c) /\ k_consume (c_out (rs_set_out (fun k => k <| k_consume ::= S |>) c)) = S (k_consume (c_out c)).
Proof. intros H Lt. split; [split; [apply rs_consume_succ_SE; assumption|reflexivity]|reflexivity]. Qed.

Section ResHeaders.
Variable cb : cb_oracle.
Variable g : cfg.
Hypothesis cb_nodestroy : forall h n, cb h n <> CB_DESTROY_TX.

(* end of the trailer / of a header block cut by close *)
Lemma rs_trailer_end_SE c rc c' :
  SE false c -> c_out_state c = RES_HEADERS -> rs_trailer_end cb c = (rc, c') -> SPost false rc c'.
Proof.
  intros H Es E. unfold rs_trailer_end in E.
  destruct (res_receiver_finalize_clear_safe cb cb_nodestroy c (se_fault _ _ H) (SE_sendok_out _ _ H)) as (F1 & R1 & Hh).
  destruct (res_receiver_finalize_clear cb c) as [rc1 c1]. cbn [fst snd] in *.
  pose proof (SEs_of_fr _ _ _ H R1) as Q1. pose proof (SEs_SE _ _ _ Q1) as H1. pose proof (SEs_state _ _ _ Q1) as S1. rewrite Es in S1.
  assert (Same : forall cx, SEs false c1 cx -> SPost false rc cx).
  { intros cx Qx. apply SPost_of_SE; [exact (SEs_SE _ _ _ Qx)|intros _; apply ahead_state; right; left; rewrite (SEs_state _ _ _ Qx); exact S1|idtac|intros _; apply eb_st; right; rewrite (SEs_state _ _ _ Qx); exact S1].
    intros _. rewrite (SEs_state _ _ _ Qx), S1. split; discriminate. }
  destruct rc1; try (injection E as <- <-; apply Same; apply SEs_refl; exact H1).
  assert (N1 : c_out_tx c1 <> None) by (apply (se_otx _ _ H1); rewrite S1; discriminate).
  unfold out_txi in E. destruct (c_out_tx c1) as [i|] eqn:Ei; [|congruence].
  pose proof (run_hook_fr cb cb_nodestroy H_RESPONSE_TRAILER i c1 (SE_out_live _ _ _ H1 Ei)) as R2.
  destruct (run_hook cb H_RESPONSE_TRAILER i c1) as [rc2 c2]. cbn [snd] in R2.
  pose proof (SEs_of_fr _ _ _ H1 R2) as Q2.
  destruct rc2; try (injection E as <- <-; apply Same; exact Q2).
  injection E as <- <-. pose proof (SEs_SE _ _ _ Q2) as H2. pose proof (SEs_state _ _ _ Q2) as S2. rewrite S1 in S2.
  assert (Na2 : ~ armed (c_out c2)).
  { eapply SEs_not_armed; [exact Q2|]. unfold armed, hook_out in *. congruence. }
  destruct (set_state_plain false RES_FINALIZE c2 H2 Na2) as [H3 Na3]; try discriminate; try (rewrite S2; discriminate).
  { left. apply (SE_cons _ _ H2). rewrite S2. discriminate. }
  apply SPost_of_SE; [exact H3|intros _; apply ahead_not_armed; exact Na3|discriminate|ebt].
Qed.

Lemma process_header_SEr l c : SE false c -> c_out_state c <> RES_IDLE -> SEr false c (rs_process_header l c).
Proof.
  intros H Ni. unfold rs_process_header. apply otx_SEr; [exact H|exact Ni|]. intros t. apply tx_le_of_prog3. apply prog3_process_response_header.
Qed.
Lemma flush_header_SEr c : SE false c -> c_out_state c <> RES_IDLE -> SEr false c (rs_flush_header c).
Proof.
  intros H Ni. unfold rs_flush_header. destruct (k_header (c_out c)) as [h|]; [|apply SEr_refl; exact H].
  pose proof (process_header_SEr h c H Ni) as Q1. eapply SEr_trans; [exact Q1|].
  split; [apply rs_clear_header_SE; exact (SEr_SE _ _ _ Q1)|reflexivity].
Qed.
Lemma flag_folding_SEr c : SE false c -> c_out_state c <> RES_IDLE -> SEr false c (rs_flag_invalid_folding c).
Proof. intros H Ni. unfold rs_flag_invalid_folding. apply otx_SEr; [exact H|exact Ni|tx_le_tac]. Qed.

(* what happens with one consolidated header line *)
Lemma rs_headers_line_SE d c r c2 :
  SE false c -> c_out_state c = RES_HEADERS -> rs_headers_line cb g d c = (r, c2) ->
  match r with
  | Some (rc, c') => SPost false rc c'
  | None => SEr false c c2
  end.
Proof.
  intros H Es E. unfold rs_headers_line in E.
  set (c0 := if rs_has_byte c then match rs_cur_byte c (k_read (c_out c)) with Some _ => c | None => rs_fault c end else c) in *.
  assert (E0 : c0 = c).
  { subst c0. destruct (rs_has_byte c) eqn:Hb; [|reflexivity].
    destruct (has_byte_readable false c (se_ow _ _ H) eq_refl Hb) as (dd & b & Ed & En & Lt).
    unfold rs_cur_byte. rewrite Ed. replace (k_read (c_out c) <? k_len (c_out c))%nat with true by (symmetry; apply Nat.ltb_lt; exact Lt). rewrite En. reflexivity. }
  rewrite E0 in E. clear c0 E0.
  assert (Ni : c_out_state c <> RES_IDLE) by (rewrite Es; discriminate).
  destruct (rs_is_line_terminator _ _ _).
  { pose proof (flush_header_SEr c H Ni) as Q1. pose proof (clear_buffer_SEr false _ (SEr_SE _ _ _ Q1)) as Q2.
    pose proof (SEr_trans _ _ _ _ Q1 Q2) as Q. set (c1 := rs_clear_buffer (rs_flush_header c)) in *.
    pose proof (SEr_SE _ _ _ Q) as H1. pose proof (SEr_state _ _ _ Q) as S1. rewrite Es in S1.
    destruct (_ =? c_HTP_RESPONSE_HEADERS); injection E as <- <-.
    - destruct (set_state_SEr false RES_BODY_DETERMINE c1 H1) as (H2 & _); try discriminate; try (rewrite S1; discriminate).
      apply SPost_of_SE; [exact H2|intros _; apply ahead_state; right; right; reflexivity|discriminate|ebt].
    - destruct (rs_trailer_end cb c1) as [rc3 c3] eqn:Et. exact (rs_trailer_end_SE c1 rc3 c3 H1 S1 Et). }
  injection E as <- <-.
  assert (Fin : forall cx, SEr false c cx -> SEr false c (rs_clear_buffer cx)).
  { intros cx Qx. eapply SEr_trans; [exact Qx|apply clear_buffer_SEr; exact (SEr_SE _ _ _ Qx)]. }
  assert (NI : forall cx, SEr false c cx -> c_out_state cx <> RES_IDLE) by (intros cx Qx; rewrite (SEr_state _ _ _ Qx), Es; discriminate).
  destruct (rs_is_line_folded _ =? 0).
  - pose proof (flush_header_SEr c H Ni) as Q1. pose proof (peek_SEr _ (SEr_SE _ _ _ Q1)) as Q2. pose proof (SEr_trans _ _ _ _ Q1 Q2) as Q.
    set (c1 := rs_peek_next (rs_flush_header c)) in *.
    destruct (rs_nb c1) as [b|].
    + destruct (negb (htp_is_folding_char b)); apply Fin; (eapply SEr_trans; [exact Q|]).
      * apply process_header_SEr; [exact (SEr_SE _ _ _ Q)|exact (NI _ Q)].
      * apply set_header_SEr. exact (SEr_SE _ _ _ Q).
    + apply Fin. eapply SEr_trans; [exact Q|apply set_header_SEr; exact (SEr_SE _ _ _ Q)].
  - destruct (k_header (c_out c)) as [h|].
    + destruct (_ && _ && _).
      * apply Fin. pose proof (flag_folding_SEr c H Ni) as Q1. pose proof (process_header_SEr h _ (SEr_SE _ _ _ Q1) (NI _ Q1)) as Q2.
        pose proof (SEr_trans _ _ _ _ Q1 Q2) as Q. eapply SEr_trans; [exact Q|apply set_header_SEr; exact (SEr_SE _ _ _ Q)].
      * destruct (_ <? c_HTP_MAX_HEADER_FOLDED); apply Fin; [apply set_header_SEr; exact H|apply SEr_refl; exact H].
    + apply Fin. pose proof (flag_folding_SEr c H Ni) as Q1. eapply SEr_trans; [exact Q1|apply set_header_SEr; exact (SEr_SE _ _ _ Q1)].
Qed.

Lemma has_byte_peek c : SE false c -> rs_has_byte (rs_peek_next c) = rs_has_byte c.
Proof.
  intros H. destruct (rs_peek_next_SE c H) as (_ & P & _). unfold opos in P. injection P as P1 P2 P3 P4. unfold rs_has_byte. rewrite P2, P3. reflexivity.
Qed.
Lemma peek_SEm c : SE false c -> SEm c (rs_peek_next c).
Proof. intros H. apply SEr_SEm. apply peek_SEr. exact H. Qed.
(* copy a byte the look-ahead has seen *)
Lemma copy_seen c b : SE false c -> rs_nb_is (rs_peek_next c) b = true ->
  SEm c (match rs_copy_byte (rs_peek_next c) with Some x => x | None => rs_fault (rs_peek_next c) end).
Proof.
  intros H Hn. pose proof (nb_is_has_byte c b Hn) as Hb. pose proof (peek_SEm c H) as Q1.
  rewrite <- (has_byte_peek c H) in Hb. destruct (copy_after_peek _ (SEm_SE _ _ Q1) Hb) as (Q2 & _). eapply SEm_trans; eassumption.
Qed.
(* ... and drop it from the line (out_current_consume_offset++) *)
Lemma copy_seen_consume c b : SE false c -> c_out_state c = RES_HEADERS -> rs_nb_is (rs_peek_next c) b = true ->
  SEm c (rs_set_out (fun k => k <| k_consume ::= S |>) (match rs_copy_byte (rs_peek_next c) with Some x => x | None => rs_fault (rs_peek_next c) end)).
Proof.
  intros H Es Hn. pose proof (nb_is_has_byte c b Hn) as Hb. pose proof (peek_SEr c H) as Q1.
  rewrite <- (has_byte_peek c H) in Hb. destruct (copy_after_peek _ (SEr_SE _ _ _ Q1) Hb) as (Q2 & R2 & C2).
  set (c2 := match rs_copy_byte (rs_peek_next c) with Some x => x | None => rs_fault (rs_peek_next c) end) in *.
  assert (Cs : (k_consume (c_out (rs_peek_next c)) <= k_read (c_out (rs_peek_next c)))%nat).
  { apply (SE_cons _ _ (SEr_SE _ _ _ Q1)). rewrite (SEr_state _ _ _ Q1), Es. discriminate. }
  destruct (consume_succ_SEm c2 (SEm_SE _ _ Q2) ltac:(lia)) as [Q3 _].
  eapply SEm_trans; [apply SEr_SEm; exact Q1|eapply SEm_trans; [exact Q2|apply SEr_SEm; exact Q3]].
Qed.

(* htp_connp_RES_HEADERS *)
Lemma rs_headers_loop_SE fuel : forall lf c rc c',
  SE false c -> c_out_state c = RES_HEADERS -> (k_len (c_out c) - k_read (c_out c) < fuel)%nat ->
  rs_headers_loop cb g fuel lf c = (rc, c') -> SPost false rc c'.
Proof.
  induction fuel as [|f IH]; intros lf c rc c' H Es Hf E; [lia|]. cbn [rs_headers_loop] in E.
  destruct (rs_closed c); [exact (rs_trailer_end_SE c rc c' H Es E)|].
  destruct (rs_copy_byte c) as [c1|] eqn:Ec.
  2: { injection E as <- <-. apply SPost_of_SE; [exact H|discriminate|intros _; rewrite Es; split; discriminate|ebt]. }
  destruct (copy_SEm c c1 H Ec) as (Q1 & R1 & C1 & Lt1).
  pose proof (SEm_SE _ _ Q1) as H1. pose proof (SEm_state _ _ Q1) as S1. rewrite Es in S1. pose proof (SEm_len _ _ Q1) as L1.
  assert (Go : forall lf' cx, SEm c1 cx -> rs_headers_loop cb g f lf' cx = (rc, c') -> SPost false rc c').
  { intros lf' cx Qx Ex. apply (IH lf' cx rc c' (SEm_SE _ _ Qx)); [rewrite (SEm_state _ _ Qx); exact S1|idtac|exact Ex].
    rewrite (SEm_len _ _ Qx), L1. pose proof (SEm_read _ _ Qx). lia. }
  destruct (negb (rs_nb_is c1 LF) && negb (rs_nb_is c1 CR)); [exact (Go false c1 (SEm_refl _ H1) E)|].
  match type of E with context [match ?X with (scan0, c0) => _ end] =>
    assert (Sc : exists scan c2, X = (scan, c2) /\ SEm c1 c2) end.
  { destruct (rs_nb_is c1 CR).
    - pose proof (peek_SEm c1 H1) as Qp. destruct (rs_nb (rs_peek_next c1)) as [b|] eqn:Enb.
      2: { eexists _, _. split; [reflexivity|exact Qp]. }
      destruct (b =? LF)%N eqn:Eb.
      2: { destruct (b =? CR)%N; eexists _, _; (split; [reflexivity|exact Qp]). }
      assert (Hn : rs_nb_is (rs_peek_next c1) LF = true) by (unfold rs_nb_is; rewrite Enb; exact Eb).
      pose proof (copy_seen c1 LF H1 Hn) as Q2.
      set (c2 := match rs_copy_byte (rs_peek_next c1) with Some x => x | None => rs_fault (rs_peek_next c1) end) in *.
      pose proof (SEm_SE _ _ Q2) as H2. assert (S2 : c_out_state c2 = RES_HEADERS) by (rewrite (SEm_state _ _ Q2); exact S1).
      destruct lf; [|eexists _, _; split; [reflexivity|exact Q2]].
      destruct (rs_nb_is (rs_peek_next c2) CR) eqn:En2; [|eexists _, _; split; [reflexivity|eapply SEm_trans; [exact Q2|apply peek_SEm; exact H2]]].
      pose proof (copy_seen_consume c2 CR H2 S2 En2) as Q3.
      set (c3 := rs_set_out _ (match rs_copy_byte (rs_peek_next c2) with Some x => x | None => rs_fault (rs_peek_next c2) end)) in *.
      pose proof (SEm_SE _ _ Q3) as H3. assert (S3 : c_out_state c3 = RES_HEADERS) by (rewrite (SEm_state _ _ Q3); exact S2).
      destruct (rs_nb_is (rs_peek_next c3) LF) eqn:En3.
      + pose proof (copy_seen_consume c3 LF H3 S3 En3) as Q4. eexists _, _. split; [reflexivity|eapply SEm_trans; [exact Q2|eapply SEm_trans; eassumption]].
      + eexists _, _. split; [reflexivity|eapply SEm_trans; [exact Q2|eapply SEm_trans; [exact Q3|apply peek_SEm; exact H3]]].
    - destruct (rs_nb_is (rs_peek_next c1) CR) eqn:En1.
      + pose proof (copy_seen c1 CR H1 En1) as Q2. eexists _, _. split; [reflexivity|exact Q2].
      + eexists _, _. split; [reflexivity|apply peek_SEm; exact H1]. }
  destruct Sc as (scan & c2 & Eq & Q2). rewrite Eq in E. clear Eq.
  pose proof (SEm_SE _ _ Q2) as H2. assert (S2 : c_out_state c2 = RES_HEADERS) by (rewrite (SEm_state _ _ Q2); exact S1).
  destruct scan as [|[|scan]].
  - injection E as <- <-. apply SPost_of_SE; [exact H2|discriminate|intros _; rewrite S2; split; discriminate|ebt].
  - exact (Go lf c2 Q2 E).
  - destruct (rs_consolidate g c2) as [r c3] eqn:Eco.
    pose proof (consolidate_SEr g c2 r c3 H2 ltac:(rewrite S2; discriminate) ltac:(rewrite S2; discriminate) Eco) as Q3.
    pose proof (SEr_SE _ _ _ Q3) as H3. assert (S3 : c_out_state c3 = RES_HEADERS) by (rewrite (SEr_state _ _ _ Q3); exact S2).
    pose proof (SEm_trans _ _ _ Q2 (SEr_SEm _ _ Q3)) as Q13.
    destruct r as [data|]; [|injection E as <- <-; apply SPost_of_SE; [exact H3|discriminate|discriminate|ebt]].
    destruct (_ && _); [exact (Go _ c3 Q13 E)|].
    destruct (rs_headers_line cb g (rs_dbytes data) c3) as [r4 c4] eqn:El.
    pose proof (rs_headers_line_SE _ c3 r4 c4 H3 S3 El) as Q4.
    destruct r4 as [[rc5 c5]|]; [injection E as <- <-; exact Q4|].
    exact (Go _ c4 (SEm_trans _ _ _ Q13 (SEr_SEm _ _ Q4)) E).
Qed.
Lemma rs_RES_HEADERS_SE c rc c' : SI false c -> c_out_state c = RES_HEADERS -> rs_RES_HEADERS cb g c = (rc, c') -> SPost false rc c'.
Proof.
  intros (H & _) Es E. unfold rs_RES_HEADERS, rs_bytes_fuel in E. refine (rs_headers_loop_SE _ false c rc c' H Es _ E). lia.
Qed.
End ResHeaders.

(* a step of RES_BODY_DETERMINE: state, offsets and receiver hook are kept (the stream statuses may change) *)
Definition SEq (c c' : connp) : Prop :=
  SE false c' /\ c_out_state c' = c_out_state c /\ hk_le (hook_out c) (hook_out c') /\
  k_len (c_out c') = k_len (c_out c) /\ k_read (c_out c') = k_read (c_out c).
Lemma SEq_refl c : SE false c -> SEq c c.
Proof. intros H. split; [exact H|split; [reflexivity|split; [apply hk_le_refl|split; reflexivity]]]. Qed.
Lemma SEq_trans a b c : SEq a b -> SEq b c -> SEq a c.
Proof.
  intros (A1 & A2 & A3 & A4 & A5) (B1 & B2 & B3 & B4 & B5).
  split; [exact B1|split; [congruence|split; [eapply hk_le_trans; eassumption|split; congruence]]].
Qed.
Lemma SEr_SEq c c' : SEr false c c' -> SEq c c'.
Proof. intros [(H & S & T & D & L & Hh & St) R]. split; [exact H|split; [exact S|split; [exact Hh|split; assumption]]]. Qed.
Lemma SEq_SE c c' : SEq c c' -> SE false c'. Proof. intros (H & _). exact H. Qed.
Lemma SEq_state c c' : SEq c c' -> c_out_state c' = c_out_state c. Proof. intros (_ & S & _). exact S. Qed.

(* updates of fields nothing in SE depends on *)
Lemma SEq_onf c c' : SE false c -> onf c c' -> cur_core (c_out c') = cur_core (c_out c) -> SEq c c'.
Proof.
  intros H N E. pose proof N as [_ Rr]. destruct (orest_fields _ _ Rr) as (F1 & F2 & F3 & F4 & F5).
  unfold cur_core in E. injection E as E1 E2 E3 E4 E5 E6 E7.
  split; [|split; [exact F2|split; [left; exact F3|split; assumption]]].
  apply (SE_onf false c c' H N). apply (OW_same false c c' (se_ow _ _ H)); assumption.
Qed.
Lemma SEq_in_status v c : SE false c -> v <> c_HTP_STREAM_CLOSED -> SEq c (c <| c_in_status := v |>).
Proof.
  intros H Nv. pose proof H as [A1 [W1 W2 W3 W4 W5 W6] [[T1 T2 T3 T4] [B1 B2 B3]] A4 A5 A6 A7].
  split; [|split; [reflexivity|split; [apply hk_le_refl|split; reflexivity]]].
  constructor; try assumption; [apply (mkOW false); assumption|split; constructor; assumption].
Qed.
Lemma SEq_unblock v c : SE false c -> v <> c_HTP_STREAM_CLOSED -> SEq c (rs_unblock_request v c).
Proof. intros H Nv. unfold rs_unblock_request. destruct (negb _); [apply SEq_in_status; assumption|apply SEq_refl; exact H]. Qed.
Lemma SEq_data_other v c : SE false c -> SEq c (c <| c_out_data_other_at_tx_end := v |>).
Proof. intros H. apply SEq_onf; [exact H|split; reflexivity|reflexivity]. Qed.
Lemma SEq_out_counters a b c : SE false c -> SEq c (c <| c_out_content_length := a |> <| c_out_body_data_left := b |>).
Proof. intros H. apply SEq_onf; [exact H|split; reflexivity|reflexivity]. Qed.
Lemma SEq_out_left b c : SE false c -> SEq c (c <| c_out_body_data_left := b |>).
Proof. intros H. apply SEq_onf; [exact H|split; reflexivity|reflexivity]. Qed.
(* out_status = TUNNEL (101 Switching Protocols) *)
Lemma SEq_tunnel c : SE false c -> SEq c (c <| c_out_status := c_HTP_STREAM_TUNNEL |>).
Proof.
  intros H. pose proof H as [A1 [W1 W2 W3 W4 W5 W6] [[T1 T2 T3 T4] [B1 B2 B3]] A4 A5 A6 A7].
  split; [|split; [reflexivity|split; [apply hk_le_refl|split; reflexivity]]].
  constructor; try assumption; [|split; constructor; assumption].
  apply (mkOW false); try assumption. intros Q. cbn in Q. vm_compute in Q. discriminate.
Qed.
(* in_state = REQ_FINALIZE (a 4xx answer to Expect: 100-continue) *)
Lemma SEq_in_finalize c : SE false c -> SEq c (c <| c_in_state := REQ_FINALIZE |>).
Proof.
  intros H. pose proof H as [A1 [W1 W2 W3 W4 W5 W6] [[T1 T2 T3 T4] [B1 B2 B3]] A4 A5 A6 A7].
  split; [|split; [reflexivity|split; [apply hk_le_refl|split; reflexivity]]].
  constructor; try assumption.
  - apply (mkOW false); assumption.
  - split; constructor; try assumption.
    + intros U. split; [exact (proj1 (T3 U))|right; reflexivity].
    + intros [].
  - exact I.
Qed.

Section ResDetermine.
Variable cb : cb_oracle.
Variable g : cfg.
Hypothesis cb_nodestroy : forall h n, cb h n <> CB_DESTROY_TX.

Lemma response_headers_rc i c : rq_hookrc (fst (tx_state_response_headers cb i c)).
Proof.
  unfold tx_state_response_headers. match goal with |- context [res_receiver_finalize_clear cb ?x] =>
    pose proof (res_receiver_finalize_clear_rc cb x) as Q; destruct (res_receiver_finalize_clear cb x) as [rc c1] end.
  cbn [fst] in Q. destruct rc; try exact Q. apply run_hook_ex_rc.
Qed.

(* htp_tx_state_response_headers on out_tx after RES_BODY_DETERMINE chose the next state *)
Lemma after_headers c rc c' :
  SE false c -> c_out_state c <> RES_IDLE -> rs_response_headers cb c = (rc, c') -> SPost false rc c'.
Proof.
  intros H Ni E. unfold rs_response_headers in E. pose proof (se_otx _ _ H Ni) as N.
  destruct (c_out_tx c) as [i|] eqn:Ei; [|congruence].
  destruct (response_headers_SE cb cb_nodestroy false i c H Ei) as [Q Hh]. pose proof (response_headers_rc i c) as Hrc.
  rewrite E in *. cbn [fst snd] in *. pose proof (SEs_SE _ _ _ Q) as H'.
  destruct rc; try (exfalso; destruct Hrc as [X|[X|X]]; discriminate X).
  - apply SPost_of_SE; [exact H'|intros _; apply ahead_not_armed; unfold armed, hook_out in *; rewrite (Hh eq_refl); congruence|discriminate|ebt].
  - apply SPost_of_SE; [exact H'|discriminate|discriminate|ebt].
  - apply SPost_of_SE; [exact H'|discriminate|discriminate|ebt].
Qed.

(* SE with a known state *)
Definition SEt (s : res_state) (c : connp) : Prop := SE false c /\ c_out_state c = s.
Lemma SEt_otx s f c : SEt s c -> s <> RES_IDLE -> (forall t, tx_le t (f t)) -> SEt s (rs_otx f c).
Proof.
  intros [H S] Ns Hf. pose proof (otx_SEr false f c H ltac:(rewrite S; exact Ns) Hf) as Q.
  split; [exact (SEr_SE _ _ _ Q)|rewrite (SEr_state _ _ _ Q); exact S].
Qed.
Lemma SEt_set s s' c : SEt s c -> s <> RES_IDLE -> s <> RES_BODY_IDENTITY_STREAM_CLOSE -> s' <> RES_IDLE -> SEt s' (rs_set_state s' c).
Proof.
  intros [H S] N1 N2 N3. split; [|reflexivity].
  destruct (set_state_SEr false s' c H N3 ltac:(rewrite S; exact N1) ltac:(rewrite S; exact N2)) as (X & _). exact X.
Qed.
Lemma SEt_SEq s c c' : SEt s c -> SEq c c' -> SEt s c'.
Proof. intros [H S] Q. split; [exact (SEq_SE _ _ Q)|rewrite (SEq_state _ _ Q); exact S]. Qed.
Ltac bdne := first [discriminate | assumption].

(* htp_connp_RES_BODY_DETERMINE *)
Lemma rs_RES_BODY_DETERMINE_SE c rc c' :
  SE false c -> c_out_state c = RES_BODY_DETERMINE -> rs_RES_BODY_DETERMINE cb c = (rc, c') -> SPost false rc c'.
Proof.
  intros H Es E. unfold rs_RES_BODY_DETERMINE in E.
  assert (T0 : SEt RES_BODY_DETERMINE c) by (split; assumption).
  assert (AH : forall s cx, SEt s cx -> s <> RES_IDLE -> rs_response_headers cb cx = (rc, c') -> SPost false rc c').
  { intros s cx [Hx Sx] Ns Ex. apply (after_headers cx rc c' Hx); [rewrite Sx; exact Ns|exact Ex]. }
  destruct (_ && _ && _).
  { refine (AH RES_FINALIZE _ (SEt_set _ _ c T0 _ _ _) _ E); discriminate. }
  set (c1 := if t_request_method_number (rs_tx c) =? c_HTP_M_CONNECT then _ else c) in *.
  assert (T1 : SEt RES_BODY_DETERMINE c1).
  { subst c1. destruct (_ =? c_HTP_M_CONNECT); [|exact T0].
    pose proof (SEq_unblock c_HTP_STREAM_DATA c H ltac:(vm_compute; discriminate)) as Q1. exact (SEt_SEq _ _ _ T0 (SEq_trans _ _ _ Q1 (SEq_data_other true _ (SEq_SE _ _ Q1)))). }
  destruct (_ && _ && _).
  { (* 101 Switching Protocols *)
    pose proof (SEt_set _ RES_FINALIZE c1 T1 ltac:(discriminate) ltac:(discriminate) ltac:(discriminate)) as T2.
    pose proof (SEt_SEq _ _ _ T2 (SEq_unblock c_HTP_STREAM_TUNNEL _ (proj1 T2) ltac:(vm_compute; discriminate))) as T3.
    pose proof (SEt_SEq _ _ _ T3 (SEq_tunnel _ (proj1 T3))) as T4.
    exact (AH _ _ T4 ltac:(discriminate) E). }
  destruct (_ && _ && _).
  { (* 100 Continue *)
    match type of E with context [rs_otx ?f c1] => pose proof (SEt_otx _ f c1 T1 ltac:(discriminate) ltac:(tx_le_tac)) as T2 end.
    pose proof (SEt_set _ RES_LINE _ T2 ltac:(discriminate) ltac:(discriminate) ltac:(discriminate)) as [H3 S3].
    injection E as <- <-. apply SPost_of_SE; [exact H3|intros _; apply ahead_state; left; exact S3|discriminate|ebt]. }
  match type of E with context [if ?b1 && ?b2 && ?b3 && ?b4 then ?x else c1] => set (c2 := if b1 && b2 && b3 && b4 then x else c1) in * end.
  assert (T2 : SEt RES_BODY_DETERMINE c2).
  { subst c2. destruct (_ && _ && _ && _); [|exact T1]. destruct (rs_hdr_get_c _ rs_str_expect); [|exact T1].
    destruct (_ =? 0); [|exact T1]. exact (SEt_SEq _ _ _ T1 (SEq_in_finalize _ (proj1 T1))). }
  match type of E with context [if t_request_method_number (rs_tx c) =? c_HTP_M_HEAD then ?x else ?y] => set (c3 := if t_request_method_number (rs_tx c) =? c_HTP_M_HEAD then x else y) in * end.
  assert (T3 : SEt RES_BODY_DETERMINE c3 \/ SEt RES_FINALIZE c3).
  { subst c3. repeat match goal with |- context [if ?b then _ else _] => destruct b end;
      first [left; exact T2 | right; eapply SEt_set; [apply SEt_otx; [exact T2|discriminate|tx_le_tac]|discriminate|discriminate|discriminate]]. }
  destruct (negb (res_state_eqb (c_out_state c3) RES_FINALIZE)) eqn:Ef.
  2: { destruct T3 as [T3|T3]; [destruct T3 as [_ S3]; rewrite S3 in Ef; discriminate|]. exact (AH _ _ T3 ltac:(discriminate) E). }
  destruct T3 as [T3|[_ S3]]; [|rewrite S3 in Ef; discriminate].
  set (c4 := match rs_hdr_get_c _ rs_str_content_type with Some h => _ | None => c3 end) in *.
  assert (T4 : SEt RES_BODY_DETERMINE c4).
  { subst c4. destruct (rs_hdr_get_c _ rs_str_content_type); [|exact T3]. apply SEt_otx; [exact T3|discriminate|tx_le_tac]. }
  destruct (match rs_hdr_get_c _ rs_str_transfer_encoding with Some h => _ | None => false end).
  { match type of E with context [rs_otx ?f c4] => pose proof (SEt_otx _ f c4 T4 ltac:(discriminate)) as T5 end.
    assert (T5' : SEt RES_BODY_DETERMINE (rs_otx _ c4)) by (apply T5; intros t; destruct (match rs_hdr_get_c _ rs_str_content_length with None => true | Some _ => false end); tx_le_tac).
    exact (AH _ _ (SEt_set _ RES_BODY_CHUNKED_LENGTH _ T5' ltac:(discriminate) ltac:(discriminate) ltac:(discriminate)) ltac:(discriminate) E). }
  destruct (rs_hdr_get_c _ rs_str_content_length) as [h|].
  - match type of E with context [rs_otx ?f c4] => pose proof (SEt_otx _ f c4 T4 ltac:(discriminate)) as T5 end.
    assert (T5' : SEt RES_BODY_DETERMINE (rs_otx _ c4)) by (apply T5; intros t; destruct (flag_has _ _); tx_le_tac). clear T5.
    destruct (parse_content_length (h_value h) <? 0).
    { injection E as <- <-. apply SPost_of_SE; [exact (proj1 T5')|discriminate|discriminate|ebt]. }
    pose proof (SEt_SEq _ _ _ T5' (SEq_out_counters (parse_content_length (h_value h)) (parse_content_length (h_value h)) _ (proj1 T5'))) as T6.
    destruct (negb (parse_content_length (h_value h) =? 0)).
    + match type of E with context [rs_otx ?f ?x] => pose proof (SEt_otx _ f x T6 ltac:(discriminate) ltac:(tx_le_tac)) as T7 end.
      exact (AH _ _ (SEt_set _ RES_BODY_IDENTITY_CL_KNOWN _ T7 ltac:(discriminate) ltac:(discriminate) ltac:(discriminate)) ltac:(discriminate) E).
    + exact (AH _ _ (SEt_set _ RES_FINALIZE _ T6 ltac:(discriminate) ltac:(discriminate) ltac:(discriminate)) ltac:(discriminate) E).
  - destruct (match rs_hdr_get_c _ rs_str_content_type with Some h => _ | None => false end).
    { injection E as <- <-. apply SPost_of_SE; [exact (proj1 T4)|discriminate|discriminate|ebt]. }
    pose proof (SEt_set _ RES_BODY_IDENTITY_STREAM_CLOSE _ T4 ltac:(discriminate) ltac:(discriminate) ltac:(discriminate)) as T5.
    match type of E with context [rs_otx ?f ?x] => pose proof (SEt_otx _ f x T5 ltac:(discriminate) ltac:(tx_le_tac)) as T6 end.
    pose proof (SEt_SEq _ _ _ T6 (SEq_out_left (-1) _ (proj1 T6))) as T7.
    exact (AH _ _ T7 ltac:(discriminate) E).
Qed.
End ResDetermine.

(* RES_FINALIZE un-reads the probed line: the read offset moves back, the consume offset follows *)
Lemma unread_finalize r b c :
  SE false c -> c_out_state c = RES_FINALIZE -> (r <= k_read (c_out c))%nat -> (armed (c_out c) -> r = k_read (c_out c)) ->
  let c1 := rs_set_out (fun k => k <| k_read := r |>) c in
  let c2 := rs_set_out (fun k => if (k_read k <? k_consume k)%nat then k <| k_consume := k_read k |> else k) c1 in
  let c3 := rs_set_out (fun k => match k_buf k with Some x => k <| k_buf := Some (firstn b x) |> | None => k end) c2 in
  SE false c3 /\ c_out_state c3 = RES_FINALIZE /\ k_len (c_out c3) = k_len (c_out c) /\ k_read (c_out c3) = r /\ hook_out c3 = hook_out c /\
  c_out_status c3 = c_out_status c.
Proof.
  intros H Es Hr Ha. cbv zeta.
  pose proof H as [A1 [W1 W2 W3 W4 W5 W6] [[T1 T2 T3 T4] [B1 B2 B3]] A4 A5 A6 A7].
  assert (Cs : (k_consume (c_out c) <= k_read (c_out c))%nat) by (destruct W3 as [[Q _]|Q]; [congruence|exact Q]).
  split; [|unfold rs_set_out, hook_out; cbn; destruct (r <? k_consume (c_out c))%nat; cbn; destruct (k_buf (c_out c)); cbn; repeat split; exact Es].
  constructor; try assumption.
  - apply (mkOW false); unfold rs_set_out; cbn.
    all: destruct (r <? k_consume (c_out c))%nat eqn:Er; cbn; destruct (k_buf (c_out c)); cbn; try assumption; try lia.
    all: try (right; apply Nat.ltb_ge in Er; lia).
    all: try (right; lia).
    all: try (intros U; rewrite (Ha U); exact (W4 U)).
    all: try (intros Q; discriminate).
  - split; constructor; unfold rs_set_out, armed in *; cbn.
    all: destruct (r <? k_consume (c_out c))%nat; cbn; destruct (k_buf (c_out c)); cbn; assumption.
Qed.

Section ResFinalize.
Variable cb : cb_oracle.
Variable g : cfg.
Hypothesis cb_nodestroy : forall h n, cb h n <> CB_DESTROY_TX.

Lemma response_complete_rc i c :
  let r := tx_state_response_complete_ex cb g i false c in rq_hookrc (fst r) \/ fst r = ST_DATA_OTHER.
Proof.
  cbv zeta. unfold tx_state_response_complete_ex.
  match goal with |- context [match ?X with (rc0, c0) => _ end] => assert (P1 : rq_hookrc (fst X)) end.
  { destruct (negb _); [|unfold rq_hookrc; cbn; tauto]. cbv zeta.
    match goal with |- context [run_hook cb ?h ?j ?x] => pose proof (run_hook_ex_rc cb h j None false None x) as Q; unfold run_hook; destruct (run_hook_ex cb h j None false None x) as [r1 x1] end.
    cbn [fst] in Q. destruct r1; try exact Q. apply res_receiver_finalize_clear_rc. }
  match goal with |- context [match ?X with (rc0, c0) => _ end] => destruct X as [rc1 c1] end. cbn [fst] in P1.
  destruct rc1; try (left; exact P1).
  assert (W : forall ret c', (ret = ST_OK \/ ret = ST_DATA_OTHER) ->
            let r := match tx_finalize cb g i c' with
                     | (ST_OK, c2) => (ret, c2 <| c_out_tx := None |> <| c_out_state := RES_IDLE |>)
                     | r => r end in
            rq_hookrc (fst r) \/ fst r = ST_DATA_OTHER).
  { intros ret c' Hret. cbv zeta.
    pose proof (tx_finalize_rc cb g i c') as Q. destruct (tx_finalize cb g i c') as [rc2 c2]. cbn [fst] in Q.
    destruct rc2; cbn [fst]; try (left; exact Q). destruct Hret as [-> | ->]; [left; exact Q|right; reflexivity]. }
  destruct (negb false && _); [apply W; right; reflexivity|]. destruct (negb false && _); [apply W; right; reflexivity|].
  apply W; left; reflexivity.
Qed.

(* htp_tx_state_response_complete_ex applied to out_tx in RES_FINALIZE (also the gap case) *)
Lemma rs_response_complete_SE gap c rc c' :
  SE gap c -> c_out_state c = RES_FINALIZE -> rs_response_complete cb g c = (rc, c') -> SPost gap rc c'.
Proof.
  intros H Es E. unfold rs_response_complete in E.
  assert (N : c_out_tx c <> None) by (apply (se_otx _ _ H); rewrite Es; discriminate).
  destruct (c_out_tx c) as [i|] eqn:Ei; [|congruence].
  destruct (response_complete_SE cb g cb_nodestroy gap i c H Ei Es) as (F & Hok & Hdo). pose proof (response_complete_rc i c) as Hrc.
  rewrite E in *. cbn [fst snd] in *.
  destruct rc; try (apply SPost_bad; [exact F|notsok]); try (exfalso; destruct Hrc as [[X|[X|X]]|X]; discriminate X).
  - destruct (Hok eq_refl) as (H' & S' & _). apply SPost_mk; [exact H'|idtac|discriminate|ebt].
    assert (Na' : ~ armed (c_out c')).
    { intros U. destruct (ti_out_armed c' (proj2 (se_ti _ _ H')) U) as [Q _]. apply Q. exact (ti_out_idle c' (proj2 (se_ti _ _ H')) S'). }
    intros _. split; [apply ahead_not_armed; exact Na'|apply ghead_state; [rewrite S'; repeat split; discriminate|exact Na']].
  - destruct (Hdo eq_refl) as (H' & _ & Hh & _). apply SPost_mk; [exact H'|discriminate|discriminate|intros _; apply eb_na; unfold armed, hook_out in *; congruence].
Qed.

(* for (;;) { OUT_COPY_BYTE_OR_RETURN; if (out_next_byte == LF) break; } *)
Lemma rs_finalize_scan_SE fuel : forall c b c',
  SE false c -> (k_len (c_out c) - k_read (c_out c) < fuel)%nat -> rs_finalize_scan fuel c = (b, c') -> SEm c c'.
Proof.
  induction fuel as [|f IH]; intros c b c' H Hf E; [lia|]. cbn [rs_finalize_scan] in E.
  destruct (rs_copy_byte c) as [c1|] eqn:Ec; [|injection E as <- <-; apply SEm_refl; exact H].
  destruct (copy_SEm c c1 H Ec) as (Q1 & R1 & C1 & Lt1).
  destruct (rs_nb_is c1 LF); [injection E as <- <-; exact Q1|].
  eapply SEm_trans; [exact Q1|]. apply (IH c1 b c' (SEm_SE _ _ Q1)); [|exact E]. rewrite (SEm_len _ _ Q1), R1. lia.
Qed.

Lemma hk_armed_back c c' : hk_le (hook_out c) (hook_out c') -> armed (c_out c') -> armed (c_out c).
Proof. intros [Q|Q] U; unfold armed, hook_out in *; congruence. Qed.

(* the tail of RES_FINALIZE: the probed line is body data, or is un-read and the transaction completed *)
Lemma rs_finalize_tail_SE c rc c' :
  SE false c -> c_out_state c = RES_FINALIZE -> (armed (c_out c) -> k_len (c_out c) = O) ->
  rs_finalize_tail cb g c = (rc, c') -> SPost false rc c'.
Proof.
  intros H Es UA E. unfold rs_finalize_tail in E.
  destruct (rs_consolidate g c) as [r c1] eqn:Eco.
  pose proof (consolidate_SEr g c r c1 H ltac:(rewrite Es; discriminate) ltac:(rewrite Es; discriminate) Eco) as Q1.
  pose proof (SEr_SE _ _ _ Q1) as H1. pose proof (SEr_state _ _ _ Q1) as S1. rewrite Es in S1.
  assert (UA1 : armed (c_out c1) -> k_len (c_out c1) = O).
  { intros U. rewrite (SEr_len _ _ _ Q1). apply UA. destruct Q1 as [(_ & _ & _ & _ & _ & Hh & _) _]. exact (hk_armed_back _ _ Hh U). }
  destruct r as [data|]; [|injection E as <- <-; apply SPost_of_SE; [exact H1|discriminate|discriminate|ebt]].
  destruct (_ =? 0)%nat; [exact (rs_response_complete_SE false c1 rc c' H1 S1 E)|].
  destruct (rs_treat_response_line_as_body data).
  { destruct (rs_process_body cb data (length (rs_dbytes data)) c1) as [rc2 c2] eqn:Ep.
    pose proof (process_body_SEr cb cb_nodestroy false _ _ c1 rc2 c2 H1 Ep) as Q2.
    pose proof (rs_process_body_rc cb data (length (rs_dbytes data)) c1) as Hrc. rewrite Ep in Hrc. cbn [fst] in Hrc.
    pose proof (clear_buffer_SEr false c2 (SEr_SE _ _ _ Q2)) as Q3. pose proof (SEr_trans _ _ _ _ Q2 Q3) as Q.
    injection E as <- <-. pose proof (SEr_SE _ _ _ Q) as H3. pose proof (SEr_state _ _ _ Q) as S3. rewrite S1 in S3.
    apply SPost_of_SE; [exact H3|idtac|destruct Hrc as [-> | ->]; discriminate|destruct Hrc as [-> | ->]; intros [X|[X|X]]; discriminate X].
    intros _. intros U. split; [right; right; right; exact S3|]. intros _.
    assert (U1 : armed (c_out c1)) by (destruct Q as [(_ & _ & _ & _ & _ & Hh & _) _]; exact (hk_armed_back _ _ Hh U)).
    rewrite (SEr_len _ _ _ Q), (UA1 U1). lia. }
  (* un-read *)
  set (bl := length (rs_dbytes data)) in *.
  set (r := if (k_read (c_out c1) <? bl)%nat then O else (k_read (c_out c1) - bl)%nat).
  assert (Hr : (r <= k_read (c_out c1))%nat) by (subst r; destruct (_ <? _)%nat; lia).
  assert (Ha : armed (c_out c1) -> r = k_read (c_out c1)).
  { intros U. pose proof (UA1 U) as L0. pose proof (ow_rd _ _ (se_ow _ _ H1)). subst r. destruct (_ <? _)%nat; lia. }
  destruct (unread_finalize r (match k_buf (c_out c) with Some b => length b | None => O end) c1 H1 S1 Hr Ha) as (H4 & S4 & _).
  cbv zeta in H4, S4.
  match type of E with rs_response_complete cb g ?x = _ => assert (Ex : x = rs_set_out (fun k => match k_buf k with Some x0 => k <| k_buf := Some (firstn (match k_buf (c_out c) with Some b => length b | None => O end) x0) |> | None => k end)
        (rs_set_out (fun k => if (k_read k <? k_consume k)%nat then k <| k_consume := k_read k |> else k) (rs_set_out (fun k => k <| k_read := r |>) c1))) by reflexivity; rewrite Ex in E end.
  exact (rs_response_complete_SE false _ rc c' H4 S4 E).
Qed.

(* htp_connp_RES_FINALIZE *)
Lemma rs_RES_FINALIZE_SE c rc c' :
  SI false c -> c_out_state c = RES_FINALIZE -> rs_RES_FINALIZE cb g c = (rc, c') -> SPost false rc c'.
Proof.
  intros (H & Ha & _) Es E. unfold rs_RES_FINALIZE in E.
  destruct (negb (rs_closed c)) eqn:Ecl.
  2: { apply (rs_finalize_tail_SE c rc c' H Es); [|exact E]. intros _. apply negb_false_iff in Ecl. unfold rs_closed in Ecl. apply Z.eqb_eq in Ecl.
       exact (ow_closed _ _ (se_ow _ _ H) Ecl). }
  pose proof (peek_SEr c H) as Q1. pose proof (SEr_SE _ _ _ Q1) as H1. pose proof (SEr_state _ _ _ Q1) as S1. rewrite Es in S1.
  destruct (rs_nb (rs_peek_next c)) as [b|] eqn:Enb; [|exact (rs_response_complete_SE false _ rc c' H1 S1 E)].
  pose proof (peek_some_has_byte c b Enb) as Hb. unfold rs_has_byte in Hb. apply Nat.ltb_lt in Hb.
  assert (Na : ~ armed (c_out c)) by (intros U; pose proof (proj2 (Ha U) Es); lia).
  assert (Na1 : ~ armed (c_out (rs_peek_next c))).
  { intros U. apply Na. destruct Q1 as [(_ & _ & _ & _ & _ & Hh & _) _]. exact (hk_armed_back _ _ Hh U). }
  destruct (_ || _).
  - destruct (rs_finalize_scan (rs_bytes_fuel (rs_peek_next c)) (rs_peek_next c)) as [fb c2] eqn:Esc.
    assert (Hfu : (k_len (c_out (rs_peek_next c)) - k_read (c_out (rs_peek_next c)) < rs_bytes_fuel (rs_peek_next c))%nat) by (unfold rs_bytes_fuel; lia).
    pose proof (rs_finalize_scan_SE _ _ fb c2 H1 Hfu Esc) as Q2.
    pose proof (SEm_SE _ _ Q2) as H2. assert (S2 : c_out_state c2 = RES_FINALIZE) by (rewrite (SEm_state _ _ Q2); exact S1).
    destruct fb; [|injection E as <- <-; apply SPost_of_SE; [exact H2|discriminate|intros _; rewrite S2; split; discriminate|intros _; apply eb_na; intros U; apply Na1; destruct Q2 as [(_ & _ & _ & _ & _ & Hh & _) _]; exact (hk_armed_back _ _ Hh U)]].
    apply (rs_finalize_tail_SE c2 rc c' H2 S2); [|exact E].
    intros U. exfalso. apply Na1. destruct Q2 as [(_ & _ & _ & _ & _ & Hh & _) _]. exact (hk_armed_back _ _ Hh U).
  - apply (rs_finalize_tail_SE _ rc c' H1 S1); [|exact E]. intros U. contradiction.
Qed.
End ResFinalize.

(* RES_IDLE attaches a transaction and leaves the idle state: everything SE needs, spelled out *)
Lemma SE_attach s i c c0 :
  SE false c -> c_out_state c = RES_IDLE ->
  (* c0: the parser just before out_state is written; its response cursor is the one of c up to receiver bookkeeping *)
  c_fault c0 = false -> cur_core (c_out c0) = cur_core (c_out c) -> c_out_status c0 = c_out_status c ->
  hk_le (hook_out c) (hook_out c0) -> rc_le (c_out c) (c_out c0) ->
  TIin c0 -> rq_inv c0 -> in_clean c0 -> c_in_status c0 <> c_HTP_STREAM_CLOSED ->
  c_out_tx c0 = Some i -> live c0 i -> s <> RES_IDLE ->
  SE false (c0 <| c_out_state := s |>) /\ ~ armed (c_out (c0 <| c_out_state := s |>)).
Proof.
  intros H Es F E St Hh Hr Ti Ri Ic Nc Eo L Ns.
  pose proof H as [A1 A2 [_ To] A4 A5 A6 A7].
  assert (Na : ~ armed (c_out c)).
  { intros U. destruct (ti_out_armed c To U) as [Q _]. apply Q. exact (ti_out_idle c To Es). }
  assert (Na0 : ~ armed (c_out c0)) by (eapply hk_not_armed; eassumption).
  split; [|exact Na0].
  assert (W0 : OW false (c0 <| c_out_state := RES_IDLE |>)).
  { eapply OW_frame; [exact A2|idtac|exact Hh|exact Hr]. unfold ogeo. cbn. rewrite E, St, Es. reflexivity. }
  destruct W0 as [W1 W2 W3 W4 W5 W6].
  constructor.
  - exact F.
  - apply (mkOW false); try assumption. right. destruct W3 as [[Q _]|Q]; [discriminate Q|exact Q].
  - split.
    + destruct Ti as [T1 T2 T3 T4]. constructor; assumption.
    + constructor; cbn.
      * rewrite Eo. exact L.
      * intros U. contradiction.
      * intros Q. contradiction.
  - exact Ri.
  - exact Ic.
  - intros _. cbn. rewrite Eo. discriminate.
  - exact Nc.
Qed.

Lemma tx_put_slot_upd c i f : live c i -> tx_slot (tx_upd c i f) i = option_map f (tx_slot c i).
Proof.
  intros L. unfold tx_upd. unfold live in L. destruct (tx_slot c i) as [t|] eqn:E; [|congruence].
  rewrite (tx_put_slot c i (f t) i ltac:(unfold live; congruence)), Nat.eqb_refl. reflexivity.
Qed.

Section ResIdle.
Variable cb : cb_oracle.
Variable g : cfg.
Hypothesis cb_nodestroy : forall h n, cb h n <> CB_DESTROY_TX.

Lemma tx_state_response_start_rc i c : rq_hookrc (fst (tx_state_response_start cb i c)).
Proof.
  unfold tx_state_response_start.
  match goal with |- context [run_hook cb ?h ?j ?x] => pose proof (run_hook_ex_rc cb h j None false None x) as Q; unfold run_hook; destruct (run_hook_ex cb h j None false None x) as [r1 x1] end.
  cbn [fst] in Q. destruct r1; try exact Q. destruct (t_is_protocol_0_9 _); unfold rq_hookrc; cbn; tauto.
Qed.

(* after out_tx has been attached: htp_tx_state_response_start *)
Lemma idle_start i c c0 rc c' :
  SE false c -> c_out_state c = RES_IDLE ->
  c_fault c0 = false -> cur_core (c_out c0) = cur_core (c_out c) -> c_out_status c0 = c_out_status c ->
  hk_le (hook_out c) (hook_out c0) -> rc_le (c_out c) (c_out c0) ->
  TIin c0 -> rq_inv c0 -> in_clean c0 -> c_in_status c0 <> c_HTP_STREAM_CLOSED -> c_out_tx c0 = Some i -> live c0 i ->
  tx_state_response_start cb i c0 = (rc, c') -> SPost false rc c'.
Proof.
  intros H Es F E St Hh Hr Ti Ri Ic Nc Eo L Er.
  destruct (response_start_fr cb cb_nodestroy i c0 L Eo) as (F' & Hok & Hno).
  pose proof (tx_state_response_start_rc i c0) as Hrc.
  rewrite Er in *. cbn [fst snd] in *.
  destruct rc; try (apply SPost_bad; [congruence|notsok]); try (exfalso; destruct Hrc as [X|[X|X]]; discriminate X).
  destruct (Hok eq_refl) as [R|R].
  - destruct (SE_attach RES_LINE i c c0 H Es F E St Hh Hr Ti Ri Ic Nc Eo L ltac:(discriminate)) as [H1 Na1].
    pose proof (SEs_of_fr _ _ _ H1 R) as Q. apply SPost_of_SE; [exact (SEs_SE _ _ _ Q)|idtac|discriminate|ebt].
    intros _. apply ahead_not_armed. eapply SEs_not_armed; eassumption.
  - destruct (SE_attach RES_BODY_IDENTITY_STREAM_CLOSE i c c0 H Es F E St Hh Hr Ti Ri Ic Nc Eo L ltac:(discriminate)) as [H1 Na1].
    pose proof (SE_set_left false (-1) _ H1) as H2.
    pose proof (SEs_of_fr _ _ _ H2 R) as Q. apply SPost_of_SE; [exact (SEs_SE _ _ _ Q)|idtac|discriminate|ebt].
    intros _. apply ahead_not_armed. eapply SEs_not_armed; [exact Q|exact Na1].
Qed.

Lemma rc_le_refl k : rc_le k k. Proof. left. reflexivity. Qed.

(* htp_connp_RES_IDLE *)
Lemma rs_RES_IDLE_SE c rc c' :
  SE false c -> c_out_state c = RES_IDLE -> rs_RES_IDLE cb g c = (rc, c') -> SPost false rc c'.
Proof.
  intros H Es E. unfold rs_RES_IDLE in E.
  assert (Na : ~ armed (c_out c)).
  { intros U. destruct (ti_out_armed c (proj2 (se_ti _ _ H)) U) as [Q _]. apply Q. exact (ti_out_idle c (proj2 (se_ti _ _ H)) Es). }
  destruct (negb (rs_has_byte c)); [injection E as <- <-; apply SPost_of_SE; [exact H|discriminate|discriminate|ebt]|].
  pose proof H as [A1 A2 [Ti To] A4 A5 A6 A7].
  destruct (match nth_error (c_txs c) (c_out_next_tx_index c) with Some (Some _) => true | _ => false end) eqn:Efound.
  - (* the next transaction of the list *)
    set (i := (c_txs_shifted c + c_out_next_tx_index c)%nat) in *.
    cbv beta iota zeta in E.
    match type of E with tx_state_response_start cb (out_txi ?x) ?y = _ => set (c0 := x) in * end.
    assert (Eo : c_out_tx c0 = Some i) by reflexivity.
    assert (L : live c0 i).
    { unfold live. change (tx_slot c0 i) with (tx_slot c i). unfold tx_slot, i.
      replace (c_txs_shifted c + c_out_next_tx_index c <? c_txs_shifted c)%nat with false by (symmetry; apply Nat.ltb_ge; lia).
      replace (c_txs_shifted c + c_out_next_tx_index c - c_txs_shifted c)%nat with (c_out_next_tx_index c) by lia.
      destruct (nth_error (c_txs c) (c_out_next_tx_index c)) as [[t|]|]; try discriminate Efound. discriminate. }
    unfold out_txi in E. rewrite Eo in E.
    apply (idle_start i c c0 rc c' H Es); try reflexivity; try assumption; try apply hk_le_refl; try apply rc_le_refl.
    destruct Ti as [T1 T2 T3 T4]. constructor; assumption.
  - (* no transaction to match: the dangling request is completed, a new transaction is created *)
    set (c1 := c <| c_out_tx := None |>) in *.
    assert (H1 : SE false c1).
    { destruct Ti as [T1 T2 T3 T4]. destruct To as [B1 B2 B3]. destruct A2 as [W1 W2 W3 W4 W5 W6].
      constructor; try assumption; [apply (mkOW false); assumption|split; constructor; try assumption; [exact I|idtac|reflexivity]|].
      - intros U. exfalso. destruct (B2 U) as [Q _]. apply Q. exact (B3 Es).
      - intros Q. contradiction. }
    (* the request side *)
    match type of E with context [connp_tx_create g ?x] => set (c2 := x) in * end.
    assert (P2 : c_fault c2 = false /\ TIout c2 /\ frx c1 c2 /\ c_out_tx c2 = None).
    { subst c2. destruct (req_state_eqb (c_in_state c1) REQ_FINALIZE); [|split; [exact A1|split; [exact (proj2 (se_ti _ _ H1))|split; [apply frx_refl|reflexivity]]]].
      destruct (c_in_tx c1) as [j|] eqn:Ej; [|split; [exact A1|split; [exact (proj2 (se_ti _ _ H1))|split; [apply frx_refl|reflexivity]]]].
      pose proof (se_ti _ _ H1) as [Ti1 To1].
      assert (Lj : live c1 j) by (pose proof (ti_in_live c1 Ti1) as Q; rewrite Ej in Q; exact Q).
      destruct (request_complete_safe cb g cb_nodestroy j c1 A1 Lj Ej (SE_sendok_in _ _ H1) To1 (ti_in_prog c1 Ti1)) as (F2 & To2 & Fx & Po & _).
      split; [exact F2|split; [exact To2|split; [exact Fx|]]]. destruct Po as [Q|Q]; rewrite Q; reflexivity. }
    destruct P2 as (F2 & To2 & Fx & Eo2). destruct Fx as (Sk & Hi & Ho & Ri & Ro).
    destruct (connp_tx_create g c2) as [[id|] c3] eqn:Ec.
    2: { injection E as <- <-. apply SPost_bad; [rewrite (tx_create_none g c2 c3 Ec); exact F2|notsok]. }
    destruct (tx_create_fields g c2 id c3 Ec) as (G1 & G2 & G3 & G4 & G5 & G6 & G7 & G8 & G9).
    destruct (tx_create_slot g c2 id c3 id Ec) as [Eid Esl]. rewrite Nat.eqb_refl in Esl.
    cbv beta iota zeta in E.
    set (c4 := c3 <| c_out_tx := Some id |>) in *.
    assert (L4 : live c4 id) by (unfold live; change (tx_slot c4 id) with (tx_slot c3 id); congruence).
    match type of E with context [tx_upd c4 id ?f] => pose proof (tx_upd_fr tx_le c4 id f tx_le_pre L4 ltac:(tx_le_tac)) as R5; set (c5 := tx_upd c4 id f) in * end.
    match type of E with tx_state_response_start cb (out_txi ?x) ?y = _ => set (c6 := x) in * end.
    pose proof R5 as (S5 & P5 & X5 & Hi5 & Ho5 & Ri5 & Ro5). unfold ptrs in P5. injection P5 as P5i P5o.
    assert (Eo : c_out_tx c6 = Some id) by (change (c_out_tx c6) with (c_out_tx c5); rewrite P5o; reflexivity).
    assert (Ei6 : c_in_tx c6 = Some id) by (change (c_in_tx c6) with (c_in_tx c5); rewrite P5i; exact G2).
    assert (L6 : live c6 id) by (change (live c5 id); eapply frR_live; eassumption).
    unfold out_txi in E. rewrite Eo in E.
    apply (idle_start id c c6 rc c' H Es); try assumption.
    + change (c_fault c6) with (c_fault c5). rewrite (frR_fault _ _ _ R5). change (c_fault c4) with (c_fault c3). congruence.
    + change (cur_core (c_out c6)) with (cur_core (c_out c5)). rewrite (skel_cur_out _ _ S5). change (cur_core (c_out c4)) with (cur_core (c_out c3)).
      rewrite G7. exact (nost_cur_out _ _ Sk).
    + change (c_out_status c6) with (c_out_status c5). rewrite (skel_out_status _ _ S5). change (c_out_status c4) with (c_out_status c3).
      rewrite G8. exact (nost_out_status _ _ Sk).
    + eapply hk_le_trans; [exact Ho|]. unfold hook_out in *. change (k_receiver_hook (c_out c6)) with (k_receiver_hook (c_out c5)).
      change (k_receiver_hook (c_out c4)) with (k_receiver_hook (c_out c3)) in Ho5. rewrite G7 in Ho5. exact Ho5.
    + pose proof (cur_core_read _ _ (skel_cur_out _ _ S5)) as Rd5. change (k_read (c_out c4)) with (k_read (c_out c3)) in Rd5. rewrite G7 in Rd5.
      unfold rc_le in *. change (k_receiver (c_out c6)) with (k_receiver (c_out c5)). change (k_read (c_out c6)) with (k_read (c_out c5)).
      change (k_receiver (c_out c4)) with (k_receiver (c_out c3)) in Ro5. rewrite G7 in Ro5. change (c_out c1) with (c_out c) in Ro.
      destruct Ro5 as [Q|Q]; [|right; exact Q]. rewrite Q. destruct Ro as [Q2|Q2]; [left; exact Q2|right; rewrite Q2; congruence].
    + constructor.
      * rewrite Ei6. exact L6.
      * rewrite Ei6. unfold txp. change (tx_slot c6 id) with (tx_slot c5 id). unfold c5. rewrite (tx_put_slot_upd c4 id _ L4). change (tx_slot c4 id) with (tx_slot c3 id). rewrite Esl. cbn. intros Q. vm_compute in Q. discriminate Q.
      * intros _. split; [rewrite Ei6; discriminate|right; reflexivity].
      * intros [].
    + exact I.
    + assert (K2 : in_clean c2) by (eapply in_clean_frame; [exact (se_in _ _ H1)|exact (nost_cur_in _ _ Sk)|exact Hi|exact Ri]).
      assert (K4 : in_clean c4) by (unfold in_clean, armed in *; change (c_in c4) with (c_in c3); rewrite G6; exact K2).
      assert (K5 : in_clean c5) by (eapply in_clean_frame; [exact K4|apply skel_cur_in; exact S5|exact Hi5|exact Ri5]).
      exact K5.
    + change (c_in_status c6) with (c_in_status c5). rewrite (skel_in_status _ _ S5). change (c_in_status c4) with (c_in_status c3). rewrite G9.
      apply skel_in_status in Sk. cbn in Sk. rewrite Sk. exact A7.
Qed.
End ResIdle.

(* ------------------------------------------------------------------------------------------------ *)
(* 6. the loop of htp_connp_res_data *)

Section ResLoop.
Variable cb : cb_oracle.
Variable g : cfg.
Hypothesis cb_nodestroy : forall h n, cb h n <> CB_DESTROY_TX.

(* connp->out_state(connp) *)
Lemma rs_state_fn_SE gap c rc c' :
  SI gap c ->
  (gap = true -> c_out_state c = RES_BODY_IDENTITY_CL_KNOWN \/ c_out_state c = RES_BODY_IDENTITY_STREAM_CLOSE) ->
  rs_state_fn cb g (c_out_state c) c = (rc, c') -> SPost gap rc c'.
Proof.
  intros HI Hg E. pose proof HI as (H & Ha & Hgh).
  assert (NG : forall s, c_out_state c = s -> s <> RES_BODY_IDENTITY_CL_KNOWN -> s <> RES_BODY_IDENTITY_STREAM_CLOSE -> gap = false).
  { intros s Es N1 N2. destruct gap; [|reflexivity]. destruct (Hg eq_refl) as [Q|Q]; congruence. }
  destruct (c_out_state c) eqn:Es; cbn [rs_state_fn] in E.
  - rewrite (NG _ eq_refl ltac:(discriminate) ltac:(discriminate)) in *. exact (rs_RES_IDLE_SE cb g cb_nodestroy c rc c' H Es E).
  - rewrite (NG _ eq_refl ltac:(discriminate) ltac:(discriminate)) in *. exact (rs_RES_LINE_SE cb g cb_nodestroy c rc c' HI Es E).
  - rewrite (NG _ eq_refl ltac:(discriminate) ltac:(discriminate)) in *. exact (rs_RES_HEADERS_SE cb g cb_nodestroy c rc c' HI Es E).
  - rewrite (NG _ eq_refl ltac:(discriminate) ltac:(discriminate)) in *. exact (rs_RES_BODY_DETERMINE_SE cb cb_nodestroy c rc c' H Es E).
  - exact (rs_RES_BODY_IDENTITY_CL_KNOWN_SE cb cb_nodestroy gap c rc c' HI Es E).
  - exact (rs_RES_BODY_IDENTITY_STREAM_CLOSE_SE cb cb_nodestroy gap c rc c' HI Es E).
  - rewrite (NG _ eq_refl ltac:(discriminate) ltac:(discriminate)) in *. exact (rs_RES_BODY_CHUNKED_LENGTH_SE g c rc c' HI Es E).
  - rewrite (NG _ eq_refl ltac:(discriminate) ltac:(discriminate)) in *. exact (rs_RES_BODY_CHUNKED_DATA_SE cb cb_nodestroy c rc c' HI Es E).
  - rewrite (NG _ eq_refl ltac:(discriminate) ltac:(discriminate)) in *. exact (rs_RES_BODY_CHUNKED_DATA_END_SE c rc c' HI Es E).
  - rewrite (NG _ eq_refl ltac:(discriminate) ltac:(discriminate)) in *. exact (rs_RES_FINALIZE_SE cb g cb_nodestroy c rc c' HI Es E).
Qed.

(* arming the response receiver on entering RES_HEADERS *)
Lemma res_receiver_set_SI gap h c rc c' :
  SI gap c -> c_out_state c = RES_HEADERS ->
  txp c (c_out_tx c) (fun t => t_response_progress t <> c_HTP_RESPONSE_COMPLETE) ->
  res_receiver_set cb h c = (rc, c') -> SI gap c' /\ rq_hookrc rc.
Proof.
  intros (H & Ha & Hg) Es Hp E. unfold res_receiver_set in E.
  destruct (res_receiver_finalize_clear_safe cb cb_nodestroy c (se_fault _ _ H) (SE_sendok_out _ _ H)) as (F1 & R1 & Hh).
  pose proof (res_receiver_finalize_clear_rc cb c) as Hrc.
  destruct (res_receiver_finalize_clear cb c) as [rc1 c1]. cbn [fst snd] in *. injection E as <- <-. split; [|exact Hrc].
  pose proof (SEs_of_fr _ _ _ H R1) as Q1. pose proof (SEs_SE _ _ _ Q1) as H1. pose proof (SEs_state _ _ _ Q1) as S1. rewrite Es in S1.
  pose proof (fr_read _ _ R1) as Rd1.
  pose proof H1 as [A1 [W1 W2 W3 W4 W5 W6] [[T1 T2 T3 T4] [B1 B2 B3]] A4 A5 A6 A7].
  assert (N1 : c_out_tx c1 <> None) by (apply A6; rewrite S1; discriminate).
  assert (Hp1 : txp c1 (c_out_tx c1) (fun t => t_response_progress t <> c_HTP_RESPONSE_COMPLETE)).
  { rewrite (frR_out_tx _ _ _ R1). destruct R1 as (_ & _ & X & _). eapply txs_rel_txp; [exact X| |exact Hp]. intros a b [_ Q]. exact Q. }
  unfold rs_set_out. split; [|split].
  - constructor; try assumption.
    + apply (mkOW gap); cbn; try assumption.
      * intros _. lia.
      * intros Gp. destruct (W5 Gp) as (Q1' & Q2' & _). split; [exact Q1'|split; [exact Q2'|]]. intros _. rewrite Rd1. apply (proj1 (Hg Gp)). right. right. exact Es.
    + split; constructor; try assumption. intros _. split; assumption.
  - intros _. split; [right; left; exact S1|]. intros Q. cbn in Q. congruence.
  - intros Gp. split; [|apply eb_st; right; exact S1]. intros Hs. cbn. rewrite Rd1. apply (proj1 (Hg Gp)). cbn in Hs. rewrite S1 in Hs. rewrite Es. exact Hs.
Qed.

(* htp_res_handle_state_change *)
Lemma rs_handle_state_change_SI gap c rc c' :
  SI gap c -> rs_handle_state_change cb c = (rc, c') -> c_fault c' = false /\ (rc = ST_OK -> SI gap c') /\ rq_hookrc rc.
Proof.
  intros HI E. pose proof HI as (H & Ha & Hg). unfold rs_handle_state_change in E.
  assert (Hok : rq_hookrc ST_OK) by (unfold rq_hookrc; tauto).
  destruct (match c_out_state_previous c with Some p => res_state_eqb p (c_out_state c) | None => false end);
    [injection E as <- <-; split; [exact (se_fault _ _ H)|split; [intros _; exact HI|exact Hok]]|].
  assert (Prev : forall cx, SI gap cx -> SI gap (cx <| c_out_state_previous := Some (c_out_state cx) |>)).
  { intros cx ([A1 [W1 W2 W3 W4 W5 W6] [[T1 T2 T3 T4] [B1 B2 B3]] A4 A5 A6 A7] & Hax & Hgx).
    split; [constructor; try assumption; [apply (mkOW gap); assumption|split; constructor; assumption]|split; assumption]. }
  destruct (res_state_eqb (c_out_state c) RES_HEADERS) eqn:Eh.
  2: { injection E as <- <-. split; [exact (se_fault _ _ H)|split; [intros _; apply Prev; exact HI|exact Hok]]. }
  assert (Es : c_out_state c = RES_HEADERS) by (destruct (c_out_state c); try discriminate; reflexivity).
  assert (N : c_out_tx c <> None) by (apply (se_otx _ _ H); rewrite Es; discriminate).
  destruct (c_out_tx c) as [i|] eqn:Ei; [|congruence].
  assert (L : live c i) by (eapply SE_out_live; eassumption).
  assert (Fin : forall h rcx cx, t_response_progress (rs_tx c) <> c_HTP_RESPONSE_COMPLETE -> res_receiver_set cb h c = (rcx, cx) ->
            match rcx with ST_OK => (ST_OK, cx <| c_out_state_previous := Some (c_out_state cx) |>) | _ => (rcx, cx) end = (rc, c') ->
            c_fault c' = false /\ (rc = ST_OK -> SI gap c') /\ rq_hookrc rc).
  { intros h rcx cx Hp Er Ex.
    assert (Hp' : txp c (c_out_tx c) (fun t => t_response_progress t <> c_HTP_RESPONSE_COMPLETE)).
    { unfold txp. rewrite Ei. unfold rs_tx, tx_get in Hp. rewrite Ei in Hp. unfold live in L. destruct (tx_slot c i); [exact Hp|exact I]. }
    destruct (res_receiver_set_SI gap h c rcx cx HI Es Hp' Er) as [HI2 Hrc].
    destruct rcx; injection Ex as <- <-; (split; [exact (se_fault _ _ (proj1 HI2))|split; [intros Q; try discriminate Q|exact Hrc]]). apply Prev. exact HI2. }
  destruct (t_response_progress (rs_tx c) =? c_HTP_RESPONSE_HEADERS) eqn:E1.
  { apply Z.eqb_eq in E1. destruct (res_receiver_set cb H_RESPONSE_HEADER_DATA c) as [rcx cx] eqn:Er.
    refine (Fin _ _ _ _ Er E). rewrite E1. vm_compute. discriminate. }
  destruct (t_response_progress (rs_tx c) =? c_HTP_RESPONSE_TRAILER) eqn:E2.
  { apply Z.eqb_eq in E2. destruct (res_receiver_set cb H_RESPONSE_TRAILER_DATA c) as [rcx cx] eqn:Er.
    refine (Fin _ _ _ _ Er E). rewrite E2. vm_compute. discriminate. }
  injection E as <- <-. split; [exact (se_fault _ _ H)|split; [intros _; apply Prev; exact HI|exact Hok]].
Qed.

(* the response stream has not been stopped *)
Definition out_sok (c : connp) : Prop := c_out_status c <> c_HTP_STREAM_STOP /\ c_out_status c <> c_HTP_STREAM_ERROR.
(* between two calls an armed response receiver means RES_LINE / RES_HEADERS, or the stream has become a tunnel in a
   state in which the receiver can be armed (then only htp_connp_close runs the loop again, with no byte) *)
Definition ebx (c : connp) : Prop :=
  armed (c_out c) ->
  (c_out_state c = RES_LINE \/ c_out_state c = RES_HEADERS) \/ (c_out_status c = c_HTP_STREAM_TUNNEL /\ armed_state (c_out_state c)).
(* what a finished htp_connp_res_data leaves *)
Definition SFinal (gap : bool) (c' : connp) : Prop :=
  c_fault c' = false /\ (out_sok c' -> SE gap c' /\ ebx c' /\ c_out_status c' <> c_HTP_STREAM_CLOSED).

Lemma SE_set_out_status gap v c : SE gap c -> v <> c_HTP_STREAM_CLOSED -> SE gap (rs_set_out_status v c).
Proof.
  intros [A1 [W1 W2 W3 W4 W5 W6] [[T1 T2 T3 T4] [B1 B2 B3]] A4 A5 A6 A7] Nv. unfold rs_set_out_status.
  constructor; try assumption; [|split; constructor; assumption].
  apply (mkOW gap); try assumption. intros Q. cbn in Q. contradiction.
Qed.
Lemma eb_ebx c : eb c -> ebx c.
Proof. intros E U. left. exact (E U). Qed.
Lemma eb_keep c c' : eb c -> c_out_state c' = c_out_state c -> hk_le (hook_out c) (hook_out c') -> eb c'.
Proof. intros E S Hh U. rewrite S. apply E. eapply hk_armed_back; eassumption. Qed.

(* htp_connp_res_buffer, gaps included *)
Lemma rs_res_buffer_gen gap c rc c1 : SE gap c -> c_out_state c <> RES_BODY_IDENTITY_STREAM_CLOSE -> c_out_tx c <> None ->
  rs_res_buffer g c = (rc, c1) -> SEs gap c c1.
Proof.
  intros H Nb N E. destruct gap; [|exact (proj1 (rs_res_buffer_SE g c rc c1 H Nb N E))].
  destruct (ow_gap _ _ (se_ow _ _ H) eq_refl) as (_ & Ed & _). unfold rs_res_buffer in E. rewrite Ed in E. injection E as <- <-.
  apply SEs_refl. exact H.
Qed.

(* the exit of a pass *)
Lemma rs_res_exit_SE gap rc c c' code : SPost gap rc c -> rs_res_exit cb g rc c = (c', code) -> SFinal gap c'.
Proof.
  intros (F & Hse & _ & Hb & He) E. unfold rs_res_exit in E.
  assert (Bad : forall v cx, c_fault cx = false -> (v = c_HTP_STREAM_STOP \/ v = c_HTP_STREAM_ERROR) -> SFinal gap (rs_set_out_status v cx)).
  { intros v cx Fx Hv. split; [exact Fx|]. intros [Q1 Q2]. cbn in Q1, Q2. destruct Hv; contradiction. }
  assert (Good : forall v cx, SE gap cx -> eb cx -> v <> c_HTP_STREAM_CLOSED -> SFinal gap (rs_set_out_status v cx)).
  { intros v cx Hx Ex Nv. split; [exact (se_fault _ _ Hx)|intros _]. split; [apply SE_set_out_status; assumption|split; [|exact Nv]].
    apply eb_ebx. exact Ex. }
  destruct rc.
  - injection E as <- <-. apply Bad; [exact F|tauto].
  - injection E as <- <-. apply Bad; [exact F|tauto].
  - injection E as <- <-. apply Bad; [exact F|tauto].
  - (* DATA *)
    assert (H : SE gap c) by (apply Hse; unfold sokrc; tauto). assert (Ec : eb c) by (apply He; unfold dokrc; tauto).
    destruct (res_receiver_send_data_safe cb cb_nodestroy false c F (SE_sendok_out _ _ H)) as [F1 R1].
    destruct (res_receiver_send_data cb false c) as [r1 c1]. cbn [snd] in *. injection E as <- <-.
    pose proof (SEs_of_fr _ _ _ H R1) as Q1. apply Good; [exact (SEs_SE _ _ _ Q1)| |vm_compute; discriminate].
    destruct Q1 as (_ & S & _ & _ & _ & Hh & _). exact (eb_keep _ _ Ec S Hh).
  - (* DATA_OTHER *)
    assert (H : SE gap c) by (apply Hse; unfold sokrc; tauto). assert (Ec : eb c) by (apply He; unfold dokrc; tauto).
    destruct (_ <=? _)%nat; injection E as <- <-; (apply Good; [exact H|exact Ec|vm_compute; discriminate]).
  - injection E as <- <-. apply Bad; [exact F|tauto].
  - (* DATA_BUFFER *)
    assert (H : SE gap c) by (apply Hse; unfold sokrc; tauto). assert (Ec : eb c) by (apply He; unfold dokrc; tauto).
    destruct (Hb eq_refl) as [Nb N].
    destruct (res_receiver_send_data_safe cb cb_nodestroy false c F (SE_sendok_out _ _ H)) as [F1 R1].
    destruct (res_receiver_send_data cb false c) as [r1 c1]. cbn [snd] in *.
    pose proof (SEs_of_fr _ _ _ H R1) as Q1. pose proof Q1 as (H1 & S1 & T1 & _ & _ & Hh1 & _).
    destruct (rs_res_buffer g c1) as [brc c2] eqn:Eb.
    pose proof (rs_res_buffer_gen gap c1 brc c2 H1 ltac:(rewrite S1; exact Nb) ltac:(rewrite T1; exact N) Eb) as Q2.
    pose proof Q2 as (H2 & S2 & _ & _ & _ & Hh2 & _).
    destruct brc; injection E as <- <-; try (apply Bad; [exact (se_fault _ _ H2)|tauto]).
    apply Good; [exact H2| |vm_compute; discriminate]. exact (eb_keep _ _ (eb_keep _ _ Ec S1 Hh1) S2 Hh2).
Qed.

(* running out of fuel is the only other way to set the fault flag *)
Fixpoint rs_res_loop_oof (fuel : nat) (is_gap : bool) (c : connp) : bool :=
  match fuel with
  | O => true
  | S f =>
    let s := c_out_state c in
    let gap_ok := res_state_eqb s RES_BODY_IDENTITY_CL_KNOWN || res_state_eqb s RES_BODY_IDENTITY_STREAM_CLOSE in
    if is_gap && negb gap_ok && negb (res_state_eqb s RES_FINALIZE) then false
    else
      let '(rc, c) := if is_gap && negb gap_ok then rs_response_complete cb g c else rs_state_fn cb g s c in
      match rc with
      | ST_OK =>
        if c_out_status c =? c_HTP_STREAM_TUNNEL then false
        else match rs_handle_state_change cb c with
             | (ST_OK, c) => rs_res_loop_oof f is_gap c
             | _ => false
             end
      | _ => false
      end
  end.

Lemma rs_res_loop_SI gap fuel : forall c c' code,
  SI gap c ->
  rs_res_loop cb g fuel gap c = (c', code) -> rs_res_loop_oof fuel gap c = false -> SFinal gap c'.
Proof.
  induction fuel as [|f IH]; intros c c' code HI E O; cbn [rs_res_loop rs_res_loop_oof] in *; [discriminate|].
  pose proof HI as (H & Ha & Hg).
  destruct (gap && negb (res_state_eqb (c_out_state c) RES_BODY_IDENTITY_CL_KNOWN || res_state_eqb (c_out_state c) RES_BODY_IDENTITY_STREAM_CLOSE) &&
            negb (res_state_eqb (c_out_state c) RES_FINALIZE)) eqn:Eret.
  { injection E as <- <-. split; [exact (se_fault _ _ H)|intros _; split; [exact H|]].
    apply andb_prop in Eret. destruct Eret as [Eret _]. apply andb_prop in Eret. destruct Eret as [Eg _]. subst gap.
    split; [apply eb_ebx; exact (proj2 (Hg eq_refl))|]. intros Q. pose proof (ow_closed _ _ (se_ow _ _ H) Q) as L0.
    destruct (ow_gap _ _ (se_ow _ _ H) eq_refl) as (L1 & _). contradiction. }
  assert (D : exists rc c1, (if gap && negb (res_state_eqb (c_out_state c) RES_BODY_IDENTITY_CL_KNOWN || res_state_eqb (c_out_state c) RES_BODY_IDENTITY_STREAM_CLOSE)
                             then rs_response_complete cb g c else rs_state_fn cb g (c_out_state c) c) = (rc, c1) /\ SPost gap rc c1).
  { destruct (gap && negb _) eqn:Eg.
    - cbn in Eret. apply negb_false_iff in Eret.
      assert (Es : c_out_state c = RES_FINALIZE) by (destruct (c_out_state c); try discriminate; reflexivity).
      destruct (rs_response_complete cb g c) as [rc c1] eqn:Er. exists rc, c1. split; [reflexivity|].
      exact (rs_response_complete_SE cb g cb_nodestroy gap c rc c1 H Es Er).
    - destruct (rs_state_fn cb g (c_out_state c) c) as [rc c1] eqn:Er. exists rc, c1. split; [reflexivity|].
      apply (rs_state_fn_SE gap c rc c1 HI); [|exact Er]. intros ->. cbn in Eg. apply negb_false_iff in Eg. apply orb_prop in Eg.
      destruct Eg as [Q|Q]; destruct (c_out_state c); try discriminate; tauto. }
  destruct D as (rc & c1 & Eq & P). rewrite Eq in E, O. clear Eq.
  destruct rc; try (exact (rs_res_exit_SE gap _ c1 c' code P E)).
  destruct P as (F1 & Hse & Hok & _). assert (H1 : SE gap c1) by (apply Hse; unfold sokrc; tauto). destruct (Hok eq_refl) as [Ha1 Hg1].
  destruct (c_out_status c1 =? c_HTP_STREAM_TUNNEL) eqn:Et.
  { injection E as <- <-. apply Z.eqb_eq in Et. split; [exact F1|intros _; split; [exact H1|split]].
    - intros U. right. split; [exact Et|exact (proj1 (Ha1 U))].
    - rewrite Et. vm_compute. discriminate. }
  destruct (rs_handle_state_change cb c1) as [rc2 c2] eqn:E2.
  destruct (rs_handle_state_change_SI gap c1 rc2 c2 (conj H1 (conj Ha1 Hg1)) E2) as (F2 & Hok2 & Hrc2).
  destruct rc2; try (exfalso; destruct Hrc2 as [X|[X|X]]; discriminate X).
  - specialize (Hok2 eq_refl). exact (IH c2 c' code Hok2 E O).
  - cbn in E. injection E as <- <-. split; [exact F2|intros [_ Q]; cbn in Q; contradiction].
  - cbn in E. injection E as <- <-. split; [exact F2|intros [Q _]; cbn in Q; contradiction].
Qed.

(* ---- htp_connp_res_data ---- *)

(* did this call of htp_connp_res_data exhaust the fuel of the model's loop? (same guards as connp_res_data) *)
Definition res_data_oof (data : option bytes) (len : nat) (c : connp) : bool :=
  if c_out_status c =? c_HTP_STREAM_STOP then false
  else if c_out_status c =? c_HTP_STREAM_ERROR then false
  else if match c_out_tx c with None => negb (res_state_eqb (c_out_state c) RES_IDLE) | Some _ => false end then false
  else if (len =? 0)%nat && negb (rs_closed c) then false
  else
    let c := rs_set_out (fun k => k <| k_data := data |> <| k_len := len |> <| k_read := 0%nat |>
                                    <| k_consume := 0%nat |> <| k_receiver := 0%nat |>) c in
    let c := c <| c_out_data_counter ::= Z.add (Z.of_nat len) |> in
    if c_out_status c =? c_HTP_STREAM_TUNNEL then false
    else rs_res_loop_oof (rs_res_fuel len) (match data with None => (0 <? len)%nat | Some _ => false end) c.

(* what the armed response receiver of the previous call allows this call to be: any call in RES_LINE / RES_HEADERS;
   otherwise (tunnel) only a call without bytes, i.e. htp_connp_close *)
Definition res_entry_ok (len : nat) (c : connp) : Prop :=
  armed (c_out c) ->
  (c_out_state c = RES_LINE \/ c_out_state c = RES_HEADERS) \/ (len = O /\ armed_state (c_out_state c)).

(* the response state, receiver hook and stream status are what they were *)
Definition out_same (c c' : connp) : Prop :=
  c_out_state c' = c_out_state c /\ hook_out c' = hook_out c /\ c_out_status c' = c_out_status c.

Lemma safe_inv_of_SE gap c : SE gap c -> safe_inv c.
Proof. intros [A1 A2 A3 A4 A5 A6 A7]. constructor; assumption. Qed.

Theorem connp_res_data_safe data len c c' code :
  safe_inv c ->
  in_clean c ->                                                                      (* premise (b) *)
  c_in_status c <> c_HTP_STREAM_CLOSED ->
  (forall d, data = Some d -> (len <= length d)%nat) ->
  (c_out_status c = c_HTP_STREAM_CLOSED -> data = None /\ len = O) ->                 (* only htp_connp_close closes *)
  (c_out_status c <> c_HTP_STREAM_TUNNEL -> res_entry_ok len c) ->
  connp_res_data cb g data len c = (c', code) ->
  res_data_oof data len c = false ->
  c_fault c' = false /\
  (out_sok c' -> safe_inv c' /\ in_clean c' /\ c_in_status c' <> c_HTP_STREAM_CLOSED /\ c_out_status c' <> c_HTP_STREAM_CLOSED /\
                 (ebx c' \/ out_same c c')).
Proof.
  intros Hs Ic Inc Hd Hc He E Oo. pose proof Hs as [F T Ri]. unfold connp_res_data in E. unfold res_data_oof in Oo.
  assert (Ncl : (len =? 0)%nat && negb (rs_closed c) = true \/ c_out_status c <> c_HTP_STREAM_CLOSED -> True) by tauto.
  assert (Id : c_out_status c <> c_HTP_STREAM_CLOSED ->
               c_fault c = false /\ (out_sok c -> safe_inv c /\ in_clean c /\ c_in_status c <> c_HTP_STREAM_CLOSED /\ c_out_status c <> c_HTP_STREAM_CLOSED /\ (ebx c \/ out_same c c))).
  { intros N. split; [exact F|intros _]. split; [exact Hs|split; [exact Ic|split; [exact Inc|split; [exact N|right; repeat split]]]]. }
  destruct (c_out_status c =? c_HTP_STREAM_STOP) eqn:E1.
  { injection E as <- <-. apply Id. apply Z.eqb_eq in E1. rewrite E1. vm_compute. discriminate. }
  destruct (c_out_status c =? c_HTP_STREAM_ERROR) eqn:E2.
  { injection E as <- <-. apply Id. apply Z.eqb_eq in E2. rewrite E2. vm_compute. discriminate. }
  destruct (match c_out_tx c with None => negb (res_state_eqb (c_out_state c) RES_IDLE) | Some _ => false end) eqn:Eg.
  { injection E as <- <-. split; [exact F|intros [_ Q]; cbn in Q; contradiction]. }
  destruct ((len =? 0)%nat && negb (rs_closed c)) eqn:E0.
  { injection E as <- <-. apply Id. apply andb_prop in E0. destruct E0 as [_ Q]. apply negb_true_iff in Q. unfold rs_closed in Q. apply Z.eqb_neq in Q. exact Q. }
  set (c1 := (rs_set_out _ c) <| c_out_data_counter ::= Z.add (Z.of_nat len) |>) in *.
  destruct (c_out_status c1 =? c_HTP_STREAM_TUNNEL) eqn:Et.
  { injection E as <- <-. apply Z.eqb_eq in Et. split; [exact F|intros _].
    destruct T as [[B1 B2 B3 B4] [C1 C2 C3]].
    split; [constructor; [exact F|split; constructor; assumption|exact Ri]|]. split; [exact Ic|]. split; [exact Inc|]. split; [|right; repeat split].
    change (c_out_status c1) with (c_out_status c) in *. rewrite Et. vm_compute. discriminate. }
  set (gap := match data with None => (0 <? len)%nat | Some _ => false end) in *.
  assert (Nt : c_out_status c <> c_HTP_STREAM_TUNNEL) by (apply Z.eqb_neq; exact Et).
  specialize (He Nt).
  assert (Glen : gap = true -> data = None /\ len <> O).
  { subst gap. destruct data; [discriminate|]. intros Q. apply Nat.ltb_lt in Q. split; [reflexivity|lia]. }
  assert (HI : SI gap c1).
  { destruct T as [[B1 B2 B3 B4] [C1 C2 C3]]. split; [|split].
    - constructor.
      + exact F.
      + apply (mkOW gap); unfold c1, rs_set_out; cbn.
        * lia.
        * destruct data as [d|]; [apply Hd; reflexivity|]. subst gap. destruct (0 <? len)%nat eqn:Q; [left; reflexivity|right; apply Nat.ltb_ge in Q; lia].
        * right. lia.
        * intros _. lia.
        * intros G. destruct (Glen G) as [-> L]. split; [exact L|split; [reflexivity|intros _; reflexivity]].
        * intros Q. exact (proj2 (Hc Q)).
      + split; constructor; assumption.
      + exact Ri.
      + exact Ic.
      + intros N. cbn. destruct (c_out_tx c); [discriminate|]. exfalso. apply N. cbn. destruct (c_out_state c); try discriminate Eg; reflexivity.
      + exact Inc.
    - intros U. destruct (He U) as [[Q|Q]|[L0 Q]].
      + split; [left; exact Q|intros Q2; cbn in Q2; congruence].
      + split; [right; left; exact Q|intros Q2; cbn in Q2; congruence].
      + split; [exact Q|intros _; unfold c1, rs_set_out; cbn; lia].
    - intros G. split; [intros _; reflexivity|]. intros U. destruct (He U) as [Q|[L0 _]]; [exact Q|]. destruct (Glen G) as [_ L]. contradiction. }
  destruct (rs_res_loop_SI gap _ c1 c' code HI E Oo) as [F' Hfin].
  split; [exact F'|]. intros Sk. destruct (Hfin Sk) as (H' & Eb & Nc).
  split; [exact (safe_inv_of_SE _ _ H')|split; [exact (se_in _ _ H')|split; [exact (se_in_nc _ _ H')|split; [exact Nc|left; exact Eb]]]].
Qed.
End ResLoop.

(* the theorem depends on no axiom *)
Print Assumptions connp_res_data_safe.
