(* C04, Stage C, request side on the REAL parser state (responses already attached: out_next_tx_index > 0, out_tx possibly set).
   (1) With tx_auto_destroy off a call of htp_connp_req_data leaves out_status, out_tx and the shift count alone (PSegResReq.sr_fr without
       the hypothesis out_tx = NULL, which was only needed for htp_tx_destroy).
   (2) One call, from a state whose ERASURE (out_next_tx_index := 0, flags overwritten) is a between-calls state of PPairCr.v:
       the erasure of the result is again one, the transaction list grows by the transactions of the completed requests,
       every response-side field is unchanged (PPairCq.v). *)
Require Import Htp.Model.Base Htp.Model.MBstr Htp.Model.MConnTypes Htp.Model.MTxCommon Htp.Model.MReqLine Htp.Model.MReqUri Htp.Model.MTxReq.
Require Import Htp.Model.MReq Htp.Model.MRes Htp.Model.MConnp.
Require Import Htp.Spec.SWire Htp.Proof.PWire Htp.Proof.PWireHdr Htp.Proof.PWireBlock Htp.Proof.PWireConn Htp.Proof.PWireExch.
Require Import Htp.Proof.PWireRun Htp.Proof.PWirePres Htp.Proof.PWireGlue Htp.Proof.PSeg Htp.Proof.PSegLine Htp.Proof.PSegHdr Htp.Proof.PSegGen Htp.Proof.PSegRun.
Require Import Htp.Proof.PSegFold Htp.Proof.PSegPipe Htp.Proof.PSegResReq Htp.Proof.PPairReq Htp.Proof.PPairCq Htp.Proof.PPairCr.

Section Frame3.
Variable cb : cb_oracle.
Variable g : cfg.
Hypothesis Hcb : wr_all_ok cb.
Hypothesis Had : g_tx_auto_destroy g = false.

Lemma fk_finalize i c : sr_fr (snd (tx_finalize cb g i c)) = sr_fr c.
Proof.
  unfold tx_finalize. destruct (tx_slot c i) as [t|]; [|reflexivity]. destruct (negb _); [reflexivity|].
  unfold run_hook_ex. rewrite Hcb.
  set (c1 := emit _ _). assert (X1 : sr_fr c1 = sr_fr c) by reflexivity. clearbody c1.
  destruct (tx_slot c1 i); [|cbn [snd]; exact X1]. cbn [snd]. rewrite Had. exact X1.
Qed.

Lemma fk_request_complete i c : sr_fr (snd (tx_state_request_complete cb g i c)) = sr_fr c.
Proof.
  unfold tx_state_request_complete. destruct (tx_slot c i) as [t0|]; [|reflexivity].
  assert (X0 : sr_fr (snd (if negb (t_request_progress t0 =? c_HTP_REQUEST_COMPLETE)%Z then tx_state_request_complete_partial cb i c else (ST_OK, c))) = sr_fr c)
    by (destruct (negb _); [apply (fr_complete_partial cb Hcb)|reflexivity]).
  destruct (if negb _ then _ else _) as [rc c1]. cbn [snd] in X0. destruct rc; cbn [snd]; try exact X0.
  set (c2 := match tx_slot c1 i with None => _ | Some t => _ end).
  assert (X2 : sr_fr c2 = sr_fr c) by (unfold c2; destruct (tx_slot c1 i); exact X0). clearbody c2.
  pose proof (fk_finalize i c2) as X3. destruct (tx_finalize cb g i c2) as [r3 c3]. cbn [snd] in *. rewrite <- X2, <- X3. reflexivity.
Qed.

Lemma fk_rq_request_complete c : sr_fr (snd (rq_request_complete cb g c)) = sr_fr c.
Proof. unfold rq_request_complete, rq_with_tx. destruct (c_in_tx c); [apply fk_request_complete|reflexivity]. Qed.

Lemma fk_FINALIZE c : sr_fr (snd (REQ_FINALIZE_fn cb g c)) = sr_fr c.
Proof.
  unfold REQ_FINALIZE_fn.
  assert (Xs : match rq_finalize_scan c with RF_complete c1 | RF_buffer c1 | RF_probe c1 => sr_fr c1 = sr_fr c end).
  { unfold rq_finalize_scan. destruct (_ =? c_HTP_STREAM_CLOSED)%Z; [reflexivity|]. cbv zeta.
    pose proof (fr_peek_next c) as X; set (c0 := rq_peek_next c) in *; clearbody c0.
    destruct (k_next_byte (c_in c0)) as [b|]; [|exact X]. destruct (_ || _); [|exact X].
    pose proof (fr_peek_copy_until (fun b => (b =? LF)%N) (k_len (c_in c0) - k_read (c_in c0)) c0) as Y.
    destruct (rq_peek_copy_until _ _ c0) as [[|] c1]; cbn [snd] in Y; rewrite Y; exact X. }
  destruct (rq_finalize_scan c) as [c1|c1|c1].
  - rewrite (fk_rq_request_complete c1). exact Xs.
  - exact Xs.
  - pose proof (fr_consolidate g c1) as X. destruct (req_consolidate_data g c1) as [[rc c2] data]. cbn [fst snd] in X.
    assert (X2 : sr_fr c2 = sr_fr c) by (rewrite X; exact Xs).
    destruct rc; cbn [snd]; try exact X2.
    destruct data as [|b0 data0]; [rewrite (fk_rq_request_complete c2); exact X2|].
    destruct (rq_probe_method (b0 :: data0)) as [mstart pos]. cbv zeta.
    destruct (_ && negb _).
    + match goal with |- context [rq_request_complete cb g ?x] => rewrite (fk_rq_request_complete x) end. exact X2.
    + set (c3 := if (mstart <? pos)%nat && _ then _ else c2). assert (X3 : sr_fr c3 = sr_fr c) by (unfold c3; destruct (_ && _); exact X2). clearbody c3.
      destruct (rq_next_is c3 LF).
      * destruct (rq_copy_byte c3) as [c4|] eqn:E4; [|exact X3]. pose proof (fr_copy_byte c3 c4 E4) as X4.
        pose proof (fr_consolidate g c4) as X5. destruct (req_consolidate_data g c4) as [[r5 c5] d5]. cbn [fst snd] in X5.
        assert (X6 : forall dd, sr_fr (snd (let '(rc, c) := rq_with_tx (fun i => tx_req_process_body_data_ex cb i (Some dd) 0) c5 in (rc, req_clear_buffer c))) = sr_fr c).
        { intros dd. pose proof (fr_with_tx (fun i => tx_req_process_body_data_ex cb i (Some dd) 0) c5 (fun i x => fr_req_body_data cb Hcb i (Some dd) 0 x)) as Z.
          destruct (rq_with_tx _ c5) as [r6 c6]. cbn [snd] in *. rewrite fr_clear_buffer, Z, X5, X4. exact X3. }
        destruct r5; apply X6.
      * pose proof (fr_with_tx (fun i => tx_req_process_body_data_ex cb i (Some (b0 :: data0)) 0) c3 (fun i x => fr_req_body_data cb Hcb i (Some (b0 :: data0)) 0 x)) as Z.
        destruct (rq_with_tx _ c3) as [r6 c6]. cbn [snd] in *. rewrite fr_clear_buffer, Z. exact X3.
Qed.

Lemma fk_PROBE c :
  let r := REQ_CONNECT_PROBE_DATA_fn cb g c in
  sr_fr (snd r) = sr_fr c \/ (fst r = ST_OK /\ pq_frw (snd r) = pq_frw c /\ c_in_status (snd r) = c_HTP_STREAM_TUNNEL).
Proof.
  unfold REQ_CONNECT_PROBE_DATA_fn. cbv zeta.
  pose proof (fr_peek_copy_until (fun b => (b =? LF)%N || (b =? 0)%N) (k_len (c_in c) - k_read (c_in c)) c) as Y.
  destruct (rq_peek_copy_until _ _ c) as [[|] c1]; cbn [snd] in Y; [|left; exact Y].
  pose proof (fr_consolidate g c1) as X. destruct (req_consolidate_data g c1) as [[rc c2] data]. cbn [fst snd] in X.
  assert (X2 : sr_fr c2 = sr_fr c) by (rewrite X; exact Y).
  destruct rc; try (left; exact X2).
  destruct (rq_probe_method data) as [mstart pos]. destruct (negb _).
  - left. rewrite (fk_rq_request_complete c2). exact X2.
  - right. cbn [fst snd]. split; [reflexivity|]. split; [|reflexivity]. destruct (pq_frw_of _ _ X2) as [A _]. exact A.
Qed.

Lemma fk_state_fn_all c : c_in_state c <> REQ_CONNECT_PROBE_DATA -> sr_fr (snd (rq_state_fn cb g (c_in_state c) c)) = sr_fr c.
Proof.
  intros Hs. destruct (c_in_state c) eqn:S; cbn [rq_state_fn].
  - apply (fr_REQ_IDLE cb g Hcb).
  - apply (fr_LINE_loop cb g Hcb).
  - apply fr_PROTOCOL.
  - apply (fr_HEADERS_loop cb g Hcb).
  - apply fr_CONNECT_CHECK.
  - unfold REQ_CONNECT_WAIT_RESPONSE_fn. cbv zeta. fr_brk; reflexivity.
  - contradiction.
  - apply fr_BODY_DETERMINE.
  - apply (fr_BODY_IDENTITY cb Hcb).
  - apply fr_CHUNKED_LENGTH_loop.
  - apply (fr_CHUNKED_DATA cb Hcb).
  - apply fr_CHUNKED_DATA_END_loop.
  - apply fk_FINALIZE.
  - unfold REQ_IGNORE_DATA_AFTER_HTTP_0_9_fn. cbv zeta. cbn [snd]. rewrite fr_set_in. destruct (0 <? _)%nat; reflexivity.
Qed.

Lemma fk_iter_keep c :
  match rq_iter cb g false c with inl r => pq_keep c (fst r) | inr c' => sr_fr c' = sr_fr c end.
Proof.
  unfold rq_iter. cbv zeta.
  assert (Hs : forall rc c1, sr_fr c1 = sr_fr c ->
    match (match rc with
           | ST_OK => if (c_in_status c1 =? c_HTP_STREAM_TUNNEL)%Z then inl (c1, c_HTP_STREAM_TUNNEL)
                      else match req_handle_state_change cb c1 with (ST_OK, c2) => inr c2 | (rc2, c2) => inl (rq_exit cb g rc2 c2) end
           | _ => inl (rq_exit cb g rc c1)
           end) with inl r => pq_keep c (fst r) | inr c' => sr_fr c' = sr_fr c end).
  { intros rc c1 X. destruct rc; try (apply pq_keep_of; rewrite (fr_exit cb g Hcb); exact X).
    destruct (_ =? c_HTP_STREAM_TUNNEL)%Z; [apply pq_keep_of; exact X|].
    pose proof (fr_state_change cb Hcb c1) as Y. destruct (req_handle_state_change cb c1) as [r2 c2]. cbn [snd] in Y.
    destruct r2; try (apply pq_keep_of; rewrite (fr_exit cb g Hcb)); rewrite Y; exact X. }
  destruct (req_state_eqb (c_in_state c) REQ_CONNECT_PROBE_DATA) eqn:Sp.
  - assert (S : c_in_state c = REQ_CONNECT_PROBE_DATA) by (destruct (c_in_state c); try discriminate; reflexivity).
    rewrite S. cbn [rq_state_fn]. pose proof (fk_PROBE c) as P. cbv zeta in P.
    destruct (REQ_CONNECT_PROBE_DATA_fn cb g c) as [rc c1]. cbn [fst snd] in P. destruct P as [P|(Prc & Pf & Pt)].
    + apply (Hs rc c1 P).
    + subst rc. rewrite Pt, Z.eqb_refl. cbn [fst]. split; [exact Pf|right; exact Pt].
  - assert (Hn : c_in_state c <> REQ_CONNECT_PROBE_DATA) by (intro S; rewrite S in Sp; discriminate).
    pose proof (fk_state_fn_all c Hn) as X. destruct (rq_state_fn cb g (c_in_state c) c) as [rc c1]. cbn [snd] in X. apply (Hs rc c1 X).
Qed.

Lemma fk_loop_keep : forall fuel c, pq_keep c (fst (rq_loop cb g fuel false c)).
Proof.
  induction fuel as [|f IH]; intros c; cbn [rq_loop].
  - cbn [fst]. apply pq_keep_of. reflexivity.
  - pose proof (fk_iter_keep c) as X. destruct (rq_iter cb g false c) as [r|c'].
    + exact X.
    + destruct (IH c') as [A B]. destruct (pq_frw_of _ _ X) as [A' B']. split; [rewrite A; exact A'|rewrite <- B'; exact B].
Qed.

(* one call: out_state ... out_tx ... as before; out_status too unless the request side went into tunnel mode *)
Lemma fk_req_data_keep (x : bytes) c : sg_live (c_out_status c) -> pq_keep c (fst (connp_req_data cb g (Some x) (length x) c)).
Proof.
  intros So. rewrite pq_req_data_eq.
  destruct (_ =? c_HTP_STREAM_STOP)%Z; [apply pq_keep_of; reflexivity|].
  destruct (_ =? c_HTP_STREAM_ERROR)%Z; [apply pq_keep_of; reflexivity|].
  destruct (match c_in_tx c with Some _ => false | None => _ end); [apply pq_keep_of; reflexivity|].
  destruct (_ && _); [apply pq_keep_of; reflexivity|].
  destruct (_ =? c_HTP_STREAM_TUNNEL)%Z; [apply pq_keep_of; reflexivity|].
  assert (E : (c_out_status c =? c_HTP_STREAM_DATA_OTHER)%Z = false) by (destruct So as [E|E]; rewrite E; reflexivity). rewrite E.
  set (c1 := pq_entry (Some x) (length x) c). assert (X1 : sr_fr c1 = sr_fr c) by reflexivity.
  destruct (fk_loop_keep (rq_fuel (length x)) c1) as [A B]. destruct (pq_frw_of _ _ X1) as [A' B'].
  split; [rewrite A; exact A'|rewrite <- B'; exact B].
Qed.
End Frame3.

(* ================= (2) the erasure ================= *)
(* the parser with out_next_tx_index := 0 and the connection flags overwritten *)
Definition pc_D0 (c : connp) : pq_dead :=
  mk_pq_dead (c_out_state c) (c_out_state_previous c) (c_out c) 0%nat (c_out_data_other_at_tx_end c)
             (c_out_content_length c) (c_out_body_data_left c) (c_out_chunked_length c) (c_out_data_counter c).
Definition pc_E (fl : N) (c : connp) : connp := pq_S (pc_D0 c) fl c.
Lemma pc_E_finish fl c : pc_E fl (forget_chunks c <| c_events := [] |>) = forget_chunks (pc_E fl c) <| c_events := [] |>.
Proof. reflexivity. Qed.
Lemma pc_D0_of a b : pq_D a = pq_D b -> pc_D0 a = pc_D0 b.
Proof. unfold pq_D, pc_D0. intros H. inversion H. congruence. Qed.

Section QStep.
Variable cb : cb_oracle.
Variable g : cfg.
Hypothesis Hcb : wr_all_ok cb.
Hypothesis Hspace : g_allow_space_uri g = false.
Hypothesis Had : g_tx_auto_destroy g = false.
Variable all : list wr_request.
Hypothesis Hok : Forall (fun r => sg_req_ok g r = true) all.
Hypothesis Hmax : (g_max_tx g = 0 \/ length all < g_max_tx g)%nat.

(* the request side between two calls, on the real state *)
Definition pc_qinv (done : list (option tx)) (rsd rs : list wr_request) (c : connp) (rw : bytes) : Prop :=
  exists fl, pv_between g done rsd rs (pc_E fl c) rw.

Lemma pc_qstep done rsd rs c (rw x rw' : bytes) : all = rsd ++ rs -> pc_qinv done rsd rs c rw -> x <> [] -> rw = x ++ rw' -> sg_live (c_out_status c) ->
  let c' := fst (connp_req_data cb g (Some x) (length x) c) in
  (exists fins newr rs', pv_fins g fins newr /\ all = (rsd ++ newr) ++ rs' /\ pc_qinv (done ++ map Some fins) (rsd ++ newr) rs' c' rw') /\
  pq_D c' = pq_D c /\ c_out_status c' = c_out_status c /\ c_out_tx c' = c_out_tx c /\ c_txs_shifted c' = c_txs_shifted c.
Proof.
  intros Eall (fl & B) Hne Ex So. cbv zeta.
  destruct (pv_step cb g Hcb Hspace all Hok Hmax done rsd rs (pc_E fl c) rw x rw' Eall B Hne Ex) as (c0' & rc & E0 & fins & newr & rs' & F & Ea & B').
  destruct (pq_req_data_S cb g x (pc_D0 c) fl c) as (fl' & ES). fold (pc_E fl c) in ES. rewrite E0 in ES.
  pose proof (pq_req_dead cb g x c) as Hd.
  set (c' := fst (connp_req_data cb g (Some x) (length x) c)) in *.
  assert (Ec : c0' = pc_E fl' c').
  { unfold pq_S1 in ES. inversion ES as [[E1 E2]]. unfold pc_E. rewrite (pc_D0_of _ _ Hd). reflexivity. }
  rewrite Ec in B'.
  split; [exists fins, newr, rs'; split; [exact F|split; [exact Ea|exists fl'; exact B']]|]. split; [exact Hd|].
  destruct (fk_req_data_keep cb g Hcb Had x c So) as [K1 K2]. fold c' in K1, K2.
  assert (Hlive : sg_live (c_in_status c')) by (apply (pv_between_live g _ _ _ _ _ B')).
  unfold pq_frw in K1. destruct K2 as [K2|K2]; [|exfalso; pose proof (sg_live_tunnel _ Hlive) as L; rewrite K2 in L; discriminate].
  split; [exact K2|]. split; congruence.
Qed.
End QStep.
