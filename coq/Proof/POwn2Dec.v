(* Proofs about the ownership model, second part (C18): htp_gzip_decompressor_create / destroy, the decompressor chains of
   the connection parser, htp_connp_destroy_all with chains, htp_tx_state_response_headers (Model/MOwn2.v). *)
Require Import Htp.Model.Base Htp.Model.MOwn Htp.Model.MOwnCases Htp.Model.MOwn2 Htp.Proof.POwn Htp.Proof.POwn2.

Definition fp_dec (d : ow_dec) : list nat := olist (odc_self d :: odc_buf d :: odc_aux d).
Definition wf_dec (d : ow_dec) : Prop := odc_self d <> None.

Definition conn_same (c c' : ow_conn) : Prop := ocn_txs c' = ocn_txs c /\ ocn_txl c' = ocn_txl c /\ ocn_self c' = ocn_self c.
Lemma conn_same_refl c : conn_same c c.
Proof. repeat split. Qed.
Lemma conn_same_trans c1 c2 c3 : conn_same c1 c2 -> conn_same c2 c3 -> conn_same c1 c3.
Proof. intros [A [B C]] [A' [B' C']]. repeat split; congruence. Qed.

Lemma wp_log_msg' on connp cp c F (Q : ow_conn -> ow_state -> Prop) s :
  wf_conn cp c -> ow_own (fp_conn c ++ F) s -> connp <> None -> (forall j, cnto j connp <= cnt j F) ->
  (forall c' s', wf_conn cp c' -> conn_same c c' -> ow_own (fp_conn c' ++ F) s' -> Q c' s') ->
  ow_wp (ow_log_msg on connp c) Q s.
Proof. intros W O Hn Hle HQ. apply wp_log_msg with (cp := cp) (F := F); auto. intros; apply HQ; auto. repeat split; auto. Qed.

(* ------------------------------------------------------------------ create / destroy *)
Lemma wp_decompressor_create on lz fmt connp cp c F (Q : option ow_dec * ow_conn -> ow_state -> Prop) s :
  wf_conn cp c -> ow_own (fp_conn c ++ F) s -> connp <> None -> (forall j, cnto j connp <= cnt j F) ->
  (forall c' s', wf_conn cp c' -> conn_same c c' -> ow_own (fp_conn c' ++ F) s' -> Q (None, c') s') ->
  (forall d c' s', wf_dec d -> wf_conn cp c' -> conn_same c c' -> ow_own (fp_dec d ++ fp_conn c' ++ F) s' -> Q (Some d, c') s') ->
  ow_wp (ow_decompressor_create on lz fmt connp c) Q s.
Proof.
  intros W O Hn Hle HN HS. unfold ow_decompressor_create. destruct O as [Hok Hown].
  apply wp_bind. apply wp_malloc; auto.
  { intros s1 Ok1 L1 _ _ _ _. apply wp_ret. apply HN; auto. { apply conn_same_refl. } split; auto. intros j. rewrite L1; auto. }
  intros s1 Ok1 L1 _ _ _ _. set (d := oos_next s) in *.
  apply wp_bind. apply wp_malloc; auto.
  { intros s2 Ok2 L2 _ _ _ _. wp_go. apply HN; auto. { apply conn_same_refl. } split; auto. intros j. cnt_at j. }
  intros s2 Ok2 L2 _ _ _ _. set (b := oos_next s1) in *.
  assert (O2 : ow_own (fp_conn c ++ d :: b :: F) s2). { split; auto. intros j. rewrite L2, L1, Hown. cnt_norm. lia. }
  assert (Hle2 : forall j, cnto j connp <= cnt j (d :: b :: F)). { intros j. specialize (Hle j). cnt_norm. lia. }
  assert (Hfail : forall c1 s3, wf_conn cp c1 -> conn_same c c1 -> ow_own (fp_conn c1 ++ d :: b :: F) s3 ->
            ow_wp (ow_free (Some b) ;;; ow_free (Some d) ;;; ow_ret (None, c1)) Q s3).
  { intros c1 s3 W1 S1 [Ok3 L3]. wp_go. apply HN; auto. split; auto. intros j. cnt_at j. }
  destruct (fmt =? c_ow_fmt_lzma).
  - apply wp_bind. apply wp_use. { apply own_live_in with (G := fp_conn c) (F := d :: b :: F); auto. }
    apply wp_bind.
    assert (Hl : forall (Q' : ow_conn -> ow_state -> Prop),
              (forall c1 s3, wf_conn cp c1 -> conn_same c c1 -> ow_own (fp_conn c1 ++ d :: b :: F) s3 -> Q' c1 s3) ->
              ow_wp (if lz then ow_ret c else ow_log_msg on connp c) Q' s2).
    { intros Q' HQ'. destruct lz.
      - apply wp_ret. apply HQ'; auto. apply conn_same_refl.
      - apply wp_log_msg' with (cp := cp) (F := d :: b :: F); auto. }
    apply Hl. intros c1 s3 W1 S1 O3. apply wp_ret. apply HS; auto. { cbn. discriminate. }
    eapply own_perm; [|exact O3]. intros j. unfold fp_dec. cbn [odc_self odc_buf odc_aux]. cnt_norm. lia.
  - destruct ((fmt =? c_ow_fmt_gzip) || (fmt =? c_ow_fmt_deflate)).
    + destruct O2 as [_ L2']. apply wp_bind. apply wp_malloc; auto.
      * intros s3 Ok3 L3 _ _ _ _. apply wp_bind. apply wp_log_msg' with (cp := cp) (F := d :: b :: F); auto.
        split; auto. intros j. rewrite L3. auto.
      * intros s3 Ok3 L3 _ _ _ _. apply wp_ret. apply HS; auto. { cbn. discriminate. } { apply conn_same_refl. }
        split; auto. intros j. rewrite L3, L2'. unfold fp_dec. cbn [odc_self odc_buf odc_aux]. cnt_norm. lia.
    + apply wp_bind. apply wp_log_msg' with (cp := cp) (F := d :: b :: F); auto.
Qed.

Lemma wp_decompressor_destroy d F (Q : unit -> ow_state -> Prop) s :
  wf_dec d -> ow_own (fp_dec d ++ F) s -> (forall s', ow_own F s' -> Q tt s') -> ow_wp (ow_decompressor_destroy d) Q s.
Proof.
  intros W [Hok Hown] HQ. unfold ow_decompressor_destroy, wf_dec, fp_dec in *.
  destruct (odc_self d) as [a|] eqn:Ea; [|congruence].
  apply wp_bind. apply wp_use. { exists a. split; auto. rewrite Hown. cnt_norm. lia. }
  apply wp_bind. apply wp_iter_free; auto. { intros j. rewrite Hown. cnt_norm. lia. }
  intros s1 Ok1 L1. destruct (odc_buf d) as [b|]; wp_go; apply HQ; split; auto; intros j; cnt_at j.
Qed.

Lemma wp_destroy_decompressors l F (Q : unit -> ow_state -> Prop) s :
  Forall wf_dec l -> ow_own (flat_map fp_dec l ++ F) s -> (forall s', ow_own F s' -> Q tt s') ->
  ow_wp (ow_destroy_decompressors l) Q s.
Proof.
  intros W O HQ. unfold ow_destroy_decompressors. eapply wp_iter_own with (fp := fp_dec) (P := wf_dec); eauto.
  intros a G Q' s' Pa Oa HQ'. apply wp_decompressor_destroy with (F := G ++ F); auto.
Qed.

(* ------------------------------------------------------------------ the connection parser with chains *)
Definition fp_connp2 (q : ow_connp2) : list nat :=
  fp_connp (ocq_p q) ++ flat_map fp_dec (ocq_out q) ++ flat_map fp_dec (ocq_req q).
Definition wf_connp2 (q : ow_connp2) : Prop := wf_connp (ocq_p q) /\ Forall wf_dec (ocq_out q) /\ Forall wf_dec (ocq_req q).

Lemma wp_connp2_destroy_all q F (Q : unit -> ow_state -> Prop) s :
  wf_connp2 q -> ow_own (fp_connp2 q ++ F) s -> (forall s', ow_own F s' -> Q tt s') ->
  ow_wp (ow_connp2_destroy_all q) Q s.
Proof.
  intros [[W1 [W2 W3]] [Wo Wr]] O HQ. unfold ow_connp2_destroy_all. unfold fp_connp2, fp_connp in O.
  set (p := ocq_p q) in *. cbv zeta.
  set (D1 := flat_map fp_dec (ocq_out q)) in *. set (D2 := flat_map fp_dec (ocq_req q)) in *.
  destruct (ocp_self p) as [a|] eqn:Ea; [|congruence].
  apply wp_bind. apply wp_use. { exists a. split; auto. destruct O as [_ O]. rewrite O. cnt_norm. lia. }
  set (R2 := olist [ocp_in_hdr p; ocp_out_hdr p]).
  apply wp_bind.
  assert (H1 : forall (Q' : unit -> ow_state -> Prop),
    (forall s', ow_own (olist [ocp_in_buf p; ocp_out_buf p] ++ D1 ++ D2 ++ a :: R2 ++ fp_fileo (ocp_put_file p) ++ F) s' -> Q' tt s') ->
    ow_wp (ow_conn_destroy (ocp_conn p)) Q' s).
  { intros Q' HQ'. destruct (ocp_conn p) as [c|] eqn:Ec; cbn [fp_conno] in O.
    - apply wp_conn_destroy with (connp := Some a)
        (F := olist [ocp_in_buf p; ocp_out_buf p] ++ D1 ++ D2 ++ a :: R2 ++ fp_fileo (ocp_put_file p) ++ F); auto.
      + intros _. split; [discriminate|]. intros j. cnt_norm. lia.
      + eapply own_perm; [|exact O]. intros j. unfold R2. cnt_norm. lia.
    - apply wp_ret. apply HQ'. eapply own_perm; [|exact O]. intros j. unfold R2. cnt_norm. lia. }
  apply H1. clear H1 O. intros s1 [Ok1 L1].
  apply wp_bind. apply wp_free; auto. { intros i E. rewrite L1, E. cnt_norm. lia. }
  intros s2 Ok2 L2 _.
  apply wp_bind. apply wp_free; auto.
  { intros i E. specialize (L2 i). rewrite L1 in L2. pose proof (ok_nodup _ Ok1 i) as N. rewrite L1 in N. rewrite E in *. cnt_norm. lia. }
  intros s3 Ok3 L3 _.
  apply wp_bind. apply wp_destroy_decompressors with (F := D2 ++ a :: R2 ++ fp_fileo (ocp_put_file p) ++ F); auto.
  { split; auto. intros j. specialize (L1 j). specialize (L2 j). specialize (L3 j). fold D1. cnt_norm. lia. }
  clear Ok1 L1 Ok2 L2 Ok3 L3. intros s4 O4.
  apply wp_bind. apply wp_destroy_decompressors with (F := a :: R2 ++ fp_fileo (ocp_put_file p) ++ F); auto.
  intros s5 [Ok5 L5]. unfold R2 in L5.
  destruct (ocp_put_file p) as [f|] eqn:Ef; cbn [fp_fileo] in L5.
  - destruct W3 as [Wf Wt]. destruct (ofl_self f) as [fs|] eqn:Efs; [|congruence]. rewrite Wt in L5.
    wp_go; apply HQ; split; auto; intros j; cnt_at j.
  - wp_go; apply HQ; split; auto; intros j; cnt_at j.
Qed.

(* ------------------------------------------------------------------ htp_tx_state_response_headers *)
Lemma wp_ce_loop on lz toks : forall connp cp c chain F (Q : bool * ow_conn * list ow_dec -> ow_state -> Prop) s,
  wf_conn cp c -> Forall wf_dec chain -> ow_own (flat_map fp_dec chain ++ fp_conn c ++ F) s ->
  connp <> None -> (forall j, cnto j connp <= cnt j F) ->
  (forall ok c' chain' s', wf_conn cp c' -> conn_same c c' -> Forall wf_dec chain' ->
                           ow_own (flat_map fp_dec chain' ++ fp_conn c' ++ F) s' -> Q (ok, c', chain') s') ->
  ow_wp (ow_ce_loop on lz toks connp c chain) Q s.
Proof.
  induction toks as [|t r IH]; intros connp cp c chain F Q s W Wc O Hn Hle HQ; cbn [ow_ce_loop].
  { apply wp_ret. apply HQ; auto. apply conn_same_refl. }
  set (D := flat_map fp_dec chain) in *.
  assert (Hle2 : forall j, cnto j connp <= cnt j (D ++ F)). { intros j. specialize (Hle j). cnt_norm. lia. }
  assert (O' : ow_own (fp_conn c ++ D ++ F) s). { eapply own_perm; [|exact O]. intros j. cnt_norm. lia. }
  assert (Hlog : forall (Q' : ow_conn -> ow_state -> Prop),
            (forall c1 s1, wf_conn cp c1 -> conn_same c c1 -> ow_own (D ++ fp_conn c1 ++ F) s1 -> Q' c1 s1) ->
            ow_wp (ow_log_msg on connp c) Q' s).
  { intros Q' HQ'. apply wp_log_msg' with (cp := cp) (F := D ++ F); auto.
    intros c1 s1 W1 S1 O1. apply HQ'; auto. eapply own_perm; [|exact O1]. intros j. cnt_norm. lia. }
  destruct t as [fmt abnormal | | |].
  - apply wp_bind.
    assert (Hl : forall (Q' : ow_conn -> ow_state -> Prop),
              (forall c1 s1, wf_conn cp c1 -> conn_same c c1 -> ow_own (D ++ fp_conn c1 ++ F) s1 -> Q' c1 s1) ->
              ow_wp (if abnormal then ow_log_msg on connp c else ow_ret c) Q' s).
    { intros Q' HQ'. destruct abnormal; [now apply Hlog|]. apply wp_ret. apply HQ'; auto. apply conn_same_refl. }
    apply Hl. intros c1 s1 W1 S1 O1.
    apply wp_bind. apply wp_decompressor_create with (cp := cp) (F := D ++ F); auto.
    + eapply own_perm; [|exact O1]. intros j. cnt_norm. lia.
    + intros c2 s2 W2 S2 O2. cbn [fst snd]. apply wp_ret. apply HQ; auto.
      * eapply conn_same_trans; eauto.
      * eapply own_perm; [|exact O2]. intros j. unfold D. cnt_norm. lia.
    + intros d c2 s2 Wd W2 S2 O2. cbn [fst snd].
      apply wp_bind. apply wp_use.
      { unfold wf_dec in Wd. destruct (odc_self d) as [a|] eqn:Ea; [|congruence]. exists a. split; auto.
        destruct O2 as [_ O2]. rewrite O2. unfold fp_dec. rewrite Ea. cnt_norm. lia. }
      apply IH with (cp := cp) (F := F); auto.
      * apply Forall_app. split; auto.
      * eapply own_perm; [|exact O2]. intros j. unfold D. cnt_norm. lia.
      * intros ok c3 chain3 s3 W3 S3 Wc3 O3. apply HQ; auto.
        eapply conn_same_trans; [|exact S3]. eapply conn_same_trans; eauto.
  - apply IH with (cp := cp) (F := F); auto.
  - apply wp_bind. apply Hlog. intros c1 s1 W1 S1 O1. apply IH with (cp := cp) (F := F); auto.
    intros ok c3 chain3 s3 W3 S3 Wc3 O3. apply HQ; auto. eapply conn_same_trans; eauto.
  - apply wp_bind. apply Hlog. intros c1 s1 W1 S1 O1. apply wp_ret. apply HQ; auto.
Qed.

Ltac cp_proj2 := cbn [ocp_self ocp_conn ocp_in_buf ocp_out_buf ocp_in_hdr ocp_out_hdr ocp_put_file ocq_p ocq_out ocq_req].

Lemma wp_tx_state_response_headers on lz sh tx q F (Q : bool * ow_connp2 -> ow_state -> Prop) s :
  wf_connp2 q -> ocp_conn (ocq_p q) <> None -> ow_own (fp_connp2 q ++ F) s -> live_in tx s ->
  (forall ok q' s', wf_connp2 q' -> ocp_conn (ocq_p q') <> None -> ocq_req q' = ocq_req q -> ow_own (fp_connp2 q' ++ F) s' -> Q (ok, q') s') ->
  ow_wp (ow_tx_state_response_headers on lz sh tx q) Q s.
Proof.
  intros [[W1 [W2 W3]] [Wo Wr]] Hc O Htx HQ. unfold ow_tx_state_response_headers. cbv zeta.
  assert (Wq : wf_connp2 q) by (repeat split; auto).
  set (p := ocq_p q) in *.
  destruct (ocp_self p) as [a|] eqn:Ea; [|congruence].
  assert (Ha : forall j, ind a j <= cnt j (fp_connp p)). { intros j. unfold fp_connp. rewrite Ea. cnt_norm. lia. }
  apply wp_bind. apply wp_use; auto.
  apply wp_bind. apply wp_use.
  { exists a. split; auto. destruct O as [_ O]. rewrite O. unfold fp_connp2. fold p. specialize (Ha a). cnt_norm. lia. }
  destruct (ocp_conn p) as [c|] eqn:Ec; [|congruence].
  destruct ((oce_fast sh =? 0) && negb (oce_multi sh)).
  { apply wp_ret. apply HQ; auto. fold p. rewrite Ec. discriminate. }
  set (R := olist [ocp_in_buf p; ocp_out_buf p; ocp_in_hdr p; ocp_out_hdr p] ++ fp_fileo (ocp_put_file p)).
  set (D2 := flat_map fp_dec (ocq_req q)).
  assert (Hp : forall j, cnt j (fp_connp p) = cnt j (fp_conn c) + ind a j + cnt j R).
  { intros j. unfold fp_connp, R. rewrite Ea, Ec. cbn [fp_conno]. cnt_norm. lia. }
  (* the new parser object *)
  assert (Hnew : forall ok c1 chain s1, wf_conn (Some a) c1 -> Forall wf_dec chain ->
            ow_own (flat_map fp_dec chain ++ fp_conn c1 ++ a :: R ++ D2 ++ F) s1 ->
            Q (ok, ow_mk_connp2 (ocp_set_conn p (Some c1)) chain (ocq_req q)) s1).
  { intros ok c1 chain s1 Wc1 Wch O1. apply HQ.
    - split; [|split; auto]. cp_proj2. split; [cbn; rewrite Ea; discriminate|]. split; cbn; auto. rewrite Ea. auto.
    - cbn. discriminate.
    - reflexivity.
    - eapply own_perm; [|exact O1]. intros j. unfold fp_connp2. cp_proj2.
      pose proof (fp_connp_set_conn p (Some c1) j) as FC. rewrite Ec in FC. cbn [fp_conno] in FC. specialize (Hp j).
      fold D2. cnt_norm. lia. }
  apply wp_bind.
  assert (Hdes : forall (Q' : unit -> ow_state -> Prop),
            (forall s1, ow_own (fp_conn c ++ a :: R ++ D2 ++ F) s1 -> Q' tt s1) ->
            ow_wp (if match ocq_out q with [] => true | _ => false end then ow_ret tt else ow_destroy_decompressors (ocq_out q)) Q' s).
  { intros Q' HQ'.
    assert (O1 : ow_own (flat_map fp_dec (ocq_out q) ++ fp_conn c ++ a :: R ++ D2 ++ F) s).
    { eapply own_perm; [|exact O]. intros j. unfold fp_connp2. fold p D2. specialize (Hp j). cnt_norm. lia. }
    destruct (ocq_out q) as [|d0 r0] eqn:Eo.
    - apply wp_ret. apply HQ'. exact O1.
    - apply wp_destroy_decompressors with (F := fp_conn c ++ a :: R ++ D2 ++ F); auto. }
  apply Hdes. clear Hdes. intros s1 O1.
  assert (Wc : wf_conn (Some a) c) by exact W2.
  assert (Hle : forall j, cnto j (Some a) <= cnt j (a :: R ++ D2 ++ F)). { intros j. cnt_norm. lia. }
  destruct (oce_multi sh); cbn [negb].
  - apply wp_bind. apply wp_ce_loop with (cp := Some a) (F := a :: R ++ D2 ++ F); auto; try discriminate; try exact O1.
    intros ok c1 chain s2 W1' S1 Wch O2. apply wp_ret. apply Hnew; auto.
  - apply wp_bind. apply wp_decompressor_create with (cp := Some a) (F := a :: R ++ D2 ++ F); auto; try discriminate.
    + intros c1 s2 W1' S1 O2. cbn [fst snd]. apply wp_ret. apply Hnew; auto.
    + intros d c1 s2 Wd W1' S1 O2. cbn [fst snd].
      apply wp_bind. apply wp_use.
      { unfold wf_dec in Wd. destruct (odc_self d) as [dd|] eqn:Ed; [|congruence]. exists dd. split; auto.
        destruct O2 as [_ O2]. rewrite O2. unfold fp_dec. rewrite Ed. cnt_norm. lia. }
      apply wp_ret. apply Hnew; auto.
      eapply own_perm; [|exact O2]. intros j. cnt_norm. lia.
Qed.

(* ------------------------------------------------------------------ theorems *)
Theorem ow_safe_decompressor_create on lz fmt p c F s :
  ow_world p c -> ow_own (fp_connp p ++ F) s -> ow_nofault (ow_decompressor_create on lz fmt (ocp_self p) c) s.
Proof.
  intros Wd O. destruct (world_split _ _ Wd) as [a [R [Ea [Wc [Ha [E1 [E2 Hwf]]]]]]].
  eapply wp_nofault. rewrite Ea. apply wp_decompressor_create with (cp := Some a) (F := R ++ F) (Q := fun _ _ => True); auto.
  - eapply own_perm; [|exact O]. intros j. specialize (E1 j). cnt_norm. lia.
  - discriminate.
  - intros j. specialize (Ha j). cnt_norm. lia.
Qed.

Theorem ow_then_destroy_clean_decompressor_create on lz fmt p c F s :
  ow_world p c -> ow_own (fp_connp p ++ F) s ->
  ow_clean_to F (x <- ow_decompressor_create on lz fmt (ocp_self p) c ;;
                 (match fst x with None => ow_ret tt | Some d => ow_decompressor_destroy d end) ;;;
                 ow_connp_destroy_all (Some (ocp_set_conn p (Some (snd x))))) s.
Proof.
  intros Wd O. destruct (world_split _ _ Wd) as [a [R [Ea [Wc [Ha [E1 [E2 Hwf]]]]]]].
  apply wp_bind. rewrite Ea. apply wp_decompressor_create with (cp := Some a) (F := R ++ F); auto.
  - eapply own_perm; [|exact O]. intros j. specialize (E1 j). cnt_norm. lia.
  - discriminate.
  - intros j. specialize (Ha j). cnt_norm. lia.
  - intros c1 s1 W1 _ O1. cbn [fst snd]. apply wp_bind. apply wp_ret.
    apply wp_connp_destroy_all with (F := F); auto.
    eapply own_perm; [|exact O1]. intros j. specialize (E2 c1 j). cnt_norm. lia.
  - intros d c1 s1 Wdd W1 _ O1. cbn [fst snd]. apply wp_bind.
    apply wp_decompressor_destroy with (F := fp_conn c1 ++ R ++ F); auto.
    intros s2 O2. apply wp_connp_destroy_all with (F := F); auto.
    eapply own_perm; [|exact O2]. intros j. specialize (E2 c1 j). cnt_norm. lia.
Qed.

Theorem ow_destroy_decompressors_clean l F s :
  Forall wf_dec l -> ow_own (flat_map fp_dec l ++ F) s -> ow_clean_to F (ow_destroy_decompressors l) s.
Proof. intros W O. apply wp_destroy_decompressors with (F := F); auto. Qed.

Theorem ow_connp2_destroy_all_clean q F s :
  wf_connp2 q -> ow_own (fp_connp2 q ++ F) s -> ow_clean_to F (ow_connp2_destroy_all q) s.
Proof. intros W O. apply wp_connp2_destroy_all with (F := F); auto. Qed.

Theorem ow_safe_tx_state_response_headers on lz sh tx q F s :
  wf_connp2 q -> ocp_conn (ocq_p q) <> None -> ow_own (fp_connp2 q ++ F) s -> live_in tx s ->
  ow_nofault (ow_tx_state_response_headers on lz sh tx q) s.
Proof. intros. eapply wp_nofault. apply wp_tx_state_response_headers with (F := F) (Q := fun _ _ => True); auto. Qed.

(* whatever the outcome (also an error in the middle of a chain), the parser owns the chain it points to *)
Theorem ow_then_destroy_clean_tx_state_response_headers on lz sh tx q F s :
  wf_connp2 q -> ocp_conn (ocq_p q) <> None -> ow_own (fp_connp2 q ++ F) s -> live_in tx s ->
  ow_clean_to F (r <- ow_tx_state_response_headers on lz sh tx q ;; ow_connp2_destroy_all (snd r)) s.
Proof.
  intros W Hc O Htx. apply wp_bind. apply wp_tx_state_response_headers with (F := F); auto.
  intros ok q' s1 W' _ _ O1. cbn [snd]. apply wp_connp2_destroy_all with (F := F); auto.
Qed.

(* twice in a row (the chain of the first call is released by the second) *)
Theorem ow_tx_state_response_headers_twice_clean on lz sh1 sh2 tx q F s :
  wf_connp2 q -> ocp_conn (ocq_p q) <> None -> ow_own (fp_connp2 q ++ F) s -> in_frame tx F ->
  ow_clean_to F (r1 <- ow_tx_state_response_headers on lz sh1 tx q ;;
                 r2 <- ow_tx_state_response_headers on lz sh2 tx (snd r1) ;; ow_connp2_destroy_all (snd r2)) s.
Proof.
  intros W Hc O Htx. apply wp_bind. apply wp_tx_state_response_headers with (F := F); auto. { eapply in_frame_live; eauto. }
  intros ok q' s1 W' Hc' _ O1. cbn [snd]. apply wp_bind. apply wp_tx_state_response_headers with (F := F); auto.
  { eapply in_frame_live; eauto. }
  intros ok2 q2 s2 W2 _ _ O2. cbn [snd]. apply wp_connp2_destroy_all with (F := F); auto.
Qed.
