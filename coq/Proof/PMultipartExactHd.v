(* C14 (d), part 1: the part layer on the header lines the encoder writes (explicit record forms). *)
Require Import Htp.Model.Base Htp.Model.MBstr Htp.Model.MMultipart Htp.Spec.SMultipart.
Require Import Htp.Proof.PMultipartHd Htp.Proof.PMultipart.

Definition mpx_ns (fl : N) : Prop := mp_has c_mp_SEEN_LAST_BOUNDARY fl = false.

Lemma mpx_ns_or fl f : mp_fneutral f -> mpx_ns fl -> mpx_ns (mp_or fl f).
Proof. intros Hf H. unfold mpx_ns. rewrite mp_has_neutral by exact Hf. exact H. Qed.

Ltac mpx_pl :=
  cbn [mpl_flags mpl_bcount mpl_done mpl_cur mpl_mode mpl_hpieces mpl_pending mpl_dpieces
       mpp_type mpp_name mpp_file mpp_ctype mpp_headers mpp_value mpp_fdata
       mp_set_headers mp_set_type mp_set_name mp_set_file mp_set_ctype mp_set_value mp_set_fdata mp_new_part
       mp_pl_flag mp_pl_set_flags mp_bb_append mp_isnil mp_issome].

(* ------------------------------------------------------------------ lists *)
Lemma mpx_trim_crlf L : mp_trim_eol (L ++ [CR; LF]) = L.
Proof.
  unfold mp_trim_eol. rewrite app_length. cbn [length].
  assert (E1 : (1 <? length L + 2) = true) by (apply Nat.ltb_lt; lia). rewrite E1.
  replace (length L + 2 - 1) with (length L + 1) by lia.
  assert (N1 : nth (length L + 1) (L ++ [CR; LF]) 0%N = LF).
  { rewrite app_nth2 by lia. replace (length L + 1 - length L) with 1 by lia. reflexivity. }
  rewrite N1. change (LF =? LF)%N with true. cbv iota.
  replace (length L + 1 - 1) with (length L) by lia.
  assert (N2 : nth (length L) (L ++ [CR; LF]) 0%N = CR).
  { rewrite app_nth2 by lia. rewrite Nat.sub_diag. reflexivity. }
  rewrite N2. change (CR =? CR)%N with true. cbv iota.
  rewrite <- (Nat.add_0_r (length L)). rewrite firstn_app_2. cbn [firstn]. apply app_nil_r.
Qed.

Lemma mpx_trim_crlf_only : mp_trim_eol [CR; LF] = [].
Proof. reflexivity. Qed.

(* ------------------------------------------------------------------ mp_hd on explicit records *)
Section Hd.
Variables (fl : N) (bc : nat) (ps : list mp_part).
Hypothesis Hns : mpx_ns fl.

Lemma mpx_hd_new d : d <> [] ->
  mp_hd (mk_mp_pl fl (S bc) ps None MpLine None None None) d false =
  mk_mp_pl fl (S bc) ps (Some (mp_new_part MpUnknown)) MpLine (Some d) None None.
Proof.
  intros Hd. destruct d as [|c r]; [congruence|]. unfold mp_hd, mp_part_handle_data. mpx_pl.
  cbn [Nat.eqb]. mpx_pl. rewrite Hns. reflexivity.
Qed.

Lemma mpx_hd_piece p pe d : d <> [] ->
  mp_hd (mk_mp_pl fl (S bc) ps (Some p) MpLine None pe None) d false =
  mk_mp_pl fl (S bc) ps (Some p) MpLine (Some d) pe None.
Proof.
  intros Hd. destruct d as [|c r]; [congruence|]. unfold mp_hd, mp_part_handle_data. mpx_pl.
  rewrite Hns. reflexivity.
Qed.

Lemma mpx_hd_eol_first p L : L <> [] ->
  mp_hd (mk_mp_pl fl (S bc) ps (Some p) MpLine (Some L) None None) [CR; LF] true =
  mk_mp_pl fl (S bc) ps (Some p) MpLine None (Some L) None.
Proof.
  intros HL. unfold mp_hd, mp_part_handle_data. mpx_pl. rewrite Hns. cbn [andb].
  rewrite mpx_trim_crlf. destruct L as [|c r]; [congruence|]. reflexivity.
Qed.

Lemma mpx_hd_eol_next p L l0 : L <> [] -> c_isspace (hd 0%N L) = false ->
  mp_hd (mk_mp_pl fl (S bc) ps (Some p) MpLine (Some L) (Some l0) None) [CR; LF] true =
  mk_mp_pl (fst (mp_parse_header fl p l0)) (S bc) ps (Some (snd (mp_parse_header fl p l0))) MpLine None (Some L) None.
Proof.
  intros HL Hsp. unfold mp_hd, mp_part_handle_data. mpx_pl. rewrite Hns. cbn [andb].
  rewrite mpx_trim_crlf. destruct L as [|c r]; [congruence|]. cbn [mp_isnil app hd] in *. rewrite Hsp.
  destruct (mp_parse_header fl p l0). reflexivity.
Qed.

Lemma mpx_hd_empty p l0 :
  mp_hd (mk_mp_pl fl (S bc) ps (Some p) MpLine None (Some l0) None) [CR; LF] true =
  let '(fl1, p1) := mp_parse_header fl p l0 in
  let '(fl2, p2) := mp_process_headers fl1 p1 in
  if mp_issome (mpp_file p2) then mk_mp_pl fl2 (S bc) ps (Some (mp_set_type p2 MpFile)) MpData None None None
  else if mp_issome (mpp_name p2) then mk_mp_pl fl2 (S bc) ps (Some (mp_set_type p2 MpText)) MpData None None None
  else mk_mp_pl fl2 (S bc) ps (Some p2) MpData None None None.
Proof.
  unfold mp_hd, mp_part_handle_data. mpx_pl. rewrite Hns. cbn [andb].
  rewrite mpx_trim_crlf_only. mpx_pl. reflexivity.
Qed.
End Hd.

(* ------------------------------------------------------------------ the header lines of the encoder *)
Definition mpx_cdname : bytes := firstn 19 mp_s_cdhead.      (* Content-Disposition *)
Definition mpx_cdval : bytes := skipn 21 mp_s_cdhead.        (* form-data; name=QUOTE *)
Definition mpx_ctname : bytes := firstn 12 mp_s_cthead.      (* Content-Type *)
Definition mpx_nonul (l : bytes) : Prop := existsb (fun c => (c =? 0)%N) l = false.

Lemma mpx_ph_cd fl t : mpx_nonul t ->
  mp_parse_header fl (mp_new_part MpUnknown) (mp_s_cdhead ++ t) =
  (fl, mp_set_headers (mp_new_part MpUnknown) [((mpx_cdname, mpx_cdval ++ t) : bytes * bytes)]).
Proof.
  intros Ht. unfold mp_parse_header. rewrite existsb_app, Ht. reflexivity.
Qed.

Lemma mpx_take_stop (p : N -> bool) (l : bytes) x t : forallb p l = true -> p x = false -> take_while p (l ++ x :: t) = l.
Proof.
  induction l as [|c r IH]; cbn [forallb take_while app]; intros H Hx; [rewrite Hx; reflexivity|].
  apply andb_true_iff in H. destruct H as [-> H]. rewrite IH by assumption. reflexivity.
Qed.
Lemma mpx_take_all (p : N -> bool) (l : bytes) : forallb p l = true -> take_while p l = l.
Proof. induction l as [|c r IH]; cbn [forallb take_while]; [reflexivity|]. intros H. apply andb_true_iff in H. destruct H as [-> H]. rewrite IH by exact H. reflexivity. Qed.
Lemma mpx_skipn_app {A} (l r : list A) : skipn (length l) (l ++ r) = r.
Proof. induction l; [reflexivity|exact IHl]. Qed.

Lemma mpx_ph_generic fl p (nm after : bytes) :
  forallb (fun c => negb (c =? mp_COLON)%N) nm = true ->
  match nm with c :: _ => htp_is_space c | [] => false end = false ->
  mp_isnil nm = false -> htp_is_lws (mp_last_byte nm) = false -> forallb htp_is_token nm = true ->
  mp_isnil (drop_while htp_is_lws after) = false ->
  mpx_nonul (nm ++ mp_COLON :: after) ->
  mp_parse_header fl p (nm ++ mp_COLON :: after) =
  let value := drop_while htp_is_lws after in
  let fl1 := if negb (cmp_mem_nocase nm mp_s_cd =? 0)%Z && negb (cmp_mem_nocase nm mp_s_ct =? 0)%Z
             then mp_or fl c_mp_PART_HEADER_UNKNOWN else fl in
  match mp_hget (mpp_headers p) nm with
  | Some _ => (mp_or fl1 c_mp_PART_HEADER_REPEATED, mp_set_headers p (mp_hmerge (mpp_headers p) nm value))
  | None => (fl1, mp_set_headers p (mpp_headers p ++ [(nm, value)]))
  end.
Proof.
  intros H1 H2 H3 H4 H5 Hv Hn. unfold mp_parse_header. rewrite Hn.
  assert (Hh : match nm ++ mp_COLON :: after with c :: _ => htp_is_space c | [] => false end = false).
  { destruct nm as [|c r]; [discriminate H3|exact H2]. }
  rewrite Hh. rewrite (mpx_take_stop _ nm mp_COLON after H1 eq_refl). rewrite mpx_skipn_app.
  rewrite H3, H4, Hv, H5. reflexivity.
Qed.

Lemma mpx_ph_ct fl (v1 t : bytes) : mpx_nonul t -> mp_isnil t = false -> htp_is_lws (hd 0%N t) = false ->
  mp_parse_header fl (mp_set_headers (mp_new_part MpUnknown) [(mpx_cdname, v1)]) (mp_s_cthead ++ t) =
  (fl, mp_set_headers (mp_new_part MpUnknown) [(mpx_cdname, v1); (mpx_ctname, t)]).
Proof.
  intros Hn Ht Hl.
  assert (Hd : drop_while htp_is_lws (SP :: t) = t).
  { destruct t as [|c r]; [discriminate Ht|]. cbn [hd] in Hl. change (drop_while htp_is_lws (SP :: c :: r)) with (drop_while htp_is_lws (c :: r)).
    cbn [drop_while]. rewrite Hl. reflexivity. }
  change (mp_s_cthead ++ t) with (mpx_ctname ++ mp_COLON :: SP :: t).
  rewrite mpx_ph_generic; try reflexivity.
  - rewrite Hd. reflexivity.
  - rewrite Hd. exact Ht.
  - unfold mpx_nonul in *. rewrite existsb_app. cbn [existsb]. rewrite Hn. reflexivity.
Qed.

(* ------------------------------------------------------------------ Content-Disposition parameters *)
Definition mpx_pre_name : bytes := [mp_SEMI; SP] ++ mp_s_name ++ [mp_EQ; mp_QUOTE].          (* ; name=QUOTE *)
Definition mpx_pre_filename : bytes := [mp_SEMI; SP] ++ mp_s_filename ++ [mp_EQ; mp_QUOTE].  (* ; filename=QUOTE *)

Lemma mpx_cd_step_name fuel r8 fl p :
  mp_cd_loop (S fuel) (mpx_pre_name ++ r8) fl p =
  match mp_cd_quoted r8 [] with
  | None => (mp_or fl c_mp_CD_SYNTAX_INVALID, p)
  | Some (raw, r9) => if mp_issome (mpp_name p) then (mp_or fl c_mp_CD_PARAM_REPEATED, p)
                      else mp_cd_loop fuel r9 fl (mp_set_name p (Some (mp_cd_unquote raw)))
  end.
Proof. reflexivity. Qed.

Lemma mpx_cd_step_filename fuel r8 fl p :
  mp_cd_loop (S fuel) (mpx_pre_filename ++ r8) fl p =
  match mp_cd_quoted r8 [] with
  | None => (mp_or fl c_mp_CD_SYNTAX_INVALID, p)
  | Some (raw, r9) => if mp_issome (mpp_file p) then (mp_or fl c_mp_CD_PARAM_REPEATED, p)
                      else mp_cd_loop fuel r9 fl (mp_set_file p (Some (mp_cd_unquote raw)))
  end.
Proof. reflexivity. Qed.

Lemma mpx_cd_iter_name fuel x r9 fl p : mpp_name p = None ->
  mp_cd_loop (S fuel) (mpx_pre_name ++ mp_quote x ++ mp_QUOTE :: r9) fl p = mp_cd_loop fuel r9 fl (mp_set_name p (Some x)).
Proof.
  intros Hn. rewrite mpx_cd_step_name, mp_cd_quoted_quote, Hn. cbn [rev app mp_issome]. rewrite mp_cd_unquote_quote. reflexivity.
Qed.
Lemma mpx_cd_iter_filename fuel x r9 fl p : mpp_file p = None ->
  mp_cd_loop (S fuel) (mpx_pre_filename ++ mp_quote x ++ mp_QUOTE :: r9) fl p = mp_cd_loop fuel r9 fl (mp_set_file p (Some x)).
Proof.
  intros Hn. rewrite mpx_cd_step_filename, mp_cd_quoted_quote, Hn. cbn [rev app mp_issome]. rewrite mp_cd_unquote_quote. reflexivity.
Qed.
Lemma mpx_cd_loop_nil fuel fl p : mp_cd_loop fuel [] fl p = (fl, p).
Proof. destruct fuel; reflexivity. Qed.

(* htp_mpart_part_parse_c_d on the encoder's header value *)
Definition mpx_v_text (n : bytes) : bytes := mpx_cdval ++ mp_quote n ++ [mp_QUOTE].
Definition mpx_v_file (n f : bytes) : bytes := mpx_cdval ++ mp_quote n ++ mp_s_fnhead ++ mp_quote f ++ [mp_QUOTE].
Lemma mpx_parse_cd_text fl p hs n :
  mpp_headers p = (mpx_cdname, mpx_v_text n) :: hs -> mpp_name p = None ->
  mp_parse_c_d fl p = (fl, mp_set_name p (Some n)).
Proof.
  intros Hh Hn. unfold mp_parse_c_d. rewrite Hh.
  change (mp_hget_c ((mpx_cdname, mpx_v_text n) :: hs) mp_s_cd) with (Some (mpx_v_text n)).
  change (index_of_mem (mpx_v_text n) mp_s_formdata) with 0%Z.
  change (negb (0 =? 0)%Z) with false. cbv iota.
  change (skipn 9 (mpx_v_text n)) with (mpx_pre_name ++ mp_quote n ++ [mp_QUOTE]).
  rewrite mpx_cd_iter_name by exact Hn. apply mpx_cd_loop_nil.
Qed.

Lemma mpx_parse_cd_file fl p hs n f :
  mpp_headers p = (mpx_cdname, mpx_v_file n f) :: hs -> mpp_name p = None -> mpp_file p = None ->
  mp_parse_c_d fl p = (fl, mp_set_file (mp_set_name p (Some n)) (Some f)).
Proof.
  intros Hh Hn Hf. unfold mp_parse_c_d. rewrite Hh.
  change (mp_hget_c ((mpx_cdname, mpx_v_file n f) :: hs) mp_s_cd) with (Some (mpx_v_file n f)).
  change (index_of_mem (mpx_v_file n f) mp_s_formdata) with 0%Z.
  change (negb (0 =? 0)%Z) with false. cbv iota.
  change (skipn 9 (mpx_v_file n f)) with (mpx_pre_name ++ mp_quote n ++ mp_QUOTE :: mpx_pre_filename ++ mp_quote f ++ [mp_QUOTE]).
  rewrite mpx_cd_iter_name by exact Hn.
  assert (Hl : exists k, length (mpx_v_file n f) = S k).
  { unfold mpx_v_file, mpx_cdval. cbn [mp_s_cdhead skipn app length]. eexists. reflexivity. }
  destruct Hl as [k ->].
  rewrite mpx_cd_iter_filename by (destruct p; exact Hf). apply mpx_cd_loop_nil.
Qed.

(* ------------------------------------------------------------------ the empty line: headers are processed *)
Definition mpx_text_part (n : bytes) : mp_part :=
  mk_mp_part MpText (Some n) None None [(mpx_cdname, mpx_v_text n)] None [].
Definition mpx_file_part (n f : bytes) (ct : option bytes) : mp_part :=
  mk_mp_part MpFile (Some n) (Some f) (match ct with Some t => Some (to_lowercase t) | None => None end)
             ((mpx_cdname, mpx_v_file n f) :: match ct with Some t => [(mpx_ctname, t)] | None => [] end) None [].

Lemma mpx_nonul_app a b : mpx_nonul a -> mpx_nonul b -> mpx_nonul (a ++ b).
Proof. unfold mpx_nonul. intros Ha Hb. rewrite existsb_app, Ha, Hb. reflexivity. Qed.

Section Empty.
Variables (fl : N) (bc : nat) (ps : list mp_part).
Hypothesis Hns : mpx_ns fl.

Lemma mpx_empty_text n : mpx_nonul (mp_quote n) ->
  mp_hd (mk_mp_pl fl (S bc) ps (Some (mp_new_part MpUnknown)) MpLine None (Some (mp_s_cdhead ++ mp_quote n ++ [mp_QUOTE])) None) [CR; LF] true =
  mk_mp_pl fl (S bc) ps (Some (mpx_text_part n)) MpData None None None.
Proof.
  intros Hn. rewrite mpx_hd_empty by exact Hns.
  rewrite mpx_ph_cd by (apply mpx_nonul_app; [exact Hn|reflexivity]).
  unfold mp_process_headers. rewrite (mpx_parse_cd_text fl _ [] n) by reflexivity. reflexivity.
Qed.

Lemma mpx_empty_file n f : mpx_nonul (mp_quote n) -> mpx_nonul (mp_quote f) ->
  mp_hd (mk_mp_pl fl (S bc) ps (Some (mp_new_part MpUnknown)) MpLine None
                  (Some (mp_s_cdhead ++ mp_quote n ++ mp_s_fnhead ++ mp_quote f ++ [mp_QUOTE])) None) [CR; LF] true =
  mk_mp_pl fl (S bc) ps (Some (mpx_file_part n f None)) MpData None None None.
Proof.
  intros Hn Hf. rewrite mpx_hd_empty by exact Hns.
  rewrite mpx_ph_cd by (apply mpx_nonul_app; [exact Hn|apply mpx_nonul_app; [reflexivity|apply mpx_nonul_app; [exact Hf|reflexivity]]]).
  unfold mp_process_headers. rewrite (mpx_parse_cd_file fl _ [] n f) by reflexivity. reflexivity.
Qed.

(* the Content-Type line arrives: the pending Content-Disposition line is parsed *)
Lemma mpx_second_line n f t : mpx_nonul (mp_quote n) -> mpx_nonul (mp_quote f) ->
  mp_hd (mk_mp_pl fl (S bc) ps (Some (mp_new_part MpUnknown)) MpLine (Some (mp_s_cthead ++ t))
                  (Some (mp_s_cdhead ++ mp_quote n ++ mp_s_fnhead ++ mp_quote f ++ [mp_QUOTE])) None) [CR; LF] true =
  mk_mp_pl fl (S bc) ps (Some (mp_set_headers (mp_new_part MpUnknown) [(mpx_cdname, mpx_v_file n f)])) MpLine None
           (Some (mp_s_cthead ++ t)) None.
Proof.
  intros Hn Hf. rewrite mpx_hd_eol_next; [|exact Hns|discriminate|reflexivity].
  rewrite mpx_ph_cd by (apply mpx_nonul_app; [exact Hn|apply mpx_nonul_app; [reflexivity|apply mpx_nonul_app; [exact Hf|reflexivity]]]).
  reflexivity.
Qed.

Lemma mpx_empty_file_ct n f t : mpx_nonul t -> mp_isnil t = false -> htp_is_lws (hd 0%N t) = false ->
  forallb (fun c => negb (c =? mp_SEMI)%N && negb (c =? mp_COMMA)%N && negb (c =? SP)%N) t = true ->
  mp_hd (mk_mp_pl fl (S bc) ps (Some (mp_set_headers (mp_new_part MpUnknown) [(mpx_cdname, mpx_v_file n f)])) MpLine None
                  (Some (mp_s_cthead ++ t)) None) [CR; LF] true =
  mk_mp_pl fl (S bc) ps (Some (mpx_file_part n f (Some t))) MpData None None None.
Proof.
  intros Hn Ht Hl Hc. rewrite mpx_hd_empty by exact Hns.
  rewrite mpx_ph_ct by assumption.
  unfold mp_process_headers. rewrite (mpx_parse_cd_file fl _ [(mpx_ctname, t)] n f) by reflexivity. cbv zeta.
  unfold mp_parse_c_t. mpx_pl.
  change (mp_hget_c [(mpx_cdname, mpx_v_file n f); (mpx_ctname, t)] mp_s_ct) with (Some t).
  cbv iota. rewrite (mpx_take_all _ t Hc). reflexivity.
Qed.
End Empty.

(* ------------------------------------------------------------------ the two shapes of the layer between events *)
(* right after a delimiter: no current part *)
Definition mpx_between (ps : list mp_part) (pl : mp_pl) : Prop :=
  exists fl bc, pl = mk_mp_pl fl (S bc) ps None MpLine None None None /\ mpx_ns fl.

Definition mpx_frame := (mp_ptype * option bytes * option bytes * option bytes)%type.
Definition mpx_fr (p : mp_part) : mpx_frame := (mpp_type p, mpp_name p, mpp_file p, mpp_ctype p).

(* inside the data of a text or file part; acc = the data handed over so far *)
Definition mpx_ds (ps : list mp_part) (fr : mpx_frame) (acc : bytes) (pl : mp_pl) : Prop :=
  exists fl bc p dp, pl = mk_mp_pl fl (S bc) ps (Some p) MpData None None dp /\ mpx_ns fl /\ mpx_fr p = fr /\
    ((mpp_type p = MpFile /\ dp = None /\ mpp_fdata p = acc) \/
     (mpp_type p = MpText /\ mpp_value p = None /\ match dp with Some v => v | None => [] end = acc)).

Lemma mpx_nodup_ns pl : mpx_ns (mpl_flags pl) -> mp_dupb pl = false.
Proof. intros H. unfold mp_dupb. rewrite H. reflexivity. Qed.

Lemma mpx_between_flag ps pl f : mp_fneutral f -> mpx_between ps pl -> mpx_between ps (mp_pl_flag pl f).
Proof.
  intros Hf (fl & bc & -> & Hns). exists (mp_or fl f), bc. split; [reflexivity|apply mpx_ns_or; assumption].
Qed.

Lemma mpx_ds_flag ps fr acc pl f : mp_fneutral f -> mpx_ds ps fr acc pl -> mpx_ds ps fr acc (mp_pl_flag pl f).
Proof.
  intros Hf (fl & bc & p & dp & -> & Hns & Hfr & H). exists (mp_or fl f), bc, p, dp.
  split; [reflexivity|]. split; [apply mpx_ns_or; assumption|]. split; assumption.
Qed.

Lemma mpx_ds_nodup ps fr acc pl : mpx_ds ps fr acc pl -> mp_dupb pl = false.
Proof. intros (fl & bc & p & dp & -> & Hns & _). apply mpx_nodup_ns. exact Hns. Qed.

Lemma mpx_ds_closed ps fr acc pl : mpx_ds ps fr acc pl -> mp_openlineb pl = false.
Proof. intros (fl & bc & p & dp & -> & _). reflexivity. Qed.

Lemma mpx_ds_hd ps fr acc pl d l : mpx_ds ps fr acc pl -> mpx_ds ps fr (acc ++ d) (mp_hd pl d l).
Proof.
  intros H. destruct d as [|c r]; [rewrite app_nil_r; exact H|].
  destruct H as (fl & bc & p & dp & -> & Hns & Hfr & [(Ht & -> & Ha)|(Ht & Hv & Ha)]).
  - exists fl, bc, (mp_set_fdata p (mpp_fdata p ++ c :: r)), None.
    split; [|split; [exact Hns|split; [destruct p; exact Hfr|left; destruct p; cbn in *; subst; tauto]]].
    unfold mp_hd, mp_part_handle_data. mpx_pl. rewrite Hns, Ht. reflexivity.
  - exists fl, bc, p, (mp_bb_append dp (c :: r)).
    split; [|split; [exact Hns|split; [exact Hfr|right; split; [exact Ht|split; [exact Hv|]]]]].
    + unfold mp_hd, mp_part_handle_data. mpx_pl. rewrite Hns, Ht. reflexivity.
    + destruct dp; cbn [mp_bb_append]; subst; reflexivity.
Qed.

(* a delimiter completes: the part is finalised and stored *)
Lemma mpx_ds_amatch ps fr acc pl : mpx_ds ps fr acc pl ->
  exists q, mpx_between (ps ++ [q]) (mp_amatch pl) /\ mp_report q = (fr, acc).
Proof.
  intros (fl & bc & p & dp & -> & Hns & Hfr & [(Ht & -> & Ha)|(Ht & Hv & Ha)]).
  - exists p. unfold mp_amatch, mp_pl_bump. mpx_pl. rewrite Hns. unfold mp_hb, mp_finalize_data. mpx_pl. rewrite Hns, Ht. mpx_pl.
    split; [exists fl, (S bc); split; [reflexivity|exact Hns]|].
    unfold mp_report. rewrite Ht, Ha. unfold mpx_fr in Hfr. rewrite <- Hfr, Ht. reflexivity.
  - destruct dp as [v|].
    + exists (mp_set_value p (Some v)). unfold mp_amatch, mp_pl_bump. mpx_pl. rewrite Hns. unfold mp_hb, mp_finalize_data. mpx_pl. rewrite Hns, Ht. mpx_pl.
      split; [exists fl, (S bc); split; [reflexivity|exact Hns]|].
      unfold mp_report. destruct p; cbn in *. subst. reflexivity.
    + exists p. unfold mp_amatch, mp_pl_bump. mpx_pl. rewrite Hns. unfold mp_hb, mp_finalize_data. mpx_pl. rewrite Hns, Ht. mpx_pl.
      split; [exists fl, (S bc); split; [reflexivity|exact Hns]|].
      unfold mp_report. rewrite Ht, Hv, Ha. unfold mpx_fr in Hfr. rewrite <- Hfr, Ht. reflexivity.
Qed.
