(* C06, history level, response direction -- base layer: the FRAME lemmas (a pass of the for(;;) of htp_connp_res_data in
   RES_HEADERS, RES_BODY_DETERMINE, RES_BODY_CHUNKED_LENGTH, RES_BODY_CHUNKED_DATA_END appends no RESPONSE_BODY_DATA and no
   RESPONSE_COMPLETE event; RES_IDLE when the transaction to answer exists; RES_LINE when the line is taken as a status line --
   htp_connp_RES_LINE hands a line that does not look like one to the body callbacks, so there the lemma is conditional on
   the outcome: HTP_DATA_BUFFER, or out_state = RES_HEADERS), and the driver of PSegResGen restated with these events next
   to the invariants of PSegRes.v. *)
Require Import Htp.Model.Base Htp.Model.MBstr Htp.Model.MConnTypes Htp.Model.MTxCommon Htp.Model.MResLine Htp.Model.MTxRes.
Require Import Htp.Model.MReq Htp.Model.MRes Htp.Model.MConnp.
Require Import Htp.Spec.SWire Htp.Spec.SBody Htp.Proof.PBody Htp.Proof.PWire Htp.Proof.PWireHdr Htp.Proof.PWireBlock Htp.Proof.PWireConn Htp.Proof.PWireExch.
Require Import Htp.Proof.PWireRun Htp.Proof.PWirePres Htp.Proof.PWireGlue Htp.Proof.PSeg Htp.Proof.PSegLine Htp.Proof.PSegHdr Htp.Proof.PSegGen Htp.Proof.PSegRun.
Require Import Htp.Proof.PSegFold Htp.Proof.PSegRes Htp.Proof.PSegResLine Htp.Proof.PSegResHdr Htp.Proof.PSegResGen Htp.Proof.PDeliv.

(* the hooks that are followed: RESPONSE_BODY_DATA and the completion callback RESPONSE_COMPLETE *)
Definition dv_rs_hook (h : nat) : bool := Nat.eqb h H_RESPONSE_BODY_DATA || Nat.eqb h H_RESPONSE_COMPLETE.
Definition dv_sb (c : connp) : list event := dv_selp dv_rs_hook (c_events c).
Definition dv_sok (c : connp) : Prop := forall h, k_receiver_hook (c_out c) = Some h -> dv_rs_hook h = false.
Definition dv_fs (c c' : connp) : Prop := dv_sok c -> dv_sb c' = dv_sb c /\ dv_sok c'.
(* no event at all, receiver hook and out_state unchanged *)
Definition dv_ss (c c' : connp) : Prop :=
  c_events c' = c_events c /\ k_receiver_hook (c_out c') = k_receiver_hook (c_out c) /\ c_out_state c' = c_out_state c.

(* no event at all, receiver hook unchanged *)
Definition dv_se (c c' : connp) : Prop := c_events c' = c_events c /\ k_receiver_hook (c_out c') = k_receiver_hook (c_out c).
Lemma dv_se_refl c : dv_se c c. Proof. split; reflexivity. Qed.
Lemma dv_se_trans a b c : dv_se a b -> dv_se b c -> dv_se a c.
Proof. intros (A1 & A2) (B1 & B2). split; [rewrite B1; exact A1|rewrite B2; exact A2]. Qed.
Lemma dv_ss_se c c' : dv_ss c c' -> dv_se c c'. Proof. intros (A & B & _). split; assumption. Qed.
Lemma dv_fs_refl c : dv_fs c c. Proof. intros H. split; [reflexivity|exact H]. Qed.
Lemma dv_fs_trans a b c : dv_fs a b -> dv_fs b c -> dv_fs a c.
Proof. intros H1 H2 Ha. destruct (H1 Ha) as [E1 Hb]. destruct (H2 Hb) as [E2 Hc]. split; [rewrite E2; exact E1|exact Hc]. Qed.
Lemma dv_ss_refl c : dv_ss c c. Proof. repeat split. Qed.
Lemma dv_ss_trans a b c : dv_ss a b -> dv_ss b c -> dv_ss a c.
Proof. intros (A1 & A2 & A3) (B1 & B2 & B3). split; [rewrite B1; exact A1|split; [rewrite B2; exact A2|rewrite B3; exact A3]]. Qed.
Lemma dv_ss_fs c c' : dv_ss c c' -> dv_fs c c'.
Proof. intros (E1 & E2 & _) H. unfold dv_sb, dv_sok in *. rewrite E1, E2. split; [reflexivity|exact H]. Qed.
Lemma dv_se_fs c c' : dv_se c c' -> dv_fs c c'.
Proof. intros (E1 & E2) H. unfold dv_sb, dv_sok in *. rewrite E1, E2. split; [reflexivity|exact H]. Qed.
Lemma dv_fs_se_l a b c : dv_se a b -> dv_fs b c -> dv_fs a c.
Proof. intros H1 H2. eapply dv_fs_trans; [apply dv_se_fs; exact H1|exact H2]. Qed.
Lemma dv_fs_se_r a b c : dv_fs a b -> dv_se b c -> dv_fs a c.
Proof. intros H1 H2. eapply dv_fs_trans; [exact H1|apply dv_se_fs; exact H2]. Qed.
Lemma dv_fs_ss_l a b c : dv_ss a b -> dv_fs b c -> dv_fs a c.
Proof. intros H1 H2. eapply dv_fs_trans; [apply dv_ss_fs; exact H1|exact H2]. Qed.
Lemma dv_fs_ss_r a b c : dv_fs a b -> dv_ss b c -> dv_fs a c.
Proof. intros H1 H2. eapply dv_fs_trans; [exact H1|apply dv_ss_fs; exact H2]. Qed.
Lemma dv_fs_hook h i data last c : dv_rs_hook h = false -> dv_fs c (wr_hook_ev h i data last c).
Proof.
  intros Hn Hr. split; [|exact Hr]. unfold dv_sb, wr_hook_ev, dv_selp. cbn [c_events emit set filter ev_hook].
  cbn. rewrite Hn. reflexivity.
Qed.
Lemma dv_fs_hook_r a b h i data last : dv_rs_hook h = false -> dv_fs a b -> dv_fs a (wr_hook_ev h i data last b).
Proof. intros Hn H. eapply dv_fs_trans; [exact H|apply dv_fs_hook; exact Hn]. Qed.
Lemma dv_fs_state a x s : dv_fs a x -> dv_fs a (rs_set_state s x).
Proof. intros H. exact H. Qed.

(* ---- the transaction table, the cursor ---- *)
Lemma dv_ss_tx_put c i t : dv_ss c (tx_put c i t).
Proof. unfold tx_put. destruct (_ <? _)%nat; [repeat split|]. destruct (_ <? _)%nat; repeat split. Qed.
Lemma dv_ss_tx_upd c i f : dv_ss c (tx_upd c i f).
Proof. unfold tx_upd. destruct (tx_slot c i); [apply dv_ss_tx_put|repeat split]. Qed.
Lemma dv_ss_otx f c : dv_ss c (rs_otx f c).
Proof. unfold rs_otx. destruct (c_out_tx c); [apply dv_ss_tx_upd|repeat split]. Qed.
Lemma dv_ss_fault c : dv_ss c (rs_fault c). Proof. repeat split. Qed.
Lemma dv_ss_load_next c : dv_ss c (rs_load_next c).
Proof. unfold rs_load_next. destruct (rs_cur_byte c _); repeat split. Qed.
Lemma dv_ss_peek c : dv_ss c (rs_peek_next c).
Proof. unfold rs_peek_next. destruct (rs_has_byte c); [apply dv_ss_load_next|repeat split]. Qed.
Lemma dv_ss_copy c c' : rs_copy_byte c = Some c' -> dv_ss c c'.
Proof.
  unfold rs_copy_byte. destruct (rs_has_byte c); [|discriminate]. intros E. inversion E.
  eapply dv_ss_trans; [apply dv_ss_load_next|repeat split].
Qed.
Lemma dv_ss_copy_or_fault c : dv_ss c (match rs_copy_byte c with Some c' => c' | None => rs_fault c end).
Proof. destruct (rs_copy_byte c) as [c'|] eqn:E; [apply (dv_ss_copy _ _ E)|apply dv_ss_fault]. Qed.
Lemma dv_ss_next c c' : rs_next_byte c = Some c' -> dv_ss c c'.
Proof.
  unfold rs_next_byte. destruct (rs_has_byte c); [|discriminate]. intros E. inversion E.
  eapply dv_ss_trans; [apply dv_ss_load_next|repeat split].
Qed.
Lemma dv_ss_clear c : dv_ss c (rs_clear_buffer c). Proof. repeat split. Qed.

Section FrameRes.
Variable cb : cb_oracle.
Variable g : cfg.
Hypothesis Hcb : wr_all_ok cb.

Lemma dv_ss_res_buffer c : dv_ss c (snd (rs_res_buffer g c)).
Proof.
  unfold rs_res_buffer. cbv zeta. destruct (k_data (c_out c)); [|apply dv_ss_refl].
  set (c1 := if (k_read (c_out c) <? k_consume (c_out c))%nat then rs_fault c else c).
  assert (H1 : dv_ss c c1) by (unfold c1; destruct (k_read (c_out c) <? k_consume (c_out c))%nat; repeat split).
  set (c2 := match c_out_tx c1 with None => rs_fault c1 | Some _ => c1 end).
  assert (H2 : dv_ss c c2) by (unfold c2; destruct (c_out_tx c1); [exact H1|eapply dv_ss_trans; [exact H1|apply dv_ss_fault]]).
  destruct (g_field_limit_hard g <? _)%nat; [exact H2|]. eapply dv_ss_trans; [exact H2|repeat split].
Qed.
Lemma dv_ss_consolidate c : dv_ss c (snd (rs_consolidate g c)).
Proof.
  unfold rs_consolidate. cbv zeta. destruct (k_buf (c_out c)).
  - pose proof (dv_ss_res_buffer c) as H. destruct (rs_res_buffer g c) as [[] c1]; exact H.
  - destruct (k_data (c_out c)); cbn [snd]; match goal with |- dv_ss c (if ?b then _ else _) => destruct b end; repeat split.
Qed.

(* ---- the raw-data receiver ---- *)
Lemma dv_fs_send last c : dv_fs c (snd (res_receiver_send_data cb last c)).
Proof.
  unfold res_receiver_send_data. destruct (k_receiver_hook (c_out c)) as [h|] eqn:Eh; [|apply dv_fs_refl]. cbv zeta.
  unfold run_data_hook. rewrite (wr_run_hook_ex cb Hcb). cbn [snd].
  intros Hr. assert (Hn : dv_rs_hook h = false) by (apply Hr; exact Eh).
  match goal with |- context [wr_hook_ev h ?i ?d last ?x] => set (c0 := x); set (ii := i); set (dd := d) end.
  assert (H0 : dv_ss c c0).
  { unfold c0. repeat match goal with |- context [if ?b then _ else _] => destruct b end; repeat match goal with |- context [match ?x with _ => _ end] => destruct x end; repeat split. }
  destruct (dv_ss_fs _ _ H0 Hr) as [A0 R0]. destruct (dv_fs_hook h ii dd last c0 Hn R0) as [A1 R1].
  split; [rewrite <- A0, <- A1; reflexivity|exact R1].
Qed.
Lemma dv_fs_finalize c : dv_fs c (snd (res_receiver_finalize_clear cb c)).
Proof.
  unfold res_receiver_finalize_clear. destruct (k_receiver_hook (c_out c)) eqn:Eh; [|apply dv_fs_refl].
  pose proof (dv_fs_send true c) as H. destruct (res_receiver_send_data cb true c) as [rc c1]. cbn [snd] in *.
  intros Hr. destruct (H Hr) as [A R]. split; [exact A|]. unfold dv_sok. cbn. intros h' E'. discriminate E'.
Qed.
Lemma dv_fs_receiver_set h c : dv_rs_hook h = false -> dv_fs c (snd (res_receiver_set cb h c)).
Proof.
  intros Hn. unfold res_receiver_set. pose proof (dv_fs_finalize c) as H. destruct (res_receiver_finalize_clear cb c) as [rc c1]. cbn [snd] in *.
  intros Hr. destruct (H Hr) as [A R]. split; [exact A|]. unfold dv_sok. cbn. intros h' E. inversion E. subst h'. exact Hn.
Qed.
Lemma dv_fs_state_change c : dv_fs c (snd (rs_handle_state_change cb c)).
Proof.
  unfold rs_handle_state_change. cbv zeta.
  destruct (match c_out_state_previous c with Some p => res_state_eqb p (c_out_state c) | None => false end); [apply dv_fs_refl|].
  set (r := if res_state_eqb (c_out_state c) RES_HEADERS then _ else (ST_OK, c)).
  assert (H : dv_fs c (snd r)).
  { unfold r. destruct (res_state_eqb (c_out_state c) RES_HEADERS); [|apply dv_fs_refl].
    set (c1 := match c_out_tx c with None => rs_fault c | Some _ => c end).
    assert (H1 : dv_ss c c1) by (unfold c1; destruct (c_out_tx c); repeat split).
    destruct (_ =? _)%Z; [eapply dv_fs_ss_l; [exact H1|apply dv_fs_receiver_set; reflexivity]|].
    destruct (_ =? _)%Z; [eapply dv_fs_ss_l; [exact H1|apply dv_fs_receiver_set; reflexivity]|]. apply dv_ss_fs. exact H1. }
  clearbody r. destruct r as [rc c1]. cbn [snd] in H. destruct rc; cbn [snd]; exact H.
Qed.
Lemma dv_fs_exit rc c : dv_fs c (fst (rs_res_exit cb g rc c)).
Proof.
  unfold rs_res_exit. pose proof (dv_fs_send false c) as H.
  destruct rc; try solve [apply dv_ss_fs; repeat split].
  - cbn [fst]. exact H.
  - destruct (_ <=? _)%nat; apply dv_ss_fs; repeat split.
  - set (c0 := snd (res_receiver_send_data cb false c)) in *.
    pose proof (dv_ss_res_buffer c0) as H1. destruct (rs_res_buffer g c0) as [brc c1]. cbn [snd] in H1.
    destruct brc; cbn [fst]; (eapply dv_fs_ss_r; [exact H|]); (eapply dv_ss_trans; [exact H1|repeat split]).
Qed.

(* ---- the state functions ---- *)
Lemma dv_fs_response_start i c : dv_fs c (snd (tx_state_response_start cb i c)).
Proof.
  unfold tx_state_response_start. cbv zeta. rewrite (wr_run_hook cb Hcb).
  match goal with |- context [wr_hook_ev H_RESPONSE_START i None false ?x] => set (c0 := wr_hook_ev H_RESPONSE_START i None false x) end.
  assert (H0 : dv_fs c c0) by (unfold c0; apply dv_fs_hook_r; [reflexivity|apply dv_ss_fs; repeat split]).
  destruct (t_is_protocol_0_9 (tx_get c0 i)); cbn [snd]; (eapply dv_fs_se_r; [exact H0|]).
  - eapply dv_se_trans; [apply dv_ss_se, dv_ss_tx_upd|split; reflexivity].
  - eapply dv_se_trans; [|apply dv_ss_se, dv_ss_tx_upd]. split; reflexivity.
Qed.

(* RES_IDLE with data available, the transaction to answer being in the list *)
Lemma dv_fs_idle c t : nth_error (c_txs c) (c_out_next_tx_index c) = Some (Some t) -> dv_fs c (snd (rs_RES_IDLE cb g c)).
Proof.
  intros Hf. unfold rs_RES_IDLE. destruct (negb (rs_has_byte c)); [apply dv_fs_refl|]. cbv zeta. rewrite Hf.
  eapply dv_fs_se_l; [|apply dv_fs_response_start]. split; reflexivity.
Qed.
Lemma dv_fs_response_line i c : dv_fs c (snd (tx_state_response_line cb i c)).
Proof.
  unfold tx_state_response_line. rewrite (wr_run_hook cb Hcb). cbn [snd]. apply dv_fs_hook_r; [reflexivity|]. apply dv_ss_fs, dv_ss_tx_upd.
Qed.
(* htp_tx_res_process_body_data_ex: not a frame; it keeps out_state and answers HTP_OK or HTP_ERROR *)
Lemma dv_run_tx_hooks_state k h i data last c : c_out_state (run_tx_hooks k h i data last c) = c_out_state c /\
  k_receiver_hook (c_out (run_tx_hooks k h i data last c)) = k_receiver_hook (c_out c).
Proof. destruct (bd_run_tx_hooks_spec k h i data last c) as (new & E & _). rewrite E. split; reflexivity. Qed.
Lemma dv_process_body_state data len c :
  c_out_state (snd (rs_process_body cb data len c)) = c_out_state c /\ fst (rs_process_body cb data len c) <> ST_DATA_BUFFER.
Proof.
  unfold rs_process_body. destruct (c_out_tx c) as [i|]; [|split; [reflexivity|discriminate]].
  unfold tx_res_process_body_data_ex.
  set (c1 := tx_upd c i _). assert (S1 : c_out_state c1 = c_out_state c) by (apply (dv_ss_tx_upd c i _)).
  destruct (t_res_cep (tx_get c1 i) =? c_HTP_COMPRESSION_NONE)%Z; [|split; [exact S1|discriminate]].
  set (c2 := tx_upd c1 i _). assert (S2 : c_out_state c2 = c_out_state c) by (rewrite <- S1; apply (dv_ss_tx_upd c1 i _)).
  unfold res_run_hook_body_data.
  assert (G : forall r : st * connp, c_out_state (snd r) = c_out_state c ->
            c_out_state (snd (match r with (ST_OK, c) => (ST_OK, c) | (_, c) => (ST_ERROR, c) end)) = c_out_state c /\
            fst (match r with (ST_OK, c) => (ST_OK, c) | (_, c) => (ST_ERROR, c) end) <> ST_DATA_BUFFER).
  { intros [[] x] Hx; cbn [fst snd] in *; split; try exact Hx; discriminate. }
  assert (Hk : c_out_state (snd (match c_out_tx c2 with
                                 | None => (ST_ERROR, c2 <| c_fault := true |>)
                                 | Some o => run_data_hook cb H_RESPONSE_BODY_DATA i data false
                                               (run_tx_hooks (t_hook_response_body (tx_get c2 o)) H_TX_RESPONSE_BODY_DATA i data false c2)
                                 end)) = c_out_state c).
  { destruct (c_out_tx c2) as [o|]; [|exact S2]. unfold run_data_hook. rewrite (wr_run_hook_ex cb Hcb). cbn [snd].
    change (c_out_state (wr_hook_ev _ _ _ _ ?x)) with (c_out_state x). rewrite (proj1 (dv_run_tx_hooks_state _ _ _ _ _ _)). exact S2. }
  destruct data as [d|]; [destruct len as [|len]|]; [cbn [fst snd]; split; [exact S2|discriminate]|apply G; exact Hk|apply G; exact Hk].
Qed.
(* htp_connp_RES_LINE: a complete line *)
Lemma dv_fs_line_complete c : c_out_state c = RES_LINE ->
  fst (rs_line_complete cb g c) <> ST_DATA_BUFFER /\ (c_out_state (snd (rs_line_complete cb g c)) = RES_HEADERS -> dv_fs c (snd (rs_line_complete cb g c))).
Proof.
  intros Es. unfold rs_line_complete. pose proof (dv_ss_consolidate c) as H. destruct (rs_consolidate g c) as [[data|] c1]; cbn [snd] in H.
  2:{ split; [discriminate|]. intros _. apply dv_ss_fs. exact H. }
  assert (S1 : c_out_state c1 = RES_LINE) by (rewrite (proj2 (proj2 H)); exact Es).
  cbv zeta. destruct (rs_is_line_ignorable _ _).
  - cbn [fst snd]. split; [discriminate|]. intros E. exfalso.
    change (c_out_state (rs_clear_buffer ?x)) with (c_out_state x) in E. rewrite (proj2 (proj2 (dv_ss_otx _ _))) in E.
    destruct (rs_closed c1); cbn in E; rewrite ?S1 in E; discriminate.
  - set (c2 := rs_otx _ c1). assert (H2 : dv_ss c c2) by (eapply dv_ss_trans; [exact H|apply dv_ss_otx]).
    assert (S2 : c_out_state c2 = RES_LINE) by (rewrite (proj2 (proj2 H2)); exact Es).
    destruct (rs_chomp (rs_dbytes data)) as [dc chomp_result].
    destruct (rs_treat_response_line_as_body _).
    + (* handed to the body callbacks: never ends in RES_HEADERS *)
      cbv zeta.
      set (c3 := if (S (k_read (c_out c2)) <? k_len (c_out c2))%nat then match rs_cur_byte c2 (k_read (c_out c2)) with Some _ => c2 | None => rs_fault c2 end else c2).
      assert (S3 : c_out_state c3 = RES_LINE) by (unfold c3; destruct (_ <? _)%nat; [destruct (rs_cur_byte c2 _)|]; exact S2).
      destruct ((S (k_read (c_out c2)) <? k_len (c_out c2))%nat && _).
      * cbn [fst snd]. split; [discriminate|]. intros E. exfalso. change (c_out_state (rs_clear_buffer ?x)) with (c_out_state x) in E.
        rewrite (proj2 (proj2 (dv_ss_otx _ _))), S3 in E. discriminate.
      * match goal with |- context [rs_process_body cb ?bd ?bl ?x] => pose proof (dv_process_body_state bd bl x) as [Sp Np]; set (c4 := x) in *;
          assert (S4 : c_out_state c4 = RES_LINE) by (unfold c4; change (c_out_state (rs_set_out _ ?y)) with (c_out_state y); rewrite (proj2 (proj2 (dv_ss_otx _ _))); exact S3);
          destruct (rs_process_body cb bd bl c4) as [rc c5] end.
        cbn [fst snd] in Sp, Np. rewrite S4 in Sp. destruct rc; cbn [fst snd]; try (split; [discriminate || exact Np|]; intros E; exfalso; change (c_out_state (rs_clear_buffer ?x)) with (c_out_state x) in E; rewrite Sp in E; discriminate).
        destruct (_ <=? _)%nat; cbn [fst snd]; (split; [discriminate|]); intros E; exfalso.
        -- cbn in E. discriminate.
        -- change (c_out_state (rs_clear_buffer ?x)) with (c_out_state x) in E. rewrite Sp in E. discriminate.
    + (* taken as the status line *)
      set (c3 := rs_otx _ c2). assert (H3 : dv_ss c c3) by (eapply dv_ss_trans; [exact H2|apply dv_ss_otx]).
      pose proof (dv_fs_response_line (out_txi c3) c3) as H4. unfold tx_state_response_line in *. rewrite (wr_run_hook cb Hcb) in *. cbn [fst snd] in *.
      split; [discriminate|]. intros _. eapply dv_fs_ss_l; [exact H3|]. eapply dv_fs_se_r; [exact H4|].
      eapply dv_se_trans; [|apply dv_ss_se, dv_ss_otx]. split; reflexivity.
Qed.
Lemma dv_fs_line_loop : forall f c, c_out_state c = RES_LINE ->
  (fst (rs_line_loop cb g f c) = ST_DATA_BUFFER -> dv_fs c (snd (rs_line_loop cb g f c))) /\
  (c_out_state (snd (rs_line_loop cb g f c)) = RES_HEADERS -> dv_fs c (snd (rs_line_loop cb g f c))).
Proof.
  induction f as [|f IH]; intros c Es; cbn [rs_line_loop].
  - cbn [fst snd]. split; [discriminate|]. intros E. cbn in E. rewrite Es in E. discriminate.
  - cbv zeta.
    assert (Hstep : forall c1, dv_ss c c1 ->
       let r := (let '(act, c) := if rs_nb_is c1 CR then
                                    let c := rs_peek_next c1 in
                                    match rs_nb c with
                                    | None => (0%nat, c)
                                    | Some b => if (b =? LF)%N then (1%nat, c) else (2%nat, rs_set_out (fun k => k <| k_next_byte := Some LF |>) c)
                                    end
                                  else (2%nat, c1) in
                 match act with
                 | 0%nat => (ST_DATA_BUFFER, c)
                 | 1%nat => rs_line_loop cb g f c
                 | _ => if rs_nb_is c LF || rs_closed c then rs_line_complete cb g c else rs_line_loop cb g f c
                 end) in
       (fst r = ST_DATA_BUFFER -> dv_fs c (snd r)) /\ (c_out_state (snd r) = RES_HEADERS -> dv_fs c (snd r))).
    { intros c1 H1.
      assert (G : forall c2, dv_ss c c2 ->
                (fst (rs_line_loop cb g f c2) = ST_DATA_BUFFER -> dv_fs c (snd (rs_line_loop cb g f c2))) /\
                (c_out_state (snd (rs_line_loop cb g f c2)) = RES_HEADERS -> dv_fs c (snd (rs_line_loop cb g f c2)))).
      { intros c2 H2. assert (S2 : c_out_state c2 = RES_LINE) by (rewrite (proj2 (proj2 H2)); exact Es).
        destruct (IH c2 S2) as [I1 I2]. split; intros E; (eapply dv_fs_ss_l; [exact H2|]); [apply I1|apply I2]; exact E. }
      assert (G2 : forall c2, dv_ss c c2 ->
                (fst (rs_line_complete cb g c2) = ST_DATA_BUFFER -> dv_fs c (snd (rs_line_complete cb g c2))) /\
                (c_out_state (snd (rs_line_complete cb g c2)) = RES_HEADERS -> dv_fs c (snd (rs_line_complete cb g c2)))).
      { intros c2 H2. assert (S2 : c_out_state c2 = RES_LINE) by (rewrite (proj2 (proj2 H2)); exact Es).
        destruct (dv_fs_line_complete c2 S2) as [I1 I2]. split; intros E; [contradiction|]. eapply dv_fs_ss_l; [exact H2|apply I2; exact E]. }
      assert (G3 : forall c2, dv_ss c c2 ->
                let r := (if rs_nb_is c2 LF || rs_closed c2 then rs_line_complete cb g c2 else rs_line_loop cb g f c2) in
                (fst r = ST_DATA_BUFFER -> dv_fs c (snd r)) /\ (c_out_state (snd r) = RES_HEADERS -> dv_fs c (snd r))).
      { intros c2 H2. cbv zeta. destruct (rs_nb_is c2 LF || rs_closed c2); [apply G2|apply G]; exact H2. }
      cbv zeta. destruct (rs_nb_is c1 CR); [|apply G3; exact H1].
      pose proof (dv_ss_trans _ _ _ H1 (dv_ss_peek c1)) as Hp. destruct (rs_nb (rs_peek_next c1)) as [b|].
      - destruct (b =? LF)%N; [apply G; exact Hp|]. apply G3. eapply dv_ss_trans; [exact Hp|repeat split].
      - cbn [fst snd]. split; intros _; apply dv_ss_fs; exact Hp. }
    destruct (negb (rs_closed c)).
    + destruct (rs_copy_byte c) as [c1|] eqn:Ec; [apply Hstep; apply (dv_ss_copy _ _ Ec)|].
      cbn [fst snd]. split; intros _; apply dv_fs_refl.
    + apply Hstep. apply dv_ss_refl.
Qed.

(* ---- RES_HEADERS ---- *)
Lemma dv_fs_trailer_end c : dv_fs c (snd (rs_trailer_end cb c)).
Proof.
  unfold rs_trailer_end. pose proof (dv_fs_finalize c) as H. destruct (res_receiver_finalize_clear cb c) as [rc c1]. cbn [snd] in H.
  destruct rc; cbn [snd]; try exact H. rewrite (wr_run_hook cb Hcb). cbn [snd]. apply dv_fs_state. apply dv_fs_hook_r; [reflexivity|exact H].
Qed.
Lemma dv_ss_process_header line c : dv_ss c (rs_process_header line c). Proof. apply dv_ss_otx. Qed.
Lemma dv_se_flush_header c : dv_se c (rs_flush_header c).
Proof.
  unfold rs_flush_header. destruct (k_header (c_out c)); [|apply dv_se_refl].
  eapply dv_se_trans; [apply dv_ss_se, dv_ss_process_header|split; reflexivity].
Qed.
Lemma dv_se_set_header h c : dv_se c (rs_set_header h c). Proof. split; reflexivity. Qed.
Lemma dv_se_flag_folding c : dv_se c (rs_flag_invalid_folding c). Proof. apply dv_ss_se, dv_ss_otx. Qed.
Lemma dv_se_clear_r a x : dv_se a x -> dv_se a (rs_clear_buffer x).
Proof. intros [A B]. split; [exact A|exact B]. Qed.
Lemma dv_fs_headers_line data c : dv_fs c (snd (rs_headers_line cb g data c)) /\
  match fst (rs_headers_line cb g data c) with Some r => dv_fs c (snd r) | None => True end.
Proof.
  unfold rs_headers_line. cbv zeta.
  set (c1 := if rs_has_byte c then match rs_cur_byte c (k_read (c_out c)) with Some _ => c | None => rs_fault c end else c).
  assert (H1 : dv_se c c1) by (unfold c1; destruct (rs_has_byte c); [destruct (rs_cur_byte c _)|]; split; reflexivity).
  destruct (rs_is_line_terminator _ _ _).
  - assert (H2 : dv_se c (rs_clear_buffer (rs_flush_header c1))).
    { eapply dv_se_trans; [exact H1|]. apply dv_se_clear_r, dv_se_flush_header. }
    destruct (_ =? _)%Z; cbn [fst snd]; (split; [apply dv_se_fs; exact H2|]).
    + apply dv_se_fs. exact H2.
    + eapply dv_fs_se_l; [exact H2|apply dv_fs_trailer_end].
  - cbn [fst snd]. split; [|exact I]. apply dv_se_fs. eapply dv_se_trans; [exact H1|]. apply dv_se_clear_r.
    destruct (_ =? 0)%Z.
    + pose proof (dv_se_trans _ _ _ (dv_se_flush_header c1) (dv_ss_se _ _ (dv_ss_peek (rs_flush_header c1)))) as H2.
      destruct (rs_nb _) as [b|]; [destruct (negb _)|]; (eapply dv_se_trans; [exact H2|]); [apply dv_ss_se, dv_ss_process_header|apply dv_se_set_header|apply dv_se_set_header].
    + destruct (k_header (c_out c1)) as [h|].
      * destruct (_ && _).
        -- eapply dv_se_trans; [apply dv_se_flag_folding|]. eapply dv_se_trans; [apply dv_ss_se, dv_ss_process_header|apply dv_se_set_header].
        -- destruct (_ <? _)%Z; [apply dv_se_set_header|apply dv_se_refl].
      * eapply dv_se_trans; [apply dv_se_flag_folding|apply dv_se_set_header].
Qed.

Lemma dv_fs_headers_loop : forall f lf c, dv_fs c (snd (rs_headers_loop cb g f lf c)).
Proof.
  induction f as [|f IH]; intros lf c; cbn [rs_headers_loop]; [apply dv_ss_fs, dv_ss_fault|].
  destruct (rs_closed c); [apply dv_fs_trailer_end|].
  destruct (rs_copy_byte c) as [c1|] eqn:Ec; [|apply dv_fs_refl]. pose proof (dv_ss_se _ _ (dv_ss_copy _ _ Ec)) as H1.
  eapply dv_fs_se_l; [exact H1|]. clear H1 Ec c. rename c1 into c.
  destruct (negb (rs_nb_is c LF) && negb (rs_nb_is c CR)); [apply IH|].
  (* after the line-end scan *)
  assert (After : forall (scan : nat) c2, dv_se c c2 ->
            dv_fs c (snd (match scan with
                          | 0%nat => (ST_DATA_BUFFER, c2)
                          | 1%nat => rs_headers_loop cb g f lf c2
                          | _ => let endwithcr := (scan =? 2)%nat in
                                 let lfcr' := (scan =? 4)%nat in
                                 match rs_consolidate g c2 with
                                 | (None, c) => (ST_ERROR, c)
                                 | (Some data, c) =>
                                   let d := rs_dbytes data in
                                   if endwithcr && (length d <? 2)%nat then rs_headers_loop cb g f lfcr' c
                                   else match rs_headers_line cb g d c with
                                        | (Some r, _) => r
                                        | (None, c) => rs_headers_loop cb g f lfcr' c
                                        end
                                 end
                          end))).
  { intros scan c2 H2. destruct scan as [|[|scan]]; [apply dv_se_fs; exact H2|eapply dv_fs_se_l; [exact H2|apply IH]|].
    cbv zeta. pose proof (dv_ss_se _ _ (dv_ss_consolidate c2)) as H3. destruct (rs_consolidate g c2) as [[data|] c3]; cbn [snd] in H3.
    2:{ apply dv_se_fs. eapply dv_se_trans; eassumption. }
    pose proof (dv_se_trans _ _ _ H2 H3) as H4. eapply dv_fs_se_l; [exact H4|].
    destruct (_ && _); [apply IH|]. destruct (dv_fs_headers_line (rs_dbytes data) c3) as [A B].
    destruct (rs_headers_line cb g (rs_dbytes data) c3) as [[r|] c4]; cbn [fst snd] in *; [exact B|]. eapply dv_fs_trans; [exact A|apply IH]. }
  assert (CF : forall a y, dv_se a y -> dv_se a (match rs_copy_byte y with Some c' => c' | None => rs_fault y end)).
  { intros a y Hy. eapply dv_se_trans; [exact Hy|apply dv_ss_se, dv_ss_copy_or_fault]. }
  assert (PK : forall a y, dv_se a y -> dv_se a (rs_peek_next y)) by (intros a y Hy; eapply dv_se_trans; [exact Hy|apply dv_ss_se, dv_ss_peek]).
  assert (SO : forall a y, dv_se a y -> dv_se a (rs_set_out (fun k => k <| k_consume ::= S |>) y)) by (intros a y [A B]; split; [exact A|exact B]).
  destruct (rs_nb_is c CR).
  - destruct (rs_nb (rs_peek_next c)) as [b|]; [|apply (After 0%nat); apply PK, dv_se_refl].
    destruct (b =? LF)%N; [|destruct (b =? CR)%N; [apply (After 1%nat)|apply (After 2%nat)]; apply PK, dv_se_refl].
    apply (After 2%nat). clear After IH.
    set (x1 := match rs_copy_byte (rs_peek_next c) with Some c0 => c0 | None => rs_fault (rs_peek_next c) end).
    assert (X1 : dv_se c x1) by (unfold x1; apply CF, PK, dv_se_refl).
    destruct lf; [|exact X1]. clearbody x1.
    destruct (rs_nb_is (rs_peek_next x1) CR); [|apply PK; exact X1].
    set (x2 := rs_set_out (fun k => k <| k_consume ::= S |>) (match rs_copy_byte (rs_peek_next x1) with Some c0 => c0 | None => rs_fault (rs_peek_next x1) end)).
    assert (X2 : dv_se c x2) by (unfold x2; apply SO, CF, PK; exact X1).
    clearbody x2. destruct (rs_nb_is (rs_peek_next x2) LF); [|apply PK; exact X2]. apply SO, CF, PK. exact X2.
  - destruct (rs_nb_is (rs_peek_next c) CR); [|apply (After 3%nat); apply PK, dv_se_refl].
    apply (After 4%nat). apply CF, PK, dv_se_refl.
Qed.
Lemma dv_fs_response_headers_tx i c : dv_fs c (snd (tx_state_response_headers cb i c)).
Proof.
  unfold tx_state_response_headers. cbv zeta.
  set (c1 := tx_upd c i _). assert (H1 : dv_ss c c1) by apply dv_ss_tx_upd.
  pose proof (dv_fs_finalize c1) as H2. destruct (res_receiver_finalize_clear cb c1) as [rc c2]. cbn [snd] in H2.
  eapply dv_fs_ss_l; [exact H1|]. destruct rc; cbn [snd]; try exact H2.
  rewrite (wr_run_hook cb Hcb). cbn [snd]. apply dv_fs_hook_r; [reflexivity|exact H2].
Qed.
Lemma dv_fs_response_headers c : dv_fs c (snd (rs_response_headers cb c)).
Proof. unfold rs_response_headers. destruct (c_out_tx c); [apply dv_fs_response_headers_tx|apply dv_fs_refl]. Qed.
Lemma dv_se_unblock z c : dv_se c (rs_unblock_request z c).
Proof. unfold rs_unblock_request. destruct (negb _); split; reflexivity. Qed.
Lemma dv_se_state_otx s f c : dv_se c (rs_set_state s (rs_otx f c)).
Proof. eapply dv_se_trans; [apply dv_ss_se, dv_ss_otx|split; reflexivity]. Qed.
Lemma dv_fs_body_determine c : dv_fs c (snd (rs_RES_BODY_DETERMINE cb c)).
Proof.
  unfold rs_RES_BODY_DETERMINE. cbv zeta.
  assert (RH : forall x, dv_se c x -> dv_fs c (snd (rs_response_headers cb x))) by (intros x Hx; eapply dv_fs_se_l; [exact Hx|apply dv_fs_response_headers]).
  destruct (_ && _ && _); [apply RH; split; reflexivity|].
  match goal with |- context [if ?b then rs_unblock_request c_HTP_STREAM_DATA c <| c_out_data_other_at_tx_end := true |> else c] =>
    set (c1 := if b then rs_unblock_request c_HTP_STREAM_DATA c <| c_out_data_other_at_tx_end := true |> else c);
    assert (H1 : dv_se c c1) by (unfold c1; destruct b; [eapply dv_se_trans; [apply dv_se_unblock|split; reflexivity]|apply dv_se_refl]) end.
  clearbody c1.
  destruct (_ && _ && _).
  { apply RH. eapply dv_se_trans; [exact H1|]. eapply dv_se_trans; [|split; reflexivity].
    eapply dv_se_trans; [|apply dv_se_unblock]. split; reflexivity. }
  destruct (_ && _ && _).
  { cbn [snd]. apply dv_se_fs. eapply dv_se_trans; [exact H1|apply dv_se_state_otx]. }
  set (c2 := if (_ && _ && (0 <? c_in_content_length c1)%Z && _) then _ else c1).
  assert (H2 : dv_se c c2).
  { unfold c2. destruct (_ && _ && (0 <? c_in_content_length c1)%Z && _); [|exact H1].
    destruct (rs_hdr_get_c _ rs_str_expect); [destruct (_ =? 0)%Z|]; (eapply dv_se_trans; [exact H1|split; reflexivity]). }
  clearbody c2.
  match goal with |- context [if (t_request_method_number (rs_tx c) =? c_HTP_M_HEAD)%Z then ?X else ?Y] =>
    set (c3 := if (t_request_method_number (rs_tx c) =? c_HTP_M_HEAD)%Z then X else Y);
    assert (H3 : dv_se c c3) end.
  { unfold c3. destruct (_ =? c_HTP_M_HEAD)%Z; [eapply dv_se_trans; [exact H2|apply dv_se_state_otx]|].
    destruct (_ || _ || _); [|exact H2]. destruct (_ && _); [eapply dv_se_trans; [exact H2|apply dv_se_state_otx]|exact H2]. }
  clearbody c3.
  match goal with |- dv_fs c (snd (let '(rc, c0) := ?R in _)) => assert (H4 : dv_se c (snd R)) end.
  { destruct (negb _); [|exact H3]. cbv zeta.
    set (c4 := match rs_hdr_get_c (t_response_headers (rs_tx c)) rs_str_content_type with
               | Some h => rs_otx (fun t => t <| t_response_content_type := Some (rs_content_type (h_value h)) |>) c3 | None => c3 end).
    assert (H5 : dv_se c c4) by (unfold c4; destruct (rs_hdr_get_c _ rs_str_content_type); [eapply dv_se_trans; [exact H3|apply dv_ss_se, dv_ss_otx]|exact H3]).
    clearbody c4.
    destruct (match rs_hdr_get_c _ rs_str_transfer_encoding with Some h => _ | None => false end).
    - cbn [snd]. eapply dv_se_trans; [exact H5|apply dv_se_state_otx].
    - destruct (rs_hdr_get_c _ rs_str_content_length) as [h|].
      + assert (H6 : forall f0, dv_se c (rs_otx f0 c4)) by (intros f0; eapply dv_se_trans; [exact H5|apply dv_ss_se, dv_ss_otx]).
        destruct (_ <? 0)%Z; [cbn [snd]; apply H6|]. destruct (negb _); cbn [snd].
        * eapply dv_se_trans; [apply H6|]. eapply dv_se_trans; [|apply dv_se_state_otx]. split; reflexivity.
        * eapply dv_se_trans; [apply H6|split; reflexivity].
      + destruct (match rs_hdr_get_c _ rs_str_content_type with Some h => _ | None => false end); cbn [snd]; [exact H5|].
        eapply dv_se_trans; [exact H5|]. eapply dv_se_trans; [|split; reflexivity]. eapply dv_se_trans; [|apply dv_ss_se, dv_ss_otx]. split; reflexivity. }
  match goal with |- dv_fs c (snd (let '(rc, c0) := ?R in _)) => destruct R as [rc c5] end. cbn [snd] in H4.
  destruct rc; try (apply dv_se_fs; exact H4). apply RH. exact H4.
Qed.
Lemma dv_fs_chunked_length_loop : forall f c, dv_fs c (snd (rs_chunked_length_loop g f c)).
Proof.
  induction f as [|f IH]; intros c; cbn [rs_chunked_length_loop]; [apply dv_ss_fs, dv_ss_fault|].
  destruct (rs_copy_byte c) as [c1|] eqn:Ec; [|apply dv_fs_refl]. pose proof (dv_ss_se _ _ (dv_ss_copy _ _ Ec)) as H1.
  eapply dv_fs_se_l; [exact H1|]. cbv zeta. destruct (_ || _); [|apply IH].
  pose proof (dv_ss_se _ _ (dv_ss_consolidate c1)) as H2. destruct (rs_consolidate g c1) as [[data|] c2]; cbn [snd] in H2; [|apply dv_se_fs; exact H2].
  eapply dv_fs_se_l; [exact H2|].
  match goal with |- context [rs_otx ?f0 c2 <| c_out_chunked_length := ?cl |>] => set (c3 := rs_otx f0 c2 <| c_out_chunked_length := cl |>);
    assert (H3 : dv_se c2 c3) by (unfold c3; eapply dv_se_trans; [apply dv_ss_se, dv_ss_otx|split; reflexivity]) end.
  destruct (_ =? -1004)%Z; [apply (dv_fs_se_l _ (rs_clear_buffer c3)); [apply dv_se_clear_r; exact H3|apply IH]|].
  apply dv_se_fs. destruct (_ <? 0)%Z; cbn [snd].
  - eapply dv_se_trans; [exact H3|]. eapply dv_se_trans; [|apply dv_ss_se, dv_ss_otx]. split; reflexivity.
  - destruct (0 <? _)%Z; cbn [snd]; [eapply dv_se_trans; [exact H3|split; reflexivity]|].
    eapply dv_se_trans; [exact H3|]. eapply dv_se_trans; [|apply dv_ss_se, dv_ss_otx]. split; reflexivity.
Qed.
Lemma dv_fs_chunked_data_end_loop : forall f c, dv_fs c (snd (rs_chunked_data_end_loop f c)).
Proof.
  induction f as [|f IH]; intros c; cbn [rs_chunked_data_end_loop]; [apply dv_ss_fs, dv_ss_fault|].
  destruct (rs_next_byte c) as [c1|] eqn:Ec; [|apply dv_fs_refl]. pose proof (dv_ss_se _ _ (dv_ss_next _ _ Ec)) as H1. cbv zeta.
  pose proof (dv_se_trans _ _ _ H1 (dv_ss_se _ _ (dv_ss_otx (fun t => t <| t_response_message_len ::= Z.succ |>) c1))) as H2.
  destruct (rs_nb_is _ LF); [apply dv_se_fs; eapply dv_se_trans; [exact H2|split; reflexivity]|]. eapply dv_fs_se_l; [exact H2|apply IH].
Qed.

(* the states whose pass never reaches the body-data dispatch nor the completion *)
Definition dv_squiet (s : res_state) : bool :=
  match s with RES_HEADERS | RES_BODY_DETERMINE | RES_BODY_CHUNKED_LENGTH | RES_BODY_CHUNKED_DATA_END => true | _ => false end.
Lemma dv_fs_state_fn s c : dv_squiet s = true -> dv_fs c (snd (rs_state_fn cb g s c)).
Proof.
  destruct s; try discriminate; intros _; cbn [rs_state_fn].
  - apply dv_fs_headers_loop.
  - apply dv_fs_body_determine.
  - apply dv_fs_chunked_length_loop.
  - apply dv_fs_chunked_data_end_loop.
Qed.
(* what one pass does around the state function, relative to the state the state function returned *)
Lemma dv_siter_after c r c1 : rs_state_fn cb g (c_out_state c) c = (r, c1) ->
  match sr_iter cb g c with inl (c', _) => dv_fs c1 c' | inr c' => dv_fs c1 c' end.
Proof.
  intros E. unfold sr_iter. rewrite E.
  assert (X : forall rc x, dv_fs c1 x -> match @inl (connp * Z) connp (rs_res_exit cb g rc x) with inl (c', _) => dv_fs c1 c' | inr c' => dv_fs c1 c' end).
  { intros rc x Hx. pose proof (dv_fs_trans _ _ _ Hx (dv_fs_exit rc x)) as Hy. destruct (rs_res_exit cb g rc x) as [c' z]. exact Hy. }
  destruct r; try (apply X; apply dv_fs_refl).
  destruct (_ =? _)%Z; [apply dv_fs_refl|].
  pose proof (dv_fs_state_change c1) as H2. destruct (rs_handle_state_change cb c1) as [rc2 c2]. cbn [snd] in H2.
  destruct rc2; try (apply X; exact H2). exact H2.
Qed.
Lemma dv_siter_after_inr c r c1 c' : rs_state_fn cb g (c_out_state c) c = (r, c1) -> sr_iter cb g c = inr c' -> dv_sok c1 -> dv_sb c' = dv_sb c1 /\ dv_sok c'.
Proof. intros E Ei. pose proof (dv_siter_after c r c1 E) as H. rewrite Ei in H. exact H. Qed.
Lemma dv_siter_after_inl c r c1 c' rc : rs_state_fn cb g (c_out_state c) c = (r, c1) -> sr_iter cb g c = inl (c', rc) -> dv_sok c1 -> dv_sb c' = dv_sb c1 /\ dv_sok c'.
Proof. intros E Ei. pose proof (dv_siter_after c r c1 E) as H. rewrite Ei in H. exact H. Qed.
Lemma dv_siter_quiet c : dv_squiet (c_out_state c) = true ->
  match sr_iter cb g c with inl (c', _) => dv_fs c c' | inr c' => dv_fs c c' end.
Proof.
  intros Hq. pose proof (dv_fs_state_fn (c_out_state c) c Hq) as H. destruct (rs_state_fn cb g (c_out_state c) c) as [r c1] eqn:E. cbn [snd] in H.
  pose proof (dv_siter_after c r c1 E) as H2. destruct (sr_iter cb g c) as [[c' z]|c']; eapply dv_fs_trans; eassumption.
Qed.
Lemma dv_siter_quiet_inr c c' : dv_squiet (c_out_state c) = true -> sr_iter cb g c = inr c' -> dv_sok c -> dv_sb c' = dv_sb c /\ dv_sok c'.
Proof. intros Hq E. pose proof (dv_siter_quiet c Hq) as H. rewrite E in H. exact H. Qed.
Lemma dv_siter_quiet_inl c c' rc : dv_squiet (c_out_state c) = true -> sr_iter cb g c = inl (c', rc) -> dv_sok c -> dv_sb c' = dv_sb c /\ dv_sok c'.
Proof. intros Hq E. pose proof (dv_siter_quiet c Hq) as H. rewrite E in H. exact H. Qed.
(* RES_IDLE and RES_LINE: conditional *)
Lemma dv_siter_idle_inr c c' t : c_out_state c = RES_IDLE -> nth_error (c_txs c) (c_out_next_tx_index c) = Some (Some t) ->
  sr_iter cb g c = inr c' -> dv_sok c -> dv_sb c' = dv_sb c /\ dv_sok c'.
Proof.
  intros Es Hf E Hr. pose proof (dv_fs_idle c t Hf) as H.
  assert (Ef : rs_state_fn cb g (c_out_state c) c = rs_RES_IDLE cb g c) by (rewrite Es; reflexivity).
  destruct (rs_RES_IDLE cb g c) as [r c1]. cbn [snd] in H.
  destruct (H Hr) as [A1 R1]. destruct (dv_siter_after_inr c r c1 c' Ef E R1) as [A2 R2]. split; [rewrite A2; exact A1|exact R2].
Qed.
Lemma dv_siter_line_inr c c' : c_out_state c = RES_LINE -> c_out_state c' = RES_HEADERS ->
  sr_iter cb g c = inr c' -> dv_sok c -> dv_sb c' = dv_sb c /\ dv_sok c'.
Proof.
  intros Es Es' E Hr. destruct (rs_state_fn cb g (c_out_state c) c) as [r c1] eqn:Ef.
  assert (S1 : c_out_state c1 = RES_HEADERS).
  { revert E. unfold sr_iter. rewrite Ef. destruct r; try discriminate. destruct (_ =? _)%Z; [discriminate|].
    unfold rs_handle_state_change. cbv zeta. destruct (match c_out_state_previous c1 with Some p => _ | None => false end); [intros X; inversion X; subst; exact Es'|].
    match goal with |- context [if res_state_eqb (c_out_state c1) RES_HEADERS then ?A else ?B] => set (r0 := if res_state_eqb (c_out_state c1) RES_HEADERS then A else B) end.
    assert (Sr : c_out_state (snd r0) = c_out_state c1).
    { unfold r0. destruct (res_state_eqb (c_out_state c1) RES_HEADERS); [|reflexivity].
      assert (RS : forall h x, c_out_state (snd (res_receiver_set cb h x)) = c_out_state x).
      { intros h x. unfold res_receiver_set, res_receiver_finalize_clear. destruct (k_receiver_hook (c_out x)); [|reflexivity].
        unfold res_receiver_send_data. destruct (k_receiver_hook (c_out x)); [|reflexivity]. cbv zeta. unfold run_data_hook. rewrite (wr_run_hook_ex cb Hcb). cbn.
        repeat match goal with |- context [if ?b then _ else _] => destruct b end; repeat match goal with |- context [match ?y with _ => _ end] => destruct y end; reflexivity. }
      destruct (_ =? _)%Z; [rewrite RS; destruct (c_out_tx c1); reflexivity|]. destruct (_ =? _)%Z; [rewrite RS; destruct (c_out_tx c1); reflexivity|]. destruct (c_out_tx c1); reflexivity. }
    clearbody r0. destruct r0 as [rc0 c0]. cbn [snd] in Sr. destruct rc0; try discriminate. intros X. inversion X. subst c'. cbn in Es'. rewrite Sr in Es'. exact Es'. }
  assert (Ef2 : rs_line_loop cb g (rs_bytes_fuel c) c = (r, c1)) by (rewrite <- Ef, Es; reflexivity).
  destruct (dv_fs_line_loop (rs_bytes_fuel c) c Es) as [_ I2]. rewrite Ef2 in I2. cbn [snd] in I2. specialize (I2 S1).
  destruct (I2 Hr) as [A1 R1]. destruct (dv_siter_after_inr c r c1 c' Ef E R1) as [A2 R2]. split; [rewrite A2; exact A1|exact R2].
Qed.
Lemma dv_line_loop_buffer f c c' : c_out_state c = RES_LINE -> rs_line_loop cb g f c = (ST_DATA_BUFFER, c') -> dv_sok c -> dv_sb c' = dv_sb c /\ dv_sok c'.
Proof. intros Es E. destruct (dv_fs_line_loop f c Es) as [I1 _]. rewrite E in I1. apply I1. reflexivity. Qed.
End FrameRes.

(* ---- the frame lemmas on the invariants of PSegRes.v ---- *)
Section FrameInvRes.
Variable cb : cb_oracle.
Variable g : cfg.
Hypothesis Hcb : wr_all_ok cb.
Lemma dv_scin_sok c d rd p hdr st prev rh t : sr_cin c d rd p hdr st prev rh t -> (forall h, rh = Some h -> dv_rs_hook h = false) -> dv_sok c.
Proof. intros H Hn. unfold dv_sok. rewrite (ri_rh _ _ _ _ _ _ _ _ _ H). exact Hn. Qed.
Lemma dv_scin_inr c d rd p hdr st prev rh t c' : sr_cin c d rd p hdr st prev rh t -> dv_squiet st = true -> (forall h, rh = Some h -> dv_rs_hook h = false) ->
  sr_iter cb g c = inr c' -> dv_sb c' = dv_sb c.
Proof.
  intros H Hq Hn E. apply (dv_siter_quiet_inr cb g Hcb c c'); [rewrite (ri_state _ _ _ _ _ _ _ _ _ H); exact Hq|exact E|eapply dv_scin_sok; eassumption].
Qed.
Lemma dv_scin_inl c d rd p hdr st prev rh t c' rc : sr_cin c d rd p hdr st prev rh t -> dv_squiet st = true -> (forall h, rh = Some h -> dv_rs_hook h = false) ->
  sr_iter cb g c = inl (c', rc) -> dv_sb c' = dv_sb c.
Proof.
  intros H Hq Hn E. apply (dv_siter_quiet_inl cb g Hcb c c' rc); [rewrite (ri_state _ _ _ _ _ _ _ _ _ H); exact Hq|exact E|eapply dv_scin_sok; eassumption].
Qed.
Lemma dv_sneq12 : forall h, Some H_RESPONSE_HEADER_DATA = Some h -> dv_rs_hook h = false. Proof. intros h E. inversion E. reflexivity. Qed.
Lemma dv_sneq15 : forall h, Some H_RESPONSE_TRAILER_DATA = Some h -> dv_rs_hook h = false. Proof. intros h E. inversion E. reflexivity. Qed.
Lemma dv_sneqN : forall h, @None nat = Some h -> dv_rs_hook h = false. Proof. intros h E. discriminate E. Qed.

(* entering htp_connp_res_data: the prologue does not touch the event list *)
Lemma dv_senter c p hdr st rh t (x : bytes) : sr_mid c p hdr st rh t -> x <> [] ->
  exists c1, connp_res_data cb g (Some x) (length x) c = rs_res_loop cb g (rs_res_fuel (length x)) false c1 /\
             sr_cin c1 x 0 p hdr st (Some st) rh t /\ c_events c1 = c_events c /\
             c_out_body_data_left c1 = c_out_body_data_left c /\ c_out_chunked_length c1 = c_out_chunked_length c.
Proof.
  intros [A1 A2 A3 A4 A5 A6 A7 A8 A9 A10 A11] Hne. unfold connp_res_data.
  rewrite (sg_live_stop _ A1), (sg_live_error _ A1), A7.
  assert (L0 : (length x =? 0)%nat = false) by (destruct x; [contradiction|reflexivity]). rewrite L0. cbn [andb].
  match goal with |- context [(c_out_status ?y =? c_HTP_STREAM_TUNNEL)%Z] => change (c_out_status y) with (c_out_status c) end.
  rewrite (sg_live_tunnel _ A1).
  eexists. split; [reflexivity|]. split; [|repeat split].
  constructor; try assumption; try reflexivity; cbn; try lia.
  rewrite app_nil_r; exact A4.
Qed.
End FrameInvRes.

(* ================= the driver of PSegResGen with the events ================= *)
Section GenRE.
Variable cb : cb_oracle.
Variable g : cfg.
Hypothesis Hcb : wr_all_ok cb.
Variables ps s r : bytes.
Hypothesis Wl : sr_status_ok ps s r = true.
Hypothesis Hlim0 : (length (wr_ser_status_line ps s r) + 2 <= g_field_limit_hard g)%nat.
Variable t0 : tx.
Hypothesis H09 : t_is_protocol_0_9 t0 = false.
Variable bwt : bytes.
Variable hlog : option bytes -> tx -> bytes -> bytes -> Prop.
Variable fin : list event -> list (option tx) -> Prop.      (* followed events of the response calls, transaction list at the end *)
Variable ext : list event -> connp -> bytes -> Prop.        (* followed events so far, state between two calls inside a body *)
Variable okc : bytes -> bytes -> Prop.

Let line0 := wr_ser_status_line ps s r.
Let th0 := sr_th0 t0 line0.

Definition dv_sbetween (L : list event) (c : connp) (rw : bytes) : Prop :=
  (L = [] /\ exists p q, sr_mid c p None RES_LINE None (sr_tx_start t0) /\ p ++ q = line0 ++ [CR; LF] /\ q <> [] /\ rw = q ++ bwt) \/
  (L = [] /\ exists p hdr t, sr_mid c p hdr RES_HEADERS (Some H_RESPONSE_HEADER_DATA) t /\ hlog hdr t p rw) \/
  ext L c rw.
Definition dv_spost (L : list event) (cF : connp) (rw' : bytes) : Prop :=
  (rw' <> [] /\ dv_sbetween L cF rw') \/ (rw' = [] /\ fin L (c_txs cF)).

Hypothesis Hext_finish : forall L c rw, ext L c rw -> ext L (forget_chunks c <| c_events := [] |>) rw.
Hypothesis Hext_step : forall L c (rw x rw' : bytes), ext L c rw -> c_events c = [] -> x <> [] -> rw = x ++ rw' -> okc x rw' ->
  exists c' rc, connp_res_data cb g (Some x) (length x) c = (c', rc) /\ dv_spost (L ++ rev (dv_sb c')) c' rw'.
Hypothesis Hcall : forall c d p hdr t rw' f, okc d rw' ->
  sr_cin c d 0 p hdr RES_HEADERS (Some RES_HEADERS) (Some H_RESPONSE_HEADER_DATA) t -> hlog hdr t p (d ++ rw') -> dv_sb c = [] ->
  exists cF rc, rs_res_loop cb g (7 + f) false c = (cF, rc) /\ dv_spost (rev (dv_sb cF)) cF rw'.
Hypothesis Hcall_start : forall c d rd rw' f, okc d rw' ->
  sr_cin c d rd [] None RES_HEADERS (Some RES_HEADERS) (Some H_RESPONSE_HEADER_DATA) th0 -> skipn rd d ++ rw' = bwt -> (0 < rd)%nat -> dv_sb c = [] ->
  exists cF rc, rs_res_loop cb g (7 + f) false c = (cF, rc) /\ dv_spost (rev (dv_sb cF)) cF rw'.

(* ---- a call that starts (or continues) in RES_LINE ---- *)
Lemma dv_scall_line c d p q rw' f : okc d rw' ->
  sr_cin c d 0 p None RES_LINE (Some RES_LINE) None (sr_tx_start t0) ->
  p ++ q = line0 ++ [CR; LF] -> q <> [] -> d ++ rw' = q ++ bwt -> d <> [] -> dv_sb c = [] ->
  exists cF rc, rs_res_loop cb g (8 + f) false c = (cF, rc) /\ dv_spost (rev (dv_sb cF)) cF rw'.
Proof.
  intros Hok H Hpq Hq Hw Hd Hev.
  destruct (sr_status_line_shape ps s r Wl) as (Pl & _). fold line0 in Pl.
  destruct (sg_app_cases d rw' q _ Hw) as [Clt Cge].
  assert (Es : c_out_state c = RES_LINE) by apply (ri_state _ _ _ _ _ _ _ _ _ H).
  assert (Rk : dv_sok c) by (eapply dv_scin_sok; [exact H|apply dv_sneqN]).
  destruct (Nat.lt_ge_cases (length d) (length q)) as [Llt|Lge].
  - (* the chunk ends inside the status line *)
    destruct (Clt Llt) as (q2 & Eq & Hq2 & Erw).
    assert (Hpq' : p ++ d ++ q2 = line0 ++ [CR; LF]) by (rewrite <- Eq; exact Hpq).
    destruct (sr_prefix_shape line0 p d q2 Pl Hpq' Hq2) as (u0 & r0 & Eu & Ps & Hr0).
    destruct (sr_line_partial cb g ps s r Hlim0 c d 0 p None _ None _ u0 r0 (S (S (length d))) H Eu Ps Hr0 ltac:(lia)) as (c' & E & H'). cbn [skipn] in H'.
    assert (Lim : (length (p ++ d) + length (sg_olist None) <= g_field_limit_hard g)%nat).
    { assert (L : length (p ++ d ++ q2) = (length line0 + 2)%nat) by (rewrite Hpq', app_length; reflexivity). rewrite !app_length in L. rewrite app_length.
      cbn [sg_olist length]. unfold line0 in L. lia. }
    destruct (sr_exit_buffer cb g Hcb c' d _ None _ _ _ H' Lim) as (cF & EF & HF).
    destruct (dv_line_loop_buffer cb g Hcb _ c c' Es E Rk) as [V1 R1].
    assert (VF : dv_sb cF = dv_sb c').
    { pose proof (dv_fs_exit cb g Hcb ST_DATA_BUFFER c') as X. rewrite EF in X. cbn [fst] in X. apply (X R1). }
    exists cF, c_HTP_STREAM_DATA. split.
    + change (8 + f)%nat with (S (7 + f)). apply sr_loop_inl. unfold sr_iter. rewrite Es. cbn [rs_state_fn]. unfold rs_RES_LINE, rs_bytes_fuel.
      rewrite (ri_len _ _ _ _ _ _ _ _ _ H), (ri_read _ _ _ _ _ _ _ _ _ H), Nat.sub_0_r, E, EF. reflexivity.
    + rewrite VF, V1, Hev. cbn [rev]. left. split; [rewrite Erw; destruct q2; [contradiction|discriminate]|]. left. split; [reflexivity|]. exists (p ++ d), q2.
      split; [exact HF|]. split; [rewrite <- app_assoc; exact Hpq'|]. split; [exact Hq2|exact Erw].
  - (* the status line is complete in this chunk *)
    destruct (Cge Lge) as (d2 & Ed & Eaft).
    destruct (sr_pass_line cb g Hcb c d p q d2 _ ps s r Wl H Ed Hq Hpq Hlim0) as (c2 & E2 & H2 & Hr2).
    destruct (dv_siter_line_inr cb g Hcb c c2 Es (ri_state _ _ _ _ _ _ _ _ _ H2) E2 Rk) as [V2 _]. rewrite Hev in V2.
    change (8 + f)%nat with (S (7 + f)). rewrite (sr_loop_inr cb g _ _ _ E2).
    apply (Hcall_start c2 d _ rw' f Hok H2); [rewrite Hr2; symmetry; exact Eaft|destruct q; [contradiction|cbn [length]; lia]|exact V2].
Qed.

(* ---- one call of htp_connp_res_data ---- *)
Lemma dv_sstep L c (rw x rw' : bytes) : dv_sbetween L c rw -> c_events c = [] -> x <> [] -> rw = x ++ rw' -> okc x rw' ->
  exists c' rc, connp_res_data cb g (Some x) (length x) c = (c', rc) /\ dv_spost (L ++ rev (dv_sb c')) c' rw'.
Proof.
  intros [(EL & p & q & Hm & Hpq & Hq & Erw)|[(EL & p & hdr & t & Hm & Hl)|He]] Hev Hne Ex Hok.
  - destruct (dv_senter cb g c p None _ _ _ x Hm Hne) as (c1 & E1 & H1 & V1 & _). unfold bytes in *. rewrite E1.
    destruct (sr_fuel_9 x) as (f & Ef). rewrite Ef. change (9 + f)%nat with (8 + (1 + f))%nat. rewrite EL. cbn [app].
    apply (dv_scall_line c1 x p q rw' _ Hok H1 Hpq Hq); [rewrite <- Ex; exact Erw|exact Hne|unfold dv_sb; rewrite V1, Hev; reflexivity].
  - destruct (dv_senter cb g c p hdr _ _ t x Hm Hne) as (c1 & E1 & H1 & V1 & _). unfold bytes in *. rewrite E1.
    destruct (sr_fuel_9 x) as (f & Ef). rewrite Ef. change (9 + f)%nat with (7 + (2 + f))%nat. rewrite EL. cbn [app].
    apply (Hcall c1 x p hdr t rw' _ Hok H1); [rewrite <- Ex; exact Hl|unfold dv_sb; rewrite V1, Hev; reflexivity].
  - apply (Hext_step L c rw x rw' He Hev Hne Ex Hok).
Qed.

Lemma dv_sfirst c0 (x rw' : bytes) : sr_ready t0 c0 -> c_events c0 = [] -> x <> [] -> x ++ rw' = line0 ++ [CR; LF] ++ bwt -> okc x rw' ->
  exists c' rc, connp_res_data cb g (Some x) (length x) c0 = (c', rc) /\ dv_spost (rev (dv_sb c')) c' rw'.
Proof.
  intros [A1 A2 A3 A4 A5 A6 A7 A8 A9 A10 A11 A12] Hev Hne Ex Hok.
  assert (Hlen0 : (length x =? 0)%nat = false) by (destruct x; [contradiction|reflexivity]).
  unfold connp_res_data. rewrite (sg_live_stop _ A1), (sg_live_error _ A1), A7, A2. cbn [res_state_eqb negb]. rewrite Hlen0. cbn [andb].
  match goal with |- context [rs_res_loop cb g _ _ ?y] => set (c1 := y) end.
  match goal with |- context [(c_out_status ?y =? c_HTP_STREAM_TUNNEL)%Z] => change (c_out_status y) with (c_out_status c0) end.
  rewrite (sg_live_tunnel _ A1).
  assert (Idle1 : sr_idle c1 x t0 /\ c_events c1 = []) by (unfold c1; split; [constructor; try assumption; reflexivity|exact Hev]).
  clearbody c1. destruct Idle1 as [Idle1 V1].
  destruct (sr_pass_idle cb g Hcb c1 x t0 Idle1 Hne H09) as (c2 & E2 & H2).
  assert (Rk1 : dv_sok c1) by (unfold dv_sok; rewrite (rd_rh _ _ _ Idle1); intros h E'; discriminate E').
  assert (Hf : nth_error (c_txs c1) (c_out_next_tx_index c1) = Some (Some t0)) by (rewrite (rd_txs _ _ _ Idle1), (rd_next _ _ _ Idle1); reflexivity).
  destruct (dv_siter_idle_inr cb g Hcb c1 c2 t0 (rd_state _ _ _ Idle1) Hf E2 Rk1) as [V2 _].
  unfold dv_sb at 2 in V2. rewrite V1 in V2. cbn [dv_selp filter] in V2.
  destruct (sr_fuel_9 x) as (f & Ef). rewrite Ef. change (9 + f)%nat with (S (8 + f)).
  rewrite (sr_loop_inr cb g _ _ _ E2).
  apply (dv_scall_line c2 x [] (line0 ++ [CR; LF]) rw' _ Hok H2 eq_refl).
  - intro E. apply app_eq_nil in E. destruct E as [_ E]. discriminate.
  - rewrite Ex, <- !app_assoc. reflexivity.
  - exact Hne.
  - exact V2.
Qed.

Lemma dv_sbetween_finish L c rw : dv_sbetween L c rw -> dv_sbetween L (forget_chunks c <| c_events := [] |>) rw.
Proof.
  intros [(EL & p & q & Hm & R)|[(EL & p & hdr & t & Hm & R)|He]].
  - left. split; [exact EL|]. exists p, q. split; [apply sr_mid_finish; exact Hm|exact R].
  - right. left. split; [exact EL|]. exists p, hdr, t. split; [apply sr_mid_finish; exact Hm|exact R].
  - right. right. apply Hext_finish. exact He.
Qed.

Definition dv_slog (c : connp) (ops : list cp_op) : list event :=
  dv_selp dv_rs_hook (concat (map r_events (snd (cp_run cb g c ops)))).
Lemma dv_slog_cons c (x : bytes) ops :
  dv_slog c (OpResData x :: ops) =
    rev (dv_sb (fst (connp_res_data cb g (Some x) (length x) c))) ++
    dv_slog (forget_chunks (fst (connp_res_data cb g (Some x) (length x) c)) <| c_events := [] |>) ops.
Proof. unfold dv_slog. rewrite dv_log_res_cons, dv_selp_app, dv_selp_rev. reflexivity. Qed.

Lemma dv_schunks : forall (chunks : list bytes) L c rw, dv_sbetween L c rw -> c_events c = [] -> rw <> [] ->
  Forall (fun x => x <> []) chunks -> concat chunks = rw -> sr_oks okc chunks ->
  fin (L ++ dv_slog c (map OpResData chunks)) (c_txs (fst (cp_run cb g c (map OpResData chunks)))).
Proof.
  induction chunks as [|x rest IH]; intros L c rw Hb Hev Hne Hall Hc Hoks.
  - cbn [concat] in Hc. congruence.
  - cbn [concat] in Hc. cbn [map]. rewrite sr_cp_run_cons, dv_slog_cons. destruct Hoks as [Hok Hoks].
    destruct (dv_sstep L c rw x (concat rest) Hb Hev (Forall_inv Hall) (eq_sym Hc) Hok) as (c' & rc & E & [[Hn Hb']|[Hn T]]); unfold bytes in *; rewrite E; cbn [fst].
    + rewrite app_assoc. apply (IH _ _ (concat rest) (dv_sbetween_finish _ _ _ Hb') eq_refl Hn (Forall_inv_tail Hall) eq_refl Hoks).
    + rewrite (sg_concat_nil rest (Forall_inv_tail Hall) Hn). cbn [map cp_run fst]. unfold dv_slog. cbn [cp_run snd map concat dv_selp filter]. rewrite app_nil_r. exact T.
Qed.
Lemma dv_sall_chunks c0 (chunks : list bytes) : sr_ready t0 c0 -> c_events c0 = [] -> Forall (fun x => x <> []) chunks -> concat chunks = line0 ++ [CR; LF] ++ bwt ->
  sr_oks okc chunks -> fin (dv_slog c0 (map OpResData chunks)) (c_txs (fst (cp_run cb g c0 (map OpResData chunks)))).
Proof.
  intros Hr Hev Hall Hc Hoks. destruct chunks as [|x rest].
  - cbn [concat] in Hc. symmetry in Hc. apply app_eq_nil in Hc. destruct Hc as [_ Hc]. discriminate.
  - cbn [concat] in Hc. cbn [map]. rewrite sr_cp_run_cons, dv_slog_cons. destruct Hoks as [Hok Hoks].
    destruct (dv_sfirst c0 x (concat rest) Hr Hev (Forall_inv Hall) Hc Hok) as (c' & rc & E & [[Hn Hb']|[Hn T]]); unfold bytes in *; rewrite E; cbn [fst].
    + apply (dv_schunks rest _ _ (concat rest) (dv_sbetween_finish _ _ _ Hb') eq_refl Hn (Forall_inv_tail Hall) eq_refl Hoks).
    + rewrite (sg_concat_nil rest (Forall_inv_tail Hall) Hn). cbn [map cp_run fst]. unfold dv_slog. cbn [cp_run snd map concat dv_selp filter]. rewrite app_nil_r. exact T.
Qed.
End GenRE.

(* ================= the log of the response calls ================= *)
Lemma dv_run_app_snd cb g : forall ops1 c ops2,
  snd (cp_run cb g c (ops1 ++ ops2)) = snd (cp_run cb g c ops1) ++ snd (cp_run cb g (fst (cp_run cb g c ops1)) ops2).
Proof.
  induction ops1 as [|o ops1 IH]; intros c ops2; [reflexivity|]. cbn [app cp_run]. destruct (cp_step cb g c o) as [c1 x].
  specialize (IH c1 ops2). destruct (cp_run cb g c1 (ops1 ++ ops2)) as [c2 xs]. destruct (cp_run cb g c1 ops1) as [c3 ys]. cbn [fst snd] in *. rewrite IH. reflexivity.
Qed.
Lemma dv_step_events_nil cb g c o : c_events (fst (cp_step cb g c o)) = [].
Proof.
  destruct o; cbn [cp_step]; unfold finish_call;
    repeat match goal with |- context [let '(_, _) := ?x in _] => destruct x end; reflexivity.
Qed.
Lemma dv_run_events_nil cb g : forall ops c, ops <> [] -> c_events (fst (cp_run cb g c ops)) = [].
Proof.
  induction ops as [|o ops IH]; intros c Hne; [contradiction|]. cbn [cp_run].
  pose proof (dv_step_events_nil cb g c o) as H0. destruct (cp_step cb g c o) as [c1 x]. cbn [fst] in H0.
  destruct ops as [|o2 ops2]; [cbn [cp_run fst]; exact H0|].
  specialize (IH c1 ltac:(discriminate)). destruct (cp_run cb g c1 (o2 :: ops2)) as [c2 xs]. exact IH.
Qed.
(* the parser after  htp_connp_open ; htp_connp_req_data(w) , and the events of what follows *)
Definition dv_after_req (cb : cb_oracle) (g : cfg) (w : bytes) : connp := fst (cp_run cb g connp_new [OpOpen; OpReqData w]).
Definition dv_res_log (cb : cb_oracle) (g : cfg) (w : bytes) (ops : list cp_op) : list event :=
  concat (map r_events (snd (cp_run cb g (dv_after_req cb g w) ops))).
Lemma dv_log_split cb g w ops : dv_log cb g (OpOpen :: OpReqData w :: ops) = dv_log cb g [OpOpen; OpReqData w] ++ dv_res_log cb g w ops.
Proof.
  unfold dv_log, dv_res_log, dv_after_req. change (OpOpen :: OpReqData w :: ops) with ([OpOpen; OpReqData w] ++ ops).
  rewrite dv_run_app_snd, map_app, concat_app. reflexivity.
Qed.
Lemma dv_after_req_events cb g w : c_events (dv_after_req cb g w) = [].
Proof. apply dv_run_events_nil. discriminate. Qed.
