(* C03, response direction, framings other than Content-Length (chunk-coded bodies with trailers, close-delimited bodies):
   the driver of PSegResGen with the fuel of the for(;;) of htp_connp_res_data made explicit and with a final condition on
   the whole parser (a close-delimited body is ended by htp_connp_close, not by the wire), and the loop of
   htp_connp_RES_HEADERS over a block of wire lines for ANY raw-data receiver / progress value (the trailer block is a
   header block read with progress TRAILER and the RESPONSE_TRAILER_DATA receiver; what happens at its empty line is a
   parameter).  PSegResGen.sr_all_chunks asks the header phase (and what follows it in the same call) to finish with ANY
   fuel 7 + f; a chunk-coded body needs one pass per size line / data block / line end that lies in the TCP chunk.  Here
   the phase gets the bound  (length d - rd) + 12 <= F  (htp_connp_res_data starts with rs_res_fuel = 8 * length d + 64). *)
Require Import Htp.Model.Base Htp.Model.MBstr Htp.Model.MConnTypes Htp.Model.MTxCommon Htp.Model.MResLine Htp.Model.MTxRes.
Require Import Htp.Model.MReq Htp.Model.MRes Htp.Model.MConnp.
Require Import Htp.Spec.SWire Htp.Proof.PWire Htp.Proof.PWireHdr Htp.Proof.PWireBlock Htp.Proof.PWireConn Htp.Proof.PWireExch.
Require Import Htp.Proof.PWireRun Htp.Proof.PWirePres Htp.Proof.PWireGlue Htp.Proof.PSeg Htp.Proof.PSegLine Htp.Proof.PSegHdr Htp.Proof.PSegGen Htp.Proof.PSegRun.
Require Import Htp.Proof.PSegFold Htp.Proof.PSegRes Htp.Proof.PSegResLine Htp.Proof.PSegResHdr Htp.Proof.PSegResGen Htp.Proof.PSegResRun.

(* the passes a call may still need when rd bytes of the chunk d have been read *)
Definition sr_need (d : bytes) (rd : nat) : nat := (length d - rd + 12)%nat.
Lemma sr_fuel_need (x : bytes) : (sr_need x 0 + 4 <= rs_res_fuel (length x))%nat.
Proof. unfold sr_need, rs_res_fuel. lia. Qed.

Section GenF.
Variable cb : cb_oracle.
Variable g : cfg.
Hypothesis Hcb : wr_all_ok cb.
Variables ps s r : bytes.
Hypothesis Wl : sr_status_ok ps s r = true.
Hypothesis Hlim0 : (length (wr_ser_status_line ps s r) + 2 <= g_field_limit_hard g)%nat.
Variable t0 : tx.
Hypothesis H09 : t_is_protocol_0_9 t0 = false.
Variable bwt : bytes.
Variable hlog : option bytes -> tx -> bytes -> bytes -> Prop.
Variable fin : connp -> Prop.                                       (* the parser when the whole wire has been delivered *)
Variable ext : connp -> bytes -> Prop.
Variable okc : bytes -> bytes -> Prop.

Let line0 := wr_ser_status_line ps s r.
Let th0 := sr_th0 t0 line0.
Let between := sr_between ps s r t0 bwt hlog ext.
Definition sr_postF (cF : connp) (rw' : bytes) : Prop :=
  (rw' <> [] /\ sr_between ps s r t0 bwt hlog ext cF rw') \/ (rw' = [] /\ fin cF).

Hypothesis Hfin_finish : forall c, fin c -> fin (forget_chunks c <| c_events := [] |>).
Hypothesis Hext_finish : forall c rw, ext c rw -> ext (forget_chunks c <| c_events := [] |>) rw.
Hypothesis Hext_step : forall c (rw x rw' : bytes), ext c rw -> x <> [] -> rw = x ++ rw' -> okc x rw' ->
  exists c' rc, connp_res_data cb g (Some x) (length x) c = (c', rc) /\ sr_postF c' rw'.
Hypothesis Hcall : forall c d p hdr t rw' F, okc d rw' ->
  sr_cin c d 0 p hdr RES_HEADERS (Some RES_HEADERS) (Some H_RESPONSE_HEADER_DATA) t -> hlog hdr t p (d ++ rw') ->
  (sr_need d 0 <= F)%nat ->
  exists cF rc, rs_res_loop cb g F false c = (cF, rc) /\ sr_postF cF rw'.
Hypothesis Hcall_start : forall c d rd rw' F, okc d rw' ->
  sr_cin c d rd [] None RES_HEADERS (Some RES_HEADERS) (Some H_RESPONSE_HEADER_DATA) th0 -> skipn rd d ++ rw' = bwt -> (0 < rd)%nat ->
  (sr_need d rd <= F)%nat ->
  exists cF rc, rs_res_loop cb g F false c = (cF, rc) /\ sr_postF cF rw'.

(* ---- a call that starts (or continues) in RES_LINE ---- *)
Lemma sr_call_lineF c d p q rw' F : okc d rw' ->
  sr_cin c d 0 p None RES_LINE (Some RES_LINE) None (sr_tx_start t0) ->
  p ++ q = line0 ++ [CR; LF] -> q <> [] -> d ++ rw' = q ++ bwt -> d <> [] -> (sr_need d 0 + 1 <= F)%nat ->
  exists cF rc, rs_res_loop cb g F false c = (cF, rc) /\ sr_postF cF rw'.
Proof.
  intros Hok H Hpq Hq Hw Hd HF.
  destruct (sr_status_line_shape ps s r Wl) as (Pl & _). fold line0 in Pl.
  destruct (sg_app_cases d rw' q _ Hw) as [Clt Cge].
  assert (Es : c_out_state c = RES_LINE) by apply (ri_state _ _ _ _ _ _ _ _ _ H).
  destruct F as [|F1]; [unfold sr_need in HF; lia|].
  destruct (Nat.lt_ge_cases (length d) (length q)) as [Llt|Lge].
  - (* the chunk ends inside the status line *)
    destruct (Clt Llt) as (q2 & Eq & Hq2 & Erw).
    assert (Hpq' : p ++ d ++ q2 = line0 ++ [CR; LF]) by (rewrite <- Eq; exact Hpq).
    destruct (sr_prefix_shape line0 p d q2 Pl Hpq' Hq2) as (u0 & r0 & Eu & Ps & Hr0).
    destruct (sr_line_partial cb g ps s r Hlim0 c d 0 p None _ None _ u0 r0 (S (S (length d))) H Eu Ps Hr0 ltac:(lia)) as (c' & E & H'). cbn [skipn] in H'.
    assert (Lim : (length (p ++ d) + length (sg_olist None) <= g_field_limit_hard g)%nat).
    { assert (L : length (p ++ d ++ q2) = (length line0 + 2)%nat) by (rewrite Hpq', app_length; reflexivity). rewrite !app_length in L. rewrite app_length.
      cbn [sg_olist length]. unfold line0 in L. lia. }
    destruct (sr_exit_buffer cb g Hcb c' d _ None _ _ _ H' Lim) as (cF & EF & HF').
    exists cF, c_HTP_STREAM_DATA. split.
    + apply sr_loop_inl. unfold sr_iter. rewrite Es. cbn [rs_state_fn]. unfold rs_RES_LINE, rs_bytes_fuel.
      rewrite (ri_len _ _ _ _ _ _ _ _ _ H), (ri_read _ _ _ _ _ _ _ _ _ H), Nat.sub_0_r, E, EF. reflexivity.
    + left. split; [rewrite Erw; destruct q2; [contradiction|discriminate]|]. left. exists (p ++ d), q2.
      split; [exact HF'|]. split; [rewrite <- app_assoc; exact Hpq'|]. split; [exact Hq2|exact Erw].
  - (* the status line is complete in this chunk *)
    destruct (Cge Lge) as (d2 & Ed & Eaft).
    destruct (sr_pass_line cb g Hcb c d p q d2 _ ps s r Wl H Ed Hq Hpq Hlim0) as (c2 & E2 & H2 & Hr2).
    rewrite (sr_loop_inr cb g _ _ _ E2).
    apply (Hcall_start c2 d _ rw' F1 Hok H2); [rewrite Hr2; symmetry; exact Eaft|destruct q; [contradiction|cbn [length]; lia]|unfold sr_need in *; lia].
Qed.

(* ---- one call of htp_connp_res_data ---- *)
Lemma sr_stepF c (rw x rw' : bytes) : between c rw -> x <> [] -> rw = x ++ rw' -> okc x rw' ->
  exists c' rc, connp_res_data cb g (Some x) (length x) c = (c', rc) /\ sr_postF c' rw'.
Proof.
  intros [(p & q & Hm & Hpq & Hq & Erw)|[(p & hdr & t & Hm & Hl)|He]] Hne Ex Hok.
  - destruct (sr_enter cb g c p None _ _ _ x Hm Hne) as (c1 & E1 & H1). unfold bytes in *. rewrite E1.
    pose proof (sr_fuel_need x) as Fx.
    apply (sr_call_lineF c1 x p q rw' _ Hok H1 Hpq Hq); [rewrite <- Ex; exact Erw|exact Hne|lia].
  - destruct (sr_enter cb g c p hdr _ _ t x Hm Hne) as (c1 & E1 & H1). unfold bytes in *. rewrite E1.
    pose proof (sr_fuel_need x) as Fx.
    apply (Hcall c1 x p hdr t rw' _ Hok H1); [rewrite <- Ex; exact Hl|lia].
  - apply (Hext_step c rw x rw' He Hne Ex Hok).
Qed.

(* the first call: the parser as the delivery of the request left it *)
Lemma sr_firstF c0 (x rw' : bytes) : sr_ready t0 c0 -> x <> [] -> x ++ rw' = line0 ++ [CR; LF] ++ bwt -> okc x rw' ->
  exists c' rc, connp_res_data cb g (Some x) (length x) c0 = (c', rc) /\ sr_postF c' rw'.
Proof.
  intros [A1 A2 A3 A4 A5 A6 A7 A8 A9 A10 A11 A12] Hne Ex Hok.
  assert (Hlen0 : (length x =? 0)%nat = false) by (destruct x; [contradiction|reflexivity]).
  unfold connp_res_data. rewrite (sg_live_stop _ A1), (sg_live_error _ A1), A7, A2. cbn [res_state_eqb negb]. rewrite Hlen0. cbn [andb].
  match goal with |- context [rs_res_loop cb g _ _ ?y] => set (c1 := y) end.
  match goal with |- context [(c_out_status ?y =? c_HTP_STREAM_TUNNEL)%Z] => change (c_out_status y) with (c_out_status c0) end.
  rewrite (sg_live_tunnel _ A1).
  assert (Idle1 : sr_idle c1 x t0) by (unfold c1; constructor; try assumption; reflexivity).
  clearbody c1.
  destruct (sr_pass_idle cb g Hcb c1 x t0 Idle1 Hne H09) as (c2 & E2 & H2).
  pose proof (sr_fuel_need x) as Fx.
  destruct (rs_res_fuel (length x)) as [|F1] eqn:EF; [unfold sr_need in Fx; lia|].
  rewrite (sr_loop_inr cb g _ _ _ E2).
  apply (sr_call_lineF c2 x [] (line0 ++ [CR; LF]) rw' _ Hok H2 eq_refl).
  - intro E. apply app_eq_nil in E. destruct E as [_ E]. discriminate.
  - rewrite Ex, <- !app_assoc. reflexivity.
  - exact Hne.
  - lia.
Qed.

Lemma sr_betweenF_finish c rw : between c rw -> between (forget_chunks c <| c_events := [] |>) rw.
Proof. apply sr_between_finish. exact Hext_finish. Qed.

(* ---- every later chunk ---- *)
Lemma sr_chunksF : forall (chunks : list bytes) c rw, between c rw -> rw <> [] -> Forall (fun x => x <> []) chunks -> concat chunks = rw ->
  sr_oks okc chunks -> fin (fst (cp_run cb g c (map OpResData chunks))).
Proof.
  induction chunks as [|x rest IH]; intros c rw Hb Hne Hall Hc Hoks.
  - cbn [concat] in Hc. congruence.
  - cbn [concat] in Hc. cbn [map]. rewrite sr_cp_run_cons. destruct Hoks as [Hok Hoks].
    destruct (sr_stepF c rw x (concat rest) Hb (Forall_inv Hall) (eq_sym Hc) Hok) as (c' & rc & E & [[Hn Hb']|[Hn T]]); unfold bytes in *; rewrite E; cbn [fst].
    + apply (IH _ (concat rest) (sr_betweenF_finish _ _ Hb') Hn (Forall_inv_tail Hall) eq_refl Hoks).
    + rewrite (sg_concat_nil rest (Forall_inv_tail Hall) Hn). cbn [map cp_run fst]. apply Hfin_finish. exact T.
Qed.

(* ---- every chunking of the response, from the state the request left ---- *)
Lemma sr_all_chunksF c0 (chunks : list bytes) : sr_ready t0 c0 -> Forall (fun x => x <> []) chunks -> concat chunks = line0 ++ [CR; LF] ++ bwt ->
  sr_oks okc chunks -> fin (fst (cp_run cb g c0 (map OpResData chunks))).
Proof.
  intros Hr Hall Hc Hoks. destruct chunks as [|x rest].
  - cbn [concat] in Hc. symmetry in Hc. apply app_eq_nil in Hc. destruct Hc as [_ Hc]. discriminate.
  - cbn [concat] in Hc. cbn [map]. rewrite sr_cp_run_cons. destruct Hoks as [Hok Hoks].
    destruct (sr_firstF c0 x (concat rest) Hr (Forall_inv Hall) Hc Hok) as (c' & rc & E & [[Hn Hb']|[Hn T]]); unfold bytes in *; rewrite E; cbn [fst].
    + apply (sr_chunksF rest _ (concat rest) (sr_betweenF_finish _ _ Hb') Hn (Forall_inv_tail Hall) eq_refl Hoks).
    + rewrite (sg_concat_nil rest (Forall_inv_tail Hall) Hn). cbn [map cp_run fst]. apply Hfin_finish. exact T.
Qed.
End GenF.

(* ---- htp_connp_RES_HEADERS over the rest of the chunk, for any raw-data receiver rh and any progress value prg
        (PSegResHdr.sr_hdrs_loop is stated for the header receiver, progress HEADERS and the exit into RES_BODY_DETERMINE);
        Hterm = what the empty line does (for the trailer block: htp_connp_res_receiver_finalize_clear, the
        RESPONSE_TRAILER hook, RES_FINALIZE) ---- *)
Section HdrAny.
Variable cb : cb_oracle.
Variable g : cfg.
Hypothesis Hcb : wr_all_ok cb.
Variable rh : option nat.
Variable prg : Z.
Variable stE : res_state.
Variable rhE : option nat.
Hypothesis Hterm : forall c d rd data hdr prev t n (e lf : bool), data = [CR; LF] \/ data = [LF] -> (e = true -> data = [CR; LF]) ->
  sr_cin c d rd data hdr RES_HEADERS prev rh t -> (length data + length (sg_olist hdr) <= g_field_limit_hard g)%nat ->
  t_response_progress (sr_flush hdr t) = prg ->
  exists c', sr_hcont cb g n e lf c = (ST_OK, c') /\ sr_cin c' d rd [] None stE prev rhE (sr_flush hdr t).

Definition sr_hlog_any (Tend : tx) (tailw : bytes) (has_hdr : bool) (hdr : option bytes) (t : tx) (p rw : bytes) : Prop :=
  exists pend tl rem q (eaten : bool), sr_rel hdr t pend tl rem /\ forallb sg_fl_ok rem = true /\ (sg_needs_pending rem = true -> pend <> None) /\
    sr_lrun rem (pend, tl) = Tend /\ t_response_progress tl = prg /\
    (eaten = false -> p ++ q = sg_fnext rem /\ q <> []) /\ (eaten = true -> rem = [] /\ p = [] /\ q = [LF] /\ has_hdr = true) /\
    rw = q ++ sg_fafter tailw rem /\
    sr_ffit (g_field_limit_hard g) (sr_p11 tl) pend rem = true /\ (rem <> [] -> has_hdr = true).

Lemma sr_hdrs_loop_any d rw' Tend tailw has_hdr : sr_f1_local tailw has_hdr d rw' -> forall rem c rd p q hdr t pend tl n lf (eaten : bool),
  sr_cin c d rd p hdr RES_HEADERS (Some RES_HEADERS) rh t ->
  sr_rel hdr t pend tl rem -> forallb sg_fl_ok rem = true -> (sg_needs_pending rem = true -> pend <> None) ->
  sr_lrun rem (pend, tl) = Tend -> t_response_progress tl = prg ->
  (eaten = false -> p ++ q = sg_fnext rem /\ q <> []) -> (eaten = true -> rem = [] /\ p = [] /\ q = [LF] /\ has_hdr = true) ->
  skipn rd d ++ rw' = q ++ sg_fafter tailw rem ->
  sr_ffit (g_field_limit_hard g) (sr_p11 tl) pend rem = true -> (rem <> [] -> has_hdr = true) ->
  (lf = true -> eaten = true) -> (rd = 0%nat \/ p = []) -> (eaten = true -> rd = 0%nat \/ (rd = 2%nat /\ firstn 2 d = [LF; CR])) ->
  (length d - rd < n)%nat ->
  (exists c' p' hdr' t', rs_headers_loop cb g n lf c = (ST_DATA_BUFFER, c') /\
     sr_cin c' d (length d) p' hdr' RES_HEADERS (Some RES_HEADERS) rh t' /\
     sr_hlog_any Tend tailw has_hdr hdr' t' p' rw' /\ rw' <> []) \/
  (exists c' rd1, rs_headers_loop cb g n lf c = (ST_OK, c') /\
     sr_cin c' d rd1 [] None stE (Some RES_HEADERS) rhE Tend /\ skipn rd1 d ++ rw' = tailw).
Proof.
  intros Hf1. induction rem as [|[b l] r IH]; intros c rd p q hdr t pend tl n lf eaten H Hrel Ok Hnp Hrun Hprog Hne Hea Hw Hfit Hhh Hlf Htop Htop2 Hn.
  all: pose proof (ri_rd _ _ _ _ _ _ _ _ _ H) as Hrd.
  all: assert (Lu : length (skipn rd d) = (length d - rd)%nat) by apply skipn_length.
  all: pose proof (sr_rel_len _ _ _ _ _ Hrel) as Lh.
  all: pose proof (sr_cur_plain _ Ok) as Pc.
  all: destruct n as [|n]; [lia|].
  all: destruct eaten.
  (* ---- the empty line, its CR already taken ---- *)
  - destruct (Hea eq_refl) as (_ & Ep & Eq & Ehh). subst p q. cbn [sg_fafter app] in Hw.
    pose proof (sr_ffit_next _ _ _ _ Hfit) as Hl. cbn [sg_fnext length] in Hl.
    destruct (skipn rd d) as [|x u2] eqn:Eu.
    + (* the chunk ends *)
      assert (Erd : rd = length d) by (cbn [length] in Lu; lia). subst rd.
      left. exists c, [], hdr, t. split; [apply (sr_hdr_loop_end cb g c d [] hdr _ _ t n lf H)|]. split; [exact H|]. split.
      * exists pend, tl, [], [LF], true. split; [exact Hrel|]. split; [exact Ok|]. split; [exact Hnp|]. split; [exact Hrun|]. split; [exact Hprog|].
        split; [intros X; discriminate|]. split; [intros _; repeat split; exact Ehh|]. cbn [app] in Hw. split; [rewrite Hw; reflexivity|]. split; [exact Hfit|exact Hhh].
      * cbn [app] in Hw. rewrite Hw. discriminate.
    + cbn [app] in Hw. injection Hw as Ex Hw2. subst x.
      assert (Hnx : match u2 with b0 :: _ => (b0 =? CR)%N = false | [] => True end).
      { destruct u2 as [|b0 u3]; [exact I|]. destruct (b0 =? CR)%N eqn:Eb; [|reflexivity]. exfalso.
        cbn [app] in Hw2. unfold sr_f1_local in Hf1. rewrite <- Hw2 in Hf1. destruct (Hf1 Eb) as [F1 F2].
        assert (Ed : d = firstn rd d ++ LF :: b0 :: u3) by (rewrite <- Eu; symmetry; apply firstn_skipn).
        assert (Lf : length (firstn rd d) = rd) by (apply firstn_length_le; exact Hrd).
        destruct (Htop2 eq_refl) as [E0|[E2 E3]].
        - subst rd. cbn [firstn app] in Ed. assert (L1 : length d = 1%nat).
          { apply F1. rewrite Ed. cbn [app length]. rewrite app_length. cbn [length]. lia. }
          rewrite Ed in L1. cbn [length] in L1. lia.
        - subst rd. rewrite E3 in Ed. assert (L3 : (length d <= 3)%nat).
          { apply (F2 Ehh). rewrite Ed. cbn [app length]. rewrite app_length. cbn [length]. lia. }
          rewrite Ed in L3. cbn [app length] in L3. lia. }
      destruct (sr_hdr_loop_lf cb g c d rd [] hdr _ _ t n lf u2 H Eu Hnx) as (c1 & E1 & H1 & R1). rewrite E1. cbn [app] in H1.
      assert (Hp : t_response_progress (sr_flush hdr t) = prg).
      { rewrite (sr_rel_flush _ _ _ _ _ Hrel). destruct (sr_flush_keep pend tl) as [_ B]. rewrite B. exact Hprog. }
      destruct (Hterm c1 d _ [LF] hdr _ t n false false (or_intror eq_refl) ltac:(discriminate) H1 ltac:(cbn [length]; lia) Hp) as (c2 & E2 & H2).
      right. exists c2, (S rd). split; [exact E2|]. split; [|rewrite R1; exact Hw2].
      rewrite (sr_rel_flush _ _ _ _ _ Hrel) in H2. unfold sr_lrun in Hrun. cbn [fold_left fst snd] in Hrun. rewrite Hrun in H2. exact H2.
  (* ---- the empty line ---- *)
  - destruct (Hne eq_refl) as (Hpq & Hq). rewrite sr_fnext_cur in Hpq. cbn [sg_fafter] in Hw.
    pose proof (sr_ffit_next _ _ _ _ Hfit) as Hl. cbn [sg_fnext length] in Hl.
    assert (Elf : lf = false) by (destruct lf; [specialize (Hlf eq_refl); discriminate|reflexivity]).
    destruct (sg_app_cases (skipn rd d) rw' q _ Hw) as [Clt Cge].
    destruct (Nat.lt_ge_cases (length (skipn rd d)) (length q)) as [Llt|Lge].
    + (* the chunk ends inside the empty line *)
      destruct (Clt Llt) as (q2 & Eq & Hq2 & Erw).
      assert (Hpq' : p ++ skipn rd d ++ q2 = sr_cur [] ++ [CR; LF]) by (rewrite <- Eq; exact Hpq).
      destruct (sr_prefix_shape _ p (skipn rd d) q2 Pc Hpq' Hq2) as (s & r0 & Eu & Ps & Hr0).
      destruct (sr_hdr_partial cb g c d rd p hdr _ _ t s r0 (S n) lf H Eu Ps Hr0 Hn) as (c' & E & H').
      left. exists c', (p ++ skipn rd d), hdr, t. split; [exact E|]. split; [exact H'|]. split.
      * exists pend, tl, [], q2, false. split; [exact Hrel|]. split; [exact Ok|]. split; [exact Hnp|]. split; [exact Hrun|]. split; [exact Hprog|].
        split; [intros _; split; [rewrite sr_fnext_cur, <- app_assoc; exact Hpq'|exact Hq2]|]. split; [intros X; discriminate|]. split; [exact Erw|]. split; [exact Hfit|exact Hhh].
      * rewrite Erw. destruct q2; [contradiction|discriminate].
    + (* the empty line is complete in this chunk *)
      destruct (Cge Lge) as (u2 & Eu & Eaft).
      destruct (sr_hdr_line_scan cb g c d rd p q _ u2 hdr _ _ t (S n) lf H Pc Hpq Hq Eu Elf Htop Hn) as (c1 & n1 & e & lf1 & eol & rd1 & u3 & E1 & H1 & R1 & Hn1 & He & Hcase).
      rewrite E1.
      destruct Hcase as [(Eeol & Elf1 & Eu3)|(Eeol & Elf1 & Eu2 & Eq & Erd & Erd1 & Efn)].
      * subst eol lf1. rewrite Eu3 in R1. cbn [sr_cur app] in H1.
        assert (Hp : t_response_progress (sr_flush hdr t) = prg).
        { rewrite (sr_rel_flush _ _ _ _ _ Hrel). destruct (sr_flush_keep pend tl) as [_ B]. rewrite B. exact Hprog. }
        destruct (Hterm c1 d _ [CR; LF] hdr _ t n1 e false (or_introl eq_refl) (fun _ => eq_refl) H1 ltac:(cbn [length]; lia) Hp) as (c2 & E2 & H2).
        right. exists c2, rd1. split; [exact E2|]. split; [|rewrite R1; symmetry; exact Eaft].
        rewrite (sr_rel_flush _ _ _ _ _ Hrel) in H2. unfold sr_lrun in Hrun. cbn [fold_left fst snd] in Hrun. rewrite Hrun in H2. exact H2.
      * (* F1: the body would start with CR in the chunk that starts with the LF of the empty line *)
        exfalso. subst q rd u2. cbn [skipn app] in Eu. unfold sr_f1_local in Hf1. rewrite Eaft in Hf1. cbn [app] in Hf1.
        destruct (Hf1 eq_refl) as [F1 _].
        assert (L1 : length d = 1%nat) by (apply F1; rewrite Eu; cbn [app length]; rewrite !app_length; cbn [length]; lia).
        rewrite Eu in L1. cbn [length] in L1. lia.
  - destruct (Hea eq_refl) as (X & _). discriminate.
  - destruct (Hne eq_refl) as (Hpq & Hq). rewrite sr_fnext_cur in Hpq. cbn [sr_cur snd] in Hpq, Pc.
    assert (Elf : lf = false) by (destruct lf; [specialize (Hlf eq_refl); discriminate|reflexivity]).
    pose proof Ok as Ok0. cbn [forallb] in Ok. apply andb_prop in Ok. destruct Ok as [Okl Ok'].
    pose proof Hfit as Hfit0. cbn [sr_ffit] in Hfit. apply andb_prop in Hfit. destruct Hfit as [Hf1' Hf2]. apply Nat.leb_le in Hf1'. cbn [snd] in Hf1'.
    assert (Hh1 : has_hdr = true) by (apply Hhh; discriminate).
    destruct (sg_app_cases (skipn rd d) rw' q _ Hw) as [Clt Cge].
    destruct (Nat.lt_ge_cases (length (skipn rd d)) (length q)) as [Llt|Lge].
    + (* the chunk ends inside the current line *)
      destruct (Clt Llt) as (q2 & Eq & Hq2 & Erw).
      assert (Hpq' : p ++ skipn rd d ++ q2 = l ++ [CR; LF]) by (rewrite <- Eq; exact Hpq).
      destruct (sr_prefix_shape _ p (skipn rd d) q2 Pc Hpq' Hq2) as (s & r0 & Eu & Ps & Hr0).
      destruct (sr_hdr_partial cb g c d rd p hdr _ _ t s r0 (S n) lf H Eu Ps Hr0 Hn) as (c' & E & H').
      left. exists c', (p ++ skipn rd d), hdr, t. split; [exact E|]. split; [exact H'|]. split.
      * exists pend, tl, ((b, l) :: r), q2, false. split; [exact Hrel|]. split; [exact Ok0|]. split; [exact Hnp|]. split; [exact Hrun|]. split; [exact Hprog|].
        split; [intros _; split; [rewrite sr_fnext_cur, <- app_assoc; exact Hpq'|exact Hq2]|]. split; [intros X; discriminate|]. split; [exact Erw|]. split; [exact Hfit0|exact Hhh].
      * rewrite Erw. destruct q2; [contradiction|discriminate].
    + (* the current line is complete in this chunk *)
      destruct (Cge Lge) as (u2 & Eu & Eaft). cbn [sg_fafter] in Eaft. rewrite sg_fwire_split in Eaft.
      destruct (sr_hdr_line_scan cb g c d rd p q _ u2 hdr _ _ t (S n) lf H Pc Hpq Hq Eu Elf Htop Hn) as (c1 & n1 & e & lf1 & eol & rd1 & u3 & E1 & H1 & R1 & Hn1 & He & Hcase).
      rewrite E1. destruct (sr_fnext_head_cr r Ok') as (b0 & r0 & Eh & Fh & Hcr).
      (* what remains after the line, and whether the CR of the empty line went into the line end *)
      assert (Hst : sr_eol eol /\ (eol = [CR; LF; CR] -> r = []) /\
                    skipn rd1 d ++ rw' = (if lf1 then [LF] else sg_fnext r) ++ sg_fafter tailw r /\
                    (lf1 = true -> r = [] /\ (rd1 = 0%nat \/ (rd1 = 2%nat /\ firstn 2 d = [LF; CR]))) /\
                    match nth_error d rd1 with Some b1 => htp_is_folding_char b1 = false -> sg_needs_pending r = false | None => True end).
      { destruct Hcase as [(Eeol & Elf1 & Eu3)|(Eeol & Elf1 & Eu2 & Eq & Erd & Erd1 & Efn)].
        - subst eol lf1. rewrite Eu3 in R1. split; [left; reflexivity|]. split; [discriminate|]. split; [rewrite R1; symmetry; exact Eaft|]. split; [discriminate|].
          destruct u2 as [|b1 u2'].
          + pose proof (sg_skipn_nil _ _ R1) as L. assert (N : nth_error d rd1 = None) by (apply nth_error_None; exact L). rewrite N. exact I.
          + destruct (sg_skipn_cons _ _ _ _ R1) as (N & _ & _). rewrite N. rewrite Eh in Eaft. cbn [app] in Eaft. injection Eaft as Eb _. subst b1. rewrite <- Fh. intros X; exact X.
        - subst eol lf1 u2. rewrite Eh in Eaft. cbn [app] in Eaft. injection Eaft as Eb Eaft. subst b0. specialize (Hcr eq_refl). subst r.
          cbn [sg_fnext] in Eh. injection Eh as Eh. subst r0. cbn [sg_fafter app] in Eaft |- *.
          split; [right; reflexivity|]. split; [reflexivity|]. split; [rewrite R1; symmetry; exact Eaft|]. split; [intros _; split; [reflexivity|right; split; assumption]|].
          destruct u3 as [|b1 u3'].
          + pose proof (sg_skipn_nil _ _ R1) as L. assert (N : nth_error d rd1 = None) by (apply nth_error_None; exact L). rewrite N. exact I.
          + destruct (sg_skipn_cons _ _ _ _ R1) as (N & _ & _). rewrite N. intros _. reflexivity. }
      destruct Hst as (Heol & Heol3 & Hw2 & Hlf1 & Hnext).
      assert (Hlim : (length (l ++ eol) + length (sg_olist hdr) <= g_field_limit_hard g)%nat).
      { rewrite app_length. destruct Heol as [E|E]; subst eol; cbn [length]; [destruct r; lia|rewrite (Heol3 eq_refl) in Hf1'; lia]. }
      rewrite sr_lrun_cons in Hrun.
      destruct (sr_lstep_keep (pend, tl) (b, l)) as [Kp Kg]. cbn [snd] in Kp, Kg.
      assert (Hnp' : sg_needs_pending r = true -> fst (sr_lstep (pend, tl) (b, l)) <> None) by (intros _; rewrite sr_lstep_hdr; apply sr_hstep_some).
      assert (Hfit' : sr_ffit (g_field_limit_hard g) (sr_p11 (snd (sr_lstep (pend, tl) (b, l)))) (fst (sr_lstep (pend, tl) (b, l))) r = true) by (rewrite Kp, sr_lstep_hdr; exact Hf2).
      assert (Hprog' : t_response_progress (snd (sr_lstep (pend, tl) (b, l))) = prg) by (rewrite Kg; exact Hprog).
      assert (Hhh' : r <> [] -> has_hdr = true) by (intros _; exact Hh1).
      assert (Hne' : lf1 = false -> [] ++ (if lf1 then [LF] else sg_fnext r) = sg_fnext r /\ (if lf1 then [LF] else sg_fnext r) <> []).
      { intros X. rewrite X. split; [reflexivity|apply sg_fnext_ne]. }
      assert (Hea' : lf1 = true -> r = [] /\ @nil N = [] /\ (if lf1 then [LF] else sg_fnext r) = [LF] /\ has_hdr = true).
      { intros X. destruct (Hlf1 X) as [Er _]. rewrite X. repeat split; assumption. }
      assert (Htop2' : lf1 = true -> rd1 = 0%nat \/ (rd1 = 2%nat /\ firstn 2 d = [LF; CR])) by (intros X; apply (Hlf1 X)).
      assert (Hcase2 : exists c2 hdr' t', sr_hcont cb g n1 e lf1 c1 = rs_headers_loop cb g n1 lf1 c2 /\
                sr_cin c2 d rd1 [] hdr' RES_HEADERS (Some RES_HEADERS) rh t' /\
                sr_rel hdr' t' (fst (sr_lstep (pend, tl) (b, l))) (snd (sr_lstep (pend, tl) (b, l))) r).
      { destruct b.
        - (* a first line *)
          unfold sg_fl_ok in Okl. cbn [fst snd] in Okl.
          destruct (sr_hcont_start cb g c1 d rd1 hdr _ _ t l eol n1 e lf1 Okl Heol H1 Hlim) as (c2 & E2 & H2).
          rewrite (sr_rel_flush _ _ _ _ _ Hrel) in H2. unfold sr_lstep, sr_hstep. cbn [fst snd].
          destruct (nth_error d rd1) as [b1|].
          + destruct (htp_is_folding_char b1) eqn:Fb.
            * exists c2, (Some l), (sr_flush pend tl). split; [exact E2|]. split; [exact H2|]. left. split; reflexivity.
            * exists c2, None, (rs_process_response_header l (sr_flush pend tl)). split; [exact E2|]. split; [exact H2|]. right. split; [reflexivity|]. split; [reflexivity|]. apply Hnext. reflexivity.
          + exists c2, (Some l), (sr_flush pend tl). split; [exact E2|]. split; [exact H2|]. left. split; reflexivity.
        - (* a continuation line *)
          unfold sg_fl_ok in Okl. cbn [fst snd] in Okl.
          destruct pend as [h|]; [|exfalso; apply (Hnp eq_refl); reflexivity].
          destruct Hrel as [[Eh' Et]|[_ [_ Hx]]]; [|discriminate]. subst hdr t.
          cbn [sg_olist] in Hlim.
          destruct (sr_hcont_cont cb g c1 d rd1 h _ _ tl l eol n1 e lf1 Okl Heol H1 Hlim) as (c2 & E2 & H2).
          eexists c2, _, _. split; [exact E2|]. split; [exact H2|]. left. split; reflexivity. }
      destruct Hcase2 as (c2 & hdr' & t' & E2 & H2 & Hrel'). rewrite E2.
      destruct (IH c2 rd1 [] (if lf1 then [LF] else sg_fnext r) hdr' t' _ _ n1 lf1 lf1 H2 Hrel' Ok' Hnp' Hrun Hprog' Hne' Hea' Hw2 Hfit' Hhh' (fun X => X) (or_intror eq_refl) Htop2' Hn1) as [HA|HB].
      * left. exact HA.
      * right. exact HB.
Qed.
End HdrAny.

(* ---- the header phase of PSegResRun (header fields possibly folded, the F1 side condition), what follows the empty line being a
        parameter with a fuel bound ---- *)
Section HdrF.
Variable cb : cb_oracle.
Variable g : cfg.
Hypothesis Hcb : wr_all_ok cb.
Variables ps s r : bytes.
Variable t0 : tx.
Variable ls : list sg_fl.
Variable tailw : bytes.                                             (* the wire after the empty line *)
Hypothesis Okl : forallb sg_fl_ok ls = true.
Hypothesis Hnp0 : sg_needs_pending ls = false.
Let line0 := wr_ser_status_line ps s r.
Let th0 := sr_th0 t0 line0.
Let Tend := sr_lrun ls (None, th0).
Let has_hdr := negb (sr_is_nil ls).
Hypothesis Hfit : sr_ffit (g_field_limit_hard g) (sr_p11 th0) None ls = true.
Let bwt := sg_fwire ls ++ [CR; LF] ++ tailw.
Let hlog := sr_hlog g Tend tailw has_hdr.
Let okc := sr_f1_local tailw has_hdr.
Variable fin : connp -> Prop.
Variable ext : connp -> bytes -> Prop.
Let post := sr_postF ps s r t0 bwt hlog fin ext.
Hypothesis Htail : forall c c1 d rd1 (rw' : bytes) F, c_out_state c = RES_HEADERS -> rs_state_fn cb g RES_HEADERS c = (ST_OK, c1) ->
  sr_cin c1 d rd1 [] None RES_BODY_DETERMINE (Some RES_HEADERS) (Some H_RESPONSE_HEADER_DATA) Tend -> skipn rd1 d ++ rw' = tailw ->
  (sr_need d rd1 <= F)%nat ->
  exists cF rc, rs_res_loop cb g F false c = (cF, rc) /\ post cF rw'.

Lemma sr_hdrs_finishF c d rd (rw' : bytes) F nn : (rd <= length d)%nat ->
  c_out_state c = RES_HEADERS -> rs_state_fn cb g RES_HEADERS c = rs_headers_loop cb g nn false c -> (sr_need d rd <= F)%nat ->
  ((exists c' p' hdr' t', rs_headers_loop cb g nn false c = (ST_DATA_BUFFER, c') /\
      sr_cin c' d (length d) p' hdr' RES_HEADERS (Some RES_HEADERS) (Some H_RESPONSE_HEADER_DATA) t' /\
      sr_hlog g Tend tailw has_hdr hdr' t' p' rw' /\ rw' <> []) \/
   (exists c' rd1, rs_headers_loop cb g nn false c = (ST_OK, c') /\
      sr_cin c' d rd1 [] None RES_BODY_DETERMINE (Some RES_HEADERS) (Some H_RESPONSE_HEADER_DATA) Tend /\ skipn rd1 d ++ rw' = tailw /\
      (length d - rd1 <= length d - rd)%nat)) ->
  exists cF rc, rs_res_loop cb g F false c = (cF, rc) /\ post cF rw'.
Proof.
  intros Hrd Es Ef HF [HA|HB].
  - destruct HA as (c' & p' & hdr' & t' & EA & HA1 & HA2 & HA3).
    assert (Lim : (length p' + length (sg_olist hdr') <= g_field_limit_hard g)%nat).
    { destruct HA2 as (pe & te & re & q' & ea & Hr' & _ & _ & _ & _ & Hne & Hea & _ & Fit & _). pose proof (sr_ffit_next _ _ _ _ Fit) as L.
      pose proof (sr_rel_len _ _ _ _ _ Hr'). destruct ea.
      - destruct (Hea eq_refl) as (Er & Ep & _). subst re p'. cbn [sg_fnext length] in L |- *. lia.
      - destruct (Hne eq_refl) as (Epq & _). rewrite <- Epq, app_length in L. lia. }
    destruct (sr_exit_buffer cb g Hcb c' d p' hdr' _ _ t' HA1 Lim) as (cF & EF & HF').
    exists cF, c_HTP_STREAM_DATA. split.
    + destruct F as [|F1]; [unfold sr_need in HF; lia|]. apply sr_loop_inl. unfold sr_iter. rewrite Es, Ef, EA, EF. reflexivity.
    + left. split; [exact HA3|]. right. left. exists p', hdr', t'. split; [exact HF'|exact HA2].
  - destruct HB as (c' & rd1 & EB & HB1 & HB2 & HB3). rewrite <- Ef in EB.
    apply (Htail c c' d rd1 rw' F Es EB HB1 HB2). unfold sr_need in *. lia.
Qed.

(* the position after the empty line is not before the position at which the pass started *)
Lemma sr_tail_pos (d rw' q : bytes) rem rd rd1 : skipn rd d ++ rw' = q ++ sg_fafter tailw rem -> skipn rd1 d ++ rw' = tailw ->
  (length d - rd1 <= length d - rd)%nat.
Proof.
  intros Hw HB2.
  assert (L1 : length (skipn rd1 d ++ rw') = length tailw) by (rewrite HB2; reflexivity).
  assert (L2 : length (skipn rd d ++ rw') = length (q ++ sg_fafter tailw rem)) by (rewrite Hw; reflexivity).
  rewrite app_length, skipn_length in L1. rewrite !app_length, skipn_length in L2.
  assert (L3 : (length tailw <= length (sg_fafter tailw rem))%nat).
  { destruct rem as [|x r0]; cbn [sg_fafter]; [lia|]. rewrite !app_length. lia. }
  lia.
Qed.

Lemma sr_call_hdrsF c d p hdr t (rw' : bytes) F : okc d rw' ->
  sr_cin c d 0 p hdr RES_HEADERS (Some RES_HEADERS) (Some H_RESPONSE_HEADER_DATA) t -> hlog hdr t p (d ++ rw') -> (sr_need d 0 <= F)%nat ->
  exists cF rc, rs_res_loop cb g F false c = (cF, rc) /\ post cF rw'.
Proof.
  intros Hok H (pend & tl & rem & q & eaten & Hrel & Ok & Hnp & Hrun & Hprog & Hne & Hea & Hw & Hfit' & Hhh) HF.
  assert (Es : c_out_state c = RES_HEADERS) by apply (ri_state _ _ _ _ _ _ _ _ _ H).
  assert (Ef : rs_state_fn cb g RES_HEADERS c = rs_headers_loop cb g (S (S (length d))) false c).
  { cbn [rs_state_fn]. unfold rs_RES_HEADERS, rs_bytes_fuel. rewrite (ri_len _ _ _ _ _ _ _ _ _ H), (ri_read _ _ _ _ _ _ _ _ _ H), Nat.sub_0_r. reflexivity. }
  apply (sr_hdrs_finishF c d 0 rw' F _ ltac:(lia) Es Ef HF).
  destruct (sr_hdrs_loop cb g d rw' Tend tailw has_hdr Hok rem c 0 p q hdr t pend tl (S (S (length d))) false eaten H Hrel Ok Hnp Hrun Hprog Hne Hea Hw Hfit' Hhh) as [HA|HB];
    [discriminate|left; reflexivity|intros _; left; reflexivity|lia|left; exact HA|].
  right. destruct HB as (c' & rd1 & EB & HB1 & HB2). exists c', rd1. split; [exact EB|]. split; [exact HB1|]. split; [exact HB2|].
  apply (sr_tail_pos d rw' q rem 0 rd1 Hw HB2).
Qed.
Lemma sr_call_startF c d rd (rw' : bytes) F : okc d rw' ->
  sr_cin c d rd [] None RES_HEADERS (Some RES_HEADERS) (Some H_RESPONSE_HEADER_DATA) th0 -> skipn rd d ++ rw' = bwt -> (0 < rd)%nat ->
  (sr_need d rd <= F)%nat ->
  exists cF rc, rs_res_loop cb g F false c = (cF, rc) /\ post cF rw'.
Proof.
  intros Hok H Hw Hrd HF.
  assert (Es : c_out_state c = RES_HEADERS) by apply (ri_state _ _ _ _ _ _ _ _ _ H).
  assert (Ef : rs_state_fn cb g RES_HEADERS c = rs_headers_loop cb g (S (S (length d - rd))) false c).
  { cbn [rs_state_fn]. unfold rs_RES_HEADERS, rs_bytes_fuel. rewrite (ri_len _ _ _ _ _ _ _ _ _ H), (ri_read _ _ _ _ _ _ _ _ _ H). reflexivity. }
  apply (sr_hdrs_finishF c d rd rw' F _ (ri_rd _ _ _ _ _ _ _ _ _ H) Es Ef HF).
  assert (Hw' : skipn rd d ++ rw' = sg_fnext ls ++ sg_fafter tailw ls) by (rewrite Hw; unfold bwt; apply sg_fwire_split).
  destruct (sr_hdrs_loop cb g d rw' Tend tailw has_hdr Hok ls c rd [] (sg_fnext ls) None th0 None th0 (S (S (length d - rd))) false false H) as [HA|HB].
  - left. split; reflexivity.
  - exact Okl.
  - rewrite Hnp0. discriminate.
  - reflexivity.
  - apply (sr_th0_keep t0 line0).
  - intros _. split; [reflexivity|apply sg_fnext_ne].
  - discriminate.
  - exact Hw'.
  - exact Hfit.
  - apply sr_is_nil_false.
  - discriminate.
  - right. reflexivity.
  - discriminate.
  - lia.
  - left. exact HA.
  - right. destruct HB as (c' & rd1 & EB & HB1 & HB2). exists c', rd1. split; [exact EB|]. split; [exact HB1|]. split; [exact HB2|].
    apply (sr_tail_pos d rw' (sg_fnext ls) ls rd rd1 Hw' HB2).
Qed.
End HdrF.
