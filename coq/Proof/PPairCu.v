(* C04, Stage C: the response side between two calls when requests are marked complete behind its back (qb_Vall), and the
   transaction list read off a between-calls state, slot by slot (qb_aligned). *)
Require Import Htp.Model.Base Htp.Model.MBstr Htp.Model.MConnTypes Htp.Model.MTxCommon Htp.Model.MResLine Htp.Model.MTxRes.
Require Import Htp.Model.MReq Htp.Model.MRes Htp.Model.MConnp.
Require Import Htp.Spec.SWire Htp.Proof.PWire Htp.Proof.PWireHdr Htp.Proof.PWireBlock Htp.Proof.PWireConn Htp.Proof.PWireExch.
Require Import Htp.Proof.PWireRun Htp.Proof.PWirePres Htp.Proof.PWireGlue Htp.Proof.PSeg Htp.Proof.PSegLine Htp.Proof.PSegHdr Htp.Proof.PSegGen Htp.Proof.PSegRun.
Require Import Htp.Proof.PSegFold Htp.Proof.PSegPipe Htp.Proof.PSegRes Htp.Proof.PSegResLine Htp.Proof.PSegResHdr Htp.Proof.PSegResGen Htp.Proof.PSegResRun Htp.Proof.PSegResReq Htp.Proof.PSegResThm.
Require Import Htp.Proof.PPairA Htp.Proof.PPairB Htp.Proof.PPairReq Htp.Proof.PPairCq Htp.Proof.PPairCr Htp.Proof.PPairCs Htp.Proof.PPairCt.
Require Import Htp.Proof.PPairC1 Htp.Proof.PPairC2 Htp.Proof.PPairC3 Htp.Proof.PPairC4 Htp.Proof.PPairC5 Htp.Proof.PPairC6 Htp.Proof.PPairC7 Htp.Proof.PPairC8 Htp.Proof.PPairC9.

Definition pg_Vtxs (l : list (option tx)) : list (option tx) := map (option_map pg_V) l.
Definition pg_Vc (c : connp) : connp := c <| c_txs := pg_Vtxs (c_txs c) |>.
Definition pg_Vw (w : pj_world) : pj_world := mk_pj_world (pg_Vtxs (jw_pre w)) (pg_Vtxs (jw_post w)) (jw_in w).

Lemma pg_slots_V es : qp_slots (map pg_Vex es) = pg_Vtxs (qp_slots es).
Proof. unfold qp_slots, pg_Vtxs. rewrite !map_map. apply map_ext. intros e. rewrite pg_Vex_tfin. reflexivity. Qed.
Lemma pg_pend_V es : qp_pend (map pg_Vex es) = pg_Vtxs (qp_pend es).
Proof. unfold qp_pend, pg_Vtxs. rewrite !map_map. reflexivity. Qed.
Lemma pg_wires_V es : qp_wires (map pg_Vex es) = qp_wires es.
Proof. unfold qp_wires. rewrite map_map. reflexivity. Qed.
Lemma pg_Vtxs_app a b : pg_Vtxs (a ++ b) = pg_Vtxs a ++ pg_Vtxs b.
Proof. apply map_app. Qed.
Lemma pg_Vw_qp junk inn esd es' : pg_Vw (qp_w junk inn esd es') = qp_w (pg_Vtxs junk) inn (map pg_Vex esd) (map pg_Vex es').
Proof. unfold pg_Vw, qp_w. cbn [jw_pre jw_post jw_in]. rewrite pg_slots_V, pg_pend_V, pg_Vtxs_app. reflexivity. Qed.

Lemma pg_rest_V c txs nx inn : pj_rest c txs nx inn -> pj_rest (pg_Vc c) (pg_Vtxs txs) nx inn.
Proof. intros [A1 A2 A3 A4 A5 A6 A7 A8 A9 A10]. constructor; try assumption. cbn [pg_Vc c_txs set]. cbn. rewrite A7. reflexivity. Qed.
Lemma pg_mid_V w c p hdr st rh t : pj_midw w c p hdr st rh t -> pj_midw (pg_Vw w) (pg_Vc c) p hdr st rh (pg_V t).
Proof.
  intros [A1 A2 A3 A4 A5 A6 A7 A8 A9 A10 A11 A12 A13].
  assert (Ek : pj_k (pg_Vw w) = pj_k w) by (unfold pj_k, pg_Vw, pg_Vtxs; cbn [jw_pre]; apply map_length).
  constructor; rewrite ?Ek; try assumption.
  cbn [pg_Vc c_txs set]. cbn. rewrite A8. unfold pj_txs, pg_Vw. cbn [jw_pre jw_post]. rewrite pg_Vtxs_app. reflexivity.
Qed.

Lemma pg_hlog_V g Tend tw hh hdr t p rw : sr_hlog g Tend tw hh hdr t p rw -> sr_hlog g (pg_V Tend) tw hh hdr (pg_V t) p rw.
Proof.
  intros (pend & tl & rem & q & ea & H1 & H2 & H3 & H4 & H5 & H6 & H7 & H8 & H9 & H10).
  exists pend, (pg_V tl), rem, q, ea. split.
  - destruct H1 as [[E1 E2]|[E1 [E2 E3]]]; [left; split; [exact E1|rewrite E2; reflexivity]|right; split; [exact E1|split; [rewrite E2; symmetry; apply pg_V_flush|exact E3]]].
  - split; [exact H2|]. split; [exact H3|]. split; [rewrite pg_V_lrun, H4; reflexivity|]. split; [exact H5|]. split; [exact H6|]. split; [exact H7|].
    split; [exact H8|]. split; [exact H9|exact H10].
Qed.

Lemma pg_betw_V g w ps s r ls body t0 tailw c rw : qp_betw g (w := w) ps s r ls body t0 tailw c rw ->
  qp_betw g (w := pg_Vw w) ps s r ls body (pg_V t0) tailw (pg_Vc c) rw.
Proof.
  intros [p q Hm Hpq Hq Erw|p hdr t Hm Hl|k Hk Hm Hl Erw].
  - apply (JW_line g (w := pg_Vw w) ps s r ls body (pg_V t0) tailw (pg_Vc c) rw p q (pg_mid_V _ _ _ _ _ _ _ Hm) Hpq Hq Erw).
  - apply (JW_hdrs g (w := pg_Vw w) ps s r ls body (pg_V t0) tailw (pg_Vc c) rw p hdr (pg_V t) (pg_mid_V _ _ _ _ _ _ _ Hm)). rewrite pg_V_th0, pg_V_lrun. apply pg_hlog_V. exact Hl.
  - apply (JW_body g (w := pg_Vw w) ps s r ls body (pg_V t0) tailw (pg_Vc c) rw k Hk); [|exact Hl|exact Erw].
    rewrite pg_V_th0, pg_V_lrun, pg_V_hdrs_tx, pg_V_body_add'. apply pg_mid_V. exact Hm.
Qed.

(* every request marked complete: the description holds for the exchanges with their requests marked complete *)
Lemma qb_Vall g junk inn esd es c rw : qp_between g junk inn esd es c rw ->
  qp_between g (pg_Vtxs junk) inn (map pg_Vex esd) (map pg_Vex es) (pg_Vc c) rw.
Proof.
  intros [Hr Erw|e es' Ees B|e e' es'' p q Ees Hm Hpq Hq Erw].
  - apply JB_idle; [|rewrite pg_wires_V; exact Erw].
    rewrite pg_slots_V, pg_pend_V, <- !pg_Vtxs_app, map_length. apply pg_rest_V. exact Hr.
  - subst es. apply (JB_in _ _ _ _ _ _ _ (pg_Vex e) (map pg_Vex es') eq_refl). rewrite pg_wires_V, <- pg_Vw_qp.
    apply (pg_betw_V _ _ _ _ _ _ _ _ _ _ _ B).
  - subst es. apply (JB_fin _ _ _ _ _ _ _ (pg_Vex e) (pg_Vex e') (map pg_Vex es'') p q eq_refl); [|exact Hpq|exact Hq|].
    + rewrite pg_Vex_tpre. change (pg_Vex e' :: map pg_Vex es'') with (map pg_Vex (e' :: es'')). rewrite <- pg_Vw_qp. apply pg_mid_V. exact Hm.
    + rewrite Erw. unfold px_bwt. rewrite pg_wires_V. reflexivity.
Qed.

(* ---- the transaction list, slot by slot ---- *)
Definition pg_al (t : tx) (e : pp_ex) : Prop := pg_k3 t = pg_k3 (px_t0 e).
Lemma pg_F2_map {A B} (R : B -> A -> Prop) (f : A -> B) l : (forall a, R (f a) a) -> Forall2 R (map f l) l.
Proof. intros H. induction l; constructor; [apply H|assumption]. Qed.
Lemma pg_betw_k3 g w ps s r ls body t0 tailw c rw : qp_betw g (w := w) ps s r ls body t0 tailw c rw ->
  exists p hdr st rh t, pj_midw w c p hdr st rh t /\ pg_k3 t = pg_k3 t0.
Proof.
  intros [p q Hm _ _ _|p hdr t Hm Hl|k _ Hm _ _].
  - do 5 eexists. split; [exact Hm|reflexivity].
  - do 5 eexists. split; [exact Hm|].
    destruct Hl as (pend & tl & rem & q & ea & H1 & _ & _ & H4 & _).
    assert (Et : pg_k3 t = pg_k3 tl) by (destruct H1 as [[_ E2]|[_ [E2 _]]]; rewrite E2; [reflexivity|apply pg_k3_flush]).
    rewrite Et. pose proof (pg_k3_lrun rem (pend, tl)) as X. cbn [snd] in X. rewrite <- X, H4, pg_k3_lrun. cbn [snd]. apply pg_k3_th0.
  - do 5 eexists. split; [exact Hm|]. rewrite pg_k3_body_add', pg_k3_hdrs_tx, pg_k3_lrun. cbn [snd]. apply pg_k3_th0.
Qed.
Lemma qb_aligned g junk inn esd es c rw : qp_between g junk inn esd es c rw ->
  exists txl, c_txs c = map Some txl ++ junk /\ Forall2 pg_al txl (esd ++ es).
Proof.
  intros [Hr Erw|e es' Ees B|e e' es'' p q Ees Hm Hpq Hq Erw].
  - exists (map pp_tfin esd ++ map px_t0 es). split.
    + rewrite (jy_txs _ _ _ _ Hr). unfold qp_slots, qp_pend. rewrite map_app, !map_map, <- app_assoc. reflexivity.
    + apply Forall2_app; apply pg_F2_map; intros a; unfold pg_al; [apply pg_k3_tfin|reflexivity].
  - destruct (pg_betw_k3 _ _ _ _ _ _ _ _ _ _ _ B) as (p & hdr & st & rh & t & Hm & Ek). subst es.
    exists (map pp_tfin esd ++ t :: map px_t0 es'). split.
    + rewrite (jm_txs _ _ _ _ _ _ Hm). unfold pj_txs, qp_slots, qp_pend. cbn [jw_pre jw_post qp_w]. rewrite map_app. cbn [map]. rewrite !map_map, <- app_assoc. reflexivity.
    + apply Forall2_app; [apply pg_F2_map; intros a; apply pg_k3_tfin|]. constructor; [exact Ek|apply pg_F2_map; intros a; reflexivity].
  - subst es. exists (map pp_tfin esd ++ px_tpre e :: map px_t0 (e' :: es'')). split.
    + rewrite (jm_txs _ _ _ _ _ _ Hm). unfold pj_txs, qp_slots, qp_pend. cbn [jw_pre jw_post qp_w]. rewrite map_app. cbn [map]. rewrite !map_map, <- app_assoc. reflexivity.
    + apply Forall2_app; [apply pg_F2_map; intros a; apply pg_k3_tfin|]. constructor; [apply pg_k3_tpre|apply pg_F2_map; intros a; reflexivity].
Qed.

(* transactions whose request is complete are not changed by the mark *)
Lemma pg_Vtxs_id txl es : Forall2 pg_al txl es -> Forall (fun e => t_request_progress (px_t0 e) = c_HTP_REQUEST_COMPLETE) es ->
  pg_Vtxs (map Some txl) = map Some txl.
Proof.
  induction 1 as [|t e txl es Ha F IH]; intros Hc; [reflexivity|]. unfold pg_Vtxs in *. cbn [map option_map]. rewrite (IH (Forall_inv_tail Hc)). f_equal. f_equal.
  apply pg_V_id. unfold pg_al, pg_k3 in Ha. inversion Ha as [[E1 E2 E3]]. rewrite E2. exact (Forall_inv Hc).
Qed.

(* the request side re-targeted to another transaction in progress *)
Lemma pk_midw_re2 done done' c1 c2 p hdr st rh t t' : sg_midw (sg_pw done) c1 p hdr st rh t -> length done' = length done -> pk_same_in c1 c2 ->
  c_txs c2 = done' ++ [Some t'] -> sg_midw (sg_pw done') c2 p hdr st rh t'.
Proof.
  intros [A1 A2 A3 A4 A5 A6 A7 A8 A9 A10 A11] L [S1 S2 S3 S4 S5 S6 S7 S8 S9 S10] Et.
  cbn [w_done w_flags sg_pw] in *.
  constructor; cbn [w_done w_flags sg_pw]; rewrite ?S1, ?S2, ?S3, ?S4, ?S5, ?S6, ?S7, ?S8, ?S9, ?S10, ?L; assumption.
Qed.
