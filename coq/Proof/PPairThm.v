(* C04, Stage A: n exchanges of the wire grammar -- the requests in any chunking, then every response in one chunk -- give n
   transactions; the i-th reports request i and carries response i. *)
Require Import Htp.Model.Base Htp.Model.MBstr Htp.Model.MUri Htp.Model.MPath Htp.Model.MUrlenc Htp.Model.MConnTypes Htp.Model.MTxCommon.
Require Import Htp.Model.MReqLine Htp.Model.MReqUri Htp.Model.MTxReq Htp.Model.MResLine Htp.Model.MTxRes.
Require Import Htp.Model.MReq Htp.Model.MRes Htp.Model.MConnp.
Require Import Htp.Spec.SWire Htp.Proof.PWire Htp.Proof.PWireHdr Htp.Proof.PWireBlock Htp.Proof.PWireConn Htp.Proof.PWireExch.
Require Import Htp.Proof.PWireRun Htp.Proof.PWirePres Htp.Proof.PWireGlue Htp.Proof.PSeg Htp.Proof.PSegLine Htp.Proof.PSegHdr Htp.Proof.PSegGen Htp.Proof.PSegRun.
Require Import Htp.Proof.PSegFold Htp.Proof.PSegPipe Htp.Proof.PSegRes Htp.Proof.PSegResLine Htp.Proof.PSegResHdr Htp.Proof.PSegResGen Htp.Proof.PSegResRun Htp.Proof.PSegResReq Htp.Proof.PSegResThm Htp.Proof.PSegResCanon.
Require Import Htp.Proof.PPair Htp.Proof.PPairLine Htp.Proof.PPairHdr Htp.Proof.PPairRun Htp.Proof.PPairOne Htp.Proof.PPairA Htp.Proof.PPairReq.

(* ================= request processing leaves the response side of the transaction as htp_tx_create made it ================= *)
(* (PSegResCanon.rsp_* for the header table; here with the two length counters) *)
Definition pp_rsp (t : tx) := (t_response_headers t, t_res_header_repetitions t, t_response_message_len t, t_response_entity_len t).

Lemma prs_urldecode g s t : pp_rsp (snd (rq_urldecode_uri g s t)) = pp_rsp t.
Proof. unfold rq_urldecode_uri. destruct (ud_urldecode_from _ _ _ _) as [[o fl] st]. reflexivity. Qed.
Lemma prs_urldecode_opt g s t : pp_rsp (snd (rq_urldecode_uri_opt g s t)) = pp_rsp t.
Proof.
  unfold rq_urldecode_uri_opt. destruct s as [s|]; [|reflexivity].
  pose proof (prs_urldecode g s t) as H. destruct (rq_urldecode_uri g s t) as [o t']. exact H.
Qed.
Lemma prs_normalize_path g p t : pp_rsp (snd (rq_normalize_path g p t)) = pp_rsp t.
Proof.
  unfold rq_normalize_path. destruct (pth_decode_path_st _ _ _) as [p1 st1].
  destruct (if d_bestfit (g_dec_url_path g) then _ else _) as [p2 st2]. reflexivity.
Qed.
Lemma prs_normalize_parsed_uri g raw t : pp_rsp (snd (htp_normalize_parsed_uri g raw t)) = pp_rsp t.
Proof.
  unfold htp_normalize_parsed_uri.
  pose proof (prs_urldecode_opt g (u_user raw) t) as H1. destruct (rq_urldecode_uri_opt g (u_user raw) t) as [user t1]. cbn [snd] in H1.
  pose proof (prs_urldecode_opt g (u_pass raw) t1) as H2. destruct (rq_urldecode_uri_opt g (u_pass raw) t1) as [pass t2]. cbn [snd] in H2.
  pose proof (prs_urldecode_opt g (u_host raw) t2) as H3. destruct (rq_urldecode_uri_opt g (u_host raw) t2) as [host t3]. cbn [snd] in H3.
  destruct (uri_norm_port_opt (u_port raw)) as [pn inv].
  set (t4 := if inv then t3 <| t_flags ::= (fun f => flag_set f c_HTP_HOSTU_INVALID) |> else t3).
  assert (H4 : pp_rsp t4 = pp_rsp t3) by (unfold t4; destruct inv; reflexivity).
  assert (H5 : pp_rsp (snd (match u_path raw with
                            | None => (None, t4)
                            | Some p => let '(o, t) := rq_normalize_path g p t4 in (Some o, t)
                            end)) = pp_rsp t4).
  { destruct (u_path raw) as [p|]; [|reflexivity]. pose proof (prs_normalize_path g p t4) as H. destruct (rq_normalize_path g p t4). exact H. }
  destruct (match u_path raw with None => (None, t4) | Some p => let '(o, t) := rq_normalize_path g p t4 in (Some o, t) end) as [path t5]. cbn [snd] in H5.
  pose proof (prs_urldecode_opt g (u_frag raw) t5) as H6. destruct (rq_urldecode_uri_opt g (u_frag raw) t5) as [frag t6]. cbn [snd] in H6 |- *.
  congruence.
Qed.
Lemma prs_uri_pipeline g is_connect u t t' : rq_uri_pipeline_opt g is_connect (Some u) t = Some t' -> pp_rsp t' = pp_rsp t.
Proof.
  unfold rq_uri_pipeline_opt.
  assert (Hr : exists raw t0, (if is_connect then rq_parse_uri_hostport (t_parsed_uri_raw t) (Some u) t
                               else Some (rq_parse_uri_into (t_parsed_uri_raw t) (Some u), t)) = Some (raw, t0) /\ pp_rsp t0 = pp_rsp t).
  { destruct is_connect.
    - unfold rq_parse_uri_hostport. destruct (parse_hostport u) as [[[hn port] pn] invalid].
      eexists _, _. split; [reflexivity|]. destruct (match hn with Some h => invalid || negb (htp_validate_hostname h) | None => invalid end); reflexivity.
    - eexists _, _. split; reflexivity. }
  destruct Hr as (raw & t0 & Er & K0). rewrite Er.
  set (t1 := t0 <| t_parsed_uri_raw := raw |>).
  assert (Hn : exists nu t2, (match t_parsed_uri t1 with Some nu => (nu, t1) | None => htp_normalize_parsed_uri g raw t1 end) = (nu, t2) /\ pp_rsp t2 = pp_rsp t1).
  { destruct (t_parsed_uri t1) as [nu|].
    - eexists _, _. split; reflexivity.
    - pose proof (prs_normalize_parsed_uri g raw t1) as H. destruct (htp_normalize_parsed_uri g raw t1) as [nu t2]. eexists _, _. split; [reflexivity|exact H]. }
  destruct Hn as (nu & t2 & En & K2). rewrite En. intros E. inversion E. subst t'.
  assert (K : pp_rsp t2 = pp_rsp t) by (rewrite K2; exact K0).
  destruct (u_host nu) as [h|]; [destruct (htp_validate_hostname h)|]; exact K.
Qed.
Lemma prs_parse_request_line g t : pp_rsp (htp_parse_request_line g t) = pp_rsp t.
Proof.
  unfold htp_parse_request_line. cbv zeta.
  repeat match goal with
  | |- context [if ?b then _ else _] => destruct b
  | |- context [match ?x with Some _ => _ | None => _ end] => destruct x
  end; reflexivity.
Qed.
Lemma prs_tx_line g t line : pp_rsp (sg_tx_line g t line) = pp_rsp t.
Proof.
  unfold sg_tx_line. cbv zeta. set (t2 := htp_parse_request_line g (t <| t_request_line := Some line |>)).
  assert (K2 : pp_rsp t2 = pp_rsp t) by (unfold t2; rewrite prs_parse_request_line; reflexivity).
  destruct (t_request_uri t2) as [u|] eqn:Eu.
  - destruct (rq_uri_pipeline_opt g _ (Some u) t2) as [t3|] eqn:E3; [rewrite (prs_uri_pipeline g _ u t2 t3 E3)|]; exact K2.
  - destruct (rq_uri_pipeline_opt g _ None t2) as [t3|] eqn:E3; [|exact K2].
    unfold rq_uri_pipeline_opt in E3. destruct (_ =? c_HTP_M_CONNECT)%Z; [discriminate|].
    cbv zeta in E3. destruct (t_parsed_uri _) as [nu|] in E3.
    + inversion E3. destruct (u_host nu) as [h|]; [destruct (htp_validate_hostname h)|]; exact K2.
    + pose proof (prs_normalize_parsed_uri g (rq_parse_uri_into (t_parsed_uri_raw t2) None) (t2 <| t_parsed_uri_raw := rq_parse_uri_into (t_parsed_uri_raw t2) None |>)) as H.
      destruct (htp_normalize_parsed_uri g _ _) as [nu t4]. cbn [snd] in H. inversion E3.
      destruct (u_host nu) as [h|]; [destruct (htp_validate_hostname h)|]; change (pp_rsp t4 = pp_rsp t); rewrite H; exact K2.
Qed.
Lemma prs_process_request_header line t : pp_rsp (htp_process_request_header_generic line t) = pp_rsp t.
Proof.
  unfold htp_process_request_header_generic. destruct (htp_parse_request_header_generic line) as [h txfl].
  cbn [t_request_headers set]. destruct (rq_hdr_find (t_request_headers t) (h_name h)) as [i|]; [|reflexivity].
  destruct (flag_has _ _ && _); [reflexivity|].
  destruct (flag_has (h_flags (nth i (t_request_headers t) h)) c_HTP_FIELD_REPEATED); reflexivity.
Qed.
Lemma prs_block : forall fs t, pp_rsp (wr_block_tx fs t) = pp_rsp t.
Proof.
  induction fs as [|f fs IH]; intros t; [reflexivity|].
  unfold wr_block_tx. cbn [map fold_left]. fold (wr_block_tx fs (htp_process_request_header_generic (wr_field_line f) t)).
  rewrite IH. apply prs_process_request_header.
Qed.
Lemma prs_te_cl t : pp_rsp (rq_te_cl t) = pp_rsp t.
Proof.
  unfold rq_te_cl, tx_set_flag.
  destruct (rq_hdr_get_c (t_request_headers t) rq_str_transfer_encoding) as [te|]; destruct (rq_hdr_get_c (t_request_headers t) rq_str_content_length_lc) as [cl|].
  - destruct (negb (htp_header_has_token (h_value te) rq_str_chunked)); [reflexivity|]. destruct (t_request_protocol_number t <? c_HTP_PROTOCOL_1_1)%Z; reflexivity.
  - destruct (negb (htp_header_has_token (h_value te) rq_str_chunked)); [reflexivity|]. destruct (t_request_protocol_number t <? c_HTP_PROTOCOL_1_1)%Z; reflexivity.
  - destruct (flag_has (h_flags cl) c_HTP_FIELD_FOLDED); destruct (flag_has (h_flags cl) c_HTP_FIELD_REPEATED);
      destruct (parse_content_length (h_value cl) <? 0)%Z; reflexivity.
  - reflexivity.
Qed.
Lemma prs_host nu t : pp_rsp (rq_host nu t) = pp_rsp t.
Proof. unfold rq_host, tx_set_flag. wr_split_ifs; reflexivity. Qed.
Lemma prs_content_type t : pp_rsp (rq_content_type t) = pp_rsp t.
Proof. unfold rq_content_type. destruct (rq_hdr_get_c _ _); reflexivity. Qed.
Lemma prs_hdr_end t : pp_rsp (sg_hdr_end t) = pp_rsp t.
Proof.
  unfold sg_hdr_end. cbv zeta. rewrite prs_content_type.
  destruct (t_parsed_uri (rq_te_cl t)) as [nu|]; [rewrite prs_host|]; apply prs_te_cl.
Qed.
(* the transaction of a grammar request (PSegRun.sg_tref) has no response header *)
Lemma prs_set_progress t v : pp_rsp (t <| t_request_progress := v |>) = pp_rsp t. Proof. reflexivity. Qed.
Lemma prs_tfin g k r fl : pp_rsp (sg_tfin_r g k r fl) = ([], 0%nat, 0%Z, 0%Z).
Proof.
  unfold sg_tfin_r, sg_tfin. rewrite prs_set_progress, prs_hdr_end.
  assert (E : forall (b : bool) t, pp_rsp (if b then tx_set_flag c_HTP_MULTI_PACKET_HEAD t else t) = pp_rsp t) by (intros [] t; reflexivity).
  rewrite E, prs_block. unfold sg_th0. rewrite prs_set_progress, prs_tx_line. reflexivity.
Qed.

(* ================= response processing keeps the request side of the transaction ================= *)
Definition pp_rq (t : tx) :=
  (t_request_method t, t_request_method_number t, t_request_uri t, t_request_protocol t, t_request_protocol_number t, t_is_protocol_0_9 t,
   t_request_headers t, t_request_progress t).
(* ... and header processing keeps the status line and the counters *)
Definition pp_rl (t : tx) :=
  (t_response_protocol t, t_response_protocol_number t, t_response_status t, t_response_status_number t, t_response_message t,
   t_response_message_len t, t_response_entity_len t).

Lemma prq_process line t : pp_rq (rs_process_response_header line t) = pp_rq t /\ pp_rl (rs_process_response_header line t) = pp_rl t.
Proof.
  unfold rs_process_response_header. destruct (rs_parse_response_header line (t_flags t)) as [h tf].
  cbn [t_response_headers set]. destruct (rs_hdr_find (t_response_headers t) (h_name h)) as [i|]; [|split; reflexivity].
  destruct (flag_has _ _ && _); [split; reflexivity|].
  destruct (flag_has (h_flags (nth i (t_response_headers t) h)) c_HTP_FIELD_REPEATED); split; reflexivity.
Qed.
Lemma prq_flush hdr t : pp_rq (sr_flush hdr t) = pp_rq t /\ pp_rl (sr_flush hdr t) = pp_rl t.
Proof. destruct hdr; [apply prq_process|split; reflexivity]. Qed.
Lemma prq_lstep st l : pp_rq (snd (sr_lstep st l)) = pp_rq (snd st) /\ pp_rl (snd (sr_lstep st l)) = pp_rl (snd st).
Proof.
  unfold sr_lstep. cbn [snd]. destruct (fst l); [apply prq_flush|]. destruct (fst st) as [h|]; [|split; reflexivity].
  destruct (sr_k2 _ h (snd l)); [|split; reflexivity]. destruct (prq_process h (sr_flag_fold (snd st))) as [A B]. rewrite A, B. split; reflexivity.
Qed.
Lemma prq_lrun : forall ls st, pp_rq (sr_lrun ls st) = pp_rq (snd st) /\ pp_rl (sr_lrun ls st) = pp_rl (snd st).
Proof.
  induction ls as [|l ls IH]; intros st.
  - unfold sr_lrun. cbn [fold_left]. apply prq_flush.
  - rewrite sr_lrun_cons. destruct (IH (sr_lstep st l)) as [A B]. destruct (prq_lstep st l) as [C D]. rewrite A, B, C, D. split; reflexivity.
Qed.
Lemma prq_th0 t line : pp_rq (sr_th0 t line) = pp_rq t /\ pp_rsp (sr_th0 t line) = pp_rsp t.
Proof.
  unfold sr_th0, sr_tx_line, sr_line_fix, rs_apply_response_line, sr_tx_start.
  repeat match goal with |- context [if ?b then _ else _] => destruct b end; split; reflexivity.
Qed.
(* the fields of the status line and the header table *)
Definition pp_rh (t : tx) :=
  (t_response_protocol t, t_response_protocol_number t, t_response_status t, t_response_status_number t, t_response_message t, t_response_headers t).
Lemma prq_body_add k t : pp_rq (sr_body_add k t) = pp_rq t /\ pp_rh (sr_body_add k t) = pp_rh t /\
  t_response_message_len (sr_body_add k t) = (Z.of_nat k + t_response_message_len t)%Z /\
  t_response_entity_len (sr_body_add k t) = (Z.of_nat k + t_response_entity_len t)%Z /\ t_response_progress (sr_body_add k t) = t_response_progress t.
Proof. repeat split; reflexivity. Qed.
Lemma prq_body_add' k t : pp_rq (sr_body_add' k t) = pp_rq t /\ pp_rh (sr_body_add' k t) = pp_rh t /\
  t_response_message_len (sr_body_add' k t) = (Z.of_nat k + t_response_message_len t)%Z /\
  t_response_entity_len (sr_body_add' k t) = (Z.of_nat k + t_response_entity_len t)%Z.
Proof. destruct k; [repeat split; reflexivity|]. destruct (prq_body_add (S k) t) as (A & B & C & D & _). repeat split; assumption. Qed.
Lemma prq_hdrs_tx t : pp_rq (sr_hdrs_tx t) = pp_rq t /\ pp_rh (sr_hdrs_tx t) = pp_rh t /\
  t_response_message_len (sr_hdrs_tx t) = t_response_message_len t /\ t_response_entity_len (sr_hdrs_tx t) = t_response_entity_len t.
Proof.
  unfold sr_hdrs_tx, sr_det_tx.
  destruct (rs_hdr_get_c (t_response_headers t) rs_str_content_type) as [hc|];
    destruct (rs_hdr_get_c (t_response_headers t) rs_str_content_length) as [h|]; cbv zeta;
    try destruct (flag_has (h_flags h) c_HTP_FIELD_REPEATED); try destruct (negb (parse_content_length (h_value h) =? 0)%Z);
    repeat split; reflexivity.
Qed.
Lemma prq_tcomplete t : pp_rq (sr_tcomplete t) = pp_rq t /\ pp_rh (sr_tcomplete t) = pp_rh t /\
  t_response_message_len (sr_tcomplete t) = t_response_message_len t /\ t_response_entity_len (sr_tcomplete t) = t_response_entity_len t /\
  t_response_progress (sr_tcomplete t) = c_HTP_RESPONSE_COMPLETE.
Proof. repeat split; reflexivity. Qed.
Lemma prq_after_hdr n t : let t' := sr_after_hdr n t in
  pp_rq t' = pp_rq t /\ pp_rh t' = pp_rh t /\
  t_response_message_len t' = (Z.of_nat n + t_response_message_len t)%Z /\ t_response_entity_len t' = (Z.of_nat n + t_response_entity_len t)%Z /\
  t_response_progress t' = c_HTP_RESPONSE_COMPLETE.
Proof.
  cbv zeta. unfold sr_after_hdr. destruct (prq_hdrs_tx t) as (H1 & H2 & H3 & H4).
  set (TH := sr_hdrs_tx t) in *. clearbody TH.
  set (X := match n with O => TH | S _ => sr_body_add 0 (sr_body_add' n TH) end).
  assert (HX : pp_rq X = pp_rq t /\ pp_rh X = pp_rh t /\ t_response_message_len X = (Z.of_nat n + t_response_message_len t)%Z /\
               t_response_entity_len X = (Z.of_nat n + t_response_entity_len t)%Z).
  { unfold X. destruct n as [|n'].
    - rewrite H1, H2, H3, H4. repeat split; reflexivity.
    - destruct (prq_body_add' (S n') TH) as (B1 & B2 & B3 & B4). destruct (prq_body_add 0 (sr_body_add' (S n') TH)) as (C1 & C2 & C3 & C4 & _).
      rewrite C1, C2, C3, C4, B1, B2, B3, B4, H1, H2, H3, H4. repeat split; try reflexivity; lia. }
  clearbody X. destruct HX as (X1 & X2 & X3 & X4). destruct (prq_tcomplete X) as (T1 & T2 & T3 & T4 & T5).
  rewrite T1, T2, T3, T4, T5, X1, X2, X3, X4. repeat split; reflexivity.
Qed.

(* ================= what a transaction has to say about its response ================= *)
Definition sr_reported (t : tx) (s : wr_response) (body : bytes) : Prop :=
  t_response_protocol t = Some (wp_protocol s) /\ t_response_protocol_number t = wr_protocol_number (wp_protocol s) /\
  t_response_status t = Some (wp_status s) /\ t_response_status_number t = wr_status_value (wp_status s) /\
  t_response_message t = Some (wp_reason s) /\
  t_response_headers t = wr_table (map wr_field_nv (wp_fields s)) /\
  t_response_entity_len t = Z.of_nat (length body) /\ t_response_message_len t = Z.of_nat (length body) /\
  t_response_progress t = c_HTP_RESPONSE_COMPLETE.

Lemma pp_status_range s : wr_status_ok s = true -> (100 <= wr_status_value s <= 999)%Z.
Proof.
  unfold wr_status_ok, wr_status_value. destruct s as [|a [|b [|c [|? ?]]]]; try discriminate. unfold wr_digit. intros H.
  apply andb_prop in H. destruct H as [H Hc]. apply andb_prop in H. destruct H as [H Hb]. apply andb_prop in H. destruct H as [Ha1 Ha2].
  apply andb_prop in Hb. destruct Hb as [Hb1 Hb2]. apply andb_prop in Hc. destruct Hc as [Hc1 Hc2].
  apply N.leb_le in Ha1, Ha2, Hb1, Hb2, Hc1, Hc2. lia.
Qed.
(* the status line as the transaction reports it when the header block starts *)
Lemma pp_th0_line t p s r : wr_wf_status_line p s r = true ->
  let t' := sr_th0 t (wr_ser_status_line p s r) in
  t_response_protocol t' = Some p /\ t_response_protocol_number t' = wr_protocol_number p /\ t_response_status t' = Some s /\
  t_response_status_number t' = wr_status_value s /\ t_response_message t' = Some r.
Proof.
  intros W. cbv zeta. unfold sr_th0, sr_tx_line. rewrite (wr_statusline_roundtrip p s r W).
  unfold wr_wf_status_line in W. apply andb_prop in W. destruct W as [W _]. apply andb_prop in W. destruct W as [Wp Ws].
  pose proof (pp_status_range s Ws) as R.
  assert (Ep : (wr_protocol_number p =? c_HTP_PROTOCOL_INVALID)%Z = false) by (unfold wr_protocol_number; destruct (wr_eqb p wr_http10); reflexivity).
  unfold sr_line_fix, rs_apply_response_line. cbn [t_response_protocol_number t_response_status_number rsl_protocol rsl_protocol_number rsl_status rsl_status_number rsl_message set].
  cbn [t_response_protocol_number set]. 
  assert (Es : (wr_status_value s =? c_HTP_STATUS_INVALID)%Z || (wr_status_value s <? c_HTP_VALID_STATUS_MIN)%Z || (c_HTP_VALID_STATUS_MAX <? wr_status_value s)%Z = false).
  { assert (E1 : (wr_status_value s =? c_HTP_STATUS_INVALID)%Z = false) by (apply Z.eqb_neq; unfold c_HTP_STATUS_INVALID; lia).
    assert (E2 : (wr_status_value s <? c_HTP_VALID_STATUS_MIN)%Z = false) by (apply Z.ltb_ge; unfold c_HTP_VALID_STATUS_MIN; lia).
    assert (E3 : (c_HTP_VALID_STATUS_MAX <? wr_status_value s)%Z = false) by (apply Z.ltb_ge; unfold c_HTP_VALID_STATUS_MAX; lia).
    rewrite E1, E2, E3. reflexivity. }
  cbn. rewrite Ep. cbn. rewrite Es. cbn. repeat split; reflexivity.
Qed.

(* the unfolded header block: every wire line is the first line of a field *)
Lemma pp_lines_whole s : sr_lines s (sr_cuts_whole s) = map (fun f => (true, wr_field_line f)) (wp_fields s).
Proof.
  unfold sr_lines, sr_cuts_whole. induction (wp_fields s) as [|f fs IH]; [reflexivity|].
  cbn [map combine]. unfold sg_block_flat in *. cbn [flat_map]. rewrite IH. reflexivity.
Qed.
Lemma pp_lrun_first : forall (ls : list bytes) hdr t,
  sr_lrun (map (fun l => (true, l)) ls) (hdr, t) = fold_left (fun t l => rs_process_response_header l t) ls (sr_flush hdr t).
Proof.
  induction ls as [|l ls IH]; intros hdr t; [reflexivity|].
  cbn [map]. rewrite sr_lrun_cons. unfold sr_lstep. cbn [fst snd sr_hstep]. rewrite IH. reflexivity.
Qed.

Lemma pp_tuple4 {A B C D} (a a' : A) (b b' : B) (c c' : C) (d d' : D) : (a, b, c, d) = (a', b', c', d') -> a = a' /\ b = b' /\ c = c' /\ d = d'.
Proof. intros H. inversion H. repeat split. Qed.
Lemma pp_tuple6 {A B C D E F} (a a' : A) (b b' : B) (c c' : C) (d d' : D) (e e' : E) (f f' : F) :
  (a, b, c, d, e, f) = (a', b', c', d', e', f') -> a = a' /\ b = b' /\ c = c' /\ d = d' /\ e = e' /\ f = f'.
Proof. intros H. inversion H. repeat split. Qed.
Lemma pp_tuple7 {A B C D E F G} (a a' : A) (b b' : B) (c c' : C) (d d' : D) (e e' : E) (f f' : F) (g g' : G) :
  (a, b, c, d, e, f, g) = (a', b', c', d', e', f', g') -> a = a' /\ b = b' /\ c = c' /\ d = d' /\ e = e' /\ f = f' /\ g = g'.
Proof. intros H. inversion H. repeat split. Qed.

Lemma pp_tfin_reported t0 s body : pp_rsp t0 = ([], 0%nat, 0%Z, 0%Z) -> sr_response_ok s = true -> wr_block_ok (wp_fields s) = true ->
  sr_reported (sr_after_hdr (length body) (sr_tend t0 s (sr_cuts_whole s))) s body.
Proof.
  intros Hp Wr Wb. unfold sr_response_ok in Wr. apply andb_prop in Wr. destruct Wr as [Wl _]. unfold sr_status_ok in Wl. apply andb_prop in Wl. destruct Wl as [Wl _].
  destruct (prq_after_hdr (length body) (sr_tend t0 s (sr_cuts_whole s))) as (_ & A2 & A7 & A8 & A9). cbv zeta in *.
  set (th0 := sr_th0 t0 (sr_line0 s)).
  destruct (pp_th0_line t0 _ _ _ Wl) as (B1 & B2 & B3 & B4 & B5). fold (sr_line0 s) in B1, B2, B3, B4, B5. fold th0 in B1, B2, B3, B4, B5.
  destruct (prq_th0 t0 (sr_line0 s)) as [_ C]. fold th0 in C. rewrite Hp in C.
  assert (Et : sr_tend t0 s (sr_cuts_whole s) = fold_left (fun t l => rs_process_response_header l t) (map (fun f => wr_field_line f ++ []) (wp_fields s)) th0).
  { unfold sr_tend. fold th0. rewrite pp_lines_whole.
    assert (E : map (fun f => (true, wr_field_line f)) (wp_fields s) = map (fun l => (true, l)) (map (fun f => wr_field_line f ++ []) (wp_fields s))).
    { rewrite map_map. apply map_ext. intros f. rewrite app_nil_r. reflexivity. }
    rewrite E, pp_lrun_first. reflexivity. }
  assert (L : pp_rl (sr_tend t0 s (sr_cuts_whole s)) = pp_rl th0) by (unfold sr_tend; fold th0; apply (prq_lrun (sr_lines s (sr_cuts_whole s)) (None, th0))).
  clearbody th0.
  unfold pp_rsp in C. destruct (pp_tuple4 _ _ _ _ _ _ _ _ C) as (C1 & C2 & C3 & C4).
  destruct (wr_res_header_block (wp_fields s) [] th0 Wb eq_refl C1 C2) as (D1 & _). cbv zeta in D1. rewrite <- Et in D1.
  set (TE := sr_tend t0 s (sr_cuts_whole s)) in *. clearbody TE.
  unfold pp_rl in L. destruct (pp_tuple7 _ _ _ _ _ _ _ _ _ _ _ _ _ _ L) as (L1 & L2 & L3 & L4 & L5 & L6 & L7).
  set (TF := sr_after_hdr (length body) TE) in *. clearbody TF.
  unfold pp_rh in A2. destruct (pp_tuple6 _ _ _ _ _ _ _ _ _ _ _ _ A2) as (E1 & E2 & E3 & E4 & E5 & E6).
  unfold sr_reported. rewrite E1, E2, E3, E4, E5, E6, A7, A8, A9, L1, L2, L3, L4, L5, L6, L7, B1, B2, B3, B4, B5, C3, C4, D1.
  repeat split; try reflexivity; lia.
Qed.

(* ================= an exchange on the grammar ================= *)
Record pp_xc := mk_pp_xc { xq : wr_request; xs : wr_response; xcuts : list (list bytes); xbody : bytes }.
(* the request: grammar, method known to the library, limits (PSegPipe.sg_req_ok); the response: grammar, folding, limits,
   Content-Length framing decided on the grammar (PSegResCanon.sr_framed_g) *)
Definition pp_xc_ok (g : cfg) (x : pp_xc) : bool :=
  sg_req_ok g (xq x) && sr_response_ok (xs x) && sr_cuts_ok (xs x) (xcuts x) && sr_framed_g (xq x) (xs x) (xcuts x) (xbody x) && sr_fits g (xs x) (xcuts x).
Definition pp_xwire (x : pp_xc) : bytes := sr_wire (xs x) (xcuts x) (xbody x).
(* the exchange as the response side sees it, for the transaction the request left (k = its number, fl = HTP_MULTI_PACKET_HEAD) *)
Definition pp_ex_of (g : cfg) (k : nat) (fl : bool) (x : pp_xc) : pp_ex := mk_pp_ex (sg_tfin_r g k (xq x) fl) (xs x) (xcuts x) (xbody x).

Lemma pp_ex_of_ok g k fl x : g_allow_space_uri g = false -> pp_xc_ok g x = true -> pp_ex_ok g (pp_ex_of g k fl x).
Proof.
  intros Hsp H. unfold pp_xc_ok in H. apply andb_prop in H. destruct H as [H Hfit]. apply andb_prop in H. destruct H as [H Hfr].
  apply andb_prop in H. destruct H as [H Wc]. apply andb_prop in H. destruct H as [Hq Wr].
  destruct (sg_req_ok_parts g (xq x) Hq) as (Wq & _).
  pose proof (sg_tfin_reported g k (xq x) fl Hsp Wq) as Rep. fold (sg_tfin_r g k (xq x) fl) in Rep.
  unfold wr_reported in Rep. destruct Rep as (_ & Hm & _ & _ & _ & H09 & _ & Hreq).
  unfold pp_ex_ok, pp_ex_of. cbn [px_t0 px_res px_cuts px_body].
  split; [exact H09|]. split; [exact Hreq|]. split; [exact Wr|]. split; [exact Wc|]. split; [|exact Hfit].
  unfold sr_framed_g in Hfr. rewrite <- Hfr. apply sim_frame_ok. unfold sr_tend. apply sim_lrun; [reflexivity|]. cbn [snd].
  apply sim_th0.
  - exact Hm.
  - pose proof (prs_tfin g k (xq x) fl) as P. unfold pp_rsp in P. unfold sr_rsp. destruct (pp_tuple4 _ _ _ _ _ _ _ _ P) as (P1 & P2 & _ & _). rewrite P1, P2. reflexivity.
Qed.

Lemma pp_build g : forall (xl : list pp_xc) done, pq_rep g done (map xq xl) ->
  exists es, done = map (fun e => Some (px_t0 e)) es /\ Forall2 (fun e x => exists k fl, e = pp_ex_of g k fl x) es xl.
Proof.
  induction xl as [|x xl IH]; intros done R; cbn [map] in R; inversion R as [|slot r done' rs' (k & fl & Es) R' E1 E2]; subst.
  - exists []. split; [reflexivity|constructor].
  - destruct (IH done' R') as (es & Ed & F). exists (pp_ex_of g k fl x :: es). split; [cbn [map px_t0 pp_ex_of]; rewrite Ed; reflexivity|].
    constructor; [exists k, fl; reflexivity|exact F].
Qed.

(* ================= Stage A: requests in any chunking, then every response in one chunk ================= *)
Theorem pp_pairing_aligned : forall cb g (xl : list pp_xc) (qchunks : list bytes),
  wr_all_ok cb -> g_allow_space_uri g = false -> (g_max_tx g = 0 \/ length xl < g_max_tx g)%nat ->
  forallb (pp_xc_ok g) xl = true -> Forall (fun c => c <> []) qchunks -> concat qchunks = concat (map (fun x => wr_request_wire (xq x)) xl) ->
  Forall2 (fun slot x => exists k fl, slot = pr_slot g (pp_tfin (pp_ex_of g k fl x)))
          (c_txs (fst (cp_run cb g connp_new (OpOpen :: map OpReqData qchunks ++ map (fun x => OpResData (pp_xwire x)) xl)))) xl.
Proof.
  intros cb g xl qchunks Hcb Hsp Hmax Hok Hall Hc.
  assert (Hokq : Forall (fun r => sg_req_ok g r = true) (map xq xl)).
  { apply Forall_forall. intros r Hin. apply in_map_iff in Hin. destruct Hin as (x & Ex & Hin). subst r.
    rewrite forallb_forall in Hok. specialize (Hok x Hin). unfold pp_xc_ok in Hok. do 4 (apply andb_prop in Hok; destruct Hok as [Hok _]). exact Hok. }
  assert (Hc' : concat qchunks = concat (map wr_request_wire (map xq xl))) by (rewrite map_map; exact Hc).
  assert (Hmax' : (g_max_tx g = 0 \/ length (map xq xl) < g_max_tx g)%nat) by (rewrite map_length; exact Hmax).
  destruct (pq_after_requests cb g (map xq xl) qchunks Hcb Hsp Hmax' Hokq Hall Hc') as (Hm & R & F). cbv zeta in Hm, R, F.
  change (OpOpen :: map OpReqData qchunks ++ map (fun x => OpResData (pp_xwire x)) xl) with ((OpOpen :: map OpReqData qchunks) ++ map (fun x => OpResData (pp_xwire x)) xl).
  rewrite sr_run_app. set (cF := fst (cp_run cb g connp_new (OpOpen :: map OpReqData qchunks))) in *.
  destruct (pp_build g xl (c_txs cF) R) as (es & Ed & F2).
  assert (Hr : pr_rest cF ([] ++ map (fun e => Some (px_t0 e)) es) (length (@nil (option tx)))).
  { unfold sr_fr, pq_base in F.
    assert (G : c_out_status cF = c_HTP_STREAM_OPEN /\ c_out_state cF = RES_IDLE /\ c_out cF = cursor_new /\ c_out_next_tx_index cF = 0%nat /\
                c_txs_shifted cF = 0%nat /\ c_out_data_other_at_tx_end cF = false) by (repeat split; congruence).
    destruct G as (G1 & G2 & G3 & G4 & G5 & G6).
    constructor; rewrite ?G3; try assumption; try reflexivity.
    - rewrite G1. left. reflexivity.
    - exact (im_tx _ _ _ Hm). }
  assert (Eops : map (fun x => OpResData (pp_xwire x)) xl = map (fun e => OpResData (pp_wire e)) es).
  { clear - F2. induction F2 as [|e x es xl (k & fl & Ee) F2 IH]; [reflexivity|]. cbn [map]. rewrite IH, Ee. reflexivity. }
  rewrite Eops.
  assert (Hoks : Forall (pp_ex_ok g) es).
  { clear - F2 Hok Hsp. induction F2 as [|e x es xl (k & fl & Ee) F2 IH]; [constructor|]. cbn [forallb] in Hok. apply andb_prop in Hok. destruct Hok as [H1 H2].
    constructor; [rewrite Ee; apply pp_ex_of_ok; assumption|apply IH; exact H2]. }
  pose proof (pp_aligned_run cb g Hcb es [] cF Hoks Hr) as Hfin. rewrite (py_txs _ _ _ Hfin). cbn [app].
  clear - F2. induction F2 as [|e x es xl (k & fl & Ee) F2 IH]; [constructor|]. cbn [map]. constructor; [exists k, fl; rewrite Ee; reflexivity|exact IH].
Qed.

(* the same in the vocabulary of the property: transaction i reports request i (up to HTP_MULTI_PACKET_HEAD, which depends on the
   chunking of the requests) and carries response i.  Header fields one line each (a folded block is reported as the model's
   own fold says -- PSegResHdr.sr_lrun -- which differs from the table of the grammar for the known finding K2 only) *)
Definition pp_plain (x : pp_xc) : Prop := xcuts x = sr_cuts_whole (xs x) /\ wr_block_ok (wp_fields (xs x)) = true.
Lemma pp_tfin_facts g k fl x : g_allow_space_uri g = false -> pp_xc_ok g x = true -> pp_plain x ->
  wr_reported (sg_mask (pp_tfin (pp_ex_of g k fl x))) (xq x) /\ sr_reported (pp_tfin (pp_ex_of g k fl x)) (xs x) (xbody x).
Proof.
  intros Hsp H [Ec Wb]. pose proof H as H0. unfold pp_xc_ok in H. apply andb_prop in H. destruct H as [H Hfit]. apply andb_prop in H. destruct H as [H Hfr].
  apply andb_prop in H. destruct H as [H Wc]. apply andb_prop in H. destruct H as [Hq Wr].
  destruct (sg_req_ok_parts g (xq x) Hq) as (Wq & _).
  unfold pp_tfin, pp_ex_of. cbn [px_t0 px_res px_cuts px_body]. split.
  - pose proof (sg_tfin_reported g k (xq x) fl Hsp Wq) as Rep. fold (sg_tfin_r g k (xq x) fl) in Rep.
    set (t0 := sg_tfin_r g k (xq x) fl) in *. clearbody t0.
    destruct (prq_after_hdr (length (xbody x)) (sr_tend t0 (xs x) (xcuts x))) as (A & _). cbv zeta in A.
    assert (B : pp_rq (sr_tend t0 (xs x) (xcuts x)) = pp_rq t0).
    { unfold sr_tend. destruct (prq_lrun (sr_lines (xs x) (xcuts x)) (None, sr_th0 t0 (sr_line0 (xs x)))) as [B1 _]. rewrite B1. cbn [snd]. apply prq_th0. }
    rewrite B in A. set (tf := sr_after_hdr (length (xbody x)) (sr_tend t0 (xs x) (xcuts x))) in *. clearbody tf.
    unfold pp_rq in A. unfold wr_reported in *. cbn [sg_mask t_request_method t_request_method_number t_request_uri t_request_protocol t_request_protocol_number
      t_is_protocol_0_9 t_request_headers t_request_progress set] in *.
    assert (A' : t_request_method tf = t_request_method t0 /\ t_request_method_number tf = t_request_method_number t0 /\ t_request_uri tf = t_request_uri t0 /\
                 t_request_protocol tf = t_request_protocol t0 /\ t_request_protocol_number tf = t_request_protocol_number t0 /\
                 t_is_protocol_0_9 tf = t_is_protocol_0_9 t0 /\ t_request_headers tf = t_request_headers t0 /\ t_request_progress tf = t_request_progress t0)
      by (repeat split; congruence).
    destruct A' as (A1 & A2 & A3 & A4 & A5 & A6 & A7 & A8). destruct Rep as (R1 & R2 & R3 & R4 & R5 & R6 & R7 & R8).
    repeat split; congruence.
  - rewrite Ec. apply pp_tfin_reported; [apply prs_tfin|exact Wr|exact Wb].
Qed.

Theorem pp_pairing_aligned_reported : forall cb g (xl : list pp_xc) (qchunks : list bytes),
  wr_all_ok cb -> g_allow_space_uri g = false -> g_tx_auto_destroy g = false -> (g_max_tx g = 0 \/ length xl < g_max_tx g)%nat ->
  forallb (pp_xc_ok g) xl = true -> Forall pp_plain xl -> Forall (fun c => c <> []) qchunks -> concat qchunks = concat (map (fun x => wr_request_wire (xq x)) xl) ->
  Forall2 (fun slot x => exists t, slot = Some t /\ wr_reported (sg_mask t) (xq x) /\ sr_reported t (xs x) (xbody x))
          (c_txs (fst (cp_run cb g connp_new (OpOpen :: map OpReqData qchunks ++ map (fun x => OpResData (pp_xwire x)) xl)))) xl.
Proof.
  intros cb g xl qchunks Hcb Hsp Had Hmax Hok Hpl Hall Hc.
  pose proof (pp_pairing_aligned cb g xl qchunks Hcb Hsp Hmax Hok Hall Hc) as P.
  set (l := c_txs _) in *. clearbody l. clear Hmax Hc Hall. revert Hok Hpl. induction P as [|slot x l xl (k & fl & Es) P IH]; intros Hok Hpl; [constructor|].
  cbn [forallb] in Hok. apply andb_prop in Hok. destruct Hok as [H1 H2].
  constructor; [|apply IH; [exact H2|exact (Forall_inv_tail Hpl)]].
  exists (pp_tfin (pp_ex_of g k fl x)). split; [rewrite Es; unfold pr_slot; rewrite Had; reflexivity|].
  apply pp_tfin_facts; [exact Hsp|exact H1|exact (Forall_inv Hpl)].
Qed.

(* ================= non-vacuity and the vm_compute harness: three exchanges ================= *)
(* GET /1 HTTP/1.1 (3 fields) -> 200 OK, X-A / Content-Length 3 / x-a, body abc;  GET /1 HTTP/1.0 -> 404 Not Found, Content-Length 0;
   POST /2 HTTP/1.1 -> 200 OK with folded header fields (one continuation line contains ':'), Content-Length 3, body CR a b *)
Definition pp_ex_rs2 : wr_response := mk_wr_response wr_http10 [52;48;52]%N [78;111;116;32;70;111;117;110;100]%N [mk_wr_field sr_str_CL [SP] [48]%N []].
Definition pp_ex3 : list pp_xc :=
  [mk_pp_xc wr_ex_req sr_ex1 (sr_cuts_whole sr_ex1) sr_ex1_body; mk_pp_xc sg_ex_req0 pp_ex_rs2 (sr_cuts_whole pp_ex_rs2) []; mk_pp_xc sg_ex_req2 sr_ex2 sr_ex2_cuts sr_ex2_body].
(* the same with the third response unfolded: the form in which the header table is the one of the grammar *)
Definition pp_ex3u : list pp_xc :=
  [mk_pp_xc wr_ex_req sr_ex1 (sr_cuts_whole sr_ex1) sr_ex1_body; mk_pp_xc sg_ex_req0 pp_ex_rs2 (sr_cuts_whole pp_ex_rs2) []; mk_pp_xc sg_ex_req2 sr_ex2 (sr_cuts_whole sr_ex2) sr_ex2_body].
Definition pp_ex_qwire (xl : list pp_xc) : bytes := concat (map (fun x => wr_request_wire (xq x)) xl).
Definition pp_ex_swire (xl : list pp_xc) : bytes := concat (map pp_xwire xl).
Example pp_ex3_premises :
  forallb (pp_xc_ok (sg_ex_cfg 18000)) pp_ex3 = true /\ forallb (pp_xc_ok (sg_ex_cfg 18000)) pp_ex3u = true /\
  (g_max_tx (sg_ex_cfg 18000) = 0 \/ length pp_ex3 < g_max_tx (sg_ex_cfg 18000))%nat /\ g_tx_auto_destroy (sg_ex_cfg 18000) = false /\
  length (pp_ex_qwire pp_ex3) = 99%nat /\ length (pp_ex_swire pp_ex3) = 162%nat.
Proof. split; [vm_compute; reflexivity|]. split; [vm_compute; reflexivity|]. split; [right; vm_compute; lia|]. split; vm_compute; split; reflexivity. Qed.
Example pp_ex3u_plain : Forall pp_plain pp_ex3u.
Proof. repeat constructor; vm_compute; reflexivity. Qed.
(* what is observed of a transaction: method, URI, request progress / status number, reason, number of response headers, entity and message length, response progress *)
Definition pp_obs (c : connp) :=
  map (option_map (fun t => (t_request_method t, t_request_uri t, t_request_progress t, t_response_status_number t, t_response_message t,
                             length (t_response_headers t), t_response_entity_len t, t_response_message_len t, t_response_progress t))) (c_txs c).
Definition pp_run (qch sch : list bytes) : connp := fst (cp_run sg_ex_ok (sg_ex_cfg 18000) connp_new (OpOpen :: map OpReqData qch ++ map OpResData sch)).
(* the statement evaluated (before it was proved): message-aligned chunks on both sides, and the requests byte by byte *)
Example pp_ex3_aligned_runs :
  pp_obs (pp_run (map (fun x => wr_request_wire (xq x)) pp_ex3) (map pp_xwire pp_ex3)) =
    [Some (Some [71;69;84], Some [47;49], c_HTP_REQUEST_COMPLETE, 200%Z, Some [79;75], 2%nat, 3%Z, 3%Z, c_HTP_RESPONSE_COMPLETE);
     Some (Some [71;69;84], Some [47;49], c_HTP_REQUEST_COMPLETE, 404%Z, Some [78;111;116;32;70;111;117;110;100], 1%nat, 0%Z, 0%Z, c_HTP_RESPONSE_COMPLETE);
     Some (Some [80;79;83;84], Some [47;50], c_HTP_REQUEST_COMPLETE, 200%Z, Some [79;75], 3%nat, 3%Z, 3%Z, c_HTP_RESPONSE_COMPLETE)]%N /\
  pp_obs (pp_run (sg_bytewise (pp_ex_qwire pp_ex3)) (map pp_xwire pp_ex3)) = pp_obs (pp_run (map (fun x => wr_request_wire (xq x)) pp_ex3) (map pp_xwire pp_ex3)) /\
  pp_obs (pp_run [pp_ex_qwire pp_ex3] (map pp_xwire pp_ex3)) = pp_obs (pp_run (map (fun x => wr_request_wire (xq x)) pp_ex3) (map pp_xwire pp_ex3)).
Proof. split; [vm_compute; reflexivity|]. split; vm_compute; reflexivity. Qed.
(* the reference transaction of the theorem is the one the model computes (first exchange: transaction number 0, no HTP_MULTI_PACKET_HEAD) *)
Example pp_ex3_reference :
  nth_error (c_txs (pp_run (map (fun x => wr_request_wire (xq x)) pp_ex3) (map pp_xwire pp_ex3))) 0 =
  Some (pr_slot (sg_ex_cfg 18000) (pp_tfin (pp_ex_of (sg_ex_cfg 18000) 0 false (mk_pp_xc wr_ex_req sr_ex1 (sr_cuts_whole sr_ex1) sr_ex1_body)))).
Proof. vm_compute. reflexivity. Qed.

(* ================= THEOREMS (Stage A) =================
   pp_pairing_aligned           c_txs after  OpOpen :: map OpReqData qchunks ++ map (fun x => OpResData (pp_xwire x)) xl  is, slot by slot,
                                pr_slot g (pp_tfin (pp_ex_of g k fl x))  -- the transaction request i left, run through response i (ALL fields)
   pp_pairing_aligned_reported  ... = Some t with wr_reported (sg_mask t) (xq x) /\ sr_reported t (xs x) (xbody x)
   premises: wr_all_ok cb, g_allow_space_uri g = false, g_max_tx g = 0 \/ length xl < g_max_tx g, forallb (pp_xc_ok g) xl = true,
             qchunks = ANY chunking into non-empty chunks of the concatenated request wires; one chunk per response;
             _reported: g_tx_auto_destroy g = false, Forall pp_plain xl (fields one line each, wr_block_ok) *)
Print Assumptions pp_pairing_aligned.
Print Assumptions pp_pairing_aligned_reported.
