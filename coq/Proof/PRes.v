(* First invariants of the response-direction model (MRes.v), each for EVERY configuration, callback oracle,
   parser state and input. *)
Require Import Htp.Model.MConnTypes Htp.Model.MTxCommon Htp.Model.MBstr Htp.Model.MResLine Htp.Model.MTxRes Htp.Model.MRes.
Local Open Scope Z_scope.

Definition rs_blen (c : connp) : nat := match k_buf (c_out c) with Some b => length b | None => 0%nat end.
Definition rs_hlen (c : connp) : nat := match k_header (c_out c) with Some h => length h | None => 0%nat end.

(* ---- res_buffer_bounded ----
   htp_connp_res_buffer either leaves the parser untouched (NULL chunk: nothing to copy) or, when it returns HTP_OK,
   the buffered bytes plus the pending header fit the hard limit; and it is the identity on everything but the
   out cursor (and the fault bit). *)
Lemma rs_res_buffer_null g c : k_data (c_out c) = None -> rs_res_buffer g c = (ST_OK, c).
Proof. intros H. unfold rs_res_buffer. rewrite H. reflexivity. Qed.

Theorem res_buffer_bounded g c c' :
  rs_res_buffer g c = (ST_OK, c') ->
  k_data (c_out c) <> None ->
  (rs_blen c' + rs_hlen c' <= g_field_limit_hard g)%nat.
Proof.
  unfold rs_res_buffer. intros H Hd.
  destruct (k_data (c_out c)) as [d|] eqn:Ed; [|congruence].
  set (c1 := if (k_read (c_out c) <? k_consume (c_out c))%nat then rs_fault c else c) in H.
  set (c2 := match c_out_tx c1 with None => rs_fault c1 | Some _ => c1 end) in H.
  destruct (g_field_limit_hard g <? _)%nat eqn:El in H; [discriminate|].
  inversion H; subst c'; clear H.
  apply Nat.ltb_ge in El.
  assert (Ho : c_out c2 = c_out c).
  { subst c2 c1. destruct (k_read (c_out c) <? k_consume (c_out c))%nat; cbn;
      repeat match goal with |- context [match ?x with _ => _ end] => destruct x end; reflexivity. }
  unfold rs_blen, rs_hlen, rs_set_out. cbn. rewrite Ho. cbn.
  destruct (k_buf (c_out c)) as [b|]; destruct (k_header (c_out c)) as [h|]; cbn in *;
    rewrite ?app_length in *; lia.
Qed.

(* the combined form: after HTP_OK, bounded or nothing was touched *)
Corollary res_buffer_bounded_or_id g c c' :
  rs_res_buffer g c = (ST_OK, c') ->
  (rs_blen c' + rs_hlen c' <= g_field_limit_hard g)%nat \/ c' = c.
Proof.
  intros H. destruct (k_data (c_out c)) eqn:E.
  - left. eapply res_buffer_bounded; eauto. congruence.
  - right. rewrite rs_res_buffer_null in H by assumption. congruence.
Qed.

(* ---- res_data_rc_documented ---- *)
Definition rs_documented (rc : Z) : Prop :=
  rc = c_HTP_STREAM_DATA \/ rc = c_HTP_STREAM_DATA_OTHER \/ rc = c_HTP_STREAM_ERROR \/ rc = c_HTP_STREAM_STOP \/
  rc = c_HTP_STREAM_TUNNEL \/ rc = c_HTP_STREAM_CLOSED.

Ltac doc := unfold rs_documented; cbn [snd]; tauto.

Lemma rs_res_exit_documented cb g rc c : rs_documented (snd (rs_res_exit cb g rc c)).
Proof.
  unfold rs_res_exit.
  destruct rc; cbn [snd]; try doc;
    repeat match goal with
           | |- context [rs_res_buffer ?a ?b] => destruct (rs_res_buffer a b) as [[] ?]
           | |- context [if ?b then _ else _] => destruct b
           end; doc.
Qed.

Lemma rs_res_loop_documented cb g fuel gap c : rs_documented (snd (rs_res_loop cb g fuel gap c)).
Proof.
  revert c. induction fuel as [|f IH]; intros c; cbn [rs_res_loop].
  - doc.
  - destruct (gap && _ && _)%bool; [doc|].
    destruct (if (gap && _)%bool then _ else _) as [rc c1].
    destruct rc; try apply rs_res_exit_documented.
    destruct (c_out_status c1 =? c_HTP_STREAM_TUNNEL); [doc|].
    destruct (rs_handle_state_change cb c1) as [rc2 c2].
    destruct rc2; try apply rs_res_exit_documented. apply IH.
Qed.

Theorem res_data_rc_documented cb g data len c : rs_documented (snd (connp_res_data cb g data len c)).
Proof.
  unfold connp_res_data.
  destruct (c_out_status c =? c_HTP_STREAM_STOP); [doc|].
  destruct (c_out_status c =? c_HTP_STREAM_ERROR); [doc|].
  destruct (match c_out_tx c with None => _ | Some _ => _ end); [doc|].
  destruct ((len =? 0)%nat && _)%bool; [doc|].
  match goal with |- context [if ?b then _ else _] => destruct b end; [doc|].
  apply rs_res_loop_documented.
Qed.

(* ---- res_data_sticky ----
   once the direction is in STOP or ERROR, a data call returns that code and changes NOTHING: no event is emitted,
   no field of the parser (state, transactions, cursor, counters) moves. *)
Theorem res_data_sticky cb g data len c :
  c_out_status c = c_HTP_STREAM_STOP \/ c_out_status c = c_HTP_STREAM_ERROR ->
  connp_res_data cb g data len c = (c, c_out_status c).
Proof.
  intros [H|H]; unfold connp_res_data; rewrite H.
  - rewrite Z.eqb_refl. reflexivity.
  - replace (c_HTP_STREAM_ERROR =? c_HTP_STREAM_STOP) with false by reflexivity.
    rewrite Z.eqb_refl. reflexivity.
Qed.

Corollary res_data_sticky_no_event cb g data len c :
  c_out_status c = c_HTP_STREAM_STOP \/ c_out_status c = c_HTP_STREAM_ERROR ->
  c_events (fst (connp_res_data cb g data len c)) = c_events c /\
  c_out_state (fst (connp_res_data cb g data len c)) = c_out_state c /\
  c_out_status (fst (connp_res_data cb g data len c)) = c_out_status c /\
  snd (connp_res_data cb g data len c) = c_out_status c.
Proof. intros H. rewrite (res_data_sticky cb g data len c H). cbn. auto. Qed.
