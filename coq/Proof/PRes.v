(* First invariants of the response-direction model (MRes.v), each for EVERY configuration, callback oracle,
   parser state and input. *)
Require Import Htp.Model.MConnTypes Htp.Model.MTxCommon Htp.Model.MBstr Htp.Model.MResLine Htp.Model.MTxRes Htp.Model.MRes.
Local Open Scope Z_scope.

Definition rs_blen (c : connp) : nat := match k_buf (c_out c) with Some b => length b | None => 0%nat end.
Definition rs_hlen (c : connp) : nat := match k_header (c_out c) with Some h => length h | None => 0%nat end.

(* ---- res_buffer_bounded ----
   htp_connp_res_buffer either leaves the parser untouched (NULL chunk: nothing to copy) or, when it returns HTP_OK,
   the buffered bytes plus the pending header fit the hard limit; and it is the identity on everything but the
   out cursor (and the fault bit). *)
Lemma rs_res_buffer_null g c : k_data (c_out c) = None -> rs_res_buffer g c = (ST_OK, c).
Proof. intros H. unfold rs_res_buffer. rewrite H. reflexivity. Qed.

Theorem res_buffer_bounded g c c' :
  rs_res_buffer g c = (ST_OK, c') ->
  k_data (c_out c) <> None ->
  (rs_blen c' + rs_hlen c' <= g_field_limit_hard g)%nat.
Proof.
  unfold rs_res_buffer. intros H Hd.
  destruct (k_data (c_out c)) as [d|] eqn:Ed; [|congruence].
  set (c1 := if (k_read (c_out c) <? k_consume (c_out c))%nat then rs_fault c else c) in H.
  set (c2 := match c_out_tx c1 with None => rs_fault c1 | Some _ => c1 end) in H.
  destruct (g_field_limit_hard g <? _)%nat eqn:El in H; [discriminate|].
  inversion H; subst c'; clear H.
  apply Nat.ltb_ge in El.
  assert (Ho : c_out c2 = c_out c).
  { subst c2 c1. destruct (k_read (c_out c) <? k_consume (c_out c))%nat; cbn;
      repeat match goal with |- context [match ?x with _ => _ end] => destruct x end; reflexivity. }
  unfold rs_blen, rs_hlen, rs_set_out. cbn. rewrite Ho. cbn.
  destruct (k_buf (c_out c)) as [b|]; destruct (k_header (c_out c)) as [h|]; cbn in *;
    rewrite ?app_length in *; lia.
Qed.

(* the combined form: after HTP_OK, bounded or nothing was touched *)
Corollary res_buffer_bounded_or_id g c c' :
  rs_res_buffer g c = (ST_OK, c') ->
  (rs_blen c' + rs_hlen c' <= g_field_limit_hard g)%nat \/ c' = c.
Proof.
  intros H. destruct (k_data (c_out c)) eqn:E.
  - left. eapply res_buffer_bounded; eauto. congruence.
  - right. rewrite rs_res_buffer_null in H by assumption. congruence.
Qed.

(* ---- res_data_rc_documented ---- *)
Definition rs_documented (rc : Z) : Prop :=
  rc = c_HTP_STREAM_DATA \/ rc = c_HTP_STREAM_DATA_OTHER \/ rc = c_HTP_STREAM_ERROR \/ rc = c_HTP_STREAM_STOP \/
  rc = c_HTP_STREAM_TUNNEL \/ rc = c_HTP_STREAM_CLOSED.

Ltac doc := unfold rs_documented; cbn [snd]; tauto.

Lemma rs_res_exit_documented cb g rc c : rs_documented (snd (rs_res_exit cb g rc c)).
Proof.
  unfold rs_res_exit.
  destruct rc; cbn [snd]; try doc;
    repeat match goal with
           | |- context [rs_res_buffer ?a ?b] => destruct (rs_res_buffer a b) as [[] ?]
           | |- context [if ?b then _ else _] => destruct b
           end; doc.
Qed.

Lemma rs_res_loop_documented cb g fuel gap c : rs_documented (snd (rs_res_loop cb g fuel gap c)).
Proof.
  revert c. induction fuel as [|f IH]; intros c; cbn [rs_res_loop].
  - doc.
  - destruct (gap && _ && _)%bool; [doc|].
    destruct (if (gap && _)%bool then _ else _) as [rc c1].
    destruct rc; try apply rs_res_exit_documented.
    destruct (c_out_status c1 =? c_HTP_STREAM_TUNNEL); [doc|].
    destruct (rs_handle_state_change cb c1) as [rc2 c2].
    destruct rc2; try apply rs_res_exit_documented. apply IH.
Qed.

Theorem res_data_rc_documented cb g data len c : rs_documented (snd (connp_res_data cb g data len c)).
Proof.
  unfold connp_res_data.
  destruct (c_out_status c =? c_HTP_STREAM_STOP); [doc|].
  destruct (c_out_status c =? c_HTP_STREAM_ERROR); [doc|].
  destruct (match c_out_tx c with None => _ | Some _ => _ end); [doc|].
  destruct ((len =? 0)%nat && _)%bool; [doc|].
  match goal with |- context [if ?b then _ else _] => destruct b end; [doc|].
  apply rs_res_loop_documented.
Qed.

(* ---- res_data_sticky ----
   once the direction is in STOP or ERROR, a data call returns that code and changes NOTHING: no event is emitted,
   no field of the parser (state, transactions, cursor, counters) moves. *)
Theorem res_data_sticky cb g data len c :
  c_out_status c = c_HTP_STREAM_STOP \/ c_out_status c = c_HTP_STREAM_ERROR ->
  connp_res_data cb g data len c = (c, c_out_status c).
Proof.
  intros [H|H]; unfold connp_res_data; rewrite H.
  - rewrite Z.eqb_refl. reflexivity.
  - replace (c_HTP_STREAM_ERROR =? c_HTP_STREAM_STOP) with false by reflexivity.
    rewrite Z.eqb_refl. reflexivity.
Qed.

Corollary res_data_sticky_no_event cb g data len c :
  c_out_status c = c_HTP_STREAM_STOP \/ c_out_status c = c_HTP_STREAM_ERROR ->
  c_events (fst (connp_res_data cb g data len c)) = c_events c /\
  c_out_state (fst (connp_res_data cb g data len c)) = c_out_state c /\
  c_out_status (fst (connp_res_data cb g data len c)) = c_out_status c /\
  snd (connp_res_data cb g data len c) = c_out_status c.
Proof. intros H. rewrite (res_data_sticky cb g data len c H). cbn. auto. Qed.

(* ======================================================================
   res_data_data_means_all and the invariant it needs.
   HTP_STREAM_DATA is returned only when the whole chunk has been consumed, PROVIDED the two counted body states
   are entered with something to count (rs_S: RES_BODY_CHUNKED_DATA with out_chunked_length > 0,
   RES_BODY_IDENTITY_CL_KNOWN with out_body_data_left <> 0; without it both state functions return HTP_DATA
   without consuming, in the C as in the model) and the caller's length is the length of its chunk (rs_chunk_ok).
   rs_S holds initially (rs_S_new) and is preserved by every data call (res_data_keeps_S).
   Shape: frame lemmas (rs_geo: nothing outside htp_response.c touches the response cursor geometry, state,
   out_chunked_length, out_body_data_left, out_status), one lemma per state function (rs_okres), the loop, the
   entry point.
   ====================================================================== *)

Definition rs_geo (c : connp) :=
  (k_data (c_out c), k_len (c_out c), k_read (c_out c), c_out_state c, c_out_chunked_length c, c_out_body_data_left c,
   c_out_status c).

Ltac brk := repeat match goal with
  | |- context [match ?x with _ => _ end] => destruct x eqn:?
  | |- context [if ?b then _ else _] => destruct b eqn:?
  end.

Lemma geo_tx_put c i t : rs_geo (tx_put c i t) = rs_geo c.
Proof. unfold tx_put. brk; reflexivity. Qed.
Lemma geo_tx_upd c i f : rs_geo (tx_upd c i f) = rs_geo c.
Proof. unfold tx_upd. brk; try apply geo_tx_put; reflexivity. Qed.
Lemma geo_fault c : rs_geo (rs_fault c) = rs_geo c.
Proof. reflexivity. Qed.
Lemma geo_otx f c : rs_geo (rs_otx f c) = rs_geo c.
Proof. unfold rs_otx. brk; try apply geo_tx_upd; reflexivity. Qed.
Lemma geo_emit c e : rs_geo (emit c e) = rs_geo c.
Proof. reflexivity. Qed.
Lemma geo_bump c h : rs_geo (bump_hook c h) = rs_geo c.
Proof. reflexivity. Qed.
Lemma geo_destroy_inc c i : rs_geo (tx_destroy_incomplete c i) = rs_geo c.
Proof. unfold tx_destroy_incomplete. brk; reflexivity. Qed.
Lemma geo_destroy c i : rs_geo (tx_destroy c i) = rs_geo c.
Proof. unfold tx_destroy. brk; try apply geo_destroy_inc; reflexivity. Qed.
Lemma geo_run_hook_ex cb h i d l s c : rs_geo (snd (run_hook_ex cb h i d l s c)) = rs_geo c.
Proof. unfold run_hook_ex. brk; cbn [snd]; rewrite ?geo_tx_upd, ?geo_destroy; reflexivity. Qed.

Section Frame.
Variable cb : cb_oracle.
Variable g : cfg.

Definition rs_nd (rc : st) : Prop := rc <> ST_DATA /\ rc <> ST_DATA_BUFFER.
Ltac ndt := unfold rs_nd; split; discriminate.

Lemma nd_run_hook_ex h i d l s c : rs_nd (fst (run_hook_ex cb h i d l s c)).
Proof. unfold run_hook_ex. brk; cbn [fst]; ndt. Qed.
Lemma geo_run_tx_hooks k h i d l c : rs_geo (run_tx_hooks k h i d l c) = rs_geo c.
Proof. revert c. induction k; intros c; cbn [run_tx_hooks]; [reflexivity|]. rewrite IHk. reflexivity. Qed.

(* a function on the out cursor that rs_keeps data / len / read *)
Definition rs_keeps (f : cursor -> cursor) : Prop :=
  forall k, k_data (f k) = k_data k /\ k_len (f k) = k_len k /\ k_read (f k) = k_read k.
Lemma geo_set_out f c : rs_keeps f -> rs_geo (rs_set_out f c) = rs_geo c.
Proof. intros H. unfold rs_geo, rs_set_out. cbn. destruct (H (c_out c)) as (-> & -> & ->). reflexivity. Qed.

Lemma res_run_hook_body_data_fr i d n c :
  rs_nd (fst (res_run_hook_body_data cb i d n c)) /\ rs_geo (snd (res_run_hook_body_data cb i d n c)) = rs_geo c.
Proof.
  unfold res_run_hook_body_data, run_data_hook. brk; cbn [fst snd]; try (split; [ndt|reflexivity]).
  all: split; [apply nd_run_hook_ex | rewrite geo_run_hook_ex, geo_run_tx_hooks; reflexivity].
Qed.

Lemma process_body_fr i d n c :
  rs_nd (fst (tx_res_process_body_data_ex cb i d n c)) /\ rs_geo (snd (tx_res_process_body_data_ex cb i d n c)) = rs_geo c.
Proof.
  unfold tx_res_process_body_data_ex.
  destruct (_ =? _).
  - match goal with |- context [res_run_hook_body_data cb ?a ?b ?x ?y] =>
      pose proof (res_run_hook_body_data_fr a b x y) as [H1 H2]; destruct (res_run_hook_body_data cb a b x y) as [rc c1] end.
    cbn [fst snd] in *. rewrite !geo_tx_upd in H2.
    destruct rc; cbn [fst snd]; (split; [ndt | assumption]).
  - cbn [fst snd]. split; [ndt | apply geo_tx_upd].
Qed.

Lemma receiver_send_fr l c :
  rs_nd (fst (res_receiver_send_data cb l c)) /\ rs_geo (snd (res_receiver_send_data cb l c)) = rs_geo c.
Proof.
  unfold res_receiver_send_data, run_data_hook.
  destruct (k_receiver_hook (c_out c)); [|split; [ndt|reflexivity]].
  match goal with |- context [run_hook_ex cb ?a ?b ?x ?y ?z ?w] =>
    pose proof (nd_run_hook_ex a b x y z w) as H1; pose proof (geo_run_hook_ex cb a b x y z w) as H2;
    destruct (run_hook_ex cb a b x y z w) as [rc c1] end.
  cbn [fst snd] in *.
  assert (H3 : rs_geo c1 = rs_geo c).
  { rewrite H2. brk; reflexivity. }
  destruct rc; cbn [fst snd]; split; try assumption; try ndt.
  all: try (rewrite geo_set_out; [assumption|]; intros k; cbn; auto).
Qed.

Lemma receiver_clear_fr c :
  rs_nd (fst (res_receiver_finalize_clear cb c)) /\ rs_geo (snd (res_receiver_finalize_clear cb c)) = rs_geo c.
Proof.
  unfold res_receiver_finalize_clear. destruct (k_receiver_hook (c_out c)); [|split; [ndt|reflexivity]].
  pose proof (receiver_send_fr true c) as [H1 H2]. destruct (res_receiver_send_data cb true c) as [rc c1].
  cbn [fst snd] in *. split; [assumption|]. rewrite geo_set_out; [assumption|]. intros k; cbn; auto.
Qed.

Lemma receiver_set_fr h c :
  rs_nd (fst (res_receiver_set cb h c)) /\ rs_geo (snd (res_receiver_set cb h c)) = rs_geo c.
Proof.
  unfold res_receiver_set. pose proof (receiver_clear_fr c) as [H1 H2].
  destruct (res_receiver_finalize_clear cb c) as [rc c1]. cbn [fst snd] in *. split; [assumption|].
  rewrite geo_set_out; [assumption|]. intros k; cbn; auto.
Qed.

Lemma tx_finalize_fr i c :
  rs_nd (fst (tx_finalize cb g i c)) /\ rs_geo (snd (tx_finalize cb g i c)) = rs_geo c.
Proof.
  unfold tx_finalize. destruct (tx_slot c i); [|split; [ndt|reflexivity]].
  destruct (negb _); [split; [ndt|reflexivity]|].
  match goal with |- context [run_hook_ex cb ?a ?b ?x ?y ?z ?w] =>
    pose proof (nd_run_hook_ex a b x y z w) as H1; pose proof (geo_run_hook_ex cb a b x y z w) as H2;
    destruct (run_hook_ex cb a b x y z w) as [rc c1] end.
  cbn [fst snd] in *.
  destruct rc; try (split; assumption).
  brk; cbn [fst snd]; (split; [ndt|]); rewrite ?geo_destroy; assumption.
Qed.

(* ---- request-side pieces reached from RES_IDLE: they never touch the response geometry ---- *)
Lemma geo_req_run_hook_body_data d l c : rs_geo (snd (req_run_hook_body_data cb d l c)) = rs_geo c.
Proof.
  unfold req_run_hook_body_data, run_data_hook. brk; cbn [snd]; rewrite ?geo_run_hook_ex, ?geo_run_tx_hooks; reflexivity.
Qed.
Lemma geo_tx_req_process_body i d n c : rs_geo (snd (tx_req_process_body_data_ex cb i d n c)) = rs_geo c.
Proof.
  unfold tx_req_process_body_data_ex.
  match goal with |- context [req_run_hook_body_data cb ?a ?b ?x] =>
    pose proof (geo_req_run_hook_body_data a b x) as H; destruct (req_run_hook_body_data cb a b x) as [rc c1] end.
  cbn [snd] in H. rewrite geo_tx_upd in H. destruct rc; cbn [snd]; assumption.
Qed.
Lemma geo_req_receiver_send l c : rs_geo (snd (req_receiver_send_data cb l c)) = rs_geo c.
Proof.
  unfold req_receiver_send_data, run_data_hook. destruct (k_receiver_hook (c_in c)); [|reflexivity].
  match goal with |- context [run_hook_ex cb ?a ?b ?x ?y ?z ?w] =>
    pose proof (geo_run_hook_ex cb a b x y z w) as H2; destruct (run_hook_ex cb a b x y z w) as [rc c1] end.
  cbn [snd] in *.
  assert (H3 : rs_geo c1 = rs_geo c) by (rewrite H2; brk; reflexivity).
  destruct rc; cbn [snd]; assumption.
Qed.
Lemma geo_req_receiver_clear c : rs_geo (snd (req_receiver_finalize_clear cb c)) = rs_geo c.
Proof.
  unfold req_receiver_finalize_clear. destruct (k_receiver_hook (c_in c)); [|reflexivity].
  pose proof (geo_req_receiver_send true c) as H. destruct (req_receiver_send_data cb true c) as [rc c1]. cbn [snd] in *. assumption.
Qed.
Lemma geo_req_complete_partial i c : rs_geo (snd (tx_state_request_complete_partial cb i c)) = rs_geo c.
Proof.
  unfold tx_state_request_complete_partial, run_hook.
  assert (H0 : forall x, rs_geo (snd (if tx_req_has_body (tx_get c i) then tx_req_process_body_data_ex cb i None 0 c else (ST_OK, x))) =
                         rs_geo (if tx_req_has_body (tx_get c i) then c else x)).
  { intros x. destruct (tx_req_has_body _); [apply geo_tx_req_process_body | reflexivity]. }
  specialize (H0 c). destruct (if tx_req_has_body (tx_get c i) then _ else _) as [rc c1]. cbn [snd] in H0.
  assert (H1 : rs_geo c1 = rs_geo c) by (rewrite H0; destruct (tx_req_has_body _); reflexivity).
  destruct rc; cbn [snd]; try assumption.
  match goal with |- context [run_hook_ex cb ?a ?b ?x ?y ?z ?w] =>
    pose proof (geo_run_hook_ex cb a b x y z w) as H2; destruct (run_hook_ex cb a b x y z w) as [rc2 c2] end.
  cbn [snd] in H2. rewrite geo_tx_upd in H2.
  destruct rc2; cbn [snd]; try congruence.
  rewrite geo_req_receiver_clear. congruence.
Qed.
Lemma geo_req_complete i c : rs_geo (snd (tx_state_request_complete cb g i c)) = rs_geo c.
Proof.
  unfold tx_state_request_complete. destruct (tx_slot c i); [|reflexivity].
  assert (H0 : rs_geo (snd (if negb (t_request_progress t =? c_HTP_REQUEST_COMPLETE) then tx_state_request_complete_partial cb i c else (ST_OK, c))) = rs_geo c).
  { destruct (negb _); [apply geo_req_complete_partial | reflexivity]. }
  destruct (if negb _ then _ else _) as [rc c1]. cbn [snd] in H0.
  destruct rc; cbn [snd]; try assumption.
  match goal with |- context [tx_finalize cb g i ?x] =>
    pose proof (tx_finalize_fr i x) as [_ H2]; destruct (tx_finalize cb g i x) as [rc2 c2] end.
  cbn [snd] in *. transitivity (rs_geo c2); [reflexivity|]. rewrite H2. brk; cbn; assumption.
Qed.
Lemma geo_tx_create c : rs_geo (snd (connp_tx_create g c)) = rs_geo c.
Proof. unfold connp_tx_create. brk; reflexivity. Qed.

(* ---- response-side transaction state functions ---- *)
Lemma response_line_fr i c :
  rs_nd (fst (tx_state_response_line cb i c)) /\ rs_geo (snd (tx_state_response_line cb i c)) = rs_geo c.
Proof.
  unfold tx_state_response_line, run_hook. split; [apply nd_run_hook_ex|]. rewrite geo_run_hook_ex, geo_tx_upd. reflexivity.
Qed.
Lemma response_headers_fr i c :
  rs_nd (fst (tx_state_response_headers cb i c)) /\ rs_geo (snd (tx_state_response_headers cb i c)) = rs_geo c.
Proof.
  unfold tx_state_response_headers, run_hook.
  match goal with |- context [res_receiver_finalize_clear cb ?x] =>
    pose proof (receiver_clear_fr x) as [H1 H2]; destruct (res_receiver_finalize_clear cb x) as [rc c1] end.
  cbn [fst snd] in *. rewrite geo_tx_upd in H2.
  destruct rc; try (split; assumption).
  split; [apply nd_run_hook_ex|]. rewrite geo_run_hook_ex. assumption.
Qed.
End Frame.

Definition rs_gD (c : connp) := (k_data (c_out c), k_len (c_out c)).
Definition rs_gS (c : connp) := (c_out_state c, c_out_chunked_length c, c_out_body_data_left c).
Definition rs_rdo (c : connp) := k_read (c_out c).
Definition rs_D (c : connp) : Prop :=
  match k_data (c_out c) with Some d => (k_len (c_out c) <= length d)%nat | None => k_len (c_out c) = 0%nat end.
Definition rs_S (c : connp) : Prop :=
  (c_out_state c = RES_BODY_CHUNKED_DATA -> 0 < c_out_chunked_length c) /\
  (c_out_state c = RES_BODY_IDENTITY_CL_KNOWN -> c_out_body_data_left c <> 0).
Definition rs_consumed_all (c : connp) : Prop := (k_len (c_out c) <= k_read (c_out c))%nat.

Lemma geo_proj a b : rs_geo a = rs_geo b -> rs_gD a = rs_gD b /\ rs_gS a = rs_gS b /\ rs_rdo a = rs_rdo b.
Proof. unfold rs_geo, rs_gD, rs_gS, rs_rdo. intros H. inversion H. repeat split; congruence. Qed.
Lemma D_of_gD a b : rs_gD a = rs_gD b -> rs_D b -> rs_D a.
Proof. unfold rs_gD, rs_D. intros H. inversion H as [[H1 H2]]. rewrite H1, H2. auto. Qed.
Lemma S_of_gS a b : rs_gS a = rs_gS b -> rs_S b -> rs_S a.
Proof. unfold rs_gS, rs_S. intros H. inversion H as [[H1 H2 H3]]. rewrite H1, H2, H3. auto. Qed.
Lemma all_of a b : rs_gD a = rs_gD b -> rs_rdo a = rs_rdo b -> rs_consumed_all b -> rs_consumed_all a.
Proof. unfold rs_gD, rs_rdo, rs_consumed_all. intros H H0. inversion H. congruence. Qed.

(* rs_S after a state assignment to a state that carries no side condition *)
Definition rs_plain_state (s : res_state) : Prop := s <> RES_BODY_CHUNKED_DATA /\ s <> RES_BODY_IDENTITY_CL_KNOWN.
Lemma S_set_plain s c : rs_plain_state s -> rs_S (rs_set_state s c).
Proof. intros [H1 H2]. unfold rs_S, rs_set_state. cbn. split; intros; congruence. Qed.
Ltac plain := unfold rs_plain_state; split; discriminate.
Ltac split4 := split; [|split; [|split]].
Ltac fr := first [assumption | congruence | (unfold rs_gD, rs_rdo, rs_gS in *; cbn in *; congruence)].
Ltac same_S := intros; eapply S_of_gS; [|eassumption]; fr.

Section Ops.
Variable cb : cb_oracle.
Variable g : cfg.

Lemma has_byte_false c : rs_has_byte c = false -> rs_consumed_all c.
Proof. unfold rs_has_byte, rs_consumed_all. intros H. apply Nat.ltb_ge in H. exact H. Qed.

Lemma geo_load_next_but_read c : rs_gD (rs_load_next c) = rs_gD c /\ rs_gS (rs_load_next c) = rs_gS c /\ rs_rdo (rs_load_next c) = rs_rdo c.
Proof. unfold rs_load_next. brk; repeat split; reflexivity. Qed.

Lemma load_next_some c : rs_D c -> rs_has_byte c = true -> rs_nb (rs_load_next c) <> None.
Proof.
  unfold rs_D, rs_has_byte, rs_load_next, rs_cur_byte, rs_nb. intros HD Hb.
  destruct (k_data (c_out c)) as [d|] eqn:Ed.
  - rewrite Hb. destruct (nth_error d (k_read (c_out c))) eqn:En; cbn; [discriminate|].
    apply nth_error_None in En. apply Nat.ltb_lt in Hb. lia.
  - apply Nat.ltb_lt in Hb. lia.
Qed.

Lemma peek_fr c : rs_gD (rs_peek_next c) = rs_gD c /\ rs_gS (rs_peek_next c) = rs_gS c /\ rs_rdo (rs_peek_next c) = rs_rdo c.
Proof. unfold rs_peek_next. destruct (rs_has_byte c); [apply geo_load_next_but_read | repeat split; reflexivity]. Qed.
Lemma peek_none c : rs_D c -> rs_nb (rs_peek_next c) = None -> rs_consumed_all (rs_peek_next c).
Proof.
  intros HD H. destruct (peek_fr c) as (E1 & _ & E3). eapply all_of; eauto.
  unfold rs_peek_next in H. destruct (rs_has_byte c) eqn:Hb; [|apply has_byte_false; assumption].
  exfalso. eapply load_next_some; eauto.
Qed.

Lemma copy_some c c1 : rs_copy_byte c = Some c1 -> rs_gD c1 = rs_gD c /\ rs_gS c1 = rs_gS c.
Proof.
  unfold rs_copy_byte. destruct (rs_has_byte c); [|discriminate]. intros H; inversion H; subst c1.
  destruct (geo_load_next_but_read c) as (E1 & E2 & _). split; [rewrite <- E1|rewrite <- E2]; reflexivity.
Qed.
Lemma copy_none c : rs_copy_byte c = None -> rs_consumed_all c.
Proof. unfold rs_copy_byte. destruct (rs_has_byte c) eqn:H; [discriminate|]. intros _. apply has_byte_false; assumption. Qed.
Lemma next_some c c1 : rs_next_byte c = Some c1 -> rs_gD c1 = rs_gD c /\ rs_gS c1 = rs_gS c.
Proof.
  unfold rs_next_byte. destruct (rs_has_byte c); [|discriminate]. intros H; inversion H; subst c1.
  destruct (geo_load_next_but_read c) as (E1 & E2 & _). split; [rewrite <- E1|rewrite <- E2]; reflexivity.
Qed.
Lemma next_none c : rs_next_byte c = None -> rs_consumed_all c.
Proof. unfold rs_next_byte. destruct (rs_has_byte c) eqn:H; [discriminate|]. intros _. apply has_byte_false; assumption. Qed.

Lemma geo_res_buffer c : rs_geo (snd (rs_res_buffer g c)) = rs_geo c.
Proof. unfold rs_res_buffer. brk; cbn [snd]; reflexivity. Qed.
Lemma geo_consolidate c : rs_geo (snd (rs_consolidate g c)) = rs_geo c.
Proof.
  unfold rs_consolidate. destruct (k_buf (c_out c)).
  - pose proof (geo_res_buffer c) as H. destruct (rs_res_buffer g c) as [rc c1]. destruct rc; cbn [snd] in *; assumption.
  - brk; cbn [snd]; reflexivity.
Qed.
Lemma geo_clear_buffer c : rs_geo (rs_clear_buffer c) = rs_geo c.
Proof. reflexivity. Qed.
Lemma set_state_fr s c : rs_gD (rs_set_state s c) = rs_gD c /\ rs_rdo (rs_set_state s c) = rs_rdo c.
Proof. split; reflexivity. Qed.
Lemma advance_fr n c : rs_gD (rs_advance n c) = rs_gD c /\ rs_gS (rs_advance n c) = rs_gS c.
Proof. split; reflexivity. Qed.

Lemma process_body_fr2 d n c :
  rs_nd (fst (rs_process_body cb d n c)) /\ rs_geo (snd (rs_process_body cb d n c)) = rs_geo c.
Proof. unfold rs_process_body. destruct (c_out_tx c); [apply process_body_fr | split; [split; discriminate | reflexivity]]. Qed.
Lemma response_headers_fr2 c :
  rs_nd (fst (rs_response_headers cb c)) /\ rs_geo (snd (rs_response_headers cb c)) = rs_geo c.
Proof. unfold rs_response_headers. destruct (c_out_tx c); [apply response_headers_fr | split; [split; discriminate | reflexivity]]. Qed.
Lemma body_slice_fr c n : rs_geo (snd (rs_body_slice c n)) = rs_geo c.
Proof. unfold rs_body_slice. brk; reflexivity. Qed.

Lemma state_tx_upd c i f : c_out_state (tx_upd c i f) = c_out_state c.
Proof. pose proof (geo_tx_upd c i f) as H. unfold rs_geo in H. inversion H. reflexivity. Qed.

(* htp_tx_state_response_start: new state LINE or STREAM_CLOSE, or nothing changed *)
Lemma response_start_fr i c :
  let r := tx_state_response_start cb i c in
  rs_nd (fst r) /\ rs_gD (snd r) = rs_gD c /\ rs_rdo (snd r) = rs_rdo c /\ (rs_S c -> rs_S (snd r)).
Proof.
  cbn zeta. unfold tx_state_response_start, run_hook.
  match goal with |- context [run_hook_ex cb ?a ?b ?x ?y ?z ?w] =>
    pose proof (nd_run_hook_ex cb a b x y z w) as H1; pose proof (geo_run_hook_ex cb a b x y z w) as H2;
    destruct (run_hook_ex cb a b x y z w) as [rc c1] end.
  cbn [fst snd] in *. apply geo_proj in H2. destruct H2 as (E1 & E2 & E3).
  assert (E1' : rs_gD c1 = rs_gD c) by (rewrite E1; reflexivity).
  assert (E3' : rs_rdo c1 = rs_rdo c) by (rewrite E3; reflexivity).
  assert (E2' : rs_gS c1 = rs_gS c) by (rewrite E2; reflexivity).
  destruct rc; cbn [fst snd]; try (split4; [assumption|assumption|assumption|same_S]).
  destruct (t_is_protocol_0_9 _); cbn [fst snd].
  - match goal with |- context [tx_upd c1 i ?f] => pose proof (geo_tx_upd c1 i f) as H; apply geo_proj in H; destruct H as (F1 & F2 & F3) end.
    split4.
    + split; discriminate.
    + unfold rs_gD in *; cbn in *; congruence.
    + unfold rs_rdo in *; cbn in *; congruence.
    + intros _. unfold rs_S. cbn. split; intros; discriminate.
  - match goal with |- context [tx_upd ?x i ?f] => pose proof (geo_tx_upd x i f) as H; apply geo_proj in H; destruct H as (F1 & F2 & F3) end.
    split4.
    + split; discriminate.
    + rewrite F1. unfold rs_gD in *; cbn in *; congruence.
    + rewrite F3. unfold rs_rdo in *; cbn in *; congruence.
    + intros _. unfold rs_S. rewrite state_tx_upd. cbn. split; intros; discriminate.
Qed.

(* htp_tx_state_response_complete_ex: new state IDLE, or nothing changed *)
Lemma response_complete_fr i hy c :
  let r := tx_state_response_complete_ex cb g i hy c in
  rs_nd (fst r) /\ rs_gD (snd r) = rs_gD c /\ rs_rdo (snd r) = rs_rdo c /\ (rs_S c -> rs_S (snd r)).
Proof.
  cbn zeta. unfold tx_state_response_complete_ex, run_hook.
  set (first := if negb (t_response_progress (tx_get c i) =? c_HTP_RESPONSE_COMPLETE) then _ else (ST_OK, c)).
  assert (H0 : rs_nd (fst first) /\ rs_geo (snd first) = rs_geo c).
  { subst first. destruct (negb _); [|split; [split; discriminate|reflexivity]].
    match goal with |- context [run_hook_ex cb ?a ?b ?x ?y ?z ?w] =>
      pose proof (nd_run_hook_ex cb a b x y z w) as H1; pose proof (geo_run_hook_ex cb a b x y z w) as H2;
      destruct (run_hook_ex cb a b x y z w) as [rc c1] end.
    cbn [fst snd] in *.
    assert (H3 : rs_geo c1 = rs_geo c).
    { rewrite H2. destruct (negb _).
      - destruct (process_body_fr cb i None 0 (tx_upd c i (fun t => t <| t_response_progress := c_HTP_RESPONSE_COMPLETE |>))) as [_ H4].
        rewrite H4. apply geo_tx_upd.
      - apply geo_tx_upd. }
    destruct rc; try (split; assumption).
    destruct (receiver_clear_fr cb c1) as [H4 H5]. split; [assumption|congruence]. }
  destruct first as [rc c1]. cbn [fst snd] in H0. destruct H0 as [H1 H2].
  apply geo_proj in H2. destruct H2 as (E1 & E2 & E3).
  destruct rc; cbn [fst snd]; try (split4; [assumption|assumption|assumption|same_S]).
  assert (W : forall ret c', (ret = ST_OK \/ ret = ST_DATA_OTHER) -> rs_geo c' = rs_geo c1 ->
            let r := match tx_finalize cb g i c' with
                     | (ST_OK, c2) => (ret, c2 <| c_out_tx := None |> <| c_out_state := RES_IDLE |>)
                     | r => r end in
            rs_nd (fst r) /\ rs_gD (snd r) = rs_gD c /\ rs_rdo (snd r) = rs_rdo c /\ (rs_S c -> rs_S (snd r))).
  { intros ret c' Hret Hg. cbn zeta. apply geo_proj in Hg. destruct Hg as (K1 & K2 & K3).
    pose proof (tx_finalize_fr cb g i c') as [F1 F2]. destruct (tx_finalize cb g i c') as [rc2 c2]. cbn [fst snd] in F1, F2.
    apply geo_proj in F2. destruct F2 as (G1 & G2 & G3).
    assert (E1' : rs_gD c2 = rs_gD c) by congruence. assert (E2' : rs_rdo c2 = rs_rdo c) by congruence.
    assert (E3' : rs_gS c2 = rs_gS c) by congruence.
    destruct rc2; cbn [fst snd]; try (split4; [assumption|assumption|assumption|same_S]).
    split4.
    - destruct Hret as [-> | ->]; split; discriminate.
    - unfold rs_gD in *; cbn in *; congruence.
    - unfold rs_rdo in *; cbn in *; congruence.
    - intros _; unfold rs_S; cbn; split; intros; discriminate. }
  destruct (negb hy && _)%bool; [apply W; [right; reflexivity|reflexivity]|].
  destruct (negb hy && _)%bool; [apply W; [right; reflexivity|reflexivity]|].
  apply W; [left; reflexivity|reflexivity].
Qed.
End Ops.

(* ---- what every state function guarantees ---- *)
Definition rs_okres (c : connp) (r : st * connp) : Prop :=
  rs_gD (snd r) = rs_gD c /\ (rs_S c -> rs_S (snd r)) /\ ((fst r = ST_DATA \/ fst r = ST_DATA_BUFFER) -> rs_consumed_all (snd r)).

Lemma okres_trans c c1 r : rs_gD c1 = rs_gD c -> (rs_S c -> rs_S c1) -> rs_okres c1 r -> rs_okres c r.
Proof. intros H1 H2 (A & B & C). split; [congruence|]. split; [auto|assumption]. Qed.
Lemma okres_nd c r : rs_gD (snd r) = rs_gD c -> (rs_S c -> rs_S (snd r)) -> rs_nd (fst r) -> rs_okres c r.
Proof. intros H1 H2 [N1 N2]. split; [assumption|]. split; [assumption|]. intros [E|E]; congruence. Qed.
Lemma okres_geo_nd c r : rs_geo (snd r) = rs_geo c -> rs_nd (fst r) -> rs_okres c r.
Proof.
  intros H N. apply geo_proj in H. destruct H as (E1 & E2 & E3).
  apply okres_nd; [assumption| |assumption]. intros; eapply S_of_gS; eauto.
Qed.
Lemma nd_ok : rs_nd ST_OK. Proof. split; discriminate. Qed.
Lemma nd_error : rs_nd ST_ERROR. Proof. split; discriminate. Qed.
#[local] Hint Resolve nd_ok nd_error : core.

Section States.
Variable cb : cb_oracle.
Variable g : cfg.

(* S is kept by anything that rs_keeps rs_gS *)
Lemma S_keep a b : rs_gS a = rs_gS b -> rs_S b -> rs_S a. Proof. apply S_of_gS. Qed.

Lemma gS_otx f c : rs_gS (rs_otx f c) = rs_gS c.
Proof. pose proof (geo_otx f c) as H. apply geo_proj in H. tauto. Qed.
Lemma gD_otx f c : rs_gD (rs_otx f c) = rs_gD c.
Proof. pose proof (geo_otx f c) as H. apply geo_proj in H. tauto. Qed.
Lemma rdo_otx f c : rs_rdo (rs_otx f c) = rs_rdo c.
Proof. pose proof (geo_otx f c) as H. apply geo_proj in H. tauto. Qed.

(* ---- RES_BODY_CHUNKED_DATA_END ---- *)
Lemma chunked_data_end_ok fuel c : rs_okres c (rs_chunked_data_end_loop fuel c).
Proof.
  revert c. induction fuel as [|f IH]; intros c; cbn [rs_chunked_data_end_loop].
  - apply okres_geo_nd; [reflexivity|auto].
  - destruct (rs_next_byte c) as [c1|] eqn:En.
    + destruct (next_some c c1 En) as [E1 E2].
      set (c2 := rs_otx _ c1).
      assert (F1 : rs_gD c2 = rs_gD c) by (subst c2; rewrite gD_otx; assumption).
      assert (F2 : rs_gS c2 = rs_gS c) by (subst c2; rewrite gS_otx; assumption).
      destruct (rs_nb_is c2 LF).
      * apply okres_nd; cbn [fst snd]; auto. intros _. apply S_set_plain. plain.
      * eapply okres_trans; [exact F1| intros; eapply S_keep; eauto | apply IH].
    + split; [reflexivity|]. split; [auto|]. intros _. cbn [snd]. apply next_none; assumption.
Qed.

(* consuming n bytes, when n is all that is left of the chunk *)
Lemma advance_all n c : (k_len (c_out c) - k_read (c_out c) <= n)%nat -> rs_consumed_all (rs_advance n c).
Proof. unfold rs_consumed_all, rs_advance, rs_set_out. cbn. lia. Qed.

Lemma btc_zero c left : left <> 0 -> rs_bytes_to_consume c left = 0%nat -> rs_consumed_all c.
Proof.
  unfold rs_bytes_to_consume, rs_consumed_all. intros Hl.
  destruct (left <? 0) eqn:E1; [lia|]. destruct (left <=? _) eqn:E2; [|lia].
  apply Z.ltb_ge in E1. intros H. assert (left = 0) by lia. contradiction.
Qed.
(* after consuming n = bytes_to_consume with something still owed, the chunk is exhausted *)
Lemma btc_rest c left : left - Z.of_nat (rs_bytes_to_consume c left) <> 0 ->
  (k_len (c_out c) - k_read (c_out c) <= rs_bytes_to_consume c left)%nat.
Proof.
  unfold rs_bytes_to_consume. destruct (left <? 0) eqn:E1; [lia|]. destruct (left <=? _) eqn:E2; [|lia].
  apply Z.ltb_ge in E1. intros H. rewrite Z2Nat.id in H by lia. lia.
Qed.
Lemma btc_pos_rest c left : 0 < left -> left - Z.of_nat (rs_bytes_to_consume c left) <> 0 ->
  0 < left - Z.of_nat (rs_bytes_to_consume c left).
Proof.
  unfold rs_bytes_to_consume. destruct (left <? 0) eqn:E1; [apply Z.ltb_lt in E1; lia|]. destruct (left <=? _) eqn:E2.
  - intros H H2. rewrite Z2Nat.id in * by lia. lia.
  - apply Z.leb_gt in E2. lia.
Qed.

(* ---- RES_BODY_CHUNKED_DATA ---- *)
Lemma chunked_data_ok c : c_out_state c = RES_BODY_CHUNKED_DATA -> rs_S c -> rs_okres c (rs_RES_BODY_CHUNKED_DATA cb c).
Proof.
  intros Hs HS. destruct HS as [HS1 HS2]. specialize (HS1 Hs).
  unfold rs_RES_BODY_CHUNKED_DATA.
  set (n := rs_bytes_to_consume c (c_out_chunked_length c)).
  destruct (n =? 0)%nat eqn:En.
  - split; [reflexivity|]. split; [auto|]. intros _. cbn [snd]. apply Nat.eqb_eq in En.
    eapply btc_zero; [|exact En]. lia.
  - pose proof (body_slice_fr c n) as B. destruct (rs_body_slice c n) as [data c1]. cbn [snd] in B.
    pose proof (process_body_fr2 cb data n c1) as [P1 P2]. destruct (rs_process_body cb data n c1) as [rc c2]. cbn [fst snd] in *.
    assert (G : rs_geo c2 = rs_geo c) by congruence.
    pose proof G as G'. apply geo_proj in G'. destruct G' as (E1 & E2 & E3).
    destruct rc; try (apply okres_geo_nd; [exact G | assumption]).
    set (c3 := rs_advance n c2).
    assert (Hcl : c_out_chunked_length c2 = c_out_chunked_length c) by (unfold rs_gS in E2; congruence).
    assert (Hst : c_out_state c2 = c_out_state c) by (unfold rs_gS in E2; congruence).
    cbn. fold c3. rewrite Hcl.
    destruct (c_out_chunked_length c - Z.of_nat n =? 0) eqn:Ez.
    + apply okres_nd; cbn [fst snd]; auto.
      intros _. apply S_set_plain. plain.
    + apply Z.eqb_neq in Ez. split; [cbn [snd]; unfold rs_gD in *; cbn; congruence|]. split.
      * intros _. unfold rs_S. cbn. rewrite Hst, Hs. split; [intros _|discriminate].
        subst n. apply btc_pos_rest; assumption.
      * intros _. cbn [snd]. subst n.
        assert (A : rs_consumed_all c3).
        { subst c3. apply advance_all. unfold rs_gD, rs_rdo in *. inversion E1. rewrite E3.
          replace (k_len (c_out c2)) with (k_len (c_out c)) by congruence. apply btc_rest; assumption. }
        unfold rs_consumed_all in *. cbn. exact A.
Qed.

(* ---- RES_BODY_IDENTITY_CL_KNOWN ---- *)
Lemma process_body_final_ok c c0 : rs_gD c0 = rs_gD c -> rs_okres c (rs_process_body cb None 0 (rs_set_state RES_FINALIZE c0)).
Proof.
  intros E. pose proof (process_body_fr2 cb None 0 (rs_set_state RES_FINALIZE c0)) as [P1 P2].
  apply geo_proj in P2. destruct P2 as (E1 & E2 & E3).
  apply okres_nd; [rewrite E1; exact E | | exact P1].
  intros _. eapply S_keep; [exact E2|]. apply S_set_plain. plain.
Qed.

Lemma cl_known_ok c : c_out_state c = RES_BODY_IDENTITY_CL_KNOWN -> rs_S c -> rs_okres c (rs_RES_BODY_IDENTITY_CL_KNOWN cb c).
Proof.
  intros Hs HS. destruct HS as [HS1 HS2]. specialize (HS2 Hs).
  unfold rs_RES_BODY_IDENTITY_CL_KNOWN.
  set (n := rs_bytes_to_consume c (c_out_body_data_left c)).
  destruct (rs_closed c); [apply process_body_final_ok; reflexivity|].
  destruct (n =? 0)%nat eqn:En.
  - split; [reflexivity|]. split; [auto|]. intros _. cbn [snd]. apply Nat.eqb_eq in En.
    eapply btc_zero; [|exact En]. assumption.
  - pose proof (body_slice_fr c n) as B. destruct (rs_body_slice c n) as [data c1]. cbn [snd] in B.
    pose proof (process_body_fr2 cb data n c1) as [P1 P2]. destruct (rs_process_body cb data n c1) as [rc c2]. cbn [fst snd] in *.
    assert (G : rs_geo c2 = rs_geo c) by congruence.
    pose proof G as G'. apply geo_proj in G'. destruct G' as (E1 & E2 & E3).
    destruct rc; try (apply okres_geo_nd; [exact G | assumption]).
    set (c3 := rs_advance n c2).
    assert (Hcl : c_out_body_data_left c2 = c_out_body_data_left c) by (unfold rs_gS in E2; congruence).
    assert (Hst : c_out_state c2 = c_out_state c) by (unfold rs_gS in E2; congruence).
    cbn. fold c3. rewrite Hcl.
    destruct (c_out_body_data_left c - Z.of_nat n =? 0) eqn:Ez.
    + apply process_body_final_ok. unfold rs_gD in *; cbn; congruence.
    + apply Z.eqb_neq in Ez. split; [cbn [snd]; unfold rs_gD in *; cbn; congruence|]. split.
      * intros _. unfold rs_S. cbn. rewrite Hst, Hs. split; [discriminate|intros _]. exact Ez.
      * intros _. cbn [snd]. subst n.
        assert (A : rs_consumed_all c3).
        { subst c3. apply advance_all. unfold rs_gD, rs_rdo in *. inversion E1. rewrite E3.
          replace (k_len (c_out c2)) with (k_len (c_out c)) by congruence. apply btc_rest; assumption. }
        unfold rs_consumed_all in *. cbn. exact A.
Qed.

(* ---- RES_BODY_IDENTITY_STREAM_CLOSE ---- *)
Lemma stream_close_ok c : rs_okres c (rs_RES_BODY_IDENTITY_STREAM_CLOSE cb c).
Proof.
  unfold rs_RES_BODY_IDENTITY_STREAM_CLOSE.
  set (n := (k_len (c_out c) - k_read (c_out c))%nat).
  set (c0 := if (k_len (c_out c) <? k_read (c_out c))%nat then rs_fault c else c).
  assert (G0 : rs_geo c0 = rs_geo c) by (subst c0; destruct (_ <? _)%nat; reflexivity).
  destruct (n =? 0)%nat eqn:En.
  - apply Nat.eqb_eq in En. pose proof G0 as G'. apply geo_proj in G'. destruct G' as (E1 & E2 & E3).
    destruct (rs_closed c0).
    + apply okres_nd; cbn [fst snd]; auto. intros _. apply S_set_plain. plain.
    + split; [exact E1|]. split; [intros; eapply S_keep; eauto|]. intros _. cbn [snd].
      eapply all_of; [exact E1|exact E3|]. unfold rs_consumed_all. subst n. lia.
  - apply Nat.eqb_neq in En.
    pose proof (body_slice_fr c0 n) as B. destruct (rs_body_slice c0 n) as [data c1]. cbn [snd] in B.
    pose proof (process_body_fr2 cb data n c1) as [P1 P2]. destruct (rs_process_body cb data n c1) as [rc c2]. cbn [fst snd] in *.
    assert (G : rs_geo c2 = rs_geo c) by congruence.
    pose proof G as G'. apply geo_proj in G'. destruct G' as (E1 & E2 & E3).
    destruct rc; try (apply okres_geo_nd; [exact G | assumption]).
    destruct (rs_closed (rs_advance n c2)).
    + apply okres_nd; cbn [fst snd]; auto. intros _. apply S_set_plain. plain.
    + split; [cbn [snd]; unfold rs_gD in *; cbn; congruence|]. split; [intros; eapply S_keep; [|eassumption]; fr|].
      intros _. cbn [snd]. apply advance_all. unfold rs_gD, rs_rdo in *. inversion E1. subst n. lia.
Qed.

Lemma S_plain x : rs_plain_state (c_out_state x) -> rs_S x.
Proof. intros [H1 H2]. split; intros; congruence. Qed.
Lemma state_otx f c : c_out_state (rs_otx f c) = c_out_state c.
Proof. pose proof (gS_otx f c) as H. unfold rs_gS in H. congruence. Qed.
Lemma gD_consolidate c : rs_gD (snd (rs_consolidate g c)) = rs_gD c /\ rs_gS (snd (rs_consolidate g c)) = rs_gS c /\ rs_rdo (snd (rs_consolidate g c)) = rs_rdo c.
Proof. apply geo_proj. apply geo_consolidate. Qed.

(* ---- RES_BODY_CHUNKED_LENGTH ---- *)
Lemma chunked_length_ok fuel c : rs_plain_state (c_out_state c) -> rs_okres c (rs_chunked_length_loop g fuel c).
Proof.
  revert c. induction fuel as [|f IH]; intros c Hp; cbn [rs_chunked_length_loop].
  - apply okres_geo_nd; [reflexivity|auto].
  - destruct (rs_copy_byte c) as [c1|] eqn:Ec.
    2:{ split; [reflexivity|]. split; [auto|]. intros _. apply copy_none; assumption. }
    destruct (copy_some c c1 Ec) as [E1 E2].
    assert (Hp1 : rs_plain_state (c_out_state c1)) by (unfold rs_gS in E2; replace (c_out_state c1) with (c_out_state c) by congruence; assumption).
    destruct (_ || _)%bool.
    2:{ eapply okres_trans; [exact E1 | intros; apply S_plain; assumption | apply IH; assumption]. }
    destruct (gD_consolidate c1) as (C1 & C2 & C3). destruct (rs_consolidate g c1) as [[data|] c2]; cbn [snd] in *.
    2:{ apply okres_nd; cbn [fst snd]; [congruence| |auto]. intros _. apply S_plain. unfold rs_gS in C2. replace (c_out_state c2) with (c_out_state c1) by congruence. assumption. }
    set (c3 := rs_otx _ c2).
    assert (D3 : rs_gD c3 = rs_gD c) by (subst c3; rewrite gD_otx; congruence).
    assert (S3 : c_out_state c3 = c_out_state c) by (subst c3; rewrite state_otx; unfold rs_gS in *; congruence).
    set (cl := fst (parse_chunked_length (rs_dbytes data))).
    cbv zeta.
    destruct (cl =? -1004).
    { eapply okres_trans; [| |apply IH].
      - unfold rs_gD in *; cbn; exact D3.
      - intros _. apply S_plain. cbn. rewrite S3. assumption.
      - cbn. rewrite S3. assumption. }
    destruct (cl <? 0) eqn:Eneg.
    { apply okres_nd; cbn [fst snd]; [ | | auto].
      - rewrite gD_otx. unfold rs_gD in *; cbn; exact D3.
      - intros _. apply S_plain. rewrite state_otx. cbn. plain. }
    destruct (0 <? cl) eqn:Epos.
    { apply okres_nd; cbn [fst snd]; [ | | auto].
      - unfold rs_gD in *; cbn; exact D3.
      - intros _. unfold rs_S. cbn. split; [intros _; apply Z.ltb_lt; assumption | discriminate]. }
    apply okres_nd; cbn [fst snd]; [ | | auto].
    + rewrite gD_otx. unfold rs_gD in *; cbn; exact D3.
    + intros _. apply S_plain. rewrite state_otx. cbn. plain.
Qed.

(* ---- RES_FINALIZE ---- *)
Lemma copy_read c c1 : rs_copy_byte c = Some c1 -> rs_rdo c1 = S (rs_rdo c) /\ (rs_rdo c < k_len (c_out c))%nat.
Proof.
  unfold rs_copy_byte. destruct (rs_has_byte c) eqn:Hb; [|discriminate]. intros H; inversion H; subst c1.
  destruct (geo_load_next_but_read c) as (_ & _ & E3). unfold rs_rdo in *. cbn. rewrite E3. split; [reflexivity|].
  unfold rs_has_byte in Hb. apply Nat.ltb_lt in Hb. exact Hb.
Qed.

Lemma finalize_scan_ok fuel c b c' :
  (k_len (c_out c) - k_read (c_out c) < fuel)%nat -> rs_finalize_scan fuel c = (b, c') ->
  rs_gD c' = rs_gD c /\ rs_gS c' = rs_gS c /\ (b = false -> rs_consumed_all c').
Proof.
  revert c. induction fuel as [|f IH]; intros c Hf; [lia|]. cbn [rs_finalize_scan].
  destruct (rs_copy_byte c) as [c1|] eqn:Ec.
  - destruct (copy_some c c1 Ec) as [E1 E2]. destruct (copy_read c c1 Ec) as [E3 E4].
    destruct (rs_nb_is c1 LF).
    + intros H; inversion H; subst. split; [assumption|]. split; [assumption|]. discriminate.
    + intros H. apply IH in H.
      * destruct H as (A & B & C). split; [congruence|]. split; [congruence|assumption].
      * unfold rs_gD, rs_rdo in *. inversion E1. lia.
  - intros H; inversion H; subst. split; [reflexivity|]. split; [reflexivity|]. intros _. apply copy_none; assumption.
Qed.

Lemma response_complete_ok c : rs_okres c (rs_response_complete cb g c).
Proof.
  unfold rs_response_complete. destruct (c_out_tx c).
  - pose proof (response_complete_fr cb g n false c) as H. cbn zeta in H. destruct H as (N & A & B & C).
    apply okres_nd; assumption.
  - apply okres_geo_nd; [reflexivity|auto].
Qed.

Lemma finalize_tail_ok c : rs_okres c (rs_finalize_tail cb g c).
Proof.
  unfold rs_finalize_tail.
  destruct (gD_consolidate c) as (C1 & C2 & C3). destruct (rs_consolidate g c) as [[data|] c2]; cbn [snd] in *.
  2:{ apply okres_nd; cbn [fst snd]; [assumption| same_S |auto]. }
  destruct (_ =? 0)%nat.
  { eapply okres_trans; [exact C1 | same_S | apply response_complete_ok]. }
  destruct (rs_treat_response_line_as_body data).
  { pose proof (process_body_fr2 cb data (length (rs_dbytes data)) c2) as [P1 P2].
    destruct (rs_process_body cb data (length (rs_dbytes data)) c2) as [rc c3]. cbn [fst snd] in *.
    apply geo_proj in P2. destruct P2 as (F1 & F2 & F3).
    apply okres_nd; cbn [fst snd]; [ | | assumption].
    - unfold rs_gD in *; cbn; congruence.
    - intros; eapply S_keep; [|eassumption]. unfold rs_gS in *; cbn; congruence. }
  eapply okres_trans; [| |apply response_complete_ok].
  - unfold rs_gD, rs_set_out in *; cbn. brk; cbn; exact C1.
  - intros; eapply S_keep; [|eassumption]. unfold rs_gS, rs_set_out in *; cbn. brk; cbn; exact C2.
Qed.

Lemma finalize_ok c : rs_D c -> rs_okres c (rs_RES_FINALIZE cb g c).
Proof.
  intros HD. unfold rs_RES_FINALIZE.
  destruct (negb (rs_closed c)); [|apply finalize_tail_ok].
  destruct (peek_fr c) as (P1 & P2 & P3).
  assert (HD1 : rs_D (rs_peek_next c)) by (eapply D_of_gD; eauto).
  destruct (rs_nb (rs_peek_next c)) eqn:Enb.
  2:{ eapply okres_trans; [exact P1 | same_S | apply response_complete_ok]. }
  destruct (_ || _)%bool.
  2:{ eapply okres_trans; [exact P1 | same_S | apply finalize_tail_ok]. }
  destruct (rs_finalize_scan _ _) as [b c2] eqn:Es.
  apply finalize_scan_ok in Es; [|unfold rs_bytes_fuel; lia]. destruct Es as (A & B & C).
  destruct b.
  - eapply okres_trans; [| |apply finalize_tail_ok]; [congruence | same_S].
  - split; [cbn [snd]; congruence|]. split; [same_S|]. intros _. cbn [snd]. apply C. reflexivity.
Qed.

(* rs_S only looks at (state, chunked_length, body_data_left) *)
Definition rs_Sg (x : res_state * Z * Z) : Prop :=
  let '(s, ch, l) := x in (s = RES_BODY_CHUNKED_DATA -> 0 < ch) /\ (s = RES_BODY_IDENTITY_CL_KNOWN -> l <> 0).
Arguments rs_Sg : simpl never.
Lemma S_Sg c : rs_S c <-> rs_Sg (rs_gS c).
Proof. unfold rs_S, rs_Sg, rs_gS. tauto. Qed.
Lemma Sg_plain s ch l : rs_plain_state s -> rs_Sg (s, ch, l).
Proof. intros [H1 H2]. unfold rs_Sg. split; intros; congruence. Qed.

Lemma geo_peek c : rs_geo (rs_peek_next c) = rs_geo c.
Proof. unfold rs_peek_next, rs_load_next. brk; reflexivity. Qed.
Lemma gS_of_geo a b : rs_geo a = rs_geo b -> rs_gS a = rs_gS b.
Proof. intros H. apply geo_proj in H. tauto. Qed.
Lemma gD_of_geo a b : rs_geo a = rs_geo b -> rs_gD a = rs_gD b.
Proof. intros H. apply geo_proj in H. tauto. Qed.

(* ---- RES_IDLE ---- *)
Lemma idle_ok c : rs_plain_state (c_out_state c) -> rs_okres c (rs_RES_IDLE cb g c).
Proof.
  intros Hp. unfold rs_RES_IDLE.
  destruct (negb (rs_has_byte c)) eqn:Hb.
  { split; [reflexivity|]. split; [auto|]. intros _. cbn [snd]. apply has_byte_false. destruct (rs_has_byte c); [discriminate|reflexivity]. }
  set (p := if match nth_error (c_txs c) (c_out_next_tx_index c) with Some (Some _) => true | _ => false end then _ else _).
  assert (Hp2 : rs_gD (snd p) = rs_gD c /\ c_out_state (snd p) = c_out_state c).
  { subst p. destruct (match nth_error (c_txs c) (c_out_next_tx_index c) with Some (Some _) => true | _ => false end).
    - cbn [snd]. split; reflexivity.
    - set (c1 := c <| c_out_tx := None |>).
      set (c2 := if req_state_eqb (c_in_state c1) REQ_FINALIZE then _ else c1).
      assert (G2 : rs_geo c2 = rs_geo c).
      { subst c2. destruct (req_state_eqb _ _); [|reflexivity]. destruct (c_in_tx c1); [|reflexivity]. rewrite geo_req_complete. reflexivity. }
      pose proof (geo_tx_create g c2) as G3. destruct (connp_tx_create g c2) as [[id|] c3]; cbn [snd] in *.
      + match goal with |- context [tx_upd ?x id ?f] => pose proof (geo_tx_upd x id f) as G4 end.
        apply geo_proj in G4. destruct G4 as (A & B & _). apply geo_proj in G3. destruct G3 as (A3 & B3 & _).
        apply geo_proj in G2. destruct G2 as (A2 & B2 & _).
        split.
        * unfold rs_gD in *; cbn in *; congruence.
        * unfold rs_gS in *; cbn in *; congruence.
      + apply geo_proj in G3. destruct G3 as (A3 & B3 & _). apply geo_proj in G2. destruct G2 as (A2 & B2 & _).
        split; [congruence | unfold rs_gS in *; congruence]. }
  destruct p as [ok c1]. cbn [snd] in Hp2. destruct Hp2 as [Q1 Q2].
  assert (HS1 : rs_S c1) by (apply S_plain; rewrite Q2; assumption).
  destruct ok.
  - pose proof (response_start_fr cb (out_txi c1) c1) as H. cbn zeta in H. destruct H as (N & A & B & C).
    apply okres_nd; [congruence | auto | assumption].
  - apply okres_nd; cbn [fst snd]; [assumption | auto | auto].
Qed.

(* rs_otx only touches the transaction table and the fault bit *)
Lemma c_out_tx_put c i t : c_out (tx_put c i t) = c_out c.
Proof. unfold tx_put. brk; reflexivity. Qed.
Lemma c_out_tx_upd c i f : c_out (tx_upd c i f) = c_out c.
Proof. unfold tx_upd. brk; try apply c_out_tx_put; reflexivity. Qed.
Lemma c_out_otx f c : c_out (rs_otx f c) = c_out c.
Proof. unfold rs_otx. brk; try apply c_out_tx_upd; reflexivity. Qed.
Lemma chunked_otx f c : c_out_chunked_length (rs_otx f c) = c_out_chunked_length c.
Proof. pose proof (gS_otx f c) as H. unfold rs_gS in H. congruence. Qed.
Lemma left_otx f c : c_out_body_data_left (rs_otx f c) = c_out_body_data_left c.
Proof. pose proof (gS_otx f c) as H. unfold rs_gS in H. congruence. Qed.
Hint Rewrite c_out_otx state_otx chunked_otx left_otx : rsdb.

Ltac red_proj :=
  repeat (progress (cbn [fst snd];
                    unfold rs_clear_buffer, rs_set_state, rs_set_out, rs_set_header, rs_fault, rs_flag_invalid_folding,
                           rs_process_header, rs_flush_header, rs_unblock_request, rs_gD, rs_gS, rs_rdo in *;
                    cbn; autorewrite with rsdb)).
(* leaf (rc, X) of a state function, X built from record updates and rs_otx over a connp whose rs_gD / rs_gS are known *)
Ltac leaf_plain := apply okres_nd; [ red_proj; try congruence | intros _; apply S_Sg; red_proj; try (apply Sg_plain; plain) | auto ].

(* ---- RES_LINE ---- *)
Lemma line_complete_ok c : rs_okres c (rs_line_complete cb g c).
Proof.
  unfold rs_line_complete.
  destruct (gD_consolidate c) as (C1 & C2 & C3). destruct (rs_consolidate g c) as [[data|] c2]; cbn [snd] in *.
  2:{ apply okres_nd; cbn [fst snd]; [assumption| same_S |auto]. }
  destruct (rs_is_line_ignorable _ _).
  { destruct (rs_closed c2).
    - leaf_plain.
    - apply okres_nd; [red_proj; congruence | intros HS; apply (proj1 (S_Sg _)) in HS; apply S_Sg; red_proj; congruence | auto]. }
  destruct (rs_chomp (rs_dbytes data)) as [dc chomp_result].
  destruct (rs_treat_response_line_as_body _).
  - destruct (_ && _)%bool.
    { apply okres_nd; [red_proj; brk; red_proj; congruence | intros HS; apply (proj1 (S_Sg _)) in HS; apply S_Sg; red_proj; brk; red_proj; congruence | auto]. }
    match goal with |- context [rs_process_body cb ?d ?n ?x] =>
      pose proof (process_body_fr2 cb d n x) as [P1 P2]; destruct (rs_process_body cb d n x) as [rc c3] end.
    cbn [fst snd] in *. apply geo_proj in P2. destruct P2 as (F1 & F2 & F3).
    assert (F1' : rs_gD c3 = rs_gD c) by (rewrite F1; red_proj; brk; red_proj; congruence).
    assert (F2' : rs_gS c3 = rs_gS c) by (rewrite F2; red_proj; brk; red_proj; congruence).
    destruct rc; try (apply okres_nd; [red_proj; congruence | intros HS; apply (proj1 (S_Sg _)) in HS; apply S_Sg; red_proj; congruence | assumption]).
    destruct (_ <=? _)%nat.
    + leaf_plain.
    + apply okres_nd; [red_proj; congruence | intros HS; apply (proj1 (S_Sg _)) in HS; apply S_Sg; red_proj; congruence | auto].
  - match goal with |- context [tx_state_response_line cb ?i ?x] =>
      pose proof (response_line_fr cb i x) as [P1 P2]; destruct (tx_state_response_line cb i x) as [rc c3] end.
    cbn [fst snd] in *. apply geo_proj in P2. destruct P2 as (F1 & F2 & F3).
    assert (F1' : rs_gD c3 = rs_gD c) by (rewrite F1; red_proj; brk; red_proj; congruence).
    assert (F2' : rs_gS c3 = rs_gS c) by (rewrite F2; red_proj; brk; red_proj; congruence).
    destruct rc; try (apply okres_nd; [red_proj; congruence | intros HS; apply (proj1 (S_Sg _)) in HS; apply S_Sg; red_proj; congruence | assumption]).
    leaf_plain.
Qed.

Ltac leaf_same := apply okres_nd; [ red_proj; try congruence
                                  | intros HS; apply (proj1 (S_Sg _)) in HS; apply S_Sg; red_proj; congruence | auto ].

Lemma line_loop_ok fuel c : rs_D c -> rs_okres c (rs_line_loop cb g fuel c).
Proof.
  revert c. induction fuel as [|f IH]; intros c HD; cbn [rs_line_loop].
  - apply okres_geo_nd; [reflexivity|auto].
  - set (step := if negb (rs_closed c) then rs_copy_byte c else Some c).
    destruct step as [c1|] eqn:Es.
    2:{ subst step. destruct (negb (rs_closed c)); [|discriminate].
        split; [reflexivity|]. split; [auto|]. intros _. cbn [snd]. apply copy_none; assumption. }
    assert (E : rs_gD c1 = rs_gD c /\ rs_gS c1 = rs_gS c).
    { subst step. destruct (negb (rs_closed c)); [apply copy_some; assumption | inversion Es; split; reflexivity]. }
    destruct E as [E1 E2].
    assert (HD1 : rs_D c1) by (eapply D_of_gD; eauto).
    destruct (rs_nb_is c1 CR).
    + destruct (peek_fr c1) as (P1 & P2 & P3).
      assert (HD2 : rs_D (rs_peek_next c1)) by (eapply D_of_gD; eauto).
      destruct (rs_nb (rs_peek_next c1)) eqn:Enb.
      * destruct (n =? LF)%N.
        -- eapply okres_trans; [| |apply IH; assumption]; [congruence | same_S].
        -- set (c3 := rs_set_out _ (rs_peek_next c1)).
           assert (G3 : rs_gD c3 = rs_gD c /\ rs_gS c3 = rs_gS c) by (subst c3; split; red_proj; congruence).
           destruct G3 as [G31 G32].
           destruct (_ || _)%bool.
           ++ eapply okres_trans; [exact G31 | same_S | apply line_complete_ok].
           ++ eapply okres_trans; [exact G31 | same_S | apply IH; eapply D_of_gD; eauto].
      * split; [cbn [snd]; congruence|]. split; [same_S|]. intros _. cbn [snd]. apply peek_none; assumption.
    + destruct (_ || _)%bool.
      * eapply okres_trans; [exact E1 | same_S | apply line_complete_ok].
      * eapply okres_trans; [exact E1 | same_S | apply IH; assumption].
Qed.

(* ---- RES_HEADERS ---- *)
Lemma trailer_end_ok c : rs_okres c (rs_trailer_end cb c).
Proof.
  unfold rs_trailer_end, run_hook.
  pose proof (receiver_clear_fr cb c) as [P1 P2]. destruct (res_receiver_finalize_clear cb c) as [rc c1]. cbn [fst snd] in *.
  destruct rc; try (apply okres_geo_nd; assumption).
  match goal with |- context [run_hook_ex cb ?a ?b ?x ?y ?z ?w] =>
    pose proof (nd_run_hook_ex cb a b x y z w) as H1; pose proof (geo_run_hook_ex cb a b x y z w) as H2;
    destruct (run_hook_ex cb a b x y z w) as [rc2 c2] end.
  cbn [fst snd] in *. assert (G : rs_geo c2 = rs_geo c) by congruence.
  destruct rc2; try (apply okres_geo_nd; assumption).
  apply geo_proj in G. destruct G as (A & B & C). leaf_plain.
Qed.

Lemma geo_process_header l c : rs_geo (rs_process_header l c) = rs_geo c.
Proof. apply geo_otx. Qed.
Lemma geo_set_header h c : rs_geo (rs_set_header h c) = rs_geo c.
Proof. reflexivity. Qed.
Lemma geo_flush_header c : rs_geo (rs_flush_header c) = rs_geo c.
Proof. unfold rs_flush_header. destruct (k_header (c_out c)); [|reflexivity]. transitivity (rs_geo (rs_process_header b c)); [reflexivity|apply geo_process_header]. Qed.
Lemma geo_flag_folding c : rs_geo (rs_flag_invalid_folding c) = rs_geo c.
Proof. apply geo_otx. Qed.

Lemma headers_line_ok d c :
  match rs_headers_line cb g d c with
  | (Some r, _) => rs_okres c r
  | (None, c') => rs_gD c' = rs_gD c /\ rs_gS c' = rs_gS c
  end.
Proof.
  unfold rs_headers_line.
  set (c0 := if rs_has_byte c then match rs_cur_byte c (k_read (c_out c)) with Some _ => c | None => rs_fault c end else c).
  assert (G0 : rs_geo c0 = rs_geo c) by (subst c0; brk; reflexivity).
  destruct (rs_is_line_terminator _ _ _).
  - set (c1 := rs_clear_buffer (rs_flush_header c0)).
    assert (G1 : rs_geo c1 = rs_geo c) by (subst c1; rewrite geo_clear_buffer, geo_flush_header; assumption).
    clearbody c1. pose proof G1 as G1'. apply geo_proj in G1'. destruct G1' as (A & B & C).
    destruct (_ =? _).
    + leaf_plain.
    + eapply okres_trans; [exact A | same_S | apply trailer_end_ok].
  - cbv zeta.
    match goal with |- context [rs_clear_buffer ?X] => assert (GX : rs_geo X = rs_geo c) end.
    { brk; rewrite ?geo_set_header, ?geo_process_header, ?geo_flag_folding, ?geo_peek, ?geo_flush_header; try assumption.
      all: try (match goal with |- rs_geo (rs_set_header ?h ?x) = _ => transitivity (rs_geo x); [reflexivity|] end;
                rewrite ?geo_set_header, ?geo_process_header, ?geo_flag_folding, ?geo_peek, ?geo_flush_header; assumption). }
    cbn [fst snd]. apply geo_proj in GX. destruct GX as (A & B & C). split; [exact A | exact B].
Qed.

Lemma copy_or_fault c : let c' := match rs_copy_byte c with Some c1 => c1 | None => rs_fault c end in rs_gD c' = rs_gD c /\ rs_gS c' = rs_gS c.
Proof. cbn zeta. destruct (rs_copy_byte c) eqn:E; [apply copy_some; assumption | split; reflexivity]. Qed.
Lemma consume_succ_fr c : let c' := rs_set_out (fun k => k <| k_consume ::= S |>) c in rs_gD c' = rs_gD c /\ rs_gS c' = rs_gS c.
Proof. split; reflexivity. Qed.

Lemma headers_loop_ok fuel lf c : rs_D c -> rs_okres c (rs_headers_loop cb g fuel lf c).
Proof.
  revert lf c. induction fuel as [|f IH]; intros lf c HD; cbn [rs_headers_loop].
  - apply okres_geo_nd; [reflexivity|auto].
  - destruct (rs_closed c); [apply trailer_end_ok|].
    destruct (rs_copy_byte c) as [c1|] eqn:Ec.
    2:{ split; [reflexivity|]. split; [auto|]. intros _. cbn [snd]. apply copy_none; assumption. }
    destruct (copy_some c c1 Ec) as [E1 E2].
    assert (HD1 : rs_D c1) by (eapply D_of_gD; eauto).
    destruct (_ && _)%bool.
    { eapply okres_trans; [exact E1 | same_S | apply IH; assumption]. }
    match goal with |- context [let '(scan, c) := ?E in _] => set (sc := E) end.
    assert (HSC : rs_gD (snd sc) = rs_gD c1 /\ rs_gS (snd sc) = rs_gS c1 /\ (fst sc = 0%nat -> rs_consumed_all (snd sc))).
    { subst sc. destruct (rs_nb_is c1 CR).
      - destruct (peek_fr c1) as (P1 & P2 & P3).
        destruct (rs_nb (rs_peek_next c1)) eqn:Enb.
        + destruct (n =? LF)%N.
          * cbn [fst snd]. split; [|split; [|discriminate]].
            -- destruct lf; [|destruct (copy_or_fault (rs_peek_next c1)) as [A B]; congruence].
               set (x1 := match rs_copy_byte (rs_peek_next c1) with Some c => c | None => rs_fault (rs_peek_next c1) end).
               assert (X1 : rs_gD x1 = rs_gD c1) by (destruct (copy_or_fault (rs_peek_next c1)) as [A B]; subst x1; congruence).
               clearbody x1. destruct (peek_fr x1) as (Q1 & Q2 & Q3).
               destruct (rs_nb_is (rs_peek_next x1) CR); [|congruence].
               set (x2 := match rs_copy_byte (rs_peek_next x1) with Some c => c | None => rs_fault (rs_peek_next x1) end).
               assert (X2 : rs_gD x2 = rs_gD c1) by (destruct (copy_or_fault (rs_peek_next x1)) as [A B]; subst x2; congruence).
               clearbody x2.
               set (x3 := rs_set_out _ x2). assert (X3 : rs_gD x3 = rs_gD c1) by (subst x3; red_proj; congruence). clearbody x3.
               destruct (peek_fr x3) as (R1 & R2 & R3).
               destruct (rs_nb_is (rs_peek_next x3) LF); [|congruence].
               destruct (copy_or_fault (rs_peek_next x3)) as [A B]. red_proj. congruence.
            -- destruct lf; [|destruct (copy_or_fault (rs_peek_next c1)) as [A B]; congruence].
               set (x1 := match rs_copy_byte (rs_peek_next c1) with Some c => c | None => rs_fault (rs_peek_next c1) end).
               assert (X1 : rs_gS x1 = rs_gS c1) by (destruct (copy_or_fault (rs_peek_next c1)) as [A B]; subst x1; congruence).
               clearbody x1. destruct (peek_fr x1) as (Q1 & Q2 & Q3).
               destruct (rs_nb_is (rs_peek_next x1) CR); [|congruence].
               set (x2 := match rs_copy_byte (rs_peek_next x1) with Some c => c | None => rs_fault (rs_peek_next x1) end).
               assert (X2 : rs_gS x2 = rs_gS c1) by (destruct (copy_or_fault (rs_peek_next x1)) as [A B]; subst x2; congruence).
               clearbody x2.
               set (x3 := rs_set_out _ x2). assert (X3 : rs_gS x3 = rs_gS c1) by (subst x3; red_proj; congruence). clearbody x3.
               destruct (peek_fr x3) as (R1 & R2 & R3).
               destruct (rs_nb_is (rs_peek_next x3) LF); [|congruence].
               destruct (copy_or_fault (rs_peek_next x3)) as [A B]. red_proj. congruence.
          * destruct (n =? CR)%N; cbn [fst snd]; (split; [assumption|split; [assumption|discriminate]]).
        + cbn [fst snd]. split; [assumption|]. split; [assumption|]. intros _. apply peek_none; assumption.
      - destruct (peek_fr c1) as (P1 & P2 & P3).
        destruct (rs_nb_is (rs_peek_next c1) CR); cbn [fst snd].
        + destruct (copy_or_fault (rs_peek_next c1)) as [A B]. split; [congruence|]. split; [congruence|discriminate].
        + split; [assumption|]. split; [assumption|discriminate]. }
    destruct sc as [scan c2]. cbn [fst snd] in HSC. destruct HSC as (H1 & H2 & H3).
    assert (HD2 : rs_D c2) by (eapply D_of_gD; eauto).
    destruct scan as [|[|scan]].
    + split; [cbn [snd]; congruence|]. split; [same_S|]. intros _. cbn [snd]. apply H3. reflexivity.
    + eapply okres_trans; [| |apply IH; assumption]; [congruence | same_S].
    + destruct (gD_consolidate c2) as (C1 & C2 & C3). destruct (rs_consolidate g c2) as [[data|] c3]; cbn [snd] in *.
      2:{ apply okres_nd; cbn [fst snd]; [congruence | same_S | auto]. }
      assert (HD3 : rs_D c3) by (eapply D_of_gD; eauto).
      destruct (_ && _)%bool.
      { eapply okres_trans; [| |apply IH; assumption]; [congruence | same_S]. }
      pose proof (headers_line_ok (rs_dbytes data) c3) as HL.
      destruct (rs_headers_line cb g (rs_dbytes data) c3) as [[r|] c4].
      * eapply okres_trans; [| |exact HL]; [congruence | same_S].
      * destruct HL as [L1 L2]. eapply okres_trans; [| |apply IH]; [congruence | same_S | eapply D_of_gD; eauto].
Qed.

(* ---- RES_BODY_DETERMINE ---- *)
Lemma response_headers_leaf c x : rs_gD x = rs_gD c -> rs_Sg (rs_gS x) -> rs_okres c (rs_response_headers cb x).
Proof.
  intros A B. pose proof (response_headers_fr2 cb x) as [P1 P2]. apply geo_proj in P2. destruct P2 as (F1 & F2 & F3).
  apply okres_nd; [congruence | intros _; apply S_Sg; rewrite F2; exact B | exact P1].
Qed.

Lemma body_determine_ok c : rs_plain_state (c_out_state c) -> rs_okres c (rs_RES_BODY_DETERMINE cb c).
Proof.
  intros Hp. unfold rs_RES_BODY_DETERMINE.
  set (t := rs_tx c). set (sn := t_response_status_number t).
  destruct (_ && _ && _)%bool.
  { apply response_headers_leaf; [reflexivity | red_proj; apply Sg_plain; plain]. }
  set (c3 := if t_request_method_number t =? c_HTP_M_CONNECT then _ else c).
  assert (G3 : rs_gD c3 = rs_gD c /\ rs_gS c3 = rs_gS c).
  { subst c3. brk; split; red_proj; brk; reflexivity. }
  destruct G3 as [G31 G32]. clearbody c3.
  set (cl := rs_hdr_get_c (t_response_headers t) rs_str_content_length).
  set (te := rs_hdr_get_c (t_response_headers t) rs_str_transfer_encoding).
  cbv zeta.
  destruct (_ && _ && _)%bool.
  { apply response_headers_leaf.
    - red_proj. brk; red_proj; congruence.
    - red_proj. brk; red_proj; apply Sg_plain; plain. }
  destruct (_ && _ && _)%bool.
  { leaf_plain. }
  match goal with |- context [rs_hdr_get_c (t_request_headers t) rs_str_expect] => idtac end.
  set (c4 := if (400 <=? sn) && _ && _ && _ then _ else c3).
  assert (G4 : rs_gD c4 = rs_gD c /\ rs_gS c4 = rs_gS c).
  { subst c4. brk; split; red_proj; congruence. }
  destruct G4 as [G41 G42]. clearbody c4.
  set (c5 := if t_request_method_number t =? c_HTP_M_HEAD then _ else _).
  assert (G5 : rs_gD c5 = rs_gD c /\ c_out_chunked_length c5 = c_out_chunked_length c /\ c_out_body_data_left c5 = c_out_body_data_left c /\
               (c_out_state c5 = c_out_state c \/ c_out_state c5 = RES_FINALIZE)).
  { subst c5. brk; red_proj; (split; [congruence|]); (split; [congruence|]); (split; [congruence|]); auto; left; congruence. }
  destruct G5 as (G51 & G52 & G53 & G54). clearbody c5.
  assert (HS5 : rs_Sg (rs_gS c5)).
  { unfold rs_gS. apply Sg_plain. destruct G54 as [E|E]; rewrite E; [assumption|plain]. }
  set (p := if negb (res_state_eqb (c_out_state c5) RES_FINALIZE) then _ else (ST_OK, c5)).
  assert (HP : rs_nd (fst p) /\ rs_gD (snd p) = rs_gD c /\ rs_Sg (rs_gS (snd p))).
  { subst p. destruct (negb _); [|cbn [fst snd]; auto].
    set (ct := rs_hdr_get_c (t_response_headers t) rs_str_content_type).
    set (c6 := match ct with Some h => _ | None => c5 end).
    assert (G6 : rs_gD c6 = rs_gD c /\ rs_gS c6 = rs_gS c5) by (subst c6; destruct ct; split; red_proj; congruence).
    destruct G6 as [G61 G62]. clearbody c6. cbv zeta.
    destruct (match te with Some h => _ | None => false end).
    { cbn [fst snd]. split; [auto|]. split; red_proj; [congruence | apply Sg_plain; plain]. }
    destruct cl as [h|].
    - destruct (_ <? 0).
      + cbn [fst snd]. split; [auto|]. split; red_proj; [congruence|].
        unfold rs_gS in G62. inversion G62 as [[Q1 Q2 Q3]]. rewrite Q1, Q2, Q3. exact HS5.
      + destruct (negb (parse_content_length (h_value h) =? 0)) eqn:Ev; cbn [fst snd].
        * split; [auto|]. split; red_proj; [congruence|]. unfold rs_Sg. split; [discriminate|]. intros _.
          destruct (parse_content_length (h_value h) =? 0) eqn:E0; [discriminate|]. apply Z.eqb_neq in E0. exact E0.
        * split; [auto|]. split; red_proj; [congruence | apply Sg_plain; plain].
    - destruct (match ct with Some h => _ | None => false end); cbn [fst snd].
      + split; [auto|]. split; [congruence|]. rewrite G62. exact HS5.
      + split; [auto|]. split; red_proj; [congruence | apply Sg_plain; plain]. }
  destruct p as [rc c7]. cbn [fst snd] in HP. destruct HP as (N & A & B).
  destruct rc; try (apply okres_nd; cbn [fst snd]; [assumption | intros _; apply S_Sg; assumption | assumption]).
  apply response_headers_leaf; assumption.
Qed.

(* ---- dispatch ---- *)
Lemma state_fn_ok c : rs_D c -> rs_S c -> rs_okres c (rs_state_fn cb g (c_out_state c) c).
Proof.
  intros HD HS. destruct (c_out_state c) eqn:Hs; cbn [rs_state_fn].
  - apply idle_ok. rewrite Hs. plain.
  - apply line_loop_ok; assumption.
  - apply headers_loop_ok; assumption.
  - apply body_determine_ok. rewrite Hs. plain.
  - apply cl_known_ok; assumption.
  - apply stream_close_ok.
  - apply chunked_length_ok. rewrite Hs. plain.
  - apply chunked_data_ok; assumption.
  - apply chunked_data_end_ok.
  - apply finalize_ok; assumption.
Qed.

Lemma res_state_eqb_eq a b : res_state_eqb a b = true -> a = b.
Proof. destruct a, b; cbn; intros H; try discriminate; reflexivity. Qed.

Lemma handle_state_change_fr c :
  rs_nd (fst (rs_handle_state_change cb c)) /\ rs_geo (snd (rs_handle_state_change cb c)) = rs_geo c.
Proof.
  unfold rs_handle_state_change.
  destruct (match c_out_state_previous c with Some p => _ | None => false end); [split; [auto|reflexivity]|].
  set (p := if res_state_eqb (c_out_state c) RES_HEADERS then _ else (ST_OK, c)).
  assert (HP : rs_nd (fst p) /\ rs_geo (snd p) = rs_geo c).
  { subst p. destruct (res_state_eqb _ _); [|split; [auto|reflexivity]].
    set (c1 := match c_out_tx c with None => rs_fault c | Some _ => c end).
    assert (G1 : rs_geo c1 = rs_geo c) by (subst c1; destruct (c_out_tx c); reflexivity).
    destruct (_ =? _).
    - destruct (receiver_set_fr cb H_RESPONSE_HEADER_DATA c1) as [A B]. split; [assumption|congruence].
    - destruct (_ =? _).
      + destruct (receiver_set_fr cb H_RESPONSE_TRAILER_DATA c1) as [A B]. split; [assumption|congruence].
      + split; [auto|assumption]. }
  destruct p as [rc c2]. cbn [fst snd] in HP. destruct HP as [N G].
  destruct rc; cbn [fst snd]; split; try assumption.
Qed.

(* ---- the exit paths of the loop ---- *)
Lemma exit_fr rc c : rs_gD (fst (rs_res_exit cb g rc c)) = rs_gD c /\ rs_gS (fst (rs_res_exit cb g rc c)) = rs_gS c /\ rs_rdo (fst (rs_res_exit cb g rc c)) = rs_rdo c.
Proof.
  unfold rs_res_exit.
  destruct rc; try (split; [|split]; reflexivity).
  - (* ST_DATA *) destruct (receiver_send_fr cb false c) as [_ G]. apply geo_proj in G. cbn [fst]. exact G.
  - destruct (_ <=? _)%nat; cbn [fst]; (split; [|split]; reflexivity).
  - (* ST_DATA_BUFFER *)
    destruct (receiver_send_fr cb false c) as [_ G].
    pose proof (geo_res_buffer g (snd (res_receiver_send_data cb false c))) as G2.
    destruct (rs_res_buffer g (snd (res_receiver_send_data cb false c))) as [brc c2]. cbn [snd] in G2.
    assert (G3 : rs_geo c2 = rs_geo c) by congruence. apply geo_proj in G3.
    destruct brc; cbn [fst]; exact G3.
Qed.

Lemma exit_data rc c :
  ((rc = ST_DATA \/ rc = ST_DATA_BUFFER) -> rs_consumed_all c) ->
  snd (rs_res_exit cb g rc c) = c_HTP_STREAM_DATA -> rs_consumed_all (fst (rs_res_exit cb g rc c)).
Proof.
  intros H Hz. destruct (exit_fr rc c) as (A & _ & C).
  eapply all_of; [exact A | exact C |].
  assert (NE : c_HTP_STREAM_ERROR <> c_HTP_STREAM_DATA) by (vm_compute; discriminate).
  assert (NS : c_HTP_STREAM_STOP <> c_HTP_STREAM_DATA) by (vm_compute; discriminate).
  assert (NO : c_HTP_STREAM_DATA_OTHER <> c_HTP_STREAM_DATA) by (vm_compute; discriminate).
  unfold rs_res_exit in Hz.
  destruct rc; cbn [snd] in Hz; try contradiction; try (apply H; auto; fail).
  destruct (k_len (c_out c) <=? k_read (c_out c))%nat eqn:E; cbn [snd] in Hz; [|contradiction].
  apply Nat.leb_le in E. exact E.
Qed.

Lemma res_loop_ok fuel gap c :
  (gap = false -> rs_D c) -> rs_S c ->
  rs_S (fst (rs_res_loop cb g fuel gap c)) /\
  (snd (rs_res_loop cb g fuel gap c) = c_HTP_STREAM_DATA -> rs_consumed_all (fst (rs_res_loop cb g fuel gap c))).
Proof.
  revert c. induction fuel as [|f IH]; intros c HD HS; cbn [rs_res_loop].
  - cbn [fst snd]. split; [eapply S_keep; [|exact HS]; reflexivity | intros Hz; vm_compute in Hz; discriminate].
  - set (s := c_out_state c).
    set (gap_ok := (res_state_eqb s RES_BODY_IDENTITY_CL_KNOWN || res_state_eqb s RES_BODY_IDENTITY_STREAM_CLOSE)%bool).
    destruct (gap && negb gap_ok && negb (res_state_eqb s RES_FINALIZE))%bool.
    { cbn [fst snd]. split; [assumption | intros Hz; vm_compute in Hz; discriminate]. }
    set (p := if (gap && negb gap_ok)%bool then rs_response_complete cb g c else rs_state_fn cb g s c).
    assert (HP : rs_okres c p).
    { subst p. destruct gap.
      - cbn [andb]. destruct gap_ok eqn:Eg; cbn [negb].
        + subst gap_ok. apply Bool.orb_true_iff in Eg. destruct Eg as [Eg|Eg]; apply res_state_eqb_eq in Eg; rewrite Eg; cbn [rs_state_fn].
          * apply cl_known_ok; [exact Eg | assumption].
          * apply stream_close_ok.
        + apply response_complete_ok.
      - cbn [andb]. apply state_fn_ok; auto. }
    destruct p as [rc c1]. destruct HP as (A & B & C). cbn [fst snd] in A, B, C.
    assert (HS1 : rs_S c1) by auto.
    assert (HD1 : gap = false -> rs_D c1) by (intros Hg; eapply D_of_gD; [exact A | auto]).
    destruct rc.
    + destruct (c_out_status c1 =? c_HTP_STREAM_TUNNEL).
      { cbn [fst snd]. split; [assumption | intros Hz; vm_compute in Hz; discriminate]. }
      destruct (handle_state_change_fr c1) as [N G]. destruct (rs_handle_state_change cb c1) as [rc2 c2]. cbn [fst snd] in N, G.
      apply geo_proj in G. destruct G as (G1 & G2 & G3).
      assert (HS2 : rs_S c2) by (eapply S_keep; eauto).
      destruct rc2; try (destruct (exit_fr ST_OK c2) as (X1 & X2 & X3)).
      * apply IH; [intros Hg; eapply D_of_gD; [exact G1 | auto] | assumption].
      * destruct (exit_fr ST_ERROR c2) as (Y1 & Y2 & Y3). split; [eapply S_keep; eauto | apply exit_data; intros [E|E]; discriminate].
      * destruct (exit_fr ST_DECLINED c2) as (Y1 & Y2 & Y3). split; [eapply S_keep; eauto | apply exit_data; intros [E|E]; discriminate].
      * destruct N as [N1 N2]. congruence.
      * destruct (exit_fr ST_DATA_OTHER c2) as (Y1 & Y2 & Y3). split; [eapply S_keep; eauto | apply exit_data; intros [E|E]; discriminate].
      * destruct (exit_fr ST_STOP c2) as (Y1 & Y2 & Y3). split; [eapply S_keep; eauto | apply exit_data; intros [E|E]; discriminate].
      * destruct N as [N1 N2]. congruence.
    + destruct (exit_fr ST_ERROR c1) as (Y1 & Y2 & Y3). split; [eapply S_keep; eauto | apply exit_data; intros [E|E]; discriminate].
    + destruct (exit_fr ST_DECLINED c1) as (Y1 & Y2 & Y3). split; [eapply S_keep; eauto | apply exit_data; intros [E|E]; discriminate].
    + destruct (exit_fr ST_DATA c1) as (Y1 & Y2 & Y3). split; [eapply S_keep; eauto | apply exit_data; intros _; apply C; auto].
    + destruct (exit_fr ST_DATA_OTHER c1) as (Y1 & Y2 & Y3). split; [eapply S_keep; eauto | apply exit_data; intros [E|E]; discriminate].
    + destruct (exit_fr ST_STOP c1) as (Y1 & Y2 & Y3). split; [eapply S_keep; eauto | apply exit_data; intros [E|E]; discriminate].
    + destruct (exit_fr ST_DATA_BUFFER c1) as (Y1 & Y2 & Y3). split; [eapply S_keep; eauto | apply exit_data; intros _; apply C; auto].
Qed.
End States.

(* ---- the theorems ---- *)
Definition rs_chunk_ok (data : option bytes) (len : nat) : Prop :=
  match data with Some d => length d = len | None => True end.

Lemma res_data_core cb g data len c :
  rs_chunk_ok data len -> rs_S c ->
  rs_S (fst (connp_res_data cb g data len c)) /\
  (snd (connp_res_data cb g data len c) = c_HTP_STREAM_DATA -> rs_consumed_all (fst (connp_res_data cb g data len c))).
Proof.
  intros Hc HS. unfold connp_res_data.
  destruct (_ =? _); [split; [assumption | intros Hz; vm_compute in Hz; discriminate]|].
  destruct (_ =? _); [split; [assumption | intros Hz; vm_compute in Hz; discriminate]|].
  destruct (match c_out_tx c with None => _ | Some _ => false end).
  { cbn [fst snd]. split; [eapply S_keep; [|exact HS]; reflexivity | intros Hz; vm_compute in Hz; discriminate]. }
  destruct (_ && _)%bool; [split; [assumption | intros Hz; vm_compute in Hz; discriminate]|].
  set (c0 := _ <| c_out_data_counter ::= _ |>).
  assert (HS0 : rs_S c0) by (eapply S_keep; [|exact HS]; reflexivity).
  assert (HD0 : match data with None => (0 <? len)%nat | Some _ => false end = false -> rs_D c0).
  { subst c0. unfold rs_D. cbn. destruct data as [d|]; cbn.
    - intros _. unfold rs_chunk_ok in Hc. lia.
    - intros H. destruct len; [reflexivity|discriminate]. }
  clearbody c0.
  destruct (c_out_status c0 =? _); [cbn [fst snd]; split; [assumption | intros Hz; vm_compute in Hz; discriminate]|].
  apply res_loop_ok; assumption.
Qed.

(* the side conditions of the two counted body states are an invariant of the data entry point ... *)
Theorem res_data_keeps_S cb g data len c :
  rs_chunk_ok data len -> rs_S c -> rs_S (fst (connp_res_data cb g data len c)).
Proof. intros Hc HS. apply res_data_core; assumption. Qed.
Lemma rs_S_new : rs_S connp_new.
Proof. unfold rs_S. cbn. split; discriminate. Qed.

(* ... and under it HTP_STREAM_DATA means that every byte of the chunk has been consumed *)
Theorem res_data_data_means_all cb g data len c :
  rs_chunk_ok data len -> rs_S c ->
  snd (connp_res_data cb g data len c) = c_HTP_STREAM_DATA ->
  (k_len (c_out (fst (connp_res_data cb g data len c))) <= k_read (c_out (fst (connp_res_data cb g data len c))))%nat.
Proof. intros Hc HS Hz. apply res_data_core; assumption. Qed.
