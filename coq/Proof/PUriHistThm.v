(* C13 / C12 at history level: what the caller finds in the transaction's parsed_uri_raw / parsed_uri / flags after ANY
   delivery of a grammar request whose target is u  (PSegRun.sg_request_chunking, PSegFold.sg_request_fold_chunking). *)
Require Import Htp.Model.Base Htp.Model.MBstr Htp.Model.MConnTypes Htp.Model.MTxCommon Htp.Model.MReqLine Htp.Model.MReqUri Htp.Model.MTxReq.
Require Import Htp.Model.MReq Htp.Model.MRes Htp.Model.MConnp Htp.Model.MUri Htp.Model.MPath.
Require Import Htp.Spec.SWire Htp.Spec.SUri Htp.Spec.SPath Htp.Proof.PUri Htp.Proof.PPathDot Htp.Proof.PPathLen.
Require Import Htp.Proof.PWire Htp.Proof.PWireHdr Htp.Proof.PWireBlock Htp.Proof.PWireConn Htp.Proof.PWireExch.
Require Import Htp.Proof.PWireRun Htp.Proof.PWirePres Htp.Proof.PWireGlue Htp.Proof.PSeg Htp.Proof.PSegLine Htp.Proof.PSegHdr Htp.Proof.PSegGen Htp.Proof.PSegRun Htp.Proof.PSegFold Htp.Proof.PSegPipe.
Require Import Htp.Proof.PUriHist Htp.Proof.PUriHistTx.
Local Open Scope N_scope.

(* ---- a grammar target has no trailing space, and its split always has a path ---- *)
Lemma uh_strip_id u : forallb wr_uri_byte u = true -> strip_right (N.eqb SP) u = u.
Proof.
  intros H. unfold strip_right.
  assert (Hr : forallb wr_uri_byte (rev u) = true).
  { apply forallb_forall. intros x Hx. apply in_rev in Hx. rewrite forallb_forall in H. apply H. exact Hx. }
  destruct (rev u) as [|x r] eqn:E; [rewrite <- (rev_involutive u), E; reflexivity|].
  cbn [forallb] in Hr. apply andb_prop in Hr. destruct Hr as [Hx _]. destruct (wr_uri_byte_facts x Hx) as (_ & _ & _ & Hsp).
  cbn [drop_while]. rewrite N.eqb_sym, Hsp, <- E. apply rev_involutive.
Qed.
Lemma uh_tail_path r : exists p q f, uri_parse_tail r = (Some p, q, f).
Proof.
  unfold uri_parse_tail. destruct (uri_until uri_pq_stop r) as [path r3]. destruct r3 as [|c r3']; [eexists _, _, _; reflexivity|].
  destruct (c =? uri_QMARK).
  - destruct (uri_until uri_q_stop r3') as [q r4]. destruct r4 as [|d f]; [eexists _, _, _; reflexivity|]. destruct (d =? uri_HASH); eexists _, _, _; reflexivity.
  - destruct (c =? uri_HASH); eexists _, _, _; reflexivity.
Qed.
Lemma uh_path_some u : wr_uri_ok u = true -> exists p, uri_path (parse_uri u) = Some p.
Proof.
  intros W. unfold wr_uri_ok in W. apply andb_prop in W. destruct W as [Wn Wb]. unfold parse_uri, uri_strip. rewrite (uh_strip_id u Wb).
  destruct u as [|x u']; [discriminate|]. destruct (uri_split_scheme (x :: u')) as [scheme r1]. destruct (uri_split_authority scheme r1) as [auth r2].
  destruct (uh_tail_path r2) as (p & q & f & E). rewrite E. destruct auth as [a|]; [|exists p; reflexivity].
  destruct (uri_split_credentials a) as [[user pass] hostpart]. destruct (uri_parse_hostpart hostpart) as [host port]. exists p. reflexivity.
Qed.
Lemma uh_rejoin_path_len r : (length (uri_ob (uri_path r)) <= length (rejoin r))%nat.
Proof. unfold rejoin. rewrite !app_length. lia. Qed.

(* ---- the indicators, one bit each ---- *)
Definition uh_pure_bits : list N :=
  [c_HTP_PATH_ENCODED_SEPARATOR; c_HTP_PATH_OVERLONG_U; c_HTP_PATH_HALF_FULL_RANGE; c_HTP_PATH_UTF8_VALID; c_HTP_PATH_UTF8_INVALID; c_HTP_PATH_UTF8_OVERLONG].
Definition uh_shared_bits : list N := [c_HTP_PATH_INVALID_ENCODING; c_HTP_PATH_ENCODED_NUL; c_HTP_PATH_RAW_NUL].
Lemma uh_pure_bits_sub b : In b uh_pure_bits -> N.land b uh_PURE = b.
Proof. intros H. cbn [uh_pure_bits In] in H. repeat (destruct H as [H|H]; [subst b; reflexivity|]). contradiction. Qed.
Lemma uh_shared_bits_sub b : In b uh_shared_bits -> N.land b uh_S3 = b.
Proof. intros H. cbn [uh_shared_bits In] in H. repeat (destruct H as [H|H]; [subst b; reflexivity|]). contradiction. Qed.
Lemma uh_has_0 b : flag_has 0 b = false. Proof. reflexivity. Qed.
Lemma uh_has_disj a m b : N.land a m = 0 -> N.land b m = b -> flag_has a b = false.
Proof. intros H Hb. unfold flag_has. rewrite (uh_land_0_sub a m b H Hb). reflexivity. Qed.

(* ================= the statements about one transaction ================= *)
(* C13: the reported raw components are the split of the target; re-joined they give the target back exactly when the
   target is outside finding F13; always: the target with one contiguous piece left out; '/' targets have no scheme and
   no authority; the port number is the value of the port text *)
Definition uh_c13 (u : bytes) (t : tx) : Prop :=
  let raw := uh_uri_of (t_parsed_uri_raw t) in
  t_request_uri t = Some u /\ raw = parse_uri u /\ u_port_number (t_parsed_uri_raw t) = (-1)%Z /\
  (rejoin raw = u <-> no_junk_after_bracketb u = true) /\
  (exists A j B, u = A ++ j ++ B /\ rejoin raw = A ++ B) /\
  (forall r, u = 47 :: r -> uri_scheme raw = None /\ uri_has_auth raw = false) /\
  exists nu, t_parsed_uri t = Some nu /\ u_port nu = None /\
    match uri_port raw with
    | None => u_port_number nu = (-1)%Z
    | Some p =>
      u_port_number nu = fst (norm_port p) /\
      (snd (norm_port p) = true -> flag_has (t_flags t) c_HTP_HOSTU_INVALID = true) /\
      (((1 <= fst (norm_port p) <= 65535)%Z /\ snd (norm_port p) = false /\ port_text p (fst (norm_port p))) \/
       (fst (norm_port p) = (-1)%Z /\ snd (norm_port p) = true /\ ~ exists v', (1 <= v' <= 65535)%Z /\ port_text p v'))
    end.

(* C12: the reported path is the pipeline of the raw path under the connection's path-decoder configuration; shorter than
   the raw path, without dot segments, stable; the indicators no other component can raise are exactly the pipeline's, the
   three the generic decoder shares are at least the pipeline's (exactly, when the target has no authority and no fragment) *)
Definition uh_c12 (g : cfg) (u : bytes) (t : tx) : Prop :=
  let c := g_dec_url_path g in
  exists p nu, uri_path (parse_uri u) = Some p /\ u_path (t_parsed_uri_raw t) = Some p /\ t_parsed_uri t = Some nu /\
    u_path nu = Some (pth_pipeline c p) /\ u_query nu = uri_query (parse_uri u) /\
    u_scheme nu = option_map to_lowercase (uri_scheme (parse_uri u)) /\
    (length (pth_pipeline c p) <= length p)%nat /\ (length p <= length u)%nat /\
    (forall s, In s (dot_split_on pth_SL (pth_pipeline c p)) -> s <> [pth_DOT] /\ s <> [pth_DOT; pth_DOT]) /\
    dot_normalize (pth_pipeline c p) = pth_pipeline c p /\
    (forall b, In b uh_pure_bits -> flag_has (t_flags t) b = pth_has b (snd (pth_pipeline_st c p))) /\
    (forall b, In b uh_shared_bits -> pth_has b (snd (pth_pipeline_st c p)) = true -> flag_has (t_flags t) b = true) /\
    (uri_has_auth (parse_uri u) = false -> uri_fragment (parse_uri u) = None ->
     forall b, In b uh_shared_bits -> flag_has (t_flags t) b = pth_has b (snd (pth_pipeline_st c p))).

Lemma uh_c13_of g u t : wr_uri_ok u = true -> t_request_uri t = Some u -> uh_tx_ok g u t -> uh_c13 u t.
Proof.
  intros W Hu (R & nu & Pu & Ok & Fk). unfold uh_c13. cbv zeta. rewrite R, uh_uri_of_raw.
  assert (Wb : forallb wr_uri_byte u = true) by (unfold wr_uri_ok in W; apply andb_prop in W; apply W).
  pose proof (uh_strip_id u Wb) as Es.
  split; [exact Hu|]. split; [reflexivity|]. split; [reflexivity|].
  split; [pose proof (partition_exact u) as X; rewrite Es in X; exact X|].
  split; [pose proof (partition_no_invention u) as X; rewrite Es in X; exact X|].
  split; [intros r ->; apply slash_no_scheme_no_authority|].
  exists nu. split; [exact Pu|]. destruct Ok as (_ & Op & Opn & _). split; [exact Op|].
  change (u_port (uh_raw u)) with (uri_port (parse_uri u)) in Opn.
  destruct Fk as (A & B & Ef & _ & _ & _ & _ & PA). change (u_port (uh_raw u)) with (uri_port (parse_uri u)) in PA.
  destruct (uri_port (parse_uri u)) as [p|]; [|exact Opn].
  cbn [uri_norm_port_opt] in Opn, PA. split; [exact Opn|]. split.
  - intros Hi. rewrite Ef. apply uh_has_lor_l, uh_has_lor_l. apply PA. exact Hi.
  - pose proof (port_spec p) as X. destruct (norm_port p) as [v i]. cbn [fst snd]. exact X.
Qed.

Lemma uh_c12_of g u t : wr_uri_ok u = true -> uh_tx_ok g u t -> uh_c12 g u t.
Proof.
  intros W (R & nu & Pu & Ok & Fk). unfold uh_c12. cbv zeta.
  destruct (uh_path_some u W) as (p & Ep). exists p, nu.
  assert (Rp : u_path (uh_raw u) = Some p) by exact Ep.
  destruct Ok as (Os & _ & _ & Opath & Oq & _). rewrite Rp in Opath. cbn [option_map] in Opath.
  split; [exact Ep|]. split; [rewrite R; exact Rp|]. split; [exact Pu|]. split; [exact Opath|]. split; [exact Oq|]. split; [exact Os|].
  split; [apply pth_pipeline_length|].
  split.
  { assert (Wb : forallb wr_uri_byte u = true) by (unfold wr_uri_ok in W; apply andb_prop in W; apply W).
    destruct (partition_no_invention u) as (A & j & B & E1 & E2). rewrite (uh_strip_id u Wb) in E1.
    pose proof (uh_rejoin_path_len (parse_uri u)) as L. rewrite Ep, E2 in L. cbn [uri_ob] in L.
    rewrite E1, !app_length. rewrite app_length in L. lia. }
  assert (En : exists s, pth_pipeline (g_dec_url_path g) p = dot_normalize s).
  { unfold pth_pipeline, pth_pipeline_st. destruct (pth_decode_path (g_dec_url_path g) p) as [p1 st1].
    destruct (if d_bestfit (g_dec_url_path g) then _ else _) as [p2 st2]. exists p2. reflexivity. }
  destruct En as (s0 & En).
  split; [rewrite En; apply normalize_no_dot_segment|]. split; [rewrite En; apply dot_normalize_idempotent|].
  destruct Fk as (A & B & Ef & MA & MB & NA & NB & _).
  assert (EP : uh_praw g (uh_raw u) = fst (snd (pth_pipeline_st (g_dec_url_path g) p))) by (unfold uh_praw; rewrite Rp; reflexivity).
  rewrite EP in Ef. rewrite Ef. split; [|split].
  - intros b Hb. rewrite !uh_flag_has_lor, (uh_has_disj A uh_PURE b MA (uh_pure_bits_sub b Hb)), (uh_has_disj B uh_PURE b MB (uh_pure_bits_sub b Hb)).
    rewrite orb_false_r. reflexivity.
  - intros b _ Hb. apply uh_has_lor_l, uh_has_lor_r. exact Hb.
  - intros Ha Hfr b Hb.
    assert (A0 : A = 0).
    { apply NA. unfold uri_has_auth in Ha. apply orb_false_iff in Ha. destruct Ha as [Ha H4]. apply orb_false_iff in Ha. destruct Ha as [Ha H3].
      apply orb_false_iff in Ha. destruct Ha as [H1 H2]. unfold uh_noauth, uh_raw, uh_puri_of. cbn [u_user u_pass u_host u_port].
      destruct (uri_hostname (parse_uri u)); [discriminate|]. destruct (uri_username (parse_uri u)); [discriminate|].
      destruct (uri_password (parse_uri u)); [discriminate|]. destruct (uri_port (parse_uri u)); [discriminate|]. repeat split. }
    rewrite A0, N.lor_0_l, uh_flag_has_lor, (uh_has_disj B uh_S3 b (NB Hfr) (uh_shared_bits_sub b Hb)), orb_false_r. reflexivity.
Qed.

(* ---- the statements do not look at HTP_MULTI_PACKET_HEAD (the one flag that depends on the segmentation) ---- *)
Lemma uh_has_mask f f' m b : N.ldiff f m = N.ldiff f' m -> N.land b m = 0 -> flag_has f b = flag_has f' b.
Proof.
  intros H Hb.
  assert (X : forall x, N.land x b = N.land (N.ldiff x m) b).
  { intros x. apply N.bits_inj. intros n. rewrite !N.land_spec, N.ldiff_spec.
    pose proof (f_equal (fun y => N.testbit y n) Hb) as Hn. cbv beta in Hn. rewrite N.land_spec, N.bits_0 in Hn.
    destruct (N.testbit x n), (N.testbit b n), (N.testbit m n); try reflexivity; discriminate. }
  unfold flag_has. rewrite (X f), (X f'), H. reflexivity.
Qed.
Lemma uh_mask_proj t t' : sg_mask t = sg_mask t' ->
  t_request_uri t = t_request_uri t' /\ t_parsed_uri_raw t = t_parsed_uri_raw t' /\ t_parsed_uri t = t_parsed_uri t' /\
  N.ldiff (t_flags t) c_HTP_MULTI_PACKET_HEAD = N.ldiff (t_flags t') c_HTP_MULTI_PACKET_HEAD.
Proof.
  intros H. split; [exact (f_equal t_request_uri H)|]. split; [exact (f_equal t_parsed_uri_raw H)|]. split; [exact (f_equal t_parsed_uri H)|exact (f_equal t_flags H)].
Qed.
Lemma uh_pure_mph b : In b uh_pure_bits -> N.land b c_HTP_MULTI_PACKET_HEAD = 0.
Proof. intros H. cbn [uh_pure_bits In] in H. repeat (destruct H as [H|H]; [subst b; reflexivity|]). contradiction. Qed.
Lemma uh_shared_mph b : In b uh_shared_bits -> N.land b c_HTP_MULTI_PACKET_HEAD = 0.
Proof. intros H. cbn [uh_shared_bits In] in H. repeat (destruct H as [H|H]; [subst b; reflexivity|]). contradiction. Qed.

Lemma uh_c13_mask u t t' : sg_mask t = sg_mask t' -> uh_c13 u t' -> uh_c13 u t.
Proof.
  intros M H. destruct (uh_mask_proj t t' M) as (E1 & E2 & E3 & Ef). unfold uh_c13 in *. cbv zeta in *.
  rewrite E1, E2, E3, (uh_has_mask _ _ _ c_HTP_HOSTU_INVALID Ef eq_refl). exact H.
Qed.
Lemma uh_c12_mask g u t t' : sg_mask t = sg_mask t' -> uh_c12 g u t' -> uh_c12 g u t.
Proof.
  intros M H. destruct (uh_mask_proj t t' M) as (_ & E2 & E3 & Ef). unfold uh_c12 in *. cbv zeta in *.
  destruct H as (p & nu & H1 & H2 & H3 & H4 & H5 & H6 & H7 & H8 & H9 & H10 & F1 & F2 & F3).
  exists p, nu. rewrite E2, E3. repeat (split; [assumption|]). split; [|split].
  - intros b Hb. rewrite (uh_has_mask _ _ _ b Ef (uh_pure_mph b Hb)). apply F1. exact Hb.
  - intros b Hb Hp. rewrite (uh_has_mask _ _ _ b Ef (uh_shared_mph b Hb)). apply F2; assumption.
  - intros Ha Hfr b Hb. rewrite (uh_has_mask _ _ _ b Ef (uh_shared_mph b Hb)). apply F3; assumption.
Qed.

(* ---- the reference transaction of a grammar request ---- *)
Lemma uh_req_parts r : wr_request_ok r = true ->
  wr_wf_request_line (wq_method r) (wq_uri r) (wq_protocol r) = true /\ wr_uri_ok (wq_uri r) = true /\ wr_eqb (wq_method r) wr_str_connect = false.
Proof.
  intros Wr. unfold wr_request_ok in Wr. apply andb_prop in Wr. destruct Wr as [Wr Wc]. apply andb_prop in Wr. destruct Wr as [Wr _]. apply andb_prop in Wr. destruct Wr as [Wl _].
  apply negb_true_iff in Wc. split; [exact Wl|]. split; [|exact Wc].
  unfold wr_wf_request_line in Wl. apply andb_prop in Wl. destruct Wl as [Wl _]. apply andb_prop in Wl. apply Wl.
Qed.
Lemma uh_mask_uri t : t_request_uri (sg_mask t) = t_request_uri t. Proof. reflexivity. Qed.
Lemma uh_tfin_uri g k r fl : g_allow_space_uri g = false -> wr_request_ok r = true ->
  t_request_uri (sg_tfin g k (wq_method r) (wq_uri r) (wq_protocol r) (wq_fields r) fl) = Some (wq_uri r).
Proof. intros Hsp Wr. destruct (sg_tfin_reported g k r fl Hsp Wr) as (_ & _ & H & _). rewrite uh_mask_uri in H. exact H. Qed.
Lemma uh_tfin_c g k r fl : g_allow_space_uri g = false -> wr_request_ok r = true ->
  let t := sg_tfin g k (wq_method r) (wq_uri r) (wq_protocol r) (wq_fields r) fl in uh_c13 (wq_uri r) t /\ uh_c12 g (wq_uri r) t.
Proof.
  intros Hsp Wr t. destruct (uh_req_parts r Wr) as (Wl & Wu & Wc).
  pose proof (uh_tfin g k _ _ _ (wq_fields r) fl Hsp Wl Wc) as Ok. fold t in Ok.
  pose proof (uh_tfin_uri g k r fl Hsp Wr) as Hu. fold t in Hu.
  clearbody t. split; [apply (uh_c13_of g); assumption|apply uh_c12_of; assumption].
Qed.

(* ================= the theorems ================= *)
Local Close Scope N_scope.
(* any segmentation of a grammar request (header fields one line each) *)
Theorem uh_request_uri_chunking : forall cb g r (chunks : list bytes),
  wr_all_ok cb -> g_allow_space_uri g = false -> wr_request_ok r = true -> sg_fits g r = true ->
  Forall (fun x => x <> []) chunks -> concat chunks = wr_request_wire r ->
  exists t, c_txs (fst (cp_run cb g connp_new (OpOpen :: map OpReqData chunks))) = [Some t] /\
            uh_c13 (wq_uri r) t /\ uh_c12 g (wq_uri r) t.
Proof.
  intros cb g r chunks Hcb Hsp Wr Hf Hall Hc.
  destruct (sg_request_chunking cb g r chunks Hcb Hsp Wr Hf Hall Hc) as (t & T & M).
  destruct (uh_tfin_c g 0 r false Hsp Wr) as [C13 C12]. cbv zeta in C13, C12. fold (sg_tref g r) in C13, C12.
  exists t. split; [exact T|]. split; [apply (uh_c13_mask _ t _ M C13)|apply (uh_c12_mask g _ t _ M C12)].
Qed.
(* ... with the header fields folded anywhere *)
Theorem uh_request_uri_fold_chunking : forall cb g r (cuts : list (list bytes)) (chunks : list bytes),
  wr_all_ok cb -> g_allow_space_uri g = false -> wr_request_ok r = true -> sg_cuts_ok r cuts = true -> sg_fold_fits g r cuts = true ->
  Forall (fun x => x <> []) chunks -> concat chunks = sg_fold_wire r cuts ->
  exists t, c_txs (fst (cp_run cb g connp_new (OpOpen :: map OpReqData chunks))) = [Some t] /\
            uh_c13 (wq_uri r) t /\ uh_c12 g (wq_uri r) t.
Proof.
  intros cb g r cuts chunks Hcb Hsp Wr Hcuts Hf Hall Hc.
  destruct (sg_request_fold_chunking cb g r cuts chunks Hcb Hsp Wr Hcuts Hf Hall Hc) as (t & T & M).
  destruct (uh_tfin_c g 0 r false Hsp Wr) as [C13 C12]. cbv zeta in C13, C12. fold (sg_tref g r) in C13, C12.
  exists t. split; [exact T|]. split; [apply (uh_c13_mask _ t _ M C13)|apply (uh_c12_mask g _ t _ M C12)].
Qed.

(* ================= evaluation: six targets, delivered whole and byte by byte ================= *)
Local Open Scope N_scope.
Definition uh_ex_cfg (p : nat) : cfg := cp_make_cfg p (Z.to_nat 18000) 512 false false 0.
Definition uh_ex_req (u : bytes) : wr_request := mk_wr_request [71;69;84] u wr_http11 [mk_wr_field [72;111;115;116] [SP] [97] []].
(* http://user:pw@Example.COM:8080/a/./b/../c%2e%2e/x?q=1#frag *)
Definition uh_ex_u1 : bytes := [104;116;116;112;58;47;47;117;115;101;114;58;112;119;64;69;120;97;109;112;108;101;46;67;79;77;58;56;48;56;48;47;97;47;46;47;98;47;46;46;47;99;37;50;101;37;50;101;47;120;63;113;61;49;35;102;114;97;103].
(* http://[::1]:80/p *)
Definition uh_ex_u2 : bytes := [104;116;116;112;58;47;47;91;58;58;49;93;58;56;48;47;112].
(* /a/%2e%2e/b\c/../d%00e *)
Definition uh_ex_u3 : bytes := [47;97;47;37;50;101;37;50;101;47;98;92;99;47;46;46;47;100;37;48;48;101].
(* /p?x#y?z *)
Definition uh_ex_u4 : bytes := [47;112;63;120;35;121;63;122].
(* http://[::1]x:80/p   (finding F13: the x after the bracket is in no component) *)
Definition uh_ex_u5 : bytes := [104;116;116;112;58;47;47;91;58;58;49;93;120;58;56;48;47;112].
(* http://h:99999/%zz *)
Definition uh_ex_u6 : bytes := [104;116;116;112;58;47;47;104;58;57;57;57;57;57;47;37;122;122].
Definition uh_ex_all : list bytes := [uh_ex_u1; uh_ex_u2; uh_ex_u3; uh_ex_u4; uh_ex_u5; uh_ex_u6].

(* what is looked at: raw components, normalised scheme / port number / path / query, the path indicators and HOSTU_INVALID *)
Definition uh_view (t : tx) :=
  (t_parsed_uri_raw t, option_map (fun nu => (u_scheme nu, u_port nu, u_port_number nu, u_path nu, u_query nu)) (t_parsed_uri t),
   N.land (t_flags t) (N.lor uh_PM c_HTP_HOSTU_INVALID)).
Definition uh_ex_run (p : nat) (chunks : list bytes) :=
  map (option_map uh_view) (c_txs (fst (cp_run sg_ex_ok (uh_ex_cfg p) connp_new (OpOpen :: map OpReqData chunks)))).
(* the expected raw components and normalised fields, from the leaf models of C13 and C12 *)
Definition uh_ex_expect (p : nat) (u : bytes) :=
  let raw := uh_raw u in
  (raw, Some (option_map to_lowercase (u_scheme raw), @None bytes, fst (uri_norm_port_opt (u_port raw)),
              option_map (pth_pipeline (g_dec_url_path (uh_ex_cfg p))) (u_path raw), u_query raw)).

Example uh_ex_premises :
  forallb (fun p => forallb (fun u => sg_req_ok (uh_ex_cfg p) (uh_ex_req u)) uh_ex_all) [0; 1; 2]%nat = true /\
  map no_junk_after_bracketb uh_ex_all = [true; true; true; true; false; true].
Proof. split; vm_compute; reflexivity. Qed.
(* whole = byte by byte = the leaf models, for every target under three personalities (MINIMAL, GENERIC, IDS) *)
Example uh_ex_runs :
  forall p u, In p [0; 1; 2]%nat -> In u uh_ex_all ->
    uh_ex_run p (sg_bytewise (wr_request_wire (uh_ex_req u))) = uh_ex_run p [wr_request_wire (uh_ex_req u)] /\
    map (option_map (fun v => (fst (fst v), snd (fst v)))) (uh_ex_run p [wr_request_wire (uh_ex_req u)]) = [Some (uh_ex_expect p u)].
Proof.
  intros p u Hp Hu. cbn [In] in Hp, Hu.
  repeat (destruct Hp as [Hp|Hp]; [subst p|]); try contradiction;
  repeat (destruct Hu as [Hu|Hu]; [subst u|]); try contradiction; split; vm_compute; reflexivity.
Qed.
(* the values: userinfo, port, dot segments and %2e under IDS: path "/a/c../x", port 8080, no indicator *)
Example uh_ex_1 :
  uh_ex_run 2 (sg_bytewise (wr_request_wire (uh_ex_req uh_ex_u1))) =
  [Some (mkpuri (Some [104;116;116;112]) (Some [117;115;101;114]) (Some [112;119]) (Some [69;120;97;109;112;108;101;46;67;79;77]) (Some [56;48;56;48])
                (Some [47;97;47;46;47;98;47;46;46;47;99;37;50;101;37;50;101;47;120]) (Some [113;61;49]) (Some [102;114;97;103]) (-1),
         Some (Some [104;116;116;112], None, 8080%Z, Some [47;97;47;99;46;46;47;120], Some [113;61;49]), 0)].
Proof. vm_compute. reflexivity. Qed.
(* "/a/%2e%2e/b\c/../d%00e" under IDS: "/b/d<NUL>e", HTP_PATH_ENCODED_NUL; under MINIMAL: "/b\c/../d<NUL>e"?  no: the
   backslash is not a separator there, "b\c" is one segment and ".." removes it: "/d<NUL>e" *)
Example uh_ex_3 :
  map (option_map (fun v => (snd (fst v), snd v))) (uh_ex_run 2 (sg_bytewise (wr_request_wire (uh_ex_req uh_ex_u3)))) =
    [Some (Some (None, None, (-1)%Z, Some [47;98;47;100;0;101], None), c_HTP_PATH_ENCODED_NUL)] /\
  map (option_map (fun v => (snd (fst v), snd v))) (uh_ex_run 0 (sg_bytewise (wr_request_wire (uh_ex_req uh_ex_u3)))) =
    [Some (Some (None, None, (-1)%Z, Some [47;100;0;101], None), c_HTP_PATH_ENCODED_NUL)].
Proof. split; vm_compute; reflexivity. Qed.
(* finding F13 at history level: the reported components of "http://[::1]x:80/p" re-join to "http://[::1]:80/p" *)
Example uh_ex_5 :
  map (option_map (fun v => rejoin (uh_uri_of (fst (fst v))))) (uh_ex_run 1 (sg_bytewise (wr_request_wire (uh_ex_req uh_ex_u5)))) = [Some uh_ex_u2].
Proof. vm_compute. reflexivity. Qed.
(* port out of range and an invalid escape: port number -1, HTP_HOSTU_INVALID and HTP_PATH_INVALID_ENCODING *)
Example uh_ex_6 :
  map (option_map (fun v => (snd (fst v), snd v))) (uh_ex_run 1 (sg_bytewise (wr_request_wire (uh_ex_req uh_ex_u6)))) =
    [Some (Some (Some [104;116;116;112], None, (-1)%Z, Some [47;37;122;122], None), N.lor c_HTP_PATH_INVALID_ENCODING c_HTP_HOSTU_INVALID)].
Proof. vm_compute. reflexivity. Qed.
