(* C01, model level, runs: from htp_connp_create's parser every sequence of API operations that meets the run
   premise ends with c_fault = false. *)
Require Import Htp.Model.MConnTypes Htp.Model.MTxCommon Htp.Model.MBstr Htp.Model.MResLine Htp.Model.MTxRes Htp.Model.MRes.
Require Import Htp.Model.MReq Htp.Model.MConnp.
Require Import Htp.Proof.PReq Htp.Proof.PRes Htp.Proof.PConnp Htp.Proof.PTermReq Htp.Proof.PTermRes Htp.Proof.PSafe Htp.Proof.PSafeRes.
Local Open Scope Z_scope.
Local Arguments Nat.ltb : simpl never.
Local Arguments Nat.leb : simpl never.
Local Arguments Nat.eqb : simpl never.
Local Arguments Nat.sub : simpl never.
Local Arguments Nat.add : simpl never.

(* ------------------------------------------------------------------------------------------------ *)
(* 1. the fuel of the two loops is never exhausted (PTermReq / PTermRes) *)

Section Fuel.
Variable cb : cb_oracle.
Variable g : cfg.

Lemma rq_loop_opt_oof f gap : forall c r, rq_loop_opt cb g f gap c = Some r -> rq_loop_oof cb g f gap c = false.
Proof.
  induction f as [|f IH]; intros c r E; cbn [rq_loop_opt rq_loop_oof] in *; [discriminate|].
  destruct (rq_iter cb g gap c) as [x|c1]; [reflexivity|]. exact (IH c1 r E).
Qed.
Lemma req_data_oof_is_gen data len c :
  req_data_oof cb g data len c = rt_req_data_gen (fun _ => false) (rq_loop_oof cb g (rq_fuel len)) data len c.
Proof. reflexivity. Qed.
Theorem req_data_oof_false data len c :
  rq_inv c -> (forall d, data = Some d -> (len <= length d)%nat) -> (c_in_status c = c_HTP_STREAM_CLOSED -> len = 0%nat) ->
  req_data_oof cb g data len c = false.
Proof.
  intros Hi Hd Hcl. rewrite req_data_oof_is_gen.
  apply (rt_req_data_gen_loop (fun _ : unit => false) (fun _ => tt) (rq_loop_oof cb g (rq_fuel len)) (fun _ _ => tt)); try assumption.
  intros gap c2 Hinv Hce Hl. eapply rq_loop_opt_oof. apply rq_loop_never_out_of_fuel; try assumption. rewrite <- Hl. apply rt_phi_lt_fuel.
Qed.

Lemma rs_res_loop_oof_step f gap c :
  rs_res_loop_oof cb g (S f) gap c = match rs_iter cb g gap c with inl _ => false | inr c1 => rs_res_loop_oof cb g f gap c1 end.
Proof.
  cbn [rs_res_loop_oof]. unfold rs_iter.
  destruct (gap && negb _ && negb _)%bool; [reflexivity|].
  destruct (if (gap && negb _)%bool then _ else _) as [rc c1].
  destruct rc; try reflexivity.
  destruct (c_out_status c1 =? c_HTP_STREAM_TUNNEL); [reflexivity|].
  destruct (rs_handle_state_change cb c1) as [rc2 c2]. destruct rc2; reflexivity.
Qed.
Lemma rs_res_loop_opt_oof f gap : forall c r, rs_res_loop_opt cb g f gap c = Some r -> rs_res_loop_oof cb g f gap c = false.
Proof.
  induction f as [|f IH]; intros c r E; [discriminate|].
  cbn [rs_res_loop_opt] in E. rewrite rs_res_loop_oof_step.
  destruct (rs_iter cb g gap c) as [x|c1]; [reflexivity|]. exact (IH c1 r E).
Qed.
Lemma res_data_oof_is_gen data len c :
  res_data_oof cb g data len c = ts_res_data_gen (fun _ => false) (rs_res_loop_oof cb g (rs_res_fuel len)) data len c.
Proof. reflexivity. Qed.
Theorem res_data_oof_false data len c : ts_entry_ok len c -> res_data_oof cb g data len c = false.
Proof.
  intros He. rewrite res_data_oof_is_gen.
  apply (ts_res_data_gen_loop (fun _ : unit => false) (fun _ => tt) (rs_res_loop_oof cb g (rs_res_fuel len)) (fun _ _ => tt)); [exact He|].
  intros gap c2 Hi Hl. eapply rs_res_loop_opt_oof. apply rs_res_loop_never_out_of_fuel; [exact Hi|]. rewrite <- Hl. apply ts_phi_lt_fuel.
Qed.
End Fuel.

(* ------------------------------------------------------------------------------------------------ *)
(* 2. the request stream is CLOSED only inside htp_connp_req_close / htp_connp_close *)

Section InStatus.
Variable cb : cb_oracle.
Variable g : cfg.

Lemma rq_exit_not_closed rc c : c_in_status (fst (rq_exit cb g rc c)) <> c_HTP_STREAM_CLOSED.
Proof.
  rewrite (rq_exit_status cb g rc c). unfold rq_exit.
  destruct rc; cbn;
    repeat match goal with
           | |- context [let '(_, _) := ?x in _] => destruct x
           | |- context [match ?x with _ => _ end] => destruct x
           end; cbn; vm_compute; discriminate.
Qed.

Lemma inl_inj {A B} (a b : A) : @inl A B a = inl b -> a = b.
Proof. intros H. injection H as H. exact H. Qed.

Lemma rq_iter_inl_status gap c c' code :
  rq_iter cb g gap c = inl (c', code) -> (c' = c /\ gap = true) \/ c_in_status c' <> c_HTP_STREAM_CLOSED.
Proof.
  unfold rq_iter. set (dispatch := if gap then _ else _).
  assert (Dn : dispatch = None -> gap = true) by (subst dispatch; destruct gap; [reflexivity|discriminate]).
  destruct dispatch as [[rc c1]|].
  2: { intros Q. injection Q as <- <-. left. split; [reflexivity|apply Dn; reflexivity]. }
  assert (Ex : forall r cx, rq_exit cb g r cx = (c', code) -> c_in_status c' <> c_HTP_STREAM_CLOSED).
  { intros r cx Q. pose proof (rq_exit_not_closed r cx) as N. rewrite Q in N. exact N. }
  destruct rc; try (intros Q; right; exact (Ex _ _ (inl_inj _ _ Q))).
  destruct (c_in_status c1 =? c_HTP_STREAM_TUNNEL) eqn:Et.
  { intros Q. injection Q as <- <-. right. apply Z.eqb_eq in Et. rewrite Et. vm_compute. discriminate. }
  destruct (req_handle_state_change cb c1) as [rc2 c2]. destruct rc2; try (intros Q; right; exact (Ex _ _ (inl_inj _ _ Q))).
  discriminate.
Qed.

Lemma rq_loop_not_closed gap fuel : forall c c' code,
  rq_loop_inv gap c -> rq_closed_empty c -> (gap = true -> rq_len c <> O) ->
  rq_loop cb g fuel gap c = (c', code) -> c_in_status c' <> c_HTP_STREAM_CLOSED.
Proof.
  induction fuel as [|f IH]; intros c c' code Hinv Hce Hg E; cbn [rq_loop] in E.
  - injection E as <- <-. cbn. vm_compute. discriminate.
  - pose proof (rq_iter_spec cb g gap c Hinv) as S. destruct (rq_iter cb g gap c) as [[c1 code1]|c1] eqn:Ei.
    + injection E as <- <-. destruct (rq_iter_inl_status gap c c1 code1 Ei) as [[-> G]|N]; [|exact N].
      intros Q. apply (Hg G). exact (Hce Q).
    + destruct S as [S Sl]. destruct (rt_pass_decreases cb g gap c c1 Hinv Hce Ei) as [_ Hce1].
      apply (IH c1 c' code S Hce1); [rewrite Sl; exact Hg|exact E].
Qed.

Theorem req_data_in_status_not_closed data len c :
  rq_inv c -> (forall d, data = Some d -> (len <= length d)%nat) -> (c_in_status c = c_HTP_STREAM_CLOSED -> len = 0%nat) ->
  c_in_status (fst (connp_req_data cb g data len c)) <> c_HTP_STREAM_CLOSED.
Proof.
  intros Hi Hd Hcl. rewrite rt_req_data_is_gen. unfold rt_req_data_gen.
  destruct (c_in_status c =? c_HTP_STREAM_STOP) eqn:E1; [cbn; apply Z.eqb_eq in E1; rewrite E1; vm_compute; discriminate|].
  destruct (c_in_status c =? c_HTP_STREAM_ERROR) eqn:E2; [cbn; apply Z.eqb_eq in E2; rewrite E2; vm_compute; discriminate|].
  destruct (match c_in_tx c with None => negb (req_state_eqb (c_in_state c) REQ_IDLE) && negb (c_in_status c =? c_HTP_STREAM_TUNNEL) | Some _ => false end); [cbn; vm_compute; discriminate|].
  destruct ((len =? 0)%nat && negb (c_in_status c =? c_HTP_STREAM_CLOSED)) eqn:E0.
  { cbn. apply andb_prop in E0. destruct E0 as [_ Q]. apply negb_true_iff in Q. apply Z.eqb_neq in Q. exact Q. }
  cbv zeta.
  set (c1 := (rq_set_in _ c) <| c_in_chunk_count ::= S |> <| c_in_data_counter ::= Z.add (Z.of_nat len) |>).
  destruct (c_in_status c1 =? c_HTP_STREAM_TUNNEL) eqn:Et; [cbn; apply Z.eqb_eq in Et; change (c_in_status c1) with (c_in_status c) in Et; rewrite Et; vm_compute; discriminate|].
  set (c2 := if c_out_status c1 =? c_HTP_STREAM_DATA_OTHER then _ else c1).
  assert (E2' : c_in c2 = c_in c1 /\ c_in_state c2 = c_in_state c /\ c_in_body_data_left c2 = c_in_body_data_left c /\
               c_in_chunked_length c2 = c_in_chunked_length c /\ c_in_status c2 = c_in_status c).
  { subst c2. destruct (c_out_status c1 =? c_HTP_STREAM_DATA_OTHER); repeat split; reflexivity. }
  destruct E2' as (E2' & E3 & E4 & E5 & E6).
  assert (L : k_len (c_in c2) = len /\ k_read (c_in c2) = 0%nat /\ k_consume (c_in c2) = 0%nat /\ k_data (c_in c2) = data)
    by (rewrite E2'; repeat split; reflexivity).
  destruct L as (L1 & L2 & L3 & L4).
  match goal with |- context [rq_loop cb g ?f ?gp c2] => destruct (rq_loop cb g f gp c2) as [c' code] eqn:El; cbn [fst];
    apply (rq_loop_not_closed gp f c2 c' code); [| | |exact El] end.
  - unfold rq_loop_inv, rq_pre, rq_wf, rq_readable, rq_inv, rq_len, rq_rd, rq_cs. rewrite L1, L2, L3, L4, E3, E4, E5.
    repeat split; try lia; try exact Hi.
    + destruct data as [d|]; [apply Hd; reflexivity|exact I].
    + intros Hg Hn. destruct data; [discriminate Hn|]. apply Nat.ltb_ge in Hg. lia.
  - unfold rq_closed_empty, rq_len. rewrite E6, L1. exact Hcl.
  - unfold rq_len. rewrite L1. destruct data; [discriminate|]. intros Q. apply Nat.ltb_lt in Q. lia.
Qed.
End InStatus.

(* ------------------------------------------------------------------------------------------------ *)
(* 3. the invariant between two operations *)

Record run_inv (c : connp) : Prop := mk_run_inv {
  ri_safe : safe_inv c;
  ri_ebx : ebx c;
  ri_out_nc : c_out_status c <> c_HTP_STREAM_CLOSED;
  ri_in_nc : c_in_status c <> c_HTP_STREAM_CLOSED;
  ri_buf : ts_bufok c
}.

Lemma run_inv_new : run_inv connp_new.
Proof.
  constructor.
  - constructor; [reflexivity| |exact I]. split; constructor; cbn; try exact I; try reflexivity; intros U; exfalso; apply U; reflexivity.
  - intros U. exfalso. apply U. reflexivity.
  - vm_compute. discriminate.
  - vm_compute. discriminate.
  - apply ts_bufok_new.
Qed.

(* both streams have not been stopped *)
Definition status_okb (c : connp) : bool :=
  negb (c_in_status c =? c_HTP_STREAM_STOP) && negb (c_in_status c =? c_HTP_STREAM_ERROR) &&
  negb (c_out_status c =? c_HTP_STREAM_STOP) && negb (c_out_status c =? c_HTP_STREAM_ERROR).
Lemma status_okb_ok c : status_okb c = true -> in_sok c /\ out_sok c.
Proof.
  unfold status_okb, in_sok, out_sok. intros H. apply andb_prop in H. destruct H as [H H4]. apply andb_prop in H. destruct H as [H H3].
  apply andb_prop in H. destruct H as [H1 H2]. apply negb_true_iff in H1, H2, H3, H4. apply Z.eqb_neq in H1, H2, H3, H4. tauto.
Qed.
Definition in_sokb (c : connp) : bool := negb (c_in_status c =? c_HTP_STREAM_STOP) && negb (c_in_status c =? c_HTP_STREAM_ERROR).
Lemma in_sokb_ok c : in_sokb c = true -> in_sok c.
Proof. unfold in_sokb, in_sok. intros H. apply andb_prop in H. destruct H as [H1 H2]. apply negb_true_iff in H1, H2. apply Z.eqb_neq in H1, H2. tauto. Qed.

(* premise (b), computable: the request receiver has no unsent bytes in a chunk the caller may have released *)
Definition in_cleanb (c : connp) : bool :=
  match k_receiver_hook (c_in c) with
  | None => true
  | Some _ => (k_read (c_in c) <=? k_receiver (c_in c))%nat ||
              match k_data (c_in c) with Some d => (k_read (c_in c) <=? length d)%nat | None => false end
  end.
Lemma in_cleanb_ok c : in_cleanb c = true -> in_clean c.
Proof.
  unfold in_cleanb, in_clean, armed, bytes_ok. intros H U. destruct (k_receiver_hook (c_in c)); [|congruence].
  apply orb_prop in H. destruct H as [H|H]; [left; apply Nat.leb_le; exact H|right].
  destruct (k_data (c_in c)); [apply Nat.leb_le; exact H|discriminate].
Qed.

(* ---- what survives the end of an API call ---- *)
Lemma forget_one_fields k : k_receiver_hook (forget_one k) = k_receiver_hook k /\ k_buf (forget_one k) = k_buf k.
Proof. unfold forget_one. destruct (k_data k); split; reflexivity. Qed.

Lemma finish_call_inv c rc n ev : run_inv c -> run_inv (fst (finish_call c rc n ev)).
Proof.
  intros [[F [[T1 T2 T3 T4] [B1 B2 B3]] Ri] Eb N1 N2 Bu]. unfold finish_call, forget_chunks. cbn [fst].
  destruct (forget_one_fields (c_in c)) as [Hi _]. destruct (forget_one_fields (c_out c)) as [Ho Hb].
  constructor.
  - constructor; [exact F| |exact Ri]. split; constructor; unfold armed in *; cbn; rewrite ?Hi, ?Ho; assumption.
  - unfold ebx, armed in *. cbn. rewrite Ho. exact Eb.
  - exact N1.
  - exact N2.
  - unfold ts_bufok, ts_bl in *. cbn. rewrite Hb. exact Bu.
Qed.
Lemma finish_call_fault c rc n ev : c_fault (fst (finish_call c rc n ev)) = c_fault c.
Proof. reflexivity. Qed.
Lemma finish_call_status c rc n ev : status_okb (fst (finish_call c rc n ev)) = status_okb c.
Proof. reflexivity. Qed.

(* run_inv reads only these parts of the state *)
Record same_view (c c' : connp) : Prop := mk_same_view {
  sv_slot : forall i, tx_slot c' i = tx_slot c i;
  sv_in_tx : c_in_tx c' = c_in_tx c;
  sv_out_tx : c_out_tx c' = c_out_tx c;
  sv_in : c_in c' = c_in c;
  sv_out : c_out c' = c_out c;
  sv_in_state : c_in_state c' = c_in_state c;
  sv_out_state : c_out_state c' = c_out_state c;
  sv_fault : c_fault c' = c_fault c;
  sv_bdl : c_in_body_data_left c' = c_in_body_data_left c;
  sv_chl : c_in_chunked_length c' = c_in_chunked_length c
}.
Lemma same_view_refl c : same_view c c.
Proof. constructor; reflexivity. Qed.
Lemma same_view_trans a b c : same_view a b -> same_view b c -> same_view a c.
Proof. intros [A0 A1 A2 A3 A4 A5 A6 A7 A8 A9] [B0 B1 B2 B3 B4 B5 B6 B7 B8 B9]. constructor; try congruence; intros i; rewrite B0; apply A0. Qed.

Lemma safe_inv_view c c' : same_view c c' -> safe_inv c -> safe_inv c'.
Proof.
  intros [A0 A1 A2 A3 A4 A5 A6 A7 A8 A9] [F [[T1 T2 T3 T4] [B1 B2 B3]] Ri].
  constructor.
  - congruence.
  - split; constructor; unfold armed, olive, live, txp in *; rewrite ?A1, ?A2, ?A3, ?A4, ?A5, ?A6; try assumption.
    + destruct (c_in_tx c); [rewrite A0|]; assumption.
    + destruct (c_in_tx c); [rewrite A0|]; assumption.
    + intros U. specialize (T4 U). destruct (c_in_tx c); [rewrite A0|]; assumption.
    + destruct (c_out_tx c); [rewrite A0|]; assumption.
    + intros U. specialize (B2 U). destruct B2 as [B2 B2']. split; [exact B2|]. destruct (c_out_tx c); [rewrite A0|]; assumption.
  - unfold rq_inv in *. rewrite A5, A8, A9. exact Ri.
Qed.

Lemma run_inv_view c c' : same_view c c' -> c_in_status c' = c_in_status c -> c_out_status c' = c_out_status c -> run_inv c -> run_inv c'.
Proof.
  intros V S1 S2 [Sa Eb N1 N2 Bu]. pose proof V as [A0 A1 A2 A3 A4 A5 A6 A7 A8 A9].
  constructor.
  - exact (safe_inv_view c c' V Sa).
  - unfold ebx, armed in *. rewrite A4, A6, S2. exact Eb.
  - congruence.
  - congruence.
  - unfold ts_bufok, ts_bl in *. rewrite A4, A6. exact Bu.
Qed.

(* safe_inv does not read the stream statuses *)
Lemma safe_inv_set_in_status c v : safe_inv c -> safe_inv (c <| c_in_status := v |>).
Proof. apply safe_inv_view. constructor; reflexivity. Qed.
Lemma safe_inv_set_out_status c v : safe_inv c -> safe_inv (c <| c_out_status := v |>).
Proof. apply safe_inv_view. constructor; reflexivity. Qed.

(* ---- htp_connp_open ---- *)
Lemma connp_open_inv c : run_inv c -> run_inv (connp_open c).
Proof.
  intros H. unfold connp_open. destruct (_ || _) eqn:E; [exact H|].
  apply orb_false_iff in E. destruct E as [E1 E2]. apply negb_false_iff in E1, E2. apply Z.eqb_eq in E1, E2.
  destruct H as [Sa Eb N1 N2 Bu]. constructor.
  - apply safe_inv_set_out_status, safe_inv_set_in_status, Sa.
  - intros U. destruct (Eb U) as [X|[X _]]; [left; exact X|]. rewrite E2 in X. discriminate.
  - cbn. discriminate.
  - cbn. discriminate.
  - exact Bu.
Qed.
Lemma connp_open_fault c : c_fault (connp_open c) = c_fault c.
Proof. unfold connp_open. destruct (_ || _); reflexivity. Qed.

(* ---- htp_connp_tx_freed ---- *)
Lemma tx_freed_loop_view fuel : forall c r, same_view c (fst (tx_freed_loop fuel c r)) /\
  c_in_status (fst (tx_freed_loop fuel c r)) = c_in_status c /\ c_out_status (fst (tx_freed_loop fuel c r)) = c_out_status c.
Proof.
  induction fuel as [|f IH]; intros c r; cbn [tx_freed_loop]; [split; [apply same_view_refl|split; reflexivity]|].
  destruct (c_txs c) as [|[t|] rest] eqn:E; try (split; [apply same_view_refl|split; reflexivity]).
  match goal with |- context [tx_freed_loop f ?X ?Y] => specialize (IH X Y); set (c1 := X) in * end.
  destruct IH as (V & S1 & S2). split; [|split; [rewrite S1|rewrite S2]; reflexivity].
  refine (same_view_trans _ _ _ _ V). constructor; try reflexivity.
  intros i. unfold tx_slot. subst c1. cbn. rewrite E.
  destruct (i <? c_txs_shifted c)%nat eqn:E1.
  - apply Nat.ltb_lt in E1. assert (X : (i <? S (c_txs_shifted c))%nat = true) by (apply Nat.ltb_lt; lia). rewrite X. reflexivity.
  - apply Nat.ltb_ge in E1. destruct (i <? S (c_txs_shifted c))%nat eqn:E2.
    + apply Nat.ltb_lt in E2. assert (X : (i - c_txs_shifted c = 0)%nat) by lia. rewrite X. reflexivity.
    + apply Nat.ltb_ge in E2. assert (X : (i - c_txs_shifted c = S (i - S (c_txs_shifted c)))%nat) by lia. rewrite X. reflexivity.
Qed.
Lemma connp_tx_freed_inv c : run_inv c -> run_inv (fst (connp_tx_freed c)).
Proof.
  intros H. unfold connp_tx_freed. destruct (tx_freed_loop_view (length (c_txs c)) c 0%nat) as (V & S1 & S2).
  exact (run_inv_view _ _ V S1 S2 H).
Qed.
Lemma connp_tx_freed_fault c : c_fault (fst (connp_tx_freed c)) = c_fault c.
Proof. unfold connp_tx_freed. destruct (tx_freed_loop_view (length (c_txs c)) c 0%nat) as (V & _). apply (sv_fault _ _ V). Qed.
Lemma connp_tx_freed_status c : status_okb (fst (connp_tx_freed c)) = status_okb c.
Proof.
  unfold connp_tx_freed. destruct (tx_freed_loop_view (length (c_txs c)) c 0%nat) as (_ & S1 & S2).
  unfold status_okb. rewrite S1, S2. reflexivity.
Qed.

(* ---- htp_tx_destroy by the user (only a complete transaction is destroyed) ---- *)
Lemma api_destroy_tx_inv k c : run_inv c -> run_inv (fst (api_destroy_tx k c)).
Proof.
  intros H. unfold api_destroy_tx. destruct (tx_slot c k) as [t|] eqn:Es; [|exact H].
  destruct (tx_is_complete t) eqn:Ec; [|exact H]. cbn [fst].
  destruct H as [[F [T1 T2] Ri] Eb N1 N2 Bu].
  destruct (tx_destroy_incomplete_skel c k) as [S R]. destruct (hooks_of_rcv _ _ R) as [H1 H2]. unfold hook_in, hook_out in *.
  pose proof (skel_out_state _ _ S) as So. pose proof (skel_out_status _ _ S) as Sos. pose proof (skel_in_status _ _ S) as Sis.
  pose proof (skel_cur_out _ _ S) as Sc.
  constructor.
  - constructor.
    + rewrite (skel_fault _ _ S). exact F.
    + split; [exact (tx_destroy_incomplete_TIin c k t Es Ec T1)|exact (tx_destroy_incomplete_TIout c k t Es Ec T2)].
    + unfold rq_inv in *. rewrite (skel_in_state _ _ S). unfold skel in S.
      assert (X : c_in_body_data_left (tx_destroy_incomplete c k) = c_in_body_data_left c /\
                  c_in_chunked_length (tx_destroy_incomplete c k) = c_in_chunked_length c) by (injection S; intros; split; congruence).
      destruct X as [-> ->]. exact Ri.
  - unfold ebx, armed in *. rewrite H2, So, Sos. exact Eb.
  - congruence.
  - congruence.
  - unfold ts_bufok, ts_bl in *. rewrite So. assert (X : k_buf (c_out (tx_destroy_incomplete c k)) = k_buf (c_out c)) by (unfold cur_core in Sc; congruence).
    rewrite X. exact Bu.
Qed.
Lemma api_destroy_tx_fault k c : c_fault (fst (api_destroy_tx k c)) = c_fault c.
Proof.
  unfold api_destroy_tx. destruct (tx_slot c k) as [t|]; [|reflexivity]. destruct (tx_is_complete t); [|reflexivity].
  destruct (tx_destroy_incomplete_skel c k) as [S _]. exact (skel_fault _ _ S).
Qed.
Lemma api_destroy_tx_status k c : status_okb (fst (api_destroy_tx k c)) = status_okb c.
Proof.
  unfold api_destroy_tx. destruct (tx_slot c k) as [t|]; [|reflexivity]. destruct (tx_is_complete t); [|reflexivity].
  destruct (tx_destroy_incomplete_skel c k) as [S _]. unfold status_okb. cbn [fst]. rewrite (skel_in_status _ _ S), (skel_out_status _ _ S). reflexivity.
Qed.

Section Run.
Variable cb : cb_oracle.
Variable g : cfg.
(* premise (a): no callback destroys the transaction it is called for *)
Hypothesis cb_nodestroy : forall h n, cb h n <> CB_DESTROY_TX.

(* the response-side facts of run_inv survive a request call *)
Lemma out_kept_ebx c c' : out_kept c c' -> ebx c -> ebx c'.
Proof.
  intros (Hs & Hst & Hh & _) Eb U. unfold armed, hook_out in *.
  assert (U0 : k_receiver_hook (c_out c) <> None) by (destruct Hh as [X|X]; rewrite X in U; [exact U|congruence]).
  rewrite Hst. destruct (Eb U0) as [X|[X1 X2]]; [left; exact X|right]. split; [|exact X2].
  destruct Hs as [X|[[X _]|X]]; [congruence|rewrite X in X1; discriminate X1|exact X].
Qed.
Lemma out_kept_bufok c c' : out_kept c c' -> ts_bufok c -> ts_bufok c'.
Proof.
  intros (_ & Hst & _ & Hc) Bu. unfold ts_bufok, ts_bl in *. rewrite Hst.
  assert (X : k_buf (c_out c') = k_buf (c_out c)) by (unfold cur_core in Hc; congruence). rewrite X. exact Bu.
Qed.

(* ---- htp_connp_req_data on an open stream ---- *)
Lemma req_data_inv data len c c' code :
  run_inv c -> (forall d, data = Some d -> (len <= length d)%nat) ->
  connp_req_data cb g data len c = (c', code) ->
  c_fault c' = false /\ (in_sok c' -> c_out_status c' <> c_HTP_STREAM_CLOSED -> run_inv c').
Proof.
  intros [Sa Eb N1 N2 Bu] Hd E.
  assert (Hcl : c_in_status c = c_HTP_STREAM_CLOSED -> len = O) by (intros X; contradiction).
  pose proof (req_data_oof_false cb g data len c (si_rq _ Sa) Hd Hcl) as Oo.
  pose proof (req_data_in_status_not_closed cb g data len c (si_rq _ Sa) Hd Hcl) as Nc. rewrite E in Nc. cbn [fst] in Nc.
  destruct (connp_req_data_safe cb g cb_nodestroy data len c c' code Sa Hd E Oo) as [F K]. split; [exact F|].
  intros Hs Hno. destruct (K Hs) as (Sa' & Ko & _). constructor.
  - exact Sa'.
  - exact (out_kept_ebx _ _ Ko Eb).
  - exact Hno.
  - exact Nc.
  - exact (out_kept_bufok _ _ Ko Bu).
Qed.
(* the response status after a request call on a connection whose response stream is not closed *)
Lemma out_kept_not_closed c c' : out_kept c c' -> c_out_status c <> c_HTP_STREAM_CLOSED -> c_out_status c' <> c_HTP_STREAM_CLOSED.
Proof. intros ([X|[[_ X]|X]] & _) N; rewrite X; [exact N|discriminate|discriminate]. Qed.

Lemma req_data_run data len c c' code :
  run_inv c -> (forall d, data = Some d -> (len <= length d)%nat) ->
  connp_req_data cb g data len c = (c', code) ->
  c_fault c' = false /\ (status_okb c' = true -> run_inv c').
Proof.
  intros H Hd E. pose proof H as [Sa Eb N1 N2 Bu].
  assert (Hcl : c_in_status c = c_HTP_STREAM_CLOSED -> len = O) by (intros X; contradiction).
  pose proof (req_data_oof_false cb g data len c (si_rq _ Sa) Hd Hcl) as Oo.
  destruct (connp_req_data_safe cb g cb_nodestroy data len c c' code Sa Hd E Oo) as [F K].
  destruct (req_data_inv data len c c' code H Hd E) as [_ K2]. split; [exact F|].
  intros Hs. destruct (status_okb_ok _ Hs) as [Hi _]. apply (K2 Hi). destruct (K Hi) as (_ & Ko & _).
  exact (out_kept_not_closed _ _ Ko N1).
Qed.

(* ---- htp_connp_res_data on an open stream ---- *)
Lemma res_data_run data len c c' code :
  run_inv c -> in_clean c -> (forall d, data = Some d -> (len <= length d)%nat) ->
  connp_res_data cb g data len c = (c', code) ->
  c_fault c' = false /\ (status_okb c' = true -> run_inv c').
Proof.
  intros [Sa Eb N1 N2 Bu] Hc Hd E.
  assert (Te : ts_entry_ok len c).
  { split; [|exact Bu]. unfold rs_closed. intros X. apply Z.eqb_eq in X. contradiction. }
  pose proof (res_data_oof_false cb g data len c Te) as Oo.
  assert (Re : c_out_status c <> c_HTP_STREAM_TUNNEL -> res_entry_ok len c).
  { intros Nt U. destruct (Eb U) as [X|[X _]]; [left; exact X|contradiction]. }
  destruct (connp_res_data_safe cb g cb_nodestroy data len c c' code Sa Hc N2 Hd (fun X => False_ind _ (N1 X)) Re E Oo) as [F K].
  split; [exact F|]. intros Hs. destruct (status_okb_ok _ Hs) as [_ Ho]. destruct (K Ho) as (Sa' & _ & Ni & No & Ex).
  constructor; try assumption.
  - destruct Ex as [Ex|(X1 & X2 & X3)]; [exact Ex|]. unfold ebx, armed, hook_out in *. rewrite X1, X2, X3. exact Eb.
  - pose proof (res_data_keeps_bufok cb g data len c Bu) as X. rewrite E in X. exact X.
Qed.

(* ---- htp_connp_req_close ---- *)
Lemma req_close_run c :
  run_inv c -> status_okb c = true ->
  c_fault (connp_req_close cb g c) = false /\ (status_okb (connp_req_close cb g c) = true -> run_inv (connp_req_close cb g c)).
Proof.
  intros [Sa Eb N1 N2 Bu] Hs. destruct (status_okb_ok _ Hs) as [[_ Hie] _]. unfold connp_req_close.
  apply Z.eqb_neq in Hie. rewrite Hie. cbn [negb].
  set (c1 := c <| c_in_status := c_HTP_STREAM_CLOSED |>).
  assert (Sa1 : safe_inv c1) by (apply safe_inv_set_in_status; exact Sa).
  assert (Hd : forall d : list N, @None (list N) = Some d -> (0 <= length d)%nat) by (intros d X; discriminate).
  assert (Hcl : c_in_status c1 = c_HTP_STREAM_CLOSED -> 0%nat = 0%nat) by reflexivity.
  pose proof (req_data_oof_false cb g None 0%nat c1 (si_rq _ Sa1) Hd Hcl) as Oo.
  pose proof (req_data_in_status_not_closed cb g None 0%nat c1 (si_rq _ Sa1) Hd Hcl) as Nc.
  destruct (connp_req_data cb g None 0%nat c1) as [c' code] eqn:E. cbn [fst] in *.
  assert (Nc' : c_in_status c' <> c_HTP_STREAM_CLOSED) by (change c' with (fst (c', code)); rewrite <- E; exact Nc).
  destruct (connp_req_data_safe cb g cb_nodestroy None 0%nat c1 c' code Sa1 Hd E Oo) as [F K]. split; [exact F|].
  intros Hs'. destruct (status_okb_ok _ Hs') as [Hi _]. destruct (K Hi) as (Sa' & Ko & _). constructor.
  - exact Sa'.
  - apply (out_kept_ebx c1 c' Ko). exact Eb.
  - apply (out_kept_not_closed c1 c' Ko). exact N1.
  - exact Nc'.
  - apply (out_kept_bufok c1 c' Ko). exact Bu.
Qed.

(* ---- htp_connp_close: the request half, then the response half ---- *)
(* the state between the two halves *)
Definition close_mid (c : connp) : connp :=
  let c := if negb (c_in_status c =? c_HTP_STREAM_ERROR) then c <| c_in_status := c_HTP_STREAM_CLOSED |> else c in
  let c := if negb (c_out_status c =? c_HTP_STREAM_ERROR) then c <| c_out_status := c_HTP_STREAM_CLOSED |> else c in
  fst (connp_req_data cb g None 0 c).
Lemma connp_close_mid c : connp_close cb g c = fst (connp_res_data cb g None 0 (close_mid c)).
Proof. reflexivity. Qed.

Lemma close_run c :
  run_inv c -> status_okb c = true -> in_sokb (close_mid c) = true ->
  c_fault (connp_close cb g c) = false /\ (status_okb (connp_close cb g c) = true -> run_inv (connp_close cb g c)).
Proof.
  intros [Sa Eb N1 N2 Bu] Hs Hm. destruct (status_okb_ok _ Hs) as [[_ Hie] [_ Hoe]]. rewrite connp_close_mid.
  apply in_sokb_ok in Hm. revert Hm. unfold close_mid.
  apply Z.eqb_neq in Hie. rewrite Hie. cbn [negb].
  change (c_out_status (c <| c_in_status := c_HTP_STREAM_CLOSED |>)) with (c_out_status c).
  apply Z.eqb_neq in Hoe. rewrite Hoe. cbn [negb].
  set (c1 := c <| c_in_status := c_HTP_STREAM_CLOSED |> <| c_out_status := c_HTP_STREAM_CLOSED |>).
  assert (Sa1 : safe_inv c1) by (apply safe_inv_set_out_status, safe_inv_set_in_status; exact Sa).
  assert (Hd : forall d : list N, @None (list N) = Some d -> (0 <= length d)%nat) by (intros d X; discriminate).
  assert (Hcl : c_in_status c1 = c_HTP_STREAM_CLOSED -> 0%nat = 0%nat) by reflexivity.
  pose proof (req_data_oof_false cb g None 0%nat c1 (si_rq _ Sa1) Hd Hcl) as Oo.
  pose proof (req_data_in_status_not_closed cb g None 0%nat c1 (si_rq _ Sa1) Hd Hcl) as Nc.
  destruct (connp_req_data cb g None 0%nat c1) as [c2 code] eqn:E. cbn [fst] in *. intros Hm.
  assert (Nc' : c_in_status c2 <> c_HTP_STREAM_CLOSED) by (change c2 with (fst (c2, code)); rewrite <- E; exact Nc).
  destruct (connp_req_data_safe cb g cb_nodestroy None 0%nat c1 c2 code Sa1 Hd E Oo) as [_ K].
  destruct (K Hm) as (Sa2 & Ko & Rd). specialize (Rd eq_refl eq_refl).
  assert (Bu2 : ts_bufok c2) by (apply (out_kept_bufok c1 c2 Ko); exact Bu).
  assert (Cl2 : in_clean c2) by (intros _; left; rewrite Rd; lia).
  assert (Os : c_out_status c2 = c_HTP_STREAM_CLOSED \/ c_out_status c2 = c_HTP_STREAM_TUNNEL).
  { destruct Ko as ([X|[[X _]|X]] & _); [left; exact X|discriminate X|right; exact X]. }
  assert (Te : ts_entry_ok 0%nat c2) by (split; [reflexivity|exact Bu2]).
  pose proof (res_data_oof_false cb g None 0%nat c2 Te) as Oo2.
  assert (Ar : armed (c_out c2) -> armed (c_out c) /\ c_out_state c2 = c_out_state c).
  { destruct Ko as (_ & Hst & Hh & _). unfold armed, hook_out in *. intros U. split; [|exact Hst].
    destruct Hh as [X|X]; rewrite X in U; [exact U|congruence]. }
  assert (Re : c_out_status c2 <> c_HTP_STREAM_TUNNEL -> res_entry_ok 0%nat c2).
  { intros _ U. destruct (Ar U) as [U0 Hst]. rewrite Hst. destruct (Eb U0) as [X|[_ X]]; [left; exact X|right; split; [reflexivity|exact X]]. }
  destruct (connp_res_data cb g None 0%nat c2) as [c3 code3] eqn:E3. cbn [fst].
  destruct (connp_res_data_safe cb g cb_nodestroy None 0%nat c2 c3 code3 Sa2 Cl2 Nc' Hd (fun _ => conj eq_refl eq_refl) Re E3 Oo2) as [F K3].
  split; [exact F|]. intros Hs3. destruct (status_okb_ok _ Hs3) as [_ Ho3]. destruct (K3 Ho3) as (Sa3 & _ & Ni & No & Ex).
  constructor; try assumption.
  - destruct Ex as [Ex|(X1 & X2 & X3)]; [exact Ex|]. intros U. unfold armed, hook_out in *. rewrite X2 in U. destruct (Ar U) as [U0 Hst].
    rewrite X1, X3, Hst. destruct Os as [Os|Os]; [rewrite X3 in No; contradiction|].
    destruct (Eb U0) as [X|[_ X]]; [left; exact X|right; split; [exact Os|exact X]].
  - pose proof (res_data_keeps_bufok cb g None 0%nat c2 Bu2) as X. rewrite E3 in X. exact X.
Qed.
End Run.

Section RunTop.
Variable cb : cb_oracle.
Variable g : cfg.

(* ------------------------------------------------------------------------------------------------ *)
(* 4. the run premise, computable.
   Before an operation o on the state c:
   - OpOpen, OpTxFreed, OpDestroyTx: nothing.
   - the request-side calls (OpReqData, OpReqGap, OpReqClose): neither stream has status STOP or ERROR. (A stream gets
     STOP from a callback / a refused CONNECT, ERROR from a parsing error; the parser state is then not one the
     invariant describes: e.g. a callback that returns STOP in REQUEST_COMPLETE leaves in_tx pointing to a completed
     transaction that auto-destroy has freed or will free.)
   - the response-side calls (OpResData, OpResGap): the same, and premise (b) as a state predicate: an armed request
     receiver hook has sent every byte the request cursor has passed (k_read <= k_receiver), or the request chunk
     is still readable. The second alternative never holds after a call has returned (finish_call forgets the
     chunk), so between calls this says "the last request call flushed its receiver", which the library does except
     when the REQUEST_HEADER_DATA callback refuses at the end of a chunk (known finding, the corpus witnesses res_stale_receiver).
   - OpClose (request half with no byte, then response half with no byte): statuses as above and the request half must
     not end in STOP / ERROR (close_mid is the state between the halves; the response half then needs no in_cleanb,
     because the request half with a closed stream and no byte leaves k_read = 0). *)
Definition op_okb (c : connp) (o : cp_op) : bool :=
  match o with
  | OpOpen | OpTxFreed | OpDestroyTx _ => true
  | OpReqData _ | OpReqGap _ | OpReqClose => status_okb c
  | OpResData _ | OpResGap _ => status_okb c && in_cleanb c
  | OpClose => status_okb c && in_sokb (close_mid cb g c)
  end.
Fixpoint run_okb (c : connp) (ops : list cp_op) : bool :=
  match ops with
  | [] => true
  | o :: r => op_okb c o && run_okb (fst (cp_step cb g c o)) r
  end.

(* premise (a) *)
Hypothesis cb_nodestroy : forall h n, cb h n <> CB_DESTROY_TX.

(* what holds between two operations of such a run *)
Definition run_ok_inv (c : connp) : Prop := c_fault c = false /\ (status_okb c = true -> run_inv c).

Lemma run_ok_inv_new : run_ok_inv connp_new.
Proof. split; [reflexivity|intros _; exact run_inv_new]. Qed.

Lemma finish_ok c rc n ev : run_ok_inv c -> run_ok_inv (fst (finish_call c rc n ev)).
Proof.
  intros [F K]. split; [rewrite finish_call_fault; exact F|]. rewrite finish_call_status. intros Hs. apply finish_call_inv. exact (K Hs).
Qed.

Theorem cp_step_safe c o : run_ok_inv c -> op_okb c o = true -> run_ok_inv (fst (cp_step cb g c o)).
Proof.
  intros [F K] Hp. destruct o as [|d|d|n|n| | | |k]; cbn [cp_step op_okb] in *.
  - (* open *) apply finish_ok. split; [rewrite connp_open_fault; exact F|]. intros Hs. apply connp_open_inv. apply K.
    revert Hs. unfold connp_open. destruct (_ || _) eqn:E; [tauto|].
    apply orb_false_iff in E. destruct E as [E1 E2]. apply negb_false_iff in E1, E2. apply Z.eqb_eq in E1, E2.
    intros _. unfold status_okb. rewrite E1, E2. reflexivity.
  - (* request data *)
    destruct (connp_req_data cb g (Some d) (length d) c) as [c1 rc] eqn:E. apply finish_ok.
    refine (req_data_run cb g cb_nodestroy (Some d) (length d) c c1 rc (K Hp) _ E). intros d0 X. injection X as <-. apply le_n.
  - (* response data *)
    apply andb_prop in Hp. destruct Hp as [Hs Hc].
    destruct (connp_res_data cb g (Some d) (length d) c) as [c1 rc] eqn:E. apply finish_ok.
    refine (res_data_run cb g cb_nodestroy (Some d) (length d) c c1 rc (K Hs) (in_cleanb_ok _ Hc) _ E). intros d0 X. injection X as <-. apply le_n.
  - (* request gap *)
    destruct (connp_req_data cb g None n c) as [c1 rc] eqn:E. apply finish_ok.
    refine (req_data_run cb g cb_nodestroy None n c c1 rc (K Hp) _ E). intros d0 X. discriminate X.
  - (* response gap *)
    apply andb_prop in Hp. destruct Hp as [Hs Hc].
    destruct (connp_res_data cb g None n c) as [c1 rc] eqn:E. apply finish_ok.
    refine (res_data_run cb g cb_nodestroy None n c c1 rc (K Hs) (in_cleanb_ok _ Hc) _ E). intros d0 X. discriminate X.
  - (* req_close *) apply finish_ok. exact (req_close_run cb g cb_nodestroy c (K Hp) Hp).
  - (* close *) apply andb_prop in Hp. destruct Hp as [Hs Hm]. apply finish_ok. exact (close_run cb g cb_nodestroy c (K Hs) Hs Hm).
  - (* tx_freed *)
    destruct (connp_tx_freed c) as [c1 r] eqn:E. apply finish_ok.
    pose proof (connp_tx_freed_fault c) as X1. pose proof (connp_tx_freed_status c) as X2. pose proof (connp_tx_freed_inv c) as X3.
    rewrite E in X1, X2, X3. cbn [fst] in *. split; [congruence|]. rewrite X2. intros Hs. exact (X3 (K Hs)).
  - (* tx_destroy by the user *)
    destruct (api_destroy_tx k c) as [c1 r] eqn:E. apply finish_ok.
    pose proof (api_destroy_tx_fault k c) as X1. pose proof (api_destroy_tx_status k c) as X2. pose proof (api_destroy_tx_inv k c) as X3.
    rewrite E in X1, X2, X3. cbn [fst] in *. split; [congruence|]. rewrite X2. intros Hs. exact (X3 (K Hs)).
Qed.

Lemma cp_run_cons c o r : fst (cp_run cb g c (o :: r)) = fst (cp_run cb g (fst (cp_step cb g c o)) r).
Proof. cbn [cp_run]. destruct (cp_step cb g c o) as [c1 x]. cbn [fst]. destruct (cp_run cb g c1 r) as [c2 xs]. reflexivity. Qed.

Lemma cp_run_ok ops : forall c, run_ok_inv c -> run_okb c ops = true -> run_ok_inv (fst (cp_run cb g c ops)).
Proof.
  induction ops as [|o r IH]; intros c H Hp; [exact H|].
  cbn [run_okb] in Hp. apply andb_prop in Hp. destruct Hp as [Hp1 Hp2]. rewrite cp_run_cons.
  apply IH; [exact (cp_step_safe c o H Hp1)|exact Hp2].
Qed.

Lemma run_okb_firstn ops : forall n c, run_okb c ops = true -> run_okb c (firstn n ops) = true.
Proof.
  induction ops as [|o r IH]; intros [|n] c Hp; try reflexivity.
  cbn [firstn run_okb] in *. apply andb_prop in Hp. destruct Hp as [Hp1 Hp2]. rewrite Hp1. exact (IH n _ Hp2).
Qed.

(* memory safety of the connection parser at the level of the model: on a run of API calls from a fresh parser that
   satisfies the run premise, with callbacks that never destroy their transaction, the fault flag is never set, after
   any number of the calls; and while neither stream is STOP / ERROR the invariant run_inv holds between calls.
   No fuel premise: the two parser loops never run out of fuel on such a run (PTermReq / PTermRes). *)
Theorem cp_run_no_fault ops :
  run_okb connp_new ops = true ->
  forall n, c_fault (fst (cp_run cb g connp_new (firstn n ops))) = false.
Proof. intros Hp n. exact (proj1 (cp_run_ok (firstn n ops) connp_new run_ok_inv_new (run_okb_firstn ops n connp_new Hp))). Qed.

Theorem cp_run_inv ops :
  run_okb connp_new ops = true ->
  let c := fst (cp_run cb g connp_new ops) in c_fault c = false /\ (status_okb c = true -> run_inv c).
Proof. intros Hp. exact (cp_run_ok ops connp_new run_ok_inv_new Hp). Qed.
End RunTop.

(* ------------------------------------------------------------------------------------------------ *)
(* 5. helpers for concrete runs (used by the examples of Properties_C01) *)

(* premise (a) for a scripted oracle: no entry of the script destroys *)
Definition script_nodestroyb (s : list (nat * nat * cb_action)) : bool :=
  forallb (fun e => match snd e with CB_DESTROY_TX => false | _ => true end) s.
Lemma script_nodestroy s : script_nodestroyb s = true -> forall h n, script_lookup s h n <> CB_DESTROY_TX.
Proof.
  induction s as [|[[h' n'] a] r IH]; intros Hs h n; cbn [script_lookup]; [discriminate|].
  cbn [script_nodestroyb forallb snd] in Hs. apply andb_prop in Hs. destruct Hs as [H1 H2].
  destruct (_ && _)%bool; [|exact (IH H2 h n)]. destruct a; try discriminate.
Qed.

(* a boolean that holds of the state after every prefix of a run *)
Definition prefixes_allb (P : connp -> bool) cb g (ops : list cp_op) : bool :=
  forallb (fun n => P (fst (cp_run cb g connp_new (firstn n ops)))) (seq 0 (S (length ops))).
Lemma prefixes_all P cb g ops : prefixes_allb P cb g ops = true -> forall n, P (fst (cp_run cb g connp_new (firstn n ops))) = true.
Proof.
  unfold prefixes_allb. intros H n. rewrite forallb_forall in H.
  destruct (Nat.le_gt_cases n (length ops)) as [L|L].
  - apply H. apply in_seq. lia.
  - rewrite firstn_all2 by lia. specialize (H (length ops)). rewrite firstn_all in H. apply H. apply in_seq. lia.
Qed.
