(* C01, model level: the connection parser never sets c_fault (request side; response side in PSafeRes.v,
   runs in PSafeRun.v). Structure:
     1. projections ("skeleton" = everything but the transaction contents / transaction pointers / receiver
        bookkeeping / hook counters / event log) and relations on transaction tables;
     2. the invariant: TIin / TIout (transaction-receiver coupling of the two directions), the frame relation frR;
     3. the callback / transaction layer keeps the frame and does not fault on a live transaction when no
        callback destroys a transaction;
     4. the byte-level request states, one lemma per state function;
     5. rq_iter / rq_loop / connp_req_data. *)
Require Import Htp.Model.MUri Htp.Model.MPath Htp.Model.MUrlenc.
Require Import Htp.Model.MConnTypes Htp.Model.MTxCommon Htp.Model.MBstr Htp.Model.MReqLine Htp.Model.MReqUri Htp.Model.MTxReq Htp.Model.MReq.
Require Import Htp.Proof.PReq.
Local Open Scope Z_scope.

Lemma upd_length {B} (l : list B) i x : length (upd l i x) = length l.
Proof. revert i. induction l as [|h t IH]; intros [|i]; cbn; congruence. Qed.
Lemma nth_error_upd {B} (l : list B) i x j :
  nth_error (upd l i x) j = if (j =? i)%nat then (if (i <? length l)%nat then Some x else None) else nth_error l j.
Proof.
  revert i j. induction l as [|h t IH]; intros i j.
  - cbn. destruct (j =? i)%nat; destruct j; reflexivity.
  - destruct i as [|i], j as [|j]; cbn; try reflexivity. rewrite IH. destruct (j =? i)%nat; [|reflexivity].
    change (S i <? S (length t))%nat with (i <? length t)%nat. reflexivity.
Qed.

Local Arguments Nat.ltb : simpl never.
Local Arguments Nat.leb : simpl never.
Local Arguments Nat.eqb : simpl never.
Local Arguments Nat.sub : simpl never.
Local Arguments Nat.add : simpl never.

(* ------------------------------------------------------------------------------------------------ *)
(* 1. projections *)

(* a cursor without the receiver bookkeeping *)
Definition cur_core (k : cursor) := (k_data k, k_len k, k_read k, k_consume k, k_next_byte k, k_buf k, k_header k).
(* everything except the transaction table (only its length), the two transaction pointers, the receiver bookkeeping,
   c_hook_calls and c_events *)
Definition skel (c : connp) :=
  (c_in_status c, c_out_status c, c_in_state c, c_in_state_previous c, c_out_state c, c_out_state_previous c,
   cur_core (c_in c), cur_core (c_out c), c_txs_shifted c, c_out_next_tx_index c, c_out_data_other_at_tx_end c,
   (c_in_content_length c, c_in_body_data_left c, c_in_chunked_length c, c_out_content_length c, c_out_body_data_left c,
    c_out_chunked_length c),
   (c_in_chunk_count c, c_in_chunk_request_index c, c_conn_flags c, c_in_data_counter c, c_out_data_counter c),
   c_fault c, length (c_txs c)).
Definition ptrs (c : connp) := (c_in_tx c, c_out_tx c).
Definition rcv (c : connp) := (k_receiver (c_in c), k_receiver_hook (c_in c), k_receiver (c_out c), k_receiver_hook (c_out c)).
Definition hook_in (c : connp) := k_receiver_hook (c_in c).
Definition hook_out (c : connp) := k_receiver_hook (c_out c).

Lemma skel_core a b : skel a = skel b -> rq_core_st a = rq_core_st b.
Proof. unfold skel, rq_core_st, rq_core, cur_core. intros H. congruence. Qed.
Lemma skel_fault a b : skel a = skel b -> c_fault a = c_fault b.
Proof. unfold skel. intros H. congruence. Qed.
Lemma skel_in_state a b : skel a = skel b -> c_in_state a = c_in_state b.
Proof. unfold skel. intros H. congruence. Qed.
Lemma skel_out_state a b : skel a = skel b -> c_out_state a = c_out_state b.
Proof. unfold skel. intros H. congruence. Qed.
Lemma skel_in_status a b : skel a = skel b -> c_in_status a = c_in_status b.
Proof. unfold skel. intros H. congruence. Qed.
Lemma skel_out_status a b : skel a = skel b -> c_out_status a = c_out_status b.
Proof. unfold skel. intros H. congruence. Qed.
Lemma skel_shifted a b : skel a = skel b -> c_txs_shifted a = c_txs_shifted b.
Proof. unfold skel. intros H. congruence. Qed.
Lemma skel_ntx a b : skel a = skel b -> length (c_txs a) = length (c_txs b).
Proof. unfold skel. intros H. congruence. Qed.
Lemma skel_cur_in a b : skel a = skel b -> cur_core (c_in a) = cur_core (c_in b).
Proof. unfold skel. intros H. congruence. Qed.
Lemma skel_cur_out a b : skel a = skel b -> cur_core (c_out a) = cur_core (c_out b).
Proof. unfold skel. intros H. congruence. Qed.
Lemma cur_core_read k k' : cur_core k' = cur_core k -> k_read k' = k_read k.
Proof. unfold cur_core. congruence. Qed.
Lemma hooks_of_rcv c c' : rcv c' = rcv c -> hook_in c' = hook_in c /\ hook_out c' = hook_out c.
Proof. unfold rcv, hook_in, hook_out. intros H. split; congruence. Qed.

(* what the safety argument needs to survive in a transaction record: the request direction looks at
   "request not complete" and "parsed_uri set", the response direction at "response not complete" *)
Definition tx_lein (t t' : tx) : Prop :=
  (t_request_progress t <> c_HTP_REQUEST_COMPLETE -> t_request_progress t' <> c_HTP_REQUEST_COMPLETE) /\
  (t_parsed_uri t <> None -> t_parsed_uri t' <> None).
Definition tx_leout (t t' : tx) : Prop :=
  t_response_progress t <> c_HTP_RESPONSE_COMPLETE -> t_response_progress t' <> c_HTP_RESPONSE_COMPLETE.
Definition tx_le (t t' : tx) : Prop := tx_lein t t' /\ tx_leout t t'.
Definition preorder (R : tx -> tx -> Prop) : Prop := (forall t, R t t) /\ (forall a b c, R a b -> R b c -> R a c).
Lemma tx_lein_pre : preorder tx_lein. Proof. unfold preorder, tx_lein. split; intros; tauto. Qed.
Lemma tx_leout_pre : preorder tx_leout. Proof. unfold preorder, tx_leout. split; intros; tauto. Qed.
Lemma tx_le_pre : preorder tx_le. Proof. unfold preorder, tx_le, tx_lein, tx_leout. split; intros; tauto. Qed.

(* same live slots, related contents *)
Definition txs_rel (R : tx -> tx -> Prop) (c c' : connp) : Prop :=
  forall i, match tx_slot c i, tx_slot c' i with
            | Some t, Some t' => R t t'
            | None, None => True
            | _, _ => False
            end.
Lemma txs_rel_refl R c : preorder R -> txs_rel R c c.
Proof. intros [P _] i. destruct (tx_slot c i); [apply P|exact I]. Qed.
Lemma txs_rel_trans R a b c : preorder R -> txs_rel R a b -> txs_rel R b c -> txs_rel R a c.
Proof.
  intros [_ P] H1 H2 i. specialize (H1 i). specialize (H2 i).
  destruct (tx_slot a i), (tx_slot b i), (tx_slot c i); try tauto. eapply P; eassumption.
Qed.
Lemma txs_rel_of_eq R c c' : preorder R -> c_txs c' = c_txs c -> c_txs_shifted c' = c_txs_shifted c -> txs_rel R c c'.
Proof.
  intros [P _] H1 H2 i. unfold tx_slot. rewrite H1, H2. destruct (_ <? _)%nat; [exact I|].
  destruct (nth_error _ _) as [[t|]|]; try exact I. apply P.
Qed.
Lemma txs_rel_weaken (R R' : tx -> tx -> Prop) c c' : (forall t t', R t t' -> R' t t') -> txs_rel R c c' -> txs_rel R' c c'.
Proof. intros W H i. specialize (H i). destruct (tx_slot c i), (tx_slot c' i); try tauto. apply W. exact H. Qed.

(* ------------------------------------------------------------------------------------------------ *)
(* 2. the invariant *)

Definition live (c : connp) (i : nat) : Prop := tx_slot c i <> None.
Definition olive (c : connp) (o : option nat) : Prop := match o with Some i => live c i | None => True end.
(* a property of the transaction a pointer names (vacuous for NULL / a dead slot) *)
Definition txp (c : connp) (o : option nat) (P : tx -> Prop) : Prop :=
  match o with Some i => match tx_slot c i with Some t => P t | None => True end | None => True end.
Definition armed (k : cursor) : Prop := k_receiver_hook k <> None.
(* the request states entered after the request line was processed (tx->parsed_uri is set) *)
Definition uri_state (s : req_state) : Prop :=
  match s with REQ_IDLE | REQ_LINE | REQ_FINALIZE | REQ_IGNORE_DATA_AFTER_HTTP_0_9 => False | _ => True end.

(* transaction / receiver coupling, request direction *)
Record TIin (c : connp) : Prop := mkTIin {
  ti_in_live : olive c (c_in_tx c);                       (* in_tx is NULL or names a live transaction *)
  ti_in_prog : txp c (c_in_tx c) (fun t => t_request_progress t <> c_HTP_REQUEST_COMPLETE);
  ti_in_armed : armed (c_in c) -> c_in_tx c <> None /\ (c_in_state c = REQ_HEADERS \/ c_in_state c = REQ_FINALIZE);
  ti_in_uri : uri_state (c_in_state c) -> txp c (c_in_tx c) (fun t => t_parsed_uri t <> None)
}.
(* response direction *)
Record TIout (c : connp) : Prop := mkTIout {
  ti_out_live : olive c (c_out_tx c);
  ti_out_armed : armed (c_out c) ->
                 c_out_tx c <> None /\ txp c (c_out_tx c) (fun t => t_response_progress t <> c_HTP_RESPONSE_COMPLETE);
  ti_out_idle : c_out_state c = RES_IDLE -> c_out_tx c = None
}.
Definition TI (c : connp) : Prop := TIin c /\ TIout c.

Lemma txs_rel_live R c c' i : txs_rel R c c' -> live c i -> live c' i.
Proof. intros H L. specialize (H i). unfold live in *. destruct (tx_slot c i); [|congruence]. destruct (tx_slot c' i); [discriminate|tauto]. Qed.
Lemma txs_rel_olive R c c' o : txs_rel R c c' -> olive c o -> olive c' o.
Proof. destruct o; [apply txs_rel_live|tauto]. Qed.
Lemma txs_rel_txp R c c' o (P : tx -> Prop) :
  txs_rel R c c' -> (forall t t', R t t' -> P t -> P t') -> txp c o P -> txp c' o P.
Proof.
  intros H M. unfold txp. destruct o as [i|]; [|tauto]. specialize (H i).
  destruct (tx_slot c i), (tx_slot c' i); try tauto. apply M. exact H.
Qed.

(* a receiver hook stays or is cleared *)
Definition hk_le (h h' : option nat) : Prop := h' = h \/ h' = None.
(* the receiver offset stays or catches up with the read offset *)
Definition rc_le (k k' : cursor) : Prop := k_receiver k' = k_receiver k \/ k_receiver k' = k_read k'.
Lemma hk_le_refl h : hk_le h h. Proof. left. reflexivity. Qed.
Lemma hk_le_trans a b c : hk_le a b -> hk_le b c -> hk_le a c.
Proof. unfold hk_le. intros [->| ->] [->| ->]; tauto. Qed.

Lemma TIin_frame c c' :
  TIin c -> c_in_state c' = c_in_state c -> c_in_tx c' = c_in_tx c -> hk_le (hook_in c) (hook_in c') -> txs_rel tx_lein c c' -> TIin c'.
Proof.
  intros [A1 A3 A4 A5] Hs P1 Hh Ht. unfold armed, hook_in in *. constructor; unfold armed; rewrite ?P1, ?Hs.
  - eapply txs_rel_olive; eassumption.
  - eapply txs_rel_txp; [eassumption| |eassumption]. intros t t' (E1 & E2). cbn. exact E1.
  - intros U. apply A4. destruct Hh as [Hh|Hh]; congruence.
  - intros U. eapply txs_rel_txp; [eassumption| |exact (A5 U)]. intros t t' (E1 & E2). cbn. exact E2.
Qed.
Lemma TIout_frame c c' :
  TIout c -> c_out_state c' = c_out_state c -> c_out_tx c' = c_out_tx c -> hk_le (hook_out c) (hook_out c') -> txs_rel tx_leout c c' -> TIout c'.
Proof.
  intros [A2 A6 A7] Ho P2 Hh Ht. unfold armed, hook_out in *. constructor; unfold armed; rewrite ?P2, ?Ho.
  - eapply txs_rel_olive; eassumption.
  - intros U. destruct (A6 ltac:(destruct Hh as [Hh|Hh]; congruence)) as [B1 B2]. split; [exact B1|].
    eapply txs_rel_txp; [eassumption| |eassumption]. intros t t' E. cbn. exact E.
  - exact A7.
Qed.

(* the general frame of the callback / transaction layer, relative to a relation on transaction records *)
Definition frR (R : tx -> tx -> Prop) (c c' : connp) : Prop :=
  skel c' = skel c /\ ptrs c' = ptrs c /\ txs_rel R c c' /\ hk_le (hook_in c) (hook_in c') /\ hk_le (hook_out c) (hook_out c') /\
  rc_le (c_in c) (c_in c') /\ rc_le (c_out c) (c_out c').
Notation fr := (frR tx_le).
Notation fro := (frR tx_leout).      (* the request direction of the records may change arbitrarily *)
Notation fri := (frR tx_lein).

Lemma frR_refl R c : preorder R -> frR R c c.
Proof. intros P. unfold frR, rc_le. repeat split; try apply hk_le_refl; try (apply txs_rel_refl; exact P); left; reflexivity. Qed.
Lemma frR_trans R a b c : preorder R -> frR R a b -> frR R b c -> frR R a c.
Proof.
  intros P (A1 & A2 & A3 & A4 & A5 & A6 & A7) (B1 & B2 & B3 & B4 & B5 & B6 & B7).
  pose proof (cur_core_read _ _ (skel_cur_in _ _ B1)) as Ri. pose proof (cur_core_read _ _ (skel_cur_out _ _ B1)) as Ro.
  unfold frR, rc_le in *. repeat split; try congruence.
  - eapply txs_rel_trans; eassumption.
  - eapply hk_le_trans; eassumption.
  - eapply hk_le_trans; eassumption.
  - destruct B6 as [B6|B6]; [|right; exact B6]. destruct A6 as [A6|A6]; [left; congruence|right; congruence].
  - destruct B7 as [B7|B7]; [|right; exact B7]. destruct A7 as [A7|A7]; [left; congruence|right; congruence].
Qed.
Lemma frR_weaken (R R' : tx -> tx -> Prop) c c' : (forall t t', R t t' -> R' t t') -> frR R c c' -> frR R' c c'.
Proof. intros W (A1 & A2 & A3 & A4). repeat split; try tauto. eapply txs_rel_weaken; eassumption. Qed.
Lemma fr_fro c c' : fr c c' -> fro c c'.
Proof. apply frR_weaken. intros t t' [_ H]. exact H. Qed.
Lemma fr_fri c c' : fr c c' -> fri c c'.
Proof. apply frR_weaken. intros t t' [H _]. exact H. Qed.
Definition fr_refl c := frR_refl tx_le c tx_le_pre.
Definition fr_trans a b c := frR_trans tx_le a b c tx_le_pre.
Definition fro_refl c := frR_refl tx_leout c tx_leout_pre.
Definition fro_trans a b c := frR_trans tx_leout a b c tx_leout_pre.
Definition fri_refl c := frR_refl tx_lein c tx_lein_pre.
Definition fri_trans a b c := frR_trans tx_lein a b c tx_lein_pre.

Lemma TIin_fri c c' : TIin c -> fri c c' -> TIin c'.
Proof.
  intros Ti (S & P & X & H1 & H2 & _). unfold ptrs in P. injection P as P1 P2.
  eapply TIin_frame; try eassumption. apply skel_in_state. exact S.
Qed.
Lemma TIout_fro c c' : TIout c -> fro c c' -> TIout c'.
Proof.
  intros To (S & P & X & H1 & H2 & _). unfold ptrs in P. injection P as P1 P2.
  eapply TIout_frame; try eassumption. apply skel_out_state. exact S.
Qed.
Lemma TI_fr c c' : TI c -> fr c c' -> TI c'.
Proof. intros [Ti To] F. split; [eapply TIin_fri; [exact Ti|apply fr_fri; exact F]|eapply TIout_fro; [exact To|apply fr_fro; exact F]]. Qed.
Lemma frR_fault R c c' : frR R c c' -> c_fault c' = c_fault c.
Proof. intros (S & _). apply skel_fault. exact S. Qed.
Lemma frR_core R c c' : frR R c c' -> rq_core_st c' = rq_core_st c.
Proof. intros (S & _). apply skel_core. exact S. Qed.
Lemma frR_live R c c' i : frR R c c' -> live c i -> live c' i.
Proof. intros (_ & _ & X & _). eapply txs_rel_live. exact X. Qed.
Lemma frR_in_tx R c c' : frR R c c' -> c_in_tx c' = c_in_tx c.
Proof. intros (_ & P & _). unfold ptrs in P. congruence. Qed.
Lemma frR_out_tx R c c' : frR R c c' -> c_out_tx c' = c_out_tx c.
Proof. intros (_ & P & _). unfold ptrs in P. congruence. Qed.
Lemma frR_in_state R c c' : frR R c c' -> c_in_state c' = c_in_state c.
Proof. intros (S & _). apply skel_in_state. exact S. Qed.
Lemma frR_hook_in_none R c c' : frR R c c' -> hook_in c = None -> hook_in c' = None.
Proof. intros (_ & _ & _ & [H|H] & _) E; congruence. Qed.

(* the request receiver can be flushed: when it is armed, in_tx is a live transaction and the bytes [receiver, read)
   are readable through in_current_data *)
Definition bytes_ok (k : cursor) : Prop :=
  (k_read k <= k_receiver k)%nat \/ match k_data k with Some d => (k_read k <= length d)%nat | None => False end.
Definition sendok_in (c : connp) : Prop :=
  armed (c_in c) -> (c_in_tx c <> None /\ olive c (c_in_tx c)) /\ bytes_ok (c_in c).
Lemma bytes_ok_le k k' : cur_core k' = cur_core k -> rc_le k k' -> bytes_ok k -> bytes_ok k'.
Proof.
  unfold cur_core, rc_le, bytes_ok. intros E R B. injection E as E1 E2 E3 E4 E5 E6 E7. rewrite E1, E3.
  destruct R as [R|R]; rewrite R; [exact B|left; rewrite E3; apply Nat.le_refl].
Qed.
Lemma sendok_in_frR R c c' : frR R c c' -> sendok_in c -> sendok_in c'.
Proof.
  intros (S & P & X & H1 & _ & R1 & _) K. unfold sendok_in, armed, hook_in, hk_le, ptrs in *. intros A.
  injection P as P1 P2. rewrite P1. specialize (K ltac:(destruct H1 as [H1|H1]; congruence)). destruct K as [[K1 K2] K3].
  split; [split; [exact K1|eapply txs_rel_olive; eassumption]|].
  eapply bytes_ok_le; [apply skel_cur_in; exact S|exact R1|exact K3].
Qed.

(* ------------------------------------------------------------------------------------------------ *)
(* 3. the callback / transaction layer *)

Lemma live_range c i : live c i -> (c_txs_shifted c <= i)%nat /\ (i - c_txs_shifted c < length (c_txs c))%nat.
Proof.
  unfold live, tx_slot. destruct (i <? c_txs_shifted c)%nat eqn:E; [congruence|]. apply Nat.ltb_ge in E.
  destruct (nth_error (c_txs c) (i - c_txs_shifted c)) eqn:N; [|congruence]. intros _. split; [exact E|].
  apply nth_error_Some. congruence.
Qed.

Lemma tx_put_slot c i t j : live c i -> tx_slot (tx_put c i t) j = if (j =? i)%nat then Some t else tx_slot c j.
Proof.
  intros L. destruct (live_range c i L) as [L1 L2]. unfold tx_put.
  replace (i <? c_txs_shifted c)%nat with false by (symmetry; apply Nat.ltb_ge; exact L1).
  replace (i - c_txs_shifted c <? length (c_txs c))%nat with true by (symmetry; apply Nat.ltb_lt; exact L2).
  unfold tx_slot. cbn. destruct (j <? c_txs_shifted c)%nat eqn:E.
  - apply Nat.ltb_lt in E. replace (j =? i)%nat with false by (symmetry; apply Nat.eqb_neq; lia). reflexivity.
  - apply Nat.ltb_ge in E. rewrite nth_error_upd.
    destruct (j =? i)%nat eqn:E2.
    + apply Nat.eqb_eq in E2. subst j. rewrite Nat.eqb_refl. replace (i - c_txs_shifted c <? length (c_txs c))%nat with true by (symmetry; apply Nat.ltb_lt; exact L2). reflexivity.
    + apply Nat.eqb_neq in E2. replace (j - c_txs_shifted c =? i - c_txs_shifted c)%nat with false by (symmetry; apply Nat.eqb_neq; lia). reflexivity.
Qed.
Lemma tx_put_skel c i t : live c i -> skel (tx_put c i t) = skel c /\ ptrs (tx_put c i t) = ptrs c /\ rcv (tx_put c i t) = rcv c.
Proof.
  intros L. destruct (live_range c i L) as [L1 L2]. unfold tx_put.
  replace (i <? c_txs_shifted c)%nat with false by (symmetry; apply Nat.ltb_ge; exact L1).
  replace (i - c_txs_shifted c <? length (c_txs c))%nat with true by (symmetry; apply Nat.ltb_lt; exact L2).
  unfold skel, ptrs, rcv. cbn. rewrite upd_length. repeat split.
Qed.
Lemma frR_of_rcv R c c' : skel c' = skel c -> ptrs c' = ptrs c -> rcv c' = rcv c -> txs_rel R c c' -> frR R c c'.
Proof.
  intros S P Rc X. unfold rcv in Rc. injection Rc as R1 R2 R3 R4. unfold frR, rc_le, hk_le, hook_in, hook_out.
  repeat split; try assumption; left; assumption.
Qed.
Lemma tx_put_fr R c i t t0 : preorder R -> tx_slot c i = Some t0 -> R t0 t -> frR R c (tx_put c i t).
Proof.
  intros PR E Hle. assert (L : live c i) by (unfold live; congruence). destruct (tx_put_skel c i t L) as (S & P & Rc).
  apply frR_of_rcv; try assumption. intros j. rewrite (tx_put_slot c i t j L). destruct (j =? i)%nat eqn:E2.
  - apply Nat.eqb_eq in E2. subst j. rewrite E. exact Hle.
  - destruct (tx_slot c j); [apply PR|exact I].
Qed.
Lemma tx_upd_fr R c i f : preorder R -> live c i -> (forall t, R t (f t)) -> frR R c (tx_upd c i f).
Proof. unfold live, tx_upd. intros PR L Hf. destruct (tx_slot c i) as [t0|] eqn:E; [|congruence]. eapply tx_put_fr; [exact PR|exact E|apply Hf]. Qed.

(* a transaction-content update that keeps "not complete" and parsed_uri: solved by computation *)
Ltac tx_le_tac :=
  intros; unfold tx_le, tx_lein, tx_leout; cbn; repeat split; intros; try assumption; try tauto;
  try (let Q := fresh in intro Q; vm_compute in Q; discriminate).

Lemma bump_emit_fr c h e : fr c (emit (bump_hook c h) e).
Proof. apply frR_of_rcv; try reflexivity. apply txs_rel_of_eq; [apply tx_le_pre|reflexivity|reflexivity]. Qed.

(* ---- htp_tx_destroy on a complete transaction ---- *)
Definition clr (o : option nat) (i : nat) : option nat :=
  match o with Some j => if (j =? i)%nat then None else Some j | None => None end.
Lemma tx_destroy_incomplete_ptrs c i :
  c_in_tx (tx_destroy_incomplete c i) = clr (c_in_tx c) i /\ c_out_tx (tx_destroy_incomplete c i) = clr (c_out_tx c) i.
Proof.
  unfold tx_destroy_incomplete, clr.
  destruct (i <? c_txs_shifted c)%nat; cbn; destruct (c_in_tx c) as [a|] eqn:Ea; try destruct (a =? i)%nat; cbn;
    destruct (c_out_tx c) as [b|] eqn:Eb; try destruct (b =? i)%nat; cbn; rewrite ?Ea, ?Eb; split; reflexivity.
Qed.
Lemma tx_destroy_incomplete_skel c i :
  skel (tx_destroy_incomplete c i) = skel c /\ rcv (tx_destroy_incomplete c i) = rcv c.
Proof.
  unfold tx_destroy_incomplete.
  destruct (i <? c_txs_shifted c)%nat; cbn; destruct (c_in_tx c) as [a|]; try destruct (a =? i)%nat; cbn;
    destruct (c_out_tx c) as [b|]; try destruct (b =? i)%nat; cbn; unfold skel, rcv; cbn; rewrite ?upd_length; split; reflexivity.
Qed.
Lemma tx_destroy_incomplete_slot c i j :
  tx_slot (tx_destroy_incomplete c i) j = if (j =? i)%nat then None else tx_slot c j.
Proof.
  assert (G : forall c0, c_txs c0 = (if (i <? c_txs_shifted c)%nat then c_txs c else upd (c_txs c) (i - c_txs_shifted c) None) ->
                         c_txs_shifted c0 = c_txs_shifted c ->
                         tx_slot c0 j = if (j =? i)%nat then None else tx_slot c j).
  { intros c0 E1 E2. unfold tx_slot. rewrite E1, E2. destruct (j <? c_txs_shifted c)%nat eqn:Ej.
    - destruct (j =? i)%nat; reflexivity.
    - apply Nat.ltb_ge in Ej. destruct (i <? c_txs_shifted c)%nat eqn:Ei.
      + apply Nat.ltb_lt in Ei. replace (j =? i)%nat with false by (symmetry; apply Nat.eqb_neq; lia). reflexivity.
      + apply Nat.ltb_ge in Ei. rewrite nth_error_upd. destruct (j =? i)%nat eqn:Eji.
        * apply Nat.eqb_eq in Eji. subst j. rewrite Nat.eqb_refl. destruct (_ <? _)%nat; reflexivity.
        * apply Nat.eqb_neq in Eji. replace (j - c_txs_shifted c =? i - c_txs_shifted c)%nat with false by (symmetry; apply Nat.eqb_neq; lia). reflexivity. }
  apply G; unfold tx_destroy_incomplete;
  destruct (i <? c_txs_shifted c)%nat; cbn; destruct (c_in_tx c) as [a|]; try destruct (a =? i)%nat; cbn;
    destruct (c_out_tx c) as [b|]; try destruct (b =? i)%nat; cbn; reflexivity.
Qed.
Lemma tx_is_complete_true t : tx_is_complete t = true ->
  t_request_progress t = c_HTP_REQUEST_COMPLETE /\ t_response_progress t = c_HTP_RESPONSE_COMPLETE.
Proof. unfold tx_is_complete. intros H. apply andb_true_iff in H. destruct H as [H1 H2]. apply Z.eqb_eq in H1, H2. tauto. Qed.

Lemma tx_destroy_incomplete_TIin c i t :
  tx_slot c i = Some t -> tx_is_complete t = true -> TIin c -> TIin (tx_destroy_incomplete c i).
Proof.
  intros Es Hc [A1 A2 A3 A4]. destruct (tx_is_complete_true t Hc) as [Hq _].
  destruct (tx_destroy_incomplete_ptrs c i) as [P1 _]. destruct (tx_destroy_incomplete_skel c i) as [S R].
  destruct (hooks_of_rcv _ _ R) as [H1 _]. pose proof (skel_in_state _ _ S) as Hs. unfold hook_in in H1.
  assert (Hne : forall j, c_in_tx c = Some j -> (j =? i)%nat = false).
  { intros j Ej. apply Nat.eqb_neq. intros ->. unfold txp in A2. rewrite Ej, Es in A2. congruence. }
  assert (P1' : c_in_tx (tx_destroy_incomplete c i) = c_in_tx c).
  { rewrite P1. unfold clr. destruct (c_in_tx c) as [j|] eqn:Ej; [|reflexivity]. rewrite (Hne j eq_refl). reflexivity. }
  constructor; unfold armed, txp, olive, live; rewrite ?P1', ?Hs, ?H1.
  - destruct (c_in_tx c) as [j|] eqn:Ej; [|exact I]. rewrite tx_destroy_incomplete_slot, (Hne j eq_refl). exact A1.
  - destruct (c_in_tx c) as [j|] eqn:Ej; [|exact I]. rewrite tx_destroy_incomplete_slot, (Hne j eq_refl). unfold txp in A2. exact A2.
  - exact A3.
  - intros U. specialize (A4 U). destruct (c_in_tx c) as [j|] eqn:Ej; [|exact I]. rewrite tx_destroy_incomplete_slot, (Hne j eq_refl). unfold txp in A4. exact A4.
Qed.
Lemma tx_destroy_incomplete_TIout c i t :
  tx_slot c i = Some t -> tx_is_complete t = true -> TIout c -> TIout (tx_destroy_incomplete c i).
Proof.
  intros Es Hc [A1 A2 A3]. destruct (tx_is_complete_true t Hc) as [_ Hq].
  destruct (tx_destroy_incomplete_ptrs c i) as [_ P2]. destruct (tx_destroy_incomplete_skel c i) as [S R].
  destruct (hooks_of_rcv _ _ R) as [_ H2]. pose proof (skel_out_state _ _ S) as Hs. unfold hook_out in H2.
  constructor; unfold armed, txp, olive, live; rewrite ?P2, ?Hs, ?H2.
  - unfold clr. destruct (c_out_tx c) as [j|] eqn:Ej; [|exact I]. destruct (j =? i)%nat eqn:E; [exact I|].
    rewrite tx_destroy_incomplete_slot, E. exact A1.
  - intros U. destruct (A2 U) as [B1 B2]. unfold clr. destruct (c_out_tx c) as [j|] eqn:Ej; [|congruence].
    assert (E : (j =? i)%nat = false). { apply Nat.eqb_neq. intros ->. unfold txp in B2. rewrite Es in B2. congruence. }
    rewrite E. split; [discriminate|]. rewrite tx_destroy_incomplete_slot, E. exact B2.
  - intros U. rewrite (A3 U). reflexivity.
Qed.

Section Layer.
Variable cb : cb_oracle.
Variable g : cfg.
(* premise (a): no callback destroys a transaction *)
Hypothesis cb_nodestroy : forall h n, cb h n <> CB_DESTROY_TX.

Lemma run_hook_ex_fr h i d l s c : live c i -> fr c (snd (run_hook_ex cb h i d l s c)).
Proof.
  intros L. unfold run_hook_ex. pose proof (bump_emit_fr c h (mkev h i d l s)) as F.
  assert (L1 : live (emit (bump_hook c h) (mkev h i d l s)) i) by (eapply frR_live; eassumption).
  destruct (cb h (hook_count c h)) eqn:E; cbn [snd]; try exact F.
  - eapply fr_trans; [exact F|]. apply tx_upd_fr; [apply tx_le_pre|exact L1|tx_le_tac].
  - eapply fr_trans; [exact F|]. apply tx_upd_fr; [apply tx_le_pre|exact L1|tx_le_tac].
  - exfalso. exact (cb_nodestroy _ _ E).
Qed.
Lemma run_hook_fr h i c : live c i -> fr c (snd (run_hook cb h i c)).
Proof. apply run_hook_ex_fr. Qed.
Lemma run_data_hook_fr h i d l c : live c i -> fr c (snd (run_data_hook cb h i d l c)).
Proof. apply run_hook_ex_fr. Qed.
Lemma run_tx_hooks_fr k h i d l c : fr c (run_tx_hooks k h i d l c).
Proof.
  revert c. induction k as [|k IH]; intros c; cbn [run_tx_hooks]; [apply fr_refl|].
  eapply fr_trans; [apply bump_emit_fr|apply IH].
Qed.

Lemma frR_olive_in R c c' : frR R c c' -> olive c (c_in_tx c) -> olive c' (c_in_tx c').
Proof. intros F L. rewrite (frR_in_tx _ _ _ F). destruct F as (_ & _ & X & _). eapply txs_rel_olive; eassumption. Qed.

Lemma req_run_hook_body_data_fr d l c : olive c (c_in_tx c) -> fr c (snd (req_run_hook_body_data cb d l c)).
Proof.
  intros L. unfold req_run_hook_body_data.
  assert (G : fr c (snd match c_in_tx c with
                        | None => (ST_OK, c)
                        | Some i => run_data_hook cb H_REQUEST_BODY_DATA i d l
                                      (run_tx_hooks (t_hook_request_body (tx_get c i)) H_TX_REQUEST_BODY_DATA i d l c)
                        end)).
  { destruct (c_in_tx c) as [i|]; [|apply fr_refl]. cbn in L.
    eapply fr_trans; [apply run_tx_hooks_fr|]. apply run_data_hook_fr. eapply frR_live; [apply run_tx_hooks_fr|exact L]. }
  destruct d as [[|x d]|]; [apply fr_refl|exact G|exact G].
Qed.
Lemma tx_req_process_body_data_ex_fr i d n c :
  live c i -> olive c (c_in_tx c) -> fr c (snd (tx_req_process_body_data_ex cb i d n c)).
Proof.
  intros L Li. unfold tx_req_process_body_data_ex.
  set (c1 := tx_upd c i _).
  assert (F1 : fr c c1) by (apply tx_upd_fr; [apply tx_le_pre|exact L|tx_le_tac]).
  match goal with |- context [req_run_hook_body_data cb ?a ?b c1] =>
    pose proof (req_run_hook_body_data_fr a b c1 (frR_olive_in _ _ _ F1 Li)) as F2; destruct (req_run_hook_body_data cb a b c1) as [rc c2] end.
  cbn [snd] in F2. destruct rc; cbn [snd]; eapply fr_trans; eassumption.
Qed.

(* ---- the request receiver ---- *)
Lemma have_enough (k : cursor) :
  bytes_ok k ->
  (match cur_slice k (k_receiver k) (k_read k) with Some d => length d | None => O end <? k_read k - k_receiver k)%nat = false.
Proof.
  unfold bytes_ok, cur_slice. intros [H|H]; apply Nat.ltb_ge; [lia|]. destruct (k_data k) as [d|]; [|tauto].
  rewrite firstn_length, skipn_length. lia.
Qed.

Lemma req_receiver_send_data_safe l c :
  c_fault c = false -> sendok_in c ->
  c_fault (snd (req_receiver_send_data cb l c)) = false /\ fr c (snd (req_receiver_send_data cb l c)).
Proof.
  intros F K. unfold req_receiver_send_data.
  destruct (k_receiver_hook (c_in c)) as [h|] eqn:Eh; [|split; [exact F|apply fr_refl]].
  assert (A : armed (c_in c)) by (unfold armed; congruence).
  destruct (K A) as [[Hn L] K3].
  rewrite (have_enough (c_in c) K3). cbv beta iota zeta.
  unfold in_txi. destruct (c_in_tx c) as [i|] eqn:Ei; [|congruence]. cbn in L.
  pose proof (run_data_hook_fr h i (cur_slice (c_in c) (k_receiver (c_in c)) (k_read (c_in c))) l c L) as R'.
  destruct (run_data_hook cb h i (cur_slice (c_in c) (k_receiver (c_in c)) (k_read (c_in c))) l c) as [rc c1]. cbn [snd] in R'.
  pose proof (frR_fault _ _ _ R') as Ff.
  destruct rc; cbn [snd]; try (split; [congruence|exact R']).
  split; [cbn; congruence|]. eapply fr_trans; [exact R'|].
  unfold frR, skel, ptrs, hook_in, hook_out, rc_le, cur_core. cbn. repeat split; try apply hk_le_refl; try (left; reflexivity).
  - apply txs_rel_of_eq; [apply tx_le_pre|reflexivity|reflexivity].
  - right. reflexivity.
Qed.

Lemma req_receiver_finalize_clear_safe c :
  c_fault c = false -> sendok_in c ->
  let r := req_receiver_finalize_clear cb c in
  c_fault (snd r) = false /\ fr c (snd r) /\ hook_in (snd r) = None.
Proof.
  intros F K. cbv zeta. unfold req_receiver_finalize_clear.
  destruct (k_receiver_hook (c_in c)) eqn:Eh; [|split; [exact F|split; [apply fr_refl|exact Eh]]].
  destruct (req_receiver_send_data_safe true c F K) as [F1 R1].
  destruct (req_receiver_send_data cb true c) as [rc c1]. cbn [snd] in *.
  split; [exact F1|split; [|reflexivity]]. eapply fr_trans; [exact R1|].
  unfold frR, skel, ptrs, hook_in, hook_out, rc_le, cur_core, hk_le. cbn. repeat split; try tauto.
  apply txs_rel_of_eq; [apply tx_le_pre|reflexivity|reflexivity].
Qed.
End Layer.

(* ---- the pure transaction-record updates keep progress and parsed_uri ---- *)
Definition prog3 (t : tx) := (t_request_progress t, t_response_progress t, t_parsed_uri t).
Definition prog2 (t : tx) := (t_request_progress t, t_response_progress t).
Lemma tx_le_of_prog3 t t' : prog3 t' = prog3 t -> tx_le t t'.
Proof. unfold prog3, tx_le, tx_lein, tx_leout. intros H. injection H as -> -> ->. tauto. Qed.

Ltac brk := repeat match goal with
  | |- context [match ?x with _ => _ end] => destruct x
  | |- context [if ?b then _ else _] => destruct b
  end.

Lemma prog3_set_flag b t : prog3 (tx_set_flag b t) = prog3 t. Proof. reflexivity. Qed.
Lemma prog3_parse_request_line g t : prog3 (htp_parse_request_line g t) = prog3 t.
Proof. unfold htp_parse_request_line. brk; reflexivity. Qed.
Lemma prog3_process_request_header l t : prog3 (htp_process_request_header_generic l t) = prog3 t.
Proof. unfold htp_process_request_header_generic. brk; reflexivity. Qed.
Lemma prog3_te_cl t : prog3 (rq_te_cl t) = prog3 t.
Proof. unfold rq_te_cl. brk; reflexivity. Qed.
Lemma prog3_host nu t : prog3 (rq_host nu t) = prog3 t.
Proof. unfold rq_host. brk; reflexivity. Qed.
Lemma prog3_content_type t : prog3 (rq_content_type t) = prog3 t.
Proof. unfold rq_content_type. brk; reflexivity. Qed.

Lemma prog2_urldecode_uri g s t : prog2 (snd (rq_urldecode_uri g s t)) = prog2 t.
Proof. unfold rq_urldecode_uri. brk; reflexivity. Qed.
Lemma prog2_urldecode_uri_opt g s t : prog2 (snd (rq_urldecode_uri_opt g s t)) = prog2 t.
Proof.
  unfold rq_urldecode_uri_opt. destruct s as [s|]; [|reflexivity].
  pose proof (prog2_urldecode_uri g s t) as H. destruct (rq_urldecode_uri g s t). exact H.
Qed.
Lemma prog2_normalize_path g p t : prog2 (snd (rq_normalize_path g p t)) = prog2 t.
Proof. unfold rq_normalize_path. brk; reflexivity. Qed.
Lemma prog2_normalize_parsed_uri g raw t : prog2 (snd (htp_normalize_parsed_uri g raw t)) = prog2 t.
Proof.
  unfold htp_normalize_parsed_uri.
  pose proof (prog2_urldecode_uri_opt g (u_user raw) t) as H1. destruct (rq_urldecode_uri_opt g (u_user raw) t) as [user t1]. cbn [snd] in H1.
  pose proof (prog2_urldecode_uri_opt g (u_pass raw) t1) as H2. destruct (rq_urldecode_uri_opt g (u_pass raw) t1) as [pass t2]. cbn [snd] in H2.
  pose proof (prog2_urldecode_uri_opt g (u_host raw) t2) as H3. destruct (rq_urldecode_uri_opt g (u_host raw) t2) as [host t3]. cbn [snd] in H3.
  destruct (uri_norm_port_opt (u_port raw)) as [pn inv].
  set (t4 := if inv then _ else t3). assert (H4 : prog2 t4 = prog2 t3) by (subst t4; destruct inv; reflexivity).
  destruct (u_path raw) as [p|].
  - pose proof (prog2_normalize_path g p t4) as H5. destruct (rq_normalize_path g p t4) as [o t5]. cbn [snd] in H5.
    pose proof (prog2_urldecode_uri_opt g (u_frag raw) t5) as H6. destruct (rq_urldecode_uri_opt g (u_frag raw) t5) as [frag t6]. cbn [snd] in *.
    congruence.
  - pose proof (prog2_urldecode_uri_opt g (u_frag raw) t4) as H6. destruct (rq_urldecode_uri_opt g (u_frag raw) t4) as [frag t6]. cbn [snd] in *.
    congruence.
Qed.
Lemma pipeline_spec g b u t t' : rq_uri_pipeline_opt g b u t = Some t' -> prog2 t' = prog2 t /\ t_parsed_uri t' <> None.
Proof.
  unfold rq_uri_pipeline_opt.
  set (r := if b then _ else _).
  assert (Hr : match r with Some (raw, t0) => prog2 t0 = prog2 t /\ t_parsed_uri t0 = t_parsed_uri t | None => True end).
  { subst r. destruct b; [|split; reflexivity]. unfold rq_parse_uri_hostport. destruct u as [s|]; [|exact I].
    destruct (parse_hostport s) as [[[hn port] pn] invalid]. brk; split; reflexivity. }
  destruct r as [[raw t0]|]; [|discriminate]. destruct Hr as [Hr1 Hr2].
  set (t1 := t0 <| t_parsed_uri_raw := raw |>).
  destruct (t_parsed_uri t1) as [nu|] eqn:Eu.
  - intros H. injection H as <-. brk; (split; [|cbn; discriminate]); unfold prog2 in *; cbn in *; congruence.
  - pose proof (prog2_normalize_parsed_uri g raw t1) as H1. destruct (htp_normalize_parsed_uri g raw t1) as [nu t2]. cbn [snd] in H1.
    intros H. injection H as <-. brk; (split; [|cbn; discriminate]); unfold prog2 in *; cbn in *; congruence.
Qed.

(* frame modulo in_state, without any statement about the transaction table or the transaction pointers *)
Definition nost (c : connp) : connp := c <| c_in_state := REQ_IDLE |>.
Definition frx (c c' : connp) : Prop :=
  skel (nost c') = skel (nost c) /\ hk_le (hook_in c) (hook_in c') /\ hk_le (hook_out c) (hook_out c') /\
  rc_le (c_in c) (c_in c') /\ rc_le (c_out c) (c_out c').
Lemma skel_nost c c' : skel c' = skel c -> skel (nost c') = skel (nost c).
Proof. unfold skel, nost. cbn. intros H. congruence. Qed.
Lemma nost_cur_in c c' : skel (nost c') = skel (nost c) -> cur_core (c_in c') = cur_core (c_in c).
Proof. intros H. apply skel_cur_in in H. exact H. Qed.
Lemma nost_cur_out c c' : skel (nost c') = skel (nost c) -> cur_core (c_out c') = cur_core (c_out c).
Proof. intros H. apply skel_cur_out in H. exact H. Qed.
Lemma nost_fault c c' : skel (nost c') = skel (nost c) -> c_fault c' = c_fault c.
Proof. intros H. apply skel_fault in H. exact H. Qed.
Lemma nost_out_state c c' : skel (nost c') = skel (nost c) -> c_out_state c' = c_out_state c.
Proof. intros H. apply skel_out_state in H. exact H. Qed.
Lemma nost_core c c' : skel (nost c') = skel (nost c) -> rq_core c' = rq_core c.
Proof. intros H. apply skel_core in H. apply rq_core_of_st in H. destruct H as [H _]. exact H. Qed.
Lemma frR_frx R c c' : frR R c c' -> frx c c'.
Proof. intros (A1 & A2 & A3 & A4 & A5 & A6 & A7). repeat split; try assumption. apply skel_nost. exact A1. Qed.
Lemma frx_refl c : frx c c.
Proof. apply (frR_frx tx_le). apply fr_refl. Qed.
Lemma frx_trans a b c : frx a b -> frx b c -> frx a c.
Proof.
  intros (A1 & A4 & A5 & A6 & A7) (B1 & B4 & B5 & B6 & B7).
  pose proof (cur_core_read _ _ (nost_cur_in _ _ B1)) as Ri. pose proof (cur_core_read _ _ (nost_cur_out _ _ B1)) as Ro.
  unfold frx, rc_le in *. repeat split; try congruence.
  - eapply hk_le_trans; eassumption.
  - eapply hk_le_trans; eassumption.
  - destruct B6 as [B6|B6]; [|right; exact B6]. destruct A6 as [A6|A6]; [left; congruence|right; congruence].
  - destruct B7 as [B7|B7]; [|right; exact B7]. destruct A7 as [A7|A7]; [left; congruence|right; congruence].
Qed.
Lemma frx_of_rcv c c' : skel c' = skel c -> rcv c' = rcv c -> frx c c'.
Proof.
  intros S Rc. unfold rcv in Rc. injection Rc as R1 R2 R3 R4. unfold frx, rc_le, hk_le, hook_in, hook_out.
  repeat split; try assumption; try (left; assumption). apply skel_nost. exact S.
Qed.
Lemma frx_set_state c s : frx c (c <| c_in_state := s |>).
Proof. unfold frx, rc_le, hk_le. repeat split; left; reflexivity. Qed.

Section Layer2.
Variable cb : cb_oracle.
Variable g : cfg.
Hypothesis cb_nodestroy : forall h n, cb h n <> CB_DESTROY_TX.

(* ---- htp_tx_finalize ---- *)
Definition ptr_le (o o' : option nat) : Prop := o' = o \/ o' = None.
Lemma clr_le o i : ptr_le o (clr o i).
Proof. unfold ptr_le, clr. destruct o as [j|]; [destruct (j =? i)%nat|]; tauto. Qed.

Lemma tx_finalize_safe i c :
  c_fault c = false -> live c i ->
  let c' := snd (tx_finalize cb g i c) in
  c_fault c' = false /\ frx c c' /\ (TIin c -> TIin c') /\ (TIout c -> TIout c') /\
  ptr_le (c_in_tx c) (c_in_tx c') /\ ptr_le (c_out_tx c) (c_out_tx c') /\ c_in_state c' = c_in_state c.
Proof.
  intros F L. cbv zeta. unfold tx_finalize. unfold live in L. destruct (tx_slot c i) as [t|] eqn:Es; [|congruence].
  assert (Id : c_fault c = false /\ frx c c /\ (TIin c -> TIin c) /\ (TIout c -> TIout c) /\
               ptr_le (c_in_tx c) (c_in_tx c) /\ ptr_le (c_out_tx c) (c_out_tx c) /\ c_in_state c = c_in_state c).
  { split; [exact F|split; [apply frx_refl|split; [tauto|split; [tauto|split; [left; reflexivity|split; [left; reflexivity|reflexivity]]]]]]. }
  destruct (negb (tx_is_complete t)); [exact Id|].
  assert (L' : live c i) by (unfold live; congruence).
  pose proof (run_hook_ex_fr cb cb_nodestroy H_TRANSACTION_COMPLETE i None false (Some t) c L') as R.
  destruct (run_hook_ex cb H_TRANSACTION_COMPLETE i None false (Some t) c) as [rc c1]. cbn [snd] in R.
  assert (G : c_fault c1 = false /\ frx c c1 /\ (TIin c -> TIin c1) /\ (TIout c -> TIout c1) /\
              ptr_le (c_in_tx c) (c_in_tx c1) /\ ptr_le (c_out_tx c) (c_out_tx c1) /\ c_in_state c1 = c_in_state c).
  { split; [rewrite (frR_fault _ _ _ R); exact F|]. split; [eapply frR_frx; exact R|].
    split; [intros T; eapply TIin_fri; [exact T|apply fr_fri; exact R]|].
    split; [intros T; eapply TIout_fro; [exact T|apply fr_fro; exact R]|].
    unfold ptr_le. rewrite (frR_in_tx _ _ _ R), (frR_out_tx _ _ _ R), (frR_in_state _ _ _ R). tauto. }
  destruct rc; cbn [snd]; try exact G.
  pose proof (frR_live _ _ _ i R L') as L1. unfold live in L1. destruct (tx_slot c1 i) as [t1|] eqn:Es1; [|congruence]. cbn [snd].
  destruct (g_tx_auto_destroy g); [|exact G].
  unfold tx_destroy. rewrite Es1. destruct (tx_is_complete t1) eqn:Ec; [|exact G].
  destruct G as (G1 & G2 & G3 & G4 & G5 & G6 & G7).
  destruct (tx_destroy_incomplete_skel c1 i) as [S Rc]. destruct (tx_destroy_incomplete_ptrs c1 i) as [P1 P2].
  split; [rewrite (skel_fault _ _ S); exact G1|].
  split; [eapply frx_trans; [exact G2|apply frx_of_rcv; assumption]|].
  split; [intros T; eapply tx_destroy_incomplete_TIin; [exact Es1|exact Ec|exact (G3 T)]|].
  split; [intros T; eapply tx_destroy_incomplete_TIout; [exact Es1|exact Ec|exact (G4 T)]|].
  rewrite P1, P2, (skel_in_state _ _ S). unfold ptr_le in *.
  pose proof (clr_le (c_in_tx c1) i) as Q1. pose proof (clr_le (c_out_tx c1) i) as Q2. unfold ptr_le in *.
  split; [destruct Q1 as [Q1|Q1]; rewrite Q1; tauto|split; [destruct Q2 as [Q2|Q2]; rewrite Q2; tauto|exact G7]].
Qed.

(* ---- htp_tx_state_request_complete_partial ---- *)
Lemma partial_safe i c :
  c_fault c = false -> live c i -> c_in_tx c = Some i -> sendok_in c ->
  let r := tx_state_request_complete_partial cb i c in
  c_fault (snd r) = false /\ fro c (snd r) /\ (fst r = ST_OK -> hook_in (snd r) = None).
Proof.
  intros F L Ei K. cbv zeta. unfold tx_state_request_complete_partial.
  assert (Lo : olive c (c_in_tx c)) by (rewrite Ei; exact L).
  assert (G : forall c1, fr c c1 ->
     let r := (let c2 := tx_upd c1 i (fun t => t <| t_request_progress := c_HTP_REQUEST_COMPLETE |>) in
               match run_hook cb H_REQUEST_COMPLETE i c2 with (ST_OK, c3) => req_receiver_finalize_clear cb c3 | r => r end) in
     c_fault (snd r) = false /\ fro c (snd r) /\ (fst r = ST_OK -> hook_in (snd r) = None)).
  { intros c1 R1. cbv zeta.
    pose proof (frR_live _ _ _ i R1 L) as L1.
    set (c2 := tx_upd c1 i _).
    assert (R2 : fro c1 c2) by (apply tx_upd_fr; [apply tx_leout_pre|exact L1|intros t; unfold tx_leout; cbn; tauto]).
    pose proof (frR_live _ _ _ i R2 L1) as L2.
    pose proof (run_hook_fr cb cb_nodestroy H_REQUEST_COMPLETE i c2 L2) as R3. unfold run_hook in *.
    destruct (run_hook_ex cb H_REQUEST_COMPLETE i None false None c2) as [rc c3]. cbn [fst snd] in *.
    assert (R03 : fro c c3) by (eapply fro_trans; [apply fr_fro; exact R1|eapply fro_trans; [exact R2|apply fr_fro; exact R3]]).
    assert (F3 : c_fault c3 = false) by (rewrite (frR_fault _ _ _ R03); exact F).
    destruct rc; cbn [fst snd]; try (split; [exact F3|split; [exact R03|discriminate]]).
    pose proof (sendok_in_frR _ _ _ R03 K) as K3.
    destruct (req_receiver_finalize_clear_safe cb cb_nodestroy c3 F3 K3) as (F4 & R4 & H4).
    destruct (req_receiver_finalize_clear cb c3) as [rc4 c4]. cbn [fst snd] in *.
    split; [exact F4|split; [eapply fro_trans; [exact R03|apply fr_fro; exact R4]|intros _; exact H4]]. }
  destruct (tx_req_has_body (tx_get c i)).
  - pose proof (tx_req_process_body_data_ex_fr cb cb_nodestroy i None 0 c L Lo) as R1.
    destruct (tx_req_process_body_data_ex cb i None 0 c) as [rc c1]. cbn [fst snd] in *.
    assert (F1 : c_fault c1 = false) by (rewrite (frR_fault _ _ _ R1); exact F).
    destruct rc; try (apply (G c1 R1)); cbn [fst snd]; (split; [exact F1|split; [apply fr_fro; exact R1|discriminate]]).
  - apply (G c (fr_refl c)).
Qed.

(* ---- htp_tx_state_request_complete ---- *)
Lemma request_complete_safe i c :
  c_fault c = false -> live c i -> c_in_tx c = Some i -> sendok_in c -> TIout c ->
  txp c (c_in_tx c) (fun t => t_request_progress t <> c_HTP_REQUEST_COMPLETE) ->
  let r := tx_state_request_complete cb g i c in
  c_fault (snd r) = false /\ TIout (snd r) /\ frx c (snd r) /\ ptr_le (c_out_tx c) (c_out_tx (snd r)) /\
  (fst r = ST_OK -> c_in_tx (snd r) = None /\ hook_in (snd r) = None /\
                    (c_in_state (snd r) = REQ_IDLE \/ c_in_state (snd r) = REQ_IGNORE_DATA_AFTER_HTTP_0_9)).
Proof.
  intros F L Ei K To Pq. cbv zeta. unfold tx_state_request_complete.
  unfold live in L. destruct (tx_slot c i) as [t0|] eqn:Es; [|congruence].
  unfold txp in Pq. rewrite Ei, Es in Pq.
  replace (t_request_progress t0 =? c_HTP_REQUEST_COMPLETE) with false by (symmetry; apply Z.eqb_neq; exact Pq).
  cbn [negb].
  assert (L' : live c i) by (unfold live; congruence).
  destruct (partial_safe i c F L' Ei K) as (F1 & R1 & H1).
  destruct (tx_state_request_complete_partial cb i c) as [rc c1]. cbn [fst snd] in *.
  assert (To1 : TIout c1) by (eapply TIout_fro; eassumption).
  assert (Po : ptr_le (c_out_tx c) (c_out_tx c1)) by (left; apply (frR_out_tx _ _ _ R1)).
  destruct rc; cbn [fst snd]; try (split; [exact F1|split; [exact To1|split; [eapply frR_frx; exact R1|split; [exact Po|discriminate]]]]).
  specialize (H1 eq_refl).
  pose proof (frR_live _ _ _ i R1 L') as L1. unfold live in L1. destruct (tx_slot c1 i) as [t1|] eqn:Es1; [|congruence].
  set (c2 := c1 <| c_in_state := if t_is_protocol_0_9 t1 then REQ_IGNORE_DATA_AFTER_HTTP_0_9 else REQ_IDLE |>).
  assert (L2 : live c2 i) by (unfold live, c2; change (tx_slot (c1 <| c_in_state := _ |>) i) with (tx_slot c1 i); congruence).
  assert (F2 : c_fault c2 = false) by exact F1.
  assert (To2 : TIout c2).
  { destruct To1 as [B1 B2 B3]. constructor; [exact B1|exact B2|exact B3]. }
  destruct (tx_finalize_safe i c2 F2 L2) as (F3 & R3 & _ & T3 & _ & P3 & S3).
  destruct (tx_finalize cb g i c2) as [rc3 c3]. cbn [fst snd] in *.
  split; [exact F3|]. split.
  { specialize (T3 To2). destruct T3 as [B1 B2 B3]. constructor; [exact B1|exact B2|exact B3]. }
  split.
  { eapply frx_trans; [eapply frR_frx; exact R1|]. eapply frx_trans; [apply (frx_set_state c1)|]. eapply frx_trans; [exact R3|].
    unfold frx, rc_le, hk_le. repeat split; left; reflexivity. }
  split.
  { unfold ptr_le in *. change (c_out_tx (c3 <| c_in_tx := None |>)) with (c_out_tx c3). change (c_out_tx c2) with (c_out_tx c1) in P3.
    destruct P3 as [P3|P3]; rewrite P3; [exact Po|right; reflexivity]. }
  intros _. split; [reflexivity|]. split.
  - destruct R3 as (_ & [Hh|Hh] & _); unfold hook_in in *; cbn; [|exact Hh]. rewrite Hh. exact H1.
  - change (c_in_state (c3 <| c_in_tx := None |>)) with (c_in_state c3). rewrite S3. unfold c2. cbn.
    destruct (t_is_protocol_0_9 t1); tauto.
Qed.

(* ---- htp_tx_state_request_start ---- *)
Lemma request_start_safe i c :
  c_fault c = false -> live c i -> c_in_tx c = Some i ->
  let r := tx_state_request_start cb i c in
  c_fault (snd r) = false /\
  (fst r = ST_OK -> fr (c <| c_in_state := REQ_LINE |>) (snd r)) /\ (fst r <> ST_OK -> fr c (snd r)).
Proof.
  intros F L Ei. cbv zeta. unfold tx_state_request_start.
  pose proof (run_hook_fr cb cb_nodestroy H_REQUEST_START i c L) as R. unfold run_hook in *.
  destruct (run_hook_ex cb H_REQUEST_START i None false None c) as [rc c1]. cbn [fst snd] in *.
  assert (F1 : c_fault c1 = false) by (rewrite (frR_fault _ _ _ R); exact F).
  destruct rc; cbn [fst snd]; try (split; [exact F1|split; [discriminate|intros _; exact R]]).
  change (c_in_tx (c1 <| c_in_state := REQ_LINE |>)) with (c_in_tx c1). rewrite (frR_in_tx _ _ _ R), Ei.
  assert (R1 : fr (c <| c_in_state := REQ_LINE |>) (c1 <| c_in_state := REQ_LINE |>)).
  { destruct R as (A1 & A2 & A3 & A4 & A5 & A6 & A7). unfold frR. repeat split; try assumption.
    unfold skel in *. cbn. congruence. }
  assert (L1 : live (c1 <| c_in_state := REQ_LINE |>) i) by (eapply frR_live; [exact R1|exact L]).
  assert (R2 : fr (c1 <| c_in_state := REQ_LINE |>) (tx_upd (c1 <| c_in_state := REQ_LINE |>) i (fun t => t <| t_request_progress := c_HTP_REQUEST_LINE |>))).
  { apply tx_upd_fr; [apply tx_le_pre|exact L1|tx_le_tac]. }
  split; [rewrite (frR_fault _ _ _ R2); exact F1|]. split; [intros _; eapply fr_trans; eassumption|intros Q; congruence].
Qed.

(* ---- htp_connp_tx_create ---- *)
Lemma tx_create_slot c id c' j :
  connp_tx_create g c = (Some id, c') ->
  id = (c_txs_shifted c + length (c_txs c))%nat /\
  tx_slot c' j = if (j =? id)%nat then Some (tx_new id (length (c_txs c))) else tx_slot c j.
Proof.
  unfold connp_tx_create.
  set (c0 := if (c_out_next_tx_index c <? length (c_txs c))%nat then _ else c).
  assert (E0 : c_txs c0 = c_txs c /\ c_txs_shifted c0 = c_txs_shifted c) by (subst c0; destruct (_ <? _)%nat; split; reflexivity).
  destruct E0 as [E1 E2].
  destruct ((0 <? g_max_tx g)%nat && (g_max_tx g <? length (c_txs c))%nat); [discriminate|].
  intros H. injection H as <- <-. rewrite E2. split; [reflexivity|].
  unfold tx_slot. cbn. rewrite E1, E2.
  destruct (j <? c_txs_shifted c)%nat eqn:Ej.
  - apply Nat.ltb_lt in Ej. replace (j =? c_txs_shifted c + length (c_txs c))%nat with false by (symmetry; apply Nat.eqb_neq; lia). reflexivity.
  - apply Nat.ltb_ge in Ej. destruct (j =? c_txs_shifted c + length (c_txs c))%nat eqn:E.
    + apply Nat.eqb_eq in E. rewrite nth_error_app2 by lia. replace (j - c_txs_shifted c - length (c_txs c))%nat with O by lia. reflexivity.
    + apply Nat.eqb_neq in E. destruct (Nat.lt_ge_cases (j - c_txs_shifted c) (length (c_txs c))) as [Q|Q].
      * rewrite nth_error_app1 by exact Q. reflexivity.
      * rewrite nth_error_app2 by exact Q. destruct (j - c_txs_shifted c - length (c_txs c))%nat as [|k] eqn:Ek; [lia|].
        cbn. destruct k; cbn; replace (nth_error (c_txs c) (j - c_txs_shifted c)) with (@None (option tx)) by (symmetry; apply nth_error_None; exact Q); reflexivity.
Qed.
End Layer2.
