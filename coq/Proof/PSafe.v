(* C01, model level: the connection parser never sets c_fault (request side; response side in PSafeRes.v,
   runs in PSafeRun.v). Structure:
     1. projections ("skeleton" = everything but the transaction contents / transaction pointers / receiver
        bookkeeping / hook counters / event log) and relations on transaction tables;
     2. the invariant: TIin / TIout (transaction-receiver coupling of the two directions), the frame relation frR;
     3. the callback / transaction layer keeps the frame and does not fault on a live transaction when no
        callback destroys a transaction;
     4. the byte-level request states, one lemma per state function;
     5. rq_iter / rq_loop / connp_req_data. *)
Require Import Htp.Model.MUri Htp.Model.MPath Htp.Model.MUrlenc.
Require Import Htp.Model.MConnTypes Htp.Model.MTxCommon Htp.Model.MBstr Htp.Model.MReqLine Htp.Model.MReqUri Htp.Model.MTxReq Htp.Model.MReq.
Require Import Htp.Proof.PReq.
Local Open Scope Z_scope.

Lemma upd_length {B} (l : list B) i x : length (upd l i x) = length l.
Proof. revert i. induction l as [|h t IH]; intros [|i]; cbn; congruence. Qed.
Lemma nth_error_upd {B} (l : list B) i x j :
  nth_error (upd l i x) j = if (j =? i)%nat then (if (i <? length l)%nat then Some x else None) else nth_error l j.
Proof.
  revert i j. induction l as [|h t IH]; intros i j.
  - cbn. destruct (j =? i)%nat; destruct j; reflexivity.
  - destruct i as [|i], j as [|j]; cbn; try reflexivity. rewrite IH. destruct (j =? i)%nat; [|reflexivity].
    change (S i <? S (length t))%nat with (i <? length t)%nat. reflexivity.
Qed.

Local Arguments Nat.ltb : simpl never.
Local Arguments Nat.leb : simpl never.
Local Arguments Nat.eqb : simpl never.
Local Arguments Nat.sub : simpl never.
Local Arguments Nat.add : simpl never.

(* ------------------------------------------------------------------------------------------------ *)
(* 1. projections *)

(* a cursor without the receiver bookkeeping *)
Definition cur_core (k : cursor) := (k_data k, k_len k, k_read k, k_consume k, k_next_byte k, k_buf k, k_header k).
(* everything except the transaction table (only its length), the two transaction pointers, the receiver bookkeeping,
   c_hook_calls and c_events *)
Definition skel (c : connp) :=
  (c_in_status c, c_out_status c, c_in_state c, c_in_state_previous c, c_out_state c, c_out_state_previous c,
   cur_core (c_in c), cur_core (c_out c), c_txs_shifted c, c_out_next_tx_index c, c_out_data_other_at_tx_end c,
   (c_in_content_length c, c_in_body_data_left c, c_in_chunked_length c, c_out_content_length c, c_out_body_data_left c,
    c_out_chunked_length c),
   (c_in_chunk_count c, c_in_chunk_request_index c, c_conn_flags c, c_in_data_counter c, c_out_data_counter c),
   c_fault c, length (c_txs c)).
Definition ptrs (c : connp) := (c_in_tx c, c_out_tx c).
Definition rcv (c : connp) := (k_receiver (c_in c), k_receiver_hook (c_in c), k_receiver (c_out c), k_receiver_hook (c_out c)).
Definition hook_in (c : connp) := k_receiver_hook (c_in c).
Definition hook_out (c : connp) := k_receiver_hook (c_out c).

Lemma skel_core a b : skel a = skel b -> rq_core_st a = rq_core_st b.
Proof. unfold skel, rq_core_st, rq_core, cur_core. intros H. congruence. Qed.
Lemma skel_fault a b : skel a = skel b -> c_fault a = c_fault b.
Proof. unfold skel. intros H. congruence. Qed.
Lemma skel_in_state a b : skel a = skel b -> c_in_state a = c_in_state b.
Proof. unfold skel. intros H. congruence. Qed.
Lemma skel_out_state a b : skel a = skel b -> c_out_state a = c_out_state b.
Proof. unfold skel. intros H. congruence. Qed.
Lemma skel_in_status a b : skel a = skel b -> c_in_status a = c_in_status b.
Proof. unfold skel. intros H. congruence. Qed.
Lemma skel_out_status a b : skel a = skel b -> c_out_status a = c_out_status b.
Proof. unfold skel. intros H. congruence. Qed.
Lemma skel_shifted a b : skel a = skel b -> c_txs_shifted a = c_txs_shifted b.
Proof. unfold skel. intros H. congruence. Qed.
Lemma skel_ntx a b : skel a = skel b -> length (c_txs a) = length (c_txs b).
Proof. unfold skel. intros H. congruence. Qed.
Lemma skel_cur_in a b : skel a = skel b -> cur_core (c_in a) = cur_core (c_in b).
Proof. unfold skel. intros H. congruence. Qed.
Lemma skel_cur_out a b : skel a = skel b -> cur_core (c_out a) = cur_core (c_out b).
Proof. unfold skel. intros H. congruence. Qed.
Lemma cur_core_read k k' : cur_core k' = cur_core k -> k_read k' = k_read k.
Proof. unfold cur_core. congruence. Qed.
Lemma hooks_of_rcv c c' : rcv c' = rcv c -> hook_in c' = hook_in c /\ hook_out c' = hook_out c.
Proof. unfold rcv, hook_in, hook_out. intros H. split; congruence. Qed.

(* what the safety argument needs to survive in a transaction record: the request direction looks at
   "request not complete" and "parsed_uri set", the response direction at "response not complete" *)
Definition tx_lein (t t' : tx) : Prop :=
  (t_request_progress t <> c_HTP_REQUEST_COMPLETE -> t_request_progress t' <> c_HTP_REQUEST_COMPLETE) /\
  (t_parsed_uri t <> None -> t_parsed_uri t' <> None).
Definition tx_leout (t t' : tx) : Prop :=
  t_response_progress t <> c_HTP_RESPONSE_COMPLETE -> t_response_progress t' <> c_HTP_RESPONSE_COMPLETE.
Definition tx_le (t t' : tx) : Prop := tx_lein t t' /\ tx_leout t t'.
Definition preorder (R : tx -> tx -> Prop) : Prop := (forall t, R t t) /\ (forall a b c, R a b -> R b c -> R a c).
Lemma tx_lein_pre : preorder tx_lein. Proof. unfold preorder, tx_lein. split; intros; tauto. Qed.
Lemma tx_leout_pre : preorder tx_leout. Proof. unfold preorder, tx_leout. split; intros; tauto. Qed.
Lemma tx_le_pre : preorder tx_le. Proof. unfold preorder, tx_le, tx_lein, tx_leout. split; intros; tauto. Qed.

(* same live slots, related contents *)
Definition txs_rel (R : tx -> tx -> Prop) (c c' : connp) : Prop :=
  forall i, match tx_slot c i, tx_slot c' i with
            | Some t, Some t' => R t t'
            | None, None => True
            | _, _ => False
            end.
Lemma txs_rel_refl R c : preorder R -> txs_rel R c c.
Proof. intros [P _] i. destruct (tx_slot c i); [apply P|exact I]. Qed.
Lemma txs_rel_trans R a b c : preorder R -> txs_rel R a b -> txs_rel R b c -> txs_rel R a c.
Proof.
  intros [_ P] H1 H2 i. specialize (H1 i). specialize (H2 i).
  destruct (tx_slot a i), (tx_slot b i), (tx_slot c i); try tauto. eapply P; eassumption.
Qed.
Lemma txs_rel_of_eq R c c' : preorder R -> c_txs c' = c_txs c -> c_txs_shifted c' = c_txs_shifted c -> txs_rel R c c'.
Proof.
  intros [P _] H1 H2 i. unfold tx_slot. rewrite H1, H2. destruct (_ <? _)%nat; [exact I|].
  destruct (nth_error _ _) as [[t|]|]; try exact I. apply P.
Qed.
Lemma txs_rel_weaken (R R' : tx -> tx -> Prop) c c' : (forall t t', R t t' -> R' t t') -> txs_rel R c c' -> txs_rel R' c c'.
Proof. intros W H i. specialize (H i). destruct (tx_slot c i), (tx_slot c' i); try tauto. apply W. exact H. Qed.

(* ------------------------------------------------------------------------------------------------ *)
(* 2. the invariant *)

Definition live (c : connp) (i : nat) : Prop := tx_slot c i <> None.
Definition olive (c : connp) (o : option nat) : Prop := match o with Some i => live c i | None => True end.
(* a property of the transaction a pointer names (vacuous for NULL / a dead slot) *)
Definition txp (c : connp) (o : option nat) (P : tx -> Prop) : Prop :=
  match o with Some i => match tx_slot c i with Some t => P t | None => True end | None => True end.
Definition armed (k : cursor) : Prop := k_receiver_hook k <> None.
(* the request states entered after the request line was processed (tx->parsed_uri is set) *)
Definition uri_state (s : req_state) : Prop :=
  match s with REQ_IDLE | REQ_LINE | REQ_FINALIZE | REQ_IGNORE_DATA_AFTER_HTTP_0_9 => False | _ => True end.

(* transaction / receiver coupling, request direction *)
Record TIin (c : connp) : Prop := mkTIin {
  ti_in_live : olive c (c_in_tx c);                       (* in_tx is NULL or names a live transaction *)
  ti_in_prog : txp c (c_in_tx c) (fun t => t_request_progress t <> c_HTP_REQUEST_COMPLETE);
  ti_in_armed : armed (c_in c) -> c_in_tx c <> None /\ (c_in_state c = REQ_HEADERS \/ c_in_state c = REQ_FINALIZE);
  ti_in_uri : uri_state (c_in_state c) -> txp c (c_in_tx c) (fun t => t_parsed_uri t <> None)
}.
(* response direction *)
Record TIout (c : connp) : Prop := mkTIout {
  ti_out_live : olive c (c_out_tx c);
  ti_out_armed : armed (c_out c) ->
                 c_out_tx c <> None /\ txp c (c_out_tx c) (fun t => t_response_progress t <> c_HTP_RESPONSE_COMPLETE);
  ti_out_idle : c_out_state c = RES_IDLE -> c_out_tx c = None
}.
Definition TI (c : connp) : Prop := TIin c /\ TIout c.

Lemma txs_rel_live R c c' i : txs_rel R c c' -> live c i -> live c' i.
Proof. intros H L. specialize (H i). unfold live in *. destruct (tx_slot c i); [|congruence]. destruct (tx_slot c' i); [discriminate|tauto]. Qed.
Lemma txs_rel_olive R c c' o : txs_rel R c c' -> olive c o -> olive c' o.
Proof. destruct o; [apply txs_rel_live|tauto]. Qed.
Lemma txs_rel_txp R c c' o (P : tx -> Prop) :
  txs_rel R c c' -> (forall t t', R t t' -> P t -> P t') -> txp c o P -> txp c' o P.
Proof.
  intros H M. unfold txp. destruct o as [i|]; [|tauto]. specialize (H i).
  destruct (tx_slot c i), (tx_slot c' i); try tauto. apply M. exact H.
Qed.

(* a receiver hook stays or is cleared *)
Definition hk_le (h h' : option nat) : Prop := h' = h \/ h' = None.
(* the receiver offset stays or catches up with the read offset *)
Definition rc_le (k k' : cursor) : Prop := k_receiver k' = k_receiver k \/ k_receiver k' = k_read k'.
Lemma hk_le_refl h : hk_le h h. Proof. left. reflexivity. Qed.
Lemma hk_le_trans a b c : hk_le a b -> hk_le b c -> hk_le a c.
Proof. unfold hk_le. intros [->| ->] [->| ->]; tauto. Qed.

Lemma TIin_frame c c' :
  TIin c -> c_in_state c' = c_in_state c -> c_in_tx c' = c_in_tx c -> hk_le (hook_in c) (hook_in c') -> txs_rel tx_lein c c' -> TIin c'.
Proof.
  intros [A1 A3 A4 A5] Hs P1 Hh Ht. unfold armed, hook_in in *. constructor; unfold armed; rewrite ?P1, ?Hs.
  - eapply txs_rel_olive; eassumption.
  - eapply txs_rel_txp; [eassumption| |eassumption]. intros t t' (E1 & E2). cbn. exact E1.
  - intros U. apply A4. destruct Hh as [Hh|Hh]; congruence.
  - intros U. eapply txs_rel_txp; [eassumption| |exact (A5 U)]. intros t t' (E1 & E2). cbn. exact E2.
Qed.
Lemma TIout_frame c c' :
  TIout c -> c_out_state c' = c_out_state c -> c_out_tx c' = c_out_tx c -> hk_le (hook_out c) (hook_out c') -> txs_rel tx_leout c c' -> TIout c'.
Proof.
  intros [A2 A6 A7] Ho P2 Hh Ht. unfold armed, hook_out in *. constructor; unfold armed; rewrite ?P2, ?Ho.
  - eapply txs_rel_olive; eassumption.
  - intros U. destruct (A6 ltac:(destruct Hh as [Hh|Hh]; congruence)) as [B1 B2]. split; [exact B1|].
    eapply txs_rel_txp; [eassumption| |eassumption]. intros t t' E. cbn. exact E.
  - exact A7.
Qed.

(* the general frame of the callback / transaction layer, relative to a relation on transaction records *)
Definition frR (R : tx -> tx -> Prop) (c c' : connp) : Prop :=
  skel c' = skel c /\ ptrs c' = ptrs c /\ txs_rel R c c' /\ hk_le (hook_in c) (hook_in c') /\ hk_le (hook_out c) (hook_out c') /\
  rc_le (c_in c) (c_in c') /\ rc_le (c_out c) (c_out c').
Notation fr := (frR tx_le).
Notation fro := (frR tx_leout).      (* the request direction of the records may change arbitrarily *)
Notation fri := (frR tx_lein).

Lemma frR_refl R c : preorder R -> frR R c c.
Proof. intros P. unfold frR, rc_le. repeat split; try apply hk_le_refl; try (apply txs_rel_refl; exact P); left; reflexivity. Qed.
Lemma frR_trans R a b c : preorder R -> frR R a b -> frR R b c -> frR R a c.
Proof.
  intros P (A1 & A2 & A3 & A4 & A5 & A6 & A7) (B1 & B2 & B3 & B4 & B5 & B6 & B7).
  pose proof (cur_core_read _ _ (skel_cur_in _ _ B1)) as Ri. pose proof (cur_core_read _ _ (skel_cur_out _ _ B1)) as Ro.
  unfold frR, rc_le in *. repeat split; try congruence.
  - eapply txs_rel_trans; eassumption.
  - eapply hk_le_trans; eassumption.
  - eapply hk_le_trans; eassumption.
  - destruct B6 as [B6|B6]; [|right; exact B6]. destruct A6 as [A6|A6]; [left; congruence|right; congruence].
  - destruct B7 as [B7|B7]; [|right; exact B7]. destruct A7 as [A7|A7]; [left; congruence|right; congruence].
Qed.
Lemma frR_weaken (R R' : tx -> tx -> Prop) c c' : (forall t t', R t t' -> R' t t') -> frR R c c' -> frR R' c c'.
Proof. intros W (A1 & A2 & A3 & A4). repeat split; try tauto. eapply txs_rel_weaken; eassumption. Qed.
Lemma fr_fro c c' : fr c c' -> fro c c'.
Proof. apply frR_weaken. intros t t' [_ H]. exact H. Qed.
Lemma fr_fri c c' : fr c c' -> fri c c'.
Proof. apply frR_weaken. intros t t' [H _]. exact H. Qed.
Definition fr_refl c := frR_refl tx_le c tx_le_pre.
Definition fr_trans a b c := frR_trans tx_le a b c tx_le_pre.
Definition fro_refl c := frR_refl tx_leout c tx_leout_pre.
Definition fro_trans a b c := frR_trans tx_leout a b c tx_leout_pre.
Definition fri_refl c := frR_refl tx_lein c tx_lein_pre.
Definition fri_trans a b c := frR_trans tx_lein a b c tx_lein_pre.

Lemma TIin_fri c c' : TIin c -> fri c c' -> TIin c'.
Proof.
  intros Ti (S & P & X & H1 & H2 & _). unfold ptrs in P. injection P as P1 P2.
  eapply TIin_frame; try eassumption. apply skel_in_state. exact S.
Qed.
Lemma TIout_fro c c' : TIout c -> fro c c' -> TIout c'.
Proof.
  intros To (S & P & X & H1 & H2 & _). unfold ptrs in P. injection P as P1 P2.
  eapply TIout_frame; try eassumption. apply skel_out_state. exact S.
Qed.
Lemma TI_fr c c' : TI c -> fr c c' -> TI c'.
Proof. intros [Ti To] F. split; [eapply TIin_fri; [exact Ti|apply fr_fri; exact F]|eapply TIout_fro; [exact To|apply fr_fro; exact F]]. Qed.
Lemma frR_fault R c c' : frR R c c' -> c_fault c' = c_fault c.
Proof. intros (S & _). apply skel_fault. exact S. Qed.
Lemma frR_core R c c' : frR R c c' -> rq_core_st c' = rq_core_st c.
Proof. intros (S & _). apply skel_core. exact S. Qed.
Lemma frR_live R c c' i : frR R c c' -> live c i -> live c' i.
Proof. intros (_ & _ & X & _). eapply txs_rel_live. exact X. Qed.
Lemma frR_in_tx R c c' : frR R c c' -> c_in_tx c' = c_in_tx c.
Proof. intros (_ & P & _). unfold ptrs in P. congruence. Qed.
Lemma frR_out_tx R c c' : frR R c c' -> c_out_tx c' = c_out_tx c.
Proof. intros (_ & P & _). unfold ptrs in P. congruence. Qed.
Lemma frR_in_state R c c' : frR R c c' -> c_in_state c' = c_in_state c.
Proof. intros (S & _). apply skel_in_state. exact S. Qed.
Lemma frR_hook_in_none R c c' : frR R c c' -> hook_in c = None -> hook_in c' = None.
Proof. intros (_ & _ & _ & [H|H] & _) E; congruence. Qed.

(* the request receiver can be flushed: when it is armed, in_tx is a live transaction and the bytes [receiver, read)
   are readable through in_current_data *)
Definition bytes_ok (k : cursor) : Prop :=
  (k_read k <= k_receiver k)%nat \/ match k_data k with Some d => (k_read k <= length d)%nat | None => False end.
Definition sendok_in (c : connp) : Prop :=
  armed (c_in c) -> (c_in_tx c <> None /\ olive c (c_in_tx c)) /\ bytes_ok (c_in c).
Lemma bytes_ok_le k k' : cur_core k' = cur_core k -> rc_le k k' -> bytes_ok k -> bytes_ok k'.
Proof.
  unfold cur_core, rc_le, bytes_ok. intros E R B. injection E as E1 E2 E3 E4 E5 E6 E7. rewrite E1, E3.
  destruct R as [R|R]; rewrite R; [exact B|left; rewrite E3; apply Nat.le_refl].
Qed.
Lemma sendok_in_frR R c c' : frR R c c' -> sendok_in c -> sendok_in c'.
Proof.
  intros (S & P & X & H1 & _ & R1 & _) K. unfold sendok_in, armed, hook_in, hk_le, ptrs in *. intros A.
  injection P as P1 P2. rewrite P1. specialize (K ltac:(destruct H1 as [H1|H1]; congruence)). destruct K as [[K1 K2] K3].
  split; [split; [exact K1|eapply txs_rel_olive; eassumption]|].
  eapply bytes_ok_le; [apply skel_cur_in; exact S|exact R1|exact K3].
Qed.

(* ------------------------------------------------------------------------------------------------ *)
(* 3. the callback / transaction layer *)

Lemma live_range c i : live c i -> (c_txs_shifted c <= i)%nat /\ (i - c_txs_shifted c < length (c_txs c))%nat.
Proof.
  unfold live, tx_slot. destruct (i <? c_txs_shifted c)%nat eqn:E; [congruence|]. apply Nat.ltb_ge in E.
  destruct (nth_error (c_txs c) (i - c_txs_shifted c)) eqn:N; [|congruence]. intros _. split; [exact E|].
  apply nth_error_Some. congruence.
Qed.

Lemma tx_put_slot c i t j : live c i -> tx_slot (tx_put c i t) j = if (j =? i)%nat then Some t else tx_slot c j.
Proof.
  intros L. destruct (live_range c i L) as [L1 L2]. unfold tx_put.
  replace (i <? c_txs_shifted c)%nat with false by (symmetry; apply Nat.ltb_ge; exact L1).
  replace (i - c_txs_shifted c <? length (c_txs c))%nat with true by (symmetry; apply Nat.ltb_lt; exact L2).
  unfold tx_slot. cbn. destruct (j <? c_txs_shifted c)%nat eqn:E.
  - apply Nat.ltb_lt in E. replace (j =? i)%nat with false by (symmetry; apply Nat.eqb_neq; lia). reflexivity.
  - apply Nat.ltb_ge in E. rewrite nth_error_upd.
    destruct (j =? i)%nat eqn:E2.
    + apply Nat.eqb_eq in E2. subst j. rewrite Nat.eqb_refl. replace (i - c_txs_shifted c <? length (c_txs c))%nat with true by (symmetry; apply Nat.ltb_lt; exact L2). reflexivity.
    + apply Nat.eqb_neq in E2. replace (j - c_txs_shifted c =? i - c_txs_shifted c)%nat with false by (symmetry; apply Nat.eqb_neq; lia). reflexivity.
Qed.
Lemma tx_put_skel c i t : live c i -> skel (tx_put c i t) = skel c /\ ptrs (tx_put c i t) = ptrs c /\ rcv (tx_put c i t) = rcv c.
Proof.
  intros L. destruct (live_range c i L) as [L1 L2]. unfold tx_put.
  replace (i <? c_txs_shifted c)%nat with false by (symmetry; apply Nat.ltb_ge; exact L1).
  replace (i - c_txs_shifted c <? length (c_txs c))%nat with true by (symmetry; apply Nat.ltb_lt; exact L2).
  unfold skel, ptrs, rcv. cbn. rewrite upd_length. repeat split.
Qed.
Lemma frR_of_rcv R c c' : skel c' = skel c -> ptrs c' = ptrs c -> rcv c' = rcv c -> txs_rel R c c' -> frR R c c'.
Proof.
  intros S P Rc X. unfold rcv in Rc. injection Rc as R1 R2 R3 R4. unfold frR, rc_le, hk_le, hook_in, hook_out.
  repeat split; try assumption; left; assumption.
Qed.
Lemma tx_put_fr R c i t t0 : preorder R -> tx_slot c i = Some t0 -> R t0 t -> frR R c (tx_put c i t).
Proof.
  intros PR E Hle. assert (L : live c i) by (unfold live; congruence). destruct (tx_put_skel c i t L) as (S & P & Rc).
  apply frR_of_rcv; try assumption. intros j. rewrite (tx_put_slot c i t j L). destruct (j =? i)%nat eqn:E2.
  - apply Nat.eqb_eq in E2. subst j. rewrite E. exact Hle.
  - destruct (tx_slot c j); [apply PR|exact I].
Qed.
Lemma tx_upd_fr R c i f : preorder R -> live c i -> (forall t, R t (f t)) -> frR R c (tx_upd c i f).
Proof. unfold live, tx_upd. intros PR L Hf. destruct (tx_slot c i) as [t0|] eqn:E; [|congruence]. eapply tx_put_fr; [exact PR|exact E|apply Hf]. Qed.

(* a transaction-content update that keeps "not complete" and parsed_uri: solved by computation *)
Ltac tx_le_tac :=
  intros; unfold tx_le, tx_lein, tx_leout; cbn; repeat split; intros; try assumption; try tauto;
  try (let Q := fresh in intro Q; vm_compute in Q; discriminate).

Lemma bump_emit_fr c h e : fr c (emit (bump_hook c h) e).
Proof. apply frR_of_rcv; try reflexivity. apply txs_rel_of_eq; [apply tx_le_pre|reflexivity|reflexivity]. Qed.

(* ---- htp_tx_destroy on a complete transaction ---- *)
Definition clr (o : option nat) (i : nat) : option nat :=
  match o with Some j => if (j =? i)%nat then None else Some j | None => None end.
Lemma tx_destroy_incomplete_ptrs c i :
  c_in_tx (tx_destroy_incomplete c i) = clr (c_in_tx c) i /\ c_out_tx (tx_destroy_incomplete c i) = clr (c_out_tx c) i.
Proof.
  unfold tx_destroy_incomplete, clr.
  destruct (i <? c_txs_shifted c)%nat; cbn; destruct (c_in_tx c) as [a|] eqn:Ea; try destruct (a =? i)%nat; cbn;
    destruct (c_out_tx c) as [b|] eqn:Eb; try destruct (b =? i)%nat; cbn; rewrite ?Ea, ?Eb; split; reflexivity.
Qed.
Lemma tx_destroy_incomplete_skel c i :
  skel (tx_destroy_incomplete c i) = skel c /\ rcv (tx_destroy_incomplete c i) = rcv c.
Proof.
  unfold tx_destroy_incomplete.
  destruct (i <? c_txs_shifted c)%nat; cbn; destruct (c_in_tx c) as [a|]; try destruct (a =? i)%nat; cbn;
    destruct (c_out_tx c) as [b|]; try destruct (b =? i)%nat; cbn; unfold skel, rcv; cbn; rewrite ?upd_length; split; reflexivity.
Qed.
Lemma tx_destroy_incomplete_slot c i j :
  tx_slot (tx_destroy_incomplete c i) j = if (j =? i)%nat then None else tx_slot c j.
Proof.
  assert (G : forall c0, c_txs c0 = (if (i <? c_txs_shifted c)%nat then c_txs c else upd (c_txs c) (i - c_txs_shifted c) None) ->
                         c_txs_shifted c0 = c_txs_shifted c ->
                         tx_slot c0 j = if (j =? i)%nat then None else tx_slot c j).
  { intros c0 E1 E2. unfold tx_slot. rewrite E1, E2. destruct (j <? c_txs_shifted c)%nat eqn:Ej.
    - destruct (j =? i)%nat; reflexivity.
    - apply Nat.ltb_ge in Ej. destruct (i <? c_txs_shifted c)%nat eqn:Ei.
      + apply Nat.ltb_lt in Ei. replace (j =? i)%nat with false by (symmetry; apply Nat.eqb_neq; lia). reflexivity.
      + apply Nat.ltb_ge in Ei. rewrite nth_error_upd. destruct (j =? i)%nat eqn:Eji.
        * apply Nat.eqb_eq in Eji. subst j. rewrite Nat.eqb_refl. destruct (_ <? _)%nat; reflexivity.
        * apply Nat.eqb_neq in Eji. replace (j - c_txs_shifted c =? i - c_txs_shifted c)%nat with false by (symmetry; apply Nat.eqb_neq; lia). reflexivity. }
  apply G; unfold tx_destroy_incomplete;
  destruct (i <? c_txs_shifted c)%nat; cbn; destruct (c_in_tx c) as [a|]; try destruct (a =? i)%nat; cbn;
    destruct (c_out_tx c) as [b|]; try destruct (b =? i)%nat; cbn; reflexivity.
Qed.
Lemma tx_is_complete_true t : tx_is_complete t = true ->
  t_request_progress t = c_HTP_REQUEST_COMPLETE /\ t_response_progress t = c_HTP_RESPONSE_COMPLETE.
Proof. unfold tx_is_complete. intros H. apply andb_true_iff in H. destruct H as [H1 H2]. apply Z.eqb_eq in H1, H2. tauto. Qed.

Lemma tx_destroy_incomplete_TIin c i t :
  tx_slot c i = Some t -> tx_is_complete t = true -> TIin c -> TIin (tx_destroy_incomplete c i).
Proof.
  intros Es Hc [A1 A2 A3 A4]. destruct (tx_is_complete_true t Hc) as [Hq _].
  destruct (tx_destroy_incomplete_ptrs c i) as [P1 _]. destruct (tx_destroy_incomplete_skel c i) as [S R].
  destruct (hooks_of_rcv _ _ R) as [H1 _]. pose proof (skel_in_state _ _ S) as Hs. unfold hook_in in H1.
  assert (Hne : forall j, c_in_tx c = Some j -> (j =? i)%nat = false).
  { intros j Ej. apply Nat.eqb_neq. intros ->. unfold txp in A2. rewrite Ej, Es in A2. congruence. }
  assert (P1' : c_in_tx (tx_destroy_incomplete c i) = c_in_tx c).
  { rewrite P1. unfold clr. destruct (c_in_tx c) as [j|] eqn:Ej; [|reflexivity]. rewrite (Hne j eq_refl). reflexivity. }
  constructor; unfold armed, txp, olive, live; rewrite ?P1', ?Hs, ?H1.
  - destruct (c_in_tx c) as [j|] eqn:Ej; [|exact I]. rewrite tx_destroy_incomplete_slot, (Hne j eq_refl). exact A1.
  - destruct (c_in_tx c) as [j|] eqn:Ej; [|exact I]. rewrite tx_destroy_incomplete_slot, (Hne j eq_refl). unfold txp in A2. exact A2.
  - exact A3.
  - intros U. specialize (A4 U). destruct (c_in_tx c) as [j|] eqn:Ej; [|exact I]. rewrite tx_destroy_incomplete_slot, (Hne j eq_refl). unfold txp in A4. exact A4.
Qed.
Lemma tx_destroy_incomplete_TIout c i t :
  tx_slot c i = Some t -> tx_is_complete t = true -> TIout c -> TIout (tx_destroy_incomplete c i).
Proof.
  intros Es Hc [A1 A2 A3]. destruct (tx_is_complete_true t Hc) as [_ Hq].
  destruct (tx_destroy_incomplete_ptrs c i) as [_ P2]. destruct (tx_destroy_incomplete_skel c i) as [S R].
  destruct (hooks_of_rcv _ _ R) as [_ H2]. pose proof (skel_out_state _ _ S) as Hs. unfold hook_out in H2.
  constructor; unfold armed, txp, olive, live; rewrite ?P2, ?Hs, ?H2.
  - unfold clr. destruct (c_out_tx c) as [j|] eqn:Ej; [|exact I]. destruct (j =? i)%nat eqn:E; [exact I|].
    rewrite tx_destroy_incomplete_slot, E. exact A1.
  - intros U. destruct (A2 U) as [B1 B2]. unfold clr. destruct (c_out_tx c) as [j|] eqn:Ej; [|congruence].
    assert (E : (j =? i)%nat = false). { apply Nat.eqb_neq. intros ->. unfold txp in B2. rewrite Es in B2. congruence. }
    rewrite E. split; [discriminate|]. rewrite tx_destroy_incomplete_slot, E. exact B2.
  - intros U. rewrite (A3 U). reflexivity.
Qed.

Section Layer.
Variable cb : cb_oracle.
Variable g : cfg.
(* premise (a): no callback destroys a transaction *)
Hypothesis cb_nodestroy : forall h n, cb h n <> CB_DESTROY_TX.

Lemma run_hook_ex_fr h i d l s c : live c i -> fr c (snd (run_hook_ex cb h i d l s c)).
Proof.
  intros L. unfold run_hook_ex. pose proof (bump_emit_fr c h (mkev h i d l s)) as F.
  assert (L1 : live (emit (bump_hook c h) (mkev h i d l s)) i) by (eapply frR_live; eassumption).
  destruct (cb h (hook_count c h)) eqn:E; cbn [snd]; try exact F.
  - eapply fr_trans; [exact F|]. apply tx_upd_fr; [apply tx_le_pre|exact L1|tx_le_tac].
  - eapply fr_trans; [exact F|]. apply tx_upd_fr; [apply tx_le_pre|exact L1|tx_le_tac].
  - exfalso. exact (cb_nodestroy _ _ E).
Qed.
Lemma run_hook_fr h i c : live c i -> fr c (snd (run_hook cb h i c)).
Proof. apply run_hook_ex_fr. Qed.
Lemma run_data_hook_fr h i d l c : live c i -> fr c (snd (run_data_hook cb h i d l c)).
Proof. apply run_hook_ex_fr. Qed.
Lemma run_tx_hooks_fr k h i d l c : fr c (run_tx_hooks k h i d l c).
Proof.
  revert c. induction k as [|k IH]; intros c; cbn [run_tx_hooks]; [apply fr_refl|].
  eapply fr_trans; [apply bump_emit_fr|apply IH].
Qed.

Lemma frR_olive_in R c c' : frR R c c' -> olive c (c_in_tx c) -> olive c' (c_in_tx c').
Proof. intros F L. rewrite (frR_in_tx _ _ _ F). destruct F as (_ & _ & X & _). eapply txs_rel_olive; eassumption. Qed.

Lemma req_run_hook_body_data_fr d l c : olive c (c_in_tx c) -> fr c (snd (req_run_hook_body_data cb d l c)).
Proof.
  intros L. unfold req_run_hook_body_data.
  assert (G : fr c (snd match c_in_tx c with
                        | None => (ST_OK, c)
                        | Some i => run_data_hook cb H_REQUEST_BODY_DATA i d l
                                      (run_tx_hooks (t_hook_request_body (tx_get c i)) H_TX_REQUEST_BODY_DATA i d l c)
                        end)).
  { destruct (c_in_tx c) as [i|]; [|apply fr_refl]. cbn in L.
    eapply fr_trans; [apply run_tx_hooks_fr|]. apply run_data_hook_fr. eapply frR_live; [apply run_tx_hooks_fr|exact L]. }
  destruct d as [[|x d]|]; [apply fr_refl|exact G|exact G].
Qed.
Lemma tx_req_process_body_data_ex_fr i d n c :
  live c i -> olive c (c_in_tx c) -> fr c (snd (tx_req_process_body_data_ex cb i d n c)).
Proof.
  intros L Li. unfold tx_req_process_body_data_ex.
  set (c1 := tx_upd c i _).
  assert (F1 : fr c c1) by (apply tx_upd_fr; [apply tx_le_pre|exact L|tx_le_tac]).
  match goal with |- context [req_run_hook_body_data cb ?a ?b c1] =>
    pose proof (req_run_hook_body_data_fr a b c1 (frR_olive_in _ _ _ F1 Li)) as F2; destruct (req_run_hook_body_data cb a b c1) as [rc c2] end.
  cbn [snd] in F2. destruct rc; cbn [snd]; eapply fr_trans; eassumption.
Qed.

(* ---- the request receiver ---- *)
Lemma have_enough (k : cursor) :
  bytes_ok k ->
  (match cur_slice k (k_receiver k) (k_read k) with Some d => length d | None => O end <? k_read k - k_receiver k)%nat = false.
Proof.
  unfold bytes_ok, cur_slice. intros [H|H]; apply Nat.ltb_ge; [lia|]. destruct (k_data k) as [d|]; [|tauto].
  rewrite firstn_length, skipn_length. lia.
Qed.

Lemma req_receiver_send_data_safe l c :
  c_fault c = false -> sendok_in c ->
  c_fault (snd (req_receiver_send_data cb l c)) = false /\ fr c (snd (req_receiver_send_data cb l c)).
Proof.
  intros F K. unfold req_receiver_send_data.
  destruct (k_receiver_hook (c_in c)) as [h|] eqn:Eh; [|split; [exact F|apply fr_refl]].
  assert (A : armed (c_in c)) by (unfold armed; congruence).
  destruct (K A) as [[Hn L] K3].
  rewrite (have_enough (c_in c) K3). cbv beta iota zeta.
  unfold in_txi. destruct (c_in_tx c) as [i|] eqn:Ei; [|congruence]. cbn in L.
  pose proof (run_data_hook_fr h i (cur_slice (c_in c) (k_receiver (c_in c)) (k_read (c_in c))) l c L) as R'.
  destruct (run_data_hook cb h i (cur_slice (c_in c) (k_receiver (c_in c)) (k_read (c_in c))) l c) as [rc c1]. cbn [snd] in R'.
  pose proof (frR_fault _ _ _ R') as Ff.
  destruct rc; cbn [snd]; try (split; [congruence|exact R']).
  split; [cbn; congruence|]. eapply fr_trans; [exact R'|].
  unfold frR, skel, ptrs, hook_in, hook_out, rc_le, cur_core. cbn. repeat split; try apply hk_le_refl; try (left; reflexivity).
  - apply txs_rel_of_eq; [apply tx_le_pre|reflexivity|reflexivity].
  - right. reflexivity.
Qed.

Lemma req_receiver_finalize_clear_safe c :
  c_fault c = false -> sendok_in c ->
  let r := req_receiver_finalize_clear cb c in
  c_fault (snd r) = false /\ fr c (snd r) /\ hook_in (snd r) = None.
Proof.
  intros F K. cbv zeta. unfold req_receiver_finalize_clear.
  destruct (k_receiver_hook (c_in c)) eqn:Eh; [|split; [exact F|split; [apply fr_refl|exact Eh]]].
  destruct (req_receiver_send_data_safe true c F K) as [F1 R1].
  destruct (req_receiver_send_data cb true c) as [rc c1]. cbn [snd] in *.
  split; [exact F1|split; [|reflexivity]]. eapply fr_trans; [exact R1|].
  unfold frR, skel, ptrs, hook_in, hook_out, rc_le, cur_core, hk_le. cbn. repeat split; try tauto.
  apply txs_rel_of_eq; [apply tx_le_pre|reflexivity|reflexivity].
Qed.
End Layer.

(* ---- the pure transaction-record updates keep progress and parsed_uri ---- *)
Definition prog3 (t : tx) := (t_request_progress t, t_response_progress t, t_parsed_uri t).
Definition prog2 (t : tx) := (t_request_progress t, t_response_progress t).
Lemma tx_le_of_prog3 t t' : prog3 t' = prog3 t -> tx_le t t'.
Proof. unfold prog3, tx_le, tx_lein, tx_leout. intros H. injection H as -> -> ->. tauto. Qed.

Ltac brk := repeat match goal with
  | |- context [match ?x with _ => _ end] => destruct x
  | |- context [if ?b then _ else _] => destruct b
  end.

Lemma prog3_set_flag b t : prog3 (tx_set_flag b t) = prog3 t. Proof. reflexivity. Qed.
Lemma prog3_parse_request_line g t : prog3 (htp_parse_request_line g t) = prog3 t.
Proof. unfold htp_parse_request_line. brk; reflexivity. Qed.
Lemma prog3_process_request_header l t : prog3 (htp_process_request_header_generic l t) = prog3 t.
Proof. unfold htp_process_request_header_generic. brk; reflexivity. Qed.
Lemma prog3_te_cl t : prog3 (rq_te_cl t) = prog3 t.
Proof. unfold rq_te_cl. brk; reflexivity. Qed.
Lemma prog3_host nu t : prog3 (rq_host nu t) = prog3 t.
Proof. unfold rq_host. brk; reflexivity. Qed.
Lemma prog3_content_type t : prog3 (rq_content_type t) = prog3 t.
Proof. unfold rq_content_type. brk; reflexivity. Qed.

Lemma prog2_urldecode_uri g s t : prog2 (snd (rq_urldecode_uri g s t)) = prog2 t.
Proof. unfold rq_urldecode_uri. brk; reflexivity. Qed.
Lemma prog2_urldecode_uri_opt g s t : prog2 (snd (rq_urldecode_uri_opt g s t)) = prog2 t.
Proof.
  unfold rq_urldecode_uri_opt. destruct s as [s|]; [|reflexivity].
  pose proof (prog2_urldecode_uri g s t) as H. destruct (rq_urldecode_uri g s t). exact H.
Qed.
Lemma prog2_normalize_path g p t : prog2 (snd (rq_normalize_path g p t)) = prog2 t.
Proof. unfold rq_normalize_path. brk; reflexivity. Qed.
Lemma prog2_normalize_parsed_uri g raw t : prog2 (snd (htp_normalize_parsed_uri g raw t)) = prog2 t.
Proof.
  unfold htp_normalize_parsed_uri.
  pose proof (prog2_urldecode_uri_opt g (u_user raw) t) as H1. destruct (rq_urldecode_uri_opt g (u_user raw) t) as [user t1]. cbn [snd] in H1.
  pose proof (prog2_urldecode_uri_opt g (u_pass raw) t1) as H2. destruct (rq_urldecode_uri_opt g (u_pass raw) t1) as [pass t2]. cbn [snd] in H2.
  pose proof (prog2_urldecode_uri_opt g (u_host raw) t2) as H3. destruct (rq_urldecode_uri_opt g (u_host raw) t2) as [host t3]. cbn [snd] in H3.
  destruct (uri_norm_port_opt (u_port raw)) as [pn inv].
  set (t4 := if inv then _ else t3). assert (H4 : prog2 t4 = prog2 t3) by (subst t4; destruct inv; reflexivity).
  destruct (u_path raw) as [p|].
  - pose proof (prog2_normalize_path g p t4) as H5. destruct (rq_normalize_path g p t4) as [o t5]. cbn [snd] in H5.
    pose proof (prog2_urldecode_uri_opt g (u_frag raw) t5) as H6. destruct (rq_urldecode_uri_opt g (u_frag raw) t5) as [frag t6]. cbn [snd] in *.
    congruence.
  - pose proof (prog2_urldecode_uri_opt g (u_frag raw) t4) as H6. destruct (rq_urldecode_uri_opt g (u_frag raw) t4) as [frag t6]. cbn [snd] in *.
    congruence.
Qed.
Lemma pipeline_spec g b u t t' : rq_uri_pipeline_opt g b u t = Some t' -> prog2 t' = prog2 t /\ t_parsed_uri t' <> None.
Proof.
  unfold rq_uri_pipeline_opt.
  set (r := if b then _ else _).
  assert (Hr : match r with Some (raw, t0) => prog2 t0 = prog2 t /\ t_parsed_uri t0 = t_parsed_uri t | None => True end).
  { subst r. destruct b; [|split; reflexivity]. unfold rq_parse_uri_hostport. destruct u as [s|]; [|exact I].
    destruct (parse_hostport s) as [[[hn port] pn] invalid]. brk; split; reflexivity. }
  destruct r as [[raw t0]|]; [|discriminate]. destruct Hr as [Hr1 Hr2].
  set (t1 := t0 <| t_parsed_uri_raw := raw |>).
  destruct (t_parsed_uri t1) as [nu|] eqn:Eu.
  - intros H. injection H as <-. brk; (split; [|cbn; discriminate]); unfold prog2 in *; cbn in *; congruence.
  - pose proof (prog2_normalize_parsed_uri g raw t1) as H1. destruct (htp_normalize_parsed_uri g raw t1) as [nu t2]. cbn [snd] in H1.
    intros H. injection H as <-. brk; (split; [|cbn; discriminate]); unfold prog2 in *; cbn in *; congruence.
Qed.

(* frame modulo in_state, without any statement about the transaction table or the transaction pointers *)
Definition nost (c : connp) : connp := c <| c_in_state := REQ_IDLE |>.
Definition frx (c c' : connp) : Prop :=
  skel (nost c') = skel (nost c) /\ hk_le (hook_in c) (hook_in c') /\ hk_le (hook_out c) (hook_out c') /\
  rc_le (c_in c) (c_in c') /\ rc_le (c_out c) (c_out c').
Lemma skel_nost c c' : skel c' = skel c -> skel (nost c') = skel (nost c).
Proof. unfold skel, nost. cbn. intros H. congruence. Qed.
Lemma nost_cur_in c c' : skel (nost c') = skel (nost c) -> cur_core (c_in c') = cur_core (c_in c).
Proof. intros H. apply skel_cur_in in H. exact H. Qed.
Lemma nost_cur_out c c' : skel (nost c') = skel (nost c) -> cur_core (c_out c') = cur_core (c_out c).
Proof. intros H. apply skel_cur_out in H. exact H. Qed.
Lemma nost_fault c c' : skel (nost c') = skel (nost c) -> c_fault c' = c_fault c.
Proof. intros H. apply skel_fault in H. exact H. Qed.
Lemma nost_out_state c c' : skel (nost c') = skel (nost c) -> c_out_state c' = c_out_state c.
Proof. intros H. apply skel_out_state in H. exact H. Qed.
Lemma nost_core c c' : skel (nost c') = skel (nost c) -> rq_core c' = rq_core c.
Proof. intros H. apply skel_core in H. apply rq_core_of_st in H. destruct H as [H _]. exact H. Qed.
Lemma frR_frx R c c' : frR R c c' -> frx c c'.
Proof. intros (A1 & A2 & A3 & A4 & A5 & A6 & A7). repeat split; try assumption. apply skel_nost. exact A1. Qed.
Lemma frx_refl c : frx c c.
Proof. apply (frR_frx tx_le). apply fr_refl. Qed.
Lemma frx_trans a b c : frx a b -> frx b c -> frx a c.
Proof.
  intros (A1 & A4 & A5 & A6 & A7) (B1 & B4 & B5 & B6 & B7).
  pose proof (cur_core_read _ _ (nost_cur_in _ _ B1)) as Ri. pose proof (cur_core_read _ _ (nost_cur_out _ _ B1)) as Ro.
  unfold frx, rc_le in *. repeat split; try congruence.
  - eapply hk_le_trans; eassumption.
  - eapply hk_le_trans; eassumption.
  - destruct B6 as [B6|B6]; [|right; exact B6]. destruct A6 as [A6|A6]; [left; congruence|right; congruence].
  - destruct B7 as [B7|B7]; [|right; exact B7]. destruct A7 as [A7|A7]; [left; congruence|right; congruence].
Qed.
Lemma frx_of_rcv c c' : skel c' = skel c -> rcv c' = rcv c -> frx c c'.
Proof.
  intros S Rc. unfold rcv in Rc. injection Rc as R1 R2 R3 R4. unfold frx, rc_le, hk_le, hook_in, hook_out.
  repeat split; try assumption; try (left; assumption). apply skel_nost. exact S.
Qed.
Lemma frx_set_state c s : frx c (c <| c_in_state := s |>).
Proof. unfold frx, rc_le, hk_le. repeat split; left; reflexivity. Qed.

Section Layer2.
Variable cb : cb_oracle.
Variable g : cfg.
Hypothesis cb_nodestroy : forall h n, cb h n <> CB_DESTROY_TX.

(* ---- htp_tx_finalize ---- *)
Definition ptr_le (o o' : option nat) : Prop := o' = o \/ o' = None.
Lemma clr_le o i : ptr_le o (clr o i).
Proof. unfold ptr_le, clr. destruct o as [j|]; [destruct (j =? i)%nat|]; tauto. Qed.

Lemma tx_finalize_safe i c :
  c_fault c = false -> live c i ->
  let c' := snd (tx_finalize cb g i c) in
  c_fault c' = false /\ frx c c' /\ (TIin c -> TIin c') /\ (TIout c -> TIout c') /\
  ptr_le (c_in_tx c) (c_in_tx c') /\ ptr_le (c_out_tx c) (c_out_tx c') /\ c_in_state c' = c_in_state c.
Proof.
  intros F L. cbv zeta. unfold tx_finalize. unfold live in L. destruct (tx_slot c i) as [t|] eqn:Es; [|congruence].
  assert (Id : c_fault c = false /\ frx c c /\ (TIin c -> TIin c) /\ (TIout c -> TIout c) /\
               ptr_le (c_in_tx c) (c_in_tx c) /\ ptr_le (c_out_tx c) (c_out_tx c) /\ c_in_state c = c_in_state c).
  { split; [exact F|split; [apply frx_refl|split; [tauto|split; [tauto|split; [left; reflexivity|split; [left; reflexivity|reflexivity]]]]]]. }
  destruct (negb (tx_is_complete t)); [exact Id|].
  assert (L' : live c i) by (unfold live; congruence).
  pose proof (run_hook_ex_fr cb cb_nodestroy H_TRANSACTION_COMPLETE i None false (Some t) c L') as R.
  destruct (run_hook_ex cb H_TRANSACTION_COMPLETE i None false (Some t) c) as [rc c1]. cbn [snd] in R.
  assert (G : c_fault c1 = false /\ frx c c1 /\ (TIin c -> TIin c1) /\ (TIout c -> TIout c1) /\
              ptr_le (c_in_tx c) (c_in_tx c1) /\ ptr_le (c_out_tx c) (c_out_tx c1) /\ c_in_state c1 = c_in_state c).
  { split; [rewrite (frR_fault _ _ _ R); exact F|]. split; [eapply frR_frx; exact R|].
    split; [intros T; eapply TIin_fri; [exact T|apply fr_fri; exact R]|].
    split; [intros T; eapply TIout_fro; [exact T|apply fr_fro; exact R]|].
    unfold ptr_le. rewrite (frR_in_tx _ _ _ R), (frR_out_tx _ _ _ R), (frR_in_state _ _ _ R). tauto. }
  destruct rc; cbn [snd]; try exact G.
  pose proof (frR_live _ _ _ i R L') as L1. unfold live in L1. destruct (tx_slot c1 i) as [t1|] eqn:Es1; [|congruence]. cbn [snd].
  destruct (g_tx_auto_destroy g); [|exact G].
  unfold tx_destroy. rewrite Es1. destruct (tx_is_complete t1) eqn:Ec; [|exact G].
  destruct G as (G1 & G2 & G3 & G4 & G5 & G6 & G7).
  destruct (tx_destroy_incomplete_skel c1 i) as [S Rc]. destruct (tx_destroy_incomplete_ptrs c1 i) as [P1 P2].
  split; [rewrite (skel_fault _ _ S); exact G1|].
  split; [eapply frx_trans; [exact G2|apply frx_of_rcv; assumption]|].
  split; [intros T; eapply tx_destroy_incomplete_TIin; [exact Es1|exact Ec|exact (G3 T)]|].
  split; [intros T; eapply tx_destroy_incomplete_TIout; [exact Es1|exact Ec|exact (G4 T)]|].
  rewrite P1, P2, (skel_in_state _ _ S). unfold ptr_le in *.
  pose proof (clr_le (c_in_tx c1) i) as Q1. pose proof (clr_le (c_out_tx c1) i) as Q2. unfold ptr_le in *.
  split; [destruct Q1 as [Q1|Q1]; rewrite Q1; tauto|split; [destruct Q2 as [Q2|Q2]; rewrite Q2; tauto|exact G7]].
Qed.

(* ---- htp_tx_state_request_complete_partial ---- *)
Lemma partial_safe i c :
  c_fault c = false -> live c i -> c_in_tx c = Some i -> sendok_in c ->
  let r := tx_state_request_complete_partial cb i c in
  c_fault (snd r) = false /\ fro c (snd r) /\ (fst r = ST_OK -> hook_in (snd r) = None).
Proof.
  intros F L Ei K. cbv zeta. unfold tx_state_request_complete_partial.
  assert (Lo : olive c (c_in_tx c)) by (rewrite Ei; exact L).
  assert (G : forall c1, fr c c1 ->
     let r := (let c2 := tx_upd c1 i (fun t => t <| t_request_progress := c_HTP_REQUEST_COMPLETE |>) in
               match run_hook cb H_REQUEST_COMPLETE i c2 with (ST_OK, c3) => req_receiver_finalize_clear cb c3 | r => r end) in
     c_fault (snd r) = false /\ fro c (snd r) /\ (fst r = ST_OK -> hook_in (snd r) = None)).
  { intros c1 R1. cbv zeta.
    pose proof (frR_live _ _ _ i R1 L) as L1.
    set (c2 := tx_upd c1 i _).
    assert (R2 : fro c1 c2) by (apply tx_upd_fr; [apply tx_leout_pre|exact L1|intros t; unfold tx_leout; cbn; tauto]).
    pose proof (frR_live _ _ _ i R2 L1) as L2.
    pose proof (run_hook_fr cb cb_nodestroy H_REQUEST_COMPLETE i c2 L2) as R3. unfold run_hook in *.
    destruct (run_hook_ex cb H_REQUEST_COMPLETE i None false None c2) as [rc c3]. cbn [fst snd] in *.
    assert (R03 : fro c c3) by (eapply fro_trans; [apply fr_fro; exact R1|eapply fro_trans; [exact R2|apply fr_fro; exact R3]]).
    assert (F3 : c_fault c3 = false) by (rewrite (frR_fault _ _ _ R03); exact F).
    destruct rc; cbn [fst snd]; try (split; [exact F3|split; [exact R03|discriminate]]).
    pose proof (sendok_in_frR _ _ _ R03 K) as K3.
    destruct (req_receiver_finalize_clear_safe cb cb_nodestroy c3 F3 K3) as (F4 & R4 & H4).
    destruct (req_receiver_finalize_clear cb c3) as [rc4 c4]. cbn [fst snd] in *.
    split; [exact F4|split; [eapply fro_trans; [exact R03|apply fr_fro; exact R4]|intros _; exact H4]]. }
  destruct (tx_req_has_body (tx_get c i)).
  - pose proof (tx_req_process_body_data_ex_fr cb cb_nodestroy i None 0 c L Lo) as R1.
    destruct (tx_req_process_body_data_ex cb i None 0 c) as [rc c1]. cbn [fst snd] in *.
    assert (F1 : c_fault c1 = false) by (rewrite (frR_fault _ _ _ R1); exact F).
    destruct rc; try (apply (G c1 R1)); cbn [fst snd]; (split; [exact F1|split; [apply fr_fro; exact R1|discriminate]]).
  - apply (G c (fr_refl c)).
Qed.

(* ---- htp_tx_state_request_complete ---- *)
Lemma request_complete_safe i c :
  c_fault c = false -> live c i -> c_in_tx c = Some i -> sendok_in c -> TIout c ->
  txp c (c_in_tx c) (fun t => t_request_progress t <> c_HTP_REQUEST_COMPLETE) ->
  let r := tx_state_request_complete cb g i c in
  c_fault (snd r) = false /\ TIout (snd r) /\ frx c (snd r) /\ ptr_le (c_out_tx c) (c_out_tx (snd r)) /\
  (fst r = ST_OK -> c_in_tx (snd r) = None /\ hook_in (snd r) = None /\
                    (c_in_state (snd r) = REQ_IDLE \/ c_in_state (snd r) = REQ_IGNORE_DATA_AFTER_HTTP_0_9)).
Proof.
  intros F L Ei K To Pq. cbv zeta. unfold tx_state_request_complete.
  unfold live in L. destruct (tx_slot c i) as [t0|] eqn:Es; [|congruence].
  unfold txp in Pq. rewrite Ei, Es in Pq.
  replace (t_request_progress t0 =? c_HTP_REQUEST_COMPLETE) with false by (symmetry; apply Z.eqb_neq; exact Pq).
  cbn [negb].
  assert (L' : live c i) by (unfold live; congruence).
  destruct (partial_safe i c F L' Ei K) as (F1 & R1 & H1).
  destruct (tx_state_request_complete_partial cb i c) as [rc c1]. cbn [fst snd] in *.
  assert (To1 : TIout c1) by (eapply TIout_fro; eassumption).
  assert (Po : ptr_le (c_out_tx c) (c_out_tx c1)) by (left; apply (frR_out_tx _ _ _ R1)).
  destruct rc; cbn [fst snd]; try (split; [exact F1|split; [exact To1|split; [eapply frR_frx; exact R1|split; [exact Po|discriminate]]]]).
  specialize (H1 eq_refl).
  pose proof (frR_live _ _ _ i R1 L') as L1. unfold live in L1. destruct (tx_slot c1 i) as [t1|] eqn:Es1; [|congruence].
  set (c2 := c1 <| c_in_state := if t_is_protocol_0_9 t1 then REQ_IGNORE_DATA_AFTER_HTTP_0_9 else REQ_IDLE |>).
  assert (L2 : live c2 i) by (unfold live, c2; change (tx_slot (c1 <| c_in_state := _ |>) i) with (tx_slot c1 i); congruence).
  assert (F2 : c_fault c2 = false) by exact F1.
  assert (To2 : TIout c2).
  { destruct To1 as [B1 B2 B3]. constructor; [exact B1|exact B2|exact B3]. }
  destruct (tx_finalize_safe i c2 F2 L2) as (F3 & R3 & _ & T3 & _ & P3 & S3).
  destruct (tx_finalize cb g i c2) as [rc3 c3]. cbn [fst snd] in *.
  split; [exact F3|]. split.
  { specialize (T3 To2). destruct T3 as [B1 B2 B3]. constructor; [exact B1|exact B2|exact B3]. }
  split.
  { eapply frx_trans; [eapply frR_frx; exact R1|]. eapply frx_trans; [apply (frx_set_state c1)|]. eapply frx_trans; [exact R3|].
    unfold frx, rc_le, hk_le. repeat split; left; reflexivity. }
  split.
  { unfold ptr_le in *. change (c_out_tx (c3 <| c_in_tx := None |>)) with (c_out_tx c3). change (c_out_tx c2) with (c_out_tx c1) in P3.
    destruct P3 as [P3|P3]; rewrite P3; [exact Po|right; reflexivity]. }
  intros _. split; [reflexivity|]. split.
  - destruct R3 as (_ & [Hh|Hh] & _); unfold hook_in in *; cbn; [|exact Hh]. rewrite Hh. exact H1.
  - change (c_in_state (c3 <| c_in_tx := None |>)) with (c_in_state c3). rewrite S3. unfold c2. cbn.
    destruct (t_is_protocol_0_9 t1); tauto.
Qed.

(* ---- htp_tx_state_request_start ---- *)
Lemma request_start_safe i c :
  c_fault c = false -> live c i -> c_in_tx c = Some i ->
  let r := tx_state_request_start cb i c in
  c_fault (snd r) = false /\
  (fst r = ST_OK -> fr (c <| c_in_state := REQ_LINE |>) (snd r)) /\ (fst r <> ST_OK -> fr c (snd r)).
Proof.
  intros F L Ei. cbv zeta. unfold tx_state_request_start.
  pose proof (run_hook_fr cb cb_nodestroy H_REQUEST_START i c L) as R. unfold run_hook in *.
  destruct (run_hook_ex cb H_REQUEST_START i None false None c) as [rc c1]. cbn [fst snd] in *.
  assert (F1 : c_fault c1 = false) by (rewrite (frR_fault _ _ _ R); exact F).
  destruct rc; cbn [fst snd]; try (split; [exact F1|split; [discriminate|intros _; exact R]]).
  change (c_in_tx (c1 <| c_in_state := REQ_LINE |>)) with (c_in_tx c1). rewrite (frR_in_tx _ _ _ R), Ei.
  assert (R1 : fr (c <| c_in_state := REQ_LINE |>) (c1 <| c_in_state := REQ_LINE |>)).
  { destruct R as (A1 & A2 & A3 & A4 & A5 & A6 & A7). unfold frR. repeat split; try assumption.
    unfold skel in *. cbn. congruence. }
  assert (L1 : live (c1 <| c_in_state := REQ_LINE |>) i) by (eapply frR_live; [exact R1|exact L]).
  assert (R2 : fr (c1 <| c_in_state := REQ_LINE |>) (tx_upd (c1 <| c_in_state := REQ_LINE |>) i (fun t => t <| t_request_progress := c_HTP_REQUEST_LINE |>))).
  { apply tx_upd_fr; [apply tx_le_pre|exact L1|tx_le_tac]. }
  split; [rewrite (frR_fault _ _ _ R2); exact F1|]. split; [intros _; eapply fr_trans; eassumption|intros Q; congruence].
Qed.

(* ---- htp_connp_tx_create ---- *)
Lemma tx_create_slot c id c' j :
  connp_tx_create g c = (Some id, c') ->
  id = (c_txs_shifted c + length (c_txs c))%nat /\
  tx_slot c' j = if (j =? id)%nat then Some (tx_new id (length (c_txs c))) else tx_slot c j.
Proof.
  unfold connp_tx_create.
  set (c0 := if (c_out_next_tx_index c <? length (c_txs c))%nat then _ else c).
  assert (E0 : c_txs c0 = c_txs c /\ c_txs_shifted c0 = c_txs_shifted c) by (subst c0; destruct (_ <? _)%nat; split; reflexivity).
  destruct E0 as [E1 E2].
  destruct ((0 <? g_max_tx g)%nat && (g_max_tx g <? length (c_txs c))%nat); [discriminate|].
  intros H. injection H as <- <-. rewrite E2. split; [reflexivity|].
  unfold tx_slot. cbn. rewrite E1, E2.
  destruct (j <? c_txs_shifted c)%nat eqn:Ej.
  - apply Nat.ltb_lt in Ej. replace (j =? c_txs_shifted c + length (c_txs c))%nat with false by (symmetry; apply Nat.eqb_neq; lia). reflexivity.
  - apply Nat.ltb_ge in Ej. destruct (j =? c_txs_shifted c + length (c_txs c))%nat eqn:E.
    + apply Nat.eqb_eq in E. rewrite nth_error_app2 by lia. replace (j - c_txs_shifted c - length (c_txs c))%nat with O by lia. reflexivity.
    + apply Nat.eqb_neq in E. destruct (Nat.lt_ge_cases (j - c_txs_shifted c) (length (c_txs c))) as [Q|Q].
      * rewrite nth_error_app1 by exact Q. reflexivity.
      * rewrite nth_error_app2 by exact Q. destruct (j - c_txs_shifted c - length (c_txs c))%nat as [|k] eqn:Ek; [lia|].
        cbn. destruct k; cbn; replace (nth_error (c_txs c) (j - c_txs_shifted c)) with (@None (option tx)) by (symmetry; apply nth_error_None; exact Q); reflexivity.
Qed.
End Layer2.

Lemma fr_set_in_state R c c1 s : frR R c c1 -> frR R (c <| c_in_state := s |>) (c1 <| c_in_state := s |>).
Proof.
  intros (A1 & A2 & A3 & A4 & A5 & A6 & A7). unfold frR. repeat split; try assumption.
  unfold skel in *. cbn. congruence.
Qed.

Section Layer3.
Variable cb : cb_oracle.
Variable g : cfg.
Hypothesis cb_nodestroy : forall h n, cb h n <> CB_DESTROY_TX.

(* ---- htp_tx_state_request_line ---- *)
Lemma request_line_safe i c :
  c_fault c = false -> live c i ->
  let r := tx_state_request_line cb g i c in
  c_fault (snd r) = false /\
  (fst r = ST_OK -> fr (c <| c_in_state := REQ_PROTOCOL |>) (snd r) /\ txp (snd r) (Some i) (fun t => t_parsed_uri t <> None)) /\
  (fst r <> ST_OK -> fr c (snd r)).
Proof.
  intros F L. cbv zeta. unfold tx_state_request_line.
  unfold live in L. unfold tx_get. destruct (tx_slot c i) as [t|] eqn:Es; [|congruence].
  destruct (rq_uri_pipeline_opt g (t_request_method_number t =? c_HTP_M_CONNECT) (t_request_uri t) t) as [t'|] eqn:Ep;
    [|cbn [fst snd]; split; [exact F|split; [discriminate|intros _; apply fr_refl]]].
  destruct (pipeline_spec _ _ _ _ _ Ep) as [Hp Hu].
  assert (Hle : tx_le t t'). { unfold prog2 in Hp. injection Hp as H1 H2. unfold tx_le, tx_lein, tx_leout. rewrite H1, H2. tauto. }
  pose proof (tx_put_fr tx_le c i t' t tx_le_pre Es Hle) as R0.
  assert (L' : live c i) by (unfold live; congruence).
  assert (U0 : tx_slot (tx_put c i t') i = Some t') by (rewrite (tx_put_slot c i t' i L'), Nat.eqb_refl; reflexivity).
  assert (KeepU : forall c0 c1, fr c0 c1 -> txp c0 (Some i) (fun t => t_parsed_uri t <> None) -> txp c1 (Some i) (fun t => t_parsed_uri t <> None)).
  { intros c0 c1 (_ & _ & X & _) Q. eapply txs_rel_txp; [exact X| |exact Q]. intros a b [[_ E] _]. exact E. }
  pose proof (frR_live _ _ _ i R0 L') as L0.
  pose proof (run_hook_fr cb cb_nodestroy H_REQUEST_URI_NORMALIZE i _ L0) as R1. unfold run_hook in *.
  destruct (run_hook_ex cb H_REQUEST_URI_NORMALIZE i None false None (tx_put c i t')) as [rc c1]. cbn [fst snd] in *.
  pose proof (fr_trans _ _ _ R0 R1) as R01.
  assert (F1 : c_fault c1 = false) by (rewrite (frR_fault _ _ _ R01); exact F).
  destruct rc; cbn [fst snd]; try (split; [exact F1|split; [discriminate|intros _; exact R01]]).
  pose proof (frR_live _ _ _ i R01 L') as L1.
  pose proof (run_hook_fr cb cb_nodestroy H_REQUEST_LINE i _ L1) as R2. unfold run_hook in *.
  destruct (run_hook_ex cb H_REQUEST_LINE i None false None c1) as [rc2 c2]. cbn [fst snd] in *.
  pose proof (fr_trans _ _ _ R01 R2) as R02.
  assert (F2 : c_fault c2 = false) by (rewrite (frR_fault _ _ _ R02); exact F).
  destruct rc2; cbn [fst snd]; try (split; [exact F2|split; [discriminate|intros _; exact R02]]).
  split; [exact F2|split; [intros _|intros Q; congruence]]. split; [apply fr_set_in_state; exact R02|].
  change (txp c2 (Some i) (fun t => t_parsed_uri t <> None)).
  eapply KeepU; [exact (fr_trans _ _ _ R1 R2)|]. unfold txp. rewrite U0. exact Hu.
Qed.

(* ---- htp_tx_process_request_headers ---- *)
Lemma process_request_headers_safe i c :
  c_fault c = false -> live c i -> txp c (Some i) (fun t => t_parsed_uri t <> None) -> sendok_in c ->
  let r := tx_process_request_headers cb i c in
  c_fault (snd r) = false /\ fr c (snd r) /\ (fst r = ST_OK -> hook_in (snd r) = None).
Proof.
  intros F L U K. cbv zeta. unfold tx_process_request_headers.
  unfold live in L. unfold txp in U. unfold tx_get. destruct (tx_slot c i) as [t|] eqn:Es; [|congruence].
  pose proof (prog3_te_cl t) as H1. set (t1 := rq_te_cl t) in *.
  assert (U1 : t_parsed_uri t1 <> None) by (unfold prog3 in H1; injection H1 as _ _ ->; exact U).
  destruct (t_parsed_uri t1) as [nu|] eqn:Eu; [|congruence].
  pose proof (prog3_host nu t1) as H2. pose proof (prog3_content_type (rq_host nu t1)) as H3.
  set (t3 := rq_content_type (rq_host nu t1)) in *.
  assert (Hle : tx_le t t3) by (apply tx_le_of_prog3; congruence).
  pose proof (tx_put_fr tx_le c i t3 t tx_le_pre Es Hle) as R0.
  assert (F0 : c_fault (tx_put c i t3) = false) by (rewrite (frR_fault _ _ _ R0); exact F).
  pose proof (sendok_in_frR _ _ _ R0 K) as K0.
  destruct (req_receiver_finalize_clear_safe cb cb_nodestroy _ F0 K0) as (F1 & R1 & Hh).
  destruct (req_receiver_finalize_clear cb (tx_put c i t3)) as [rc c1]. cbn [fst snd] in *.
  pose proof (fr_trans _ _ _ R0 R1) as R01.
  destruct rc; cbn [fst snd]; try (split; [exact F1|split; [exact R01|discriminate]]).
  assert (L' : live c i) by (unfold live; congruence).
  pose proof (frR_live _ _ _ i R01 L') as L1.
  pose proof (run_hook_fr cb cb_nodestroy H_REQUEST_HEADERS i _ L1) as R2.
  split; [rewrite (frR_fault _ _ _ R2); exact F1|]. split; [exact (fr_trans _ _ _ R01 R2)|].
  intros _. eapply frR_hook_in_none; [exact R2|exact Hh].
Qed.

(* ---- htp_tx_state_request_headers ---- *)
Lemma request_headers_safe i c :
  c_fault c = false -> live c i -> txp c (Some i) (fun t => t_parsed_uri t <> None) -> sendok_in c ->
  let r := tx_state_request_headers cb i c in
  c_fault (snd r) = false /\
  (fst r = ST_OK -> hook_in (snd r) = None /\
     (fr (c <| c_in_state := REQ_FINALIZE |>) (snd r) \/ fr (c <| c_in_state := REQ_CONNECT_CHECK |>) (snd r))) /\
  (fst r <> ST_OK -> fr c (snd r)).
Proof.
  intros F L U K. cbv zeta. unfold tx_state_request_headers.
  destruct (c_HTP_REQUEST_HEADERS <? t_request_progress (tx_get c i)).
  - pose proof (run_hook_fr cb cb_nodestroy H_REQUEST_TRAILER i c L) as R1. unfold run_hook in *.
    destruct (run_hook_ex cb H_REQUEST_TRAILER i None false None c) as [rc c1]. cbn [fst snd] in *.
    assert (F1 : c_fault c1 = false) by (rewrite (frR_fault _ _ _ R1); exact F).
    destruct rc; cbn [fst snd]; try (split; [exact F1|split; [discriminate|intros _; exact R1]]).
    pose proof (sendok_in_frR _ _ _ R1 K) as K1.
    destruct (req_receiver_finalize_clear_safe cb cb_nodestroy _ F1 K1) as (F2 & R2 & Hh).
    destruct (req_receiver_finalize_clear cb c1) as [rc2 c2]. cbn [fst snd] in *.
    pose proof (fr_trans _ _ _ R1 R2) as R02.
    destruct rc2; cbn [fst snd]; try (split; [exact F2|split; [discriminate|intros _; exact R02]]).
    split; [exact F2|split; [intros _|intros Q; congruence]]. split; [exact Hh|left; apply fr_set_in_state; exact R02].
  - destruct (c_HTP_REQUEST_LINE <=? t_request_progress (tx_get c i));
      [|cbn [fst snd]; split; [exact F|split; [discriminate|intros _; apply fr_refl]]].
    set (c0 := if negb (c_in_chunk_count c =? c_in_chunk_request_index c)%nat then _ else c).
    assert (R0 : fr c c0).
    { subst c0. destruct (negb _); [|apply fr_refl]. apply tx_upd_fr; [apply tx_le_pre|exact L|intros t; apply tx_le_of_prog3; reflexivity]. }
    assert (F0 : c_fault c0 = false) by (rewrite (frR_fault _ _ _ R0); exact F).
    assert (U0 : txp c0 (Some i) (fun t => t_parsed_uri t <> None)).
    { destruct R0 as (_ & _ & X & _). eapply txs_rel_txp; [exact X| |exact U]. intros a b [[_ E] _]. exact E. }
    destruct (process_request_headers_safe i c0 F0 (frR_live _ _ _ i R0 L) U0 (sendok_in_frR _ _ _ R0 K)) as (F1 & R1 & Hh).
    destruct (tx_process_request_headers cb i c0) as [rc c1]. cbn [fst snd] in *.
    pose proof (fr_trans _ _ _ R0 R1) as R01.
    destruct rc; cbn [fst snd]; try (split; [exact F1|split; [discriminate|intros _; exact R01]]).
    split; [exact F1|split; [intros _|intros Q; congruence]]. split; [exact (Hh eq_refl)|right; apply fr_set_in_state; exact R01].
Qed.
End Layer3.

(* 4. the request loop invariant and the byte-level macros *)

(* what TI and the loop clauses read, for steps that do not touch the transaction table at all *)
Definition tiv (c : connp) :=
  (c_in_state c, c_out_state c, c_in_tx c, c_out_tx c, hook_in c, hook_out c, c_txs c, c_txs_shifted c, c_out_status c,
   cur_core (c_out c)).
Lemma tiv_cur a b : tiv a = tiv b -> cur_core (c_out a) = cur_core (c_out b).
Proof. unfold tiv. intros H. congruence. Qed.
Lemma TI_tiv c c' : tiv c' = tiv c -> TI c -> TI c'.
Proof.
  unfold tiv. intros H [Ti To]. injection H as H1 H2 H3 H4 H5 H6 H7 H8 H9 H10. split.
  - eapply TIin_frame; [exact Ti|exact H1|exact H3|left; exact H5|apply txs_rel_of_eq; [apply tx_lein_pre|exact H7|exact H8]].
  - eapply TIout_frame; [exact To|exact H2|exact H4|left; exact H6|apply txs_rel_of_eq; [apply tx_leout_pre|exact H7|exact H8]].
Qed.

(* in every state but IDLE / IGNORE_DATA_AFTER_HTTP_0_9 there is a current transaction *)
Definition intx_ok (c : connp) : Prop :=
  c_in_state c <> REQ_IDLE -> c_in_state c <> REQ_IGNORE_DATA_AFTER_HTTP_0_9 -> c_in_tx c <> None.
(* during a gap (NULL chunk with a length) an armed receiver has nothing to flush *)
Definition gap_ok (gap : bool) (c : connp) : Prop := gap = true -> armed (c_in c) -> k_read (c_in c) = O.
(* ... and REQ_BODY_IDENTITY starts at offset 0 (NULL + 0); the receiver is armed (on entering REQ_HEADERS) at offset 0 only *)
Definition gap_head (gap : bool) (c : connp) : Prop :=
  gap = true -> (c_in_state c = REQ_BODY_IDENTITY \/ c_in_state c = REQ_HEADERS) -> k_read (c_in c) = O.

(* the invariant of htp_connp_req_data's loop that also holds when a pass leaves the loop with a "need data" code *)
(* what the request side leaves alone in the response direction; os = (out_status, out_state, response receiver hook)
   when the call started: out_status only ever becomes TUNNEL, out_state is kept, the hook is kept (or cleared) *)
Definition ocore := (option bytes * nat * nat * nat * option N * option bytes * option bytes)%type.
Definition octx := (Z * res_state * option nat * ocore)%type.
Definition os_keeps (os : octx) (c : connp) : Prop :=
  (c_out_status c = fst (fst (fst os)) \/ c_out_status c = c_HTP_STREAM_TUNNEL) /\ c_out_state c = snd (fst (fst os)) /\
  hk_le (snd (fst os)) (hook_out c) /\ cur_core (c_out c) = snd os.
Lemma os_keeps_step os c c' :
  os_keeps os c -> c_out_status c' = c_out_status c -> c_out_state c' = c_out_state c -> hk_le (hook_out c) (hook_out c') ->
  cur_core (c_out c') = cur_core (c_out c) -> os_keeps os c'.
Proof.
  intros (A & B & C & D) E1 E2 E3 E4. unfold os_keeps. rewrite E1, E2, E4. split; [exact A|split; [exact B|split; [eapply hk_le_trans; eassumption|exact D]]].
Qed.

Record RE (gap : bool) (os : octx) (c : connp) : Prop := mkRE {
  re_fault : c_fault c = false;
  re_pre : rq_pre c;
  re_readable : gap = false -> rq_readable c;
  re_ti : TI c;
  re_intx : intx_ok c;
  re_gap : gap_ok gap c;
  re_os : os_keeps os c
}.

Lemma rq_core_fields a b : rq_core_st a = rq_core_st b ->
  k_data (c_in a) = k_data (c_in b) /\ k_len (c_in a) = k_len (c_in b) /\ k_read (c_in a) = k_read (c_in b) /\
  k_consume (c_in a) = k_consume (c_in b) /\ c_in_state a = c_in_state b.
Proof. unfold rq_core_st, rq_core. intros H. injection H as H1 H2 H3 H4 H5 H6 H7 H8 H9 H10 H11. repeat split; congruence. Qed.

Lemma RE_fr gap os c c' : RE gap os c -> fr c c' -> RE gap os c'.
Proof.
  intros [A1 A2 A3 A4 A5 A6 A7] R. pose proof (frR_core _ _ _ R) as C. destruct (rq_core_fields _ _ C) as (E1 & E2 & E3 & E4 & E5).
  constructor.
  - rewrite (frR_fault _ _ _ R). exact A1.
  - eapply rq_pre_moved; [apply rq_moved_core; exact C|exact A2].
  - intros G. specialize (A3 G). unfold rq_readable, rq_len in *. rewrite E1, E2. exact A3.
  - eapply TI_fr; eassumption.
  - unfold intx_ok in *. rewrite E5, (frR_in_tx _ _ _ R). exact A5.
  - unfold gap_ok, armed in *. intros G U. rewrite E3. apply (A6 G). destruct R as (_ & _ & _ & [H|H] & _); unfold hook_in in H; congruence.
  - destruct R as (S & _ & _ & _ & Ho & _). apply (os_keeps_step os c c' A7); [apply skel_out_status; exact S|apply skel_out_state; exact S|exact Ho|apply skel_cur_out; exact S].
Qed.

Lemma RE_sendok gap os c : RE gap os c -> sendok_in c.
Proof.
  intros [A1 A2 A3 A4 A5 A6 A7] U. destruct A4 as [Ti _]. destruct (ti_in_armed c Ti U) as [N _].
  split; [split; [exact N|exact (ti_in_live c Ti)]|].
  unfold bytes_ok. destruct A2 as [(W1 & W2 & W3) _]. unfold rq_rd, rq_len, rq_cs in *.
  destruct (k_data (c_in c)) as [d|] eqn:Ed; [right; lia|left].
  destruct gap.
  - rewrite (A6 eq_refl U). lia.
  - specialize (A3 eq_refl). unfold rq_readable, rq_len in A3. rewrite (A3 Ed) in W1. lia.
Qed.

(* a byte-level step outside a gap: new cursor facts are supplied, the rest is read off tiv *)
Lemma RE_byte os c c' :
  RE false os c -> tiv c' = tiv c -> c_fault c' = false -> rq_pre c' -> rq_readable c' -> RE false os c'.
Proof.
  intros [A1 A2 A3 A4 A5 A6 A7] T F P Rd. pose proof T as T'. unfold tiv in T'. injection T' as H1 H2 H3 H4 H5 H6 H7 H8 H9 H10.
  constructor; try assumption.
  - intros _. exact Rd.
  - eapply TI_tiv; eassumption.
  - unfold intx_ok. rewrite H1, H3. exact A5.
  - intros G. discriminate.
  - apply (os_keeps_step os c c' A7); [exact H9|exact H2|left; exact H6|exact (tiv_cur _ _ T)].
Qed.

(* ---- the byte macros do not fault on a well-formed, readable cursor ---- *)
Definition nf (c c' : connp) : Prop := c_fault c' = c_fault c /\ tiv c' = tiv c.
Lemma nf_refl c : nf c c. Proof. split; reflexivity. Qed.
Lemma nf_trans a b c : nf a b -> nf b c -> nf a c.
Proof. intros [A1 A2] [B1 B2]. split; congruence. Qed.

Lemma rq_read_byte_nf c : rq_wf c -> rq_readable c -> (rq_rd c < rq_len c)%nat -> nf c (fst (rq_read_byte c)).
Proof.
  unfold rq_wf, rq_readable, rq_rd, rq_len, rq_cs, rq_read_byte. intros (W1 & W2 & W3) Rd Lt.
  destruct (k_data (c_in c)) as [d|] eqn:Ed; [|specialize (Rd eq_refl); lia].
  destruct (nth_error d (k_read (c_in c))) eqn:En; [apply nf_refl|]. apply nth_error_None in En. lia.
Qed.
Lemma rq_peek_next_nf c : rq_wf c -> rq_readable c -> nf c (rq_peek_next c).
Proof.
  intros W Rd. unfold rq_peek_next, rq_at_end. destruct (k_len (c_in c) <=? k_read (c_in c))%nat eqn:E; [split; reflexivity|].
  apply Nat.leb_gt in E. pose proof (rq_read_byte_nf c W Rd E) as [N1 N2]. destruct (rq_read_byte c) as [c1 b]. cbn [fst] in *.
  split; [exact N1|]. rewrite <- N2. reflexivity.
Qed.
Lemma rq_copy_byte_nf c c' : rq_wf c -> rq_readable c -> rq_copy_byte c = Some c' -> nf c c'.
Proof.
  intros W Rd. unfold rq_copy_byte, rq_at_end. destruct (k_len (c_in c) <=? k_read (c_in c))%nat eqn:E; [discriminate|].
  apply Nat.leb_gt in E. pose proof (rq_read_byte_nf c W Rd E) as [N1 N2]. destruct (rq_read_byte c) as [c1 b]. cbn [fst] in *.
  intros H. injection H as <-. split; [exact N1|]. rewrite <- N2. reflexivity.
Qed.
Lemma rq_next_byte_nf c c' : rq_wf c -> rq_readable c -> rq_next_byte c = Some c' -> nf c c'.
Proof.
  intros W Rd. unfold rq_next_byte, rq_at_end. destruct (k_len (c_in c) <=? k_read (c_in c))%nat eqn:E; [discriminate|].
  apply Nat.leb_gt in E. pose proof (rq_read_byte_nf c W Rd E) as [N1 N2]. destruct (rq_read_byte c) as [c1 b]. cbn [fst] in *.
  intros H. injection H as <-. split; [exact N1|]. rewrite <- N2. reflexivity.
Qed.
Lemma rq_slice_nf c from to :
  match k_data (c_in c) with Some d => (to <= length d)%nat | None => (to <= from)%nat end -> nf c (fst (rq_slice c from to)).
Proof.
  unfold rq_slice. destruct (k_data (c_in c)) as [d|]; intros H.
  - replace (to <=? length d)%nat with true by (symmetry; apply Nat.leb_le; exact H). apply nf_refl.
  - replace (to <=? from)%nat with true by (symmetry; apply Nat.leb_le; exact H). apply nf_refl.
Qed.
(* [consume, read) of a well-formed readable cursor *)
Lemma rq_slice_cr_nf c : rq_wf c -> rq_readable c -> nf c (fst (rq_slice c (k_consume (c_in c)) (k_read (c_in c)))).
Proof.
  intros (W1 & W2 & W3) Rd. apply rq_slice_nf. unfold rq_readable, rq_rd, rq_len, rq_cs in *.
  destruct (k_data (c_in c)); [lia|]. specialize (Rd eq_refl). lia.
Qed.
Lemma req_buffer_nf g c : rq_wf c -> rq_readable c -> c_in_tx c <> None -> nf c (snd (req_buffer g c)).
Proof.
  intros W Rd N. pose proof W as (W1 & W2 & W3). unfold rq_rd, rq_len, rq_cs in *. unfold req_buffer.
  destruct (k_data (c_in c)) eqn:Ed; [|apply nf_refl].
  replace (k_read (c_in c) <? k_consume (c_in c))%nat with false by (symmetry; apply Nat.ltb_ge; exact W2).
  destruct (_ =? 0)%nat; [apply nf_refl|]. destruct (c_in_tx c) eqn:Ei; [|congruence].
  destruct (g_field_limit_hard g <? _)%nat; [apply nf_refl|].
  pose proof (rq_slice_cr_nf c W Rd) as [N1 N2]. destruct (rq_slice c (k_consume (c_in c)) (k_read (c_in c))) as [c3 piece]. cbn [fst snd] in *.
  split; [exact N1|]. rewrite <- N2. reflexivity.
Qed.
Lemma req_consolidate_data_nf g c : rq_wf c -> rq_readable c -> c_in_tx c <> None -> nf c (snd (fst (req_consolidate_data g c))).
Proof.
  intros W Rd N. unfold req_consolidate_data. destruct (k_buf (c_in c)).
  - pose proof (req_buffer_nf g c W Rd N) as H. destruct (req_buffer g c) as [rc c1]. destruct rc; exact H.
  - pose proof (rq_slice_cr_nf c W Rd) as H. destruct (rq_slice c (k_consume (c_in c)) (k_read (c_in c))). exact H.
Qed.
Lemma req_clear_buffer_nf c : nf c (req_clear_buffer c).
Proof. split; reflexivity. Qed.
Lemma rq_set_header_nf c h : nf c (rq_set_in (fun k => k <| k_header := h |>) c).
Proof. split; reflexivity. Qed.

(* cursor facts carried along a state function (outside gaps) *)
Definition CW (c : connp) : Prop := rq_pre c /\ rq_readable c.
Lemma CW_moved c c' : rq_moved c c' -> CW c -> CW c'.
Proof.
  intros M [P Rd]. split; [eapply rq_pre_moved; eassumption|]. destruct M as (Pp & _). unfold rq_pos in Pp. injection Pp as H1 H2 H3 H4 H5.
  unfold rq_readable, rq_len in *. rewrite H5, H1. exact Rd.
Qed.
Lemma CW_core c c' : rq_core_st c' = rq_core_st c -> CW c -> CW c'.
Proof. intros H. apply CW_moved. apply rq_moved_core. exact H. Qed.
Lemma CW_copy c c' : rq_copy_byte c = Some c' -> CW c -> CW c' /\ (rq_cs c' < rq_rd c')%nat.
Proof.
  intros H [P Rd]. destruct (rq_pre_copy c c' P H) as [P' Lt]. split; [split; [exact P'|]|exact Lt].
  apply rq_copy_byte_some in H. destruct H as (H1 & H2 & H3 & H4 & H5 & H6 & H7 & H8). unfold rq_readable in *. rewrite H8, H1. exact Rd.
Qed.
Lemma CW_next c c' : rq_next_byte c = Some c' -> CW c -> CW c'.
Proof.
  intros H [P Rd]. split; [eapply rq_pre_next; eassumption|].
  apply rq_next_byte_some in H. destruct H as (H1 & H2 & H3 & H4 & H5 & H6 & H7 & H8). unfold rq_readable in *. rewrite H8, H1. exact Rd.
Qed.
Lemma CW_wf c : CW c -> rq_wf c. Proof. intros [[W _] _]. exact W. Qed.
Lemma CW_rd c : CW c -> rq_readable c. Proof. intros [_ R]. exact R. Qed.

(* the frame TI and the loop clauses need *)
Definition gfr (c c' : connp) : Prop :=
  c_in_state c' = c_in_state c /\ c_out_state c' = c_out_state c /\ ptrs c' = ptrs c /\
  hk_le (hook_in c) (hook_in c') /\ hk_le (hook_out c) (hook_out c') /\ txs_rel tx_le c c' /\ c_out_status c' = c_out_status c /\
  cur_core (c_out c') = cur_core (c_out c).
Lemma gfr_refl c : gfr c c.
Proof. unfold gfr. repeat split; try apply hk_le_refl. apply txs_rel_refl. apply tx_le_pre. Qed.
Lemma gfr_trans a b c : gfr a b -> gfr b c -> gfr a c.
Proof.
  intros (A1 & A2 & A3 & A4 & A5 & A6 & A7 & A8) (B1 & B2 & B3 & B4 & B5 & B6 & B7 & B8). unfold gfr. repeat split; try congruence.
  - eapply hk_le_trans; eassumption.
  - eapply hk_le_trans; eassumption.
  - eapply txs_rel_trans; [apply tx_le_pre|eassumption|eassumption].
Qed.
Lemma nf_gfr a b : nf a b -> gfr a b.
Proof.
  intros [_ T]. pose proof (tiv_cur _ _ T) as Hc. unfold tiv in T. injection T as H1 H2 H3 H4 H5 H6 H7 H8 H9 H10.
  unfold gfr, ptrs, hk_le. repeat split; try congruence; try (left; assumption).
  apply txs_rel_of_eq; [apply tx_le_pre|assumption|assumption].
Qed.
Lemma fr_gfr a b : fr a b -> gfr a b.
Proof.
  intros (S & P & X & H1 & H2 & _). unfold gfr. repeat split; try assumption.
  - apply skel_in_state. exact S.
  - apply skel_out_state. exact S.
  - apply skel_out_status. exact S.
  - apply skel_cur_out. exact S.
Qed.
Lemma gfr_live a b i : gfr a b -> live a i -> live b i.
Proof. intros (_ & _ & _ & _ & _ & X & _). eapply txs_rel_live. exact X. Qed.
Lemma gfr_in_tx a b : gfr a b -> c_in_tx b = c_in_tx a.
Proof. intros (_ & _ & P & _). unfold ptrs in P. congruence. Qed.

Lemma TI_gfr c c' : TI c -> gfr c c' -> TI c'.
Proof.
  intros [Ti To] (A1 & A2 & A3 & A4 & A5 & A6 & A7 & A8). unfold ptrs in A3. injection A3 as P1 P2. split.
  - eapply TIin_frame; try eassumption. eapply txs_rel_weaken; [|exact A6]. intros t t' [H _]. exact H.
  - eapply TIout_frame; try eassumption. eapply txs_rel_weaken; [|exact A6]. intros t t' [_ H]. exact H.
Qed.

(* setting in_state *)
Lemma TI_set_state c s :
  TI c -> (armed (c_in c) -> s = REQ_HEADERS \/ s = REQ_FINALIZE) ->
  (uri_state s -> txp c (c_in_tx c) (fun t => t_parsed_uri t <> None)) -> TI (c <| c_in_state := s |>).
Proof.
  intros [[A1 A2 A3 A4] [B1 B2 B3]] Ha Hu. split; constructor; try assumption.
  intros U. destruct (A3 U) as [N _]. split; [exact N|exact (Ha U)].
Qed.

Lemma RE_gfr os c c' : RE false os c -> gfr c c' -> c_fault c' = false -> CW c' -> RE false os c'.
Proof.
  intros [A1 A2 A3 A4 A5 A6 A7] G F [P Rd]. pose proof G as (G1 & G2 & G3 & G4 & G5 & G6 & G7 & G8).
  constructor; try assumption.
  - intros _. exact Rd.
  - eapply TI_gfr; eassumption.
  - unfold intx_ok. rewrite G1, (gfr_in_tx _ _ G). exact A5.
  - intros Q. discriminate.
  - apply (os_keeps_step os _ c' A7); [exact G7|exact G2|exact G5|exact G8].
Qed.
Lemma RE_gfr_state os c c' s :
  RE false os c -> gfr (c <| c_in_state := s |>) c' -> c_fault c' = false -> CW c' ->
  (armed (c_in c) -> s = REQ_HEADERS \/ s = REQ_FINALIZE) ->
  (uri_state s -> txp c (c_in_tx c) (fun t => t_parsed_uri t <> None)) ->
  (s <> REQ_IDLE -> s <> REQ_IGNORE_DATA_AFTER_HTTP_0_9 -> c_in_tx c <> None) ->
  RE false os c'.
Proof.
  intros [A1 A2 A3 A4 A5 A6 A7] G F [P Rd] Ha Hu Hi. pose proof G as (G1 & G2 & G3 & G4 & G5 & G6 & G7 & G8).
  constructor; try assumption.
  - intros _. exact Rd.
  - eapply TI_gfr; [|exact G]. apply TI_set_state; assumption.
  - unfold intx_ok. rewrite G1, (gfr_in_tx _ _ G). exact Hi.
  - intros Q. discriminate.
  - apply (os_keeps_step os _ c' A7); [exact G7|exact G2|exact G5|exact G8].
Qed.

(* the same with parsed_uri established on the way *)
Lemma RE_gfr_state_u os c c' s :
  RE false os c -> gfr (c <| c_in_state := s |>) c' -> c_fault c' = false -> CW c' ->
  (armed (c_in c) -> s = REQ_HEADERS \/ s = REQ_FINALIZE) ->
  (uri_state s -> txp c' (c_in_tx c') (fun t => t_parsed_uri t <> None)) ->
  (s <> REQ_IDLE -> s <> REQ_IGNORE_DATA_AFTER_HTTP_0_9 -> c_in_tx c <> None) ->
  RE false os c'.
Proof.
  intros [A1 A2 A3 [[B1 B2 B3 B4] To] A5 A6 A7] G F [P Rd] Ha Hu Hi. pose proof G as (G1 & G2 & G3 & G4 & G5 & G6 & G7 & G8).
  unfold ptrs in G3. injection G3 as P1 P2. cbn in G1, G2, P1, P2, G7.
  assert (X : txs_rel tx_le c c') by exact G6.
  constructor; try assumption.
  - intros _. exact Rd.
  - split.
    + constructor.
      * rewrite P1. eapply txs_rel_olive; eassumption.
      * rewrite P1. eapply txs_rel_txp; [exact X| |exact B2]. intros t t' [[E _] _]. exact E.
      * intros U. assert (U0 : armed (c_in c)) by (unfold armed, hook_in in *; destruct G4 as [Q|Q]; cbn in Q; congruence).
        rewrite P1, G1. split; [exact (proj1 (B3 U0))|exact (Ha U0)].
      * rewrite G1. exact Hu.
    + eapply TIout_frame; [exact To|exact G2|exact P2|exact G5|]. eapply txs_rel_weaken; [|exact X]. intros t t' [_ E]. exact E.
  - unfold intx_ok. rewrite G1, P1. exact Hi.
  - intros Q. discriminate.
  - apply (os_keeps_step os _ c' A7); [exact G7|exact G2|exact G5|exact G8].
Qed.

(* what a pass of a state function establishes *)
Definition okrc (rc : st) : Prop := rc = ST_OK \/ rc = ST_DATA \/ rc = ST_DATA_BUFFER \/ rc = ST_DATA_OTHER.
Definition RPost (gap : bool) (os : octx) (rc : st) (c' : connp) : Prop :=
  c_fault c' = false /\ (okrc rc -> RE gap os c') /\ (rc = ST_OK -> gap_head gap c') /\
  (rc = ST_DATA_BUFFER -> c_in_tx c' <> None).        (* a pass that asks for buffering has a current transaction *)
Definition RI (gap : bool) (os : octx) (c : connp) : Prop := RE gap os c /\ gap_head gap c.
Lemma RPost_of_RE os rc c' :
  RE false os c' -> (rc = ST_DATA_BUFFER -> c_in_state c' <> REQ_IDLE /\ c_in_state c' <> REQ_IGNORE_DATA_AFTER_HTTP_0_9) ->
  RPost false os rc c'.
Proof.
  intros H Hb. split; [exact (re_fault _ _ _ H)|split; [intros _; exact H|split; [intros _ Q; discriminate|]]].
  intros Q. destruct (Hb Q) as [N1 N2]. exact (re_intx _ _ _ H N1 N2).
Qed.
Lemma RPost_bad gap os rc c' : c_fault c' = false -> ~ okrc rc -> RPost gap os rc c'.
Proof.
  intros F N. unfold okrc in N. split; [exact F|split; [intros Q; contradiction|split; intros Q; exfalso; apply N; tauto]].
Qed.
Ltac notok := let Q := fresh "Q" in intros [Q|[Q|[Q|Q]]]; discriminate Q.
(* discharges the side condition of RPost_of_RE: the result code is not DATA_BUFFER, or the state is known *)
Ltac nb := let Q := fresh "Q" in intros Q; first [discriminate Q | cbn; split; (let QQ := fresh "QQ" in intros QQ; congruence)].

Lemma RE_CW os c : RE false os c -> CW c.
Proof. intros [A1 A2 A3 A4 A5 A6 A7]. split; [exact A2|exact (A3 eq_refl)]. Qed.

Lemma RE_in_live gap os c i : RE gap os c -> c_in_tx c = Some i -> live c i.
Proof. intros H E. pose proof (ti_in_live c (proj1 (re_ti _ _ _ H))) as L. rewrite E in L. exact L. Qed.

(* rq_tx_upd with a record update that keeps progress and parsed_uri *)
Lemma rq_tx_upd_fr gap os c f : RE gap os c -> c_in_tx c <> None -> (forall t, tx_le t (f t)) -> fr c (rq_tx_upd f c).
Proof.
  intros H N Hf. unfold rq_tx_upd. destruct (c_in_tx c) as [i|] eqn:E; [|congruence].
  apply tx_upd_fr; [apply tx_le_pre|eapply RE_in_live; eassumption|exact Hf].
Qed.

Section States.
Variable cb : cb_oracle.
Variable g : cfg.
Hypothesis cb_nodestroy : forall h n, cb h n <> CB_DESTROY_TX.

Lemma RE_state_intx gap os c : RE gap os c -> c_in_state c <> REQ_IDLE -> c_in_state c <> REQ_IGNORE_DATA_AFTER_HTTP_0_9 -> c_in_tx c <> None.
Proof. intros H. exact (re_intx _ _ _ H). Qed.

Lemma CW_step c c' rc : rq_step_ok c c' rc -> CW c -> CW c'.
Proof.
  intros (S1 & S2 & S3 & S4 & S5) [_ Rd]. split; [exact S4|]. unfold rq_readable in *. rewrite S1, S2. exact Rd.
Qed.
Lemma gfr_set_misc c s : gfr (c <| c_in_state := s |>) (c <| c_in_state := s |>).
Proof. apply gfr_refl. Qed.
Ltac gfr_eq := unfold gfr, ptrs; cbn; repeat split; try apply hk_le_refl; try (apply txs_rel_of_eq; [apply tx_le_pre|reflexivity|reflexivity]).

Lemma RE_not_armed gap os c : RE gap os c -> c_in_state c <> REQ_HEADERS -> c_in_state c <> REQ_FINALIZE -> ~ armed (c_in c).
Proof. intros H N1 N2 U. destruct (ti_in_armed c (proj1 (re_ti _ _ _ H)) U) as [_ [Q|Q]]; contradiction. Qed.
Lemma RE_uri gap os c : RE gap os c -> uri_state (c_in_state c) -> txp c (c_in_tx c) (fun t => t_parsed_uri t <> None).
Proof. intros H. exact (ti_in_uri c (proj1 (re_ti _ _ _ H))). Qed.

(* htp_connp_REQ_CONNECT_CHECK *)
Lemma REQ_CONNECT_CHECK_safe os c rc c' :
  RE false os c -> c_in_state c = REQ_CONNECT_CHECK -> REQ_CONNECT_CHECK_fn c = (rc, c') -> RPost false os rc c'.
Proof.
  intros H Es E. pose proof (RE_CW _ _ H) as W.
  pose proof (CW_step _ _ _ (REQ_CONNECT_CHECK_fn_step c rc c' (proj1 W) E) W) as W'.
  assert (N : c_in_tx c <> None) by (apply (RE_state_intx _ _ _ H); rewrite Es; discriminate).
  assert (Na : ~ armed (c_in c)) by (apply (RE_not_armed _ _ _ H); rewrite Es; discriminate).
  assert (Hu : txp c (c_in_tx c) (fun t => t_parsed_uri t <> None)) by (apply (RE_uri _ _ _ H); rewrite Es; exact I).
  unfold REQ_CONNECT_CHECK_fn in E.
  destruct (_ =? c_HTP_M_CONNECT); injection E as <- <-; (apply RPost_of_RE; [|nb]).
  - eapply (RE_gfr_state os c _ REQ_CONNECT_WAIT_RESPONSE H); try (intros; assumption || contradiction); try exact (re_fault _ _ _ H); gfr_eq.
  - eapply (RE_gfr_state os c _ REQ_BODY_DETERMINE H); try (intros; assumption || contradiction); try exact (re_fault _ _ _ H); gfr_eq.
Qed.

(* htp_connp_REQ_CONNECT_WAIT_RESPONSE *)
Lemma REQ_CONNECT_WAIT_RESPONSE_safe os c rc c' :
  RE false os c -> c_in_state c = REQ_CONNECT_WAIT_RESPONSE -> REQ_CONNECT_WAIT_RESPONSE_fn c = (rc, c') -> RPost false os rc c'.
Proof.
  intros H Es E. pose proof (RE_CW _ _ H) as W.
  pose proof (CW_step _ _ _ (REQ_CONNECT_WAIT_RESPONSE_fn_step c rc c' (proj1 W) E) W) as W'.
  assert (N : c_in_tx c <> None) by (apply (RE_state_intx _ _ _ H); rewrite Es; discriminate).
  assert (Na : ~ armed (c_in c)) by (apply (RE_not_armed _ _ _ H); rewrite Es; discriminate).
  assert (Hu : txp c (c_in_tx c) (fun t => t_parsed_uri t <> None)) by (apply (RE_uri _ _ _ H); rewrite Es; exact I).
  unfold REQ_CONNECT_WAIT_RESPONSE_fn in E.
  destruct (_ <=? c_HTP_RESPONSE_LINE); [injection E as <- <-; apply RPost_of_RE; [exact H|nb]|].
  destruct (_ && _); injection E as <- <-; (apply RPost_of_RE; [|nb]).
  - eapply (RE_gfr_state os c _ REQ_CONNECT_PROBE_DATA H); try (intros; assumption || contradiction); try exact (re_fault _ _ _ H); gfr_eq.
  - eapply (RE_gfr_state os c _ REQ_FINALIZE H); try (intros; assumption || contradiction); try exact (re_fault _ _ _ H); gfr_eq.
Qed.

Lemma rq_tx_upd_fr' c f i : c_in_tx c = Some i -> live c i -> (forall t, tx_le t (f t)) -> fr c (rq_tx_upd f c).
Proof. intros E L Hf. unfold rq_tx_upd. rewrite E. apply tx_upd_fr; [apply tx_le_pre|exact L|exact Hf]. Qed.

Lemma RE_in_tx_some gap os c : RE gap os c -> c_in_tx c <> None -> exists i, c_in_tx c = Some i /\ live c i.
Proof. intros H N. destruct (c_in_tx c) as [i|] eqn:E; [|congruence]. exists i. split; [reflexivity|eapply RE_in_live; eassumption]. Qed.

(* htp_connp_REQ_BODY_DETERMINE *)
Lemma REQ_BODY_DETERMINE_safe os c rc c' :
  RE false os c -> c_in_state c = REQ_BODY_DETERMINE -> REQ_BODY_DETERMINE_fn c = (rc, c') -> RPost false os rc c'.
Proof.
  intros H Es E. pose proof (RE_CW _ _ H) as W.
  pose proof (CW_step _ _ _ (REQ_BODY_DETERMINE_fn_step c rc c' (proj1 W) E) W) as W'.
  assert (N : c_in_tx c <> None) by (apply (RE_state_intx _ _ _ H); rewrite Es; discriminate).
  assert (Na : ~ armed (c_in c)) by (apply (RE_not_armed _ _ _ H); rewrite Es; discriminate).
  assert (Hu : txp c (c_in_tx c) (fun t => t_parsed_uri t <> None)) by (apply (RE_uri _ _ _ H); rewrite Es; exact I).
  destruct (RE_in_tx_some _ _ _ H N) as (i & Ei & L).
  pose proof (re_fault _ _ _ H) as F.
  unfold REQ_BODY_DETERMINE_fn in E.
  destruct (_ =? c_HTP_CODING_CHUNKED).
  { injection E as <- <-. (apply RPost_of_RE; [|nb]).
    match goal with |- RE _ _ (rq_tx_upd ?f ?x) => pose proof (rq_tx_upd_fr' x f i Ei L ltac:(tx_le_tac)) as R end.
    eapply (RE_gfr_state os c _ REQ_BODY_CHUNKED_LENGTH H); try (intros; assumption || contradiction);
      [eapply gfr_trans; [|apply fr_gfr; exact R]; gfr_eq|rewrite (frR_fault _ _ _ R); exact F]. }
  destruct (_ =? c_HTP_CODING_IDENTITY).
  { destruct (negb _); injection E as <- <-; (apply RPost_of_RE; [|nb]).
    - match goal with |- RE _ _ (rq_tx_upd ?f ?x) => pose proof (rq_tx_upd_fr' x f i Ei L ltac:(tx_le_tac)) as R end.
      eapply (RE_gfr_state os c _ REQ_BODY_IDENTITY H); try (intros; assumption || contradiction);
        [eapply gfr_trans; [|apply fr_gfr; exact R]; gfr_eq|rewrite (frR_fault _ _ _ R); exact F].
    - eapply (RE_gfr_state os c _ REQ_FINALIZE H); try (intros; assumption || contradiction); try exact F; gfr_eq. }
  destruct (_ =? c_HTP_CODING_NO_BODY); injection E as <- <-.
  - (apply RPost_of_RE; [|nb]). eapply (RE_gfr_state os c _ REQ_FINALIZE H); try (intros; assumption || contradiction); try exact F; gfr_eq.
  - apply RPost_bad; [exact F|notok].
Qed.

(* htp_connp_REQ_IGNORE_DATA_AFTER_HTTP_0_9 (also runs during gaps) *)
Lemma REQ_IGNORE_safe gap os c rc c' :
  RE gap os c -> c_in_state c = REQ_IGNORE_DATA_AFTER_HTTP_0_9 -> REQ_IGNORE_DATA_AFTER_HTTP_0_9_fn c = (rc, c') -> RPost gap os rc c'.
Proof.
  intros H Es E. pose proof H as [A1 A2 A3 A4 A5 A6 A7].
  pose proof (REQ_IGNORE_fn_step c rc c' A2 Es E) as (S1 & S2 & S3 & S4 & S5).
  assert (Na : ~ armed (c_in c)) by (apply (RE_not_armed _ _ _ H); rewrite Es; discriminate).
  unfold REQ_IGNORE_DATA_AFTER_HTTP_0_9_fn in E. injection E as <- <-.
  set (c1 := if (0 <? _)%nat then _ else c) in *.
  assert (T : tiv c1 = tiv c /\ c_fault c1 = c_fault c /\ c_in c1 = c_in c) by (subst c1; destruct (0 <? _)%nat; repeat split; reflexivity).
  destruct T as (T1 & T2 & T3).
  assert (R : RE gap os (rq_set_in (fun k => k <| k_read ::= Nat.add (k_len (c_in c) - k_read (c_in c)) |> <| k_consume ::= Nat.add (k_len (c_in c) - k_read (c_in c)) |>) c1)).
  { pose proof T1 as T1'. unfold tiv in T1'. injection T1' as H1 H2 H3 H4 H5 H6 H7 H8 H9 H10. constructor.
    - cbn. congruence.
    - exact S4.
    - intros G. specialize (A3 G). unfold rq_readable, rq_len in *. cbn. rewrite T3. exact A3.
    - eapply TI_tiv; [|exact A4]. rewrite <- T1. reflexivity.
    - unfold intx_ok. cbn. rewrite H1, H3. exact A5.
    - intros G U. exfalso. apply Na. unfold armed in *. cbn in U. rewrite T3 in U. exact U.
    - apply (os_keeps_step os c _ A7); [exact H9|exact H2|left; exact H6|exact (tiv_cur _ _ T1)]. }
  split; [exact (re_fault _ _ _ R)|split; [intros _; exact R|split; intros Q; discriminate]].
Qed.

Lemma gfr_set_in_state a b s : gfr a b -> gfr (a <| c_in_state := s |>) (b <| c_in_state := s |>).
Proof. intros (A1 & A2 & A3 & A4 & A5 & A6 & A7 & A8). unfold gfr. repeat split; assumption. Qed.
Lemma gfr_fault_nf a b : nf a b -> c_fault b = c_fault a. Proof. intros [H _]. exact H. Qed.

Lemma rq_to_headers_ok c0 i :
  c_in_tx c0 = Some i -> live c0 i ->
  c_fault (rq_to_headers c0) = c_fault c0 /\ gfr (c0 <| c_in_state := REQ_HEADERS |>) (rq_to_headers c0).
Proof.
  intros Ei L. unfold rq_to_headers.
  match goal with |- context [rq_tx_upd ?f ?x] =>
    assert (Ex : c_in_tx x = Some i) by exact Ei; assert (Lx : live x i) by exact L;
    pose proof (rq_tx_upd_fr' x f i Ex Lx ltac:(tx_le_tac)) as R end.
  split; [rewrite (frR_fault _ _ _ R); reflexivity|apply fr_gfr; exact R].
Qed.

(* htp_connp_REQ_PROTOCOL *)
Lemma REQ_PROTOCOL_safe os c rc c' :
  RE false os c -> c_in_state c = REQ_PROTOCOL -> REQ_PROTOCOL_fn c = (rc, c') -> RPost false os rc c'.
Proof.
  intros H Es E. pose proof (RE_CW _ _ H) as W.
  pose proof (CW_step _ _ _ (REQ_PROTOCOL_fn_step c rc c' (proj1 W) E) W) as W'.
  assert (N : c_in_tx c <> None) by (apply (RE_state_intx _ _ _ H); rewrite Es; discriminate).
  assert (Na : ~ armed (c_in c)) by (apply (RE_not_armed _ _ _ H); rewrite Es; discriminate).
  assert (Hu : txp c (c_in_tx c) (fun t => t_parsed_uri t <> None)) by (apply (RE_uri _ _ _ H); rewrite Es; exact I).
  destruct (RE_in_tx_some _ _ _ H N) as (i & Ei & L).
  pose proof (re_fault _ _ _ H) as F.
  assert (Fin : forall s, gfr (c <| c_in_state := s |>) c' -> c_fault c' = false -> (s = REQ_HEADERS \/ s = REQ_FINALIZE) -> RPost false os rc c').
  { intros s G F' Hs. apply RPost_of_RE; [|intros _; destruct G as (G1 & _); cbn in G1; rewrite G1; destruct Hs as [-> | ->]; split; discriminate].
    eapply (RE_gfr_state os c c' s H G F' W'); try (intros; assumption || contradiction). }
  assert (Miss : forall c0, c_in_tx c0 = Some i -> live c0 i ->
            let c1 := rq_to_headers (rq_tx_upd (fun t => t <| t_is_protocol_0_9 := false |>) c0) in
            c_fault c1 = c_fault c0 /\ gfr (c0 <| c_in_state := REQ_HEADERS |>) c1).
  { intros c0 E0 L0. cbv zeta.
    match goal with |- context [rq_to_headers (rq_tx_upd ?f c0)] =>
      pose proof (rq_tx_upd_fr' c0 f i E0 L0 ltac:(tx_le_tac)) as R0;
      destruct (rq_to_headers_ok (rq_tx_upd f c0) i) as [F1 G1] end.
    { rewrite (frR_in_tx _ _ _ R0). exact E0. } { eapply frR_live; eassumption. }
    split; [rewrite F1; exact (frR_fault _ _ _ R0)|]. eapply gfr_trans; [|exact G1]. apply gfr_set_in_state. apply fr_gfr. exact R0. }
  unfold REQ_PROTOCOL_fn in E.
  destruct (negb _).
  { injection E as <- <-. destruct (rq_to_headers_ok c i Ei L) as [F1 G1]. apply (Fin REQ_HEADERS G1); [congruence|tauto]. }
  destruct (_ <? _)%nat.
  { injection E as <- <-. destruct (Miss c Ei L) as [F1 G1]. apply (Fin REQ_HEADERS G1); [congruence|tauto]. }
  assert (Sl : nf c (fst (rq_slice c (k_read (c_in c)) (k_len (c_in c))))).
  { apply rq_slice_nf. destruct W as [[(W1 & W2 & W3) _] Rd]. unfold rq_readable, rq_len, rq_rd in *.
    destruct (k_data (c_in c)); [exact W3|]. rewrite (Rd eq_refl). lia. }
  destruct (rq_slice c (k_read (c_in c)) (k_len (c_in c))) as [c1 rest]. cbn [fst] in Sl.
  pose proof (nf_gfr _ _ Sl) as G0. pose proof (gfr_fault_nf _ _ Sl) as F0.
  destruct (forallb htp_is_space rest); injection E as <- <-.
  - apply (Fin REQ_FINALIZE); [apply gfr_set_in_state; exact G0|cbn; congruence|tauto].
  - destruct (Miss c1) as [F1 G1]; [rewrite (gfr_in_tx _ _ G0); exact Ei|eapply gfr_live; eassumption|].
    apply (Fin REQ_HEADERS); [eapply gfr_trans; [apply gfr_set_in_state; exact G0|exact G1]|congruence|tauto].
Qed.

Lemma nf_CW_moved a b : nf a b -> rq_moved a b -> CW a -> c_fault a = false -> c_fault b = false /\ CW b.
Proof. intros [N _] M W F. split; [congruence|eapply CW_moved; eassumption]. Qed.

(* htp_connp_REQ_LINE_complete *)
Lemma REQ_LINE_complete_safe os c rc c' :
  RE false os c -> c_in_state c = REQ_LINE -> REQ_LINE_complete cb g c = (rc, c') -> RPost false os rc c'.
Proof.
  intros H Es E. pose proof (RE_CW _ _ H) as W. pose proof (re_fault _ _ _ H) as F.
  assert (W' : CW c').
  { destruct (REQ_LINE_complete_step cb g c rc c' (proj1 W) E) as [S|(_ & M & _)]; [eapply CW_step; eassumption|eapply CW_moved; eassumption]. }
  assert (N : c_in_tx c <> None) by (apply (RE_state_intx _ _ _ H); rewrite Es; discriminate).
  assert (Na : ~ armed (c_in c)) by (apply (RE_not_armed _ _ _ H); rewrite Es; discriminate).
  destruct (RE_in_tx_some _ _ _ H N) as (i & Ei & L).
  unfold REQ_LINE_complete in E.
  pose proof (req_consolidate_data_nf g c (CW_wf _ W) (CW_rd _ W) N) as N1.
  pose proof (req_consolidate_data_moved g c) as M1.
  destruct (req_consolidate_data g c) as [[rc1 c1] data]. cbn [fst snd] in *.
  pose proof (nf_gfr _ _ N1) as G1. assert (F1 : c_fault c1 = false) by (rewrite (gfr_fault_nf _ _ N1); exact F).
  assert (Same : forall c2, gfr c1 c2 -> c_fault c2 = false -> c' = c2 -> RPost false os rc c').
  { intros c2 G2 F2 ->. apply RPost_of_RE; [|intros _; rewrite (proj1 G2), (proj1 G1), Es; split; discriminate].
    eapply RE_gfr; [exact H|eapply gfr_trans; eassumption|exact F2|exact W']. }
  destruct rc1; try (injection E as <- <-; apply (Same c1 (gfr_refl c1) F1 eq_refl)).
  destruct data as [|x data].
  { injection E as <- <-. apply (Same (req_clear_buffer c1)); [apply nf_gfr; apply req_clear_buffer_nf|exact F1|reflexivity]. }
  assert (E1 : c_in_tx c1 = Some i) by (rewrite (gfr_in_tx _ _ G1); exact Ei).
  assert (L1 : live c1 i) by (eapply gfr_live; eassumption).
  destruct (htp_is_line_ignorable (g_personality g) (x :: data)).
  { injection E as <- <-.
    match goal with |- context [rq_tx_upd ?f c1] => pose proof (rq_tx_upd_fr' c1 f i E1 L1 ltac:(tx_le_tac)) as R end.
    eapply Same; [|shelve|reflexivity]. eapply gfr_trans; [apply fr_gfr; exact R|apply nf_gfr; apply req_clear_buffer_nf].
    Unshelve. cbn. rewrite (frR_fault _ _ _ R). exact F1. }
  match type of E with context [rq_tx_upd ?f c1] =>
    pose proof (rq_tx_upd_fr' c1 f i E1 L1) as R; set (c2 := rq_tx_upd f c1) in * end.
  assert (R2 : fr c1 c2).
  { apply R. intros t. apply tx_le_of_prog3. rewrite prog3_parse_request_line. reflexivity. }
  clear R. assert (F2 : c_fault c2 = false) by (rewrite (frR_fault _ _ _ R2); exact F1).
  assert (E2 : c_in_tx c2 = Some i) by (rewrite (frR_in_tx _ _ _ R2); exact E1).
  assert (L2 : live c2 i) by (eapply frR_live; eassumption).
  unfold rq_with_tx in E. rewrite E2 in E.
  destruct (request_line_safe cb g cb_nodestroy i c2 F2 L2) as (F3 & Hok & Hno).
  destruct (tx_state_request_line cb g i c2) as [rc3 c3]. cbn [fst snd] in *.
  destruct rc3; injection E as <- <-; try (apply (Same c3); [eapply gfr_trans; [apply fr_gfr; exact R2|apply fr_gfr; apply Hno; discriminate]|exact F3|reflexivity]).
  destruct (Hok eq_refl) as [R3 U3]. (apply RPost_of_RE; [|nb]).
  assert (G3 : gfr (c <| c_in_state := REQ_PROTOCOL |>) (req_clear_buffer c3)).
  { eapply gfr_trans; [apply gfr_set_in_state; eapply gfr_trans; [exact G1|apply fr_gfr; exact R2]|].
    eapply gfr_trans; [apply fr_gfr; exact R3|apply nf_gfr; apply req_clear_buffer_nf]. }
  eapply (RE_gfr_state_u os c _ REQ_PROTOCOL H G3); try (intros; assumption || contradiction); try exact F3.
  intros _. rewrite (gfr_in_tx _ _ G3). change (c_in_tx (c <| c_in_state := REQ_PROTOCOL |>)) with (c_in_tx c). rewrite Ei. exact U3.
Qed.

Lemma RE_nf_moved os c c' : RE false os c -> nf c c' -> rq_moved c c' -> RE false os c' /\ c_in_state c' = c_in_state c.
Proof.
  intros H N M. pose proof (RE_CW _ _ H) as W. split; [|destruct M as (_ & S & _); exact S].
  eapply RE_gfr; [exact H|apply nf_gfr; exact N|rewrite (gfr_fault_nf _ _ N); exact (re_fault _ _ _ H)|eapply CW_moved; eassumption].
Qed.
Lemma RE_peek os c : RE false os c -> RE false os (rq_peek_next c) /\ c_in_state (rq_peek_next c) = c_in_state c.
Proof.
  intros H. pose proof (RE_CW _ _ H) as W. apply RE_nf_moved; [exact H|apply rq_peek_next_nf; [exact (CW_wf _ W)|exact (CW_rd _ W)]|apply rq_peek_next_moved].
Qed.
Lemma RE_copy os c c' : RE false os c -> rq_copy_byte c = Some c' ->
  RE false os c' /\ c_in_state c' = c_in_state c /\ (rq_cs c' < rq_rd c')%nat /\ rq_len c' = rq_len c /\ rq_rd c' = S (rq_rd c) /\ (rq_rd c < rq_len c)%nat.
Proof.
  intros H E. pose proof (RE_CW _ _ H) as W. destruct (CW_copy _ _ E W) as [W' Lt].
  pose proof (rq_copy_byte_nf c c' (CW_wf _ W) (CW_rd _ W) E) as N.
  pose proof (rq_copy_byte_some _ _ E) as (C1 & C2 & C3 & C4 & C5 & C6 & C7 & C8).
  split; [|repeat split; assumption].
  eapply RE_gfr; [exact H|apply nf_gfr; exact N|rewrite (gfr_fault_nf _ _ N); exact (re_fault _ _ _ H)|exact W'].
Qed.
Lemma RE_next os c c' : RE false os c -> rq_next_byte c = Some c' ->
  RE false os c' /\ c_in_state c' = c_in_state c /\ rq_len c' = rq_len c /\ rq_rd c' = S (rq_rd c) /\ (rq_rd c < rq_len c)%nat.
Proof.
  intros H E. pose proof (RE_CW _ _ H) as W. pose proof (CW_next _ _ E W) as W'.
  pose proof (rq_next_byte_nf c c' (CW_wf _ W) (CW_rd _ W) E) as N.
  pose proof (rq_next_byte_some _ _ E) as (C1 & C2 & C3 & C4 & C5 & C6 & C7 & C8).
  split; [|repeat split; assumption].
  eapply RE_gfr; [exact H|apply nf_gfr; exact N|rewrite (gfr_fault_nf _ _ N); exact (re_fault _ _ _ H)|exact W'].
Qed.
Lemma peek_pos c : rq_len (rq_peek_next c) = rq_len c /\ rq_rd (rq_peek_next c) = rq_rd c.
Proof. pose proof (rq_peek_next_pos c) as (P1 & _). unfold rq_pos, rq_len, rq_rd in *. injection P1 as H1 H2 _ _ _. split; assumption. Qed.

(* htp_connp_REQ_LINE *)
Lemma REQ_LINE_loop_safe os n : forall c rc c',
  RE false os c -> c_in_state c = REQ_LINE -> (rq_len c - rq_rd c <= n)%nat -> REQ_LINE_loop cb g n c = (rc, c') -> RPost false os rc c'.
Proof.
  induction n as [|n IH]; intros c rc c' H Es Hn E; cbn [REQ_LINE_loop] in E.
  all: destruct (RE_peek _ _ H) as [H0 S0]; destruct (peek_pos c) as [PL PR]; rewrite Es in S0.
  all: destruct ((c_in_status (rq_peek_next c) =? c_HTP_STREAM_CLOSED) && _); [exact (REQ_LINE_complete_safe os _ rc c' H0 S0 E)|].
  all: destruct (rq_copy_byte (rq_peek_next c)) as [c2|] eqn:Ec; [|injection E as <- <-; apply RPost_of_RE; [exact H0|nb]].
  all: destruct (RE_copy _ _ _ H0 Ec) as (H2 & S2 & _ & L2 & R2 & Lt2); rewrite S0 in S2.
  all: destruct (rq_next_is c2 LF); [exact (REQ_LINE_complete_safe os _ rc c' H2 S2 E)|].
  - exfalso. lia.
  - apply (IH c2 rc c' H2 S2); [lia|exact E].
Qed.
Lemma REQ_LINE_safe os c rc c' :
  RE false os c -> c_in_state c = REQ_LINE -> REQ_LINE_fn cb g c = (rc, c') -> RPost false os rc c'.
Proof. intros H Es E. unfold REQ_LINE_fn in E. eapply REQ_LINE_loop_safe; [exact H|exact Es| |exact E]. unfold rq_len, rq_rd. lia. Qed.
End States.

(* the general form of RE_gfr_state_u (gaps included) *)
Lemma RE_mk gap os c c' s :
  RE gap os c -> gfr (c <| c_in_state := s |>) c' -> c_fault c' = false -> rq_pre c' -> (gap = false -> rq_readable c') ->
  gap_ok gap c' ->
  (armed (c_in c) -> s = REQ_HEADERS \/ s = REQ_FINALIZE) ->
  (uri_state s -> txp c' (c_in_tx c') (fun t => t_parsed_uri t <> None)) ->
  (s <> REQ_IDLE -> s <> REQ_IGNORE_DATA_AFTER_HTTP_0_9 -> c_in_tx c <> None) ->
  RE gap os c'.
Proof.
  intros [A1 A2 A3 [[B1 B2 B3 B4] To] A5 A6 A7] G F P Rd Gk Ha Hu Hi. pose proof G as (G1 & G2 & G3 & G4 & G5 & G6 & G7 & G8).
  unfold ptrs in G3. injection G3 as P1 P2. cbn in G1, G2, P1, P2, G7.
  assert (X : txs_rel tx_le c c') by exact G6.
  constructor; try assumption.
  - split.
    + constructor.
      * rewrite P1. eapply txs_rel_olive; eassumption.
      * rewrite P1. eapply txs_rel_txp; [exact X| |exact B2]. intros t t' [[E _] _]. exact E.
      * intros U. assert (U0 : armed (c_in c)) by (unfold armed, hook_in in *; destruct G4 as [Q|Q]; cbn in Q; congruence).
        rewrite P1, G1. split; [exact (proj1 (B3 U0))|exact (Ha U0)].
      * rewrite G1. exact Hu.
    + eapply TIout_frame; [exact To|exact G2|exact P2|exact G5|]. eapply txs_rel_weaken; [|exact X]. intros t t' [_ E]. exact E.
  - unfold intx_ok. rewrite G1, P1. exact Hi.
  - apply (os_keeps_step os _ c' A7); [exact G7|exact G2|exact G5|exact G8].
Qed.
(* same state *)
Lemma RE_mk_same gap os c c' :
  RE gap os c -> gfr c c' -> c_fault c' = false -> rq_pre c' -> (gap = false -> rq_readable c') -> gap_ok gap c' -> RE gap os c'.
Proof.
  intros H G F P Rd Gk. pose proof H as [A1 A2 A3 [Ti To] A5 A6 A7].
  apply (RE_mk gap os c c' (c_in_state c) H); try assumption.
  - intros U. exact (proj2 (ti_in_armed c Ti U)).
  - intros U. pose proof (ti_in_uri c Ti U) as Q. rewrite (gfr_in_tx _ _ G).
    destruct G as (_ & _ & _ & _ & _ & X & _). eapply txs_rel_txp; [exact X| |exact Q]. intros t t' [[_ E] _]. exact E.
Qed.
Lemma gap_ok_not_armed gap c : ~ armed (c_in c) -> gap_ok gap c.
Proof. intros N _ U. contradiction. Qed.
Lemma gfr_not_armed c c' : gfr c c' -> ~ armed (c_in c) -> ~ armed (c_in c').
Proof. intros (_ & _ & _ & [Q|Q] & _) N U; unfold armed, hook_in in *; [apply N; congruence|congruence]. Qed.
Lemma step_readable c c' rc gap : rq_step_ok c c' rc -> (gap = false -> rq_readable c) -> gap = false -> rq_readable c'.
Proof. intros (S1 & S2 & _) Rd G. specialize (Rd G). unfold rq_readable in *. rewrite S1, S2. exact Rd. Qed.

Ltac gfr_eq := unfold gfr, ptrs; cbn; repeat split; try apply hk_le_refl; try (apply txs_rel_of_eq; [apply tx_le_pre|reflexivity|reflexivity]).

Lemma rq_upd_state_ok c0 i f s :
  c_in_tx c0 = Some i -> live c0 i -> (forall t, tx_le t (f t)) ->
  c_fault (rq_tx_upd f (c0 <| c_in_state := s |>)) = c_fault c0 /\ gfr (c0 <| c_in_state := s |>) (rq_tx_upd f (c0 <| c_in_state := s |>)).
Proof.
  intros Ei L Hf.
  match goal with |- context [rq_tx_upd f ?x] =>
    assert (Ex : c_in_tx x = Some i) by exact Ei; assert (Lx : live x i) by exact L;
    pose proof (rq_tx_upd_fr' x f i Ex Lx Hf) as R end.
  split; [rewrite (frR_fault _ _ _ R); reflexivity|apply fr_gfr; exact R].
Qed.

Section States2.
Variable cb : cb_oracle.
Variable g : cfg.
Hypothesis cb_nodestroy : forall h n, cb h n <> CB_DESTROY_TX.

(* htp_connp_REQ_BODY_CHUNKED_DATA_END *)
Lemma REQ_BODY_CHUNKED_DATA_END_loop_safe os n : forall c rc c',
  RE false os c -> c_in_state c = REQ_BODY_CHUNKED_DATA_END -> (rq_len c - rq_rd c <= n)%nat ->
  REQ_BODY_CHUNKED_DATA_END_loop n c = (rc, c') -> RPost false os rc c'.
Proof.
  induction n as [|n IH]; intros c rc c' H Es Hn E.
  all: pose proof (CW_step _ _ _ (REQ_BODY_CHUNKED_DATA_END_loop_step _ c rc c' (re_pre _ _ _ H) Es Hn E) (RE_CW _ _ H)) as W'.
  all: cbn [REQ_BODY_CHUNKED_DATA_END_loop] in E.
  all: destruct (rq_next_byte c) as [c1|] eqn:En; [|injection E as <- <-; apply RPost_of_RE; [exact H|nb]].
  all: destruct (RE_next _ _ _ H En) as (H1 & S1 & L1 & R1 & Lt1); rewrite Es in S1.
  all: assert (N1 : c_in_tx c1 <> None) by (apply (RE_state_intx _ _ _ H1); rewrite S1; discriminate).
  all: destruct (RE_in_tx_some _ _ _ H1 N1) as (i & Ei & L).
  all: match type of H1 with RE _ _ ?x => match type of E with context [rq_tx_upd ?f x] =>
         pose proof (rq_tx_upd_fr' x f i Ei L ltac:(tx_le_tac)) as R; set (c2 := rq_tx_upd f x) in * end end.
  all: assert (F2 : c_fault c2 = false) by (rewrite (frR_fault _ _ _ R); exact (re_fault _ _ _ H1)).
  all: assert (H2 : RE false os c2) by (eapply RE_fr; eassumption).
  all: assert (S2 : c_in_state c2 = REQ_BODY_CHUNKED_DATA_END) by (rewrite (frR_in_state _ _ _ R); exact S1).
  all: destruct (rq_next_is c2 LF).
  1,3: injection E as <- <-; (apply RPost_of_RE; [|nb]);
       eapply (RE_gfr_state_u os c2 _ REQ_BODY_CHUNKED_LENGTH H2 (gfr_refl _) F2 W');
       [intros U; exfalso; revert U; apply (RE_not_armed _ _ _ H2); rewrite S2; discriminate
       |intros _; apply (RE_uri _ _ _ H2); rewrite S2; exact I
       |intros _ _; apply (RE_state_intx _ _ _ H2); rewrite S2; discriminate].
  - exfalso. lia.
  - apply (IH c2 rc c' H2 S2); [|exact E]. pose proof (frR_core _ _ _ R) as C. destruct (rq_core_fields _ _ C) as (E1 & E2 & E3 & E4 & E5).
    unfold rq_len, rq_rd in *. rewrite E2, E3. lia.
Qed.
Lemma REQ_BODY_CHUNKED_DATA_END_safe os c rc c' :
  RE false os c -> c_in_state c = REQ_BODY_CHUNKED_DATA_END -> REQ_BODY_CHUNKED_DATA_END_fn c = (rc, c') -> RPost false os rc c'.
Proof. intros H Es E. unfold REQ_BODY_CHUNKED_DATA_END_fn in E. eapply REQ_BODY_CHUNKED_DATA_END_loop_safe; [exact H|exact Es| |exact E]. unfold rq_len, rq_rd. lia. Qed.

Lemma RE_consolidate os c : RE false os c -> c_in_tx c <> None ->
  RE false os (snd (fst (req_consolidate_data g c))) /\ c_in_state (snd (fst (req_consolidate_data g c))) = c_in_state c /\
  gfr c (snd (fst (req_consolidate_data g c))).
Proof.
  intros H N. pose proof (RE_CW _ _ H) as W.
  pose proof (req_consolidate_data_nf g c (CW_wf _ W) (CW_rd _ W) N) as N1.
  destruct (RE_nf_moved _ _ _ H N1 (req_consolidate_data_moved g c)) as [H1 S1]. split; [exact H1|split; [exact S1|apply nf_gfr; exact N1]].
Qed.

(* htp_connp_REQ_BODY_CHUNKED_LENGTH *)
Lemma REQ_BODY_CHUNKED_LENGTH_loop_safe os n : forall c rc c',
  RE false os c -> c_in_state c = REQ_BODY_CHUNKED_LENGTH -> (rq_len c - rq_rd c <= n)%nat ->
  REQ_BODY_CHUNKED_LENGTH_loop g n c = (rc, c') -> RPost false os rc c'.
Proof.
  induction n as [|n IH]; intros c rc c' H Es Hn E.
  all: pose proof (CW_step _ _ _ (REQ_BODY_CHUNKED_LENGTH_loop_step g _ c rc c' (re_pre _ _ _ H) Es Hn E) (RE_CW _ _ H)) as W'.
  all: cbn [REQ_BODY_CHUNKED_LENGTH_loop] in E.
  all: destruct (rq_copy_byte c) as [c1|] eqn:Ec; [|injection E as <- <-; apply RPost_of_RE; [exact H|nb]].
  all: destruct (RE_copy _ _ _ H Ec) as (H1 & S1 & _ & L1 & R1 & Lt1); rewrite Es in S1.
  all: destruct (rq_next_is c1 LF).
  2: exfalso; lia.
  3: apply (IH c1 rc c' H1 S1); [lia|exact E].
  all: assert (N1 : c_in_tx c1 <> None) by (apply (RE_state_intx _ _ _ H1); rewrite S1; discriminate).
  all: destruct (RE_consolidate _ _ H1 N1) as (H2 & S2 & _); rewrite S1 in S2.
  all: destruct (req_consolidate_data g c1) as [[rc2 c2] data]; cbn [fst snd] in *.
  all: destruct rc2; try (injection E as <- <-; apply RPost_of_RE; [exact H2|nb]).
  all: assert (N2 : c_in_tx c2 <> None) by (apply (RE_state_intx _ _ _ H2); rewrite S2; discriminate).
  all: destruct (RE_in_tx_some _ _ _ H2 N2) as (i & Ei & L).
  all: match type of H2 with RE _ _ ?x => match type of E with context [rq_tx_upd ?f x] =>
         pose proof (rq_tx_upd_fr' x f i Ei L ltac:(tx_le_tac)) as R; set (c3 := rq_tx_upd f x) in * end end.
  all: assert (H3 : RE false os c3) by (eapply RE_fr; eassumption).
  all: assert (S3 : c_in_state c3 = REQ_BODY_CHUNKED_LENGTH) by (rewrite (frR_in_state _ _ _ R); exact S2).
  all: assert (E3 : c_in_tx c3 = Some i) by (rewrite (frR_in_tx _ _ _ R); exact Ei).
  all: assert (L3 : live c3 i) by (eapply frR_live; eassumption).
  all: destruct (parse_chunked_length (htp_chomp data)) as [v junk].
  all: set (c4 := req_clear_buffer (c3 <| c_in_chunked_length := v |>)) in *.
  all: assert (G4 : gfr c3 c4) by (subst c4; gfr_eq).
  all: assert (F4 : c_fault c4 = false) by exact (re_fault _ _ _ H3).
  all: assert (Na : ~ armed (c_in c3)) by (apply (RE_not_armed _ _ _ H3); rewrite S3; discriminate).
  all: assert (Hu : txp c3 (c_in_tx c3) (fun t => t_parsed_uri t <> None)) by (apply (RE_uri _ _ _ H3); rewrite S3; exact I).
  all: assert (N3 : c_in_tx c3 <> None) by congruence.
  all: destruct (0 <? v).
  1,3: injection E as <- <-; (apply RPost_of_RE; [|nb]);
       eapply (RE_gfr_state os c3 _ REQ_BODY_CHUNKED_DATA H3); try (intros; assumption || contradiction); try exact F4; subst c4; gfr_eq.
  all: destruct (v =? 0); injection E as <- <-.
  2,4: apply RPost_bad; [exact F4|notok].
  all: match goal with |- context [rq_tx_upd ?f (_ <| c_in_state := REQ_HEADERS |>)] =>
         destruct (rq_upd_state_ok c4 i f REQ_HEADERS E3 L3 ltac:(tx_le_tac)) as [F5 G5] end.
  all: (apply RPost_of_RE; [|nb]); eapply (RE_gfr_state os c3 _ REQ_HEADERS H3); try (intros; assumption || contradiction); try tauto.
  all: try (rewrite F5; exact F4).
  all: eapply gfr_trans; [apply gfr_set_in_state; exact G4|exact G5].
Qed.
Lemma REQ_BODY_CHUNKED_LENGTH_safe os c rc c' :
  RE false os c -> c_in_state c = REQ_BODY_CHUNKED_LENGTH -> REQ_BODY_CHUNKED_LENGTH_fn g c = (rc, c') -> RPost false os rc c'.
Proof. intros H Es E. unfold REQ_BODY_CHUNKED_LENGTH_fn in E. eapply REQ_BODY_CHUNKED_LENGTH_loop_safe; [exact H|exact Es| |exact E]. unfold rq_len, rq_rd. lia. Qed.

(* the common part of REQ_BODY_IDENTITY / REQ_BODY_CHUNKED_DATA *)
Lemma rq_consume_body_safe gap os c n rc c' :
  RE gap os c -> (k_data (c_in c) = None -> k_read (c_in c) = O) -> (n <= rq_len c - rq_rd c)%nat -> c_in_tx c <> None ->
  rq_consume_body cb n c = (rc, c') -> c_fault c' = false /\ gfr c c'.
Proof.
  intros H Dn Hn N E. pose proof (re_fault _ _ _ H) as F. destruct (RE_in_tx_some _ _ _ H N) as (i & Ei & L).
  destruct (re_pre _ _ _ H) as [(W1 & W2 & W3) _]. unfold rq_len, rq_rd, rq_cs in *.
  unfold rq_consume_body in E.
  assert (S1 : exists c1 data, (match k_data (c_in c) with
                                | Some _ => let '(c0, d) := rq_slice c (k_read (c_in c)) (k_read (c_in c) + n) in (c0, Some d)
                                | None => (if (k_read (c_in c) =? 0)%nat then c else rq_fault c, None)
                                end) = (c1, data) /\ nf c c1).
  { destruct (k_data (c_in c)) as [d|] eqn:Ed.
    - pose proof (rq_slice_nf c (k_read (c_in c)) (k_read (c_in c) + n)) as Q. rewrite Ed in Q. specialize (Q ltac:(lia)).
      destruct (rq_slice c (k_read (c_in c)) (k_read (c_in c) + n)) as [c0 d0]. exists c0, (Some d0). split; [reflexivity|exact Q].
    - rewrite (Dn eq_refl). exists c, None. split; [reflexivity|apply nf_refl]. }
  destruct S1 as (c1 & data & Eq & N1). rewrite Eq in E. clear Eq.
  pose proof (nf_gfr _ _ N1) as G1. assert (F1 : c_fault c1 = false) by (rewrite (gfr_fault_nf _ _ N1); exact F).
  assert (E1 : c_in_tx c1 = Some i) by (rewrite (gfr_in_tx _ _ G1); exact Ei).
  assert (L1 : live c1 i) by (eapply gfr_live; eassumption).
  unfold rq_with_tx in E. rewrite E1 in E.
  pose proof (tx_req_process_body_data_ex_fr cb cb_nodestroy i data n c1 L1 ltac:(rewrite E1; exact L1)) as R2.
  destruct (tx_req_process_body_data_ex cb i data n c1) as [rc2 c2]. cbn [snd] in R2.
  assert (F2 : c_fault c2 = false) by (rewrite (frR_fault _ _ _ R2); exact F1).
  pose proof (gfr_trans _ _ _ G1 (fr_gfr _ _ R2)) as G2.
  destruct rc2; try (injection E as <- <-; split; [exact F2|exact G2]).
  injection E as <- <-.
  set (c3 := rq_set_in _ c2).
  assert (N3 : nf c2 c3) by (split; reflexivity).
  pose proof (nf_gfr _ _ N3) as G3. assert (F3 : c_fault c3 = false) by (rewrite (gfr_fault_nf _ _ N3); exact F2).
  assert (E3 : c_in_tx c3 = Some i) by (rewrite (gfr_in_tx _ _ G3), (frR_in_tx _ _ _ R2); exact E1).
  assert (L3 : live c3 i) by (eapply gfr_live; [exact G3|eapply frR_live; eassumption]).
  match goal with |- context [rq_tx_upd ?f c3] => pose proof (rq_tx_upd_fr' c3 f i E3 L3 ltac:(tx_le_tac)) as R4 end.
  split; [rewrite (frR_fault _ _ _ R4); exact F3|].
  eapply gfr_trans; [exact G2|]. eapply gfr_trans; [exact G3|apply fr_gfr; exact R4].
Qed.

Lemma RE_dnull gap os c : RE gap os c -> (gap = true -> k_read (c_in c) = O) -> k_data (c_in c) = None -> k_read (c_in c) = O.
Proof.
  intros H Hg Ed. destruct gap; [apply Hg; reflexivity|].
  pose proof (re_readable _ _ _ H eq_refl Ed) as Q. destruct (re_pre _ _ _ H) as [(W1 & _) _]. unfold rq_len, rq_rd in *. lia.
Qed.

(* htp_connp_REQ_BODY_IDENTITY (also runs during gaps) *)
Lemma REQ_BODY_IDENTITY_safe gap os c rc c' :
  RI gap os c -> c_in_state c = REQ_BODY_IDENTITY -> REQ_BODY_IDENTITY_fn cb c = (rc, c') -> RPost gap os rc c'.
Proof.
  intros [H Gh] Es E.
  pose proof (REQ_BODY_IDENTITY_fn_step cb c rc c' (re_pre _ _ _ H) Es E) as St.
  assert (N : c_in_tx c <> None) by (apply (RE_state_intx _ _ _ H); rewrite Es; discriminate).
  assert (Na : ~ armed (c_in c)) by (apply (RE_not_armed _ _ _ H); rewrite Es; discriminate).
  assert (Dn : k_data (c_in c) = None -> k_read (c_in c) = O) by (apply (RE_dnull _ _ _ H); intros G; exact (Gh G (or_introl Es))).
  unfold REQ_BODY_IDENTITY_fn in E.
  destruct (rq_bytes_to_consume_spec c (c_in_body_data_left c) (re_pre _ _ _ H)) as (B1 & _).
  destruct (_ =? 0)%nat.
  { injection E as <- <-. split; [exact (re_fault _ _ _ H)|split; [intros _; exact H|split; intros Q; discriminate]]. }
  destruct (rq_consume_body cb (rq_bytes_to_consume c (c_in_body_data_left c)) c) as [rc1 c1] eqn:Ec.
  destruct (rq_consume_body_safe gap os c _ rc1 c1 H Dn B1 N Ec) as [F1 G1].
  destruct St as (T1 & T2 & T3 & T4 & T5).
  assert (Rd' : gap = false -> rq_readable c').
  { intros Q. pose proof (re_readable _ _ _ H Q) as Rd. unfold rq_readable in *. rewrite T1, T2. exact Rd. }
  assert (Fin : forall c2, gfr c1 c2 -> c_fault c2 = false -> c' = c2 -> rc <> ST_OK -> RPost gap os rc c').
  { intros c2 G2 F2 -> Hrc. pose proof (gfr_trans _ _ _ G1 G2) as G.
    assert (R : RE gap os c2).
    { apply (RE_mk_same gap os c c2 H G F2 T4 Rd'). apply gap_ok_not_armed. eapply gfr_not_armed; eassumption. }
    split; [exact F2|split; [intros _; exact R|split; [intros Q; contradiction|intros _; rewrite (gfr_in_tx _ _ G); exact N]]]. }
  destruct rc1; try (injection E as <- <-; apply (Fin c1 (gfr_refl c1) F1 eq_refl); discriminate).
  set (c2 := c1 <| c_in_body_data_left ::= _ |>) in *.
  assert (G2 : gfr c1 c2) by (subst c2; gfr_eq).
  destruct (c_in_body_data_left c2 =? 0); injection E as <- <-.
  - assert (G3 : gfr (c <| c_in_state := REQ_FINALIZE |>) (c2 <| c_in_state := REQ_FINALIZE |>)).
    { apply gfr_set_in_state. eapply gfr_trans; eassumption. }
    assert (R : RE gap os (c2 <| c_in_state := REQ_FINALIZE |>)).
    { apply (RE_mk gap os c _ REQ_FINALIZE H G3 F1 T4 Rd').
      - apply gap_ok_not_armed. eapply gfr_not_armed; [exact G3|exact Na].
      - intros U. contradiction.
      - intros U. contradiction.
      - intros _ _. exact N. }
    split; [exact F1|split; [intros _; exact R|split; [intros _ Q [S2|S2]; discriminate S2|intros Q; discriminate]]].
  - apply (Fin c2 G2 F1 eq_refl). discriminate.
Qed.

(* htp_connp_REQ_BODY_CHUNKED_DATA *)
Lemma REQ_BODY_CHUNKED_DATA_safe os c rc c' :
  RE false os c -> c_in_state c = REQ_BODY_CHUNKED_DATA -> REQ_BODY_CHUNKED_DATA_fn cb c = (rc, c') -> RPost false os rc c'.
Proof.
  intros H Es E.
  pose proof (REQ_BODY_CHUNKED_DATA_fn_step cb c rc c' (re_pre _ _ _ H) Es E) as St.
  pose proof (CW_step _ _ _ St (RE_CW _ _ H)) as W'.
  assert (N : c_in_tx c <> None) by (apply (RE_state_intx _ _ _ H); rewrite Es; discriminate).
  assert (Na : ~ armed (c_in c)) by (apply (RE_not_armed _ _ _ H); rewrite Es; discriminate).
  assert (Hu : txp c (c_in_tx c) (fun t => t_parsed_uri t <> None)) by (apply (RE_uri _ _ _ H); rewrite Es; exact I).
  assert (Dn : k_data (c_in c) = None -> k_read (c_in c) = O) by (apply (RE_dnull _ _ _ H); discriminate).
  unfold REQ_BODY_CHUNKED_DATA_fn in E.
  destruct (rq_bytes_to_consume_spec c (c_in_chunked_length c) (re_pre _ _ _ H)) as (B1 & _).
  destruct (_ =? 0)%nat; [injection E as <- <-; apply RPost_of_RE; [exact H|nb]|].
  destruct (rq_consume_body cb (rq_bytes_to_consume c (c_in_chunked_length c)) c) as [rc1 c1] eqn:Ec.
  destruct (rq_consume_body_safe false os c _ rc1 c1 H Dn B1 N Ec) as [F1 G1].
  assert (Fin : forall c2, gfr c1 c2 -> c_fault c2 = false -> c' = c2 -> RPost false os rc c').
  { intros c2 G2 F2 ->. apply RPost_of_RE; [|intros _; rewrite (proj1 G2), (proj1 G1), Es; split; discriminate].
    eapply RE_gfr; [exact H|eapply gfr_trans; eassumption|exact F2|exact W']. }
  destruct rc1; try (injection E as <- <-; apply (Fin c1 (gfr_refl c1) F1 eq_refl)).
  set (c2 := c1 <| c_in_chunked_length ::= _ |>) in *.
  assert (G2 : gfr c1 c2) by (subst c2; gfr_eq).
  destruct (c_in_chunked_length c2 =? 0); injection E as <- <-.
  - (apply RPost_of_RE; [|nb]). eapply (RE_gfr_state os c _ REQ_BODY_CHUNKED_DATA_END H); try (intros; assumption || contradiction); try exact F1.
    apply gfr_set_in_state. eapply gfr_trans; eassumption.
  - apply (Fin c2 G2 F1 eq_refl).
Qed.
End States2.

(* RE_mk with the receiver condition on the final state *)
Lemma RE_mk2 gap os c c' s :
  RE gap os c -> gfr (c <| c_in_state := s |>) c' -> c_fault c' = false -> rq_pre c' -> (gap = false -> rq_readable c') ->
  gap_ok gap c' ->
  (armed (c_in c') -> s = REQ_HEADERS \/ s = REQ_FINALIZE) ->
  (uri_state s -> txp c' (c_in_tx c') (fun t => t_parsed_uri t <> None)) ->
  (s <> REQ_IDLE -> s <> REQ_IGNORE_DATA_AFTER_HTTP_0_9 -> c_in_tx c <> None) ->
  RE gap os c'.
Proof.
  intros [A1 A2 A3 [[B1 B2 B3 B4] To] A5 A6 A7] G F P Rd Gk Ha Hu Hi. pose proof G as (G1 & G2 & G3 & G4 & G5 & G6 & G7 & G8).
  unfold ptrs in G3. injection G3 as P1 P2. cbn in G1, G2, P1, P2, G7.
  assert (X : txs_rel tx_le c c') by exact G6.
  constructor; try assumption.
  - split.
    + constructor.
      * rewrite P1. eapply txs_rel_olive; eassumption.
      * rewrite P1. eapply txs_rel_txp; [exact X| |exact B2]. intros t t' [[E _] _]. exact E.
      * intros U. assert (U0 : armed (c_in c)) by (unfold armed, hook_in in *; destruct G4 as [Q|Q]; cbn in Q; congruence).
        rewrite P1, G1. split; [exact (proj1 (B3 U0))|exact (Ha U)].
      * rewrite G1. exact Hu.
    + eapply TIout_frame; [exact To|exact G2|exact P2|exact G5|]. eapply txs_rel_weaken; [|exact X]. intros t t' [_ E]. exact E.
  - unfold intx_ok. rewrite G1, P1. exact Hi.
  - apply (os_keeps_step os _ c' A7); [exact G7|exact G2|exact G5|exact G8].
Qed.

(* a step that keeps the fault flag and the TI frame *)
Definition ss (c c' : connp) : Prop := gfr c c' /\ c_fault c' = c_fault c.
Lemma ss_refl c : ss c c. Proof. split; [apply gfr_refl|reflexivity]. Qed.
Lemma ss_trans a b c : ss a b -> ss b c -> ss a c.
Proof. intros [A1 A2] [B1 B2]. split; [eapply gfr_trans; eassumption|congruence]. Qed.
Lemma nf_ss a b : nf a b -> ss a b.
Proof. intros N. split; [apply nf_gfr; exact N|exact (proj1 N)]. Qed.
Lemma fr_ss a b : fr a b -> ss a b.
Proof. intros R. split; [apply fr_gfr; exact R|exact (frR_fault _ _ _ R)]. Qed.
Lemma RE_ss os c c' : RE false os c -> ss c c' -> rq_moved c c' -> RE false os c' /\ c_in_state c' = c_in_state c.
Proof.
  intros H [G F] M. split; [|destruct M as (_ & S & _); exact S].
  eapply RE_gfr; [exact H|exact G|rewrite F; exact (re_fault _ _ _ H)|eapply CW_moved; [exact M|exact (RE_CW _ _ H)]].
Qed.
Lemma ss_in_tx a b i : ss a b -> c_in_tx a = Some i -> live a i -> c_in_tx b = Some i /\ live b i.
Proof. intros [G _] E L. split; [rewrite (gfr_in_tx _ _ G); exact E|eapply gfr_live; eassumption]. Qed.


Section States3.
Variable cb : cb_oracle.
Variable g : cfg.
Hypothesis cb_nodestroy : forall h n, cb h n <> CB_DESTROY_TX.

Lemma rq_process_header_ss l c i : c_in_tx c = Some i -> live c i -> ss c (rq_process_header l c).
Proof.
  intros E L. apply fr_ss. unfold rq_process_header. apply (rq_tx_upd_fr' c _ i E L).
  intros t. apply tx_le_of_prog3. apply prog3_process_request_header.
Qed.
Lemma rq_flush_header_ss c i : c_in_tx c = Some i -> live c i -> ss c (rq_flush_header c).
Proof.
  intros E L. unfold rq_flush_header. destruct (k_header (c_in c)) as [h|]; [|apply ss_refl].
  eapply ss_trans; [apply (rq_process_header_ss h c i E L)|apply nf_ss; apply rq_set_header_nf].
Qed.

(* htp_tx_state_request_headers applied to in_tx in state REQ_HEADERS *)
Lemma headers_end_safe os c rc c' :
  RE false os c -> c_in_state c = REQ_HEADERS -> rq_with_tx (tx_state_request_headers cb) c = (rc, c') -> CW c' -> RPost false os rc c'.
Proof.
  intros H Es E W'.
  assert (N : c_in_tx c <> None) by (apply (RE_state_intx _ _ _ H); rewrite Es; discriminate).
  destruct (RE_in_tx_some _ _ _ H N) as (i & Ei & L).
  assert (Hu : txp c (Some i) (fun t => t_parsed_uri t <> None)) by (rewrite <- Ei; apply (RE_uri _ _ _ H); rewrite Es; exact I).
  unfold rq_with_tx in E. rewrite Ei in E.
  destruct (request_headers_safe cb cb_nodestroy i c (re_fault _ _ _ H) L Hu (RE_sendok _ _ _ H)) as (F' & Hok & Hno).
  rewrite E in *. cbn [fst snd] in *.
  assert (KeepU : forall s, gfr (c <| c_in_state := s |>) c' -> txp c' (c_in_tx c') (fun t => t_parsed_uri t <> None)).
  { intros s G. rewrite (gfr_in_tx _ _ G). change (c_in_tx (c <| c_in_state := s |>)) with (c_in_tx c). rewrite Ei.
    destruct G as (_ & _ & _ & _ & _ & X & _). eapply txs_rel_txp; [exact X| |exact Hu]. intros a b [[_ Q] _]. exact Q. }
  destruct rc.
  2-7: (apply RPost_of_RE; [|intros _; rewrite (frR_in_state _ _ _ (Hno ltac:(discriminate))), Es; split; discriminate]); eapply RE_gfr; [exact H|apply fr_gfr; apply Hno; discriminate|exact F'|exact W'].
  destruct (Hok eq_refl) as [Hh [R|R]]; (apply RPost_of_RE; [|nb]).
  - apply (RE_mk2 false os c c' REQ_FINALIZE H (fr_gfr _ _ R) F' (proj1 W') (fun _ => proj2 W')).
    + intros Q. discriminate.
    + intros _. right. reflexivity.
    + intros [].
    + intros _ _. exact N.
  - apply (RE_mk2 false os c c' REQ_CONNECT_CHECK H (fr_gfr _ _ R) F' (proj1 W') (fun _ => proj2 W')).
    + intros Q. discriminate.
    + intros U. exfalso. unfold armed, hook_in in *. congruence.
    + intros _. apply (KeepU REQ_CONNECT_CHECK). apply fr_gfr. exact R.
    + intros _ _. exact N.
Qed.

Definition REs (os : octx) (c c' : connp) : Prop := RE false os c' /\ c_in_state c' = c_in_state c.
Lemma REs_trans os a b c : REs os a b -> REs os b c -> REs os a c.
Proof. intros [A1 A2] [B1 B2]. split; [exact B1|congruence]. Qed.
Lemma RE_in_some os c : RE false os c -> c_in_state c = REQ_HEADERS -> exists i, c_in_tx c = Some i /\ live c i.
Proof. intros H Es. apply (RE_in_tx_some _ _ _ H). apply (RE_state_intx _ _ _ H); rewrite Es; discriminate. Qed.

Lemma RE_flush os c : RE false os c -> c_in_state c = REQ_HEADERS -> REs os c (rq_flush_header c).
Proof. intros H Es. destruct (RE_in_some _ _ H Es) as (i & Ei & L). apply (RE_ss os c _ H (rq_flush_header_ss c i Ei L) (rq_flush_header_moved c)). Qed.
Lemma RE_process_header os l c : RE false os c -> c_in_state c = REQ_HEADERS -> REs os c (rq_process_header l c).
Proof. intros H Es. destruct (RE_in_some _ _ H Es) as (i & Ei & L). apply (RE_ss os c _ H (rq_process_header_ss l c i Ei L) (rq_process_header_moved l c)). Qed.
Lemma RE_set_header os h c : RE false os c -> REs os c (rq_set_in (fun k => k <| k_header := h |>) c).
Proof. intros H. apply (RE_ss os c _ H (nf_ss _ _ (rq_set_header_nf c h)) (rq_set_header_moved c h)). Qed.
Lemma RE_clear_buffer os c : RE false os c -> REs os c (req_clear_buffer c).
Proof. intros H. apply (RE_ss os c _ H (nf_ss _ _ (req_clear_buffer_nf c)) (req_clear_buffer_moved c)). Qed.
Lemma RE_peek' os c : RE false os c -> REs os c (rq_peek_next c).
Proof. intros H. exact (RE_peek os c H). Qed.
Lemma RE_tx_upd os f c : RE false os c -> c_in_state c = REQ_HEADERS -> (forall t, tx_le t (f t)) -> REs os c (rq_tx_upd f c).
Proof.
  intros H Es Hf. destruct (RE_in_some _ _ H Es) as (i & Ei & L).
  apply (RE_ss os c _ H (fr_ss _ _ (rq_tx_upd_fr' c f i Ei L Hf)) (rq_tx_upd_moved f c)).
Qed.

(* one complete header line *)
Lemma rq_header_line_safe os c ret c2 :
  RE false os c -> c_in_state c = REQ_HEADERS -> rq_header_line cb g c = (ret, c2) ->
  match ret with
  | Some (rc, c') => RPost false os rc c'
  | None => RE false os c2 /\ c_in_state c2 = REQ_HEADERS
  end.
Proof.
  intros H Es E. pose proof (rq_header_line_step cb g c ret c2 (re_pre _ _ _ H) E) as St.
  unfold rq_header_line in E.
  assert (N : c_in_tx c <> None) by (apply (RE_state_intx _ _ _ H); rewrite Es; discriminate).
  destruct (RE_consolidate g os c H N) as (H1 & S1 & _). rewrite Es in S1.
  destruct (req_consolidate_data g c) as [[rc1 c1] data]. cbn [fst snd] in *.
  destruct rc1; try (injection E as <- <-; apply RPost_of_RE; [exact H1|nb]).
  destruct (htp_is_line_terminator (g_personality g) data false).
  { destruct (RE_flush os c1 H1 S1) as [H2 S2]. rewrite S1 in S2.
    destruct (RE_clear_buffer os _ H2) as [H3 S3]. rewrite S2 in S3.
    injection E as <- <-. destruct (rq_with_tx (tx_state_request_headers cb) _) as [rc4 c4] eqn:E4.
    apply (headers_end_safe os _ rc4 c4 H3 S3 E4). eapply CW_step; [exact St|exact (RE_CW _ _ H)]. }
  injection E as <- <-.
  assert (Fin : forall cx, REs os c1 cx -> RE false os (req_clear_buffer cx) /\ c_in_state (req_clear_buffer cx) = REQ_HEADERS).
  { intros cx [Hx Sx]. destruct (RE_clear_buffer os cx Hx) as [Hy Sy]. split; [exact Hy|congruence]. }
  destruct (htp_is_line_folded (htp_chomp data) =? 0).
  - destruct (RE_flush os c1 H1 S1) as [H2 S2]. destruct (RE_peek' os _ H2) as [H3 S3].
    assert (S3' : c_in_state (rq_peek_next (rq_flush_header c1)) = REQ_HEADERS) by congruence.
    assert (R3 : REs os c1 (rq_peek_next (rq_flush_header c1))) by (split; [exact H3|congruence]).
    destruct (k_next_byte (c_in (rq_peek_next (rq_flush_header c1)))) as [b|].
    + destruct (negb (htp_is_folding_char b)); apply Fin; (eapply REs_trans; [exact R3|]).
      * apply RE_process_header; assumption.
      * apply RE_set_header; assumption.
    + apply Fin. eapply REs_trans; [exact R3|]. apply RE_set_header; assumption.
  - destruct (k_header (c_in c1)) as [h|].
    + destruct (_ <? c_HTP_MAX_HEADER_FOLDED); apply Fin; [apply RE_set_header; exact H1|split; [exact H1|reflexivity]].
    + apply Fin. match goal with |- context [rq_tx_upd ?f c1] => pose proof (RE_tx_upd os f c1 H1 S1 ltac:(tx_le_tac)) as R4 end.
      eapply REs_trans; [exact R4|]. apply RE_set_header. exact (proj1 R4).
Qed.

(* htp_connp_REQ_HEADERS *)
Lemma REQ_HEADERS_loop_safe os n : forall c rc c',
  RE false os c -> c_in_state c = REQ_HEADERS -> (rq_len c - rq_rd c <= n)%nat -> REQ_HEADERS_loop cb g n c = (rc, c') -> RPost false os rc c'.
Proof.
  induction n as [|n IH]; intros c rc c' H Es Hn E.
  all: pose proof (CW_step _ _ _ (REQ_HEADERS_loop_step cb g _ c rc c' (re_pre _ _ _ H) Hn E) (RE_CW _ _ H)) as W'.
  all: cbn [REQ_HEADERS_loop] in E.
  all: destruct (c_in_status c =? c_HTP_STREAM_CLOSED).
  1,3: destruct (RE_flush os c H Es) as [H2 S2]; rewrite Es in S2;
       destruct (RE_clear_buffer os _ H2) as [H3 S3]; rewrite S2 in S3;
       match type of E with context [rq_tx_upd ?f ?x] => destruct (RE_tx_upd os f x H3 S3 ltac:(tx_le_tac)) as [H4 S4] end;
       rewrite S3 in S4; exact (headers_end_safe os _ rc c' H4 S4 E W').
  all: destruct (rq_copy_byte c) as [c1|] eqn:Ec; [|injection E as <- <-; apply RPost_of_RE; [exact H|nb]].
  all: destruct (RE_copy _ _ _ H Ec) as (H1 & S1 & _ & L1 & R1 & Lt1); rewrite Es in S1.
  all: destruct (rq_next_is c1 LF).
  1,3: destruct (rq_header_line cb g c1) as [ret c2] eqn:El;
       pose proof (rq_header_line_safe os c1 ret c2 H1 S1 El) as Q;
       pose proof (rq_header_line_step cb g c1 ret c2 (re_pre _ _ _ H1) El) as M;
       destruct ret as [[rc3 c3]|]; [injection E as <- <-; exact Q|].
  all: try (exfalso; lia).
  - destruct Q as [H2 S2]. apply (IH c2 rc c' H2 S2); [|exact E].
    destruct M as (P & _). unfold rq_pos, rq_len, rq_rd in *. injection P as P1 P2 _ _ _. lia.
  - apply (IH c1 rc c' H1 S1); [lia|exact E].
Qed.
Lemma REQ_HEADERS_safe os c rc c' :
  RE false os c -> c_in_state c = REQ_HEADERS -> REQ_HEADERS_fn cb g c = (rc, c') -> RPost false os rc c'.
Proof. intros H Es E. unfold REQ_HEADERS_fn in E. eapply REQ_HEADERS_loop_safe; [exact H|exact Es| |exact E]. unfold rq_len, rq_rd. lia. Qed.
End States3.

Lemma hookrc_not_ok rc : rq_hookrc rc -> okrc rc -> rc = ST_OK.
Proof. unfold rq_hookrc, okrc. intros [->|[->| ->]] [Q|[Q|[Q|Q]]]; congruence. Qed.

Section States4.
Variable cb : cb_oracle.
Variable g : cfg.
Hypothesis cb_nodestroy : forall h n, cb h n <> CB_DESTROY_TX.

(* htp_tx_state_request_complete applied to in_tx (REQ_FINALIZE, REQ_CONNECT_PROBE_DATA, gaps) *)
Lemma req_complete_safe gap os c rc c' :
  RE gap os c -> c_in_tx c <> None -> rq_request_complete cb g c = (rc, c') -> RPost gap os rc c'.
Proof.
  intros H N E. destruct (rq_request_complete_step cb g c rc c' (re_pre _ _ _ H) E) as [St Hrc].
  destruct (RE_in_tx_some _ _ _ H N) as (i & Ei & L).
  unfold rq_request_complete, rq_with_tx in E. rewrite Ei in E.
  pose proof H as [A1 A2 A3 [Ti To] A5 A6 A7].
  pose proof (ti_in_prog c Ti) as Pq.
  destruct (request_complete_safe cb g cb_nodestroy i c A1 L Ei (RE_sendok _ _ _ H) To Pq) as (F' & To' & Fx & Po & Hok).
  rewrite E in *. cbn [fst snd] in *.
  split; [exact F'|]. split.
  - intros Ok. pose proof (hookrc_not_ok _ Hrc Ok) as ->. destruct (Hok eq_refl) as (I1 & I2 & I3).
    destruct St as (T1 & T2 & T3 & T4 & T5). destruct Fx as (Sk & _ & HoX & _).
    constructor.
    + exact F'.
    + exact T4.
    + intros Q. pose proof (A3 Q) as Rd. unfold rq_readable in *. rewrite T1, T2. exact Rd.
    + split; [|exact To']. constructor; unfold armed, olive, txp; rewrite ?I1; try exact I.
      * intros U. unfold hook_in in I2. congruence.
      * intros _. exact I.
    + intros Q1 Q2. destruct I3; contradiction.
    + intros _ U. unfold armed, hook_in in *. congruence.
    + apply (os_keeps_step os c c' A7); [(apply skel_out_status in Sk; exact Sk)|exact (nost_out_state _ _ Sk)|exact HoX|exact (nost_cur_out _ _ Sk)].
  - split.
    + intros -> _ Q. destruct (Hok eq_refl) as (_ & _ & [I3|I3]); destruct Q as [Q|Q]; rewrite I3 in Q; discriminate.
    + intros ->. exfalso. destruct Hrc as [Q|[Q|Q]]; discriminate.
Qed.

(* ---- htp_connp_tx_create ---- *)
Lemma tx_create_none c c1 : connp_tx_create g c = (None, c1) -> c_fault c1 = c_fault c.
Proof.
  unfold connp_tx_create. set (c0 := if (_ <? _)%nat then _ else c).
  assert (E0 : c_fault c0 = c_fault c) by (subst c0; destruct (_ <? _)%nat; reflexivity).
  destruct (_ && _); [|discriminate]. intros Q. injection Q as <-. exact E0.
Qed.
Lemma tx_create_fields c i c1 : connp_tx_create g c = (Some i, c1) ->
  c_fault c1 = c_fault c /\ c_in_tx c1 = Some i /\ c_out_tx c1 = c_out_tx c /\ c_in_state c1 = c_in_state c /\
  c_out_state c1 = c_out_state c /\ c_in c1 = c_in c /\ c_out c1 = c_out c /\ c_out_status c1 = c_out_status c /\ c_in_status c1 = c_in_status c.
Proof.
  unfold connp_tx_create. set (c0 := if (_ <? _)%nat then _ else c).
  assert (E0 : c_fault c0 = c_fault c /\ c_out_tx c0 = c_out_tx c /\ c_in_state c0 = c_in_state c /\ c_out_state c0 = c_out_state c /\
               c_in c0 = c_in c /\ c_out c0 = c_out c /\ c_out_status c0 = c_out_status c /\ c_in_status c0 = c_in_status c /\ c_txs_shifted c0 = c_txs_shifted c)
    by (subst c0; destruct (_ <? _)%nat; repeat split; reflexivity).
  destruct E0 as (E1 & E2 & E3 & E4 & E5 & E6 & E7 & E8 & E9).
  destruct (_ && _); [discriminate|]. intros Q. injection Q as <- <-. cbn. rewrite E9. repeat split; assumption.
Qed.
Lemma tx_create_old_slot c i c1 j : connp_tx_create g c = (Some i, c1) -> live c j -> tx_slot c1 j = tx_slot c j.
Proof.
  intros E L. destruct (tx_create_slot g c i c1 j E) as [Ei Es]. rewrite Es.
  destruct (live_range c j L) as [L1 L2]. replace (j =? i)%nat with false by (symmetry; apply Nat.eqb_neq; lia). reflexivity.
Qed.
Lemma tx_create_TIout c i c1 : connp_tx_create g c = (Some i, c1) -> TIout c -> TIout c1.
Proof.
  intros E [A1 A2 A3]. destruct (tx_create_fields c i c1 E) as (F1 & F2 & F3 & F4 & F5 & F6 & F7 & F8 & F9).
  constructor; unfold armed, olive, txp, live in *; rewrite ?F3, ?F5, ?F7.
  - destruct (c_out_tx c) as [o|]; [|exact I]. rewrite (tx_create_old_slot c i c1 o E A1). exact A1.
  - intros U. destruct (A2 U) as [B1 B2]. split; [exact B1|]. destruct (c_out_tx c) as [o|]; [|exact I].
    rewrite (tx_create_old_slot c i c1 o E A1). exact B2.
  - exact A3.
Qed.

(* htp_connp_REQ_IDLE *)
Lemma REQ_IDLE_safe os c rc c' :
  RE false os c -> c_in_state c = REQ_IDLE -> REQ_IDLE_fn cb g c = (rc, c') -> RPost false os rc c'.
Proof.
  intros H Es E. pose proof (RE_CW _ _ H) as W.
  pose proof (CW_step _ _ _ (REQ_IDLE_fn_step cb g c rc c' (proj1 W) Es E) W) as W'.
  pose proof H as [A1 A2 A3 [Ti To] A5 A6 A7].
  assert (Na : ~ armed (c_in c)) by (apply (RE_not_armed _ _ _ H); rewrite Es; discriminate).
  unfold REQ_IDLE_fn in E. destruct (rq_at_end c); [injection E as <- <-; apply RPost_of_RE; [exact H|nb]|].
  destruct (connp_tx_create g c) as [[i|] c1] eqn:Ec.
  2: { injection E as <- <-. apply RPost_bad; [cbn; rewrite (tx_create_none c c1 Ec); exact A1|notok]. }
  destruct (tx_create_fields c i c1 Ec) as (F1 & F2 & F3 & F4 & F5 & F6 & F7 & F8 & F9).
  destruct (tx_create_slot g c i c1 i Ec) as [Ei Esl]. rewrite Nat.eqb_refl in Esl.
  assert (L1 : live c1 i) by (unfold live; congruence).
  assert (Fc1 : c_fault c1 = false) by congruence.
  destruct (request_start_safe cb cb_nodestroy i c1 Fc1 L1 F2) as (F' & Hok & Hno).
  rewrite E in *. cbn [fst snd] in *.
  assert (Hrc : rq_hookrc rc).
  { pose proof (tx_state_request_start_spec cb i c1) as Sp. cbv zeta in Sp. rewrite E in Sp. exact (proj1 (proj2 Sp)). }
  split; [exact F'|]. split; [|split; [intros _ Q; discriminate|intros ->; exfalso; destruct Hrc as [Q|[Q|Q]]; discriminate]].
  intros Ok.
  pose proof (hookrc_not_ok _ Hrc Ok) as ->. specialize (Hok eq_refl). pose proof (fr_gfr _ _ Hok) as G.
  destruct G as (G1 & G2 & G3 & G4 & G5 & G6 & G7 & G8). unfold ptrs in G3. injection G3 as P1 P2. cbn in G1, G2, P1, P2, G7.
  assert (Hk : hook_in c1 = hook_in c) by (unfold hook_in; rewrite F6; reflexivity).
  constructor.
  - exact F'.
  - exact (proj1 W').
  - intros _. exact (proj2 W').
  - split.
    + constructor.
      * rewrite P1, F2. eapply txs_rel_live; [exact G6|exact L1].
      * rewrite P1, F2. unfold txp. pose proof (G6 i) as Q. change (tx_slot (c1 <| c_in_state := REQ_LINE |>) i) with (tx_slot c1 i) in Q. rewrite Esl in Q.
        destruct (tx_slot c' i) as [t'|]; [|exact I]. destruct Q as [[Q _] _]. apply Q. cbn. vm_compute. discriminate.
      * intros U. exfalso. apply Na. unfold armed, hook_in in *. destruct G4 as [Q|Q]; cbn in Q; [|congruence]. rewrite Q in U. rewrite <- F6. exact U.
      * rewrite G1. intros [].
    + eapply TIout_frame; [exact (tx_create_TIout c i c1 Ec To)|exact G2|exact P2|exact G5|]. eapply txs_rel_weaken; [|exact G6]. intros t t' [_ Q]. exact Q.
  - unfold intx_ok. rewrite P1, F2. intros _ _. discriminate.
  - intros Q. discriminate.
  - apply (os_keeps_step os c c' A7); [rewrite G7; exact F8|rewrite G2; exact F5|unfold hook_out in *; cbn in G5; rewrite F7 in G5; exact G5|rewrite G8; cbn; rewrite F7; reflexivity].
Qed.

(* for (;;) { IN_PEEK_NEXT; if (stop) break; IN_COPY_BYTE_OR_RETURN; } *)
Lemma rq_peek_copy_until_safe os stop n : forall c b c',
  RE false os c -> (rq_len c - rq_rd c <= n)%nat -> rq_peek_copy_until stop n c = (b, c') ->
  RE false os c' /\ c_in_state c' = c_in_state c.
Proof.
  induction n as [|n IH]; intros c b c' H Hn E; cbn [rq_peek_copy_until] in E.
  all: destruct (RE_peek _ _ H) as [H0 S0]; destruct (peek_pos c) as [PL PR].
  all: destruct (match k_next_byte (c_in (rq_peek_next c)) with Some b0 => stop b0 | None => false end);
       [injection E as <- <-; split; assumption|].
  all: destruct (rq_copy_byte (rq_peek_next c)) as [c2|] eqn:Ec; [|injection E as <- <-; split; assumption].
  all: destruct (RE_copy _ _ _ H0 Ec) as (H2 & S2 & _ & L2 & R2 & Lt2).
  - exfalso. lia.
  - assert (Hn2 : (rq_len c2 - rq_rd c2 <= n)%nat) by lia.
    destruct (IH c2 b c' H2 Hn2 E) as [H3 S3]. split; [exact H3|congruence].
Qed.

Lemma RE_set_tunnel os c : RE false os c ->
  RE false os (c <| c_in_status := c_HTP_STREAM_TUNNEL |> <| c_out_status := c_HTP_STREAM_TUNNEL |>).
Proof.
  intros [A1 A2 A3 [[B1 B2 B3 B4] [C1 C2 C3]] A5 A6 A7]. constructor; try assumption.
  - split; constructor; assumption.
  - destruct A7 as (Q1 & Q2 & Q3). split; [right; reflexivity|split; assumption].
Qed.

(* htp_connp_REQ_CONNECT_PROBE_DATA *)
Lemma REQ_CONNECT_PROBE_DATA_safe os c rc c' :
  RE false os c -> c_in_state c = REQ_CONNECT_PROBE_DATA -> REQ_CONNECT_PROBE_DATA_fn cb g c = (rc, c') -> RPost false os rc c'.
Proof.
  intros H Es E. unfold REQ_CONNECT_PROBE_DATA_fn in E.
  destruct (rq_peek_copy_until _ _ c) as [b c1] eqn:Ep.
  assert (Hn : (rq_len c - rq_rd c <= k_len (c_in c) - k_read (c_in c))%nat) by (unfold rq_len, rq_rd; lia).
  destruct (rq_peek_copy_until_safe os _ _ c b c1 H Hn Ep) as [H1 S1]. rewrite Es in S1.
  destruct b; [|injection E as <- <-; apply RPost_of_RE; [exact H1|nb]].
  assert (N1 : c_in_tx c1 <> None) by (apply (RE_state_intx _ _ _ H1); rewrite S1; discriminate).
  destruct (RE_consolidate g os c1 H1 N1) as (H2 & S2 & _). rewrite S1 in S2.
  destruct (req_consolidate_data g c1) as [[rc2 c2] data]. cbn [fst snd] in *.
  destruct rc2; try (injection E as <- <-; apply RPost_of_RE; [exact H2|nb]).
  destruct (rq_probe_method data) as [mstart pos].
  destruct (negb _).
  - apply (req_complete_safe false os c2 rc c' H2); [|exact E]. apply (RE_state_intx _ _ _ H2); rewrite S2; discriminate.
  - injection E as <- <-. apply RPost_of_RE; [apply RE_set_tunnel; exact H2|nb].
Qed.

Lemma rq_finalize_scan_safe os c : RE false os c ->
  match rq_finalize_scan c with
  | RF_complete c1 | RF_buffer c1 | RF_probe c1 => RE false os c1 /\ c_in_state c1 = c_in_state c
  end.
Proof.
  intros H. unfold rq_finalize_scan. destruct (c_in_status c =? c_HTP_STREAM_CLOSED); [split; [exact H|reflexivity]|].
  destruct (RE_peek _ _ H) as [H0 S0].
  destruct (k_next_byte (c_in (rq_peek_next c))) as [b|]; [|split; assumption].
  destruct (negb (b =? LF)%N || _); [|split; assumption].
  destruct (rq_peek_copy_until _ _ (rq_peek_next c)) as [b1 c1] eqn:Ep.
  assert (Hn : (rq_len (rq_peek_next c) - rq_rd (rq_peek_next c) <= k_len (c_in (rq_peek_next c)) - k_read (c_in (rq_peek_next c)))%nat) by (unfold rq_len, rq_rd; lia).
  destruct (rq_peek_copy_until_safe os _ _ _ b1 c1 H0 Hn Ep) as [H1 S1].
  destruct b1; split; congruence.
Qed.

Lemma RE_set_left os c v : RE false os c -> c_in_state c = REQ_FINALIZE -> RE false os (c <| c_in_body_data_left := v |>).
Proof.
  intros H Es. pose proof H as [A1 A2 A3 [[B1 B2 B3 B4] [C1 C2 C3]] A5 A6 A7]. constructor; try assumption.
  - destruct A2 as [Wf _]. split; [exact Wf|]. unfold rq_inv. cbn. rewrite Es. exact I.
  - split; constructor; assumption.
Qed.

(* htp_tx_req_process_body_data_ex applied to in_tx *)
Lemma RE_process_body os d n c rc c' : RE false os c -> c_in_tx c <> None ->
  rq_with_tx (fun i => tx_req_process_body_data_ex cb i d n) c = (rc, c') -> RE false os c' /\ c_in_state c' = c_in_state c.
Proof.
  intros H N E. destruct (RE_in_tx_some _ _ _ H N) as (i & Ei & L). unfold rq_with_tx in E. rewrite Ei in E.
  pose proof (tx_req_process_body_data_ex_fr cb cb_nodestroy i d n c L ltac:(rewrite Ei; exact L)) as R. rewrite E in R. cbn [snd] in R.
  split; [eapply RE_fr; eassumption|apply (frR_in_state _ _ _ R)].
Qed.

(* htp_connp_REQ_FINALIZE *)
Lemma REQ_FINALIZE_safe os c rc c' :
  RE false os c -> c_in_state c = REQ_FINALIZE -> REQ_FINALIZE_fn cb g c = (rc, c') -> RPost false os rc c'.
Proof.
  intros H Es E. unfold REQ_FINALIZE_fn in E.
  pose proof (rq_finalize_scan_safe os c H) as Sc.
  assert (NI : forall cx, RE false os cx -> c_in_state cx = REQ_FINALIZE -> c_in_tx cx <> None).
  { intros cx Hx Sx. apply (RE_state_intx _ _ _ Hx); rewrite Sx; discriminate. }
  destruct (rq_finalize_scan c) as [c1|c1|c1]; destruct Sc as [H1 S1]; rewrite Es in S1.
  - apply (req_complete_safe false os c1 rc c' H1 (NI _ H1 S1) E).
  - injection E as <- <-. apply RPost_of_RE; [exact H1|nb].
  - destruct (RE_consolidate g os c1 H1 (NI _ H1 S1)) as (H2 & S2 & _). rewrite S1 in S2.
    destruct (req_consolidate_data g c1) as [[rc2 c2] data]. cbn [fst snd] in *.
    destruct rc2; try (injection E as <- <-; apply RPost_of_RE; [exact H2|nb]).
    destruct data as [|x data]; [apply (req_complete_safe false os c2 rc c' H2 (NI _ H2 S2) E)|].
    destruct (rq_probe_method (x :: data)) as [mstart pos].
    destruct (_ && negb _).
    { apply (req_complete_safe false os _ rc c' (RE_set_left os c2 (-1) H2 S2)); [|exact E]. exact (NI _ H2 S2). }
    set (c3 := if (mstart <? pos)%nat && (0 <? c_in_body_data_left c2) then c2 <| c_in_body_data_left := 1 |> else c2) in *.
    assert (H3 : RE false os c3 /\ c_in_state c3 = REQ_FINALIZE).
    { subst c3. destruct (_ && _); [split; [apply RE_set_left; assumption|exact S2]|split; assumption]. }
    destruct H3 as [H3 S3].
    assert (Tail : forall cx d, RE false os cx -> c_in_state cx = REQ_FINALIZE ->
                   (let '(rc0, c0) := rq_with_tx (fun i => tx_req_process_body_data_ex cb i (Some d) 0) cx in (rc0, req_clear_buffer c0)) = (rc, c') ->
                   RPost false os rc c').
    { intros cx d Hx Sx Ex. destruct (rq_with_tx _ cx) as [rc0 c0] eqn:Ew.
      destruct (RE_process_body os (Some d) 0 cx rc0 c0 Hx (NI _ Hx Sx) Ew) as [Hy Sy].
      injection Ex as <- <-. apply RPost_of_RE; [exact (proj1 (RE_clear_buffer os c0 Hy))|].
      intros _. change (c_in_state (req_clear_buffer c0)) with (c_in_state c0). rewrite Sy, Sx. split; discriminate. }
    destruct (rq_next_is c3 LF); [|exact (Tail c3 _ H3 S3 E)].
    destruct (rq_copy_byte c3) as [c4|] eqn:Ec; [|injection E as <- <-; apply RPost_of_RE; [exact H3|nb]].
    destruct (RE_copy _ _ _ H3 Ec) as (H4 & S4 & _). rewrite S3 in S4.
    destruct (RE_consolidate g os c4 H4 (NI _ H4 S4)) as (H5 & S5 & _). rewrite S4 in S5.
    destruct (req_consolidate_data g c4) as [[rc5 c5] d2]. cbn [fst snd] in *.
    destruct rc5; exact (Tail c5 _ H5 S5 E).
Qed.
End States4.

(* ------------------------------------------------------------------------------------------------ *)
(* 5. the loop of htp_connp_req_data *)

Section Loop.
Variable cb : cb_oracle.
Variable g : cfg.
Hypothesis cb_nodestroy : forall h n, cb h n <> CB_DESTROY_TX.

(* connp->in_state(connp) *)
Lemma rq_state_fn_safe gap os c rc c' :
  RI gap os c ->
  (gap = true -> c_in_state c = REQ_BODY_IDENTITY \/ c_in_state c = REQ_IGNORE_DATA_AFTER_HTTP_0_9) ->
  rq_state_fn cb g (c_in_state c) c = (rc, c') -> RPost gap os rc c'.
Proof.
  intros [H Gh] Hg E.
  assert (NG : forall s, c_in_state c = s -> s <> REQ_BODY_IDENTITY -> s <> REQ_IGNORE_DATA_AFTER_HTTP_0_9 -> gap = false).
  { intros s Es N1 N2. destruct gap; [|reflexivity]. destruct (Hg eq_refl) as [Q|Q]; congruence. }
  destruct (c_in_state c) eqn:Es; cbn [rq_state_fn] in E.
  - rewrite (NG _ eq_refl ltac:(discriminate) ltac:(discriminate)) in *. exact (REQ_IDLE_safe cb g cb_nodestroy os c rc c' H Es E).
  - rewrite (NG _ eq_refl ltac:(discriminate) ltac:(discriminate)) in *. exact (REQ_LINE_safe cb g cb_nodestroy os c rc c' H Es E).
  - rewrite (NG _ eq_refl ltac:(discriminate) ltac:(discriminate)) in *. exact (REQ_PROTOCOL_safe os c rc c' H Es E).
  - rewrite (NG _ eq_refl ltac:(discriminate) ltac:(discriminate)) in *. exact (REQ_HEADERS_safe cb g cb_nodestroy os c rc c' H Es E).
  - rewrite (NG _ eq_refl ltac:(discriminate) ltac:(discriminate)) in *. exact (REQ_CONNECT_CHECK_safe os c rc c' H Es E).
  - rewrite (NG _ eq_refl ltac:(discriminate) ltac:(discriminate)) in *. exact (REQ_CONNECT_WAIT_RESPONSE_safe os c rc c' H Es E).
  - rewrite (NG _ eq_refl ltac:(discriminate) ltac:(discriminate)) in *. exact (REQ_CONNECT_PROBE_DATA_safe cb g cb_nodestroy os c rc c' H Es E).
  - rewrite (NG _ eq_refl ltac:(discriminate) ltac:(discriminate)) in *. exact (REQ_BODY_DETERMINE_safe os c rc c' H Es E).
  - exact (REQ_BODY_IDENTITY_safe cb cb_nodestroy gap os c rc c' (conj H Gh) Es E).
  - rewrite (NG _ eq_refl ltac:(discriminate) ltac:(discriminate)) in *. exact (REQ_BODY_CHUNKED_LENGTH_safe g os c rc c' H Es E).
  - rewrite (NG _ eq_refl ltac:(discriminate) ltac:(discriminate)) in *. exact (REQ_BODY_CHUNKED_DATA_safe cb cb_nodestroy os c rc c' H Es E).
  - rewrite (NG _ eq_refl ltac:(discriminate) ltac:(discriminate)) in *. exact (REQ_BODY_CHUNKED_DATA_END_safe os c rc c' H Es E).
  - rewrite (NG _ eq_refl ltac:(discriminate) ltac:(discriminate)) in *. exact (REQ_FINALIZE_safe cb g cb_nodestroy os c rc c' H Es E).
  - exact (REQ_IGNORE_safe gap os c rc c' H Es E).
Qed.

Lemma RE_RI_same gap os c c' : RI gap os c -> RE gap os c' -> c_in_state c' = c_in_state c -> k_read (c_in c') = k_read (c_in c) -> RI gap os c'.
Proof. intros [H Gh] H' S R. split; [exact H'|]. unfold gap_head in *. rewrite S, R. exact Gh. Qed.

(* arming the receiver on entering REQ_HEADERS *)
Lemma req_receiver_set_safe gap os h c rc c' :
  RI gap os c -> c_in_state c = REQ_HEADERS -> req_receiver_set cb h c = (rc, c') ->
  c_fault c' = false /\ RE gap os c' /\ c_in_state c' = c_in_state c /\ k_read (c_in c') = k_read (c_in c).
Proof.
  intros [H Gh] Es E. unfold req_receiver_set in E.
  destruct (req_receiver_finalize_clear_safe cb cb_nodestroy c (re_fault _ _ _ H) (RE_sendok _ _ _ H)) as (F1 & R1 & Hh).
  destruct (req_receiver_finalize_clear cb c) as [rc1 c1]. cbn [fst snd] in *. injection E as <- <-.
  pose proof (RE_fr _ _ _ _ H R1) as H1. pose proof H1 as [A1 A2 A3 [[B1 B2 B3 B4] [C1 C2 C3]] A5 A6 A7].
  pose proof (frR_core _ _ _ R1) as Co. destruct (rq_core_fields _ _ Co) as (E1 & E2 & E3 & E4 & E5).
  assert (N1 : c_in_tx c1 <> None) by (apply A5; rewrite E5, Es; discriminate).
  split; [exact A1|]. split; [|split; [exact E5|exact E3]].
  constructor.
  - exact A1.
  - exact A2.
  - exact A3.
  - split; constructor; try assumption. intros _. split; [exact N1|left; rewrite <- Es; exact E5].
  - exact A5.
  - intros G _. cbn. rewrite E3. apply (Gh G). right. exact Es.
  - exact A7.
Qed.

(* htp_req_handle_state_change *)
Lemma req_handle_state_change_safe gap os c rc c' :
  RI gap os c -> req_handle_state_change cb c = (rc, c') ->
  c_fault c' = false /\ (rc = ST_OK -> RI gap os c').
Proof.
  intros HI E. pose proof HI as [H Gh]. unfold req_handle_state_change in E.
  destruct (match c_in_state_previous c with Some s => req_state_eqb s (c_in_state c) | None => false end);
    [injection E as <- <-; split; [exact (re_fault _ _ _ H)|intros _; exact HI]|].
  assert (Prev : forall cx, RI gap os cx -> RI gap os (cx <| c_in_state_previous := Some (c_in_state cx) |>)).
  { intros cx [[A1 A2 A3 [[B1 B2 B3 B4] [C1 C2 C3]] A5 A6 A7] G2]. split; [constructor; try assumption; split; constructor; assumption|exact G2]. }
  destruct (req_state_eqb (c_in_state c) REQ_HEADERS) eqn:Eh.
  2: { injection E as <- <-. split; [exact (re_fault _ _ _ H)|intros _; apply Prev; exact HI]. }
  assert (Es : c_in_state c = REQ_HEADERS) by (destruct (c_in_state c); try discriminate; reflexivity).
  assert (N : c_in_tx c <> None) by (apply (RE_state_intx _ _ _ H); rewrite Es; discriminate).
  destruct (c_in_tx c) as [i|] eqn:Ei; [|congruence].
  assert (Fin : forall h rcx cx, req_receiver_set cb h c = (rcx, cx) ->
            match rcx with ST_OK => (ST_OK, cx <| c_in_state_previous := Some (c_in_state cx) |>) | _ => (rcx, cx) end = (rc, c') ->
            c_fault c' = false /\ (rc = ST_OK -> RI gap os c')).
  { intros h rcx cx Er Ex. destruct (req_receiver_set_safe gap os h c rcx cx HI Es Er) as (F2 & H2 & S2 & R2).
    pose proof (RE_RI_same gap os c cx HI H2 S2 R2) as HI2.
    destruct rcx; injection Ex as <- <-; (split; [exact F2|intros Q; try discriminate Q]). apply Prev. exact HI2. }
  destruct (_ =? c_HTP_REQUEST_HEADERS).
  { destruct (req_receiver_set cb H_REQUEST_HEADER_DATA c) as [rcx cx] eqn:Er. exact (Fin _ _ _ Er E). }
  destruct (_ =? c_HTP_REQUEST_TRAILER).
  { destruct (req_receiver_set cb H_REQUEST_TRAILER_DATA c) as [rcx cx] eqn:Er. exact (Fin _ _ _ Er E). }
  injection E as <- <-. split; [exact (re_fault _ _ _ H)|intros _; apply Prev; exact HI].
Qed.

(* the request stream has not been stopped *)
Definition in_sok (c : connp) : Prop := c_in_status c <> c_HTP_STREAM_STOP /\ c_in_status c <> c_HTP_STREAM_ERROR.
(* what a finished htp_connp_req_data leaves *)
Definition RFinal (gap : bool) (os : octx) (c' : connp) : Prop := c_fault c' = false /\ (in_sok c' -> RE gap os c').

Lemma RE_set_in_status gap os c v : RE gap os c -> RE gap os (c <| c_in_status := v |>).
Proof. intros [A1 A2 A3 [[B1 B2 B3 B4] [C1 C2 C3]] A5 A6 A7]. constructor; try assumption. split; constructor; assumption. Qed.

Lemma req_buffer_nf' c : rq_wf c -> c_in_tx c <> None -> nf c (snd (req_buffer g c)).
Proof.
  intros W N. pose proof W as (W1 & W2 & W3). unfold rq_rd, rq_len, rq_cs in *. unfold req_buffer.
  destruct (k_data (c_in c)) as [d|] eqn:Ed; [|apply nf_refl].
  replace (k_read (c_in c) <? k_consume (c_in c))%nat with false by (symmetry; apply Nat.ltb_ge; exact W2).
  destruct (_ =? 0)%nat; [apply nf_refl|]. destruct (c_in_tx c) eqn:Ei; [|congruence].
  destruct (g_field_limit_hard g <? _)%nat; [apply nf_refl|].
  pose proof (rq_slice_nf c (k_consume (c_in c)) (k_read (c_in c))) as Q. rewrite Ed in Q. specialize (Q ltac:(lia)). destruct Q as [N1 N2].
  destruct (rq_slice c (k_consume (c_in c)) (k_read (c_in c))) as [c3 piece]. cbn [fst snd] in *.
  split; [exact N1|]. rewrite <- N2. reflexivity.
Qed.

Lemma RE_nf gap os c c' : RE gap os c -> nf c c' -> rq_moved c c' -> RE gap os c'.
Proof.
  intros H N M. pose proof (nf_gfr _ _ N) as G.
  apply (RE_mk_same gap os c c' H G).
  - rewrite (proj1 N). exact (re_fault _ _ _ H).
  - eapply rq_pre_moved; [exact M|exact (re_pre _ _ _ H)].
  - intros Q. pose proof (re_readable _ _ _ H Q) as Rd. destruct M as (P & _). unfold rq_pos in P. injection P as P1 P2 P3 P4 P5.
    unfold rq_readable, rq_len in *. rewrite P5, P1. exact Rd.
  - pose proof (re_gap _ _ _ H) as Gk. unfold gap_ok, armed in *. intros Q U. destruct M as (P & _). unfold rq_pos in P. injection P as P1 P2 P3 P4 P5.
    rewrite P2. apply (Gk Q). destruct N as [_ T]. unfold tiv, hook_in in T. injection T as T1 T2 T3 T4 T5 T6 T7 T8 T9 T10. congruence.
Qed.

(* the exit of a pass *)
Lemma rq_exit_safe gap os rc c c' code :
  RPost gap os rc c -> rq_exit cb g rc c = (c', code) -> RFinal gap os c'.
Proof.
  intros (F & Hre & _ & Hb) E. unfold rq_exit in E.
  assert (Bad : forall v cx, c_fault cx = false -> (v = c_HTP_STREAM_STOP \/ v = c_HTP_STREAM_ERROR) -> RFinal gap os (cx <| c_in_status := v |>)).
  { intros v cx Fx Hv. split; [exact Fx|]. intros [Q1 Q2]. cbn in Q1, Q2. destruct Hv; contradiction. }
  destruct rc.
  - (* OK: not reached from rq_iter; status ERROR *) injection E as <- <-. apply Bad; [exact F|tauto].
  - injection E as <- <-. apply Bad; [exact F|tauto].
  - injection E as <- <-. apply Bad; [exact F|tauto].
  - (* DATA *)
    assert (H : RE gap os c) by (apply Hre; unfold okrc; tauto).
    destruct (req_receiver_send_data_safe cb cb_nodestroy false c F (RE_sendok _ _ _ H)) as [F1 R1].
    destruct (req_receiver_send_data cb false c) as [r1 c1]. cbn [snd] in *. injection E as <- <-.
    split; [exact F1|intros _]. apply RE_set_in_status. eapply RE_fr; eassumption.
  - (* DATA_OTHER *)
    assert (H : RE gap os c) by (apply Hre; unfold okrc; tauto).
    destruct (rq_at_end c); injection E as <- <-; (split; [exact F|intros _; apply RE_set_in_status; exact H]).
  - injection E as <- <-. apply Bad; [exact F|tauto].
  - (* DATA_BUFFER *)
    assert (H : RE gap os c) by (apply Hre; unfold okrc; tauto).
    destruct (req_receiver_send_data_safe cb cb_nodestroy false c F (RE_sendok _ _ _ H)) as [F1 R1].
    destruct (req_receiver_send_data cb false c) as [r1 c1]. cbn [snd] in *.
    pose proof (RE_fr _ _ _ _ H R1) as H1.
    assert (N1 : c_in_tx c1 <> None) by (rewrite (frR_in_tx _ _ _ R1); apply Hb; reflexivity).
    pose proof (req_buffer_nf' c1 (proj1 (re_pre _ _ _ H1)) N1) as N2. pose proof (req_buffer_moved g c1) as M2.
    destruct (req_buffer g c1) as [brc c2]. cbn [snd] in *.
    pose proof (RE_nf _ _ _ _ H1 N2 M2) as H2.
    destruct brc; injection E as <- <-; try (apply Bad; [exact (re_fault _ _ _ H2)|tauto]).
    split; [exact (re_fault _ _ _ H2)|intros _; apply RE_set_in_status; exact H2].
Qed.

(* one pass of the for(;;) body *)
Lemma rq_iter_safe gap os c :
  RI gap os c ->
  match rq_iter cb g gap c with
  | inr c1 => RI gap os c1
  | inl (c', code) => RFinal gap os c'
  end.
Proof.
  intros HI. pose proof HI as [H Gh]. unfold rq_iter.
  set (dispatch := if gap then _ else _).
  assert (D : match dispatch with Some (rc, c1) => RPost gap os rc c1 | None => True end).
  { subst dispatch. destruct gap.
    - destruct (req_state_eqb (c_in_state c) REQ_BODY_IDENTITY || req_state_eqb (c_in_state c) REQ_IGNORE_DATA_AFTER_HTTP_0_9) eqn:E.
      + destruct (rq_state_fn cb g (c_in_state c) c) as [rc c1] eqn:E1. apply (rq_state_fn_safe true os c rc c1 HI); [|exact E1].
        intros _. destruct (c_in_state c); try discriminate E; tauto.
      + destruct (req_state_eqb (c_in_state c) REQ_FINALIZE) eqn:Ef; [|exact I].
        destruct (rq_request_complete cb g c) as [rc c1] eqn:E1. apply (req_complete_safe cb g cb_nodestroy true os c rc c1 H); [|exact E1].
        apply (RE_state_intx _ _ _ H); destruct (c_in_state c); try discriminate Ef; discriminate.
    - destruct (rq_state_fn cb g (c_in_state c) c) as [rc c1] eqn:E1. apply (rq_state_fn_safe false os c rc c1 HI); [intros Q; discriminate|exact E1]. }
  destruct dispatch as [[rc c1]|].
  2: { split; [exact (re_fault _ _ _ H)|intros _; exact H]. }
  destruct rc; try (destruct (rq_exit cb g _ c1) as [c' code] eqn:Ex; exact (rq_exit_safe gap os _ c1 c' code D Ex)).
  destruct D as (F1 & Hre & Hgh & _). assert (H1 : RE gap os c1) by (apply Hre; unfold okrc; tauto). specialize (Hgh eq_refl).
  destruct (c_in_status c1 =? c_HTP_STREAM_TUNNEL); [split; [exact F1|intros _; exact H1]|].
  pose proof (req_handle_state_change_moved cb c1) as [_ Hrc].
  destruct (req_handle_state_change cb c1) as [rc2 c2] eqn:E2. cbn [fst] in Hrc.
  destruct (req_handle_state_change_safe gap os c1 rc2 c2 (conj H1 Hgh) E2) as [F2 Hok].
  destruct rc2; try (destruct Hrc as [Q|[Q|Q]]; discriminate Q).
  - exact (Hok eq_refl).
  - cbn. split; [exact F2|]. intros [_ Q]. cbn in Q. contradiction.
  - cbn. split; [exact F2|]. intros [Q _]. cbn in Q. contradiction.
Qed.

(* running out of fuel is the only other way to set the fault flag *)
Fixpoint rq_loop_oof (fuel : nat) (gap : bool) (c : connp) : bool :=
  match fuel with
  | O => true
  | S f => match rq_iter cb g gap c with inl _ => false | inr c1 => rq_loop_oof f gap c1 end
  end.

Lemma rq_loop_safe gap os fuel : forall c c' code,
  RI gap os c -> rq_loop cb g fuel gap c = (c', code) -> rq_loop_oof fuel gap c = false -> RFinal gap os c'.
Proof.
  induction fuel as [|f IH]; intros c c' code HI E O; cbn [rq_loop rq_loop_oof] in *; [discriminate|].
  pose proof (rq_iter_safe gap os c HI) as S. destruct (rq_iter cb g gap c) as [[c1 code1]|c1].
  - injection E as <- <-. exact S.
  - exact (IH c1 c' code S E O).
Qed.

(* ---- htp_connp_req_data ---- *)

(* the invariant between two API calls: no fault so far, the transaction/receiver coupling of both directions, the
   request body counters consistent with the request state (PReq.rq_inv) *)
Record safe_inv (c : connp) : Prop := mk_safe_inv {
  si_fault : c_fault c = false;
  si_ti : TI c;
  si_rq : rq_inv c
}.

(* did this call of htp_connp_req_data exhaust the fuel of the model's loop? (same guards as connp_req_data) *)
Definition req_data_oof (data : option bytes) (len : nat) (c : connp) : bool :=
  if c_in_status c =? c_HTP_STREAM_STOP then false
  else if c_in_status c =? c_HTP_STREAM_ERROR then false
  else if match c_in_tx c with None => negb (req_state_eqb (c_in_state c) REQ_IDLE) && negb (c_in_status c =? c_HTP_STREAM_TUNNEL) | Some _ => false end then false
  else if (len =? 0)%nat && negb (c_in_status c =? c_HTP_STREAM_CLOSED) then false
  else
    let c := rq_set_in (fun k => k <| k_data := data |> <| k_len := len |> <| k_read := O |> <| k_consume := O |>
                                   <| k_receiver := O |>) c in
    let c := c <| c_in_chunk_count ::= S |> <| c_in_data_counter ::= Z.add (Z.of_nat len) |> in
    if c_in_status c =? c_HTP_STREAM_TUNNEL then false
    else
      let c := if c_out_status c =? c_HTP_STREAM_DATA_OTHER then c <| c_out_status := c_HTP_STREAM_DATA |> else c in
      rq_loop_oof (rq_fuel len) (match data with None => (0 <? len)%nat | Some _ => false end) c.

(* out_status after a request call: unchanged, DATA_OTHER turned into DATA (the request side goes on), or TUNNEL *)
Definition out_status_after_req (os os' : Z) : Prop :=
  os' = os \/ (os = c_HTP_STREAM_DATA_OTHER /\ os' = c_HTP_STREAM_DATA) \/ os' = c_HTP_STREAM_TUNNEL.

Lemma safe_inv_of_RE gap os c : RE gap os c -> safe_inv c.
Proof. intros [A1 A2 A3 A4 A5 A6 A7]. constructor; [exact A1|exact A4|exact (proj2 A2)]. Qed.

(* what a request call leaves of the response direction *)
Definition out_kept (c c' : connp) : Prop :=
  out_status_after_req (c_out_status c) (c_out_status c') /\ c_out_state c' = c_out_state c /\ hk_le (hook_out c) (hook_out c') /\
  cur_core (c_out c') = cur_core (c_out c).

Theorem connp_req_data_safe data len c c' code :
  safe_inv c -> (forall d, data = Some d -> (len <= length d)%nat) ->
  connp_req_data cb g data len c = (c', code) ->
  req_data_oof data len c = false ->
  c_fault c' = false /\
  (in_sok c' -> safe_inv c' /\ out_kept c c' /\
               (* htp_connp_req_close / htp_connp_close: the NULL chunk of length 0 leaves the read offset at 0 *)
               (len = O -> c_in_status c = c_HTP_STREAM_CLOSED -> k_read (c_in c') = O)).
Proof.
  intros [F T Ri] Hd E Oo. unfold connp_req_data in E. unfold req_data_oof in Oo.
  assert (Kid : out_kept c c) by (split; [left; reflexivity|split; [reflexivity|split; [apply hk_le_refl|reflexivity]]]).
  assert (Id : forall cx, cx = c -> c_in_status c <> c_HTP_STREAM_CLOSED \/ len <> O ->
               c_fault cx = false /\ (in_sok cx -> safe_inv cx /\ out_kept c cx /\ (len = O -> c_in_status c = c_HTP_STREAM_CLOSED -> k_read (c_in cx) = O))).
  { intros cx -> Hn. split; [exact F|intros _; split; [constructor; assumption|split; [exact Kid|]]]. intros L0 Cl. destruct Hn; contradiction. }
  destruct (c_in_status c =? c_HTP_STREAM_STOP) eqn:E1; [injection E as <- <-; apply Id; [reflexivity|left; apply Z.eqb_eq in E1; rewrite E1; vm_compute; discriminate]|].
  destruct (c_in_status c =? c_HTP_STREAM_ERROR) eqn:E2; [injection E as <- <-; apply Id; [reflexivity|left; apply Z.eqb_eq in E2; rewrite E2; vm_compute; discriminate]|].
  destruct (match c_in_tx c with None => negb (req_state_eqb (c_in_state c) REQ_IDLE) && negb (c_in_status c =? c_HTP_STREAM_TUNNEL) | Some _ => false end) eqn:Eg.
  { injection E as <- <-. split; [exact F|intros [_ Q]; cbn in Q; contradiction]. }
  destruct ((len =? 0)%nat && negb (c_in_status c =? c_HTP_STREAM_CLOSED)) eqn:E0.
  { injection E as <- <-. apply Id; [reflexivity|left]. apply andb_prop in E0. destruct E0 as [_ Q]. apply negb_true_iff in Q. apply Z.eqb_neq in Q. exact Q. }
  set (c1 := (rq_set_in _ c) <| c_in_chunk_count ::= S |> <| c_in_data_counter ::= Z.add (Z.of_nat len) |>) in *.
  set (gap := match data with None => (0 <? len)%nat | Some _ => false end) in *.
  assert (Base : forall v, (c_in_status c =? c_HTP_STREAM_TUNNEL) = false -> RI gap (v, c_out_state c, hook_out c, cur_core (c_out c)) (c1 <| c_out_status := v |>)).
  { intros v Hnt. rewrite Hnt in Eg. cbn [negb] in Eg. rewrite andb_true_r in Eg.
    destruct T as [[B1 B2 B3 B4] [C1 C2 C3]]. split; [|intros _ _; reflexivity]. constructor.
    - exact F.
    - unfold rq_pre, rq_wf, rq_inv, rq_len, rq_rd, rq_cs. cbn. repeat split; try lia; [|exact Ri].
      destruct data as [d|]; [apply Hd; reflexivity|exact I].
    - intros G Hn. unfold rq_len. cbn in *. subst gap. destruct data; [discriminate Hn|]. apply Nat.ltb_ge in G. lia.
    - split; constructor; assumption.
    - intros N1 N2. cbn in *. destruct (c_in_tx c); [discriminate|]. destruct (c_in_state c); try discriminate Eg; contradiction.
    - intros _ _. reflexivity.
    - split; [left; reflexivity|split; [reflexivity|split; [apply hk_le_refl|reflexivity]]]. }
  assert (Eqv : c1 = c1 <| c_out_status := c_out_status c |>) by (subst c1; destruct c; reflexivity).
  destruct (c_in_status c1 =? c_HTP_STREAM_TUNNEL) eqn:Et.
  { injection E as <- <-. split; [exact F|intros _; split; [|split; [exact Kid|]]].
    { destruct T as [[B1 B2 B3 B4] [C1 C2 C3]]. constructor; [exact F|split; constructor; assumption|exact Ri]. }
    intros _ Cl. apply Z.eqb_eq in Et. change (c_in_status c1) with (c_in_status c) in Et. rewrite Cl in Et. vm_compute in Et. discriminate. }
  set (c2 := if c_out_status c1 =? c_HTP_STREAM_DATA_OTHER then _ else c1) in *.
  assert (H2 : exists v, RI gap (v, c_out_state c, hook_out c, cur_core (c_out c)) c2 /\ (v = c_out_status c \/ (c_out_status c = c_HTP_STREAM_DATA_OTHER /\ v = c_HTP_STREAM_DATA))).
  { subst c2. destruct (c_out_status c1 =? c_HTP_STREAM_DATA_OTHER) eqn:Eo.
    - exists c_HTP_STREAM_DATA. split; [apply Base; exact Et|right; split; [|reflexivity]]. apply Z.eqb_eq in Eo. exact Eo.
    - exists (c_out_status c). split; [rewrite Eqv; apply Base; exact Et|left; reflexivity]. }
  destruct H2 as (v & HI & Hv).
  destruct (rq_loop_safe gap _ _ c2 c' code HI E Oo) as [F' Hre].
  split; [exact F'|]. intros Sk. pose proof (Hre Sk) as R. split; [exact (safe_inv_of_RE _ _ _ R)|]. split.
  - destruct (re_os _ _ _ R) as (Q1 & Q2 & Q3 & Q4). cbn [fst snd] in Q1, Q2, Q3, Q4. split; [|split; [exact Q2|split; assumption]].
    unfold out_status_after_req. destruct Q1 as [Q|Q]; rewrite Q; [|tauto]. destruct Hv as [->|[Hv ->]]; tauto.
  - intros L0 _. destruct HI as [HE _].
    assert (Hinv : rq_loop_inv gap c2) by (split; [exact (re_pre _ _ _ HE)|exact (re_readable _ _ _ HE)]).
    destruct (rq_loop_spec cb g _ _ c2 c' code Hinv E) as (_ & Ln & _).
    assert (L2 : rq_len c2 = len) by (subst c2; destruct (c_out_status c1 =? c_HTP_STREAM_DATA_OTHER); reflexivity).
    destruct (re_pre _ _ _ R) as [(W1 & _) _]. unfold rq_len, rq_rd in *. lia.
Qed.
End Loop.

(* the theorem depends on no axiom *)
Print Assumptions connp_req_data_safe.
