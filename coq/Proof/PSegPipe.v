(* C02 / C04, request direction: n pipelined grammar requests in any TCP segmentation -- the passes at a request boundary.
   REQ_FINALIZE looks at the bytes that follow a request: up to the next LF it buffers them if necessary, and when the line
   starts with a method htp_convert_method_to_number knows, the request is complete and REQ_IDLE creates the next
   transaction; the bytes looked at stay in the buffer / the chunk for REQ_LINE. *)
Require Import Htp.Model.Base Htp.Model.MBstr Htp.Model.MConnTypes Htp.Model.MTxCommon Htp.Model.MReqLine Htp.Model.MReqUri Htp.Model.MTxReq.
Require Import Htp.Model.MReq Htp.Model.MRes Htp.Model.MConnp.
Require Import Htp.Spec.SWire Htp.Proof.PWire Htp.Proof.PWireHdr Htp.Proof.PWireBlock Htp.Proof.PWireConn Htp.Proof.PWireExch.
Require Import Htp.Proof.PWireRun Htp.Proof.PWirePres Htp.Proof.PWireGlue Htp.Proof.PSeg Htp.Proof.PSegLine Htp.Proof.PSegHdr Htp.Proof.PSegGen Htp.Proof.PSegRun.
Require Import Htp.Proof.PSegFold.

(* ---- the method probe of REQ_FINALIZE on the beginning of a request line ---- *)
Lemma sg_probe_method m rest : wr_token m = true ->
  rq_probe_method (m ++ SP :: rest) = (0%nat, length m) /\ rq_sub (m ++ SP :: rest) 0 (length m) = m.
Proof.
  intros Wm. destruct (wr_token_split m Wm) as (m0 & mr & Em & Tm). destruct (wr_token_scan m Tm) as [Ns _].
  assert (S0 : htp_is_space m0 = false).
  { rewrite Em in Tm. cbn [forallb] in Tm. apply andb_prop in Tm. destruct Tm as [T0 _]. destruct (wr_token_facts m0 T0) as (_ & Sp & _). rewrite <- wr_isspace_eq. exact Sp. }
  set (d := m ++ SP :: rest).
  assert (E1 : rq_fwd_while htp_is_space d 0 (length d) = 0%nat).
  { pose proof (rq_fwd_while_seg htp_is_space [] [] d eq_refl) as H. cbn [app length Nat.add] in H. apply H. unfold d. rewrite Em. cbn [app wr_stops]. exact S0. }
  assert (E2 : rq_fwd_while (rq_not htp_is_space) d 0 (length d) = length m).
  { pose proof (rq_fwd_while_seg (rq_not htp_is_space) [] m (SP :: rest) Ns) as H. cbn [app length Nat.add] in H. apply H. reflexivity. }
  split.
  - unfold rq_probe_method. fold d. rewrite E1, E2. reflexivity.
  - pose proof (rq_sub_seg [] m (SP :: rest)) as H. cbn [app length Nat.add] in H. exact H.
Qed.

Section Pipe.
Variable cb : cb_oracle.
Variable g : cfg.
Hypothesis Hcb : wr_all_ok cb.
Hypothesis Hspace : g_allow_space_uri g = false.
Context {w : sg_world}.
Notation sg_cin := (sg_cinw w).
Notation sg_mid := (sg_midw w).

(* ---- for (;;) { IN_PEEK_NEXT; if (next == LF) break; IN_COPY_BYTE_OR_RETURN; } ---- *)
Lemma sg_peek_copy_nolf d hdr st prev rh t : forall u c rd p n,
  sg_cin c d rd p hdr st prev rh t -> skipn rd d = u -> sg_no_lf u = true -> (length u <= n)%nat ->
  exists c', rq_peek_copy_until (fun b => (b =? LF)%N) n c = (false, c') /\ sg_cin c' d (length d) (p ++ u) hdr st prev rh t.
Proof.
  induction u as [|b u IH]; intros c rd p n H Hu Hnl Hn.
  - pose proof (sg_skipn_nil d rd Hu) as L. pose proof H as [A1 A2 A3 A4 A5 A6 A7 A8 A9 A10 A11 A12 A13 A14 A15 A16 A17].
    assert (E : rd = length d) by lia.
    assert (Nn : nth_error d rd = None) by (apply nth_error_None; lia).
    destruct n; cbn [rq_peek_copy_until]; rewrite (sg_peek c d A4 A5), A6, Nn; cbn [c_in rq_set_in set k_next_byte]; cbn;
      unfold rq_copy_byte, rq_at_end; cbn; rewrite A5, A6, E, Nat.leb_refl;
      (eexists; split; [reflexivity|]; rewrite app_nil_r; apply sg_cin_next; rewrite <- E; exact H).
  - destruct (sg_skipn_cons d rd b u Hu) as (Hnth & Hu' & Hlt). pose proof H as [A1 A2 A3 A4 A5 A6 A7 A8 A9 A10 A11 A12 A13 A14 A15 A16 A17].
    cbn [sg_no_lf forallb] in Hnl. apply andb_prop in Hnl. destruct Hnl as [Hb Hnl]. apply negb_true_iff in Hb.
    cbn [length] in Hn. destruct n as [|n]; [lia|].
    cbn [rq_peek_copy_until]. rewrite (sg_peek c d A4 A5), A6, Hnth.
    set (c0 := rq_set_in (fun k => k <| k_next_byte := Some b |>) c).
    change (k_next_byte (c_in c0)) with (Some b). cbv beta iota. rewrite Hb.
    assert (Hnth0 : nth_error d (k_read (c_in c0)) = Some b) by (change (k_read (c_in c0)) with (k_read (c_in c)); rewrite A6; exact Hnth).
    rewrite (wr_copy_byte c0 d b A4 A5 Hnth0).
    assert (H0 : sg_cin c0 d rd p hdr st prev rh t) by (unfold c0; apply sg_cin_next; exact H).
    destruct (IH (rq_set_in (wr_kadv b) c0) (S rd) (p ++ [b]) n (sg_cin_adv _ _ _ _ _ _ _ _ _ b H0 Hnth) Hu' Hnl ltac:(lia)) as (c' & E & H').
    exists c'. split; [exact E|]. rewrite <- app_assoc in H'. exact H'.
Qed.
Lemma sg_peek_copy_lf d hdr st prev rh t u2 : forall u1 c rd p n,
  sg_cin c d rd p hdr st prev rh t -> skipn rd d = u1 ++ LF :: u2 -> sg_no_lf u1 = true -> (length u1 <= n)%nat ->
  exists c', rq_peek_copy_until (fun b => (b =? LF)%N) n c = (true, c') /\ sg_cin c' d (rd + length u1) (p ++ u1) hdr st prev rh t.
Proof.
  induction u1 as [|b u1 IH]; intros c rd p n H Hu Hnl Hn.
  - cbn [app] in Hu. destruct (sg_skipn_cons d rd LF u2 Hu) as (Hnth & Hu' & Hlt). pose proof H as [A1 A2 A3 A4 A5 A6 A7 A8 A9 A10 A11 A12 A13 A14 A15 A16 A17].
    destruct n; cbn [rq_peek_copy_until]; rewrite (sg_peek c d A4 A5), A6, Hnth; cbn [c_in rq_set_in set k_next_byte]; cbn;
      (eexists; split; [reflexivity|]; cbn [length]; rewrite Nat.add_0_r, app_nil_r; apply sg_cin_next; exact H).
  - cbn [app] in Hu. destruct (sg_skipn_cons d rd b _ Hu) as (Hnth & Hu' & Hlt). pose proof H as [A1 A2 A3 A4 A5 A6 A7 A8 A9 A10 A11 A12 A13 A14 A15 A16 A17].
    cbn [sg_no_lf forallb] in Hnl. apply andb_prop in Hnl. destruct Hnl as [Hb Hnl]. apply negb_true_iff in Hb.
    cbn [length] in Hn. destruct n as [|n]; [lia|].
    cbn [rq_peek_copy_until]. rewrite (sg_peek c d A4 A5), A6, Hnth.
    set (c0 := rq_set_in (fun k => k <| k_next_byte := Some b |>) c).
    change (k_next_byte (c_in c0)) with (Some b). cbv beta iota. rewrite Hb.
    assert (Hnth0 : nth_error d (k_read (c_in c0)) = Some b) by (change (k_read (c_in c0)) with (k_read (c_in c)); rewrite A6; exact Hnth).
    rewrite (wr_copy_byte c0 d b A4 A5 Hnth0).
    assert (H0 : sg_cin c0 d rd p hdr st prev rh t) by (unfold c0; apply sg_cin_next; exact H).
    destruct (IH (rq_set_in (wr_kadv b) c0) (S rd) (p ++ [b]) n (sg_cin_adv _ _ _ _ _ _ _ _ _ b H0 Hnth) Hu' Hnl ltac:(lia)) as (c' & E & H').
    exists c'. split; [exact E|]. cbn [length]. replace (rd + S (length u1))%nat with (S rd + length u1)%nat by lia.
    rewrite <- app_assoc in H'. exact H'.
Qed.

(* ---- REQ_FINALIZE with more data in the chunk ---- *)
Lemma sg_fin_scan c d rd p t : sg_cin c d rd p None REQ_FINALIZE (Some REQ_FINALIZE) None t -> k_consume (c_in c) = rd -> (rd < length d)%nat ->
  rq_finalize_scan c =
    match rq_peek_copy_until (fun b => (b =? LF)%N) (length d - rd) (rq_set_in (fun k => k <| k_next_byte := nth_error d rd |>) c) with
    | (true, c') => RF_probe c'
    | (false, c') => RF_buffer c'
    end.
Proof.
  intros H Hc Hlt. pose proof H as [A1 A2 A3 A4 A5 A6 A7 A8 A9 A10 A11 A12 A13 A14 A15 A16 A17].
  unfold rq_finalize_scan. rewrite (sg_live_closed _ A1), (sg_peek c d A4 A5), A6.
  destruct (nth_error d rd) as [b|] eqn:Nb; [|apply nth_error_None in Nb; lia].
  cbn [c_in rq_set_in set k_next_byte k_read k_consume k_len]. cbn. rewrite A6, Hc, A5, Nat.leb_refl, orb_true_r. reflexivity.
Qed.

(* no LF in the rest of the chunk: it is buffered, the parser stays in REQ_FINALIZE *)
Lemma sg_fin_buffer c d rd p t : sg_cin c d rd p None REQ_FINALIZE (Some REQ_FINALIZE) None t -> k_consume (c_in c) = rd -> (rd < length d)%nat ->
  sg_no_lf (skipn rd d) = true -> (length (p ++ skipn rd d) <= g_field_limit_hard g)%nat ->
  exists cF, rq_iter cb g false c = inl (cF, c_HTP_STREAM_DATA) /\ sg_mid cF (p ++ skipn rd d) None REQ_FINALIZE None t.
Proof.
  intros H Hc Hlt Hnl Hlim.
  assert (Es : c_in_state c = REQ_FINALIZE) by apply (ci_state _ _ _ _ _ _ _ _ _ H).
  destruct (sg_peek_copy_nolf d None _ _ _ t (skipn rd d) _ rd p (length d - rd) (sg_cin_next _ _ _ _ _ _ _ _ _ (nth_error d rd) H) eq_refl Hnl) as (c1 & E1 & H1);
    [rewrite skipn_length; lia|].
  destruct (sg_exit_buffer cb g Hcb c1 d _ None _ _ t H1) as (cF & EF & HF); [cbn [sg_olist length]; lia|].
  exists cF. split; [|exact HF].
  unfold rq_iter. rewrite Es. cbn [rq_state_fn]. unfold REQ_FINALIZE_fn. rewrite (sg_fin_scan c d rd p t H Hc Hlt), E1, EF. reflexivity.
Qed.

(* the next line starts with a known method: the request is complete; the bytes looked at remain for REQ_LINE *)
Lemma sg_fin_probe c d rd p t u1 u2 m' rest' : sg_cin c d rd p None REQ_FINALIZE (Some REQ_FINALIZE) None t -> k_consume (c_in c) = rd ->
  skipn rd d = u1 ++ LF :: u2 -> sg_no_lf u1 = true -> p ++ u1 = m' ++ SP :: rest' -> wr_token m' = true ->
  (htp_convert_method_to_number m' =? c_HTP_M_UNKNOWN)%Z = false -> (length (p ++ u1) <= g_field_limit_hard g)%nat ->
  t_request_transfer_coding t = c_HTP_CODING_NO_BODY -> t_request_progress t = c_HTP_REQUEST_HEADERS ->
  (t_response_progress t =? c_HTP_RESPONSE_COMPLETE)%Z = false -> t_is_protocol_0_9 t = false ->
  exists c6, rq_iter cb g false c = inr c6 /\
    sg_idl c6 d (rd + length u1) (p ++ u1) (w_done w ++ [Some (t <| t_request_progress := c_HTP_REQUEST_COMPLETE |>)]) (w_flags w) (Some REQ_IDLE).
Proof.
  intros H Hc Hu Hnl Hp Wm Hk Hlim Htc Hprog Hresp H09.
  assert (Es : c_in_state c = REQ_FINALIZE) by apply (ci_state _ _ _ _ _ _ _ _ _ H).
  assert (Hlt' : (rd < length d)%nat).
  { destruct (Nat.lt_ge_cases rd (length d)) as [L|L]; [exact L|]. rewrite skipn_all2 in Hu by lia. destruct u1; discriminate. }
  assert (Ln : (length u1 <= length d - rd)%nat).
  { assert (L : length (skipn rd d) = length (u1 ++ LF :: u2)) by (rewrite Hu; reflexivity). rewrite skipn_length, app_length in L. cbn [length] in L. lia. }
  destruct (sg_peek_copy_lf d None _ _ _ t u2 u1 _ rd p (length d - rd) (sg_cin_next _ _ _ _ _ _ _ _ _ (nth_error d rd) H) Hu Hnl Ln) as (c1 & E1 & H1).
  destruct (sg_consolidate g c1 d _ _ None _ _ _ t H1) as (c2 & E2 & H2); [cbn [sg_olist length]; lia|].
  destruct (wr_token_split m' Wm) as (m0 & mr & Em & _).
  destruct (sg_probe_method m' rest' Wm) as [Pm Ps].
  assert (Hbd : sg_cin (c2 <| c_in_body_data_left := (-1)%Z |>) d (rd + length u1) (p ++ u1) None REQ_FINALIZE (Some REQ_FINALIZE) None t) by (apply sg_cin_bdl; exact H2).
  destruct (sg_request_complete cb g Hcb _ d _ _ _ t Hbd Htc Hprog Hresp H09) as (c3 & E3 & H3).
  apply (sg_iter_idle cb g c c3 d _ _ _ _ (Some REQ_FINALIZE)); [|exact H3].
  rewrite Es. cbn [rq_state_fn]. unfold REQ_FINALIZE_fn. rewrite (sg_fin_scan c d rd p t H Hc Hlt'), E1, E2.
  rewrite Hp.
  assert (Hm : forall (A B : st * connp), match m' ++ SP :: rest' with [] => A | _ :: _ => B end = B) by (intros; rewrite Em; reflexivity).
  rewrite Hm, Pm, Ps, Hk.
  assert (L0 : (0 <? length m')%nat = true) by (rewrite Em; reflexivity). rewrite L0. cbn [andb negb]. exact E3.
Qed.

(* ---- the pass through REQ_LINE that sees the LF, anywhere in the chunk ---- *)
Lemma sg_pass_line_at c d rd p u1 u2 t m u pr : wr_wf_request_line m u pr = true -> t_is_protocol_0_9 t = false ->
  sg_cin c d rd p None REQ_LINE (Some REQ_LINE) None t -> skipn rd d = u1 ++ LF :: u2 -> sg_no_lf u1 = true ->
  p ++ u1 ++ [LF] = wr_ser_request_line m u pr ++ [CR; LF] ->
  (length (wr_ser_request_line m u pr) + 2 <= g_field_limit_hard g)%nat ->
  exists c', rq_iter cb g false c = inr c' /\
    sg_cin c' d (rd + length u1 + 1) [] None REQ_PROTOCOL (Some REQ_PROTOCOL) None (sg_tx_line g t (wr_ser_request_line m u pr)) /\
    skipn (rd + length u1 + 1) d = u2.
Proof.
  intros W H09 H Ed Hnl Ep Hlim.
  assert (Es : c_in_state c = REQ_LINE) by apply (ci_state _ _ _ _ _ _ _ _ _ H).
  assert (Ef : rq_state_fn cb g (c_in_state c) c = REQ_LINE_fn cb g c) by (rewrite Es; reflexivity).
  unfold REQ_LINE_fn in Ef. rewrite (ci_len _ _ _ _ _ _ _ _ _ H), (ci_read _ _ _ _ _ _ _ _ _ H) in Ef.
  assert (Ln : (length u1 <= length d - rd)%nat).
  { assert (L : length (skipn rd d) = length (u1 ++ LF :: u2)) by (rewrite Ed; reflexivity). rewrite skipn_length, app_length in L. cbn [length] in L. lia. }
  destruct (sg_line_scan_lf cb g d None (Some REQ_LINE) None t u2 u1 c rd p (length d - rd) H Ed Hnl Ln) as (c1 & E1 & H1 & Hr1).
  rewrite E1 in Ef. rewrite Ep in H1.
  destruct (sg_line_complete cb g Hcb Hspace c1 d _ _ t m u pr W H09 H1 Hlim) as (c2 & E2 & H2). rewrite E2 in Ef.
  destruct (sg_iter_ok cb g c c2 d _ _ _ _ _ _ _ Ef H2) as (c3 & E3 & H3); [discriminate|].
  exists c3. split; [exact E3|]. split; [exact H3|exact Hr1].
Qed.

Lemma sg_steps_inr c c' : rq_iter cb g false c = inr c' -> forall f, rq_loop cb g (1 + f) false c = rq_loop cb g f false c'.
Proof. intros E f. apply (sg_rq_loop_inr cb g f c c' E). Qed.

(* ---- a request line: either the chunk ends inside it, or REQ_LINE and REQ_PROTOCOL lead to REQ_HEADERS ---- *)
Lemma sg_pipe_line c d rd p q (rw' bwt : bytes) m u pr :
  wr_wf_request_line m u pr = true -> (length (wr_ser_request_line m u pr) + 2 <= g_field_limit_hard g)%nat ->
  sg_cin c d rd p None REQ_LINE (Some REQ_LINE) None (sg_t1 (length (w_done w))) ->
  p ++ q = wr_ser_request_line m u pr ++ [CR; LF] -> q <> [] -> skipn rd d ++ rw' = q ++ bwt ->
  (exists cF q2, rq_iter cb g false c = inl (cF, c_HTP_STREAM_DATA) /\ sg_mid cF (p ++ skipn rd d) None REQ_LINE None (sg_t1 (length (w_done w))) /\
     q2 <> [] /\ (p ++ skipn rd d) ++ q2 = wr_ser_request_line m u pr ++ [CR; LF] /\ rw' = q2 ++ bwt) \/
  (exists c3 rd2, (forall f, rq_loop cb g (2 + f) false c = rq_loop cb g f false c3) /\
     sg_cin c3 d rd2 [] None REQ_HEADERS (Some REQ_HEADERS) (Some H_REQUEST_HEADER_DATA) (sg_th0 g (length (w_done w)) m u pr) /\
     skipn rd2 d ++ rw' = bwt /\ (rd < rd2)%nat).
Proof.
  intros Wl Hlim0 H Hpq Hq Hw. set (line0 := wr_ser_request_line m u pr) in *.
  destruct (wr_reqline_bytes m u pr Wl) as (Hnolf & _). fold line0 in Hnolf.
  assert (Eb : line0 ++ [CR; LF] = (line0 ++ [CR]) ++ [LF]) by (rewrite <- app_assoc; reflexivity).
  destruct (sg_app_cases (skipn rd d) rw' q _ Hw) as [Clt Cge].
  assert (Es : c_in_state c = REQ_LINE) by apply (ci_state _ _ _ _ _ _ _ _ _ H).
  pose proof (ci_rd _ _ _ _ _ _ _ _ _ H) as Hrd.
  destruct (Nat.lt_ge_cases (length (skipn rd d)) (length q)) as [Llt|Lge].
  - destruct (Clt Llt) as (q2 & Eq & Hq2 & Erw).
    assert (Nu : sg_no_lf (skipn rd d) = true).
    { rewrite Eq, Eb, app_assoc in Hpq. destruct (sg_app_last _ _ _ _ Hpq Hq2) as (q3 & _ & E3). unfold sg_no_lf. rewrite <- E3, <- app_assoc, !forallb_app in Hnolf.
      apply andb_prop in Hnolf. destruct Hnolf as [_ Nb]. apply andb_prop in Nb. apply Nb. }
    destruct (sg_line_scan_nolf cb g d None _ _ _ (skipn rd d) c rd p (length d - rd) H eq_refl Nu) as (c' & E & H'); [rewrite skipn_length; lia|].
    assert (Lim : (length (p ++ skipn rd d) + length (sg_olist None) <= g_field_limit_hard g)%nat).
    { assert (L : length (p ++ q) = (length line0 + 2)%nat) by (rewrite Hpq, app_length; reflexivity). rewrite app_length in L. rewrite app_length.
      cbn [sg_olist length]. unfold line0 in *. lia. }
    destruct (sg_exit_buffer cb g Hcb c' d _ None _ _ _ H' Lim) as (cF & EF & HF).
    left. exists cF, q2. split.
    + unfold rq_iter. rewrite Es. cbn [rq_state_fn]. unfold REQ_LINE_fn.
      rewrite (ci_len _ _ _ _ _ _ _ _ _ H), (ci_read _ _ _ _ _ _ _ _ _ H), E, EF. reflexivity.
    + split; [exact HF|]. split; [exact Hq2|]. split; [rewrite <- app_assoc, <- Eq; exact Hpq|exact Erw].
  - destruct (Cge Lge) as (d2 & Ed & Eaft).
    rewrite Eb in Hpq. destruct (sg_app_last _ _ _ _ Hpq Hq) as (q1 & Eq1 & Ep1).
    assert (Nq1 : sg_no_lf q1 = true) by (unfold sg_no_lf in *; rewrite <- Ep1, forallb_app in Hnolf; apply andb_prop in Hnolf; apply Hnolf).
    assert (Ed' : skipn rd d = q1 ++ LF :: d2) by (rewrite Ed, Eq1, <- app_assoc; reflexivity).
    assert (Ep : p ++ q1 ++ [LF] = wr_ser_request_line m u pr ++ [CR; LF]) by (rewrite app_assoc, Ep1; symmetry; exact Eb).
    destruct (sg_pass_line_at c d rd p q1 d2 (sg_t1 (length (w_done w))) m u pr Wl eq_refl H Ed' Nq1 Ep Hlim0) as (c2 & E2 & H2 & Hr2).
    assert (Z9 : t_is_protocol_0_9 (sg_tx_line g (sg_t1 (length (w_done w))) (wr_ser_request_line m u pr)) = false).
    { destruct (sg_tx_line_facts g Hspace (sg_t1 (length (w_done w))) m u pr Wl eq_refl) as (_ & F' & _). cbv zeta in F'. unfold wr_line_fields in F'. decompose [and] F'. assumption. }
    destruct (sg_pass_protocol cb g c2 d _ _ H2 Z9) as (c3 & E3 & H3).
    right. exists c3, (rd + length q1 + 1)%nat. split; [|split; [exact H3|split; [rewrite Hr2; symmetry; exact Eaft|lia]]].
    intros f. change (2 + f)%nat with (S (S f)). rewrite (sg_rq_loop_inr cb g _ _ _ E2), (sg_rq_loop_inr cb g _ _ _ E3). reflexivity.
Qed.

(* ---- a header block: either the chunk ends inside it, or REQ_HEADERS, REQ_CONNECT_CHECK and REQ_BODY_DETERMINE lead to REQ_FINALIZE ---- *)
Lemma sg_fafter_len tailw rem : (length tailw <= length (sg_fafter tailw rem))%nat.
Proof. destruct rem as [|l r]; cbn [sg_fafter]; [lia|]. rewrite !app_length. lia. Qed.

Lemma sg_pipe_hdrs c d rd p hdr t (rw' tailw : bytes) m u pr fs :
  wr_wf_request_line m u pr = true -> wr_block_ok fs = true ->
  existsb (fun f => wr_same (wf_name f) wr_str_content_length || wr_same (wf_name f) wr_str_transfer_encoding) fs = false ->
  wr_eqb m wr_str_connect = false ->
  sg_cin c d rd p hdr REQ_HEADERS (Some REQ_HEADERS) (Some H_REQUEST_HEADER_DATA) t ->
  sg_fhlog g (wr_block_tx fs (sg_th0 g (length (w_done w)) m u pr)) tailw hdr t p (skipn rd d ++ rw') ->
  (exists cF p' hdr' t', rq_iter cb g false c = inl (cF, c_HTP_STREAM_DATA) /\ sg_mid cF p' hdr' REQ_HEADERS (Some H_REQUEST_HEADER_DATA) t' /\
     sg_fhlog g (wr_block_tx fs (sg_th0 g (length (w_done w)) m u pr)) tailw hdr' t' p' rw' /\ rw' <> []) \/
  (exists c5 rd1 fl, (forall f, rq_loop cb g (3 + f) false c = rq_loop cb g f false c5) /\
     sg_cin c5 d rd1 [] None REQ_FINALIZE (Some REQ_FINALIZE) None (sg_tpre g (length (w_done w)) m u pr fs fl) /\
     skipn rd1 d ++ rw' = tailw /\ (rd < rd1)%nat).
Proof.
  intros Wl Wb Wnf Wc H Hlog. pose proof Hlog as (pend & tl & rem & q & Hrel & Ok & Hnp & Hrun & Hpq & Hq & Hw & Hfit).
  assert (Es : c_in_state c = REQ_HEADERS) by apply (ci_state _ _ _ _ _ _ _ _ _ H).
  assert (Ef : rq_state_fn cb g REQ_HEADERS c = REQ_HEADERS_loop cb g (length d - rd) c).
  { cbn [rq_state_fn]. unfold REQ_HEADERS_fn. rewrite (ci_len _ _ _ _ _ _ _ _ _ H), (ci_read _ _ _ _ _ _ _ _ _ H). reflexivity. }
  destruct (sg_fhdrs_loop cb g d rw' _ tailw rem c rd p q hdr t pend tl (length d - rd) H Hrel Ok Hnp Hrun Hpq Hq Hw Hfit (le_n _)) as [HA|HB].
  - destruct HA as (c' & p' & hdr' & t' & EA & HA1 & HA2 & HA3).
    assert (Lim : (length p' + length (sg_olist hdr') <= g_field_limit_hard g)%nat).
    { destruct HA2 as (pe & te & re & q' & Hr' & _ & _ & _ & Epq & _ & _ & Fit). pose proof (sg_ffit_next _ _ _ Fit) as L. rewrite <- Epq, app_length in L.
      pose proof (sg_rel_len _ _ _ _ _ Hr'). lia. }
    destruct (sg_exit_buffer cb g Hcb c' d p' hdr' _ _ t' HA1 Lim) as (cF & EF & HF).
    left. exists cF, p', hdr', t'. split; [unfold rq_iter; rewrite Es, Ef, EA, EF; reflexivity|]. split; [exact HF|]. split; [exact HA2|exact HA3].
  - destruct HB as (c' & rd1 & EB & HB1 & HB2). rewrite <- Ef in EB.
    destruct (sg_tail_fin cb g Hcb Hspace m u pr fs Wl Wb Wnf Wc c c' d rd1 Es EB HB1) as (c5 & fl & St & H5).
    right. exists c5, rd1, fl. split; [exact St|]. split; [exact H5|]. split; [exact HB2|].
    (* at least the LF of the empty line was read *)
    pose proof (ci_rd _ _ _ _ _ _ _ _ _ H5) as L1. pose proof (ci_rd _ _ _ _ _ _ _ _ _ H) as L0.
    assert (La : length (skipn rd d ++ rw') = length (q ++ sg_fafter tailw rem)) by (rewrite Hw; reflexivity).
    assert (Lb : length (skipn rd1 d ++ rw') = length tailw) by (rewrite HB2; reflexivity).
    rewrite !app_length, !skipn_length in *. pose proof (sg_fafter_len tailw rem). destruct q; [contradiction|]. cbn [length] in La. lia.
Qed.
End Pipe.

(* ================= a grammar request as a flat header block (one line per field) ================= *)
Definition sg_flat (r : wr_request) : list sg_fl := sg_block_flat (combine (wq_fields r) (sg_cuts_whole r)).
Lemma sg_whole_ok fs : forallb sg_fold_ok (combine fs (map (fun f => [wf_lws1 f ++ wf_value f ++ wf_lws2 f]) fs)) = true.
Proof.
  induction fs as [|f fs IH]; [reflexivity|]. cbn [map combine forallb]. rewrite IH, andb_true_r.
  unfold sg_fold_ok. cbn [fst snd wr_fold_ok forallb tl concat]. rewrite app_nil_r, wr_eqb_refl. reflexivity.
Qed.
Lemma sg_ffit_whole lim fs : forall prev,
  sg_ffit lim prev (sg_block_flat (combine fs (map (fun f => [wf_lws1 f ++ wf_value f ++ wf_lws2 f]) fs))) = sg_fit lim prev fs.
Proof.
  induction fs as [|f fs IH]; intros prev; [reflexivity|].
  cbn [map combine]. unfold sg_block_flat. cbn [flat_map sg_field_flat fst snd map app]. fold (sg_block_flat (combine fs (map (fun f => [wf_lws1 f ++ wf_value f ++ wf_lws2 f]) fs))).
  cbn [sg_ffit sg_fit]. rewrite IH. reflexivity.
Qed.
Lemma sg_wire_flat r : wr_request_wire r =
  wr_ser_request_line (wq_method r) (wq_uri r) (wq_protocol r) ++ [CR; LF] ++ sg_fwire (sg_flat r) ++ [CR; LF].
Proof. rewrite <- sg_fold_wire_whole. reflexivity. Qed.
Lemma sg_map_fst_whole r : map fst (combine (wq_fields r) (sg_cuts_whole r)) = wq_fields r.
Proof. apply sg_map_fst_combine. unfold sg_cuts_whole. apply map_length. Qed.

(* the start of the header block of a request *)
Lemma sg_flat_start g r th0 tailw : wr_block_ok (wq_fields r) = true -> sg_fit (g_field_limit_hard g) 0 (wq_fields r) = true ->
  sg_fhlog g (wr_block_tx (wq_fields r) th0) tailw None th0 [] (sg_fwire (sg_flat r) ++ [CR; LF] ++ tailw).
Proof.
  intros Wb Hfit. unfold sg_flat. set (fps := combine (wq_fields r) (sg_cuts_whole r)).
  assert (Hfo : forallb sg_fold_ok fps = true) by apply sg_whole_ok.
  assert (Efs : map fst fps = wq_fields r) by apply sg_map_fst_whole.
  assert (Okf : forallb (fun fp => wr_field_ok (fst fp)) fps = true).
  { pose proof (sg_okf _ Wb) as O. rewrite <- Efs in O. rewrite forallb_forall in O. apply forallb_forall. intros fp Hin. apply O. apply in_map. exact Hin. }
  destruct (sg_block_flat_ok fps Okf Hfo) as (Fok & Fnp).
  exists None, th0, (sg_block_flat fps), (sg_fnext (sg_block_flat fps)). split; [left; split; reflexivity|]. split; [exact Fok|]. split; [rewrite Fnp; discriminate|].
  split; [unfold sg_lrun; rewrite (sg_block_lrun fps _ Hfo), Efs; reflexivity|]. split; [reflexivity|]. split; [apply sg_fnext_ne|].
  split; [apply sg_fwire_split|]. unfold fps, sg_cuts_whole. rewrite sg_ffit_whole. exact Hfit.
Qed.

(* every transaction of the family reports its request *)
Lemma sg_tfin_reported g k r fl : g_allow_space_uri g = false -> wr_request_ok r = true ->
  wr_reported (sg_mask (sg_tfin g k (wq_method r) (wq_uri r) (wq_protocol r) (wq_fields r) fl)) r.
Proof.
  intros Hsp Wr. apply sg_reported_mask. destruct r as [m u p fs]. unfold wr_request_ok in Wr. cbn [wq_method wq_uri wq_protocol wq_fields] in *.
  apply andb_prop in Wr. destruct Wr as [Wr Wc]. apply andb_prop in Wr. destruct Wr as [Wr Wnf]. apply andb_prop in Wr. destruct Wr as [Wl Wb].
  unfold sg_tfin, sg_tpre.
  set (th0 := sg_th0 g k m u p). set (tb := wr_block_tx fs th0).
  destruct (sg_th0_facts g Hsp k m u p Wl) as (F & H1 & H2 & H3 & H4 & H5). fold th0 in F, H1, H2, H3, H4, H5.
  pose proof (wr_keep_h_block fs th0) as K. fold tb in K. unfold wr_keep_h in K. destruct K as (K1 & K2 & K3 & K4 & K5 & K6 & K7 & K8 & K9 & K10).
  assert (HtF : t_request_headers tb = wr_table (map wr_field_nv fs)) by (apply wr_block_tx_table; [exact Wb|exact H1|exact H2]).
  set (t5 := if fl then tx_set_flag c_HTP_MULTI_PACKET_HEAD tb else tb).
  assert (K5' : wr_keep t5 tb) by (unfold t5; destruct fl; [unfold tx_set_flag; wr_keep_now|apply wr_keep_refl]).
  destruct (sg_hdr_end_facts t5) as [KE _].
  assert (KK : wr_keep (sg_hdr_end t5) tb) by (eapply wr_keep_trans; [exact KE|exact K5']).
  unfold wr_keep in KK. destruct KK as (E1 & E2 & E3 & E4 & E5 & E6 & E7 & _).
  unfold wr_line_fields in F. destruct F as (F1 & F2 & F3 & F4 & F5 & F6).
  unfold wr_reported. cbn [wq_method wq_uri wq_protocol wq_fields].
  set (te := sg_hdr_end t5) in *.
  change (t_request_method (te <| t_request_progress := c_HTP_REQUEST_COMPLETE |>)) with (t_request_method te).
  change (t_request_method_number (te <| t_request_progress := c_HTP_REQUEST_COMPLETE |>)) with (t_request_method_number te).
  change (t_request_uri (te <| t_request_progress := c_HTP_REQUEST_COMPLETE |>)) with (t_request_uri te).
  change (t_request_protocol (te <| t_request_progress := c_HTP_REQUEST_COMPLETE |>)) with (t_request_protocol te).
  change (t_request_protocol_number (te <| t_request_progress := c_HTP_REQUEST_COMPLETE |>)) with (t_request_protocol_number te).
  change (t_is_protocol_0_9 (te <| t_request_progress := c_HTP_REQUEST_COMPLETE |>)) with (t_is_protocol_0_9 te).
  change (t_request_headers (te <| t_request_progress := c_HTP_REQUEST_COMPLETE |>)) with (t_request_headers te).
  repeat split; try congruence.
Qed.

(* HTP_CONN_PIPELINED after n transactions were created and none answered *)
Definition sg_pflags (n : nat) : N := if (2 <=? n)%nat then c_HTP_CONN_PIPELINED else 0%N.
Lemma sg_next_pflags (done : list (option tx)) : sg_next_flags done (sg_pflags (length done)) = sg_pflags (S (length done)).
Proof.
  unfold sg_next_flags, sg_pflags. destruct (length done) as [|[|n]]; [reflexivity|reflexivity|].
  cbn [Nat.ltb Nat.leb]. reflexivity.
Qed.

(* ================= n pipelined requests ================= *)
Lemma sg_Forall2_length {A B} (R : A -> B -> Prop) l1 l2 : Forall2 R l1 l2 -> length l1 = length l2.
Proof. induction 1; [reflexivity|]. cbn [length]. congruence. Qed.
Lemma sg_skipn_add {A} a b (l : list A) : skipn a (skipn b l) = skipn (b + a) l.
Proof. revert l; induction b as [|b IH]; intros l; [reflexivity|]. destruct l; [destruct a; reflexivity|]. cbn [skipn Nat.add]. apply IH. Qed.
Definition sg_req_ok (g : cfg) (r : wr_request) : bool :=
  wr_request_ok r && negb (htp_convert_method_to_number (wq_method r) =? c_HTP_M_UNKNOWN)%Z && sg_fits g r.
Definition sg_pwires (rs : list wr_request) : bytes := concat (map wr_request_wire rs).
Definition sg_rep (done : list (option tx)) (rsd : list wr_request) : Prop :=
  Forall2 (fun slot r => exists t, slot = Some t /\ wr_reported (sg_mask t) r) done rsd.
(* the world of transaction number |done|: created after |done| earlier ones, none of which has been answered *)
Definition sg_pw (done : list (option tx)) : sg_world := mk_sg_world done (sg_pflags (S (length done))).
Definition sg_line0 (r : wr_request) : bytes := wr_ser_request_line (wq_method r) (wq_uri r) (wq_protocol r).
(* the wire after the request line of r, when the requests rs' follow *)
Definition sg_bwt (r : wr_request) (rs' : list wr_request) : bytes := sg_fwire (sg_flat r) ++ [CR; LF] ++ sg_pwires rs'.
Lemma sg_pwires_cons r rs' : sg_pwires (r :: rs') = sg_line0 r ++ [CR; LF] ++ sg_bwt r rs'.
Proof. unfold sg_pwires, sg_bwt, sg_line0. cbn [map concat]. rewrite sg_wire_flat, <- !app_assoc. reflexivity. Qed.

(* the request side between two calls, between two requests *)
Record sg_imid (c : connp) (done : list (option tx)) (fl : N) : Prop := mk_sg_imid {
  im_status : sg_live (c_in_status c);
  im_state : c_in_state c = REQ_IDLE;
  im_buf : sg_olist (k_buf (c_in c)) = [];
  im_hdr : k_header (c_in c) = None;
  im_rh : k_receiver_hook (c_in c) = None;
  im_tx : c_in_tx c = None;
  im_txs : c_txs c = done;
  im_shift : c_txs_shifted c = 0%nat;
  im_flags : c_conn_flags c = fl;
  im_onext : c_out_next_tx_index c = 0%nat }.

Lemma sg_req_ok_parts g r : sg_req_ok g r = true ->
  wr_request_ok r = true /\ (htp_convert_method_to_number (wq_method r) =? c_HTP_M_UNKNOWN)%Z = false /\
  wr_wf_request_line (wq_method r) (wq_uri r) (wq_protocol r) = true /\ wr_block_ok (wq_fields r) = true /\
  existsb (fun f => wr_same (wf_name f) wr_str_content_length || wr_same (wf_name f) wr_str_transfer_encoding) (wq_fields r) = false /\
  wr_eqb (wq_method r) wr_str_connect = false /\
  (length (sg_line0 r) + 2 <= g_field_limit_hard g)%nat /\ sg_fit (g_field_limit_hard g) 0 (wq_fields r) = true.
Proof.
  unfold sg_req_ok. intros H. apply andb_prop in H. destruct H as [H Hf]. apply andb_prop in H. destruct H as [Wr Hk]. apply negb_true_iff in Hk.
  split; [exact Wr|]. split; [exact Hk|]. unfold wr_request_ok in Wr.
  apply andb_prop in Wr. destruct Wr as [Wr Wc]. apply andb_prop in Wr. destruct Wr as [Wr Wnf]. apply andb_prop in Wr. destruct Wr as [Wl Wb].
  apply negb_true_iff in Wnf. apply negb_true_iff in Wc.
  unfold sg_fits in Hf. apply andb_prop in Hf. destruct Hf as [Hl0 Hfit]. apply Nat.leb_le in Hl0.
  repeat split; assumption.
Qed.
(* the request line begins with the method and a space *)
Lemma sg_line0_shape r : exists rest, sg_line0 r ++ [CR] = wq_method r ++ SP :: rest.
Proof. unfold sg_line0, wr_ser_request_line. eexists. rewrite <- !app_assoc. cbn [app]. reflexivity. Qed.

Lemma sg_cin_cons_nil {w} c d rd hdr st prev rh t : sg_cinw w c d rd [] hdr st prev rh t -> k_consume (c_in c) = rd.
Proof.
  intros [A1 A2 A3 A4 A5 A6 A7 A8 A9 A10 A11 A12 A13 A14 A15 A16 A17]. apply app_eq_nil in A9. destruct A9 as [_ B2].
  assert (L : length (firstn (rd - k_consume (c_in c)) (skipn (k_consume (c_in c)) d)) = 0%nat) by (rewrite B2; reflexivity).
  rewrite (sg_slice_length d _ rd A8 A7) in L. lia.
Qed.

Section PipeRun.
Variable cb : cb_oracle.
Variable g : cfg.
Hypothesis Hcb : wr_all_ok cb.
Hypothesis Hspace : g_allow_space_uri g = false.
Variable all : list wr_request.
Hypothesis Hok : Forall (fun r => sg_req_ok g r = true) all.
Hypothesis Hmax : (g_max_tx g = 0 \/ length all < g_max_tx g)%nat.

Definition sg_tend (k : nat) (r : wr_request) : tx := wr_block_tx (wq_fields r) (sg_th0 g k (wq_method r) (wq_uri r) (wq_protocol r)).
Definition sg_tpre_r (k : nat) (r : wr_request) (fl : bool) : tx := sg_tpre g k (wq_method r) (wq_uri r) (wq_protocol r) (wq_fields r) fl.
Definition sg_tfin_r (k : nat) (r : wr_request) (fl : bool) : tx := sg_tfin g k (wq_method r) (wq_uri r) (wq_protocol r) (wq_fields r) fl.

(* the states between two calls: rsd = the requests that are complete, rs = the others (the first one may be in progress) *)
Inductive sg_pbetween (rsd rs : list wr_request) (c : connp) (rw : bytes) : Prop :=
| PB_idle done : sg_imid c done (sg_pflags (length done)) -> sg_rep done rsd -> rw = sg_pwires rs -> sg_pbetween rsd rs c rw
| PB_line done r rs' p q : rs = r :: rs' -> sg_rep done rsd ->
    sg_midw (sg_pw done) c p None REQ_LINE None (sg_t1 (length done)) -> p ++ q = sg_line0 r ++ [CR; LF] -> q <> [] -> rw = q ++ sg_bwt r rs' ->
    sg_pbetween rsd rs c rw
| PB_hdrs done r rs' p hdr t : rs = r :: rs' -> sg_rep done rsd ->
    sg_midw (sg_pw done) c p hdr REQ_HEADERS (Some H_REQUEST_HEADER_DATA) t -> sg_fhlog g (sg_tend (length done) r) (sg_pwires rs') hdr t p rw ->
    sg_pbetween rsd rs c rw
| PB_fin done r r' rs'' p q fl : rs = r :: r' :: rs'' -> sg_rep done rsd ->
    sg_midw (sg_pw done) c p None REQ_FINALIZE None (sg_tpre_r (length done) r fl) -> p ++ q = sg_line0 r' ++ [CR; LF] -> q <> [] -> rw = q ++ sg_bwt r' rs'' ->
    sg_pbetween rsd rs c rw.

Definition sg_pgoal (c : connp) (fuel : nat) (rw' : bytes) : Prop :=
  exists cF rc, rq_loop cb g fuel false c = (cF, rc) /\ exists rsd' rs', all = rsd' ++ rs' /\ sg_pbetween rsd' rs' cF rw'.

Lemma sg_all_in rsd r rs' : all = rsd ++ r :: rs' -> sg_req_ok g r = true.
Proof. intros E. rewrite Forall_forall in Hok. apply Hok. rewrite E. apply in_or_app. right. left. reflexivity. Qed.
Lemma sg_all_in2 rsd r r' rs'' : all = rsd ++ r :: r' :: rs'' -> sg_req_ok g r' = true.
Proof. intros E. rewrite Forall_forall in Hok. apply Hok. rewrite E. apply in_or_app. right. right. left. reflexivity. Qed.
Lemma sg_max_ok rsd r rs' done : all = rsd ++ r :: rs' -> sg_rep done rsd -> (g_max_tx g = 0 \/ length done <= g_max_tx g)%nat.
Proof.
  intros E R. pose proof (sg_Forall2_length _ _ _ R) as L. destruct Hmax as [H|H]; [left; exact H|right]. rewrite E, app_length in H. cbn [length] in H. lia.
Qed.
Lemma sg_rep_snoc done rsd r k fl : sg_rep done rsd -> wr_request_ok r = true -> sg_rep (done ++ [Some (sg_tfin_r k r fl)]) (rsd ++ [r]).
Proof.
  intros R Wr. apply Forall2_app; [exact R|]. constructor; [|constructor]. eexists. split; [reflexivity|]. apply sg_tfin_reported; assumption.
Qed.

(* what REQ_IDLE with data has to establish when the request r comes next and rs'' follow *)
Definition sg_Pidle (r : wr_request) (rs'' : list wr_request) : Prop :=
  forall rsd done c d rd p q (rw' : bytes) fuel prev,
    all = rsd ++ r :: rs'' -> sg_rep done rsd -> sg_idl c d rd p done (sg_pflags (length done)) prev -> (rd < length d)%nat ->
    p ++ q = sg_line0 r ++ [CR; LF] -> q <> [] -> skipn rd d ++ rw' = q ++ sg_bwt r rs'' ->
    (16 * (length d - rd) + 8 <= fuel)%nat -> sg_pgoal c fuel rw'.
Definition sg_Pnext (rs' : list wr_request) : Prop := match rs' with [] => True | r' :: rs'' => sg_Pidle r' rs'' end.

(* ---- the idle state after a call ---- *)
Lemma sg_imid_of_idl c d p done fl prev : sg_idl c d (length d) p done fl prev -> p = [] ->
  sg_imid (c <| c_in_status := c_HTP_STREAM_DATA |>) done fl.
Proof.
  intros [A1 A2 A3 A4 A5 A6 A7 A8 A9 A10 A11 A12 A13 A14 A15 A16 A17] Ep. rewrite Ep in A9. apply app_eq_nil in A9. destruct A9 as [B _].
  constructor; try assumption; try (right; reflexivity).
Qed.

(* ---- REQ_FINALIZE of the last request: the wire ends here ---- *)
Lemma sg_run_fin_last rsd r done c d fl (rw' : bytes) fuel :
  all = rsd ++ [r] -> sg_rep done rsd ->
  sg_cinw (sg_pw done) c d (length d) [] None REQ_FINALIZE (Some REQ_FINALIZE) None (sg_tpre_r (length done) r fl) -> rw' = [] ->
  (2 <= fuel)%nat -> sg_pgoal c fuel rw'.
Proof.
  intros Eall R H Erw Hf. destruct (sg_req_ok_parts g r (sg_all_in rsd r [] Eall)) as (Wr & _ & Wl & Wb & Wnf & Wc & _).
  destruct (sg_tpre_facts g Hspace (length done) _ _ _ _ Wl Wb Wnf fl Wc) as (_ & TC & Pg & Rp & Z9).
  destruct (sg_pass_finalize cb g Hcb c d _ _ H TC Pg Rp Z9) as (c6 & E6 & H6).
  destruct fuel as [|[|f]]; [lia|lia|].
  eexists _, _. split; [rewrite (sg_rq_loop_inr cb g _ _ _ E6), (sg_rq_loop_inl cb g _ _ _ (sg_pass_idle_end cb g c6 d _ _ _ _ H6)); reflexivity|]. exists (rsd ++ [r]), []. split; [rewrite app_nil_r; exact Eall|].
  apply (PB_idle _ _ _ _ (done ++ [Some (sg_tfin_r (length done) r fl)])).
  - cbn [w_done w_flags sg_pw] in H6. rewrite app_length. cbn [length]. rewrite Nat.add_1_r. apply (sg_imid_of_idl _ d [] _ _ _ H6 eq_refl).
  - apply sg_rep_snoc; assumption.
  - rewrite Erw. reflexivity.
Qed.

(* ---- REQ_FINALIZE when another request follows ---- *)
Lemma sg_run_fin_next rsd r r' rs'' done c d rd1 p q fl (rw' : bytes) fuel :
  sg_Pidle r' rs'' ->
  all = rsd ++ r :: r' :: rs'' -> sg_rep done rsd ->
  sg_cinw (sg_pw done) c d rd1 p None REQ_FINALIZE (Some REQ_FINALIZE) None (sg_tpre_r (length done) r fl) -> k_consume (c_in c) = rd1 ->
  p ++ q = sg_line0 r' ++ [CR; LF] -> q <> [] -> skipn rd1 d ++ rw' = q ++ sg_bwt r' rs'' -> (skipn rd1 d = [] -> p = []) ->
  (16 * (length d - rd1) + 9 <= fuel)%nat -> sg_pgoal c fuel rw'.
Proof.
  intros IH Eall R H Hc Hpq Hq Hw Hp0 Hf.
  destruct (sg_req_ok_parts g r (sg_all_in rsd r _ Eall)) as (Wr & _ & Wl & Wb & Wnf & Wc & _).
  destruct (sg_req_ok_parts g r' (sg_all_in2 rsd r r' rs'' Eall)) as (Wr' & Hk' & Wl' & _ & _ & _ & Hl0' & _).
  destruct (sg_tpre_facts g Hspace (length done) _ _ _ _ Wl Wb Wnf fl Wc) as (_ & TC & Pg & Rp & Z9).
  pose proof (ci_rd _ _ _ _ _ _ _ _ _ H) as Hrd.
  assert (Eall' : all = (rsd ++ [r]) ++ r' :: rs'') by (rewrite <- app_assoc; exact Eall).
  assert (R' : forall fl0, sg_rep (done ++ [Some (sg_tfin_r (length done) r fl0)]) (rsd ++ [r])) by (intros fl0; apply sg_rep_snoc; assumption).
  assert (Lf : length (done ++ [Some (sg_tfin_r (length done) r fl)]) = S (length done)) by (rewrite app_length; cbn [length]; lia).
  destruct (wr_reqline_bytes _ _ _ Wl') as (Hnolf & _). fold (sg_line0 r') in Hnolf.
  assert (Eb : sg_line0 r' ++ [CR; LF] = (sg_line0 r' ++ [CR]) ++ [LF]) by (rewrite <- app_assoc; reflexivity).
  destruct (Nat.eq_dec rd1 (length d)) as [Erd|Nrd].
  - (* the chunk ends with the request *)
    assert (Eu : skipn rd1 d = []) by (apply skipn_all2; lia). rewrite Eu in Hw. rewrite Erd in H. rewrite (Hp0 Eu) in *. cbn [app] in Hw, Hpq.
    destruct (sg_pass_finalize cb g Hcb c d _ _ H TC Pg Rp Z9) as (c6 & E6 & H6).
    destruct fuel as [|[|f]]; [lia|lia|].
    eexists _, _. split; [rewrite (sg_rq_loop_inr cb g _ _ _ E6), (sg_rq_loop_inl cb g _ _ _ (sg_pass_idle_end cb g c6 d _ _ _ _ H6)); reflexivity|]. exists (rsd ++ [r]), (r' :: rs''). split; [exact Eall'|].
    apply (PB_idle _ _ _ _ (done ++ [Some (sg_tfin_r (length done) r fl)])).
    + cbn [w_done w_flags sg_pw] in H6. rewrite Lf. apply (sg_imid_of_idl _ d [] _ _ _ H6 eq_refl).
    + apply R'.
    + rewrite Hw, sg_pwires_cons, Hpq, <- app_assoc. reflexivity.
  - assert (Hlt : (rd1 < length d)%nat) by lia.
    destruct (sg_app_cases (skipn rd1 d) rw' q _ Hw) as [Clt Cge].
    destruct (Nat.lt_ge_cases (length (skipn rd1 d)) (length q)) as [Llt|Lge].
    + (* no LF in the rest of the chunk *)
      destruct (Clt Llt) as (q2 & Eq & Hq2 & Erw).
      assert (Nu : sg_no_lf (skipn rd1 d) = true).
      { rewrite Eq, Eb, app_assoc in Hpq. destruct (sg_app_last _ _ _ _ Hpq Hq2) as (q3 & _ & E3). unfold sg_no_lf. rewrite <- E3, <- app_assoc, !forallb_app in Hnolf.
        apply andb_prop in Hnolf. destruct Hnolf as [_ Nb]. apply andb_prop in Nb. apply Nb. }
      assert (Lim : (length (p ++ skipn rd1 d) <= g_field_limit_hard g)%nat).
      { assert (L : length (p ++ q) = (length (sg_line0 r') + 2)%nat) by (rewrite Hpq, app_length; reflexivity). rewrite app_length in L. rewrite app_length. lia. }
      destruct (sg_fin_buffer cb g Hcb c d rd1 p _ H Hc Hlt Nu Lim) as (cF & EF & HF).
      destruct fuel as [|f]; [lia|].
      eexists _, _. split; [rewrite (sg_rq_loop_inl cb g _ _ _ EF); reflexivity|]. exists rsd, (r :: r' :: rs''). split; [exact Eall|].
      apply (PB_fin _ _ _ _ done r r' rs'' (p ++ skipn rd1 d) q2 fl eq_refl R HF); [rewrite <- app_assoc, <- Eq; exact Hpq|exact Hq2|exact Erw].
    + (* the LF of the next request line is in the chunk *)
      destruct (Cge Lge) as (d2 & Ed & Eaft).
      rewrite Eb in Hpq. destruct (sg_app_last _ _ _ _ Hpq Hq) as (q1 & Eq1 & Ep1).
      assert (Nq1 : sg_no_lf q1 = true) by (unfold sg_no_lf in *; rewrite <- Ep1, forallb_app in Hnolf; apply andb_prop in Hnolf; apply Hnolf).
      assert (Ed' : skipn rd1 d = q1 ++ LF :: d2) by (rewrite Ed, Eq1, <- app_assoc; reflexivity).
      destruct (sg_line0_shape r') as (rest' & Esh). rewrite <- Ep1 in Esh.
      assert (Wm' : wr_token (wq_method r') = true).
      { unfold wr_wf_request_line in Wl'. apply andb_prop in Wl'. destruct Wl' as [Wl' _]. apply andb_prop in Wl'. apply Wl'. }
      assert (Lim : (length (p ++ q1) <= g_field_limit_hard g)%nat) by (rewrite Ep1, app_length; cbn [length]; lia).
      destruct (sg_fin_probe cb g Hcb c d rd1 p _ q1 d2 _ rest' H Hc Ed' Nq1 Esh Wm' Hk' Lim TC Pg Rp Z9) as (c6 & E6 & H6).
      destruct fuel as [|f]; [lia|].
      cbn [w_done w_flags sg_pw] in H6. rewrite <- Lf in H6.
      assert (Hgoal : sg_pgoal c6 f rw' -> sg_pgoal c (S f) rw').
      { intros (cF & rc & E & X). exists cF, rc. split; [rewrite (sg_rq_loop_inr cb g _ _ _ E6); exact E|exact X]. }
      apply Hgoal.
      assert (Lq : (rd1 + length q1 < length d)%nat).
      { assert (L : length (skipn rd1 d) = length (q1 ++ LF :: d2)) by (rewrite Ed'; reflexivity). rewrite skipn_length, app_length in L. cbn [length] in L. lia. }
      apply (IH (rsd ++ [r]) _ c6 d (rd1 + length q1)%nat (p ++ q1) [LF] rw' f (Some REQ_IDLE) Eall' (R' fl) H6 Lq).
      * rewrite Ep1. symmetry. exact Eb.
      * discriminate.
      * rewrite <- sg_skipn_add, Ed', skipn_app, Nat.sub_diag, skipn_all. cbn [app skipn]. rewrite <- Eaft. reflexivity.
      * lia.
Qed.

Lemma sg_pgoal_steps n c c' fuel (rw' : bytes) : (forall f, rq_loop cb g (n + f) false c = rq_loop cb g f false c') -> (n <= fuel)%nat ->
  sg_pgoal c' (fuel - n) rw' -> sg_pgoal c fuel rw'.
Proof.
  intros St L (cF & rc & E & X). exists cF, rc. split; [|exact X]. replace fuel with (n + (fuel - n))%nat by lia. rewrite St. exact E.
Qed.
Lemma sg_pgoal_exit c cF fuel (rw' : bytes) rsd' rs' : rq_iter cb g false c = inl (cF, c_HTP_STREAM_DATA) -> (1 <= fuel)%nat ->
  all = rsd' ++ rs' -> sg_pbetween rsd' rs' cF rw' -> sg_pgoal c fuel rw'.
Proof.
  intros E L Ea B. destruct fuel as [|f]; [lia|]. exists cF, c_HTP_STREAM_DATA. split; [apply (sg_rq_loop_inl cb g _ _ _ E)|]. exists rsd', rs'. split; assumption.
Qed.

(* ---- a call that is in REQ_HEADERS of request r ---- *)
Lemma sg_run_hdrs rsd r rs' done c d rd p hdr t (rw' : bytes) fuel :
  sg_Pnext rs' -> all = rsd ++ r :: rs' -> sg_rep done rsd ->
  sg_cinw (sg_pw done) c d rd p hdr REQ_HEADERS (Some REQ_HEADERS) (Some H_REQUEST_HEADER_DATA) t ->
  sg_fhlog g (sg_tend (length done) r) (sg_pwires rs') hdr t p (skipn rd d ++ rw') ->
  (16 * (length d - rd) + 1 <= fuel)%nat -> sg_pgoal c fuel rw'.
Proof.
  intros IH Eall R H Hlog Hf.
  destruct (sg_req_ok_parts g r (sg_all_in rsd r _ Eall)) as (Wr & _ & Wl & Wb & Wnf & Wc & _).
  destruct (sg_pipe_hdrs cb g Hcb Hspace c d rd p hdr t rw' _ _ _ _ _ Wl Wb Wnf Wc H Hlog) as [(cF & p' & hdr' & t' & E & HF & Hl' & Hne)|(c5 & rd1 & fl & St & H5 & Hw & Hlt)].
  - apply (sg_pgoal_exit c cF fuel rw' rsd (r :: rs') E ltac:(lia) Eall). apply (PB_hdrs _ _ _ _ done r rs' p' hdr' t' eq_refl R HF Hl').
  - pose proof (ci_rd _ _ _ _ _ _ _ _ _ H5) as L1. pose proof (sg_cin_cons_nil _ _ _ _ _ _ _ _ H5) as Hc5.
    apply (sg_pgoal_steps 3 c c5 fuel rw' St ltac:(lia)).
    destruct rs' as [|r' rs''].
    + cbn [sg_pwires map concat] in Hw. apply app_eq_nil in Hw. destruct Hw as [Hs Hrw].
      assert (Erd : rd1 = length d) by (pose proof (sg_skipn_nil _ _ Hs); lia). rewrite Erd in H5.
      apply (sg_run_fin_last rsd r done c5 d fl rw' _ Eall R H5 Hrw). lia.
    + rewrite sg_pwires_cons, app_assoc in Hw.
      apply (sg_run_fin_next rsd r r' rs'' done c5 d rd1 [] (sg_line0 r' ++ [CR; LF]) fl rw' _ IH Eall R H5 Hc5 eq_refl); [|exact Hw|reflexivity|lia].
      intro E. apply app_eq_nil in E. destruct E as [_ E]. discriminate.
Qed.

(* ---- a call that is in REQ_LINE of request r ---- *)
Lemma sg_run_line rsd r rs' done c d rd p q (rw' : bytes) fuel :
  sg_Pnext rs' -> all = rsd ++ r :: rs' -> sg_rep done rsd ->
  sg_cinw (sg_pw done) c d rd p None REQ_LINE (Some REQ_LINE) None (sg_t1 (length done)) ->
  p ++ q = sg_line0 r ++ [CR; LF] -> q <> [] -> skipn rd d ++ rw' = q ++ sg_bwt r rs' ->
  (16 * (length d - rd) + 1 <= fuel)%nat -> sg_pgoal c fuel rw'.
Proof.
  intros IH Eall R H Hpq Hq Hw Hf.
  destruct (sg_req_ok_parts g r (sg_all_in rsd r _ Eall)) as (Wr & _ & Wl & Wb & Wnf & Wc & Hl0 & Hfit).
  destruct (sg_pipe_line cb g Hcb Hspace c d rd p q rw' (sg_bwt r rs') _ _ _ Wl Hl0 H Hpq Hq Hw) as [(cF & q2 & E & HF & Hq2 & Hpq2 & Erw)|(c3 & rd2 & St & H3 & Hw3 & Hlt)].
  - apply (sg_pgoal_exit c cF fuel rw' rsd (r :: rs') E ltac:(lia) Eall). apply (PB_line _ _ _ _ done r rs' _ q2 eq_refl R HF Hpq2 Hq2 Erw).
  - pose proof (ci_rd _ _ _ _ _ _ _ _ _ H3) as L3.
    apply (sg_pgoal_steps 2 c c3 fuel rw' St ltac:(lia)).
    apply (sg_run_hdrs rsd r rs' done c3 d rd2 [] None _ rw' _ IH Eall R H3); [|lia].
    rewrite Hw3. apply sg_flat_start; assumption.
Qed.

(* ---- REQ_IDLE with the beginning of request r ---- *)
Lemma sg_run_idle r rs' : sg_Pnext rs' -> sg_Pidle r rs'.
Proof.
  intros IH rsd done c d rd p q rw' fuel prev Eall R H Hlt Hpq Hq Hw Hf.
  destruct (sg_pass_idle cb g Hcb c d rd p done _ prev H Hlt (sg_max_ok rsd r rs' done Eall R)) as (c1 & E1 & H1).
  rewrite sg_next_pflags in H1. fold (sg_pw done) in H1.
  apply (sg_pgoal_steps 1 c c1 fuel rw' (sg_steps_inr cb g c c1 E1) ltac:(lia)).
  apply (sg_run_line rsd r rs' done c1 d rd p q rw' _ IH Eall R H1 Hpq Hq Hw). lia.
Qed.
Lemma sg_Pidle_all : forall rs' r, sg_Pidle r rs'.
Proof. induction rs' as [|r' rs'' IH]; intros r; apply sg_run_idle; [exact I|apply IH]. Qed.
Lemma sg_Pnext_all rs' : sg_Pnext rs'.
Proof. destruct rs' as [|r' rs'']; [exact I|apply sg_Pidle_all]. Qed.

(* ---- entering htp_connp_req_data between two requests ---- *)
Lemma sg_enter_idle c done fl (x : bytes) : sg_imid c done fl -> x <> [] ->
  exists c1, connp_req_data cb g (Some x) (length x) c = rq_loop cb g (rq_fuel (length x)) false c1 /\
             sg_idl c1 x 0 [] done fl (c_in_state_previous c).
Proof.
  intros [A1 A2 A3 A4 A5 A6 A7 A8 A9 A10] Hne. unfold connp_req_data.
  rewrite (sg_live_stop _ A1), (sg_live_error _ A1), A6, A2. cbn [req_state_eqb negb].
  assert (L0 : (length x =? 0)%nat = false) by (destruct x; [contradiction|reflexivity]). rewrite L0. cbn [andb].
  match goal with |- context [(c_in_status ?y =? c_HTP_STREAM_TUNNEL)%Z] => change (c_in_status y) with (c_in_status c) end.
  rewrite (sg_live_tunnel _ A1).
  eexists. split; [reflexivity|].
  match goal with |- sg_idl (if ?b then _ else _) _ _ _ _ _ _ => destruct b end.
  all: constructor; try assumption; try reflexivity; cbn; try lia.
  all: rewrite app_nil_r; exact A3.
Qed.

(* ---- one call of htp_connp_req_data ---- *)
Lemma sg_pstep rsd rs c (rw x rw' : bytes) : all = rsd ++ rs -> sg_pbetween rsd rs c rw -> x <> [] -> rw = x ++ rw' ->
  exists c' rc, connp_req_data cb g (Some x) (length x) c = (c', rc) /\ exists rsd' rs', all = rsd' ++ rs' /\ sg_pbetween rsd' rs' c' rw'.
Proof.
  intros Eall B Hne Ex. destruct (sg_fuel_8 x) as (f & Ef).
  assert (Lx : (0 < length x)%nat) by (destruct x; [contradiction|cbn; lia]).
  assert (Fu : (16 * (length x - 0) + 9 <= rq_fuel (length x))%nat) by (unfold rq_fuel; lia).
  destruct B as [done Hm R Erw|done r rs' p q Ers R Hm Hpq Hq Erw|done r rs' p hdr t Ers R Hm Hl|done r r' rs'' p q fl Ers R Hm Hpq Hq Erw].
  - destruct (sg_enter_idle c done _ x Hm Hne) as (c1 & E1 & H1). unfold bytes in *. rewrite E1.
    destruct rs as [|r rs'].
    + exfalso. cbn [sg_pwires map concat] in Erw. rewrite Erw in Ex. destruct x; [contradiction|discriminate].
    + rewrite sg_pwires_cons, app_assoc in Erw.
      apply (sg_Pidle_all rs' r rsd done c1 x 0 [] (sg_line0 r ++ [CR; LF]) rw' _ _ Eall R H1 Lx eq_refl).
      * intro E. apply app_eq_nil in E. destruct E as [_ E]. discriminate.
      * cbn [skipn]. rewrite <- Ex. exact Erw.
      * lia.
  - subst rs. destruct (sg_enter cb g c p None _ _ _ x Hm Hne) as (c1 & E1 & H1). unfold bytes in *. rewrite E1.
    apply (sg_run_line rsd r rs' done c1 x 0 p q rw' _ (sg_Pnext_all rs') Eall R H1 Hpq Hq); [cbn [skipn]; rewrite <- Ex; exact Erw|lia].
  - subst rs. destruct (sg_enter cb g c p hdr _ _ t x Hm Hne) as (c1 & E1 & H1). unfold bytes in *. rewrite E1.
    apply (sg_run_hdrs rsd r rs' done c1 x 0 p hdr t rw' _ (sg_Pnext_all rs') Eall R H1); [cbn [skipn]; rewrite <- Ex; exact Hl|lia].
  - subst rs. destruct (sg_enter cb g c p None _ _ _ x Hm Hne) as (c1 & E1 & H1). unfold bytes in *. rewrite E1.
    assert (Hc1 : k_consume (c_in c1) = 0%nat) by (pose proof (ci_cons _ _ _ _ _ _ _ _ _ H1); lia).
    apply (sg_run_fin_next rsd r r' rs'' done c1 x 0 p q fl rw' _ (sg_Pidle_all rs'' r') Eall R H1 Hc1 Hpq Hq); [cbn [skipn]; rewrite <- Ex; exact Erw| |lia].
    cbn [skipn]. intros E. contradiction.
Qed.

(* ---- finish_call between two calls ---- *)
Lemma sg_forget_fields c :
  k_buf (c_in (forget_chunks c <| c_events := [] |>)) = k_buf (c_in c) /\ k_header (c_in (forget_chunks c <| c_events := [] |>)) = k_header (c_in c) /\
  k_receiver_hook (c_in (forget_chunks c <| c_events := [] |>)) = k_receiver_hook (c_in c).
Proof. cbn [forget_chunks c_in set]. cbn. unfold forget_one. destruct (k_data (c_in c)); repeat split. Qed.
Lemma sg_midw_finish w c p hdr st rh t : sg_midw w c p hdr st rh t -> sg_midw w (forget_chunks c <| c_events := [] |>) p hdr st rh t.
Proof.
  intros [A1 A2 A3 A4 A5 A6 A7 A8 A9 A10 A11]. destruct (sg_forget_fields c) as (F1 & F2 & F3).
  constructor; rewrite ?F1, ?F2, ?F3; assumption.
Qed.
Lemma sg_imid_finish c done fl : sg_imid c done fl -> sg_imid (forget_chunks c <| c_events := [] |>) done fl.
Proof.
  intros [A1 A2 A3 A4 A5 A6 A7 A8 A9 A10]. destruct (sg_forget_fields c) as (F1 & F2 & F3).
  constructor; rewrite ?F1, ?F2, ?F3; assumption.
Qed.
Lemma sg_pbetween_finish rsd rs c rw : sg_pbetween rsd rs c rw -> sg_pbetween rsd rs (forget_chunks c <| c_events := [] |>) rw.
Proof.
  intros [done Hm R Erw|done r rs' p q Ers R Hm Hpq Hq Erw|done r rs' p hdr t Ers R Hm Hl|done r r' rs'' p q fl Ers R Hm Hpq Hq Erw].
  - apply (PB_idle _ _ _ _ done (sg_imid_finish _ _ _ Hm) R Erw).
  - apply (PB_line _ _ _ _ done r rs' p q Ers R (sg_midw_finish _ _ _ _ _ _ _ Hm) Hpq Hq Erw).
  - apply (PB_hdrs _ _ _ _ done r rs' p hdr t Ers R (sg_midw_finish _ _ _ _ _ _ _ Hm) Hl).
  - apply (PB_fin _ _ _ _ done r r' rs'' p q fl Ers R (sg_midw_finish _ _ _ _ _ _ _ Hm) Hpq Hq Erw).
Qed.

(* when no wire is left, every request is complete *)
Lemma sg_pbetween_end rsd rs c : all = rsd ++ rs -> sg_pbetween rsd rs c [] ->
  sg_rep (c_txs c) all /\ c_conn_flags c = sg_pflags (length all).
Proof.
  intros Eall [done Hm R Erw|done r rs' p q Ers R Hm Hpq Hq Erw|done r rs' p hdr t Ers R Hm Hl|done r r' rs'' p q fl Ers R Hm Hpq Hq Erw].
  - destruct rs as [|r rs']; [|rewrite sg_pwires_cons in Erw; symmetry in Erw; apply app_eq_nil in Erw; destruct Erw as [_ E]; discriminate].
    rewrite app_nil_r in Eall. subst rsd. rewrite (im_txs _ _ _ Hm), (im_flags _ _ _ Hm). split; [exact R|].
    rewrite (sg_Forall2_length _ _ _ R). reflexivity.
  - exfalso. destruct q; [contradiction|discriminate].
  - exfalso. destruct Hl as (pend & tl & rem & q & _ & _ & _ & _ & _ & Hq & E & _). destruct q; [contradiction|discriminate].
  - exfalso. destruct q; [contradiction|discriminate].
Qed.

(* ---- every chunk ---- *)
Lemma sg_pchunks : forall (chunks : list bytes) c rsd rs rw, all = rsd ++ rs -> sg_pbetween rsd rs c rw ->
  Forall (fun x => x <> []) chunks -> concat chunks = rw ->
  sg_rep (c_txs (fst (cp_run cb g c (map OpReqData chunks)))) all /\
  c_conn_flags (fst (cp_run cb g c (map OpReqData chunks))) = sg_pflags (length all).
Proof.
  induction chunks as [|x rest IH]; intros c rsd rs rw Eall B Hall Hc.
  - cbn [concat] in Hc. subst rw. cbn [map cp_run fst]. apply (sg_pbetween_end rsd rs c Eall B).
  - cbn [concat] in Hc. cbn [map]. rewrite sg_cp_run_cons.
    destruct (sg_pstep rsd rs c rw x (concat rest) Eall B (Forall_inv Hall) (eq_sym Hc)) as (c' & rc & E & rsd' & rs' & Eall' & B').
    unfold bytes in *. rewrite E. cbn [fst].
    apply (IH _ rsd' rs' (concat rest) Eall' (sg_pbetween_finish _ _ _ _ B') (Forall_inv_tail Hall) eq_refl).
Qed.
End PipeRun.

(* ================= the theorem: n pipelined requests, any segmentation ================= *)
Theorem sg_pipeline_fidelity : forall cb g (rs : list wr_request) (chunks : list bytes),
  wr_all_ok cb -> g_allow_space_uri g = false -> (g_max_tx g = 0 \/ length rs < g_max_tx g)%nat ->
  Forall (fun r => sg_req_ok g r = true) rs -> Forall (fun x => x <> []) chunks -> concat chunks = concat (map wr_request_wire rs) ->
  Forall2 (fun slot r => exists t, slot = Some t /\ wr_reported (sg_mask t) r)
          (c_txs (fst (cp_run cb g connp_new (OpOpen :: map OpReqData chunks)))) rs /\
  c_conn_flags (fst (cp_run cb g connp_new (OpOpen :: map OpReqData chunks))) = (if (2 <=? length rs)%nat then c_HTP_CONN_PIPELINED else 0%N).
Proof.
  intros cb g rs chunks Hcb Hsp Hmax Hok Hall Hc.
  set (c0 := forget_chunks (connp_open connp_new) <| c_events := [] |>).
  assert (E0 : fst (cp_run cb g connp_new (OpOpen :: map OpReqData chunks)) = fst (cp_run cb g c0 (map OpReqData chunks))).
  { cbn [cp_run cp_step]. unfold finish_call. fold c0. destruct (cp_run cb g c0 (map OpReqData chunks)). reflexivity. }
  rewrite E0.
  assert (Hm : sg_imid c0 [] (sg_pflags (length (@nil (option tx))))) by (constructor; try reflexivity; left; reflexivity).
  apply (sg_pchunks cb g Hcb Hsp rs Hok Hmax chunks c0 [] rs _ eq_refl (PB_idle g [] rs c0 _ [] Hm (Forall2_nil _) eq_refl) Hall Hc).
Qed.

(* HTP_CONN_PIPELINED is set iff there are at least two requests *)
Corollary sg_pipeline_flag : forall cb g (rs : list wr_request) (chunks : list bytes),
  wr_all_ok cb -> g_allow_space_uri g = false -> (g_max_tx g = 0 \/ length rs < g_max_tx g)%nat ->
  Forall (fun r => sg_req_ok g r = true) rs -> Forall (fun x => x <> []) chunks -> concat chunks = concat (map wr_request_wire rs) ->
  flag_has (c_conn_flags (fst (cp_run cb g connp_new (OpOpen :: map OpReqData chunks)))) c_HTP_CONN_PIPELINED = (2 <=? length rs)%nat.
Proof.
  intros cb g rs chunks Hcb Hsp Hmax Hok Hall Hc. destruct (sg_pipeline_fidelity cb g rs chunks Hcb Hsp Hmax Hok Hall Hc) as [_ F]. rewrite F.
  destruct (2 <=? length rs)%nat; reflexivity.
Qed.

(* ================= non-vacuity and the vm_compute harness ================= *)
(* GET /1 HTTP/1.1 | Host: a | X-Foo: a b | x-foo:\tc || GET /1 HTTP/1.0 || POST /2 HTTP/1.1 | Host: a *)
Definition sg_ex_req2 : wr_request := mk_wr_request [80;79;83;84]%N [47;50]%N wr_http11 [mk_wr_field [72;111;115;116]%N [SP] [97]%N []].
Definition sg_ex_pipe : list wr_request := [wr_ex_req; sg_ex_req0; sg_ex_req2].
Definition sg_ex_pwire : bytes := concat (map wr_request_wire sg_ex_pipe).
Example sg_ex_pipe_premises :
  forallb (sg_req_ok (sg_ex_cfg 18000)) sg_ex_pipe = true /\ length sg_ex_pwire = 99%nat /\
  (g_max_tx (sg_ex_cfg 18000) = 0 \/ length sg_ex_pipe < g_max_tx (sg_ex_cfg 18000))%nat.
Proof. split; [vm_compute; reflexivity|]. split; [vm_compute; reflexivity|]. right. vm_compute. lia. Qed.
(* what the theorem says, evaluated: in one chunk, for every single cut and byte by byte there are three transactions with
   the methods / URIs of the three requests, all complete, and the connection is flagged as pipelined *)
Definition sg_ex_pobs (chunks : list bytes) :=
  let c := fst (cp_run sg_ex_ok (sg_ex_cfg 18000) connp_new (OpOpen :: map OpReqData chunks)) in
  (map (option_map (fun t => (t_request_method t, t_request_uri t, t_request_progress t, length (t_request_headers t)))) (c_txs c),
   flag_has (c_conn_flags c) c_HTP_CONN_PIPELINED).
Example sg_ex_pipe_runs :
  sg_ex_pobs [sg_ex_pwire] =
    ([Some (Some [71;69;84], Some [47;49], c_HTP_REQUEST_COMPLETE, 2%nat); Some (Some [71;69;84], Some [47;49], c_HTP_REQUEST_COMPLETE, 0%nat);
      Some (Some [80;79;83;84], Some [47;50], c_HTP_REQUEST_COMPLETE, 1%nat)]%N, true) /\
  map sg_ex_pobs (sg_cuts1 sg_ex_pwire) = repeat (sg_ex_pobs [sg_ex_pwire]) 98 /\
  sg_ex_pobs (sg_bytewise sg_ex_pwire) = sg_ex_pobs [sg_ex_pwire] /\
  sg_ex_pobs (map wr_request_wire sg_ex_pipe) = sg_ex_pobs [sg_ex_pwire].
Proof. split; [vm_compute; reflexivity|]. split; [vm_compute; reflexivity|]. split; vm_compute; reflexivity. Qed.
(* a single request: the flag stays clear *)
Example sg_ex_pipe_single : sg_ex_pobs [wr_request_wire wr_ex_req] = ([Some (Some [71;69;84], Some [47;49], c_HTP_REQUEST_COMPLETE, 2%nat)]%N, false).
Proof. vm_compute. reflexivity. Qed.
(* the method premise excludes the known finding (an extension method directly after a request is taken for body data) *)
Example sg_ex_pipe_unknown_method :
  sg_req_ok (sg_ex_cfg 18000) (mk_wr_request [80;85;82;71;69]%N [47;50]%N wr_http11 [mk_wr_field [72;111;115;116]%N [SP] [97]%N []]) = false.
Proof. vm_compute. reflexivity. Qed.

(* ================= THEOREMS FOR RE-EXPORT (Properties_C02.v / Properties_C04.v) =================
   sg_pipeline_fidelity   Forall2 (fun slot r => exists t, slot = Some t /\ wr_reported (sg_mask t) r) (c_txs c) rs  /\
                          c_conn_flags c = (if 2 <=? length rs then c_HTP_CONN_PIPELINED else 0)
                          for c = fst (cp_run cb g connp_new (OpOpen :: map OpReqData chunks))
   sg_pipeline_flag       flag_has (c_conn_flags c) c_HTP_CONN_PIPELINED = (2 <=? length rs)
   premises: wr_all_ok cb, g_allow_space_uri g = false, g_max_tx g = 0 \/ length rs < g_max_tx g,
             Forall (fun r => sg_req_ok g r = true) rs   (sg_req_ok g r = wr_request_ok r && method known to htp_convert_method_to_number && sg_fits g r),
             Forall (fun x => x <> []) chunks, concat chunks = concat (map wr_request_wire rs) *)
Print Assumptions sg_pipeline_fidelity.
Print Assumptions sg_pipeline_flag.
